(** C04 — proofs about the model of Qremote's envelope/data/report flow.

    Layout: 1. byte-list basics (cstr, NUL-freeness, flat/split0)
            2. netget vs. the reply grammar
            3. checkreply: symbolic execution against take_reply
            4. send_envelope (both modes), send_data, main
            5. the property theorems *)
From Qv Require Import Common.Bytes Gen.GenNetio Gen.GenQremote Model.NetWriten Model.QrEnvelope Spec.QrReportSpec.
From Coq Require Import Lia ZifyBool ZifyNat ZifyN.
Local Open Scope bool_scope.

(* ================================================================== 1. basics *)
Definition nulfree (b : bytes) : Prop := Forall (fun x => x <> 0%N) b.
Definition nulfree_b (b : bytes) : bool := forallb (fun x => negb (N.eqb x 0)) b.

Lemma nulfree_b_ok b : nulfree_b b = true -> nulfree b.
Proof.
  unfold nulfree_b, nulfree. rewrite forallb_forall, Forall_forall.
  intros H x Hx. specialize (H x Hx). apply negb_true_iff, N.eqb_neq in H. exact H.
Qed.

Lemma nulfree_nil : nulfree []. Proof. constructor. Qed.
Lemma nulfree_app a b : nulfree a -> nulfree b -> nulfree (a ++ b).
Proof. unfold nulfree. intros. apply Forall_app; auto. Qed.
Lemma nulfree_cons x b : x <> 0%N -> nulfree b -> nulfree (x :: b).
Proof. unfold nulfree. intros. constructor; auto. Qed.
Lemma nulfree_app_inv a b : nulfree (a ++ b) -> nulfree a /\ nulfree b.
Proof. unfold nulfree. intros H. apply Forall_app in H. exact H. Qed.

Lemma cstr_nulfree b : nulfree (cstr b).
Proof.
  induction b as [|x b IH]; simpl; [constructor|].
  destruct (N.eqb x 0) eqn:E; [constructor|]. apply N.eqb_neq in E. constructor; auto.
Qed.

Lemma cstr_id b : nulfree b -> cstr b = b.
Proof.
  induction 1 as [|x b Hx _ IH]; simpl; [reflexivity|].
  apply N.eqb_neq in Hx. rewrite Hx, IH. reflexivity.
Qed.

Lemma concat_cstr_nulfree l : nulfree (concat (map cstr l)).
Proof. induction l; simpl; [constructor|]. apply nulfree_app; auto using cstr_nulfree. Qed.

Lemma flat_app a b : flat (a ++ b) = flat a ++ flat b.
Proof. unfold flat. rewrite map_app, concat_app. reflexivity. Qed.
Lemma flat_nil : flat [] = []. Proof. reflexivity. Qed.
Lemma flat_one r : flat [r] = r ++ [0%N]. Proof. unfold flat. simpl. rewrite app_nil_r. reflexivity. Qed.
Lemma flat_cons r rs : flat (r :: rs) = (r ++ [0%N]) ++ flat rs. Proof. reflexivity. Qed.

Lemma split0_report r s : nulfree r ->
  split0 (r ++ 0%N :: s) = (r :: fst (split0 s), snd (split0 s)).
Proof.
  induction 1 as [|x r Hx _ IH]; simpl.
  - destruct (split0 s). reflexivity.
  - rewrite IH. apply N.eqb_neq in Hx. rewrite Hx. reflexivity.
Qed.

Lemma split0_flat reps : Forall nulfree reps -> split0 (flat reps) = (reps, []).
Proof.
  induction 1 as [|r reps Hr _ IH]; [reflexivity|].
  rewrite flat_cons, <- app_assoc. simpl app. rewrite split0_report by assumption.
  rewrite IH. reflexivity.
Qed.

(* ================================================================== 2. netget vs. the reply grammar *)
Lemma line_code_range l c : line_code l = Some c -> 200 <= c <= 599.
Proof.
  unfold line_code. destruct l as [|a [|b [|d [|sep l']]]]; try discriminate.
  destruct (_ && _) eqn:E; [|discriminate]. intros H; inversion H; subst; clear H.
  unfold is_digit in E. repeat (apply andb_true_iff in E; destruct E as [E ?]). lia.
Qed.

Lemma line_code_len l c : line_code l = Some c -> 3 < length l.
Proof. unfold line_code. destruct l as [|a [|b [|d [|sep l']]]]; try discriminate. simpl. lia. Qed.

Lemma netget_code_spec l :
  netget_code l = match line_code l with Some c => Some (Z.of_nat c) | None => None end.
Proof.
  unfold netget_code, line_code, zch.
  destruct l as [|a [|b [|d [|sep l']]]]; try reflexivity.
  cbn [length nth Nat.ltb Nat.leb andb].
  unfold QR_NG_D0_MIN, QR_NG_D0_MAX, is_digit, SP, DASH.
  destruct (N.eqb sep 32 || N.eqb sep 45) eqn:Es.
  2: { rewrite !andb_false_r. reflexivity. }
  rewrite !andb_true_r.
  destruct (N.leb 50 a && N.leb a 53 && (N.leb 48 b && N.leb b 57) && (N.leb 48 d && N.leb d 57)) eqn:E.
  - repeat (apply andb_true_iff in E; destruct E as [E ?]).
    replace ((2 <=? Z.of_N a - 48)%Z && (Z.of_N a - 48 <=? 5)%Z && (0 <=? Z.of_N b - 48)%Z && (Z.of_N b - 48 <=? 9)%Z) with true by lia.
    replace ((0 <=? Z.of_N d - 48)%Z && (Z.of_N d - 48 <=? 9)%Z) with true by lia.
    f_equal. lia.
  - destruct ((2 <=? Z.of_N a - 48)%Z && (Z.of_N a - 48 <=? 5)%Z && (0 <=? Z.of_N b - 48)%Z && (Z.of_N b - 48 <=? 9)%Z) eqn:E1; [|reflexivity].
    destruct ((0 <=? Z.of_N d - 48)%Z && (Z.of_N d - 48 <=? 9)%Z) eqn:E2; [|reflexivity].
    exfalso. lia.
Qed.

(* ================================================================== 3. checkreply *)
(** [appended w w' ls]: the status stream grew by whole reports whose letters are [ls] *)
Definition rep_ok (r : bytes) : Prop := r <> [] /\ nulfree r.
Definition appended (w w' : world) (ls : list N) : Prop :=
  exists reps, w_status w' = w_status w ++ flat reps /\ map (fun r => hd 0%N r) reps = ls /\ Forall rep_ok reps.
(** the socket after an exit path: QUIT was sent or not *)
Definition net_exit (w w' : world) : Prop := w_net w' = w_net w \/ w_net w' = w_net w ++ s_QUIT.
(** an exit-path report (letter Z) was appended behind [t] *)
Definition z_appended (w w' : world) (t : bytes) : Prop :=
  exists zr, w_status w' = w_status w ++ t ++ zr ++ [0%N] /\ hd 0%N zr = L_Z /\ nulfree zr.

Lemma appended_refl w : appended w w [].
Proof. exists []. rewrite flat_nil, app_nil_r. repeat split; constructor. Qed.

Lemma appended_trans w1 w2 w3 a b : appended w1 w2 a -> appended w2 w3 b -> appended w1 w3 (a ++ b).
Proof.
  intros (r1 & H1 & M1 & F1) (r2 & H2 & M2 & F2). exists (r1 ++ r2). split; [|split].
  - rewrite H2, H1, flat_app, app_assoc. reflexivity.
  - rewrite map_app. subst a b. reflexivity.
  - apply Forall_app; auto.
Qed.

Lemma LF_ne0 : LF <> 0%N. Proof. discriminate. Qed.

Lemma term_eq : QR_STATUS_TERM = [LF; 0%N]. Proof. reflexivity. Qed.
Lemma quit_eq : cstr QR_CMD_QUIT = s_QUIT. Proof. reflexivity. Qed.
Lemma exit_code_eq : QR_EXIT_CODE = 0. Proof. reflexivity. Qed.

(** facts about the generated texts, then they stay folded *)
Lemma msg_syntax_Z x : hd 0%N (cstr QR_MSG_SYNTAX ++ x) = L_Z. Proof. reflexivity. Qed.
Lemma msg_died_Z x : hd 0%N (cstr QR_MSG_DIED ++ x) = L_Z. Proof. reflexivity. Qed.
Lemma msg_timedout_Z x : hd 0%N (cstr QR_MSG_TIMEDOUT ++ x) = L_Z. Proof. reflexivity. Qed.
Lemma msg_ioerr_Z x : hd 0%N (cstr QR_MSG_IOERR_PRE ++ x) = L_Z. Proof. reflexivity. Qed.
Lemma msg_args_Z x : hd 0%N (cstr QR_MSG_ARGS ++ x) = L_Z. Proof. reflexivity. Qed.
#[local] Opaque QR_MSG_SYNTAX QR_MSG_DIED QR_MSG_TIMEDOUT QR_MSG_IOERR_PRE QR_MSG_ARGS STRERROR_EIO.

Lemma z_report_of_text m : hd 0%N (cstr m ++ [LF]) = L_Z ->
  exists zr, cstr m ++ [LF; 0%N] = zr ++ [0%N] /\ hd 0%N zr = L_Z /\ nulfree zr.
Proof.
  intros H. exists (cstr m ++ [LF]). rewrite <- app_assoc. simpl. repeat split; auto.
  apply nulfree_app; [apply cstr_nulfree|]. apply nulfree_cons; [apply LF_ne0|constructor].
Qed.

(** exits of netget(1) / dieerror: one Z report, QUIT or not *)
Lemma syntax_exit_sem w w0 : w_sock w = true -> w_status w = w_status w0 -> w_net w = w_net w0 ->
  exists w', syntax_exit w = (0, w') /\ net_exit w0 w' /\ z_appended w0 w' [].
Proof.
  intros Hs Hst Hn. unfold syntax_exit, shutdown_clean, write_status, st_put. cbn [w_sock]. rewrite Hs.
  eexists. split; [reflexivity|]. unfold quitmsg, netwrite, net_put. cbn. split.
  - right. unfold net_exit. cbn. rewrite Hn. reflexivity.
  - destruct (z_report_of_text QR_MSG_SYNTAX (msg_syntax_Z _)) as (zr & E & Z2 & Z3).
    exists zr. cbn. rewrite Hst, term_eq, E. auto.
Qed.

Lemma died_exit_sem w : exists w', dieerror_reset w = (0, w') /\ net_exit w w' /\ z_appended w w' [].
Proof.
  unfold dieerror_reset, shutdown_abort, write_status, st_put. cbn.
  eexists. split; [reflexivity|]. cbn. split; [left; reflexivity|].
  destruct (z_report_of_text QR_MSG_DIED (msg_died_Z _)) as (zr & E & Z2 & Z3).
  exists zr. cbn. rewrite term_eq, E. auto.
Qed.

Lemma timedout_exit_sem w : exists w', dieerror_timedout w = (0, w') /\ net_exit w w' /\ z_appended w w' [].
Proof.
  unfold dieerror_timedout, shutdown_abort, write_status, st_put. cbn.
  eexists. split; [reflexivity|]. cbn. split; [left; reflexivity|].
  destruct (z_report_of_text QR_MSG_TIMEDOUT (msg_timedout_Z _)) as (zr & E & Z2 & Z3).
  exists zr. cbn. rewrite term_eq, E. auto.
Qed.

Lemma ioerr_exit_sem w : w_sock w = true ->
  exists w', shutdown_clean (write_status_m [QR_MSG_IOERR_PRE; STRERROR_EIO] w) = (0, w') /\ net_exit w w' /\ z_appended w w' [].
Proof.
  intros Hs. unfold shutdown_clean, write_status_m, st_put. cbn [w_sock]. rewrite Hs.
  eexists. split; [reflexivity|]. unfold quitmsg, netwrite, net_put. cbn. split.
  - right. reflexivity.
  - exists ((cstr QR_MSG_IOERR_PRE ++ cstr STRERROR_EIO) ++ [LF]). cbn.
    split; [|split].
    + rewrite term_eq, app_nil_r, <- !app_assoc. reflexivity.
    + rewrite <- app_assoc. apply msg_ioerr_Z.
    + repeat apply nulfree_app; try apply cstr_nulfree. apply nulfree_cons; [apply LF_ne0|constructor].
Qed.

Definition exits_with (r : (nat * world) + (Z * world)) (w : world) : Prop :=
  exists w', r = inl (0, w') /\ net_exit w w' /\ z_appended w w' [].

Lemma netget_ev_sem ev w : w_sock w = true ->
  match ev with
  | EvLine l => match line_code l with
                | Some c => netget_ev ev w = inr (Z.of_nat c, set_linein l w)
                | None => exits_with (netget_ev ev w) w
                end
  | _ => exits_with (netget_ev ev w) w
  end.
Proof.
  intros Hs. unfold exits_with. destruct ev as [l| | | | |]; cbn [netget_ev].
  - rewrite netget_code_spec. destruct (line_code l) as [c|]; [reflexivity|].
    destruct (syntax_exit_sem (set_linein l w) w) as (w' & E & H); auto. exists w'. rewrite E. auto.
  - destruct (syntax_exit_sem w w) as (w' & E & H); auto. exists w'. rewrite E. auto.
  - destruct (syntax_exit_sem w w) as (w' & E & H); auto. exists w'. rewrite E. auto.
  - destruct (ioerr_exit_sem w Hs) as (w' & E & H). exists w'. rewrite E. auto.
  - destruct (timedout_exit_sem w) as (w' & E & H). exists w'. rewrite E. auto.
  - destruct (died_exit_sem w) as (w' & E & H). exists w'. rewrite E. auto.
Qed.

(** the rest of the reply after the line in linein *)
Definition cont_rest (l : bytes) (scr : script) : option script := if is_cont l then skip_cont scr else Some scr.

Lemma take_reply_line l scr c : line_code l = Some c ->
  take_reply (EvLine l :: scr) =
  match cont_rest l scr with Some r => RComplete c (is_cont l) r | None => RBrokenCont c end.
Proof. intros H. unfold take_reply, cont_rest. rewrite H. destruct (is_cont l); reflexivity. Qed.

Lemma ml_loop_eq ignore scr w :
  ml_loop ignore scr w =
  if N.eqb (nth 3 (w_linein w) 0%N) DASH then
    let w1 := if ignore then w else write_status_raw (cont_line (w_linein w)) w in
    match scr with
    | [] => exit_with (dieerror_reset w1)
    | ev :: scr' =>
        match netget_ev ev w1 with
        | inr (_, w2) => ml_loop ignore scr' w2
        | inl e => exit_with e
        end
    end
  else Ret tt scr w.
Proof. destruct scr; reflexivity. Qed.

Lemma cont_line_nulfree l : nulfree (cont_line l).
Proof.
  unfold cont_line. change QR_CR_CONT_STRLEN with true. cbv iota.
  apply nulfree_app; [apply cstr_nulfree|]. apply nulfree_cons; [apply LF_ne0|constructor].
Qed.

Lemma ml_loop_sem scr : forall ignore w, w_sock w = true ->
  match cont_rest (w_linein w) scr with
  | Some rest => exists w' t, ml_loop ignore scr w = Ret tt rest w' /\ w_sock w' = true /\ w_net w' = w_net w
                              /\ w_status w' = w_status w ++ t /\ nulfree t /\ (ignore = true -> t = [])
  | None => exists w' t, ml_loop ignore scr w = Exit 0 w' /\ net_exit w w' /\ z_appended w w' t
                         /\ nulfree t /\ (ignore = true -> t = [])
  end.
Proof.
  induction scr as [|ev scr IH]; intros ignore w Hs; rewrite ml_loop_eq; unfold cont_rest, is_cont;
    destruct (N.eqb (nth 3 (w_linein w) 0%N) DASH) eqn:Ec.
  - (* script exhausted inside the reply *)
    cbn [skip_cont].
    set (t1 := if ignore then [] else cont_line (w_linein w)).
    set (w1 := if ignore then w else write_status_raw (cont_line (w_linein w)) w).
    assert (H1 : w_status w1 = w_status w ++ t1 /\ w_net w1 = w_net w /\ w_sock w1 = true).
    { subst w1 t1. destruct ignore; cbn; rewrite ?app_nil_r; auto. }
    destruct H1 as (S1 & N1 & K1). cbv zeta.
    destruct (died_exit_sem w1) as (w' & E & NE & (zr & Z1 & Z2 & Z3)).
    exists w', t1. rewrite E. unfold exit_with. cbn [fst snd]. split; [reflexivity|]. split.
    { unfold net_exit in *. rewrite <- N1. exact NE. } split.
    { exists zr. rewrite Z1, S1. cbn [app]. rewrite <- app_assoc. auto. } split.
    { subst t1. destruct ignore; [constructor|apply cont_line_nulfree]. }
    { intros ->. reflexivity. }
  - exists w, []. rewrite app_nil_r. repeat split; auto. constructor.
  - set (t1 := if ignore then [] else cont_line (w_linein w)).
    set (w1 := if ignore then w else write_status_raw (cont_line (w_linein w)) w).
    assert (H1 : w_status w1 = w_status w ++ t1 /\ w_net w1 = w_net w /\ w_sock w1 = true).
    { subst w1 t1. destruct ignore; cbn; rewrite ?app_nil_r; auto. }
    destruct H1 as (S1 & N1 & K1). cbv zeta.
    assert (T1 : nulfree t1) by (subst t1; destruct ignore; [constructor|apply cont_line_nulfree]).
    assert (I1 : ignore = true -> t1 = []) by (intros ->; reflexivity).
    pose proof (netget_ev_sem ev w1 K1) as HN.
    assert (Hexit : exits_with (netget_ev ev w1) w1 ->
      exists w' t, match netget_ev ev w1 with inr (_, w2) => ml_loop ignore scr w2 | inl e => exit_with e end = Exit 0 w'
        /\ net_exit w w' /\ z_appended w w' t /\ nulfree t /\ (ignore = true -> t = [])).
    { intros (w' & E & NE & (zr & Z1 & Z2 & Z3)). exists w', t1. rewrite E. unfold exit_with. cbn [fst snd].
      split; [reflexivity|]. split; [unfold net_exit in *; rewrite <- N1; exact NE|].
      split; [|auto]. exists zr. rewrite Z1, S1. cbn [app]. rewrite <- app_assoc. auto. }
    destruct ev as [l| | | | |]; cbn [skip_cont]; try (apply Hexit; exact HN).
    destruct (line_code l) as [c|] eqn:El; [|apply Hexit; exact HN].
    rewrite HN. specialize (IH ignore (set_linein l w1) K1). cbn [set_linein w_linein] in IH.
    change (if is_cont l then skip_cont scr else Some scr) with (cont_rest l scr).
    destruct (cont_rest l scr) as [rest|].
    + destruct IH as (w' & t & E & K' & N' & S' & T' & I'). exists w', (t1 ++ t). rewrite E.
      cbn [set_linein w_net w_status] in *. repeat split; auto.
      * rewrite N', N1. reflexivity.
      * rewrite S', S1, app_assoc. reflexivity.
      * apply nulfree_app; auto.
      * intros Hi. rewrite I1, I' by exact Hi. reflexivity.
    + destruct IH as (w' & t & E & NE & (zr & Z1 & Z2 & Z3) & T' & I'). exists w', (t1 ++ t). rewrite E.
      cbn [set_linein w_net w_status] in *. split; [reflexivity|]. split.
      { unfold net_exit in *. rewrite <- N1. exact NE. } split.
      { exists zr. rewrite Z1, S1, <- !app_assoc. auto. } split.
      { apply nulfree_app; auto. }
      { intros Hi. rewrite I1, I' by exact Hi. reflexivity. }
  - exists w, []. rewrite app_nil_r. repeat split; auto. constructor.
Qed.

(** what checkreply() does with a reply of code [c], as functions of the call-site arguments *)
Definition cr_silent (status : option bytes) (c : nat) : bool :=
  match status with None => true | Some st => is_2xx c && N.eqb (nth 0 st 0%N) SP end.
Definition cr_idx (c : nat) : nat := if is_2xx c then 0 else if is_4xx c then 1 else 2.
Definition cr_letter (status : option bytes) (c : nat) : N :=
  match status with Some st => nth (cr_idx c) st 0%N | None => 0%N end.
Definition cr_early (mask : N) (c : nat) : bool := is_2xx c && negb (N.eqb (N.land mask QR_CR_NOMSG_MASK) 0).
Definition st_ok (status : option bytes) : Prop :=
  match status with
  | Some st => nth 0 st 0%N <> 0%N /\ nth 1 st 0%N <> 0%N /\ nth 2 st 0%N <> 0%N
  | None => True
  end.

Lemma class_2xx c : ((QR_SUCCESS_MINIMUM_STATUS <=? Z.of_nat c)%Z && (Z.of_nat c <=? QR_SUCCESS_MAXIMUM_STATUS)%Z) = is_2xx c.
Proof. unfold QR_SUCCESS_MINIMUM_STATUS, QR_SUCCESS_MAXIMUM_STATUS, is_2xx. lia. Qed.
Lemma class_4xx c : ((QR_TEMP_MINIMUM_STATUS <=? Z.of_nat c)%Z && (Z.of_nat c <=? QR_TEMP_MAXIMUM_STATUS)%Z) = is_4xx c.
Proof. unfold QR_TEMP_MINIMUM_STATUS, QR_TEMP_MAXIMUM_STATUS, is_4xx. lia. Qed.

Lemma cr_idx_letter st c : st_ok (Some st) -> nth (cr_idx c) st 0%N <> 0%N.
Proof. intros (H0 & H1 & H2). unfold cr_idx. destruct (is_2xx c); [auto|]. destruct (is_4xx c); auto. Qed.

(** the head block: what it appends and what [ignore] becomes *)
Lemma cr_idx_0 c : Nat.eqb (cr_idx c) 0 = is_2xx c.
Proof. unfold cr_idx. destruct (is_2xx c); [reflexivity|]. destruct (is_4xx c); reflexivity. Qed.

Lemma cr_head_sem status pre mask c w1 : st_ok status ->
  exists w2 t,
    cr_head status pre mask (Z.of_nat c) w1 = (cr_silent status c || cr_early mask c, w2)
    /\ w_sock w2 = w_sock w1 /\ w_net w2 = w_net w1 /\ w_linein w2 = w_linein w1
    /\ w_status w2 = w_status w1 ++ t
    /\ (cr_silent status c = true -> t = [])
    /\ (cr_silent status c = false ->
        exists p, nulfree p /\ t = cr_letter status c :: p ++ (if cr_early mask c then [0%N] else [])).
Proof.
  intros Hst. unfold cr_head. destruct status as [st|].
  2: { exists w1, []. cbn. rewrite app_nil_r. repeat split; auto; discriminate. }
  rewrite class_2xx, class_4xx.
  assert (Hpair : (if is_2xx c then (if N.eqb (nth 0 st 0%N) SP then (true, 0) else (false, 0))
                   else if is_4xx c then (false, 1) else (false, 2)) = (cr_silent (Some st) c, cr_idx c)).
  { unfold cr_silent, cr_idx. destruct (is_2xx c); [destruct (N.eqb (nth 0 st 0%N) SP); reflexivity|].
    destruct (is_4xx c); reflexivity. }
  rewrite Hpair. clear Hpair.
  destruct (cr_silent (Some st) c) eqn:Esil.
  { exists w1, []. cbn. rewrite app_nil_r. repeat split; auto; discriminate. }
  cbn [orb]. rewrite cr_idx_0. fold (cr_early mask c).
  set (ptxt := match pre with
               | Some p => if negb (N.eqb (N.land (N.shiftl 1 (N.of_nat (cr_idx c))) mask) 0) then concat (map cstr p) else []
               | None => [] end).
  assert (Hp : nulfree ptxt).
  { subst ptxt. destruct pre; [|constructor]. destruct (negb _); [apply concat_cstr_nulfree|constructor]. }
  set (wb := match pre with
             | Some p => if negb (N.eqb (N.land (N.shiftl 1 (N.of_nat (cr_idx c))) mask) 0)
                         then write_status_raw_m p (write_status_raw [nth (cr_idx c) st 0%N] w1)
                         else write_status_raw [nth (cr_idx c) st 0%N] w1
             | None => write_status_raw [nth (cr_idx c) st 0%N] w1 end).
  assert (Hwb : w_sock wb = w_sock w1 /\ w_net wb = w_net w1 /\ w_linein wb = w_linein w1
                /\ w_status wb = w_status w1 ++ nth (cr_idx c) st 0%N :: ptxt).
  { subst wb ptxt. destruct pre as [p|]; [destruct (negb _)|]; cbn; rewrite <- ?app_assoc; auto. }
  destruct Hwb as (B1 & B2 & B3 & B4).
  destruct (cr_early mask c) eqn:Eearly.
  - eexists. exists (nth (cr_idx c) st 0%N :: ptxt ++ [0%N]). split; [reflexivity|]. cbn.
    rewrite B1, B2, B3, B4, <- app_assoc. repeat split; auto; try discriminate.
    intros _. exists ptxt. split; auto.
  - exists wb, (nth (cr_idx c) st 0%N :: ptxt). split; [reflexivity|].
    rewrite B1, B2, B3, B4. repeat split; auto; try discriminate.
    intros _. exists ptxt. rewrite app_nil_r. split; auto.
Qed.

Lemma clamp_id c : 200 <= c -> (if (Z.of_nat c <? QR_CR_CLAMP_BELOW)%Z then QR_CR_CLAMP_TO else Z.of_nat c) = Z.of_nat c.
Proof. intros H. unfold QR_CR_CLAMP_BELOW. destruct (Z.ltb_spec (Z.of_nat c) 200); [lia|reflexivity]. Qed.

Lemma appended_one w w' r l : w_status w' = w_status w ++ r ++ [0%N] -> hd 0%N r = l -> r <> [] -> nulfree r ->
  appended w w' [l].
Proof.
  intros H Hl Hne Hn. exists [r]. rewrite flat_one. split; [exact H|]. split.
  - cbn. rewrite Hl. reflexivity.
  - constructor; [split; assumption|constructor].
Qed.

Lemma z_appended_one w w' : z_appended w w' [] -> appended w w' [L_Z].
Proof.
  intros (zr & H & Hl & Hn). apply (appended_one w w' zr); auto.
  intros ->. discriminate Hl.
Qed.

(** checkreply() against the reply grammar *)
Lemma checkreply_sem status pre mask scr w : w_sock w = true -> st_ok status ->
  match take_reply scr with
  | RComplete c _ rest =>
      exists w', checkreply status pre mask scr w = Ret (Z.of_nat c) rest w' /\ w_sock w' = true /\ w_net w' = w_net w
                 /\ appended w w' (if cr_silent status c then [] else [cr_letter status c])
  | RBrokenFirst =>
      exists w', checkreply status pre mask scr w = Exit 0 w' /\ net_exit w w' /\ appended w w' [L_Z]
  | RBrokenCont c =>
      exists w', checkreply status pre mask scr w = Exit 0 w' /\ net_exit w w'
                 /\ appended w w' (if cr_silent status c then [L_Z]
                                   else if cr_early mask c then [cr_letter status c; L_Z] else [cr_letter status c])
  end.
Proof.
  intros Hs Hst. unfold checkreply.
  assert (Hbf : forall e, exits_with e w ->
            exists w', exit_with (A:=Z) match e with inl x => x | inr _ => (0, w) end = Exit 0 w' /\ net_exit w w' /\ appended w w' [L_Z]).
  { intros e (w' & -> & NE & ZA). exists w'. unfold exit_with. cbn. auto using z_appended_one. }
  destruct scr as [|ev scr].
  { cbn [take_reply netget1]. destruct (died_exit_sem w) as (w' & E & NE & ZA). exists w'.
    rewrite E. unfold exit_with. cbn. auto using z_appended_one. }
  pose proof (netget_ev_sem ev w Hs) as HN. cbn [netget1].
  assert (Hbroken : exits_with (netget_ev ev w) w ->
     exists w', match match netget_ev ev w with inr (c, w1) => Ret c scr w1 | inl e => exit_with e end with
                | Ret res scr1 w1 =>
                    let '(ignore, w2) := cr_head status pre mask res w1 in
                    match ml_loop ignore scr1 w2 with
                    | Ret _ scr3 w3 => Ret (if (res <? QR_CR_CLAMP_BELOW)%Z then QR_CR_CLAMP_TO else res) scr3
                                         (if ignore then w3 else write_status (w_linein w3) w3)
                    | Exit c w' => Exit c w'
                    | Unmodelled y => Unmodelled y
                    end
                | Exit c w' => Exit c w'
                | Unmodelled y => Unmodelled y
                end = Exit 0 w' /\ net_exit w w' /\ appended w w' [L_Z]).
  { intros (w' & E & NE & ZA). exists w'. rewrite E. unfold exit_with. cbn. auto using z_appended_one. }
  destruct ev as [l| | | | |]; try (cbn [take_reply]; apply Hbroken; exact HN).
  destruct (line_code l) as [c|] eqn:El.
  2: { unfold take_reply. rewrite El. apply Hbroken. exact HN. }
  rewrite (take_reply_line l scr c El). rewrite HN. clear Hbroken Hbf HN.
  pose proof (line_code_range l c El) as Hc.
  destruct (cr_head_sem status pre mask c (set_linein l w) Hst) as (w2 & t & EH & K2 & N2 & L2 & S2 & Tsil & Tnon).
  rewrite EH. cbn [set_linein w_sock w_net w_linein w_status] in K2, N2, L2, S2.
  assert (K2' : w_sock w2 = true) by (rewrite K2; exact Hs).
  pose proof (ml_loop_sem scr (cr_silent status c || cr_early mask c) w2 K2') as HM. rewrite L2 in HM.
  destruct (cont_rest l scr) as [rest|].
  - (* whole reply *)
    destruct HM as (w3 & tm & EM & K3 & N3 & S3 & Tm & Im). rewrite EM, clamp_id by lia.
    eexists. split; [reflexivity|].
    destruct (cr_silent status c) eqn:Esil.
    + cbn [orb]. rewrite K3, N3, N2. repeat split; auto.
      exists []. rewrite flat_nil, app_nil_r, S3, S2, Tsil, Im, !app_nil_r by reflexivity. repeat split; constructor.
    + destruct (Tnon eq_refl) as (p & Hp & ->). cbn [orb].
      destruct (cr_early mask c) eqn:Eearly.
      * rewrite K3, N3, N2. repeat split; auto.
        apply (appended_one w w3 (cr_letter status c :: p)); auto; [|discriminate|].
        { rewrite S3, S2, Im, app_nil_r by reflexivity. reflexivity. }
        { apply nulfree_cons; auto. destruct status; [apply cr_idx_letter; exact Hst|discriminate Esil]. }
      * cbn [write_status st_put w_sock w_net w_status]. rewrite K3, N3, N2. repeat split; auto.
        apply (appended_one _ _ ((cr_letter status c :: p) ++ tm ++ cstr (w_linein w3) ++ [LF])); auto.
        { unfold write_status, st_put. cbn [w_status]. rewrite S3, S2, term_eq, app_nil_r, <- !app_assoc. cbn. reflexivity. }
        { discriminate. }
        { apply nulfree_app; [|apply nulfree_app; [exact Tm|]].
          - apply nulfree_cons; auto. destruct status; [apply cr_idx_letter; exact Hst|discriminate Esil].
          - apply nulfree_app; [apply cstr_nulfree|]. apply nulfree_cons; [apply LF_ne0|constructor]. }
  - (* the reply does not end *)
    destruct HM as (w3 & tm & EM & NE & (zr & Z1 & Z2 & Z3) & Tm & Im). rewrite EM.
    exists w3. split; [reflexivity|]. split; [unfold net_exit in *; rewrite <- N2; exact NE|].
    assert (Zne : zr <> []) by (intros ->; discriminate Z2).
    destruct (cr_silent status c) eqn:Esil.
    + apply (appended_one w w3 zr); auto.
      rewrite Z1, S2, Tsil, Im, !app_nil_r by reflexivity. reflexivity.
    + destruct (Tnon eq_refl) as (p & Hp & ->). cbn [orb] in *.
      assert (Hl : cr_letter status c <> 0%N) by (destruct status; [apply cr_idx_letter; exact Hst|discriminate Esil]).
      destruct (cr_early mask c) eqn:Eearly.
      * exists [cr_letter status c :: p; zr]. repeat split.
        { rewrite Z1, S2, Im by reflexivity. unfold flat. cbn. rewrite <- !app_assoc. cbn. rewrite <- !app_assoc. reflexivity. }
        { cbn. rewrite Z2. reflexivity. }
        { repeat constructor; auto; try discriminate. }
      * apply (appended_one w w3 ((cr_letter status c :: p) ++ tm ++ zr)); auto.
        { rewrite Z1, S2, app_nil_r, <- !app_assoc. cbn. reflexivity. }
        { discriminate. }
        { apply nulfree_app; [apply nulfree_cons; auto|]. apply nulfree_app; auto. }
Qed.

(* ================================================================== 4. send_envelope, send_data, main *)
(** net_writen() on a line that fits: one write, the parts and CRLF *)
Lemma parts_loop_short ps : forall msg out, length msg + length (concat ps) <= 510 ->
  parts_loop msg out ps = Ok (msg ++ concat ps, out).
Proof.
  induction ps as [|p ps IH]; intros msg out H; cbn [parts_loop concat].
  - rewrite app_nil_r. reflexivity.
  - cbn [concat] in H. rewrite app_length in H. unfold part_step.
    unfold NW_MSG, NW_FLUSH_MARGIN.
    destruct (Nat.ltb_spec (512 - 2) (length msg + length p)); [lia|].
    destruct (Nat.ltb_spec 512 (length msg + length p)); [lia|].
    cbn [bind]. rewrite IH by (rewrite app_length; lia). rewrite app_assoc. reflexivity.
Qed.

Lemma net_writen_cmd_short parts w : parts <> [] -> length (concat (map cstr parts)) <= 510 ->
  net_writen_cmd parts w = Ok (net_put (concat (map cstr parts) ++ CRLF) w).
Proof.
  intros Hne H. unfold net_writen_cmd. destruct parts as [|s0 ps]; [congruence|].
  cbn [map concat] in *. rewrite app_length in H. unfold net_writen. unfold NW_MSG.
  destruct (Nat.ltb_spec 512 (length (cstr s0))); [lia|].
  rewrite parts_loop_short by lia. cbn [bind].
  destruct (Nat.ltb_spec 512 (length (cstr s0 ++ concat (map cstr ps)) + 2)); [rewrite app_length in *; lia|].
  cbn. rewrite app_nil_r. reflexivity.
Qed.

Definition short_line (l : bytes) : Prop := length l <= 512.   (* including CRLF *)

Lemma rcpt_cmd_short r w : short_line (rcpt_line r) ->
  net_writen_cmd [QR_CMD_RCPT; r; QR_CMD_RCPT_END] w = Ok (net_put (rcpt_line r) w).
Proof.
  intros H. unfold short_line, rcpt_line in H. rewrite !app_length in H. cbn in H.
  rewrite net_writen_cmd_short; [|discriminate|].
  - do 2 f_equal. unfold rcpt_line. cbn [map concat]. rewrite app_nil_r.
    change (cstr QR_CMD_RCPT) with s_RCPT. change (cstr QR_CMD_RCPT_END) with s_GT.
    rewrite <- !app_assoc. reflexivity.
  - cbn [map concat]. change (cstr QR_CMD_RCPT) with s_RCPT. change (cstr QR_CMD_RCPT_END) with s_GT.
    rewrite !app_length. cbn. lia.
Qed.

(** the letters of the RCPT TO phase by the reply grammar *)
Definition rcpt_letter (c : nat) : N := cr_letter (Some QR_ST_RCPT) c.
Definition stat_of (acc : bool) : Z := if acc then 0%Z else 1%Z.

Inductive rphase :=
| RPDone (ls : list N) (acc : bool) (rest : script)   (* all replies whole: letters, a recipient accepted?, rest *)
| RPExit (ls : list N) (d : nat).                    (* exit while reading reply number d (0-based) *)

Fixpoint ref_rcpts (k : nat) (acc : bool) (scr : script) : rphase :=
  match k with
  | O => RPDone [] acc scr
  | S k' =>
      match take_reply scr with
      | RComplete c _ rest =>
          match ref_rcpts k' (acc || is_2xx c) rest with
          | RPDone ls a r => RPDone (rcpt_letter c :: ls) a r
          | RPExit ls d => RPExit (rcpt_letter c :: ls) (S d)
          end
      | RBrokenFirst => RPExit [L_Z] 0
      | RBrokenCont c => RPExit (if is_2xx c then [rcpt_letter c; L_Z] else [rcpt_letter c]) 0
      end
  end.

Lemma st_rcpt_ok : st_ok (Some QR_ST_RCPT). Proof. cbn. repeat split; discriminate. Qed.
Lemma st_mail_ok : st_ok (Some QR_ST_MAIL). Proof. cbn. repeat split; discriminate. Qed.
Lemma st_dot_ok : st_ok (Some QR_ST_DOT). Proof. cbn. repeat split; discriminate. Qed.

Lemma rcpt_silent c : cr_silent (Some QR_ST_RCPT) c = false.
Proof. unfold cr_silent. cbn. apply andb_false_r. Qed.
Lemma rcpt_early c : cr_early QR_MASK_RCPT c = is_2xx c.
Proof. unfold cr_early. cbn. apply andb_true_r. Qed.

Lemma ok_below c : 200 <= c -> (Z.of_nat c <? QR_RCPT_OK_BELOW)%Z = is_2xx c.
Proof. intros H. unfold QR_RCPT_OK_BELOW, is_2xx. lia. Qed.

Lemma stat_step acc c : 200 <= c ->
  (if (Z.of_nat c <? QR_RCPT_OK_BELOW)%Z then 0%Z else stat_of acc) = stat_of (acc || is_2xx c).
Proof. intros H. rewrite ok_below by exact H. unfold stat_of. destruct acc, (is_2xx c); reflexivity. Qed.

Lemma take_reply_code_range scr c m rest : take_reply scr = RComplete c m rest -> 200 <= c <= 599.
Proof.
  unfold take_reply. destruct scr as [|[l| | | | |] scr]; try discriminate.
  destruct (line_code l) as [c'|] eqn:E; [|discriminate].
  apply line_code_range in E. destruct (is_cont l); [destruct (skip_cont scr)|]; intros H; inversion H; subst; exact E.
Qed.

(** one RCPT TO reply through checkreply("rsh", NULL, 8) *)
Lemma rcpt_reply_sem scr w : w_sock w = true ->
  match take_reply scr with
  | RComplete c _ rest =>
      exists w', checkreply (Some QR_ST_RCPT) None QR_MASK_RCPT scr w = Ret (Z.of_nat c) rest w' /\ w_sock w' = true
                 /\ w_net w' = w_net w /\ appended w w' [rcpt_letter c]
  | RBrokenFirst =>
      exists w', checkreply (Some QR_ST_RCPT) None QR_MASK_RCPT scr w = Exit 0 w' /\ net_exit w w' /\ appended w w' [L_Z]
  | RBrokenCont c =>
      exists w', checkreply (Some QR_ST_RCPT) None QR_MASK_RCPT scr w = Exit 0 w' /\ net_exit w w'
                 /\ appended w w' (if is_2xx c then [rcpt_letter c; L_Z] else [rcpt_letter c])
  end.
Proof.
  intros Hs. pose proof (checkreply_sem (Some QR_ST_RCPT) None QR_MASK_RCPT scr w Hs st_rcpt_ok) as H.
  destruct (take_reply scr) as [c m rest| |c]; auto.
  - rewrite rcpt_silent in H. exact H.
  - rewrite rcpt_silent, rcpt_early in H. exact H.
Qed.

(** the reply loop of the PIPELINING branch *)
Lemma rcpt_replies_sem k : forall acc scr w, w_sock w = true ->
  match ref_rcpts k acc scr with
  | RPDone ls a rest =>
      exists w', rcpt_replies k (stat_of acc) scr w = Ret (stat_of a) rest w' /\ w_sock w' = true
                 /\ w_net w' = w_net w /\ appended w w' ls
  | RPExit ls d =>
      exists w', rcpt_replies k (stat_of acc) scr w = Exit 0 w' /\ net_exit w w' /\ appended w w' ls
  end.
Proof.
  induction k as [|k IH]; intros acc scr w Hs; cbn [ref_rcpts rcpt_replies].
  - exists w. repeat split; auto using appended_refl.
  - pose proof (rcpt_reply_sem scr w Hs) as H1.
    destruct (take_reply scr) as [c m rest| |c] eqn:ET.
    + destruct H1 as (w1 & E1 & K1 & N1 & A1). rewrite E1.
      rewrite stat_step by (apply take_reply_code_range in ET; lia).
      specialize (IH (acc || is_2xx c) rest w1 K1).
      destruct (ref_rcpts k (acc || is_2xx c) rest) as [ls a r|ls d].
      * destruct IH as (w' & E & K' & N' & A'). exists w'. rewrite E. repeat split; auto; [congruence|].
        apply (appended_trans w w1 w' [rcpt_letter c] ls); auto.
      * destruct IH as (w' & E & NE & A'). exists w'. rewrite E. repeat split; auto.
        { unfold net_exit in *. rewrite <- N1. exact NE. }
        apply (appended_trans w w1 w' [rcpt_letter c] ls); auto.
    + destruct H1 as (w' & E & NE & A). exists w'. rewrite E. auto.
    + destruct H1 as (w' & E & NE & A). exists w'. rewrite E. auto.
Qed.

(** the one-by-one loop: every RCPT TO is written just before its reply is read *)
Lemma rcpt_each_sem rs : forall acc scr w, w_sock w = true -> Forall (fun r => short_line (rcpt_line r)) rs ->
  match ref_rcpts (length rs) acc scr with
  | RPDone ls a rest =>
      exists w', rcpt_each rs (stat_of acc) scr w = Ret (stat_of a) rest w' /\ w_sock w' = true
                 /\ w_net w' = w_net w ++ concat (map rcpt_line rs) /\ appended w w' ls
  | RPExit ls d =>
      exists w' q, rcpt_each rs (stat_of acc) scr w = Exit 0 w' /\ (q = [] \/ q = s_QUIT) /\ d < length rs
                   /\ w_net w' = w_net w ++ concat (map rcpt_line (firstn (S d) rs)) ++ q /\ appended w w' ls
  end.
Proof.
  induction rs as [|r rs IH]; intros acc scr w Hs Hsh; cbn [length ref_rcpts rcpt_each].
  - exists w. cbn. rewrite app_nil_r. repeat split; auto using appended_refl.
  - inversion Hsh as [|? ? Hr Hrs]; subst. rewrite rcpt_cmd_short by exact Hr.
    set (w0 := net_put (rcpt_line r) w).
    assert (K0 : w_sock w0 = true) by exact Hs.
    pose proof (rcpt_reply_sem scr w0 K0) as H1.
    assert (Aw : forall w' ls, appended w0 w' ls -> appended w w' ls) by (intros w' ls H; exact H).
    destruct (take_reply scr) as [c m rest| |c] eqn:ET.
    + destruct H1 as (w1 & E1 & K1 & N1 & A1). rewrite E1.
      rewrite stat_step by (apply take_reply_code_range in ET; lia).
      specialize (IH (acc || is_2xx c) rest w1 K1 Hrs).
      destruct (ref_rcpts (length rs) (acc || is_2xx c) rest) as [ls a r'|ls d].
      * destruct IH as (w' & E & K' & N' & A'). exists w'. rewrite E. repeat split; auto.
        { rewrite N', N1. subst w0. cbn [net_put w_net map concat]. rewrite <- app_assoc. reflexivity. }
        apply (appended_trans w w1 w' [rcpt_letter c] ls); auto.
      * destruct IH as (w' & q & E & Hq & Hd & N' & A'). exists w', q. rewrite E. repeat split; auto; [lia| |].
        { rewrite N', N1. subst w0. cbn [net_put w_net map concat firstn]. rewrite <- !app_assoc. reflexivity. }
        apply (appended_trans w w1 w' [rcpt_letter c] ls); auto.
    + destruct H1 as (w' & E & NE & A). rewrite E.
      destruct NE as [NE|NE]; [exists w', []|exists w', s_QUIT]; repeat split; auto; try lia;
        rewrite NE; subst w0; cbn [net_put w_net map concat firstn]; rewrite ?app_nil_r, <- ?app_assoc; reflexivity.
    + destruct H1 as (w' & E & NE & A). rewrite E.
      destruct NE as [NE|NE]; [exists w', []|exists w', s_QUIT]; repeat split; auto; try lia;
        rewrite NE; subst w0; cbn [net_put w_net map concat firstn]; rewrite ?app_nil_r, <- ?app_assoc; reflexivity.
Qed.

(** the PIPELINING branch writes every RCPT TO, four to a write *)
Lemma pipe_rcpts_sem rs : forall idx n cur w, idx + length rs = n ->
  let w' := pipe_rcpts idx n rs cur w in
  w_sock w' = w_sock w /\ w_status w' = w_status w /\ w_linein w' = w_linein w /\
  w_net w' = w_net w ++ match rs with
                        | [] => []
                        | r :: rs' => concat (map cstr cur) ++ cstr r ++ s_GT ++ CRLF ++ concat (map rcpt_line rs')
                        end.
Proof.
  induction rs as [|r rs IH]; intros idx n cur w Hn; cbn [pipe_rcpts].
  - rewrite app_nil_r. auto.
  - cbn [length] in Hn.
    destruct (Nat.eqb idx (n - 1) || Nat.eqb (Nat.modulo idx QR_PIPE_MOD) QR_PIPE_REM) eqn:Efl.
    + specialize (IH (S idx) n [QR_CMD_RCPT] (net_write_multiline ((cur ++ [r]) ++ [QR_CMD_PIPE_END]) w) ltac:(lia)).
      cbv zeta in IH. destruct IH as (K & S1 & L1 & N1). repeat split; auto. rewrite N1.
      unfold net_write_multiline, net_put. cbn [w_net]. rewrite !map_app, !concat_app. cbn [map concat].
      change (cstr QR_CMD_PIPE_END) with (s_GT ++ CRLF). change (cstr QR_CMD_RCPT) with s_RCPT.
      rewrite !app_nil_r, <- !app_assoc. do 4 f_equal.
      destruct rs as [|r2 rs]; [reflexivity|]. cbn [map concat]. unfold rcpt_line. rewrite <- !app_assoc. reflexivity.
    + destruct rs as [|r2 rs].
      { exfalso. apply orb_false_iff in Efl. destruct Efl as [E1 _]. apply Nat.eqb_neq in E1. cbn in Hn. lia. }
      specialize (IH (S idx) n ((cur ++ [r]) ++ [QR_CMD_PIPE_NEXT]) w ltac:(lia)).
      cbv zeta in IH. destruct IH as (K & S1 & L1 & N1). repeat split; auto. rewrite N1.
      rewrite !map_app, !concat_app. cbn [map concat].
      change (cstr QR_CMD_PIPE_NEXT) with (s_GT ++ CRLF ++ s_RCPT).
      rewrite !app_nil_r, <- !app_assoc. do 3 f_equal. unfold rcpt_line. rewrite <- !app_assoc. reflexivity.
Qed.

(** the MAIL FROM line of this input *)
Definition actual_params (i : input) : bytes :=
  (if has (i_ext i) QR_ESMTP_SIZE then s_SIZE ++ cstr (i_sizestr i) else [])
  ++ (if has (i_ext i) QR_ESMTP_8BITMIME
      then (if negb (N.eqb (N.land (i_recodeflag i) 1) 0) then s_BODY8 else s_BODY7) else []).

Lemma mail_parts_bytes i : concat (map cstr (mail_parts i)) = s_MAIL ++ cstr (i_sender i) ++ s_GT ++ actual_params i.
Proof.
  unfold mail_parts, actual_params. rewrite !map_app, !concat_app. cbn [map concat].
  change (cstr QR_CMD_MAIL) with s_MAIL.
  destruct (has (i_ext i) QR_ESMTP_SIZE); destruct (has (i_ext i) QR_ESMTP_8BITMIME);
    try destruct (negb (N.eqb (N.land (i_recodeflag i) 1) 0)); cbn [map concat];
    change (cstr QR_CMD_SIZE) with (s_GT ++ s_SIZE); change (cstr QR_CMD_GT) with s_GT;
    change (cstr QR_CMD_BODY8) with s_BODY8; change (cstr QR_CMD_BODY7) with s_BODY7;
    rewrite ?app_nil_r, <- ?app_assoc; reflexivity.
Qed.

Lemma actual_params_in i : In (actual_params i) (mail_params i).
Proof.
  unfold actual_params, mail_params.
  destruct (has (i_ext i) QR_ESMTP_SIZE); destruct (has (i_ext i) QR_ESMTP_8BITMIME);
    try destruct (negb (N.eqb (N.land (i_recodeflag i) 1) 0)); rewrite ?app_nil_r; cbn [app In]; tauto.
Qed.

Lemma mail_parts_ne i : mail_parts i <> [].
Proof. unfold mail_parts. discriminate. Qed.

Definition mail_letter (c : nat) : N := cr_letter (Some QR_ST_MAIL) c.
Definition dot_letter (c : nat) : N := cr_letter (Some QR_ST_DOT) c.

Lemma mail_silent c : cr_silent (Some QR_ST_MAIL) c = is_2xx c.
Proof. unfold cr_silent. cbn. apply andb_true_r. Qed.
Lemma mail_early c : cr_early QR_MASK_MAIL c = false.
Proof. unfold cr_early. cbn. apply andb_false_r. Qed.
Lemma dot_silent c : cr_silent (Some QR_ST_DOT) c = false.
Proof. unfold cr_silent. cbn. apply andb_false_r. Qed.
Lemma dot_early c : cr_early QR_MASK_DOT c = false.
Proof. unfold cr_early. cbn. apply andb_false_r. Qed.

Lemma fail_from c : 200 <= c -> (QR_FAIL_FROM <=? Z.of_nat c)%Z = negb (is_2xx c).
Proof. intros H. unfold QR_FAIL_FROM, is_2xx. lia. Qed.

(** MAIL FROM reply through checkreply(" ZD", mailerrmsg, 6) *)
Lemma mail_reply_sem rhost scr w : w_sock w = true ->
  match take_reply scr with
  | RComplete c _ rest =>
      exists w', checkreply (Some QR_ST_MAIL) (Some (mailerrmsg rhost)) QR_MASK_MAIL scr w = Ret (Z.of_nat c) rest w'
                 /\ w_sock w' = true /\ w_net w' = w_net w /\ appended w w' (if is_2xx c then [] else [mail_letter c])
  | RBrokenFirst =>
      exists w', checkreply (Some QR_ST_MAIL) (Some (mailerrmsg rhost)) QR_MASK_MAIL scr w = Exit 0 w'
                 /\ net_exit w w' /\ appended w w' [L_Z]
  | RBrokenCont c =>
      exists w', checkreply (Some QR_ST_MAIL) (Some (mailerrmsg rhost)) QR_MASK_MAIL scr w = Exit 0 w'
                 /\ net_exit w w' /\ appended w w' (if is_2xx c then [L_Z] else [mail_letter c])
  end.
Proof.
  intros Hs. pose proof (checkreply_sem (Some QR_ST_MAIL) (Some (mailerrmsg rhost)) QR_MASK_MAIL scr w Hs st_mail_ok) as H.
  destruct (take_reply scr) as [c m rest| |c]; auto.
  - rewrite mail_silent in H. exact H.
  - rewrite mail_silent, mail_early in H. exact H.
Qed.

(** draining the RCPT TO replies after MAIL FROM was refused *)
Lemma drain_replies_sem k : forall scr w, w_sock w = true ->
  if whole_replies k scr
  then exists w' rest, drain_replies k scr w = Ret tt rest w' /\ w_sock w' = true /\ w_net w' = w_net w /\ appended w w' []
  else exists w', drain_replies k scr w = Exit 0 w' /\ net_exit w w' /\ appended w w' [L_Z].
Proof.
  induction k as [|k IH]; intros scr w Hs; cbn [whole_replies drain_replies].
  - exists w, scr. auto using appended_refl.
  - pose proof (checkreply_sem None None 0 scr w Hs I) as H. cbn [cr_silent] in H.
    destruct (take_reply scr) as [c m rest| |c].
    + destruct H as (w1 & E1 & K1 & N1 & A1). rewrite E1. specialize (IH rest w1 K1).
      destruct (whole_replies k rest).
      * destruct IH as (w' & rest' & E & K' & N' & A'). exists w', rest'. rewrite E. repeat split; auto; [congruence|].
        apply (appended_trans w w1 w' [] []); auto.
      * destruct IH as (w' & E & NE & A'). exists w'. rewrite E. repeat split; auto.
        { unfold net_exit in *. rewrite <- N1. exact NE. }
        apply (appended_trans w w1 w' [] [L_Z]); auto.
    + destruct H as (w' & E & NE & A). exists w'. rewrite E. auto.
    + destruct H as (w' & E & NE & A). exists w'. rewrite E. auto.
Qed.

(** the envelope phase by the reply grammar: report letters, RCPT TO commands sent when they
    go out one by one, and the rest of the script if DATA follows *)
Definition pipel (i : input) : bool := has (i_ext i) QR_ESMTP_PIPELINING.
Definition ref_env (i : input) : list N * nat * option script :=
  let n := length (i_rcpts i) in
  match take_reply (i_script i) with
  | RBrokenFirst => ([L_Z], 0, None)
  | RBrokenCont c => ((if is_2xx c then [L_Z] else [mail_letter c]), 0, None)
  | RComplete c _ rest =>
      if negb (is_2xx c)
      then ([mail_letter c] ++ (if pipel i && negb (whole_replies n rest) then [L_Z] else []), 0, None)
      else match ref_rcpts n false rest with
           | RPExit ls d => (ls, S d, None)
           | RPDone ls a rest' => (ls, n, if a then Some rest' else None)
           end
  end.

Definition env_sent (i : input) (j : nat) : bytes :=
  mail_line i (actual_params i) ++ concat (map rcpt_line (firstn (if pipel i then length (i_rcpts i) else j) (i_rcpts i))).

(** how the envelope phase ends when DATA does not follow: exit inside, or return non-zero
    and main() shuts down cleanly *)
Definition env_stops (i : input) (w w' : world) : Prop :=
  send_envelope i (i_script i) w = Exit 0 w'
  \/ exists z rest w1, send_envelope i (i_script i) w = Ret z rest w1 /\ z <> 0%Z /\ exit_with (A:=unit) (shutdown_clean w1) = Exit 0 w'.

Definition env_post (i : input) (w : world) : Prop :=
  let '(ls, j, k) := ref_env i in
  match k with
  | Some rest =>
      exists w', send_envelope i (i_script i) w = Ret 0%Z rest w' /\ w_sock w' = true
                 /\ w_net w' = w_net w ++ env_sent i (length (i_rcpts i)) /\ appended w w' ls
  | None =>
      exists w' q, env_stops i w w' /\ (q = [] \/ q = s_QUIT) /\ w_net w' = w_net w ++ env_sent i j ++ q /\ appended w w' ls
  end.

Lemma clean_after w1 : w_sock w1 = true ->
  exists w', exit_with (A:=unit) (shutdown_clean w1) = Exit 0 w' /\ w_net w' = w_net w1 ++ s_QUIT /\ w_status w' = w_status w1.
Proof.
  intros H. unfold exit_with, shutdown_clean. rewrite H. cbn [fst snd]. eexists. split; [reflexivity|]. cbn. auto.
Qed.

Lemma firstn_len {A} (l : list A) : firstn (length l) l = l.
Proof. apply firstn_all. Qed.

Lemma send_envelope_nopipe i w : w_sock w = true -> pipel i = false ->
  short_line (mail_line i (actual_params i)) -> Forall (fun r => short_line (rcpt_line r)) (i_rcpts i) ->
  env_post i w.
Proof.
  intros Hs Hp Hm Hr. unfold env_post, ref_env, env_sent, env_stops, send_envelope. fold (pipel i). rewrite Hp.
  cbn [andb].
  assert (Hmail : net_writen_cmd (mail_parts i) w = Ok (net_put (mail_line i (actual_params i)) w)).
  { rewrite net_writen_cmd_short.
    - rewrite mail_parts_bytes. unfold mail_line. rewrite <- !app_assoc. reflexivity.
    - apply mail_parts_ne.
    - rewrite mail_parts_bytes. unfold short_line, mail_line in Hm. rewrite !app_length in *. cbn in *. lia. }
  rewrite Hmail. set (w1 := net_put (mail_line i (actual_params i)) w).
  assert (K1 : w_sock w1 = true) by exact Hs.
  pose proof (mail_reply_sem (i_rhost i) (i_script i) w1 K1) as HM.
  destruct (take_reply (i_script i)) as [c m rest| |c] eqn:ET.
  - destruct HM as (w2 & E2 & K2 & N2 & A2). rewrite E2.
    rewrite fail_from by (apply take_reply_code_range in ET; lia).
    destruct (is_2xx c) eqn:E2xx; cbn [negb].
    + pose proof (rcpt_each_sem (i_rcpts i) false rest w2 K2 Hr) as HR. cbn [stat_of] in HR.
      destruct (ref_rcpts (length (i_rcpts i)) false rest) as [ls a rest'|ls d].
      * destruct HR as (w3 & E3 & K3 & N3 & A3). destruct a; cbn [stat_of] in E3.
        { exists w3. rewrite E3, firstn_len. repeat split; auto.
          - rewrite N3, N2. subst w1. cbn [net_put w_net]. rewrite <- app_assoc. reflexivity.
          - apply (appended_trans w w2 w3 [] ls); auto. }
        { destruct (clean_after w3 K3) as (w' & EC & NC & SC). exists w', s_QUIT. repeat split; auto.
          - right. exists 1%Z, rest', w3. repeat split; auto. discriminate.
          - rewrite NC, N3, N2, firstn_len. subst w1. cbn [net_put w_net]. rewrite <- !app_assoc. reflexivity.
          - destruct (appended_trans w w2 w3 [] ls A2 A3) as (reps & H1 & H2 & H3). exists reps. rewrite SC. auto. }
      * destruct HR as (w3 & q & E3 & Hq & Hd & N3 & A3). exists w3, q. repeat split; auto.
        { rewrite N3, N2. subst w1. cbn [net_put w_net]. rewrite <- !app_assoc. reflexivity. }
        apply (appended_trans w w2 w3 [] ls); auto.
    + destruct (clean_after w2 K2) as (w' & EC & NC & SC). exists w', s_QUIT. repeat split; auto.
      * right. exists 1%Z, rest, w2. repeat split; auto. discriminate.
      * rewrite NC, N2. subst w1. cbn [net_put w_net firstn map concat]. rewrite app_nil_r, <- !app_assoc. reflexivity.
      * rewrite app_nil_r. destruct A2 as (reps & H1 & H2 & H3). exists reps. rewrite SC. auto.
  - destruct HM as (w2 & E2 & NE & A2). rewrite E2.
    destruct NE as [NE|NE]; [exists w2, []|exists w2, s_QUIT]; repeat split; auto;
      rewrite NE; subst w1; cbn [net_put w_net firstn map concat]; rewrite ?app_nil_r, <- ?app_assoc; reflexivity.
  - destruct HM as (w2 & E2 & NE & A2). rewrite E2.
    destruct NE as [NE|NE]; [exists w2, []|exists w2, s_QUIT]; repeat split; auto;
      rewrite NE; subst w1; cbn [net_put w_net firstn map concat]; rewrite ?app_nil_r, <- ?app_assoc; reflexivity.
Qed.

Lemma send_envelope_pipe i w : w_sock w = true -> pipel i = true -> i_rcpts i <> [] -> env_post i w.
Proof.
  intros Hs Hp Hne. unfold env_post, ref_env, env_sent, env_stops, send_envelope. fold (pipel i). rewrite Hp.
  cbn [andb]. rewrite firstn_len.
  destruct (i_rcpts i) as [|r0 rs] eqn:ER; [congruence|]. cbn [nth tl]. clear Hne.
  set (n := length (r0 :: rs)).
  set (w1 := net_write_multiline (mail_parts i ++ [QR_CMD_PIPE_FIRST; r0; QR_CMD_PIPE_END]) w).
  set (w2 := pipe_rcpts 1 n rs [QR_CMD_RCPT] w1).
  assert (H2 : w_sock w2 = true /\ w_status w2 = w_status w
               /\ w_net w2 = w_net w ++ mail_line i (actual_params i) ++ concat (map rcpt_line (r0 :: rs))).
  { destruct (pipe_rcpts_sem rs 1 n [QR_CMD_RCPT] w1 eq_refl) as (K & S1 & L1 & N1). fold w2 in K, S1, L1, N1.
    split; [rewrite K; exact Hs|]. split; [rewrite S1; reflexivity|]. rewrite N1.
    subst w1. unfold net_write_multiline, net_put. cbn [w_net]. rewrite map_app, concat_app, mail_parts_bytes.
    cbn [map concat]. change (cstr QR_CMD_PIPE_FIRST) with (CRLF ++ s_RCPT). change (cstr QR_CMD_PIPE_END) with (s_GT ++ CRLF).
    change (cstr QR_CMD_RCPT) with s_RCPT. unfold mail_line, rcpt_line. rewrite !app_nil_r, <- !app_assoc.
    do 9 f_equal. destruct rs as [|r2 rs]; [reflexivity|]. cbn [map concat]. unfold rcpt_line.
    rewrite <- !app_assoc. reflexivity. }
  destruct H2 as (K2 & S2 & N2).
  assert (Aw : forall w' ls, appended w2 w' ls -> appended w w' ls).
  { intros w' ls (reps & H1 & H3 & H4). exists reps. rewrite H1, S2. auto. }
  pose proof (mail_reply_sem (i_rhost i) (i_script i) w2 K2) as HM.
  destruct (take_reply (i_script i)) as [c m rest| |c] eqn:ET.
  - destruct HM as (w3 & E3 & K3 & N3 & A3). rewrite E3.
    rewrite fail_from by (apply take_reply_code_range in ET; lia).
    destruct (is_2xx c) eqn:E2xx; cbn [negb].
    + pose proof (rcpt_replies_sem n false rest w3 K3) as HR. cbn [stat_of] in HR.
      destruct (ref_rcpts n false rest) as [ls a rest'|ls d].
      * destruct HR as (w4 & E4 & K4 & N4 & A4). rewrite E4. destruct a; cbn [stat_of].
        { exists w4. repeat split; auto; [congruence|]. apply Aw, (appended_trans w2 w3 w4 [] ls); auto. }
        { destruct (clean_after w4 K4) as (w' & EC & NC & SC). exists w', s_QUIT. repeat split; auto.
          - right. exists 1%Z, rest', w4. repeat split; auto. discriminate.
          - rewrite NC, N4, N3, N2, <- !app_assoc. reflexivity.
          - apply Aw. destruct (appended_trans w2 w3 w4 [] ls A3 A4) as (reps & H1 & H3 & H4). exists reps. rewrite SC. auto. }
      * destruct HR as (w4 & E4 & NE & A4). rewrite E4.
        assert (A : appended w w4 ls) by (apply Aw, (appended_trans w2 w3 w4 [] ls); auto).
        destruct NE as [NE|NE]; [exists w4, []|exists w4, s_QUIT]; repeat split; auto;
          rewrite NE, N3, N2, ?app_nil_r, <- ?app_assoc; reflexivity.
    + pose proof (drain_replies_sem n rest w3 K3) as HD.
      destruct (whole_replies n rest); cbn [negb app].
      * destruct HD as (w4 & rest' & E4 & K4 & N4 & A4). rewrite E4.
        destruct (clean_after w4 K4) as (w' & EC & NC & SC). exists w', s_QUIT. repeat split; auto.
        { right. exists 1%Z, rest', w4. repeat split; auto. discriminate. }
        { rewrite NC, N4, N3, N2, <- !app_assoc. reflexivity. }
        { apply Aw. destruct (appended_trans w2 w3 w4 [mail_letter c] [] A3 A4) as (reps & H1 & H3 & H4).
          exists reps. rewrite SC. auto. }
      * destruct HD as (w4 & E4 & NE & A4). rewrite E4.
        assert (A : appended w w4 [mail_letter c; L_Z]) by (apply Aw, (appended_trans w2 w3 w4 [mail_letter c] [L_Z]); auto).
        destruct NE as [NE|NE]; [exists w4, []|exists w4, s_QUIT]; repeat split; auto;
          rewrite NE, N3, N2, ?app_nil_r, <- ?app_assoc; reflexivity.
  - destruct HM as (w3 & E3 & NE & A3). rewrite E3.
    destruct NE as [NE|NE]; [exists w3, []|exists w3, s_QUIT]; repeat split; auto;
      rewrite NE, N2, ?app_nil_r, <- ?app_assoc; reflexivity.
  - destruct HM as (w3 & E3 & NE & A3). rewrite E3.
    destruct NE as [NE|NE]; [exists w3, []|exists w3, s_QUIT]; repeat split; auto;
      rewrite NE, N2, ?app_nil_r, <- ?app_assoc; reflexivity.
Qed.

(** DATA and the end of data by the reply grammar: letters, and whether the body was sent *)
Definition dot_letters (scr : script) : list N :=
  match take_reply scr with
  | RComplete c _ _ => [dot_letter c]
  | RBrokenFirst => [L_Z]
  | RBrokenCont c => [dot_letter c]
  end.
Definition ref_data (rest : script) : list N * bool :=
  match rest with
  | EvLine l :: rest' =>
      match line_code l with
      | Some c => if Nat.eqb c 354 then (dot_letters rest', true)
                  else ([if Nat.leb 500 c then L_D else L_Z], false)
      | None => ([L_Z], false)
      end
  | _ => ([L_Z], false)
  end.

Definition data_then_exit (i : input) (scr : script) (w : world) : res unit :=
  match send_data i scr w with
  | Ret _ _ w2 => exit_with (shutdown_clean w2)
  | Exit c w' => Exit c w'
  | Unmodelled y => Unmodelled y
  end.

Lemma rej_perm_D x : hd 0%N (cstr QR_DATA_REJ_PERM ++ x) = L_D. Proof. reflexivity. Qed.
Lemma rej_temp_Z x : hd 0%N (cstr QR_DATA_REJ_TEMP ++ x) = L_Z. Proof. reflexivity. Qed.
Lemma data_go c : negb (Z.of_nat c =? QR_DATA_GO)%Z = negb (Nat.eqb c 354).
Proof. unfold QR_DATA_GO. f_equal. destruct (Nat.eqb_spec c 354); lia. Qed.
Lemma data_perm c : (QR_DATA_PERM_FROM <=? Z.of_nat c)%Z = Nat.leb 500 c.
Proof. unfold QR_DATA_PERM_FROM. lia. Qed.
#[local] Opaque QR_DATA_REJ_TXT.

Lemma send_data_sem i rest w : w_sock w = true ->
  let '(ls, body) := ref_data rest in
  exists w' q, data_then_exit i rest w = Exit 0 w' /\ (q = [] \/ q = s_QUIT)
    /\ w_net w' = w_net w ++ s_DATA ++ (if body then i_body i ++ end_of_data i else []) ++ q
    /\ appended w w' ls.
Proof.
  intros Hs. unfold data_then_exit, send_data.
  set (w1 := netwrite QR_CMD_DATA w).
  assert (H1 : w_sock w1 = true /\ w_status w1 = w_status w /\ w_net w1 = w_net w ++ s_DATA) by (subst w1; cbn; auto).
  destruct H1 as (K1 & S1 & N1).
  assert (Aw : forall w' ls, appended w1 w' ls -> appended w w' ls).
  { intros w' ls (reps & H1 & H3 & H4). exists reps. rewrite H1, S1. auto. }
  assert (Hexit : forall w0, net_exit w1 w0 -> z_appended w1 w0 [] ->
            exists w' q, Exit (A:=unit) 0 w0 = Exit 0 w'
              /\ (q = [] \/ q = s_QUIT) /\ w_net w' = w_net w ++ s_DATA ++ [] ++ q /\ appended w w' [L_Z]).
  { intros w0 NE ZA.
    destruct NE as [NE|NE]; [exists w0, []|exists w0, s_QUIT]; repeat split; auto using z_appended_one;
      rewrite NE, N1, ?app_nil_r, <- ?app_assoc; reflexivity. }
  destruct rest as [|ev rest'].
  { cbn [ref_data netget1]. destruct (died_exit_sem w1) as (w0 & E & NE & ZA). rewrite E.
    unfold exit_with. cbn [fst snd]. apply Hexit; assumption. }
  pose proof (netget_ev_sem ev w1 K1) as HN. cbn [netget1].
  destruct ev as [l| | | | |]; cbn [ref_data];
    try (destruct HN as (w0 & E0 & NE & ZA); rewrite E0; unfold exit_with; cbn [fst snd]; apply Hexit; assumption).
  destruct (line_code l) as [c|] eqn:El;
    [|destruct HN as (w0 & E0 & NE & ZA); rewrite E0; unfold exit_with; cbn [fst snd]; apply Hexit; assumption].
  rewrite HN. clear Hexit. rewrite data_go, data_perm.
  set (w2 := set_linein l w1).
  destruct (Nat.eqb c 354) eqn:E354; cbn [negb].
  - (* go ahead: body, end of data, the final reply *)
    set (w4 := netwrite (if i_lastlf i then QR_DOT_AFTER_LF else QR_DOT_NO_LF) (net_put (i_body i) w2)).
    assert (H4 : w_sock w4 = true /\ w_status w4 = w_status w /\ w_net w4 = w_net w ++ s_DATA ++ i_body i ++ end_of_data i).
    { subst w4 w2. unfold netwrite, net_put. cbn [set_linein w_sock w_status w_net].
      rewrite N1, S1, <- !app_assoc. repeat split; auto. do 3 f_equal.
      unfold end_of_data. destruct (i_lastlf i); reflexivity. }
    destruct H4 as (K4 & S4 & N4).
    assert (Aw4 : forall w' ls, appended w4 w' ls -> appended w w' ls).
    { intros w' ls (reps & H1 & H3 & H4). exists reps. rewrite H1, S4. auto. }
    pose proof (checkreply_sem (Some QR_ST_DOT) (Some (successmsg i)) QR_MASK_DOT rest' w4 K4 st_dot_ok) as HC.
    unfold dot_letters.
    destruct (take_reply rest') as [c2 m rest2| |c2].
    + rewrite dot_silent in HC. destruct HC as (w5 & E5 & K5 & N5 & A5). rewrite E5.
      destruct (clean_after w5 K5) as (w' & EC & NC & SC). exists w', s_QUIT. repeat split; auto.
      * rewrite NC, N5, N4, <- !app_assoc. reflexivity.
      * apply Aw4. destruct A5 as (reps & H1 & H3 & H4). exists reps. rewrite SC. auto.
    + destruct HC as (w5 & E5 & NE & A5). rewrite E5.
      destruct NE as [NE|NE]; [exists w5, []|exists w5, s_QUIT]; repeat split; auto;
        rewrite NE, N4, ?app_nil_r, <- ?app_assoc; reflexivity.
    + rewrite dot_silent, dot_early in HC. destruct HC as (w5 & E5 & NE & A5). rewrite E5.
      destruct NE as [NE|NE]; [exists w5, []|exists w5, s_QUIT]; repeat split; auto;
        rewrite NE, N4, ?app_nil_r, <- ?app_assoc; reflexivity.
  - (* DATA refused: one report, clean shutdown *)
    unfold exit_with, shutdown_clean, write_status_m, st_put. cbn [w_sock set_linein fst snd]. subst w2.
    cbn [set_linein w_sock]. rewrite K1. cbn [fst snd]. eexists. exists s_QUIT.
    split; [reflexivity|]. split; [auto|]. split.
    { unfold quitmsg, netwrite, net_put. cbn [w_net w_status w_linein w_sock set_linein].
      change (cstr QR_CMD_QUIT) with s_QUIT. rewrite N1, <- !app_assoc. reflexivity. }
    unfold quitmsg, netwrite, net_put. cbn [w_net w_status w_linein w_sock set_linein]. cbn [map concat].
    set (x := if Nat.leb 500 c then QR_DATA_REJ_PERM else QR_DATA_REJ_TEMP).
    apply (appended_one _ _ (cstr x ++ cstr QR_DATA_REJ_TXT ++ cstr (skipn 4 l) ++ [LF])).
    + cbn [w_status]. rewrite S1, term_eq, app_nil_r, <- !app_assoc. reflexivity.
    + subst x. destruct (Nat.leb 500 c); [apply rej_perm_D|apply rej_temp_Z].
    + subst x. destruct (Nat.leb 500 c); discriminate.
    + repeat apply nulfree_app; try apply cstr_nulfree. apply nulfree_cons; [apply LF_ne0|constructor].
Qed.

(** the whole run by the reply grammar: letters of all reports, RCPT TO commands sent when they go
    out one by one, and whether DATA (and the body) was sent *)
Definition ref_main (i : input) : list N * nat * option bool :=
  let '(ls, j, k) := ref_env i in
  match k with
  | None => (ls, j, None)
  | Some rest => let '(ld, b) := ref_data rest in (ls ++ ld, length (i_rcpts i), Some b)
  end.
Definition main_tail (i : input) (d : option bool) : bytes :=
  match d with
  | None => []
  | Some b => s_DATA ++ (if b then i_body i ++ end_of_data i else [])
  end.
Definition cmds_fit (i : input) : Prop :=
  pipel i = false -> short_line (mail_line i (actual_params i)) /\ Forall (fun r => short_line (rcpt_line r)) (i_rcpts i).

Lemma main_sem i : i_rcpts i <> [] -> cmds_fit i ->
  let '(ls, j, d) := ref_main i in
  exists reps q, qremote_main i = Obs 0 (flat reps) (env_sent i j ++ main_tail i d ++ q)
    /\ (q = [] \/ q = s_QUIT) /\ Forall rep_ok reps /\ map (fun r => hd 0%N r) reps = ls.
Proof.
  intros Hne Hfit. unfold qremote_main, ref_main.
  destruct (Nat.eqb_spec (length (i_rcpts i)) 0) as [E0|_]; [destruct (i_rcpts i); [congruence|discriminate]|].
  set (w := mkW [] [] [] true).
  assert (HE : env_post i w).
  { destruct (pipel i) eqn:Ep.
    - apply send_envelope_pipe; auto.
    - destruct (Hfit Ep). apply send_envelope_nopipe; auto. }
  unfold env_post in HE. destruct (ref_env i) as [[ls j] k]. destruct k as [rest|].
  - destruct HE as (w1 & E1 & K1 & N1 & (r1 & S1 & M1 & F1)). rewrite E1. cbn [Z.eqb negb].
    pose proof (send_data_sem i rest w1 K1) as HD. destruct (ref_data rest) as [ld b].
    destruct HD as (w2 & q & E2 & Hq & N2 & (r2 & S2 & M2 & F2)). unfold data_then_exit in E2.
    exists (r1 ++ r2), q. split.
    + destruct (send_data i rest w1) as [u scr2 w3|c w3|y]; try discriminate.
      * rewrite E2. f_equal.
        { rewrite S2, S1, flat_app. reflexivity. }
        { rewrite N2, N1. cbn [w_net app main_tail]. reflexivity. }
      * inversion E2; subst. f_equal.
        { rewrite S2, S1, flat_app. reflexivity. }
        { rewrite N2, N1. cbn [w_net app main_tail]. reflexivity. }
    + split; [exact Hq|]. split; [apply Forall_app; auto|]. rewrite map_app. subst ls ld. reflexivity.
  - destruct HE as (w1 & q & Hstop & Hq & N1 & (r1 & S1 & M1 & F1)).
    exists r1, q. split; [|auto].
    destruct Hstop as [E1|(z & rest & w0 & E1 & Hz & E2)].
    + rewrite E1. f_equal; [rewrite S1; reflexivity|rewrite N1; reflexivity].
    + rewrite E1. destruct (Z.eqb_spec z 0) as [->|_]; [congruence|]. cbn [negb]. rewrite E2.
      f_equal; [rewrite S1; reflexivity|rewrite N1; reflexivity].
Qed.

(** no recipient argument: main() refuses at once *)
Lemma main_noargs i : i_rcpts i = [] ->
  exists zr, qremote_main i = Obs 0 (flat [zr]) [] /\ rep_ok zr /\ hd 0%N zr = L_Z.
Proof.
  intros H. unfold qremote_main. rewrite H. cbn [length Nat.eqb].
  unfold exit_with, shutdown_abort, write_status, st_put, w_init. cbn [fst snd w_status w_net].
  destruct (z_report_of_text QR_MSG_ARGS (msg_args_Z _)) as (zr & E & Z2 & Z3).
  exists zr. rewrite term_eq. cbn [app]. rewrite E, flat_one. repeat split; auto.
  intros ->. discriminate Z2.
Qed.

(* ================================================================== 5. the specification on the reference run *)
Lemma take_while_app {A} (f : A -> bool) rl ml :
  forallb f rl = true -> match ml with [] => True | x :: _ => f x = false end -> take_while f (rl ++ ml) = rl.
Proof.
  induction rl as [|x rl IH]; cbn [forallb app take_while]; intros H1 H2.
  - destruct ml as [|y ml]; [reflexivity|]. cbn. rewrite H2. reflexivity.
  - apply andb_true_iff in H1 as [Hx Hr]. rewrite Hx, IH; auto.
Qed.

Lemma skipn_app_len {A} (a b : list A) : skipn (length a) (a ++ b) = b.
Proof. induction a; cbn; auto. Qed.

Lemma msg_not_rcpt x : is_msg_letter x = true -> is_rcpt_letter x = false.
Proof.
  unfold is_msg_letter, is_rcpt_letter, L_K, L_Z, L_D, L_r, L_s, L_h. intros H.
  repeat (apply orb_true_iff in H; destruct H as [H|H]); apply N.eqb_eq in H; subst; reflexivity.
Qed.

(** building [spec_letters] from a split of the letters *)
Lemma spec_letters_intro i rl ml net :
  forallb is_rcpt_letter rl = true -> forallb is_msg_letter ml = true -> length ml <= 1 -> rl ++ ml <> [] ->
  length rl <= length (i_rcpts i) ->
  (rl = [] \/ mail_accepted (i_script i) = true) -> letters_match_from 1 (i_script i) rl = true ->
  (existsb (N.eqb L_r) rl = true \/ rl = [] -> length ml = 1) ->
  (existsb (N.eqb L_K) ml = true ->
     match reply_code (reply_at (length (i_rcpts i) + 2) (i_script i)) with Some c => is_2xx c | None => false end = true
     /\ length rl = length (i_rcpts i) /\ existsb (N.eqb L_r) rl = true) ->
  cmds_ok i rl net = true ->
  spec_letters i (rl ++ ml) net = true.
Proof.
  intros Hrl Hml Hlen Hne Hn Hmail Hmatch Hpres HK Hcmd. unfold spec_letters.
  assert (Htw : take_while is_rcpt_letter (rl ++ ml) = rl).
  { apply take_while_app; auto. destruct ml as [|x ml]; auto. cbn in Hml. apply andb_true_iff in Hml as [Hx _].
    apply msg_not_rcpt; exact Hx. }
  rewrite Htw, skipn_app_len. repeat (apply andb_true_iff; split); auto.
  - destruct (rl ++ ml) eqn:E; [congruence|reflexivity].
  - apply Nat.leb_le; exact Hn.
  - apply Nat.leb_le; exact Hlen.
  - destruct Hmail as [->|H]; [reflexivity|]. rewrite H. apply orb_true_r.
  - destruct (existsb (N.eqb L_r) rl) eqn:Er.
    + cbn. rewrite (Hpres (or_introl eq_refl)). reflexivity.
    + destruct rl; cbn; [rewrite (Hpres (or_intror eq_refl))|]; reflexivity.
  - destruct (existsb (N.eqb L_K) ml) eqn:EK; [|reflexivity]. cbn [negb orb].
    destruct (HK eq_refl) as (H1 & H2 & H3). rewrite H1, H3, H2, Nat.eqb_refl. reflexivity.
Qed.

Lemma cmds_ok_intro i rl j p t :
  length rl <= j -> j <= length (i_rcpts i) -> In p (mail_params i) -> In t (tails i) ->
  (fst t = true -> existsb (N.eqb L_r) rl = true /\ j = length (i_rcpts i)) ->
  cmds_ok i rl (mail_line i p ++ concat (map rcpt_line (firstn j (i_rcpts i))) ++ snd t) = true.
Proof.
  intros H1 H2 Hp Ht Hf. unfold cmds_ok. apply orb_true_iff. right.
  apply existsb_exists. exists j. split; [apply in_seq; lia|].
  apply andb_true_iff. split; [apply Nat.leb_le; exact H1|].
  apply existsb_exists. exists p. split; [exact Hp|].
  apply existsb_exists. exists t. split; [exact Ht|].
  apply andb_true_iff. split; [apply bytes_eqb_eq; reflexivity|].
  destruct t as [tf tb]. cbn [fst snd] in *. destruct tf; [|reflexivity].
  destruct (Hf eq_refl) as [Ha Hb]. rewrite Ha, Hb, Nat.eqb_refl. reflexivity.
Qed.

Lemma tails_in i d q : q = [] \/ q = s_QUIT ->
  In (match d with None => false | Some _ => true end, main_tail i d ++ q) (tails i).
Proof.
  intros Hq. unfold tails, main_tail.
  destruct d as [[|]|]; destruct Hq as [-> | ->]; rewrite ?app_nil_r, <- ?app_assoc; cbn [In app]; tauto.
Qed.

(** the letters of the three call sites *)
Lemma rcpt_letter_cases c : rcpt_letter c = if is_2xx c then L_r else if is_4xx c then L_s else L_h.
Proof. unfold rcpt_letter, cr_letter, cr_idx. destruct (is_2xx c); [reflexivity|]. destruct (is_4xx c); reflexivity. Qed.
Lemma mail_letter_cases c : mail_letter c = if is_2xx c then SP else if is_4xx c then L_Z else L_D.
Proof. unfold mail_letter, cr_letter, cr_idx. destruct (is_2xx c); [reflexivity|]. destruct (is_4xx c); reflexivity. Qed.
Lemma dot_letter_cases c : dot_letter c = if is_2xx c then L_K else if is_4xx c then L_Z else L_D.
Proof. unfold dot_letter, cr_letter, cr_idx. destruct (is_2xx c); [reflexivity|]. destruct (is_4xx c); reflexivity. Qed.

Lemma rcpt_letter_is_rcpt c : is_rcpt_letter (rcpt_letter c) = true.
Proof. rewrite rcpt_letter_cases. destruct (is_2xx c); [reflexivity|]. destruct (is_4xx c); reflexivity. Qed.
Lemma rcpt_letter_r c : N.eqb L_r (rcpt_letter c) = is_2xx c.
Proof. rewrite rcpt_letter_cases. destruct (is_2xx c); [reflexivity|]. destruct (is_4xx c); reflexivity. Qed.
Lemma dot_letter_is_msg c : is_msg_letter (dot_letter c) = true.
Proof. rewrite dot_letter_cases. destruct (is_2xx c); [reflexivity|]. destruct (is_4xx c); reflexivity. Qed.
Lemma dot_letter_K c : N.eqb L_K (dot_letter c) = is_2xx c.
Proof. rewrite dot_letter_cases. destruct (is_2xx c); [reflexivity|]. destruct (is_4xx c); reflexivity. Qed.
Lemma mail_letter_is_msg c : is_2xx c = false -> is_msg_letter (mail_letter c) = true /\ N.eqb L_K (mail_letter c) = false.
Proof. intros H. rewrite mail_letter_cases, H. destruct (is_4xx c); split; reflexivity. Qed.

Lemma classes_cover c : 200 <= c <= 599 -> is_3xx c = false ->
  letter_matches (rcpt_letter c) c = true.
Proof.
  intros Hc H3. rewrite rcpt_letter_cases. unfold letter_matches.
  destruct (is_2xx c) eqn:E2; [cbn; reflexivity|]. destruct (is_4xx c) eqn:E4; [cbn; reflexivity|].
  assert (E5 : is_5xx c = true) by (unfold is_2xx, is_3xx, is_4xx, is_5xx in *; lia).
  rewrite E5. reflexivity.
Qed.

Lemma take_reply_cont_range scr c : take_reply scr = RBrokenCont c -> 200 <= c <= 599.
Proof.
  unfold take_reply. destruct scr as [|[l| | | | |] scr]; try discriminate.
  destruct (line_code l) as [c'|] eqn:E; [|discriminate].
  apply line_code_range in E. destruct (is_cont l); [destruct (skip_cont scr)|]; intros H; inversion H; subst; exact E.
Qed.

Lemma lm_from_S rl : forall idx scr c m rest, take_reply scr = RComplete c m rest ->
  letters_match_from (S idx) scr rl = letters_match_from idx rest rl.
Proof.
  induction rl as [|l rl IH]; intros idx scr c m rest H; cbn [letters_match_from]; [reflexivity|].
  cbn [reply_at]. rewrite H. rewrite (IH (S idx) scr c m rest H). reflexivity.
Qed.

(** the RCPT TO phase of the reference run satisfies the letter clauses, outside the classes
    "3xx reply" and "exit inside an open report after an accepted recipient" *)
Lemma rcpts_ok k : forall acc scr, scan_3xx k scr = false -> merge_scan k acc scr = false ->
  match ref_rcpts k acc scr with
  | RPDone ls a rest' =>
      length ls = k /\ forallb is_rcpt_letter ls = true /\ letters_match_from 0 scr ls = true
      /\ a = acc || existsb (N.eqb L_r) ls /\ (forall m, reply_at (k + m) scr = reply_at m rest')
  | RPExit ls d =>
      d < k /\ exists rl ml, ls = rl ++ ml /\ forallb is_rcpt_letter rl = true /\ letters_match_from 0 scr rl = true
        /\ length rl <= S d /\ (ml = [L_Z] \/ (ml = [] /\ rl <> [] /\ acc || existsb (N.eqb L_r) rl = false))
  end.
Proof.
  induction k as [|k IH]; intros acc scr H3 HM; cbn [ref_rcpts].
  - repeat split; auto. rewrite orb_false_r. reflexivity.
  - cbn [scan_3xx merge_scan] in H3, HM.
    destruct (take_reply scr) as [c m rest| |c] eqn:ET.
    + apply orb_false_iff in H3 as [H3c H3r]. specialize (IH (acc || is_2xx c) rest H3r HM).
      pose proof (take_reply_code_range _ _ _ _ ET) as Hc.
      assert (Hhead : forall ls, letters_match_from 0 rest ls = true -> letters_match_from 0 scr (rcpt_letter c :: ls) = true).
      { intros ls H. cbn [letters_match_from reply_at]. rewrite ET. cbn [reply_code].
        rewrite classes_cover by assumption. rewrite (lm_from_S ls 0 scr c m rest ET). exact H. }
      destruct (ref_rcpts k (acc || is_2xx c) rest) as [ls a rest'|ls d].
      * destruct IH as (L & F & M & A & R). repeat split.
        { cbn. lia. } { cbn [forallb]. rewrite rcpt_letter_is_rcpt. exact F. } { apply Hhead, M. }
        { rewrite A. cbn [existsb]. rewrite rcpt_letter_r, orb_assoc. reflexivity. }
        { intros m0. cbn [Nat.add reply_at]. rewrite ET. apply R. }
      * destruct IH as (D & rl & ml & E & F & M & L & Hml). split; [lia|].
        exists (rcpt_letter c :: rl), ml. repeat split.
        { rewrite E. reflexivity. } { cbn [forallb]. rewrite rcpt_letter_is_rcpt. exact F. } { apply Hhead, M. } { cbn. lia. }
        destruct Hml as [->|(-> & _ & Hacc)]; [left; reflexivity|right]. split; [reflexivity|]. split; [discriminate|].
        cbn [existsb]. rewrite rcpt_letter_r, orb_assoc. exact Hacc.
    + split; [lia|]. exists [], [L_Z]. repeat split; auto; try (cbn; lia).
    + pose proof (take_reply_cont_range _ _ ET) as Hc. split; [lia|].
      assert (Hm : letters_match_from 0 scr [rcpt_letter c] = true).
      { cbn [letters_match_from reply_at]. rewrite ET. cbn [reply_code]. rewrite classes_cover by assumption. reflexivity. }
      destruct (is_2xx c) eqn:E2.
      * exists [rcpt_letter c], [L_Z]. repeat split; auto. cbn [forallb]. rewrite rcpt_letter_is_rcpt. reflexivity.
      * exists [rcpt_letter c], []. repeat split; auto.
        { cbn [forallb]. rewrite rcpt_letter_is_rcpt. reflexivity. }
        right. split; [reflexivity|]. split; [discriminate|]. cbn [existsb]. rewrite rcpt_letter_r, E2.
        cbn [negb] in HM. rewrite andb_true_r in HM. rewrite HM. reflexivity.
Qed.

Lemma pipel_spec i : has (i_ext i) 2 = pipel i. Proof. reflexivity. Qed.

Lemma cmds_env i rl j d q :
  q = [] \/ q = s_QUIT ->
  let jj := if pipel i then length (i_rcpts i) else j in
  length rl <= jj -> jj <= length (i_rcpts i) ->
  (d <> None -> existsb (N.eqb L_r) rl = true /\ jj = length (i_rcpts i)) ->
  cmds_ok i rl (env_sent i j ++ main_tail i d ++ q) = true.
Proof.
  intros Hq jj H1 H2 Hd. unfold env_sent. fold jj. rewrite <- app_assoc.
  apply (cmds_ok_intro i rl jj (actual_params i) (match d with None => false | Some _ => true end, main_tail i d ++ q)); auto.
  - apply actual_params_in.
  - apply tails_in; exact Hq.
  - cbn [fst]. destruct d; [intros _; apply Hd; discriminate|discriminate].
Qed.

(** one message report, no recipient report *)
Lemma spec_msg_only i x j q : q = [] \/ q = s_QUIT ->
  is_msg_letter x = true -> N.eqb L_K x = false -> (if pipel i then True else j = 0) ->
  spec_letters i [x] (env_sent i j ++ main_tail i None ++ q) = true.
Proof.
  intros Hq Hx HK Hj. apply (spec_letters_intro i [] [x]).
  - reflexivity.
  - cbn [forallb]. rewrite Hx. reflexivity.
  - cbn. lia.
  - discriminate.
  - cbn. lia.
  - left; reflexivity.
  - reflexivity.
  - reflexivity.
  - cbn [existsb]. rewrite HK. discriminate.
  - apply cmds_env; auto; cbn [length]; try lia.
    + destruct (pipel i); lia.
    + intros H; congruence.
Qed.

Lemma ZK : N.eqb L_K L_Z = false. Proof. reflexivity. Qed.
Lemma Zmsg : is_msg_letter L_Z = true. Proof. reflexivity. Qed.

Theorem ref_main_spec i q : i_rcpts i <> [] -> known_class i = false -> q = [] \/ q = s_QUIT ->
  let '(ls, j, d) := ref_main i in
  spec_letters i ls (env_sent i j ++ main_tail i d ++ q) = true.
Proof.
  intros Hne Hk Hq. unfold known_class in Hk.
  repeat (apply orb_false_iff in Hk; destruct Hk as [Hk ?]).
  rename Hk into Hdup, H into Hml354, H0 into Hlong, H1 into H3xx, H2 into Hmerge.
  clear Hlong.
  unfold class_dup in Hdup. unfold class_merge in Hmerge. unfold class_3xx in H3xx. unfold class_ml354 in Hml354.
  rewrite pipel_spec in Hdup.
  set (n := length (i_rcpts i)) in *.
  assert (Hn : n <> 0) by (subst n; destruct (i_rcpts i); [congruence|discriminate]).
  unfold ref_main, ref_env. fold n.
  destruct (take_reply (i_script i)) as [c m rest| |c] eqn:ET.
  - destruct (is_2xx c) eqn:E2; cbn [negb].
    + (* MAIL FROM accepted *)
      cbn [andb] in Hmerge, H3xx. clear Hdup.
      pose proof (rcpts_ok n false rest H3xx Hmerge) as HR. clear H3xx Hmerge.
      assert (Hacc : mail_accepted (i_script i) = true) by (unfold mail_accepted; rewrite ET; exact E2).
      destruct (ref_rcpts n false rest) as [ls a rest'|ls d].
      * destruct HR as (L & F & M & A & R). cbn [orb] in A.
        assert (M1 : letters_match_from 1 (i_script i) ls = true) by (rewrite (lm_from_S ls 0 _ c m rest ET); exact M).
        assert (Lne : ls <> []) by (intros ->; apply Hn; symmetry; exact L).
        assert (Lle : length ls <= n) by (rewrite L; constructor).
        assert (Hjj : forall j, (if pipel i then n else j) = n -> length ls <= (if pipel i then n else j)
                                /\ (if pipel i then n else j) <= n).
        { intros j ->. split; [exact Lle|constructor]. }
        assert (Hjn : (if pipel i then n else n) = n) by (destruct (pipel i); reflexivity).
        destruct a.
        { (* a recipient accepted: DATA follows *)
          assert (Hdata : forall x b, is_msg_letter x = true ->
                    (N.eqb L_K x = true ->
                       match reply_code (reply_at (n + 2) (i_script i)) with Some c0 => is_2xx c0 | None => false end = true) ->
                    spec_letters i (ls ++ [x]) (env_sent i n ++ main_tail i (Some b) ++ q) = true).
          { intros x b Hx HK. apply spec_letters_intro.
            - exact F.
            - cbn [forallb]. rewrite Hx. reflexivity.
            - cbn [length]. constructor.
            - intros H. apply app_eq_nil in H as [_ H]. discriminate.
            - exact Lle.
            - right; exact Hacc.
            - exact M1.
            - intros _. reflexivity.
            - cbn [existsb]. rewrite orb_false_r. intros H. split; [apply HK; exact H|]. split; [exact L|symmetry; exact A].
            - destruct (Hjj n Hjn) as [J1 J2]. apply cmds_env; auto;
                try (intros _; split; [symmetry; exact A|exact Hjn]). }
          unfold ref_data. destruct rest' as [|[l| | | | |] rest''];
            try (apply Hdata; [apply Zmsg|rewrite ZK; discriminate]).
          destruct (line_code l) as [c1|] eqn:El; [|apply Hdata; [apply Zmsg|rewrite ZK; discriminate]].
          destruct (Nat.eqb c1 354) eqn:E354.
          2: { apply Hdata; destruct (Nat.leb 500 c1); try reflexivity; discriminate. }
          apply Nat.eqb_eq in E354. subst c1.
          (* the reply to DATA is reply n+1; outside class multiline_354 it is the single line l *)
          assert (R0 : reply_at n rest = take_reply (EvLine l :: rest'')).
          { pose proof (R 0) as R0'. rewrite Nat.add_0_r in R0'. exact R0'. }
          assert (R1 : reply_at (n + 1) (i_script i) = take_reply (EvLine l :: rest'')).
          { rewrite Nat.add_1_r. cbn [reply_at]. rewrite ET. exact R0. }
          rewrite R1, (take_reply_line l rest'' 354 El) in Hml354.
          assert (Hnc : is_cont l = false).
          { unfold cont_rest in Hml354. destruct (is_cont l); [|reflexivity].
            destruct (skip_cont rest''); cbn in Hml354; discriminate. }
          assert (R2 : reply_at (n + 2) (i_script i) = take_reply rest'').
          { replace (n + 2) with (S (n + 1)) by (clear; lia). cbn [reply_at]. rewrite ET. rewrite R.
            cbn [reply_at]. rewrite (take_reply_line l rest'' 354 El). unfold cont_rest. rewrite Hnc. reflexivity. }
          unfold dot_letters. destruct (take_reply rest'') as [c2 m2 rest2| |c2] eqn:ED.
          - apply Hdata; [apply dot_letter_is_msg|]. rewrite dot_letter_K, R2. cbn [reply_code]. auto.
          - apply Hdata; [apply Zmsg|rewrite ZK; discriminate].
          - apply Hdata; [apply dot_letter_is_msg|]. rewrite dot_letter_K, R2. cbn [reply_code]. auto. }
        { (* every recipient refused *)
          rewrite <- (app_nil_r ls). apply spec_letters_intro.
          - exact F.
          - reflexivity.
          - cbn [length]. constructor. constructor.
          - intros H. apply app_eq_nil in H as [H _]. contradiction.
          - exact Lle.
          - right; exact Hacc.
          - exact M1.
          - rewrite <- A. intros [H|H]; [discriminate|contradiction].
          - cbn [existsb]. discriminate.
          - destruct (Hjj n Hjn) as [J1 J2]. apply cmds_env; auto; try (intros H; congruence). }
      * destruct HR as (D & rl & ml & -> & F & M & L & Hml).
        assert (M1 : letters_match_from 1 (i_script i) rl = true) by (rewrite (lm_from_S rl 0 _ c m rest ET); exact M).
        assert (Lle : length rl <= n) by (clear - L D; lia).
        assert (J1 : length rl <= (if pipel i then n else S d)) by (destruct (pipel i); [exact Lle|exact L]).
        assert (J2 : (if pipel i then n else S d) <= n) by (destruct (pipel i); [constructor|clear - D; lia]).
        apply spec_letters_intro.
        { exact F. }
        { destruct Hml as [->|(-> & _)]; reflexivity. }
        { destruct Hml as [->|(-> & _)]; cbn [length]; repeat constructor. }
        { destruct Hml as [->|(-> & Hr & _)]; [intros H; apply app_eq_nil in H as [_ H]; discriminate|].
          rewrite app_nil_r. exact Hr. }
        { exact Lle. }
        { right; exact Hacc. }
        { exact M1. }
        { destruct Hml as [->|(-> & Hr & Hacc')]; [reflexivity|]. cbn [orb] in Hacc'. rewrite Hacc'.
          intros [H|H]; [discriminate|contradiction]. }
        { destruct Hml as [->|(-> & _)]; cbn [existsb]; [rewrite ZK|]; discriminate. }
        { apply cmds_env; auto; try (intros H; congruence). }
    + (* MAIL FROM refused *)
      assert (Hnodup : pipel i && negb (whole_replies n rest) = false).
      { destruct (pipel i); [|reflexivity]. cbn [andb] in *.
        destruct (Nat.eqb_spec n 0); [contradiction|]. cbn [negb andb] in Hdup. exact Hdup. }
      rewrite Hnodup. cbn [app]. destruct (mail_letter_is_msg c E2) as [H1 H2].
      apply spec_msg_only; auto; destruct (pipel i); auto.
  - apply spec_msg_only; auto using Zmsg, ZK; destruct (pipel i); auto.
  - destruct (is_2xx c) eqn:E2.
    + apply spec_msg_only; auto using Zmsg, ZK; destruct (pipel i); auto.
    + destruct (mail_letter_is_msg c E2) as [H1 H2]. apply spec_msg_only; auto; destruct (pipel i); auto.
Qed.

(* ================================================================== 6. well-formedness for every input *)
Definition letter_ok (l : N) : bool := is_rcpt_letter l || is_msg_letter l.
Definition grows (w w' : world) : Prop := exists ls, appended w w' ls /\ forallb letter_ok ls = true.
Definition grows1 (w w' : world) : Prop := exists ls, ls <> [] /\ appended w w' ls /\ forallb letter_ok ls = true.
Definition outcome_ok {A} (w : world) (r : res A) : Prop :=
  match r with
  | Ret _ _ w' => w_sock w' = true /\ grows w w'
  | Exit c w' => c = 0 /\ grows1 w w'
  | Unmodelled _ => True
  end.

Lemma grows_refl w : grows w w.
Proof. exists []. split; [apply appended_refl|reflexivity]. Qed.
Lemma grows_trans w1 w2 w3 : grows w1 w2 -> grows w2 w3 -> grows w1 w3.
Proof.
  intros (a & A & Fa) (b & B & Fb). exists (a ++ b). split; [eapply appended_trans; eauto|].
  rewrite forallb_app, Fa, Fb. reflexivity.
Qed.
Lemma grows_grows1 w1 w2 w3 : grows w1 w2 -> grows1 w2 w3 -> grows1 w1 w3.
Proof.
  intros (a & A & Fa) (b & Hb & B & Fb). exists (a ++ b). split.
  - intros H. apply app_eq_nil in H as [_ H]. contradiction.
  - split; [eapply appended_trans; eauto|]. rewrite forallb_app, Fa, Fb. reflexivity.
Qed.
Lemma grows1_of w w' ls : ls <> [] -> appended w w' ls -> forallb letter_ok ls = true -> grows1 w w'.
Proof. intros. exists ls. auto. Qed.
Lemma grows1_of' w w' ls : appended w w' ls -> ls <> [] -> forallb letter_ok ls = true -> grows1 w w'.
Proof. intros. exists ls. auto. Qed.
Lemma grows_of w w' ls : appended w w' ls -> forallb letter_ok ls = true -> grows w w'.
Proof. intros. exists ls. auto. Qed.

(** a world that differs only on the socket side *)
Definition same_status (w w0 : world) : Prop := w_status w0 = w_status w /\ w_sock w0 = w_sock w.
Lemma grows_same w w0 w' : same_status w w0 -> grows w0 w' -> grows w w'.
Proof. intros [S _] (ls & (reps & H1 & H2 & H3) & F). exists ls. split; [|exact F]. exists reps. rewrite H1, S. auto. Qed.
Lemma grows1_same w w0 w' : same_status w w0 -> grows1 w0 w' -> grows1 w w'.
Proof. intros [S _] (ls & Hne & (reps & H1 & H2 & H3) & F). exists ls. repeat split; auto. exists reps. rewrite H1, S. auto. Qed.
Lemma outcome_same {A} w w0 (r : res A) : same_status w w0 -> outcome_ok w0 r -> outcome_ok w r.
Proof.
  intros HS. destruct r as [a scr w'|c w'|y]; cbn; auto.
  - intros [K G]. split; [exact K|eapply grows_same; eauto].
  - intros [K G]. split; [exact K|eapply grows1_same; eauto].
Qed.

Lemma letter_ok_rcpt c : letter_ok (rcpt_letter c) = true.
Proof. unfold letter_ok. rewrite rcpt_letter_is_rcpt. reflexivity. Qed.
Lemma letter_ok_dot c : letter_ok (dot_letter c) = true.
Proof. unfold letter_ok. rewrite dot_letter_is_msg. apply orb_true_r. Qed.
Lemma letter_ok_mail c : is_2xx c = false -> letter_ok (mail_letter c) = true.
Proof. intros H. unfold letter_ok. destruct (mail_letter_is_msg c H) as [-> _]. apply orb_true_r. Qed.
Lemma letter_ok_Z : letter_ok L_Z = true. Proof. reflexivity. Qed.

Lemma grows1_grows w1 w2 w3 : grows1 w1 w2 -> grows w2 w3 -> grows1 w1 w3.
Proof.
  intros (a & Ha & A & Fa) (b & B & Fb). exists (a ++ b). split.
  - intros H. apply app_eq_nil in H as [H _]. contradiction.
  - split; [eapply appended_trans; eauto|]. rewrite forallb_app, Fa, Fb. reflexivity.
Qed.
Lemma grows1_weak w w' : grows1 w w' -> grows w w'.
Proof. intros (ls & _ & A & F). exists ls. auto. Qed.

(** [strict]: a normal return also wrote at least one report *)
Definition outcome_okb {A} (strict : bool) (w : world) (r : res A) : Prop :=
  match r with
  | Ret _ _ w' => w_sock w' = true /\ (if strict then grows1 w w' else grows w w')
  | Exit c w' => c = 0 /\ grows1 w w'
  | Unmodelled _ => True
  end.

Lemma outcome_okb_same {A} b w w0 (r : res A) : same_status w w0 -> outcome_okb b w0 r -> outcome_okb b w r.
Proof.
  intros HS. destruct r as [a scr w'|c w'|y]; cbn; auto.
  - intros [K G]. split; [exact K|]. destruct b; [eapply grows1_same; eauto|eapply grows_same; eauto].
  - intros [K G]. split; [exact K|eapply grows1_same; eauto].
Qed.

Lemma rcpt_reply_ok scr w : w_sock w = true -> outcome_okb true w (checkreply (Some QR_ST_RCPT) None QR_MASK_RCPT scr w).
Proof.
  intros Hs. pose proof (rcpt_reply_sem scr w Hs) as H. destruct (take_reply scr) as [c m rest| |c].
  - destruct H as (w' & -> & K & _ & A). split; [exact K|]. apply (grows1_of' _ _ _ A); [discriminate|].
    cbn [forallb]. rewrite letter_ok_rcpt. reflexivity.
  - destruct H as (w' & -> & _ & A). split; [reflexivity|]. apply (grows1_of' _ _ _ A); [discriminate|]. reflexivity.
  - destruct H as (w' & -> & _ & A). split; [reflexivity|]. destruct (is_2xx c).
    + apply (grows1_of' _ _ _ A); [discriminate|]. cbn [forallb]. rewrite letter_ok_rcpt. reflexivity.
    + apply (grows1_of' _ _ _ A); [discriminate|]. cbn [forallb]. rewrite letter_ok_rcpt. reflexivity.
Qed.

(** MAIL FROM: a refusal (result >= 300) has written its report *)
Lemma mail_reply_ok rhost scr w : w_sock w = true ->
  match checkreply (Some QR_ST_MAIL) (Some (mailerrmsg rhost)) QR_MASK_MAIL scr w with
  | Ret r _ w' => w_sock w' = true /\ grows w w' /\ ((QR_FAIL_FROM <=? r)%Z = true -> grows1 w w')
  | Exit c w' => c = 0 /\ grows1 w w'
  | Unmodelled _ => True
  end.
Proof.
  intros Hs. pose proof (mail_reply_sem rhost scr w Hs) as H. destruct (take_reply scr) as [c m rest| |c] eqn:ET.
  - destruct H as (w' & -> & K & _ & A). split; [exact K|].
    rewrite fail_from by (apply take_reply_code_range in ET; lia). destruct (is_2xx c) eqn:E.
    + split; [apply (grows_of _ _ _ A); reflexivity|discriminate].
    + assert (G : grows1 w w').
      { apply (grows1_of' _ _ _ A); [discriminate|]. cbn [forallb]. rewrite letter_ok_mail by exact E. reflexivity. }
      split; [apply grows1_weak; exact G|intros _; exact G].
  - destruct H as (w' & -> & _ & A). split; [reflexivity|]. apply (grows1_of' _ _ _ A); [discriminate|]. reflexivity.
  - destruct H as (w' & -> & _ & A). split; [reflexivity|]. destruct (is_2xx c) eqn:E.
    + apply (grows1_of' _ _ _ A); [discriminate|]. reflexivity.
    + apply (grows1_of' _ _ _ A); [discriminate|]. cbn [forallb]. rewrite letter_ok_mail by exact E. reflexivity.
Qed.

Lemma drain_ok k : forall scr w, w_sock w = true -> outcome_okb false w (drain_replies k scr w).
Proof.
  intros scr w Hs. pose proof (drain_replies_sem k scr w Hs) as H. destruct (whole_replies k scr).
  - destruct H as (w' & rest & -> & K & _ & A). split; [exact K|]. apply (grows_of _ _ _ A). reflexivity.
  - destruct H as (w' & -> & _ & A). split; [reflexivity|]. apply (grows1_of' _ _ _ A); [discriminate|]. reflexivity.
Qed.

Lemma rcpt_replies_ok k : forall stat scr w, w_sock w = true ->
  outcome_okb (negb (Nat.eqb k 0)) w (rcpt_replies k stat scr w).
Proof.
  induction k as [|k IH]; intros stat scr w Hs; cbn [rcpt_replies].
  - split; [exact Hs|apply grows_refl].
  - pose proof (rcpt_reply_ok scr w Hs) as H. cbn [Nat.eqb negb].
    destruct (checkreply (Some QR_ST_RCPT) None QR_MASK_RCPT scr w) as [r scr1 w1|c w1|y]; cbn in H |- *; auto.
    destruct H as [K G]. specialize (IH (if (r <? QR_RCPT_OK_BELOW)%Z then 0%Z else stat) scr1 w1 K).
    destruct (rcpt_replies k _ scr1 w1) as [r2 scr2 w2|c w2|y]; cbn in IH |- *; auto.
    + destruct IH as [K2 G2]. split; [exact K2|]. eapply grows1_grows; [exact G|].
      destruct (negb (Nat.eqb k 0)); [apply grows1_weak|]; exact G2.
    + destruct IH as [K2 G2]. split; [exact K2|eapply grows_grows1; [apply grows1_weak; exact G|exact G2]].
Qed.

Lemma net_writen_cmd_same parts w w0 : net_writen_cmd parts w = Ok w0 -> same_status w w0.
Proof.
  unfold net_writen_cmd. destruct (map cstr parts) as [|s0 ps]; [discriminate|].
  destruct (net_writen s0 ps); cbn [bind]; try discriminate. intros H; inversion H; subst. split; reflexivity.
Qed.

Lemma rcpt_each_ok rs : forall stat scr w, w_sock w = true ->
  outcome_okb (negb (Nat.eqb (length rs) 0)) w (rcpt_each rs stat scr w).
Proof.
  induction rs as [|r rs IH]; intros stat scr w Hs; cbn [rcpt_each].
  - split; [exact Hs|apply grows_refl].
  - cbn [length Nat.eqb negb].
    destruct (net_writen_cmd [QR_CMD_RCPT; r; QR_CMD_RCPT_END] w) as [w0|y|] eqn:EW; cbn; auto.
    pose proof (net_writen_cmd_same _ _ _ EW) as HS. apply (outcome_okb_same true w w0 _ HS).
    assert (K0 : w_sock w0 = true) by (destruct HS as [_ ->]; exact Hs).
    pose proof (rcpt_reply_ok scr w0 K0) as H.
    destruct (checkreply (Some QR_ST_RCPT) None QR_MASK_RCPT scr w0) as [c scr1 w1|c w1|y]; cbn in H |- *; auto.
    destruct H as [K G]. specialize (IH (if (c <? QR_RCPT_OK_BELOW)%Z then 0%Z else stat) scr1 w1 K).
    destruct (rcpt_each rs _ scr1 w1) as [r2 scr2 w2|c2 w2|y]; cbn in IH |- *; auto.
    + destruct IH as [K2 G2]. split; [exact K2|]. eapply grows1_grows; [exact G|].
      destruct (negb (Nat.eqb (length rs) 0)); [apply grows1_weak|]; exact G2.
    + destruct IH as [K2 G2]. split; [exact K2|eapply grows_grows1; [apply grows1_weak; exact G|exact G2]].
Qed.

Lemma pipe_rcpts_same rs idx n cur w : same_status w (pipe_rcpts idx n rs cur w).
Proof.
  revert idx cur w. induction rs as [|r rs IH]; intros idx cur w; cbn [pipe_rcpts]; [split; reflexivity|].
  destruct (_ || _).
  - destruct (IH (S idx) [QR_CMD_RCPT] (net_write_multiline ((cur ++ [r]) ++ [QR_CMD_PIPE_END]) w)) as [A B].
    split; [rewrite A|rewrite B]; reflexivity.
  - apply IH.
Qed.

(** send_envelope(): a non-zero result (no recipient accepted) has written at least one report *)
Lemma send_envelope_ok i scr w : w_sock w = true -> i_rcpts i <> [] ->
  match send_envelope i scr w with
  | Ret r _ w' => w_sock w' = true /\ grows w w' /\ (r <> 0%Z -> grows1 w w')
  | Exit c w' => c = 0 /\ grows1 w w'
  | Unmodelled _ => True
  end.
Proof.
  intros Hs Hne. assert (Hn : negb (Nat.eqb (length (i_rcpts i)) 0) = true) by (destruct (i_rcpts i); [congruence|reflexivity]).
  unfold send_envelope. destruct (has (i_ext i) QR_ESMTP_PIPELINING).
  - set (w1 := net_write_multiline _ w). set (w2 := pipe_rcpts _ _ _ _ w1).
    assert (HS : same_status w w2).
    { destruct (pipe_rcpts_same (tl (i_rcpts i)) 1 (length (i_rcpts i)) [QR_CMD_RCPT] w1) as [A B]. fold w2 in A, B.
      split; [rewrite A|rewrite B]; reflexivity. }
    assert (K2 : w_sock w2 = true) by (destruct HS as [_ ->]; exact Hs).
    pose proof (mail_reply_ok (i_rhost i) scr w2 K2) as H.
    destruct (checkreply (Some QR_ST_MAIL) _ QR_MASK_MAIL scr w2) as [r scr1 w3|c w3|y]; auto.
    2: { destruct H as [-> G]. split; [reflexivity|eapply grows1_same; eauto]. }
    destruct H as (K & G & GF). destruct (QR_FAIL_FROM <=? r)%Z.
    + specialize (GF eq_refl). pose proof (drain_ok (length (i_rcpts i)) scr1 w3 K) as HD.
      destruct (drain_replies _ scr1 w3) as [u scr2 w4|c w4|y]; cbn in HD |- *; auto.
      * destruct HD as [K4 G4]. assert (G14 : grows1 w w4) by (eapply grows1_same; eauto; eapply grows1_grows; eauto).
        split; [exact K4|]. split; [apply grows1_weak; exact G14|intros _; exact G14].
      * destruct HD as [-> G4]. split; [reflexivity|]. eapply grows1_same; eauto. eapply grows_grows1; eauto.
    + pose proof (rcpt_replies_ok (length (i_rcpts i)) 1%Z scr1 w3 K) as HR. rewrite Hn in HR.
      destruct (rcpt_replies _ _ scr1 w3) as [u scr2 w4|c w4|y]; cbn in HR |- *; auto.
      * destruct HR as [K4 G4]. assert (G14 : grows1 w w4) by (eapply grows1_same; eauto; eapply grows_grows1; eauto).
        split; [exact K4|]. split; [apply grows1_weak; exact G14|intros _; exact G14].
      * destruct HR as [-> G4]. split; [reflexivity|]. eapply grows1_same; eauto. eapply grows_grows1; eauto.
  - destruct (net_writen_cmd (mail_parts i) w) as [w1|y|] eqn:EW; auto.
    pose proof (net_writen_cmd_same _ _ _ EW) as HS.
    assert (K1 : w_sock w1 = true) by (destruct HS as [_ ->]; exact Hs).
    pose proof (mail_reply_ok (i_rhost i) scr w1 K1) as H.
    destruct (checkreply (Some QR_ST_MAIL) _ QR_MASK_MAIL scr w1) as [r scr1 w2|c w2|y]; auto.
    2: { destruct H as [-> G]. split; [reflexivity|eapply grows1_same; eauto]. }
    destruct H as (K & G & GF). destruct (QR_FAIL_FROM <=? r)%Z.
    + specialize (GF eq_refl). assert (G12 : grows1 w w2) by (eapply grows1_same; eauto).
      split; [exact K|]. split; [apply grows1_weak; exact G12|intros _; exact G12].
    + pose proof (rcpt_each_ok (i_rcpts i) 1%Z scr1 w2 K) as HR. rewrite Hn in HR.
      destruct (rcpt_each _ _ scr1 w2) as [u scr2 w4|c w4|y]; cbn in HR |- *; auto.
      * destruct HR as [K4 G4]. assert (G14 : grows1 w w4) by (eapply grows1_same; eauto; eapply grows_grows1; eauto).
        split; [exact K4|]. split; [apply grows1_weak; exact G14|intros _; exact G14].
      * destruct HR as [-> G4]. split; [reflexivity|]. eapply grows1_same; eauto. eapply grows_grows1; eauto.
Qed.

Lemma ref_data_letters rest : forallb letter_ok (fst (ref_data rest)) = true /\ fst (ref_data rest) <> [].
Proof.
  unfold ref_data. destruct rest as [|[l| | | | |] rest']; try (split; [reflexivity|discriminate]).
  destruct (line_code l) as [c|]; [|split; [reflexivity|discriminate]].
  destruct (Nat.eqb c 354).
  - unfold dot_letters. destruct (take_reply rest') as [c2 m r| |c2]; cbn [fst forallb]; rewrite ?letter_ok_dot;
      split; try reflexivity; discriminate.
  - destruct (Nat.leb 500 c); split; try reflexivity; discriminate.
Qed.

Lemma data_then_exit_ok i rest w : w_sock w = true -> outcome_okb false w (data_then_exit i rest w).
Proof.
  intros Hs. pose proof (send_data_sem i rest w Hs) as H. destruct (ref_data_letters rest) as [F Hne].
  destruct (ref_data rest) as [ls b]. cbn [fst] in *. destruct H as (w' & q & -> & _ & _ & A).
  split; [reflexivity|]. exists ls. auto.
Qed.

(** every run ends in exit(0) after writing at least one report; every byte of the status stream
    belongs to a NUL-terminated report that starts with one of r s h K Z D *)
Theorem main_wellformed i :
  match qremote_main i with
  | Obs code status net =>
      code = 0 /\ exists reps, reps <> [] /\ status = flat reps
        /\ Forall (fun r => nulfree r /\ letter_ok (hd 0%N r) = true) reps
  | ObsUnmodelled _ => True          (* net_writen's own contract broken: only with over-long command lines *)
  | ObsReturned => False
  end.
Proof.
  assert (Hfin : forall w', grows1 (mkW [] [] [] true) w' ->
            exists reps, reps <> [] /\ w_status w' = flat reps /\ Forall (fun r => nulfree r /\ letter_ok (hd 0%N r) = true) reps).
  { intros w' (ls & Hne & (reps & H1 & H2 & H3) & F). cbn [w_status app] in H1.
    exists reps. split; [intros ->; cbn in H2; congruence|].
    split; [exact H1|]. subst ls. clear Hne H1. induction reps as [|r reps IH]; [constructor|].
    inversion H3; subst. cbn [map forallb] in F. apply andb_true_iff in F as [F1 F2].
    constructor; [|apply IH; auto]. split; [apply H1|exact F1]. }
  unfold qremote_main. destruct (Nat.eqb (length (i_rcpts i)) 0) eqn:En.
  - destruct (main_noargs i) as (zr & E & (Hne & Hn) & Hl).
    { destruct (i_rcpts i); [reflexivity|discriminate]. }
    unfold qremote_main in E. rewrite En in E. rewrite E. split; [reflexivity|].
    exists [zr]. repeat split; auto; [discriminate|]. constructor; [|constructor]. split; [exact Hn|rewrite Hl; reflexivity].
  - set (w := mkW [] [] [] true).
    assert (Hne : i_rcpts i <> []) by (intros H; rewrite H in En; discriminate).
    pose proof (send_envelope_ok i (i_script i) w eq_refl Hne) as HE.
    destruct (send_envelope i (i_script i) w) as [r scr1 w1|c w1|y]; auto.
    + destruct HE as (K1 & G1 & G1'). destruct (Z.eqb_spec r 0) as [->|Hr]; cbn [negb].
      * pose proof (data_then_exit_ok i scr1 w1 K1) as HD. unfold data_then_exit in HD.
        destruct (send_data i scr1 w1) as [u scr2 w2|c w2|y]; auto.
        { destruct (shutdown_clean w2) as [c0 w0]. unfold exit_with in *. cbn [fst snd] in *. cbn in HD.
          destruct HD as [-> G2]. split; [reflexivity|]. apply Hfin. eapply grows_grows1; eauto. }
        { cbn in HD. destruct HD as [-> G2]. split; [reflexivity|]. apply Hfin. eapply grows_grows1; eauto. }
      * (* no recipient accepted: the reports written so far are the output *)
        destruct (clean_after w1 K1) as (w' & E & _ & S'). rewrite E. split; [reflexivity|]. rewrite S'.
        apply Hfin. exact (G1' Hr).
    + destruct HE as [-> G1]. split; [reflexivity|]. apply Hfin. exact G1.
Qed.

(* ================================================================== 7. the property theorems *)
Lemma fits_of_class i : class_longcmd i = false -> cmds_fit i.
Proof.
  unfold class_longcmd, cmds_fit. rewrite pipel_spec. intros H Hp. rewrite Hp in H. cbn [negb andb] in H.
  apply orb_false_iff in H as [Hm Hr]. split.
  - unfold short_line. pose proof (actual_params_in i) as Hin.
    assert (Hx : Nat.ltb 512 (length (mail_line i (actual_params i))) = false).
    { destruct (Nat.ltb 512 (length (mail_line i (actual_params i)))) eqn:E; [|reflexivity].
      exfalso. assert (existsb (fun p => Nat.ltb 512 (length (mail_line i p))) (mail_params i) = true).
      { apply existsb_exists. eauto. } congruence. }
    apply Nat.ltb_ge in Hx. exact Hx.
  - apply Forall_forall. intros r Hin. unfold short_line.
    destruct (Nat.ltb 512 (length (rcpt_line r))) eqn:E; [|apply Nat.ltb_ge in E; exact E].
    exfalso. assert (existsb (fun r => Nat.ltb 512 (length (rcpt_line r))) (i_rcpts i) = true).
    { apply existsb_exists. eauto. } congruence.
Qed.

Lemma spec_ok_of_letters i reps net :
  Forall rep_ok reps -> spec_letters i (map (fun r => hd 0%N r) reps) net = true ->
  spec_ok_C04 i (Obs 0 (flat reps) net) = true.
Proof.
  intros HF HS. unfold spec_ok_C04. rewrite split0_flat.
  2: { eapply Forall_impl; [|exact HF]. intros r [_ H]. exact H. }
  rewrite HS. cbn [Nat.eqb bytes_eqb andb]. rewrite andb_true_r.
  apply forallb_forall. intros r Hin. rewrite Forall_forall in HF. destruct (HF r Hin) as [Hne _].
  destruct r; [congruence|reflexivity].
Qed.

(** outside the five recorded classes the whole property holds, for every script, every
    recipient list, every extension set *)
Theorem model_meets_spec i : known_class i = false ->
  exists code status net, qremote_main i = Obs code status net /\ C04_holds i (Obs code status net).
Proof.
  intros Hk. destruct (i_rcpts i) as [|r0 rs] eqn:ER.
  - destruct (main_noargs i ER) as (zr & E & Hok & Hl). exists 0, (flat [zr]), []. split; [exact E|].
    apply spec_ok_of_letters; [constructor; [exact Hok|constructor]|].
    cbn [map]. rewrite Hl. unfold spec_letters. rewrite ER. reflexivity.
  - assert (Hne : i_rcpts i <> []) by (rewrite ER; discriminate).
    assert (Hfit : cmds_fit i).
    { apply fits_of_class. unfold known_class in Hk. repeat (apply orb_false_iff in Hk; destruct Hk as [Hk ?]). assumption. }
    pose proof (main_sem i Hne Hfit) as HM. destruct (ref_main i) as [[ls j] d] eqn:ERM.
    destruct HM as (reps & q & E & Hq & HF & HL).
    pose proof (ref_main_spec i q Hne Hk Hq) as HS. rewrite ERM in HS.
    eexists _, _, _. split; [exact E|]. apply spec_ok_of_letters; [exact HF|]. rewrite HL. exact HS.
Qed.

(* ---- what a positive verdict of the checker means, in plain propositions ---- *)
Lemma split0_inv s : forall reps rest, split0 s = (reps, rest) ->
  s = flat reps ++ rest /\ Forall nulfree reps /\ nulfree rest.
Proof.
  induction s as [|x s IH]; intros reps rest H; cbn [split0] in H.
  - inversion H; subst. repeat split; constructor.
  - destruct (split0 s) as [rs tl]. destruct (IH rs tl eq_refl) as (E & F & T).
    destruct (N.eqb x 0) eqn:Ex.
    + apply N.eqb_eq in Ex. inversion H; subst. repeat split; auto. constructor; [constructor|exact F].
    + apply N.eqb_neq in Ex. destruct rs as [|r rs'].
      * inversion H; subst. cbn. repeat split; auto. apply nulfree_cons; auto.
      * inversion H; subst. inversion F; subst. repeat split; auto. constructor; auto. apply nulfree_cons; auto.
Qed.

Lemma take_while_split {A} (f : A -> bool) l :
  l = take_while f l ++ skipn (length (take_while f l)) l /\ forallb f (take_while f l) = true.
Proof.
  induction l as [|x l [IH1 IH2]]; cbn [take_while]; [split; reflexivity|].
  destruct (f x) eqn:E; cbn [length skipn app forallb]; [|split; reflexivity].
  rewrite E, <- IH1, IH2. split; reflexivity.
Qed.

Lemma letters_match_nth rl : forall idx scr, letters_match_from idx scr rl = true ->
  forall k l, nth_error rl k = Some l ->
  exists c, reply_code (reply_at (idx + k) scr) = Some c /\ letter_matches l c = true.
Proof.
  induction rl as [|x rl IH]; intros idx scr H k l Hk; [destruct k; discriminate|].
  cbn [letters_match_from] in H. destruct (reply_code (reply_at idx scr)) as [c|] eqn:E; [|discriminate].
  apply andb_true_iff in H as [H1 H2]. destruct k as [|k].
  - cbn in Hk. inversion Hk; subst. exists c. rewrite Nat.add_0_r. auto.
  - cbn in Hk. destruct (IH (S idx) scr H2 k l Hk) as (c' & E' & M'). exists c'.
    rewrite Nat.add_succ_r. auto.
Qed.

(** [C04_holds] spelled out *)
Definition C04_readable (i : input) (code : nat) (status net : bytes) : Prop :=
  let n := length (i_rcpts i) in
  code = 0 /\
  exists rr mr : list bytes,                                   (* recipient reports, message reports *)
    status = flat (rr ++ mr) /\ rr ++ mr <> [] /\
    Forall (fun r => r <> [] /\ nulfree r) (rr ++ mr) /\
    length rr <= n /\ length mr <= 1 /\
    Forall (fun r => is_rcpt_letter (hd 0%N r) = true) rr /\
    Forall (fun r => is_msg_letter (hd 0%N r) = true) mr /\
    (rr <> [] -> mail_accepted (i_script i) = true) /\
    (forall k r, nth_error rr k = Some r ->
       exists c, reply_code (reply_at (S k) (i_script i)) = Some c /\ letter_matches (hd 0%N r) c = true) /\
    ((exists r, In r rr /\ hd 0%N r = L_r) \/ rr = [] -> mr <> []) /\
    (forall m, In m mr -> hd 0%N m = L_K ->
       (exists c, reply_code (reply_at (n + 2) (i_script i)) = Some c /\ is_2xx c = true)
       /\ length rr = n /\ exists r, In r rr /\ hd 0%N r = L_r) /\
    ((net = [] /\ rr = []) \/
     exists j p t, length rr <= j <= n /\ In p (mail_params i) /\ In t (tails i)
       /\ net = mail_line i p ++ concat (map rcpt_line (firstn j (i_rcpts i))) ++ snd t
       /\ (fst t = true -> (exists r, In r rr /\ hd 0%N r = L_r) /\ j = n)).

Lemma existsb_hd l (reps : list bytes) :
  existsb (N.eqb l) (map (fun r => hd 0%N r) reps) = true -> exists r, In r reps /\ hd 0%N r = l.
Proof.
  intros H. apply existsb_exists in H as (x & Hin & Hx). apply in_map_iff in Hin as (r & Hr & Hin).
  apply N.eqb_eq in Hx. exists r. split; [exact Hin|congruence].
Qed.

Theorem checker_sound i code status net : C04_holds i (Obs code status net) -> C04_readable i code status net.
Proof.
  unfold C04_holds, spec_ok_C04. destruct (split0 status) as [reps rest] eqn:ES. intros H.
  repeat (apply andb_true_iff in H; destruct H as [H ?]).
  rename H into Hcode, H0 into Hlet, H1 into Hnonempty, H2 into Hrest.
  apply Nat.eqb_eq in Hcode. apply bytes_eqb_eq in Hrest. subst rest.
  destruct (split0_inv status reps [] ES) as (Est & Fn & _). rewrite app_nil_r in Est.
  unfold spec_letters in Hlet.
  set (letters := map (fun r => hd 0%N r) reps) in *.
  destruct (take_while_split is_rcpt_letter letters) as [Esplit Frl].
  set (rl := take_while is_rcpt_letter letters) in *.
  set (ml := skipn (length rl) letters) in *.
  repeat (apply andb_true_iff in Hlet; destruct Hlet as [Hlet ?]).
  rename Hlet into Hne, H into Hcmd, H0 into HK, H1 into Hpres, H2 into Hmatch, H3 into Hmail, H4 into Hml, H5 into Hmlen, H6 into Hrlen.
  (* cut the reports like their letters *)
  set (rr := firstn (length rl) reps). set (mr := skipn (length rl) reps).
  assert (Ereps : reps = rr ++ mr) by (symmetry; apply firstn_skipn).
  assert (Lrl : length rl <= length reps).
  { assert (H1 : length letters = length reps) by (subst letters; apply map_length).
    pose proof (f_equal (@length N) Esplit) as H2. rewrite app_length in H2. fold rl in H2. clear - H1 H2. lia. }
  assert (Err : map (fun r => hd 0%N r) rr = rl).
  { unfold rr. rewrite <- firstn_map. change (map (fun r : list N => hd 0%N r) reps) with letters.
    rewrite Esplit, firstn_app, Nat.sub_diag, firstn_all. cbn [firstn]. apply app_nil_r. }
  assert (Emr : map (fun r => hd 0%N r) mr = ml).
  { unfold mr, ml. rewrite <- skipn_map. reflexivity. }
  assert (Lrr : length rr = length rl) by (rewrite <- Err; symmetry; apply map_length).
  assert (Lmr : length mr = length ml) by (rewrite <- Emr; symmetry; apply map_length).
  split; [exact Hcode|]. exists rr, mr. rewrite <- Ereps.
  split; [exact Est|].
  split; [intros ->; cbn in Hne; discriminate|].
  split.
  { apply Forall_forall. intros r Hin. rewrite forallb_forall in Hnonempty. rewrite Forall_forall in Fn.
    split; [|apply Fn; exact Hin]. specialize (Hnonempty r Hin). destruct r; [discriminate|discriminate]. }
  split; [rewrite Lrr; apply Nat.leb_le; exact Hrlen|].
  split; [rewrite Lmr; apply Nat.leb_le; exact Hmlen|].
  split.
  { apply Forall_forall. intros r Hin. rewrite forallb_forall in Frl. apply Frl. rewrite <- Err. apply in_map. exact Hin. }
  split.
  { apply Forall_forall. intros r Hin. rewrite forallb_forall in Hml. apply Hml. rewrite <- Emr. apply in_map. exact Hin. }
  split.
  { intros Hrr. apply orb_true_iff in Hmail as [Hz|Hm]; [|exact Hm].
    apply Nat.eqb_eq in Hz. rewrite <- Lrr in Hz. destruct rr; [congruence|discriminate]. }
  split.
  { intros k r Hk. apply (letters_match_nth rl 1 (i_script i) Hmatch k (hd 0%N r)).
    rewrite <- Err. apply map_nth_error. exact Hk. }
  split.
  { intros Hpre Hmr. rewrite Hmr in Lmr. cbn in Lmr.
    assert (Hx : existsb (N.eqb L_r) rl || Nat.eqb (length rl) 0 = true).
    { destruct Hpre as [(r & Hin & Hr)|Hrr].
      - apply orb_true_iff. left. apply existsb_exists. exists (hd 0%N r). split; [rewrite <- Err; apply in_map; exact Hin|].
        rewrite Hr. apply N.eqb_refl.
      - apply orb_true_iff. right. rewrite <- Lrr, Hrr. reflexivity. }
    rewrite Hx in Hpres. cbn [negb orb] in Hpres. apply Nat.eqb_eq in Hpres. clear - Hpres Lmr. lia. }
  split.
  { intros m Hin Hm.
    assert (Hx : existsb (N.eqb L_K) ml = true).
    { apply existsb_exists. exists (hd 0%N m). split; [rewrite <- Emr; apply in_map; exact Hin|]. rewrite Hm. apply N.eqb_refl. }
    rewrite Hx in HK. cbn [negb orb] in HK. repeat (apply andb_true_iff in HK; destruct HK as [HK ?]).
    split; [|split].
    - destruct (reply_code (reply_at (length (i_rcpts i) + 2) (i_script i))) as [c|]; [|discriminate]. exists c. auto.
    - rewrite Lrr. apply Nat.eqb_eq. assumption.
    - apply existsb_hd. rewrite Err. assumption. }
  { unfold cmds_ok in Hcmd. apply orb_true_iff in Hcmd as [Hc|Hc].
    - left. apply andb_true_iff in Hc as [H1 H2]. apply bytes_eqb_eq in H1. apply Nat.eqb_eq in H2.
      split; [exact H1|]. rewrite <- Lrr in H2. destruct rr; [reflexivity|discriminate].
    - right. apply existsb_exists in Hc as (j & Hj & Hc). apply in_seq in Hj.
      apply andb_true_iff in Hc as [Hle Hc]. apply Nat.leb_le in Hle.
      apply existsb_exists in Hc as (p & Hp & Hc). apply existsb_exists in Hc as (t & Ht & Hc).
      apply andb_true_iff in Hc as [Heq Hfl]. apply bytes_eqb_eq in Heq.
      exists j, p, t. split; [rewrite Lrr; clear - Hj Hle; lia|]. split; [exact Hp|]. split; [exact Ht|]. split; [exact Heq|].
      destruct t as [tf tb]. cbn [fst snd] in *. intros Hf. subst tf. cbn [negb orb] in Hfl. apply andb_true_iff in Hfl as [Ha Hb].
      apply Nat.eqb_eq in Hb. split; [|exact Hb]. apply existsb_hd. rewrite Err. exact Ha. }
Qed.

(** recode_qp: the literal model (staging buffer of QP_BUF octets, offsets, fuel) writes
    [qp_enc vs 0 None] of its window for some [vs] (the only trace the buffer boundaries leave: whether
    a blank in front of a soft line break was still in the buffer), never reads outside the window,
    never overflows sendbuf, never runs out of fuel. *)
From Qv Require Import Common.Bytes Gen.GenQrdata Model.Mime Model.QrData Model.QrDataL2 Proofs.QrMemLemmas
  Proofs.QrPlainProofs.
Require Import Lia.

Ltac qconsts := unfold QP_BUF, QP_MARGIN in *.

Lemma qp_enc_cons vs llen held c r :
  qp_enc vs llen held (c :: r) =
  if N.eqb c CR then
    olist held ++ CR :: LF ::
      match r with
      | c2 :: r2 => if N.eqb c2 LF then qp_enc vs 0 None r2 else qp_enc vs 0 None r
      | [] => []
      end
  else if N.eqb c LF then olist held ++ CR :: LF :: qp_enc vs 0 None r
  else if Nat.ltb QP_SOFT llen then
    match held with
    | Some hb =>
        match vs with
        | true :: vs' =>
            if qp_plain_next c then hb :: c :: SOFT ++ qp_enc vs' 0 None r
            else qp_norm c r (blank_code hb ++ SOFT) vs' 0
        | _ :: vs' => qp_norm c r (hb :: SOFT) vs' 0
        | [] => qp_norm c r (hb :: SOFT) [] 0
        end
    | None => qp_norm c r SOFT vs 0
    end
  else qp_norm c r (olist held) vs llen.
Proof. reflexivity. Qed.

Lemma qp_norm_pre c r pre vs l : qp_norm c r pre vs l = pre ++ qp_norm c r [] vs l.
Proof.
  unfold qp_norm. cbn [app].
  destruct (Nat.eqb l 0 && N.eqb c DOT); [reflexivity|].
  destruct (is_blank c).
  - destruct r as [|c2 r2]; [reflexivity|]. destruct (N.eqb c2 CR); [reflexivity|].
    destruct (N.eqb c2 LF); reflexivity.
  - destruct (qp_must_encode c); reflexivity.
Qed.

Lemma qp_enc_norm0 vs c r : is_eol c = false -> qp_enc vs 0 None (c :: r) = qp_norm c r [] vs 0.
Proof.
  intros He. rewrite qp_enc_cons. unfold is_eol in He. apply Bool.orb_false_elim in He as [H1 H2].
  rewrite H1, H2. replace (Nat.ltb QP_SOFT 0) with false by (symmetry; apply Nat.ltb_ge; lia). reflexivity.
Qed.

(** when the next octet is no line end and no soft break is due *)
Lemma qp_enc_plainstep vs llen held c r :
  is_eol c = false -> Nat.ltb QP_SOFT llen = false ->
  qp_enc vs llen held (c :: r) = olist held ++ qp_norm c r [] vs llen.
Proof.
  intros He Hs. rewrite qp_enc_cons. unfold is_eol in He. apply Bool.orb_false_elim in He as [H1 H2].
  rewrite H1, H2, Hs. apply qp_norm_pre.
Qed.

Definition noblank_end (l : bytes) : Prop :=
  match rev l with c :: _ => is_blank c = false | [] => True end.

Lemma noblank_end_app l x : is_blank x = false -> noblank_end (l ++ [x]).
Proof. intros H. unfold noblank_end. rewrite rev_app_distr. exact H. Qed.

Lemma noblank_end_app2 l l2 x : is_blank x = false -> noblank_end (l ++ l2 ++ [x]).
Proof. intros H. rewrite app_assoc. now apply noblank_end_app. Qed.

Lemma hexchar_noblank c : is_blank (hexchar (N.land c 15)) = false.
Proof.
  assert (H : (N.land c 15 < 16)%N).
  { change 15%N with (N.ones 4). rewrite N.land_ones. change (2 ^ 4)%N with 16%N.
    apply N.mod_upper_bound. discriminate. }
  revert H. generalize (N.land c 15). intros n Hn.
  assert (Hnat : N.to_nat n < 16) by lia.
  unfold hexchar. destruct (N.to_nat n) as [|[|[|[|[|[|[|[|[|[|[|[|[|[|[|[|k]]]]]]]]]]]]]]]]; try reflexivity; lia.
Qed.

Lemma hexchar_noblank_hi c : is_blank (hexchar (N.land (N.shiftr c 4) 15)) = false.
Proof. apply hexchar_noblank. Qed.

Definition sbw (llen : nat) : nat := if Nat.ltb QP_SOFT llen then 1 else 0.
Definition staged (n : nat) : nat := if Nat.eqb n 0 then 0 else 1.

Lemma staged_pos n : 0 < n -> staged n = 1.
Proof. intros H. unfold staged. destruct (Nat.eqb_spec n 0); [lia|reflexivity]. Qed.
Lemma staged_le n : staged n <= 1.
Proof. unfold staged. destruct (Nat.eqb n 0); lia. Qed.
Lemma sbw_le n : sbw n <= 1.
Proof. unfold sbw. destruct (Nat.ltb QP_SOFT n); lia. Qed.
Lemma sbw_0 : sbw 0 = 0.
Proof. unfold sbw. replace (Nat.ltb QP_SOFT 0) with false by (symmetry; apply Nat.ltb_ge; lia). reflexivity. Qed.

Lemma qp_loop_S fuel m b len inner idx chunk off llen sb st :
  qp_loop (S fuel) m b len inner idx chunk off llen sb st =
      if negb inner then
        if Nat.ltb off len then
          match rev sb with
          | [] => qp_loop fuel m b len true 0 0 off llen [] st
          | lastc :: _ => qp_loop fuel m b len true 0 0 off llen [] (mkSt (sb :: out st) (N.eqb lastc LF))
          end
        else
          match rev sb with
          | [] => Crash 4%N
          | lastc :: _ => Ok (mkSt (sb :: out st) (N.eqb lastc LF))
          end
      else
      if Nat.ltb (idx + chunk) (QP_BUF - QP_MARGIN) && Nat.ltb (off + chunk) len then
        do c <- rd m (b + (off + chunk));
        if N.eqb c CR then
          let chunk1 := S chunk in
          do lf <- (if Nat.ltb (off + chunk1) len then do c2 <- rd m (b + (off + chunk1)); Ok (N.eqb c2 LF) else Ok false);
          if lf then qp_loop fuel m b len true idx (S chunk1) off 0 sb st
          else
            do d <- rdn m (b + off) chunk1;
            do sb1 <- sb_add QP_BUF idx sb (d ++ [LF]);
            qp_loop fuel m b len true (idx + chunk1 + 1) 0 (off + chunk1) 0 sb1 st
        else if N.eqb c LF then
          do d <- rdn m (b + off) chunk;
          do sb1 <- sb_add QP_BUF idx sb (d ++ [CR; LF]);
          qp_loop fuel m b len true (idx + chunk + 2) 0 (off + chunk + 1) 0 sb1 st
        else if Nat.ltb QP_SOFT llen then
          do d <- rdn m (b + off) chunk;
          do sb1 <- sb_add QP_BUF idx sb d;
          let off := off + chunk in
          let idx := idx + chunk in
          do r <-
            (match rev sb1 with
             | lastc :: before =>
                 if is_blank lastc then
                   do nx <- (if Nat.ltb off len then do x <- rd m (b + off); Ok (if qp_plain_next x then Some x else None) else Ok None);
                   match nx with
                   | Some x => do sb2 <- sb_add QP_BUF idx sb1 [x]; Ok (S idx, S off, sb2)
                   | None =>
                       let code := if N.eqb lastc HT then [EQUALS; 48; 57]%N else [EQUALS; 50; 48]%N in
                       do sb2 <- sb_add QP_BUF (idx - 1) (rev before) code; Ok (idx + 2, off, sb2)
                   end
                 else Ok (idx, off, sb1)
             | [] => Ok (idx, off, sb1)
             end);
          let '(idx, off, sb2) := r in
          do sb3 <- sb_add QP_BUF idx sb2 [EQUALS; CR; LF];
          qp_loop fuel m b len true (idx + 3) 0 off 0 sb3 st
        else if Nat.eqb llen 0 && N.eqb c DOT then
          do d <- rdn m (b + off) (S chunk);
          do sb1 <- sb_add QP_BUF idx sb (d ++ [DOT]);
          qp_loop fuel m b len true (idx + S chunk + 1) 0 (off + S chunk) (S llen) sb1 st
        else if is_blank c then
          do eolnext <- (if Nat.eqb (off + chunk + 1) len then Ok true
                         else do x <- rd m (b + (off + chunk + 1)); Ok (is_eol x));
          if eolnext then
            do d <- rdn m (b + off) chunk;
            let off := off + chunk in
            do x <- rd m (b + off);
            let code := if N.eqb x HT then [EQUALS; 48; 57; CR; LF]%N else [EQUALS; 50; 48; CR; LF]%N in
            do sb1 <- sb_add QP_BUF idx sb (d ++ code);
            let off := S off in
            do off <- (if Nat.ltb off len then do y <- rd m (b + off); Ok (if N.eqb y CR then S off else off) else Ok off);
            do off <- (if Nat.ltb off len then do y <- rd m (b + off); Ok (if N.eqb y LF then S off else off) else Ok off);
            qp_loop fuel m b len true (idx + chunk + 5) 0 off 0 sb1 st
          else qp_loop fuel m b len true idx (S chunk) off (S llen) sb st
        else if qp_must_encode c then
          do d <- rdn m (b + off) chunk;
          do sb1 <- sb_add QP_BUF idx sb (d ++ [EQUALS; hexchar (N.land (N.shiftr c 4) 15); hexchar (N.land c 15)]);
          qp_loop fuel m b len true (idx + chunk + 3) 0 (off + chunk + 1) (llen + 3) sb1 st
        else qp_loop fuel m b len true idx (S chunk) off (S llen) sb st
      else
        do d <- rdn m (b + off) chunk;
        do sb1 <- sb_add QP_BUF idx sb d;
        qp_loop fuel m b len false (idx + chunk) 0 (off + chunk) llen sb1 st.
Proof. reflexivity. Qed.

Ltac he_solve HE1 :=
  rewrite ?sub_0; rewrite <- HE1; cbn [olist]; rewrite ?app_nil_r; rewrite <- ?app_assoc; cbn [app]; reflexivity.

Section Window.
Variable m : bytes.
Variables b len : nat.
Variable Hwin : b + len <= length m.
Let w := sub m b len.

Let w_len : length w = len := w_length m b len Hwin.
Let rdw : forall i, i < len -> rd m (b + i) = Ok (nth i w 0%N) := rd_win m b len Hwin.
Let rdnw : forall off k, off + k <= len -> rdn m (b + off) k = Ok (sub w off k) := rdn_win m b len Hwin.
Let skw : forall i, i < len -> skipn i w = nth i w 0%N :: skipn (S i) w := skipn_win m b len Hwin.
Let subS : forall off n, off + n < len -> sub w off (S n) = sub w off n ++ [nth (off + n) w 0%N] := sub_win_S m b len Hwin.
Let subL : forall off n, off + n <= len -> length (sub w off n) = n := sub_win_length m b len Hwin.
Let sbok := sb_add_ok m b len Hwin.

Lemma last_of_app_eq (A : bytes) (x : N) (B : bytes) (y : N) (C : bytes) :
  C ++ B ++ [] = A ++ [x] -> rev B = y :: rev (removelast B) -> True.
Proof. auto. Qed.

(** the last octet of a non-empty suffix *)
Lemma suffix_last (P S : bytes) (E : bytes) (x : N) :
  P ++ S = E ++ [x] -> S <> [] -> exists S0, S = S0 ++ [x] /\ P ++ S0 = E.
Proof.
  intros H Hne. destruct (rev_nonempty _ Hne) as (y & r & Er).
  assert (HS : S = rev r ++ [y]).
  { apply (f_equal (@rev N)) in Er. rewrite rev_involutive in Er. exact Er. }
  subst S. rewrite app_assoc in H. apply app_inj_tail in H as [H1 H2]. subst y.
  exists (rev r). auto.
Qed.

Definition measure (inner : bool) (idx chunk off llen : nat) : nat :=
  6 * (len - (off + chunk)) + 3 * sbw llen + (if inner then 2 * staged (idx + chunk) else 1).

Lemma qp_loop_ok : forall fuel inner idx chunk off llen sb st held E,
  off + chunk <= len -> length sb = idx -> idx + chunk <= QP_BUF - QP_MARGIN + 4 ->
  (inner = false -> chunk = 0 /\ (off < len \/ sb <> [])) ->
  (inner = true -> 0 < idx + chunk \/ off + chunk < len) ->
  concat (rev (out st)) ++ sb ++ sub w off chunk = E ++ olist held ->
  (held = None -> noblank_end (sb ++ sub w off chunk)) ->
  (forall hb, held = Some hb -> is_blank hb = true /\ off + chunk < len /\ is_eol (nth (off + chunk) w 0%N) = false) ->
  measure inner idx chunk off llen < fuel ->
  exists vs st', qp_loop fuel m b len inner idx chunk off llen sb st = Ok st' /\
     concat (rev (out st')) = E ++ qp_enc vs llen held (skipn (off + chunk) w) /\
     lastlf st' = last_is_lf (concat (rev (out st'))).
Proof.
  induction fuel as [|fuel IH]; intros inner idx chunk off llen sb st held E Hoc Hsb Hcap Hfor Hinn HE Hnb Hheld Hfuel; [lia|].
  rewrite qp_loop_S. unfold measure in Hfuel.
  destruct inner; cbn [negb].
  2: {
    (* head of the for loop *)
    destruct (Hfor eq_refl) as [-> Hfin]. rewrite ?Nat.add_0_r in Hoc, Hcap, Hfuel, Hheld. rewrite ?Nat.add_0_r. rewrite sub_0, app_nil_r in HE, Hnb.
    destruct (Nat.ltb_spec off len) as [Hlt|Hge].
    - destruct (rev sb) as [|lastc rb] eqn:Erev.
      + assert (sb = []) as -> by (apply (f_equal (@rev N)) in Erev; now rewrite rev_involutive in Erev).
        destruct (IH true 0 0 off llen [] st held E) as (vs & st' & E1 & E2 & E3);
          [lia|reflexivity|lia|discriminate|lia| rewrite sub_0; exact HE | intros; exact I
          | intros hb Hh; rewrite Nat.add_0_r; exact (Hheld hb Hh)
          | unfold measure; cbn [Nat.add staged Nat.eqb]; rewrite Nat.add_0_r; lia |].
        exists vs, st'. rewrite Nat.add_0_r in E2. auto.
      + destruct (IH true 0 0 off llen [] (mkSt (sb :: out st) (N.eqb lastc LF)) held E) as (vs & st' & E1 & E2 & E3);
          [lia|reflexivity|lia|discriminate|lia| | intros; exact I
          | intros hb Hh; rewrite Nat.add_0_r; exact (Hheld hb Hh)
          | unfold measure; cbn [Nat.add staged Nat.eqb]; rewrite Nat.add_0_r; lia |].
        { cbn [out rev]. rewrite concat_app. cbn [concat]. rewrite sub_0, !app_nil_r. exact HE. }
        exists vs, st'. rewrite Nat.add_0_r in E2. auto.
    - destruct Hfin as [Hfin|Hfin]; [lia|].
      destruct (rev_nonempty _ Hfin) as (lastc & rb & Erev). rewrite Erev.
      exists [], (mkSt (sb :: out st) (N.eqb lastc LF)). split; [reflexivity|].
      cbn [out lastlf rev]. rewrite concat_app. cbn [concat]. rewrite app_nil_r.
      rewrite skipn_all' by lia. cbn [qp_enc]. split; [exact HE|].
      rewrite last_is_lf_app by exact Hfin. unfold last_is_lf. now rewrite Erev.
  }
  specialize (Hinn eq_refl). clear Hfor.
  destruct (Nat.ltb_spec (idx + chunk) (QP_BUF - QP_MARGIN)) as [Hroom|Hfull];
    [destruct (Nat.ltb_spec (off + chunk) len) as [Hin|Hend]|]; cbn [andb].
  2, 3: (
    (* behind the inner while: copy the chunk, next round of the for loop *)
    assert (Hst : staged (idx + chunk) = 1) by (apply staged_pos; qconsts; lia);
    rewrite rdnw by lia; cbn [bind];
    rewrite sbok by (rewrite subL by lia; qconsts; lia); cbn [bind];
    destruct (IH false (idx + chunk) 0 (off + chunk) llen (sb ++ sub w off chunk) st held E) as (vs & st' & E1 & E2 & E3);
      [ lia | rewrite app_length, subL by lia; lia | lia
      | intros _; split; [reflexivity|];
        destruct (Nat.ltb_spec (off + chunk) len); [left; lia|right];
        intros Ee; apply (f_equal (@length N)) in Ee; rewrite app_length, subL in Ee by lia; cbn in Ee; lia
      | discriminate
      | rewrite sub_0, app_nil_r, <- ?app_assoc; exact HE
      | rewrite sub_0, app_nil_r; exact Hnb
      | intros hb Hh; rewrite Nat.add_0_r; exact (Hheld hb Hh)
      | unfold measure; rewrite Nat.add_0_r; lia
      | exists vs, st'; rewrite Nat.add_0_r in E2; auto ]).
  (* one round of the inner while *)
  rewrite rdw by exact Hin. cbn [bind].
  rewrite (skw (off + chunk)) by exact Hin.
  set (c := nth (off + chunk) w 0%N) in *.
  set (r := skipn (S (off + chunk)) w).
  assert (HsubS : sub w off (S chunk) = sub w off chunk ++ [c]) by (apply subS; exact Hin).
  set (E1 := E ++ olist held).
  assert (HE1 : concat (rev (out st)) ++ sb ++ sub w off chunk = E1) by exact HE.
  assert (Hst1 : forall n, 0 < n -> 2 * staged n = 2) by (intros n Hn; rewrite staged_pos by exact Hn; reflexivity).
  pose proof (staged_le (idx + chunk)) as Hstle. pose proof (sbw_le llen) as Hsbwle.
  assert (Hidx : forall k, S (off + chunk) + k = off + chunk + S k) by (intros; lia).
  destruct (N.eqb_spec c CR) as [HCR|HnCR].
  { (* CR *)
    assert (Hh : held = None).
    { destruct held as [hb|]; [|reflexivity]. destruct (Hheld hb eq_refl) as (_ & _ & He). fold c in He.
      rewrite HCR in He. discriminate. }
    subst held. clear Hheld. specialize (Hnb eq_refl).
    assert (EE : E1 = E) by (unfold E1; cbn [olist]; apply app_nil_r).
    assert (Hq : forall vs, qp_enc vs llen None (c :: r) =
                 CR :: LF :: match r with c2 :: r2 => if N.eqb c2 LF then qp_enc vs 0 None r2 else qp_enc vs 0 None r | [] => [] end).
    { intros vs. rewrite qp_enc_cons. rewrite HCR. reflexivity. }
    cbv zeta.
    destruct (Nat.ltb_spec (off + S chunk) len) as [Hin2|Hend2]; cbn [bind].
    - rewrite rdw by exact Hin2. cbn [bind].
      set (c2 := nth (off + S chunk) w 0%N). set (r2 := skipn (S (off + S chunk)) w).
      assert (Hr : r = c2 :: r2).
      { unfold r. replace (S (off + chunk)) with (off + S chunk) by lia. apply skw. exact Hin2. }
      assert (HsubSS : sub w off (S (S chunk)) = sub w off chunk ++ [c; c2]).
      { rewrite (subS off (S chunk)) by lia. fold c2. rewrite HsubS, <- app_assoc. reflexivity. }
      destruct (N.eqb_spec c2 LF) as [HLF|HnLF].
      + (* CRLF stays in the chunk *)
        destruct (IH true idx (S (S chunk)) off 0 sb st None (E1 ++ [c; c2])) as (vs & st' & Q1 & Q2 & Q3);
          [ lia | exact Hsb | qconsts; lia | discriminate | lia
          | rewrite HsubSS; he_solve HE1
          | intros _; rewrite HsubSS; change [c; c2] with ([c] ++ [c2]); rewrite !app_assoc; apply noblank_end_app; subst c2; rewrite HLF; reflexivity
          | discriminate
          | unfold measure; rewrite sbw_0; pose proof (staged_le (idx + S (S chunk))); lia |].
        exists vs, st'. split; [exact Q1|]. split; [|exact Q3]. rewrite Q2, EE, Hq, Hr.
        replace (off + S (S chunk)) with (S (off + S chunk)) by lia. fold r2.
        rewrite <- app_assoc. rewrite HCR, HLF. reflexivity.
      + (* lone CR: LF inserted *)
        rewrite rdnw by lia. cbn [bind].
        rewrite sbok by (rewrite app_length, subL by lia; cbn [length]; qconsts; lia). cbn [bind].
        destruct (IH true (idx + S chunk + 1) 0 (off + S chunk) 0 (sb ++ sub w off (S chunk) ++ [LF]) st None (E1 ++ [c; LF]))
          as (vs & st' & Q1 & Q2 & Q3);
          [ lia | rewrite !app_length, subL by lia; cbn [length]; lia | qconsts; lia | discriminate | lia
          | rewrite HsubS; he_solve HE1
          | intros _; rewrite sub_0, app_nil_r; apply noblank_end_app2; reflexivity
          | discriminate
          | unfold measure; rewrite sbw_0; pose proof (staged_le (idx + S chunk + 1 + 0)); lia |].
        exists vs, st'. split; [exact Q1|]. split; [|exact Q3]. rewrite Q2, EE, Hq.
        rewrite Nat.add_0_r. replace (skipn (off + S chunk) w) with r by (unfold r; f_equal; lia). rewrite Hr.
        rewrite <- app_assoc. rewrite HCR. destruct (N.eqb_spec c2 LF); [contradiction|]. reflexivity.
    - (* CR is the last octet *)
      rewrite rdnw by lia. cbn [bind].
      rewrite sbok by (rewrite app_length, subL by lia; cbn [length]; qconsts; lia). cbn [bind].
      destruct (IH true (idx + S chunk + 1) 0 (off + S chunk) 0 (sb ++ sub w off (S chunk) ++ [LF]) st None (E1 ++ [c; LF]))
        as (vs & st' & Q1 & Q2 & Q3);
        [ lia | rewrite !app_length, subL by lia; cbn [length]; lia | qconsts; lia | discriminate | lia
        | rewrite HsubS; he_solve HE1
        | intros _; rewrite sub_0, app_nil_r; apply noblank_end_app2; reflexivity
        | discriminate
        | unfold measure; rewrite sbw_0; pose proof (staged_le (idx + S chunk + 1 + 0)); lia |].
      exists vs, st'. split; [exact Q1|]. split; [|exact Q3]. rewrite Q2, EE, Hq.
      rewrite Nat.add_0_r. unfold r. rewrite (skipn_all' w (S (off + chunk))) by lia.
      rewrite (skipn_all' w (off + S chunk)) by lia. cbn [qp_enc olist].
      rewrite <- app_assoc. rewrite HCR. reflexivity. }
  destruct (N.eqb_spec c LF) as [HLF|HnLF].
  { (* bare LF *)
    assert (Hh : held = None).
    { destruct held as [hb|]; [|reflexivity]. destruct (Hheld hb eq_refl) as (_ & _ & He). fold c in He.
      rewrite HLF in He. discriminate. }
    subst held. clear Hheld. specialize (Hnb eq_refl).
    assert (EE : E1 = E) by (unfold E1; cbn [olist]; apply app_nil_r).
    assert (Hq : forall vs, qp_enc vs llen None (c :: r) = CR :: LF :: qp_enc vs 0 None r).
    { intros vs. rewrite qp_enc_cons. rewrite HLF. reflexivity. }
    rewrite rdnw by lia. cbn [bind].
    rewrite sbok by (rewrite app_length, subL by lia; cbn [length]; qconsts; lia). cbn [bind].
    destruct (IH true (idx + chunk + 2) 0 (off + chunk + 1) 0 (sb ++ sub w off chunk ++ [CR; LF]) st None (E1 ++ [CR; LF]))
      as (vs & st' & Q1 & Q2 & Q3);
      [ lia | rewrite !app_length, subL by lia; cbn [length]; lia | qconsts; lia | discriminate | lia
      | he_solve HE1
      | intros _; rewrite sub_0, app_nil_r; change [CR; LF] with ([CR] ++ [LF]); rewrite !app_assoc; apply noblank_end_app; reflexivity
      | discriminate
      | unfold measure; rewrite sbw_0; pose proof (staged_le (idx + chunk + 2 + 0)); lia |].
    exists vs, st'. split; [exact Q1|]. split; [|exact Q3]. rewrite Q2, EE, Hq.
    rewrite Nat.add_0_r. replace (off + chunk + 1) with (S (off + chunk)) by lia. fold r.
    rewrite <- app_assoc. reflexivity. }
  assert (Heol : is_eol c = false).
  { unfold is_eol. apply N.eqb_neq in HnCR, HnLF. now rewrite HnCR, HnLF. }
  destruct (Nat.ltb_spec QP_SOFT llen) as [Hsoft|Hnsoft].
  { (* soft line break *)
    assert (Hsb1 : sbw llen = 1) by (unfold sbw; destruct (Nat.ltb_spec QP_SOFT llen); [reflexivity|lia]).
    assert (Hs : Nat.ltb QP_SOFT llen = true) by (apply Nat.ltb_lt; exact Hsoft).
    assert (Hrest : skipn (off + chunk + 0) w = c :: r) by (rewrite Nat.add_0_r; apply skw; exact Hin).
    rewrite rdnw by lia. cbn [bind].
    rewrite sbok by (rewrite subL by lia; qconsts; lia). cbn [bind]. cbv zeta.
    set (sb1 := sb ++ sub w off chunk).
    assert (Hl1 : length sb1 = idx + chunk) by (unfold sb1; rewrite app_length, subL by lia; lia).
    assert (HE1' : concat (rev (out st)) ++ sb1 = E1) by (unfold sb1; exact HE1).
    (* the common tail: "=" CRLF appended, next round with llen = 0 *)
    assert (Hgo : forall idx2 off2 sb2 E2 (vsf : list bool -> list bool),
              length sb2 = idx2 -> idx2 <= idx + chunk + 2 -> off + chunk <= off2 <= len -> (off2 = off + chunk \/ off2 = S (off + chunk)) ->
              concat (rev (out st)) ++ sb2 = E2 ->
              (forall vs', E ++ qp_enc (vsf vs') llen held (c :: r) = (E2 ++ SOFT) ++ qp_enc vs' 0 None (skipn off2 w)) ->
              exists vs st',
                (do sb3 <- sb_add QP_BUF idx2 sb2 [EQUALS; CR; LF]; qp_loop fuel m b len true (idx2 + 3) 0 off2 0 sb3 st) = Ok st' /\
                concat (rev (out st')) = E ++ qp_enc vs llen held (c :: r) /\
                lastlf st' = last_is_lf (concat (rev (out st')))).
    { intros idx2 off2 sb2 E2 vsf Hl2 Hi2 Ho2 Ho2' HE2 HL2.
      rewrite sbok by (cbn [length]; qconsts; lia). cbn [bind].
      destruct (IH true (idx2 + 3) 0 off2 0 (sb2 ++ SOFT) st None (E2 ++ SOFT)) as (vs & st' & Q1 & Q2 & Q3);
        [ lia | rewrite app_length; unfold SOFT; cbn [length]; lia | qconsts; lia | discriminate | lia
        | he_solve HE2
        | intros _; rewrite sub_0, app_nil_r; change SOFT with ([EQUALS; CR] ++ [LF]); rewrite app_assoc; apply noblank_end_app; reflexivity
        | discriminate
        | unfold measure; rewrite sbw_0; pose proof (staged_le (idx2 + 3 + 0)); lia |].
      exists (vsf vs), st'. split; [exact Q1|]. split; [|exact Q3]. rewrite Q2, HL2. rewrite Nat.add_0_r. reflexivity. }
    destruct held as [hb|].
    - (* a literal blank is the last octet emitted *)
      destruct (Hheld hb eq_refl) as (Hbl & _ & _). clear Hnb.
      assert (HE1'' : concat (rev (out st)) ++ sb1 = E ++ [hb]) by exact HE1'.
      destruct sb1 as [|s0 sb1'] eqn:Esb1.
      + (* ... but it has left the staging buffer already *)
        cbn [rev]. cbn [bind].
        destruct (Hgo (idx + chunk) (off + chunk) [] E1 (fun vs' => false :: vs')) as (vs & st' & Q);
          [ cbn [length] in Hl1 |- *; lia | lia | lia | left; reflexivity | exact HE1' | | exists vs, st'; exact Q ].
        intros vs'. rewrite qp_enc_cons.
        unfold is_eol in Heol. apply Bool.orb_false_elim in Heol as [A B]. rewrite A, B, Hs.
        rewrite qp_norm_pre. rewrite <- (qp_enc_norm0 vs' c r) by (unfold is_eol; now rewrite A, B).
        rewrite (skw (off + chunk)) by exact Hin. fold c r. unfold E1. cbn [olist app].
        rewrite <- !app_assoc. reflexivity.
      + destruct (suffix_last (concat (rev (out st))) (s0 :: sb1') E hb HE1'' ltac:(discriminate)) as (S0 & HS0 & HES0).
        rewrite HS0. rewrite rev_app_distr. cbn [rev app]. rewrite Hbl.
        destruct (Nat.ltb_spec (off + chunk) len) as [_|Hx]; [|lia].
        cbn [bind].
        assert (HlS0 : length S0 = idx + chunk - 1).
        { rewrite HS0, app_length in Hl1. cbn [length] in Hl1. lia. }
        assert (Hpos1 : 1 <= idx + chunk) by (cbn [length] in Hl1; lia).
        destruct (qp_plain_next c) eqn:Epl; cbn [bind].
        * (* the next plain character joins the blank on this line *)
          rewrite sbok by (cbn [length]; qconsts; lia). cbn [bind].
          destruct (Hgo (S (idx + chunk)) (S (off + chunk)) ((S0 ++ [hb]) ++ [c]) (E1 ++ [c]) (fun vs' => true :: vs')) as (vs & st' & Q);
            [ rewrite !app_length; cbn [length]; lia | lia | lia | right; reflexivity
            | rewrite <- HS0, app_assoc, HE1'; reflexivity | | exists vs, st'; exact Q ].
          intros vs'. rewrite qp_enc_cons.
          unfold is_eol in Heol. apply Bool.orb_false_elim in Heol as [A B]. rewrite A, B, Hs, Epl.
          fold r. unfold E1. cbn [olist app]. rewrite <- !app_assoc. reflexivity.
        * (* the blank is recoded *)
          rewrite rev_involutive.
          change (if N.eqb hb HT then [EQUALS; 48; 57]%N else [EQUALS; 50; 48]%N) with (blank_code hb).
          rewrite sbok by (unfold blank_code; destruct (N.eqb hb HT); cbn [length]; qconsts; lia). cbn [bind].
          destruct (Hgo (idx + chunk + 2) (off + chunk) (S0 ++ blank_code hb) (E ++ blank_code hb) (fun vs' => true :: vs')) as (vs & st' & Q);
            [ rewrite app_length; unfold blank_code; destruct (N.eqb hb HT); cbn [length]; lia | lia | lia | left; reflexivity
            | rewrite app_assoc, HES0; reflexivity | | exists vs, st'; exact Q ].
          intros vs'. rewrite qp_enc_cons.
          unfold is_eol in Heol. apply Bool.orb_false_elim in Heol as [A B]. rewrite A, B, Hs, Epl.
          rewrite qp_norm_pre. rewrite <- (qp_enc_norm0 vs' c r) by (unfold is_eol; now rewrite A, B).
          rewrite (skw (off + chunk)) by exact Hin. fold c r.
          rewrite <- !app_assoc. reflexivity.
    - (* the last octet emitted is no blank *)
      specialize (Hnb eq_refl). fold sb1 in Hnb. unfold noblank_end in Hnb.
      assert (EE : E1 = E) by (unfold E1; cbn [olist]; apply app_nil_r).
      assert (Htail : exists vs st',
                (do sb3 <- sb_add QP_BUF (idx + chunk) sb1 [EQUALS; CR; LF];
                 qp_loop fuel m b len true (idx + chunk + 3) 0 (off + chunk) 0 sb3 st) = Ok st' /\
                concat (rev (out st')) = E ++ qp_enc vs llen None (c :: r) /\
                lastlf st' = last_is_lf (concat (rev (out st')))).
      { destruct (Hgo (idx + chunk) (off + chunk) sb1 E1 (fun vs' => vs')) as (vs & st' & Q);
          [ exact Hl1 | lia | lia | left; reflexivity | exact HE1' | | exists vs, st'; exact Q ].
        intros vs'. rewrite qp_enc_cons.
        unfold is_eol in Heol. apply Bool.orb_false_elim in Heol as [A B]. rewrite A, B, Hs.
        rewrite qp_norm_pre. rewrite <- (qp_enc_norm0 vs' c r) by (unfold is_eol; now rewrite A, B).
        rewrite (skw (off + chunk)) by exact Hin. fold c r. rewrite EE.
        rewrite <- !app_assoc. reflexivity. }
      revert Hnb. destruct (rev sb1) as [|lastc before]; intros Hnb; [|rewrite Hnb]; cbn [bind]; exact Htail. }
  assert (Hs : Nat.ltb QP_SOFT llen = false) by (apply Nat.ltb_ge; exact Hnsoft).
  assert (Hq : forall vs, E ++ qp_enc vs llen held (c :: r) = E1 ++ qp_norm c r [] vs llen).
  { intros vs. rewrite qp_enc_plainstep by assumption. unfold E1. now rewrite app_assoc. }
  destruct (Nat.eqb llen 0 && N.eqb c DOT) eqn:Edot.
  { (* dot at the beginning of a line *)
    rewrite rdnw by lia. cbn [bind].
    rewrite sbok by (rewrite app_length, subL by lia; cbn [length]; qconsts; lia). cbn [bind].
    apply andb_prop in Edot as [El0 Ed]. apply Nat.eqb_eq in El0. apply N.eqb_eq in Ed. subst llen.
    destruct (IH true (idx + S chunk + 1) 0 (off + S chunk) 1 (sb ++ sub w off (S chunk) ++ [DOT]) st None (E1 ++ [c; DOT]))
      as (vs & st' & Q1 & Q2 & Q3);
      [ lia | rewrite !app_length, subL by lia; cbn [length]; lia | qconsts; lia | discriminate | lia
      | rewrite HsubS; he_solve HE1
      | intros _; rewrite sub_0, app_nil_r; apply noblank_end_app2; reflexivity
      | discriminate
      | unfold measure; pose proof (sbw_le 1); pose proof (staged_le (idx + S chunk + 1 + 0)); lia |].
    exists vs, st'. split; [exact Q1|]. split; [|exact Q3]. rewrite Q2, Hq.
    rewrite Nat.add_0_r. replace (off + S chunk) with (S (off + chunk)) by lia. fold r.
    unfold qp_norm. rewrite Ed. cbn [Nat.eqb N.eqb Pos.eqb andb app]. rewrite <- app_assoc. reflexivity. }
  destruct (is_blank c) eqn:Ebl.
  { (* blank or tab *)
    assert (Hcode : (if N.eqb c HT then [EQUALS; 48; 57; CR; LF]%N else [EQUALS; 50; 48; CR; LF]%N) = blank_code c ++ CRLF).
    { unfold blank_code. destruct (N.eqb c HT); reflexivity. }
    assert (Hnorm : forall vs, qp_norm c r [] vs llen =
              match r with
              | [] => blank_code c ++ CRLF
              | c2 :: r2 =>
                  if N.eqb c2 CR then
                    blank_code c ++ CRLF ++ match r2 with
                                            | c3 :: r3 => if N.eqb c3 LF then qp_enc vs 0 None r3 else qp_enc vs 0 None r2
                                            | [] => []
                                            end
                  else if N.eqb c2 LF then blank_code c ++ CRLF ++ qp_enc vs 0 None r2
                  else qp_enc vs (S llen) (Some c) r
              end).
    { intros vs. unfold qp_norm. rewrite Edot, Ebl. cbn [app]. reflexivity. }
    (* what happens once the blank is known to end its line: [k] = octets of the line end skipped *)
    assert (Hfin : forall k (tail : list bool -> bytes),
              off + chunk + 1 + k <= len ->
              (forall vs, qp_norm c r [] vs llen = blank_code c ++ CRLF ++ tail vs) ->
              (forall vs, tail vs = qp_enc vs 0 None (skipn (off + chunk + 1 + k) w)) ->
              exists vs st',
                qp_loop fuel m b len true (idx + chunk + 5) 0 (S (off + chunk) + k) 0
                  (sb ++ sub w off chunk ++ blank_code c ++ CRLF) st = Ok st' /\
                concat (rev (out st')) = E ++ qp_enc vs llen held (c :: r) /\
                lastlf st' = last_is_lf (concat (rev (out st')))).
    { intros k tail Hk Hn Ht.
      destruct (IH true (idx + chunk + 5) 0 (S (off + chunk) + k) 0 (sb ++ sub w off chunk ++ blank_code c ++ CRLF) st None
                  (E1 ++ blank_code c ++ CRLF))
        as (vs & st' & Q1 & Q2 & Q3);
        [ lia
        | rewrite !app_length, subL by lia; unfold blank_code, CRLF; destruct (N.eqb c HT); cbn [length]; lia
        | qconsts; lia | discriminate | lia
        | he_solve HE1
        | intros _; rewrite sub_0, app_nil_r; change CRLF with ([CR] ++ [LF]); rewrite !app_assoc; apply noblank_end_app; reflexivity
        | discriminate
        | unfold measure; rewrite sbw_0; pose proof (staged_le (idx + chunk + 5 + 0)); lia |].
      exists vs, st'. split; [exact Q1|]. split; [|exact Q3]. rewrite Q2, Hq, Hn, Ht.
      rewrite Nat.add_0_r. replace (S (off + chunk) + k) with (off + chunk + 1 + k) by lia.
      rewrite <- !app_assoc. reflexivity. }
    destruct (Nat.eqb_spec (off + chunk + 1) len) as [Hlast|Hnlast]; cbn [bind].
    - (* the blank is the last octet *)
      rewrite rdnw by lia. cbn [bind]. cbv zeta. rewrite Hcode.
      rewrite sbok by (rewrite !app_length, subL by lia; unfold blank_code, CRLF; destruct (N.eqb c HT); cbn [length]; qconsts; lia).
      cbn [bind].
      destruct (Nat.ltb_spec (S (off + chunk)) len) as [Hx|_]; [lia|]. cbn [bind].
      destruct (Nat.ltb_spec (S (off + chunk)) len) as [Hx|_]; [lia|]. cbn [bind].
      assert (Hr0 : r = []) by (unfold r; apply skipn_all'; lia).
      destruct (Hfin 0 (fun _ => [])) as (vs & st' & Q); [lia| | |].
      + intros vs. rewrite Hnorm, Hr0. now rewrite app_nil_r.
      + intros vs. rewrite skipn_all' by lia. reflexivity.
      + exists vs, st'. rewrite Nat.add_0_r in Q. exact Q.
    - assert (Hin2 : off + chunk + 1 < len) by lia.
      rewrite rdw by exact Hin2. cbn [bind].
      set (c2 := nth (off + chunk + 1) w 0%N). set (r2 := skipn (S (off + chunk + 1)) w).
      assert (Hr : r = c2 :: r2).
      { unfold r. replace (S (off + chunk)) with (off + chunk + 1) by lia. apply skw. exact Hin2. }
      destruct (is_eol c2) eqn:Eeol2.
      + (* a line end follows *)
        rewrite rdnw by lia. cbn [bind]. cbv zeta. rewrite Hcode.
        rewrite sbok by (rewrite !app_length, subL by lia; unfold blank_code, CRLF; destruct (N.eqb c HT); cbn [length]; qconsts; lia).
        cbn [bind].
        destruct (Nat.ltb_spec (S (off + chunk)) len) as [_|Hx]; [|lia].
        replace (S (off + chunk)) with (off + chunk + 1) by lia. rewrite rdw by exact Hin2. cbn [bind]. fold c2.
        destruct (N.eqb_spec c2 CR) as [HcCR|HcnCR]; cbn [bind].
        * (* CR, maybe CRLF *)
          destruct (Nat.ltb_spec (S (off + chunk + 1)) len) as [Hin3|Hend3].
          -- replace (S (off + chunk + 1)) with (off + chunk + 2) by lia.
             rewrite rdw by lia. cbn [bind].
             set (c3 := nth (off + chunk + 2) w 0%N). set (r3 := skipn (S (off + chunk + 2)) w).
             assert (Hr2 : r2 = c3 :: r3).
             { unfold r2. replace (S (off + chunk + 1)) with (off + chunk + 2) by lia. apply skw. lia. }
             destruct (N.eqb_spec c3 LF) as [H3|H3].
             ++ destruct (Hfin 2 (fun vs => qp_enc vs 0 None r3)) as (vs & st' & Q); [lia| | |].
                ** intros vs. rewrite Hnorm, Hr, Hr2. rewrite HcCR. cbn [N.eqb Pos.eqb]. rewrite H3. reflexivity.
                ** intros vs. unfold r3. do 2 f_equal. lia.
                ** exists vs, st'. replace (S (off + chunk + 2)) with (S (off + chunk) + 2) by lia. exact Q.
             ++ destruct (Hfin 1 (fun vs => qp_enc vs 0 None r2)) as (vs & st' & Q); [lia| | |].
                ** intros vs. rewrite Hnorm, Hr. rewrite HcCR. cbn [N.eqb Pos.eqb]. rewrite Hr2.
                   destruct (N.eqb_spec c3 LF); [contradiction|]. reflexivity.
                ** intros vs. unfold r2. do 2 f_equal. lia.
                ** exists vs, st'. replace (off + chunk + 2) with (S (off + chunk) + 1) by lia. exact Q.
          -- assert (Hr2 : r2 = []) by (unfold r2; apply skipn_all'; lia).
             destruct (Hfin 1 (fun vs => [])) as (vs & st' & Q); [lia| | |].
             ** intros vs. rewrite Hnorm, Hr. rewrite HcCR. cbn [N.eqb Pos.eqb]. rewrite Hr2. reflexivity.
             ** intros vs. rewrite skipn_all' by lia. reflexivity.
             ** exists vs, st'. replace (S (off + chunk + 1)) with (S (off + chunk) + 1) by lia. exact Q.
        * (* LF *)
          assert (HcLF : c2 = LF).
          { unfold is_eol in Eeol2. apply Bool.orb_prop in Eeol2 as [A|A]; apply N.eqb_eq in A; [contradiction|exact A]. }
          destruct (Nat.ltb_spec (off + chunk + 1) len) as [_|Hx]; [|lia].
          rewrite rdw by exact Hin2. cbn [bind]. fold c2. rewrite HcLF. cbn [N.eqb Pos.eqb].
          destruct (Hfin 1 (fun vs => qp_enc vs 0 None r2)) as (vs & st' & Q); [lia| | |].
          -- intros vs. rewrite Hnorm, Hr. rewrite HcLF. reflexivity.
          -- intros vs. unfold r2. do 2 f_equal. lia.
          -- exists vs, st'. replace (S (off + chunk + 1)) with (S (off + chunk) + 1) by lia. exact Q.
      + (* the blank stays literal for now *)
        destruct (IH true idx (S chunk) off (S llen) sb st (Some c) E1) as (vs & st' & Q1 & Q2 & Q3);
          [ lia | exact Hsb | qconsts; lia | discriminate | lia
          | rewrite HsubS; he_solve HE1
          | discriminate
          | intros hb Hhb; inversion Hhb; subst hb; split; [exact Ebl|]; split; [lia|];
            replace (off + S chunk) with (off + chunk + 1) by lia; exact Eeol2
          | unfold measure; pose proof (sbw_le (S llen)); pose proof (staged_le (idx + S chunk)); lia |].
        exists vs, st'. split; [exact Q1|]. split; [|exact Q3]. rewrite Q2, Hq, Hnorm.
        replace (off + S chunk) with (S (off + chunk)) by lia. fold r. rewrite Hr.
        unfold is_eol in Eeol2. apply Bool.orb_false_elim in Eeol2 as [A B]. rewrite A, B. reflexivity. }
  destruct (qp_must_encode c) eqn:Eenc.
  { (* =XX *)
    rewrite rdnw by lia. cbn [bind].
    rewrite sbok by (rewrite app_length, subL by lia; cbn [length]; qconsts; lia). cbn [bind].
    destruct (IH true (idx + chunk + 3) 0 (off + chunk + 1) (llen + 3)
                (sb ++ sub w off chunk ++ [EQUALS; hexchar (N.land (N.shiftr c 4) 15); hexchar (N.land c 15)]) st None
                (E1 ++ hex_code c))
      as (vs & st' & Q1 & Q2 & Q3);
      [ lia | rewrite !app_length, subL by lia; cbn [length]; lia | qconsts; lia | discriminate | lia
      | unfold hex_code; he_solve HE1
      | intros _; rewrite sub_0, app_nil_r;
        change [EQUALS; hexchar (N.land (N.shiftr c 4) 15); hexchar (N.land c 15)]
          with ([EQUALS; hexchar (N.land (N.shiftr c 4) 15)] ++ [hexchar (N.land c 15)]);
        rewrite !app_assoc; apply noblank_end_app; apply hexchar_noblank
      | discriminate
      | unfold measure; pose proof (sbw_le (llen + 3)); pose proof (staged_le (idx + chunk + 3 + 0)); lia |].
    exists vs, st'. split; [exact Q1|]. split; [|exact Q3]. rewrite Q2, Hq.
    rewrite Nat.add_0_r. replace (off + chunk + 1) with (S (off + chunk)) by lia. fold r.
    unfold qp_norm. rewrite Edot, Ebl, Eenc. cbn [app]. rewrite <- app_assoc. reflexivity. }
  (* literal *)
  destruct (IH true idx (S chunk) off (S llen) sb st None (E1 ++ [c])) as (vs & st' & Q1 & Q2 & Q3);
    [ lia | exact Hsb | qconsts; lia | discriminate | lia
    | rewrite HsubS; he_solve HE1
    | intros _; rewrite HsubS, app_assoc; apply noblank_end_app; exact Ebl
    | discriminate
    | unfold measure; pose proof (sbw_le (S llen)); pose proof (staged_le (idx + S chunk)); lia |].
  exists vs, st'. split; [exact Q1|]. split; [|exact Q3]. rewrite Q2, Hq.
  replace (off + S chunk) with (S (off + chunk)) by lia. fold r.
  unfold qp_norm. rewrite Edot, Ebl, Eenc. cbn [app]. rewrite <- app_assoc. reflexivity.
Qed.
(** recode_qp on a window inside the mapping *)
Theorem recode_qp_ok : forall st,
  exists vs st', recode_qp m b len st = Ok st' /\
    concat (rev (out st')) = concat (rev (out st)) ++ qp_enc vs 0 None w /\
    (len = 0 -> st' = st) /\
    (0 < len -> lastlf st' = last_is_lf (concat (rev (out st')))).
Proof.
  intros st. unfold recode_qp. destruct (Nat.eqb_spec len 0) as [H0|Hn0].
  - exists [], st. split; [reflexivity|]. split; [|split; [reflexivity|lia]].
    assert (Hw0 : w = []) by (apply length_zero_iff_nil; rewrite w_len; exact H0).
    rewrite Hw0. cbn [qp_enc olist]. now rewrite app_nil_r.
  - destruct (qp_loop_ok (6 * len + 6) false 0 0 0 0 [] st None (concat (rev (out st)))) as (vs & st' & Q1 & Q2 & Q3);
      [ lia | reflexivity | qconsts; lia | intros _; split; [reflexivity|left; lia] | discriminate
      | rewrite sub_0; cbn [olist app]; now rewrite !app_nil_r
      | intros _; exact I
      | discriminate
      | unfold measure; rewrite sbw_0; lia |].
    exists vs, st'. split; [exact Q1|]. split; [exact Q2|]. split; [lia|intros _; exact Q3].
Qed.

End Window.

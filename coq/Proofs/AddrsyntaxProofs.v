(** addrsyntax() and the front end of addrparse(): what is accepted, what is handed back. *)
From Qv Require Import Common.Bytes Gen.GenAddr Model.Addr Spec.AddrSpec Spec.AddrGrammar
  Proofs.AddrTables Proofs.CStrLemmas Proofs.DomainProofs Proofs.LocalProofs Proofs.ParseaddrProofs.

Local Arguments N.eqb : simpl never.
Ltac as_consts := unfold AS_ROUTE_MAX, AS_RC_EMPTY, AS_RC_POSTMASTER, AS_MIN, AS_POSTMASTER, PA_RC_LIT in *.

(** "@d1,@d2,...,@dk," *)
Inductive route_pre : bytes -> Prop :=
| rp_nil : route_pre []
| rp_cons d r : fqdn_strict d -> route_pre r -> route_pre (cAT :: d ++ cCOMMA :: r).

Lemma route_pre_snoc ys d : route_pre ys -> fqdn_strict d -> route_x (ys ++ cAT :: d ++ [cCOLON]).
Proof.
  induction 1 as [|d0 r Hd0 _ IH]; intros Hd.
  - apply rx_last. exact Hd.
  - cbn [app]. rewrite <- app_assoc. cbn [app]. apply rx_more; [exact Hd0|]. apply IH. exact Hd.
Qed.

Lemma route_pre_app a b : route_pre a -> route_pre b -> route_pre (a ++ b).
Proof.
  induction 1 as [|d0 r Hd0 _ IH]; intros Hb; [exact Hb|].
  cbn [app]. rewrite <- app_assoc. cbn [app]. apply rp_cons; auto.
Qed.

Lemma hd_app_ne (a b : bytes) : a <> [] -> hd 0%N (a ++ b) = hd 0%N a.
Proof. destruct a; [congruence|reflexivity]. Qed.

Lemma route_loop_spec rest fuel : forall m1 y, ~ In NUL y -> hd 0%N y = AT -> length y < fuel ->
  exists mem res, route_loop fuel (m1 ++ y ++ NUL :: rest) (length m1) = Ok (mem, res)
    /\ length mem = length (m1 ++ y ++ NUL :: rest)
    /\ match res with
       | None => True
       | Some f => exists ys m2 yl, y = ys ++ yl /\ route_pre ys /\ ~ In COMMA yl /\ hd 0%N yl = AT
                     /\ mem = (m1 ++ m2) ++ yl ++ NUL :: rest /\ length m2 = length ys /\ f = length m1 + length ys
       end.
Proof.
  induction fuel as [|fuel IH]; [intros; ulia|intros m1 y Hy Hhd Hfuel].
  cbn [route_loop]. rewrite skipn_app_exact.
  destruct (strchr_spec y rest COMMA (length m1) Hy ltac:(discriminate)) as [(y1 & y2 & -> & Hy1 & Hr)|(Hn & Hr)];
    rewrite Hr; cbn [bind].
  2:{ eexists _, _. split; [reflexivity|]. split; [reflexivity|].
      exists [], [], y. rewrite app_nil_r. cbn [app length]. rewrite Nat.add_0_r.
      repeat (split; [reflexivity || assumption || constructor|]). reflexivity. }
  apply not_in_app in Hy as [Hn1 Hn2]. apply not_in_cons in Hn2 as [_ Hn2].
  destruct y1 as [|c d]; [cbn [app hd] in Hhd; discriminate|].
  cbn [app hd] in Hhd. subst c. apply not_in_cons in Hn1 as [_ Hnd].
  (* the comma becomes NUL *)
  assert (E0 : m1 ++ ((AT :: d) ++ COMMA :: y2) ++ NUL :: rest = (m1 ++ AT :: d) ++ COMMA :: (y2 ++ NUL :: rest)).
  { rewrite <- !app_assoc. reflexivity. }
  rewrite E0. replace (length m1 + length (AT :: d)) with (length (m1 ++ AT :: d)) by (rewrite app_length; reflexivity).
  rewrite upd_app. cbn [bind].
  assert (E1 : (m1 ++ AT :: d) ++ NUL :: y2 ++ NUL :: rest = m1 ++ [AT] ++ (d ++ NUL :: (y2 ++ NUL :: rest))).
  { rewrite <- !app_assoc. reflexivity. }
  assert (S1 : skipn (length m1 + 1) ((m1 ++ AT :: d) ++ NUL :: y2 ++ NUL :: rest) = d ++ NUL :: (y2 ++ NUL :: rest)).
  { rewrite E1. rewrite skipn_app_plus. reflexivity. }
  rewrite S1. rewrite domainvalid_exact by assumption. cbn [bind].
  assert (Hlen : length ((m1 ++ AT :: d) ++ NUL :: y2 ++ NUL :: rest) = length ((m1 ++ AT :: d) ++ COMMA :: y2 ++ NUL :: rest)).
  { rewrite !app_length. reflexivity. }
  destruct (fqdn_strict_b d) eqn:Ed; cbn [Nat.eqb negb].
  2:{ eexists _, _. split; [reflexivity|]. split; [exact Hlen|exact I]. }
  assert (R1 : rd ((m1 ++ AT :: d) ++ NUL :: y2 ++ NUL :: rest) (length (m1 ++ AT :: d) + 1) = rd (y2 ++ NUL :: rest) 0).
  { rewrite rd_app_exact. reflexivity. }
  rewrite R1.
  destruct y2 as [|c2 y2'].
  { cbn [app]. rewrite rd_head. cbn [bind]. change (N.eqb NUL AT) with false. cbn [negb].
    eexists _, _. split; [reflexivity|]. split; [exact Hlen|exact I]. }
  cbn [app]. rewrite rd_head. cbn [bind].
  destruct (N.eqb_spec c2 AT) as [->|Hc2]; cbn [negb].
  2:{ eexists _, _. split; [reflexivity|]. split; [exact Hlen|exact I]. }
  (* next element *)
  set (m1' := (m1 ++ AT :: d) ++ [NUL]).
  assert (E2 : (m1 ++ AT :: d) ++ NUL :: AT :: y2' ++ NUL :: rest = m1' ++ (AT :: y2') ++ NUL :: rest).
  { unfold m1'. rewrite <- !app_assoc. reflexivity. }
  assert (L2 : length (m1 ++ AT :: d) + 1 = length m1').
  { unfold m1'. rewrite (app_length _ [NUL]). reflexivity. }
  rewrite E2, L2.
  destruct (IH m1' (AT :: y2') Hn2 eq_refl) as (mem & res & Hrun & Hl & Hpost).
  { rewrite app_length in Hfuel. cbn [length] in *. ulia. }
  exists mem, res. split; [exact Hrun|]. split.
  { rewrite Hl. unfold m1'. rewrite !app_length. cbn [length]. rewrite !app_length. cbn [length]. ulia. }
  destruct res as [f|]; [|exact I].
  destruct Hpost as (ys & m2 & yl & Hy & Hrp & Hyl & Hhdl & Hmem & Hm2 & Hf).
  exists ((AT :: d) ++ COMMA :: ys), ((AT :: d) ++ NUL :: m2), yl.
  split; [rewrite Hy; rewrite <- app_assoc; reflexivity|].
  split; [cbn [app]; apply rp_cons; [now apply fqdn_strict_b_iff|exact Hrp]|].
  split; [exact Hyl|]. split; [exact Hhdl|].
  split; [rewrite Hmem; unfold m1'; rewrite <- !app_assoc; reflexivity|].
  split; [rewrite !app_length; cbn [length]; ulia|].
  rewrite Hf. unfold m1'. rewrite !app_length. cbn [length]. ulia.
Qed.

Section Oracle.
Variable pton4 pton6 : bytes -> bool.

(** what addrsyntax() hands back for the line [s] (bytes before the terminator) *)
Definition as_post (s : bytes) (flags : Z) (r : asres) : Prop :=
  addrsyntax_post pton4 pton6 s flags (as_rc r) (as_addr r) (as_more r).
(** the same with the exact grammar *)
Definition as_post_x (s : bytes) (flags : Z) (r : asres) : Prop :=
  addrsyntax_post_x pton4 pton6 s flags (as_rc r) (as_addr r) (as_more r).

Lemma route_x_weaken rt : route_x rt -> route rt.
Proof. induction 1; [apply rt_last|apply rt_more]; auto using fqdn_strict_fqdn. Qed.

Lemma as_post_x_weaken s flags r : as_post_x s flags r -> as_post s flags r.
Proof.
  intros [H|(rt & a & post & E & Ha & Hrt & Had & Hm & Hc)]; [now left|]. right.
  exists rt, a, post. split; [exact E|]. split; [exact Ha|]. split.
  { destruct Hrt as [->|(F & R & L & _)]; [now left|right]. auto using route_x_weaken. }
  split; [exact Had|]. split; [exact Hm|].
  destruct Hc as [Hc|[[E3 Hc]|[E4 Hc]]]; [now left|right; left|right; right]; split; auto using mailbox_x_weaken.
Qed.

(** from the search for the closing angle bracket on: the line is rt ++ y, [m1] is what became of rt *)
Lemma as_tail rest flags rt m1 y : ~ In NUL y -> length m1 = length rt ->
  (rt = [] \/ (flags = 1%Z /\ route_x rt /\ length rt <= 256 /\ ~ In cCOMMA y)) ->
  let mem := m1 ++ y ++ NUL :: rest in
  let f := length m1 in
  exists r,
    (do l0 <- strchr (skipn f mem) GT f;
      match l0 with
      | None => Ok (as_fail None mem)
      | Some l =>
          let len := l - f in
          do l1 <- rd mem (l + 1);
          let more := if N.eqb l1 NUL then None else Some (l + 1) in
          if Z.eqb flags 0 && Nat.eqb len 0 then Ok (mk_asres (Z.of_nat AS_RC_EMPTY) (Some []) more mem)
          else
            do mem' <- upd mem l NUL;
            do call <- (if negb (Z.eqb flags 1) then Ok true
                        else do pm <- strcase_eq (skipn f mem') (AS_POSTMASTER ++ [NUL]); Ok (negb pm));
            do x <- (if call then parseaddr pton4 pton6 (skipn f mem') else Ok AS_RC_POSTMASTER);
            if call && Nat.ltb x AS_MIN then Ok (as_fail more mem')
            else
              do s <- cstr (skipn f mem');
              if Nat.ltb (length s + 1) len then Crash 40
              else Ok (mk_asres (Z.of_nat x)
                         (Some (map to_lower (firstn len s) ++ skipn len s)) more mem')
      end) = Ok r
    /\ as_post_x (rt ++ y) flags r /\ length (as_mem r) = length mem.
Proof.
  intros Hy Hm1 Hrt mem f. unfold mem, f. rewrite skipn_app_exact.
  destruct (strchr_spec y rest GT (length m1) Hy ltac:(discriminate)) as [(a & post & -> & Ha & Hr)|(Hn & Hr)];
    rewrite Hr; cbn [bind].
  2:{ eexists. split; [reflexivity|]. split; [now left|reflexivity]. }
  apply not_in_app in Hy as [Hna Hnp]. apply not_in_cons in Hnp as [_ Hnp].
  assert (E0 : m1 ++ (a ++ GT :: post) ++ NUL :: rest = (m1 ++ a) ++ GT :: (post ++ NUL :: rest)).
  { rewrite <- !app_assoc. reflexivity. }
  rewrite E0. replace (length m1 + length a) with (length (m1 ++ a)) by (rewrite app_length; reflexivity).
  rewrite rd_app_exact.
  replace (length (m1 ++ a) - length m1) with (length a) by (rewrite app_length; ulia).
  (* more *)
  assert (Hmore : exists more, (rd (GT :: post ++ NUL :: rest) 1 = Ok (hd NUL (post ++ [NUL])))
                   /\ more = (if N.eqb (hd NUL (post ++ [NUL])) NUL then None else Some (length (m1 ++ a) + 1))
                   /\ more = match post with [] => None | _ => Some (length rt + length a + 1) end).
  { eexists. split; [destruct post; reflexivity|]. split; [reflexivity|].
    destruct post as [|c0 post']; [reflexivity|]. apply not_in_cons in Hnp as [Hc0 _]. cbn [app hd].
    destruct (N.eqb_spec c0 NUL); [congruence|]. rewrite app_length, Hm1. reflexivity. }
  destruct Hmore as (more & Hrd & Hmore1 & Hmore2). rewrite Hrd. cbn [bind]. rewrite <- Hmore1.
  destruct (Z.eqb_spec flags 0) as [Hf0|Hf0]; cbn [andb].
  - destruct (Nat.eqb_spec (length a) 0) as [Ha0|Ha0].
    + (* MAIL FROM:<> *)
      eexists. split; [reflexivity|]. cbn [as_mem]. split; [|reflexivity]. right.
      destruct a; [|discriminate].
      exists rt, [], post. cbn [app map as_rc as_addr as_more length].
      split; [reflexivity|]. split; [intros []|]. split; [exact Hrt|]. split; [reflexivity|].
      split; [rewrite Hmore2; destruct post; [reflexivity|]; f_equal; cbn [length]; ulia|]. left. as_consts. auto.
    + (* flags = 0, non-empty address *)
      rewrite upd_app. cbn [bind]. subst flags. cbn [Z.eqb negb bind].
      assert (S1 : skipn (length m1) ((m1 ++ a) ++ NUL :: post ++ NUL :: rest) = a ++ NUL :: (post ++ NUL :: rest)).
      { rewrite <- app_assoc. apply skipn_app_exact. }
      rewrite S1.
      destruct (parseaddr_spec_x pton4 pton6 a (post ++ NUL :: rest) Hna) as (rc & Hrc & Hp). rewrite Hrc. cbn [bind andb].
      as_consts. destruct (Nat.ltb_spec rc 3) as [Hlt|Hge].
      { eexists. split; [reflexivity|]. split; [now left|]. cbn [as_fail as_mem]. rewrite !app_length. reflexivity. }
      rewrite cstr_run by assumption. cbn [bind].
      destruct (Nat.ltb_spec (length a + 1) (length a)) as [Hbad|_]; [ulia|].
      eexists. split; [reflexivity|]. cbn [as_mem]. split; [|rewrite !app_length; reflexivity]. right.
      exists rt, a, post. cbn [as_rc as_addr as_more].
      split; [reflexivity|]. split; [exact Ha|]. split; [exact Hrt|].
      split; [rewrite firstn_all, skipn_all, app_nil_r; reflexivity|]. split; [exact Hmore2|].
      destruct rc as [|[|[|[|[|]]]]]; try ulia; cbn in Hp; auto; destruct Hp.
  - rewrite upd_app. cbn [bind].
    assert (S1 : skipn (length m1) ((m1 ++ a) ++ NUL :: post ++ NUL :: rest) = a ++ NUL :: (post ++ NUL :: rest)).
    { rewrite <- app_assoc. apply skipn_app_exact. }
    rewrite S1.
    assert (Hfin : forall rc, 3 <= rc -> pa_post_x pton4 pton6 a rc ->
       exists r, (do s <- cstr (a ++ NUL :: post ++ NUL :: rest);
                  if Nat.ltb (length s + 1) (length a) then Crash 40
                  else Ok (mk_asres (Z.of_nat rc) (Some (map to_lower (firstn (length a) s) ++ skipn (length a) s)) more
                             ((m1 ++ a) ++ NUL :: post ++ NUL :: rest))) = Ok r
         /\ as_post_x (rt ++ a ++ GT :: post) flags r
         /\ length (as_mem r) = length ((m1 ++ a) ++ GT :: post ++ NUL :: rest)).
    { intros rc Hge Hp. rewrite cstr_run by assumption. cbn [bind].
      destruct (Nat.ltb_spec (length a + 1) (length a)) as [Hbad|_]; [ulia|].
      eexists. split; [reflexivity|]. cbn [as_mem]. split; [|rewrite !app_length; reflexivity]. right.
      exists rt, a, post. cbn [as_rc as_addr as_more].
      split; [reflexivity|]. split; [exact Ha|]. split; [exact Hrt|].
      split; [rewrite firstn_all, skipn_all, app_nil_r; reflexivity|]. split; [exact Hmore2|].
      destruct rc as [|[|[|[|[|]]]]]; try ulia; cbn in Hp; auto; destruct Hp. }
    destruct (Z.eqb_spec flags 1) as [Hf1|Hf1]; cbn [negb bind].
    + (* RCPT TO: postmaster without domain is allowed *)
      as_consts. change [112; 111; 115; 116; 109; 97; 115; 116; 101; 114]%N with POSTMASTER.
      rewrite strcase_run; [|assumption|vm_compute; intuition discriminate]. cbn [bind].
      destruct (bytes_eqb (map to_lower a) (map to_lower POSTMASTER)) eqn:Epm; cbn [negb andb bind].
      * apply bytes_eqb_eq in Epm. change (map to_lower POSTMASTER) with POSTMASTER in Epm.
        rewrite cstr_run by assumption. cbn [bind].
        destruct (Nat.ltb_spec (length a + 1) (length a)) as [Hbad|_]; [ulia|].
        eexists. split; [reflexivity|]. cbn [as_mem]. split; [|rewrite !app_length; reflexivity]. right.
        exists rt, a, post. cbn [as_rc as_addr as_more].
        split; [reflexivity|]. split; [exact Ha|]. split; [exact Hrt|].
        split; [rewrite firstn_all, skipn_all, app_nil_r; reflexivity|]. split; [exact Hmore2|].
        left. auto.
      * destruct (parseaddr_spec_x pton4 pton6 a (post ++ NUL :: rest) Hna) as (rc & Hrc & Hp). rewrite Hrc. cbn [bind].
        destruct (Nat.ltb_spec rc 3) as [Hlt|Hge].
        { eexists. split; [reflexivity|]. split; [now left|]. cbn [as_fail as_mem]. rewrite !app_length. reflexivity. }
        apply Hfin; assumption.
    + destruct (parseaddr_spec_x pton4 pton6 a (post ++ NUL :: rest) Hna) as (rc & Hrc & Hp). rewrite Hrc. cbn [bind andb].
      as_consts. destruct (Nat.ltb_spec rc 3) as [Hlt|Hge].
      { eexists. split; [reflexivity|]. split; [now left|]. cbn [as_fail as_mem]. rewrite !app_length. reflexivity. }
      apply Hfin; assumption.
Qed.

Theorem addrsyntax_spec_x s rest flags : ~ In NUL s ->
  exists r, addrsyntax pton4 pton6 (s ++ NUL :: rest) flags = Ok r
    /\ as_post_x s flags r /\ length (as_mem r) = length (s ++ NUL :: rest).
Proof.
  intros Hs. unfold addrsyntax.
  assert (R0 : rd (s ++ NUL :: rest) 0 = Ok (hd NUL (s ++ [NUL]))) by (destruct s; reflexivity).
  rewrite R0. cbn [bind].
  destruct (Z.eqb flags 1 && N.eqb (hd NUL (s ++ [NUL])) AT) eqn:Ert.
  2:{ cbn [bind].
      pose proof (as_tail rest flags [] [] s Hs eq_refl (or_introl eq_refl)) as H.
      cbn zeta in H. exact H. }
  apply andb_true_iff in Ert as [Hf1 Hc0]. apply Z.eqb_eq in Hf1. apply N.eqb_eq in Hc0.
  assert (Hhd : hd 0%N s = AT) by (destruct s; [discriminate|exact Hc0]).
  destruct (route_loop_spec rest (length (s ++ NUL :: rest)) [] s Hs Hhd) as (mem & res & Hrun & Hlen & Hpost).
  { rewrite app_length. cbn [length]. ulia. }
  cbn [app length] in Hrun. rewrite Hrun. cbn [bind]. cbn [app] in Hlen.
  destruct res as [f|].
  2:{ cbn [bind]. eexists. split; [reflexivity|]. split; [now left|exact Hlen]. }
  destruct Hpost as (ys & m2 & yl & Hy & Hrp & Hyl & Hhdl & Hmem & Hm2 & Hf).
  cbn [app length] in Hmem, Hf. subst f. rewrite <- Hm2. subst mem. cbn [Nat.add].
  rewrite skipn_app_exact.
  assert (Hnyl : ~ In NUL yl) by (subst s; apply not_in_app in Hs; tauto).
  destruct (strchr_spec yl rest COLON (length m2) Hnyl ltac:(discriminate)) as [(z1 & z2 & -> & Hz1 & Hr)|(Hn & Hr)];
    rewrite Hr; cbn [bind].
  2:{ eexists. split; [reflexivity|]. split; [now left|exact Hlen]. }
  apply not_in_app in Hnyl as [Hnz1 Hnz2]. apply not_in_cons in Hnz2 as [_ Hnz2].
  destruct z1 as [|c d]; [cbn [app hd] in Hhdl; discriminate|].
  cbn [app hd] in Hhdl. subst c. apply not_in_cons in Hnz1 as [_ Hnd].
  assert (E0 : m2 ++ ((AT :: d) ++ COLON :: z2) ++ NUL :: rest = (m2 ++ AT :: d) ++ COLON :: (z2 ++ NUL :: rest)).
  { rewrite <- !app_assoc. reflexivity. }
  rewrite E0 in *. replace (length m2 + length (AT :: d)) with (length (m2 ++ AT :: d)) by (rewrite app_length; reflexivity).
  rewrite upd_app. cbn [bind].
  assert (S1 : skipn (length m2 + 1) ((m2 ++ AT :: d) ++ NUL :: z2 ++ NUL :: rest) = d ++ NUL :: (z2 ++ NUL :: rest)).
  { rewrite <- app_assoc. rewrite skipn_app_plus. reflexivity. }
  rewrite S1. rewrite domainvalid_exact by assumption. cbn [bind].
  assert (Hlen2 : length ((m2 ++ AT :: d) ++ NUL :: z2 ++ NUL :: rest) = length (s ++ NUL :: rest)).
  { rewrite <- Hlen. rewrite !app_length. reflexivity. }
  destruct (fqdn_strict_b d) eqn:Ed; cbn [Nat.eqb negb].
  2:{ cbn [bind]. eexists. split; [reflexivity|]. split; [now left|exact Hlen2]. }
  as_consts.
  destruct (Nat.ltb_spec 256 (length (m2 ++ AT :: d) + 1)) as [Hlong|Hshort].
  { cbn [bind]. eexists. split; [reflexivity|]. split; [now left|exact Hlen2]. }
  cbn [bind].
  set (m1 := (m2 ++ AT :: d) ++ [NUL]).
  set (rt := ys ++ (AT :: d) ++ [COLON]).
  assert (E2 : (m2 ++ AT :: d) ++ NUL :: z2 ++ NUL :: rest = m1 ++ z2 ++ NUL :: rest).
  { unfold m1. rewrite <- !app_assoc. reflexivity. }
  assert (L2 : length (m2 ++ AT :: d) + 1 = length m1).
  { unfold m1. rewrite (app_length _ [NUL]). reflexivity. }
  assert (L3 : length m1 = length rt).
  { unfold m1, rt. repeat (rewrite ?app_length; cbn [length app]). ulia. }
  assert (Hroute : rt = [] \/ (flags = 1%Z /\ route_x rt /\ length rt <= 256 /\ ~ In cCOMMA z2)).
  { right. split; [exact Hf1|]. split; [|split].
    - unfold rt. cbn [app]. apply route_pre_snoc; [exact Hrp|].
      now apply fqdn_strict_b_iff.
    - rewrite <- L3, <- L2. exact Hshort.
    - intros X. apply Hyl. cbn [app]. right. apply in_or_app. right. now right. }
  rewrite E2 in *. rewrite L2.
  pose proof (as_tail rest flags rt m1 z2 Hnz2 L3 Hroute) as H. cbn zeta in H.
  destruct H as (r & Hr1 & Hr2 & Hr3). exists r. split; [exact Hr1|]. split; [|rewrite Hr3; exact Hlen2].
  replace s with (rt ++ z2); [exact Hr2|].
  rewrite Hy. unfold rt. rewrite <- !app_assoc. reflexivity.
Qed.

Theorem addrsyntax_spec s rest flags : ~ In NUL s ->
  exists r, addrsyntax pton4 pton6 (s ++ NUL :: rest) flags = Ok r
    /\ as_post s flags r /\ length (as_mem r) = length (s ++ NUL :: rest).
Proof.
  intros Hs. destruct (addrsyntax_spec_x s rest flags Hs) as (r & H & Hp & Hl). exists r.
  split; [exact H|]. split; [now apply as_post_x_weaken|exact Hl].
Qed.

(** the address addrparse() goes on with after the syntax check *)
Definition ap_post (s : bytes) (flags : Z) (o : option bytes) : Prop := addrparse_post pton4 pton6 s flags o.

Theorem addrparse_spec s rest flags : ~ In NUL s ->
  exists o, addrparse_syntax pton4 pton6 (s ++ NUL :: rest) flags = Ok o /\ ap_post s flags o.
Proof.
  intros Hs. unfold addrparse_syntax.
  destruct (addrsyntax_spec s rest flags Hs) as (r & Hr & Hpost & _). rewrite Hr. cbn [bind]. as_consts.
  destruct Hpost as [H0|(rt & a & post & Hs' & Ha & Hrt & Haddr & Hmore & Hrc)].
  { rewrite H0. cbn [Z.eqb orb]. eexists. split; [reflexivity|exact I]. }
  destruct Hrc as [(H1 & Hc)|[(H3 & Hm)|(H4 & Hm)]].
  - rewrite H1, Haddr. cbn [Z.eqb orb]. rewrite andb_false_r. eexists. split; [reflexivity|].
    exists rt, a, post. destruct Hc as [Hc|Hc]; auto 10.
  - rewrite H3, Haddr. cbn [Z.eqb orb]. rewrite andb_false_r. eexists. split; [reflexivity|].
    exists rt, a, post. auto 10.
  - rewrite H4, Haddr. cbn [Z.eqb Z.of_nat Pos.of_succ_nat Pos.succ Pos.eqb orb].
    destruct (Z.eqb_spec flags 1) as [Hf|Hf]; cbn [negb andb].
    + eexists. split; [reflexivity|]. exists rt, a, post. auto 10.
    + eexists. split; [reflexivity|exact I].
Qed.

End Oracle.

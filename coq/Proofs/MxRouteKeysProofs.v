(** smtproute() with all keys: order of the lookups, relation to the relay/port model, and the
    documented meaning of the keys and of address literals (doc/man/Qremote.8). *)
From Coq Require Import List NArith Bool Arith Lia.
From Qv Require Import Common.Bytes Gen.GenMx Model.Mx Model.MxRoute Model.MxDns Model.InetPton Model.InetPtonVal
  Model.MxRouteKeys Spec.MxRouteSpec Spec.MxRouteKeysSpec Proofs.MxRouteProofs Proofs.InetPtonValProofs.
Import ListNotations.
Local Open Scope bool_scope.

(* ------------------------------------------------------------------ the probing loop with the default flag *)
Definition lift_found_x (o : option (bytes * bool)) : probe_result_x :=
  match o with Some (c, d) => PXFound c d | None => PXNone end.

Lemma probe_x_default fuel files :
  1 <= fuel -> probe_x fuel files default_name None = Ok (lift_found_x (first_file_x files [default_name])).
Proof.
  intros Hf. destruct fuel as [|f]; [lia|]. cbn [probe_x first_file_x].
  rewrite default_name_length, name_max_val. change (Nat.ltb 255 7) with false. cbn iota.
  destruct (assoc default_name files); reflexivity.
Qed.

Lemma first_file_x_cons files n r :
  r <> [] ->
  first_file_x files (n :: r) = match assoc n files with Some c => Some (c, false) | None => first_file_x files r end.
Proof. destruct r; [congruence|reflexivity]. Qed.

Lemma probe_x_spec fuel : forall files fn cp,
  length cp + 2 <= fuel -> length fn <= 255 -> length cp <= 254 ->
  probe_x fuel files fn (Some cp)
  = Ok (lift_found_x (first_file_x files (fn :: map (cons STAR) (dot_suffixes cp) ++ [default_name]))).
Proof.
  induction fuel as [|f IH]; intros files fn cp Hfuel Hfn Hcp; [lia|].
  cbn [probe_x].
  assert (Hlt : Nat.ltb NAME_MAX (length fn) = false) by (apply Nat.ltb_ge; rewrite name_max_val; lia).
  rewrite Hlt. rewrite first_file_x_cons by (destruct (map (cons STAR) (dot_suffixes cp)); discriminate).
  destruct (assoc fn files) as [c|]; [reflexivity|].
  destruct (strchr cp DOT) as [d|] eqn:Es.
  - destruct (strchr_dot_some cp d Es) as (r & -> & Hs & Hl).
    assert (Hle : Nat.leb (N.to_nat ROUTE_FNBUF_SIZE - 1) (length (DOT :: r)) = false)
      by (rewrite fnbuf_val; apply Nat.leb_gt; lia).
    rewrite Hle. rewrite Hs. cbn [map app tl]. cbn [length] in Hl.
    apply IH; [lia|cbn [length]; lia|lia].
  - rewrite (strchr_dot_none cp Es). cbn [map app]. apply probe_x_default. lia.
Qed.

Lemma first_match_x_find cfg ke remhost lines :
  first_match_x cfg ke remhost lines
  = match find (line_matches remhost) lines with
    | Some l => eval_line_x cfg ke l
    | None => XRoute None ROUTE_DEFAULT_PORT false (line_settings cfg ke)
    end.
Proof.
  induction lines as [|l r IH]; [reflexivity|]. cbn [first_match_x find].
  destruct (line_matches remhost l); [reflexivity|exact IH].
Qed.

Lemma eval_routes_x_ref cfg ke remhost : eval_routes_x cfg ke remhost = routes_ref_x cfg ke remhost.
Proof. unfold eval_routes_x, routes_ref_x. destruct (routes_file cfg); [|reflexivity]. apply first_match_x_find. Qed.

Theorem smtproute_x_order (cfg : route_cfg) (ke : key_env) (remhost : bytes) :
  length remhost <= 254 -> smtproute_x cfg ke remhost = Ok (route_ref_x cfg ke remhost).
Proof.
  intros Hl. unfold smtproute_x, route_ref_x. destruct (dir_exists cfg); [|rewrite eval_routes_x_ref; reflexivity].
  assert (Hp : probe_x (length remhost + 3) (dir_files cfg) remhost (Some remhost)
               = Ok (lift_found_x (first_file_x (dir_files cfg) (probe_names remhost)))).
  { apply probe_x_spec; lia. }
  rewrite Hp. cbn [bind].
  destruct (first_file_x (dir_files cfg) (probe_names remhost)) as [[c d]|]; cbn [lift_found_x]; [reflexivity|].
  rewrite eval_routes_x_ref. reflexivity.
Qed.

(* ------------------------------------------------------------------ relation to the relay/port model *)
Lemma first_file_x_erase files names :
  option_map fst (first_file_x files names) = first_file files names.
Proof.
  induction names as [|n r IH]; [reflexivity|]. destruct r as [|n2 r2].
  - cbn [first_file_x first_file]. destruct (assoc n files); reflexivity.
  - rewrite first_file_x_cons by discriminate. cbn [first_file]. destruct (assoc n files); [reflexivity|exact IH].
Qed.

Lemma parse_route_params_x_erase cfg host port s :
  erase_x (parse_route_params_x cfg host port s) = parse_route_params cfg host port.
Proof.
  unfold parse_route_params_x.
  assert (Hno : parse_route_params cfg host port <> RouteOther).
  { unfold parse_route_params.
    destruct (match host with
              | Some h => match assoc h (dns_table cfg) with Some (a :: r) => Some (Some (a :: r)) | _ => None end
              | None => Some None end) as [mxo|]; [|discriminate].
    destruct port as [p|]; [|discriminate]. destruct (strtoul_uint p) as [v more]. destruct more; [|discriminate].
    destruct (_ || _); discriminate. }
  destruct (parse_route_params cfg host port); [reflexivity|congruence|reflexivity].
Qed.

Lemma no_high_keys mask lines i :
  existsb (fun j => Nat.leb 2 j) mask = false -> 2 <= i -> key_value mask lines i = None.
Proof.
  intros H Hi. unfold key_value.
  assert (E : existsb (Nat.eqb i) mask = false); [|rewrite E; reflexivity].
  apply not_true_is_false. intros Hc. apply existsb_exists in Hc. destruct Hc as (j & Hj & Hij).
  apply Nat.eqb_eq in Hij. subst j.
  assert (existsb (fun j => Nat.leb 2 j) mask = true); [|congruence].
  apply existsb_exists. exists i. split; [exact Hj|apply Nat.leb_le; exact Hi].
Qed.

Lemma eval_file_x_erase cfg ke d content :
  eval_file cfg content <> RouteOther -> erase_x (eval_file_x cfg ke d content) = eval_file cfg content.
Proof.
  unfold eval_file, eval_file_x. destruct (load_valid [] (load_lines content)) as [mask lines].
  destruct (existsb (fun i => Nat.leb 2 i) mask) eqn:E; [congruence|]. intros _.
  unfold eval_keys. rewrite !(no_high_keys mask lines _ E) by lia. cbn [check_file check_oip check_oip6].
  apply parse_route_params_x_erase.
Qed.

Lemma routes_ref_x_erase cfg ke h : erase_x (routes_ref_x cfg ke h) = routes_ref cfg h.
Proof.
  unfold routes_ref_x, routes_ref. destruct (routes_file cfg); [|reflexivity].
  destruct (find _ _); [|reflexivity]. unfold eval_line_x, eval_line. apply parse_route_params_x_erase.
Qed.

(** where the relay/port model speaks (no other key in the deciding file), the full model says the same *)
Theorem route_ref_x_erase cfg ke h :
  route_ref cfg h <> RouteOther -> erase_x (route_ref_x cfg ke h) = route_ref cfg h.
Proof.
  unfold route_ref, route_ref_x. destruct (dir_exists cfg); [|intros _; apply routes_ref_x_erase].
  pose proof (first_file_x_erase (dir_files cfg) (probe_names h)) as He.
  destruct (first_file_x (dir_files cfg) (probe_names h)) as [[c d]|]; cbn [option_map fst] in He; rewrite <- He.
  - apply eval_file_x_erase.
  - intros _. apply routes_ref_x_erase.
Qed.

(* ------------------------------------------------------------------ documented meaning of the keys *)

(** "Duplicate keys are forbidden": what the code does — the second line with a key that was already seen is
    rejected by validroute() (logged as invalid entry and dropped), the file is still used, the FIRST value counts *)
Lemma validroute_duplicate mask line i :
  validroute [] line = Some [i] -> In i mask -> validroute mask line = None.
Proof.
  unfold validroute. intros H Hin.
  destruct (strchr line EQSIGN); [|discriminate].
  destruct (before line EQSIGN) as [|k0 kr]; [discriminate|].
  destruct (tag_index_from 0 ROUTE_TAGS (k0 :: kr)) as [j|]; [|discriminate].
  cbn [existsb] in H. injection H as <-.
  assert (E : existsb (Nat.eqb j) mask = true); [|rewrite E; reflexivity].
  apply existsb_exists. exists j. split; [exact Hin|apply Nat.eqb_refl].
Qed.

Lemma load_valid_mask_incl lines : forall mask, incl mask (fst (load_valid mask lines)).
Proof.
  induction lines as [|l r IH]; intros mask; cbn [load_valid]; [apply incl_refl|].
  destruct (validroute mask l) as [m'|] eqn:E.
  - specialize (IH m'). destruct (load_valid m' r) as [m ls]. cbn [fst] in *.
    unfold validroute in E. destruct (strchr l EQSIGN); [|discriminate]. destruct (before l EQSIGN) as [|k0 kr]; [discriminate|].
    destruct (tag_index_from 0 ROUTE_TAGS (k0 :: kr)); [|discriminate]. destruct (existsb _ mask); [discriminate|].
    injection E as <-. intros x Hx. apply IH. right. exact Hx.
  - apply IH.
Qed.

(** the first accepted line is the first element of the loaded array, so tagvalue() finds its value first *)
Theorem first_value_wins line rest i v :
  validroute [] line = Some [i] ->
  line = nth i ROUTE_TAGS [] ++ EQSIGN :: v ->
  let '(mask, lines) := load_valid [] (line :: rest) in
  key_value mask lines i = Some v.
Proof.
  intros Hv Hl. cbn [load_valid]. rewrite Hv.
  pose proof (load_valid_mask_incl rest [i]) as Hinc.
  destruct (load_valid [i] rest) as [mask ls]. cbn [fst] in Hinc.
  unfold key_value.
  assert (E : existsb (Nat.eqb i) mask = true).
  { apply existsb_exists. exists i. split; [apply Hinc; left; reflexivity|apply Nat.eqb_refl]. }
  rewrite E. cbn [tagvalue]. rewrite Hl.
  assert (Hp : forall t r, is_prefix t (t ++ r) = true).
  { induction t as [|x t IHt]; intros r; [destruct r; reflexivity|]. cbn [app is_prefix]. rewrite N.eqb_refl. apply IHt. }
  rewrite Hp. rewrite app_nth2 by lia. rewrite Nat.sub_diag. cbn [nth]. rewrite N.eqb_refl. cbn [andb].
  f_equal. change (S (length (nth i ROUTE_TAGS []))) with (1 + length (nth i ROUTE_TAGS [])).
  rewrite Nat.add_comm, <- skipn_skipn', skipn_app, skipn_all, Nat.sub_diag. reflexivity.
Qed.

(** what a file whose keys all pass leaves behind, and what it takes to pass:
    - clientcert / clientkey must name readable files ("invalid certificate" / "invalid key" otherwise);
    - a key that is absent leaves its setting untouched (None: the value of the default control files);
    - expect_tls is set exactly by a clientcert in a file that was not found as the last-resort "default";
    - outgoingip must be an IPv4 dotted quad (an IPv6 text is "invalid outgoingip"), the setting is its v4-mapped form;
    - outgoingip6 must be an IPv6 text whose value is not v4-mapped ("invalid outgoingip6" / "IPv4 mapped address"). *)
Theorem eval_keys_ok ke d mask lines s :
  eval_keys ke d mask lines = inr s ->
  s_cert s = key_value mask lines 2 /\ s_key s = key_value mask lines 3
  /\ (forall f, key_value mask lines 2 = Some f -> mem_bytes f (k_readable ke) = true)
  /\ (forall f, key_value mask lines 3 = Some f -> mem_bytes f (k_readable ke) = true)
  /\ s_expect_tls s = (match key_value mask lines 2 with Some _ => negb d | None => false end)
  /\ (key_value mask lines 4 = None -> s_oip s = None)
  /\ (forall t, key_value mask lines 4 = Some t ->
        pton4_ref t = true /\ exists q, pton4_val t = Some q /\ s_oip s = Some ([0; 0; 0; 0; 0; 0; 0; 0; 0; 0; 255; 255]%N ++ q))
  /\ (key_value mask lines 5 = None -> s_oip6 s = None)
  /\ (forall t, key_value mask lines 5 = Some t ->
        pton6_ref t = true /\ exists a, pton6_val t = Some a /\ is_v4mapped a = false /\ s_oip6 s = Some a).
Proof.
  unfold eval_keys, check_file, check_oip, check_oip6, pton_v4mapped_val. intros H.
  destruct (key_value mask lines 2) as [c|] eqn:E2; [destruct (mem_bytes c (k_readable ke)) eqn:R2; [|discriminate]|];
  (destruct (key_value mask lines 3) as [k|] eqn:E3; [destruct (mem_bytes k (k_readable ke)) eqn:R3; [|discriminate]|]);
  (destruct (key_value mask lines 4) as [t4|] eqn:E4;
     [pose proof (pton4_val_valid t4) as V4; destruct (pton4_val t4) as [q|] eqn:P4; [|discriminate]|]);
  (destruct (key_value mask lines 5) as [t6|] eqn:E6;
     [pose proof (pton6_val_valid t6) as V6; destruct (pton6_val t6) as [a|] eqn:P6; [destruct (is_v4mapped a) eqn:M6; [discriminate|]|discriminate]|]);
  injection H as <-; cbn [s_cert s_key s_expect_tls s_oip s_oip6].
  all: split; [reflexivity|].
  all: split; [reflexivity|].
  all: split; [intros f Hf; first [discriminate | injection Hf as <-; assumption]|].
  all: split; [intros f Hf; first [discriminate | injection Hf as <-; assumption]|].
  all: split; [reflexivity|].
  all: split; [intros Hn; first [reflexivity | discriminate]|].
  all: split; [intros t Ht; first [discriminate
                                  | injection Ht as <-; split; [rewrite <- V4; reflexivity | exists q; split; [exact P4|reflexivity]]]|].
  all: split; [intros Hn; first [reflexivity | discriminate]|].
  all: intros t Ht; first [discriminate
                          | injection Ht as <-; split; [rewrite <- V6; reflexivity | exists a; split; [exact P6|split; [exact M6|reflexivity]]]].
Qed.

(** the error that ends smtproute() is that of the first offending key in the order clientcert, clientkey,
    outgoingip, outgoingip6 — and all of them come before an unresolvable relay or a bad port *)
Theorem eval_keys_error_order ke d mask lines :
  match eval_keys ke d mask lines with
  | inl c =>
      (c = F_CERT /\ check_file ke (key_value mask lines 2) F_CERT = Some F_CERT)
      \/ (c = F_KEY /\ check_file ke (key_value mask lines 2) F_CERT = None /\ check_file ke (key_value mask lines 3) F_KEY = Some F_KEY)
      \/ (c = F_OIP /\ check_file ke (key_value mask lines 2) F_CERT = None /\ check_file ke (key_value mask lines 3) F_KEY = None
          /\ check_oip (key_value mask lines 4) = inl F_OIP)
      \/ ((c = F_OIP6 \/ c = F_OIP6_V4) /\ check_file ke (key_value mask lines 2) F_CERT = None
          /\ check_file ke (key_value mask lines 3) F_KEY = None /\ (exists o, check_oip (key_value mask lines 4) = inr o)
          /\ check_oip6 (key_value mask lines 5) = inl c)
  | inr _ => True
  end.
Proof.
  unfold eval_keys.
  destruct (check_file ke (key_value mask lines 2) F_CERT) as [c|] eqn:E2.
  { left. unfold check_file in E2. destruct (key_value mask lines 2); [|discriminate]. destruct (mem_bytes _ _); [discriminate|].
    injection E2 as <-. split; reflexivity. }
  destruct (check_file ke (key_value mask lines 3) F_KEY) as [c|] eqn:E3.
  { right. left. unfold check_file in E3. destruct (key_value mask lines 3); [|discriminate]. destruct (mem_bytes _ _); [discriminate|].
    injection E3 as <-. repeat split; reflexivity. }
  destruct (check_oip (key_value mask lines 4)) as [c|o4] eqn:E4.
  { right. right. left. unfold check_oip in E4. destruct (key_value mask lines 4); [|discriminate].
    destruct (pton_v4mapped_val _); [discriminate|]. injection E4 as <-. repeat split; reflexivity. }
  destruct (check_oip6 (key_value mask lines 5)) as [c|o6] eqn:E6; [|exact I].
  right. right. right. split.
  - unfold check_oip6 in E6. destruct (key_value mask lines 5); [|discriminate]. destruct (pton6_val _); [|injection E6 as <-; left; reflexivity].
    destruct (is_v4mapped _); [injection E6 as <-; right; reflexivity|discriminate].
  - repeat split; try reflexivity. exists o4. reflexivity.
Qed.

(** "clientkey: if not given clientcert is used"; with neither, control/clientkey.pem if it is readable *)
Theorem key_name_rule s :
  key_name s = match s_key s, s_cert s with
               | Some k, _ => k
               | None, Some c => c
               | None, None => if s_defkey s then ROUTE_DEFAULT_KEY else ROUTE_DEFAULT_CERT
               end.
Proof. unfold key_name. destruct (s_key s), (s_cert s); reflexivity. Qed.

(* ------------------------------------------------------------------ address literals *)
Lemma last_bracket {A} (c : A) inner r d : last (c :: inner ++ [r]) d = r.
Proof. change (c :: inner ++ [r]) with ((c :: inner) ++ [r]). apply last_last. Qed.

(** "[text]" is accepted exactly when text is an IPv6 address text or an IPv4 dotted quad *)
Theorem target_literal_accepts inner :
  (exists a, target_literal (LBRACKET :: inner ++ [RBRACKET]) = Some (Some a))
  <-> pton6_ref inner || pton4_ref inner = true.
Proof.
  unfold target_literal. rewrite N.eqb_refl, last_bracket, N.eqb_refl, removelast_last.
  rewrite <- pton6_val_valid, <- pton4_val_valid. unfold pton_v4mapped_val.
  destruct (pton6_val inner) as [a|]; cbn [is_some orb].
  - split; [reflexivity|]. intros _. eauto.
  - destruct (pton4_val inner) as [q|]; cbn [is_some]; split; intros H; try discriminate; eauto.
    destruct H as (a & H). discriminate.
Qed.

(** an address literal as target: smtproutes.d, smtproutes and DNS are not consulted, whatever they contain;
    the list is that one address (no name) and the port is the initial one *)
Theorem literal_skips_routes cfg tab flag recs remhost a :
  target_literal remhost = Some (Some a) ->
  getmxlist_x cfg tab flag recs remhost = Ok (GList [mkmx 0 253 [a]] DEFAULT_PORT).
Proof. intros H. unfold getmxlist_x. rewrite H. reflexivity. Qed.

Theorem literal_malformed cfg tab flag recs remhost :
  target_literal remhost = Some None -> getmxlist_x cfg tab flag recs remhost = Ok (GDie 3).
Proof. intros H. unfold getmxlist_x. rewrite H. reflexivity. Qed.

(** anything that does not start with '[' takes the route / DNS path of C20_getmxlist *)
Theorem nonliteral_same cfg tab flag recs remhost :
  target_literal remhost = None -> getmxlist_x cfg tab flag recs remhost = getmxlist cfg tab flag recs remhost.
Proof. intros H. unfold getmxlist_x. rewrite H. reflexivity. Qed.

(* ------------------------------------------------------------------ the two rules before the fixes *)
Definition W_v4 : addr := [0; 0; 0; 0; 0; 0; 0; 0; 0; 0; 255; 255; 10; 0; 0; 5]%N.
Definition W_host4 : bytes := [49; 48; 46; 48; 46; 48; 46; 53]%N.          (* "10.0.0.5" *)

(** F-C20-6: before the fix an address literal as relay kept a "name" (and with it DANE lookups and the
    certificate name check for "10.0.0.5"); with the fix no address text does *)
Theorem relay_literal_name_old_vs_fixed :
  relay_named_old W_host4 [W_v4] = true
  /\ forall host al, pton6_ref host || pton4_ref host = true -> relay_named host al = false.
Proof.
  split; [vm_compute; reflexivity|]. intros host al H. unfold relay_named. rewrite H. reflexivity.
Qed.

(** F-C20-7: before the fix control/clientkey.pem was ignored as soon as control/smtproutes.d existed *)
Theorem default_key_old_vs_fixed cfg ke :
  dir_exists cfg = true -> k_defkey ke = true ->
  key_name (line_settings_old cfg ke) = ROUTE_DEFAULT_CERT /\ key_name (line_settings cfg ke) = ROUTE_DEFAULT_KEY.
Proof. intros H1 H2. unfold key_name, line_settings_old, line_settings. cbn. rewrite H1, H2. split; reflexivity. Qed.

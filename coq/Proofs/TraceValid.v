(** C02: the trace header of the model is a block of valid header fields ([Spec/TraceSpec.v]) whatever strings are
    embedded, as long as these hold no NUL, CR or LF; for the Received-SPF field of every SPF result (the literal
    model of spfreceived(), property C11) as well. *)
From Coq Require Import Lia.
From Qv Require Import Common.Bytes Model.Trace Spec.TraceSpec Proofs.TraceProofs.
From Qv Require Import Gen.GenSpf Model.SpfBase Model.SpfEnv Model.SpfMacro Model.Spf Spec.SpfSpec Proofs.SpfCore Proofs.SpfHeader.
Local Open Scope N_scope.

Definition inputs_text (t : tin) : bool :=
  clean_b (t_remotehost t) && clean_b (t_remoteip t)
  && match t_remoteport t with Some p => clean_b p | None => true end
  && clean_b (t_helostr t) && clean_b (t_authname t)
  && match t_tlsclient t with Some p => clean_b p | None => true end
  && match t_remoteinfo t with Some p => clean_b p | None => true end
  && clean_b (t_heloname t) && clean_b (t_version t)
  && match t_cipher t with Some p => clean_b p | None => true end
  && clean_b (t_first t) && clean_b (t_date t).

Lemma clean_app a b : clean_b (a ++ b) = clean_b a && clean_b b.
Proof. unfold clean_b. apply forallb_app. Qed.

Ltac ccb := repeat (rewrite clean_app); repeat (first [assumption | reflexivity | (apply andb_true_iff; split)]).

Lemma hv_body_clean l r : clean_b l = true -> hv HBody (l ++ r) = hv HBody r.
Proof.
  induction l as [|c l IH]; intros H; [reflexivity|].
  unfold clean_b in H. cbn [forallb] in H. apply andb_true_iff in H as [Hc Hl].
  apply andb_true_iff in Hc as [Hc H0]. apply andb_true_iff in Hc as [H13 H10].
  cbn [app hv]. apply negb_true_iff in H10. rewrite H10, H0, H13. cbn [andb]. apply IH. exact Hl.
Qed.

Lemma hv_recv_start r : hv HStart (s_received_from ++ r) = hv HBody r.  Proof. reflexivity. Qed.
Lemma hv_recv_first r : hv HFirst (s_received_from ++ r) = hv HBody r.  Proof. reflexivity. Qed.
Lemma hv_sby r : hv HBody (s_by ++ r) = hv HBody r.  Proof. reflexivity. Qed.
Lemma hv_sfor r : hv HBody (s_for ++ r) = hv HBody r.  Proof. reflexivity. Qed.
Lemma hv_lf r : hv HBody ([10] ++ r) = hv HStart r.  Proof. reflexivity. Qed.

Lemma received_parts_clean t : inputs_text t = true ->
  clean_b (host_part t) = true /\ clean_b (ip_part t) = true /\ clean_b (auth_part t) = true
  /\ clean_b (proto_part t) = true /\ clean_b (a_part t) = true
  /\ clean_b (t_heloname t) = true /\ clean_b (t_version t) = true /\ clean_b (t_first t) = true /\ clean_b (t_date t) = true.
Proof.
  unfold inputs_text. intros H.
  repeat (apply andb_true_iff in H; destruct H as [H ?]).
  rename H into Hrh.
  assert (Hhost : clean_b (host_part t) = true).
  { unfold host_part. destruct (t_remotehost t) as [|b r]; [reflexivity|]. destruct (t_authhide t); [reflexivity|]. assumption. }
  assert (Hipb : clean_b (ip_part t) = true).
  { unfold ip_part. destruct (t_i t); [reflexivity|]. ccb.
    - destruct (t_remoteport t); ccb.
    - destruct (t_helostr t) as [|b r]; [reflexivity|]. ccb. }
  assert (Hau : clean_b (auth_part t) = true).
  { unfold auth_part. destruct (t_authname t) as [|b r].
    - destruct (t_tlsclient t); [destruct (t_i t); ccb|]. destruct (t_remoteinfo t); [destruct (t_i t); ccb|reflexivity].
    - destruct (t_i t); ccb. }
  assert (Hproto : clean_b (proto_part t) = true).
  { unfold proto_part. destruct (negb (t_esmtp t)); [reflexivity|]. destruct (t_cipher t); [destruct (t_chunked t); ccb|destruct (t_chunked t); reflexivity]. }
  assert (Haa : clean_b (a_part t) = true) by (unfold a_part; destruct (t_authname t); reflexivity).
  repeat split; assumption.
Qed.

(** the Received field: one field, wherever it stands in the block *)
Theorem received_field_valid t r : inputs_text t = true ->
  hv HStart (received_field t ++ r) = hv HStart r /\ hv HFirst (received_field t ++ r) = hv HStart r.
Proof.
  intros H. destruct (received_parts_clean t H) as (P1 & P2 & P3 & P4 & P5 & P6 & P7 & P8 & P9).
  unfold received_field. rewrite <- !app_assoc.
  rewrite hv_recv_start, hv_recv_first.
  assert (E : hv HBody (host_part t ++ ip_part t ++ auth_part t ++ s_by ++ t_heloname t ++ [32; 40] ++ t_version t ++ s_with
                        ++ proto_part t ++ a_part t ++ s_for ++ t_first t ++ [62; 59; 32] ++ t_date t ++ [10] ++ r) = hv HStart r).
  { rewrite (hv_body_clean (host_part t)) by exact P1. rewrite (hv_body_clean (ip_part t)) by exact P2.
    rewrite (hv_body_clean (auth_part t)) by exact P3. rewrite hv_sby.
    rewrite (hv_body_clean (t_heloname t)) by exact P6. rewrite (hv_body_clean [32; 40]) by reflexivity.
    rewrite (hv_body_clean (t_version t)) by exact P7. rewrite (hv_body_clean s_with) by reflexivity.
    rewrite (hv_body_clean (proto_part t)) by exact P4. rewrite (hv_body_clean (a_part t)) by exact P5.
    rewrite hv_sfor. rewrite (hv_body_clean (t_first t)) by exact P8. rewrite (hv_body_clean [62; 59; 32]) by reflexivity.
    rewrite (hv_body_clean (t_date t)) by exact P9. apply hv_lf. }
  split; exact E.
Qed.

(** the Received-SPF: None field of the session model *)
Theorem spf_none_field_valid heloname dom r : clean_b heloname = true -> clean_b dom = true ->
  hv HFirst (spf_none_field heloname dom ++ r) = hv HStart r.
Proof.
  intros H1 H2. unfold spf_none_field. rewrite <- !app_assoc.
  change (hv HFirst ([82;101;99;101;105;118;101;100;45;83;80;70;58;32;78;111;110;101;32;40] ++ ?x)) with (hv HBody x).
  rewrite (hv_body_clean heloname) by exact H1.
  rewrite (hv_body_clean [58;32;100;111;109;97;105;110;32;111;102;32]) by reflexivity.
  rewrite (hv_body_clean dom) by exact H2. reflexivity.
Qed.

Theorem trace_header_valid t mailfrom relay : inputs_text t = true -> clean_b mailfrom = true ->
  trace_hdr_valid (trace_header t mailfrom relay) = true.
Proof.
  intros H Hm. unfold trace_hdr_valid, trace_header.
  destruct (received_field_valid t [] H) as [A B]. rewrite app_nil_r in A, B.
  destruct (relay || t_authed t).
  - cbn [app]. exact B.
  - rewrite spf_none_field_valid; [exact A| |].
    + unfold inputs_text in H. repeat (apply andb_true_iff in H; destruct H as [H ?]). assumption.
    + destruct mailfrom; [|exact Hm].
      unfold inputs_text in H. repeat (apply andb_true_iff in H; destruct H as [H ?]). assumption.
Qed.

(** a field that satisfies the C11 checker [hdr_ok] (octets 1..127, no CR, LF only in front of a tab or at the end) and
    ends in LF is the rest of one field body *)
Lemma hv_hdr_ok b r : hdr_ok b = true -> ends_lf b = true -> hv HBody (b ++ r) = hv HStart r.
Proof.
  induction b as [|c t IH]; intros Hb He; [discriminate He|].
  cbn [hdr_ok] in Hb. apply andb_true_iff in Hb as [Hb Ht]. apply andb_true_iff in Hb as [Hb Hlf].
  apply andb_true_iff in Hb as [Hb H13]. apply andb_true_iff in Hb as [H1 H127].
  cbn [app hv]. destruct (c =? 10) eqn:E10.
  - destruct t as [|n t']; [reflexivity|].
    apply N.eqb_eq in Hlf. subst n.
    rewrite ends_lf_cons in He by discriminate.
    specialize (IH Ht He). cbn [app hv] in IH. cbn [app hv]. exact IH.
  - assert (c =? 0 = false) by (apply N.eqb_neq; apply N.leb_le in H1; lia).
    rewrite H. apply negb_true_iff in H13. rewrite H13. cbn [negb andb].
    destruct t as [|n t'].
    + unfold ends_lf in He. cbn in He. congruence.
    + rewrite ends_lf_cons in He by discriminate. exact (IH Ht He).
Qed.

Lemma hdr_ok_app_r a b : hdr_ok (a ++ b) = true -> hdr_ok b = true.
Proof.
  induction a as [|c t IH]; intros H; [exact H|].
  cbn [app hdr_ok] in H. apply andb_true_iff in H as [_ H]. exact (IH H).
Qed.

Definition spf_field_shape (h : bytes) : Prop :=
  h = [] \/ exists b, h = lit 0 ++ b /\ hdr_ok b = true /\ ends_lf b = true.

Theorem spf_shape_valid h r : spf_field_shape h ->
  hv HFirst (h ++ r) = hv HStart r \/ h = [].
Proof.
  intros [->|(b & -> & Hb & He)]; [right; reflexivity|left].
  rewrite <- app_assoc.
  change (hv HFirst (lit 0 ++ ?x)) with (hv HBody x).
  apply hv_hdr_ok; assumption.
Qed.

Theorem trace_header_with_valid spf t relay : inputs_text t = true -> spf_field_shape spf ->
  trace_hdr_valid (trace_header_with spf t relay) = true.
Proof.
  intros H Hs. unfold trace_hdr_valid, trace_header_with.
  destruct (received_field_valid t [] H) as [A B]. rewrite app_nil_r in A, B.
  destruct (relay || t_authed t); [exact B|].
  destruct (spf_shape_valid spf (received_field t) Hs) as [E| ->]; [rewrite E; exact A|exact B].
Qed.

(** the literal model of spfreceived() (Model/Spf.v, property C11) writes nothing or a field of that shape, for every SPF result *)
Lemma ends_lf_app a b : b <> [] -> ends_lf (a ++ b) = ends_lf b.
Proof.
  induction a as [|c t IH]; intros Hb; [reflexivity|].
  cbn [app]. rewrite ends_lf_cons; [exact (IH Hb)|].
  destruct t; cbn [app]; [exact Hb|discriminate].
Qed.

Lemma app_ne_r (a b : bytes) : b <> [] -> a ++ b <> [].
Proof. destruct a; cbn [app]; [auto|discriminate]. Qed.

Theorem spfreceived_shape X spf g h :
  sess_ok X = true -> exp_ok (g_exp g) = true -> mech_ok (g_mech g) ->
  spfreceived X spf g = Some h -> spf_field_shape h.
Proof.
  intros HX He Hm Hh. pose proof (spfreceived_clean X spf g h HX He Hm Hh) as Hok.
  assert (N25 : lit 25 <> []) by (vm_compute; discriminate).
  assert (N11 : lit 11 <> []) by (vm_compute; discriminate).
  assert (E25 : ends_lf (lit 25) = true) by (vm_compute; reflexivity).
  assert (E11 : ends_lf (lit 11) = true) by (vm_compute; reflexivity).
  unfold spfreceived in Hh. cbv zeta in Hh.
  destruct (spf =? SPF_IGNORE)%Z; [left; congruence|right].
  repeat match type of Hh with
         | (if ?c then _ else _) = _ => destruct c
         end;
  try discriminate Hh;
  apply some_inj in Hh; subst h; rewrite <- ?app_assoc in *;
  (eexists; split; [reflexivity|]; split; [exact (hdr_ok_app_r _ _ Hok)|]);
  repeat (rewrite ends_lf_app by (repeat apply app_ne_r; assumption)); assumption.
Qed.

(** the checker on a queued message accepts every message that is a valid, non-empty header block followed by [q] *)
Theorem handoff_hdr_sound hdr q : trace_hdr_valid hdr = true -> hdr <> [] ->
  handoff_hdr_ok (length q) (hdr ++ q) = true.
Proof.
  intros Hv Hne. unfold handoff_hdr_ok. rewrite app_length.
  replace (length hdr + length q - length q)%nat with (length hdr) by lia.
  rewrite firstn_app, Nat.sub_diag, firstn_all. cbn [firstn]. rewrite app_nil_r, Hv.
  assert (length hdr <> 0)%nat by (destruct hdr; [congruence|cbn; lia]).
  assert (E1 : Nat.leb (length q) (length hdr + length q) = true) by (apply Nat.leb_le; lia).
  assert (E2 : Nat.eqb (length q) (length hdr + length q) = false) by (apply Nat.eqb_neq; lia).
  rewrite E1, E2. reflexivity.
Qed.

Lemma received_field_ne t : received_field t <> [].
Proof. unfold received_field, s_received_from. cbn [app]. discriminate. Qed.

Lemma trace_header_with_ne spf t relay : trace_header_with spf t relay <> [].
Proof. unfold trace_header_with. apply app_ne_r. apply received_field_ne. Qed.

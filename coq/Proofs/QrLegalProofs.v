(** send_data: everything between the 354 and the final reply is legal SMTP data. *)
From Qv Require Import Common.Bytes Gen.GenQrdata Model.Mime Model.QrData Model.QrDataL2 Proofs.QrMemLemmas
  Spec.SmtpDataSpec Spec.DeliverSpec Proofs.QrPlainProofs Proofs.QrNeedRecodeProofs Proofs.QrPlainSpecProofs
  Proofs.QrQpProofs Proofs.QrQpDecodeProofs Proofs.QrWireProofs Proofs.QrWrapHeaderProofs
  Proofs.QrPiecesProofs Proofs.QrSendQpTotalProofs Proofs.QrEntityProofs Proofs.QrWalkProofs Proofs.QrWalkLegalProofs.
Require Import Lia.

(** what the peer has seen of the DATA phase: a completed transfer is legal data followed by the
    terminating dot line; a transfer given up before the first octet is empty *)
Definition sent_legal (ext8 : bool) (r : Run unit) : Prop :=
  match r with
  | Done _ st => exists d, outof st = d ++ TERM_LF /\ legal_data ext8 d
  | Die _ st => outof st = []
  end.

Lemma finish_legal ext8 st t : good ext8 [] st t ->
  sent_legal ext8 (Done tt (wr st (if lastlf st then TERM_LF else TERM_NOLF))).
Proof.
  intros (X & Eo & Hwi & Hlt & Hlf). cbn [app] in Eo. unfold sent_legal. rewrite outof_wr, Eo.
  destruct (lastlf st).
  - exists X. split; [reflexivity|]. rewrite (Hlf eq_refl) in Hwi. apply wire_legal. exact Hwi.
  - exists (X ++ CRLF). split; [rewrite <- app_assoc; reflexivity|]. apply wire_legal.
    apply (wire_app ext8 X t CRLF []); [exact Hwi|]. apply wire_close. exact Hlt.
Qed.

Theorem send_data_legal_partial m helo ext8 : helo_ok helo -> byte_list m ->
  (forall ls ll bs bl, is_multipart m ls ll <> Ok (MpYes bs bl)) ->
  exists fl q r, send_data m helo ext8 = Ok (fl, q, r) /\ sent_legal ext8 r.
Proof.
  intros Hhelo Hb Hnm. unfold send_data. cbv zeta.
  assert (Hw : 0 + length m <= length m) by lia.
  rewrite (need_recode_ok m 0 (length m) Hw). cbn [bind].
  assert (Em : sub m 0 (length m) = m) by (unfold sub; cbn [skipn]; apply firstn_all).
  rewrite Em. set (fl := nr_fun m flags0 0 false). set (st0 := mkSt [] true).
  assert (G0 : good ext8 [] st0 []) by (apply (good_init ext8 st0)).
  destruct (takes_qp ext8 fl) eqn:Eq.
  - destruct (Nat.eq_dec (length m) 0) as [E0|N0].
    + rewrite send_qp_S. rewrite (need_recode_ok m 0 (length m) Hw). cbn [bind]. rewrite E0. cbn [Nat.eqb bind].
      do 3 eexists. split; [reflexivity|]. apply (finish_legal ext8 st0 []). exact G0.
    + destruct (entity_nomulti m helo ext8 0 (length m) Hw ltac:(lia) Hhelo [] (length m) st0 Hb G0 Hnm) as (res & E & Hres).
      rewrite E. cbn [bind]. destruct res as [[] st1|why st1].
      * destruct Hres as (t & Gt). do 3 eexists. split; [reflexivity|]. apply (finish_legal ext8 st1 t). exact Gt.
      * subst st1. do 3 eexists. split; [reflexivity|]. reflexivity.
  - unfold liftS.
    destruct (plain_piece ext8 m 0 (length m) [] st0 Hw) as (st1 & t & E & Gt & _); [|exact G0|].
    + rewrite Em. unfold takes_qp in Eq. apply Bool.orb_false_elim in Eq as [Eq Eh].
      apply Bool.orb_false_elim in Eq as [E8 El].
      destruct (nr_fun_facts m flags0 0 false) as [F8 Fl]. cbv zeta in F8, Fl. fold fl in F8, Fl.
      unfold flong in Fl. rewrite El, Eh in Fl. cbn [fline fhdr f8 flags0 orb] in F8, Fl.
      unfold must_recode. rewrite <- longrun_has_long, <- Fl.
      change (has_8bit m) with (existsb is8 m). rewrite <- F8, E8. reflexivity.
    + rewrite E. cbn [bind]. do 3 eexists. split; [reflexivity|]. apply (finish_legal ext8 st1 t). exact Gt.
Qed.

(** the general case: a transfer given up half way (a part of a multipart message turns out to have
    8-bit octets in its header or a broken Content-Type) has written complete legal lines and
    possibly the beginning of one *)
Definition sent_legal_any (ext8 : bool) (r : Run unit) : Prop :=
  match r with
  | Done _ st => exists d, outof st = d ++ TERM_LF /\ legal_data ext8 d
  | Die _ st => exists d t, outof st = d ++ t /\ legal_data ext8 d /\ legal_line ext8 t
  end.

Theorem send_data_legal m helo ext8 : helo_ok helo -> byte_list m ->
  exists fl q r, send_data m helo ext8 = Ok (fl, q, r) /\ sent_legal_any ext8 r.
Proof.
  intros Hhelo Hb. unfold send_data. cbv zeta.
  assert (Hw : 0 + length m <= length m) by lia.
  rewrite (need_recode_ok m 0 (length m) Hw). cbn [bind].
  assert (Em : sub m 0 (length m) = m) by (unfold sub; cbn [skipn]; apply firstn_all).
  rewrite Em. set (fl := nr_fun m flags0 0 false). set (st0 := mkSt [] true).
  assert (G0 : good ext8 [] st0 []) by (apply (good_init ext8 st0)).
  assert (Fin : forall st t, good ext8 [] st t ->
            sent_legal_any ext8 (Done tt (wr st (if lastlf st then TERM_LF else TERM_NOLF)))).
  { intros st t G. apply (finish_legal ext8 st t G). }
  destruct (takes_qp ext8 fl) eqn:Eq.
  - destruct (entity_legal m helo ext8 Hhelo Hb [] (S (length m)) 0 (length m) st0 Hw ltac:(lia) G0) as (res & E & Hres).
    rewrite E. cbn [bind]. destruct res as [[] st1|why st1].
    + destruct Hres as (t & Gt & _). do 3 eexists. split; [reflexivity|]. apply (Fin st1 t Gt).
    + destruct Hres as (t & X & Eo & (ls & EX & Fls & Hc) & Hl). do 3 eexists. split; [reflexivity|].
      exists (join_crlf ls), t. cbn [app] in Eo. rewrite Eo, EX. split; [reflexivity|]. split; [exists ls; auto|exact Hl].
  - unfold liftS.
    destruct (plain_piece ext8 m 0 (length m) [] st0 Hw) as (st1 & t & E & Gt & _); [|exact G0|].
    + rewrite Em. rewrite <- (window_decision m ext8). exact Eq.
    + rewrite E. cbn [bind]. do 3 eexists. split; [reflexivity|]. apply (Fin st1 t Gt).
Qed.

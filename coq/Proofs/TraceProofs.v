(** The trace header is a sequence of well-formed, properly folded header fields whatever text is
    embedded, as long as the embedded strings themselves carry no CR or LF. *)
From Qv Require Import Common.Bytes Model.Trace.

Definition inputs_clean (t : tin) : bool :=
  no_crlf_b (t_remotehost t) && no_crlf_b (t_remoteip t)
  && match t_remoteport t with Some p => no_crlf_b p | None => true end
  && no_crlf_b (t_helostr t) && no_crlf_b (t_authname t)
  && match t_tlsclient t with Some p => no_crlf_b p | None => true end
  && match t_remoteinfo t with Some p => no_crlf_b p | None => true end
  && no_crlf_b (t_heloname t) && no_crlf_b (t_version t)
  && match t_cipher t with Some p => no_crlf_b p | None => true end
  && no_crlf_b (t_first t) && no_crlf_b (t_date t).

Lemma ncb_app a b : no_crlf_b (a ++ b) = no_crlf_b a && no_crlf_b b.
Proof. unfold no_crlf_b. apply forallb_app. Qed.

Ltac ncb := repeat (rewrite ncb_app); repeat (first [assumption | reflexivity | (apply andb_true_iff; split)]).

(** Received: from ... LF HT by ... LF HT for <...>; date LF — three physical lines, the second and third
    folded with a TAB, no CR, no other LF *)
Theorem received_field_shape t : inputs_clean t = true ->
  exists l1 l2 l3,
    received_field t = (s_received_from ++ l1) ++ [LF; HT] ++ l2 ++ [LF; HT] ++ l3 ++ [LF]
    /\ no_crlf_b l1 = true /\ no_crlf_b l2 = true /\ no_crlf_b l3 = true.
Proof.
  unfold inputs_clean. intros H.
  repeat (apply andb_true_iff in H; destruct H as [H ?]).
  rename H into Hrh.
  unfold received_field.
  exists (host_part t ++ ip_part t ++ auth_part t ++ [41%N]),
         ([98; 121; 32]%N ++ t_heloname t ++ [32; 40]%N ++ t_version t ++ s_with ++ proto_part t ++ a_part t),
         ([102; 111; 114; 32; 60]%N ++ t_first t ++ [62; 59; 32]%N ++ t_date t).
  split.
  { unfold s_by, s_for. rewrite <- ?app_assoc. cbn [app]. rewrite <- ?app_assoc. reflexivity. }
  assert (Hhost : no_crlf_b (host_part t) = true).
  { unfold host_part. destruct (t_remotehost t) as [|b r]; [reflexivity|]. destruct (t_authhide t); [reflexivity|]. assumption. }
  assert (Hipb : no_crlf_b (ip_part t) = true).
  { unfold ip_part. destruct (t_i t); [reflexivity|]. ncb.
    - destruct (t_remoteport t); ncb.
    - destruct (t_helostr t) as [|b r]; [reflexivity|]. ncb. }
  assert (Hau : no_crlf_b (auth_part t) = true).
  { unfold auth_part. destruct (t_authname t) as [|b r].
    - destruct (t_tlsclient t); [destruct (t_i t); ncb|]. destruct (t_remoteinfo t); [destruct (t_i t); ncb|reflexivity].
    - destruct (t_i t); ncb. }
  assert (Hproto : no_crlf_b (proto_part t) = true).
  { unfold proto_part. destruct (negb (t_esmtp t)); [reflexivity|]. destruct (t_cipher t); [destruct (t_chunked t); ncb|destruct (t_chunked t); reflexivity]. }
  assert (Haa : no_crlf_b (a_part t) = true) by (unfold a_part; destruct (t_authname t); reflexivity).
  split; [ncb|]. split; ncb.
Qed.

(** the Received-SPF: None field is one line *)
Theorem spf_none_field_shape heloname dom : no_crlf_b heloname = true -> no_crlf_b dom = true ->
  exists l, spf_none_field heloname dom = l ++ [LF] /\ no_crlf_b l = true.
Proof.
  intros H1 H2. unfold spf_none_field.
  eexists ([82;101;99;101;105;118;101;100;45;83;80;70;58;32;78;111;110;101;32;40]%N ++ heloname
           ++ [58;32;100;111;109;97;105;110;32;111;102;32]%N ++ dom
           ++ [32;100;111;101;115;32;110;111;116;32;100;101;115;105;103;110;97;116;101;32;112;101;114;109;105;116;116;101;100;32;115;101;110;100;101;114;32;104;111;115;116;115;41]%N).
  split; [rewrite <- !app_assoc; reflexivity|ncb].
Qed.

(** smtproute(): the probing loop visits the documented names in the documented order. *)
From Coq Require Import List NArith Bool Arith Lia.
From Qv Require Import Common.Bytes Gen.GenMx Model.Mx Model.MxRoute Spec.MxRouteSpec.
Import ListNotations.
Local Open Scope bool_scope.

Lemma strchr_dot_none cp : strchr cp DOT = None -> dot_suffixes cp = [].
Proof.
  induction cp as [|x r IH]; intros H; [reflexivity|].
  cbn [strchr dot_suffixes] in *. destruct (N.eqb x DOT); [discriminate|]. apply IH. exact H.
Qed.

Lemma strchr_dot_some cp d :
  strchr cp DOT = Some d ->
  exists r, d = DOT :: r /\ dot_suffixes cp = d :: dot_suffixes r /\ length d <= length cp.
Proof.
  induction cp as [|x r IH]; intros H; [discriminate|].
  cbn [strchr dot_suffixes] in *. destruct (N.eqb x DOT) eqn:E.
  - injection H as <-. apply N.eqb_eq in E. subst x. exists r. repeat split. lia.
  - destruct (IH H) as (r' & -> & Hs & Hl). exists r'. repeat split; [exact Hs|]. cbn [length] in *. lia.
Qed.

Definition lift_found (o : option bytes) : probe_result :=
  match o with Some c => PFound c | None => PNone end.

Lemma default_name_length : length default_name = 7.
Proof. reflexivity. Qed.

(** the two sizes the loop depends on, as regenerated from the C and limits.h: the statement's bound of 254
    octets is NAME_MAX - 1 (room for the "*"), and a name that passes openat() always fits fnbuf *)
Lemma name_max_val : NAME_MAX = 255.
Proof. reflexivity. Qed.
Lemma fnbuf_val : N.to_nat ROUTE_FNBUF_SIZE - 1 = 256.
Proof. reflexivity. Qed.

Lemma probe_default fuel files :
  1 <= fuel -> probe fuel files default_name None = Ok (lift_found (first_file files [default_name])).
Proof.
  intros Hf. destruct fuel as [|f]; [lia|]. cbn [probe first_file].
  rewrite default_name_length, name_max_val. change (Nat.ltb 255 7) with false. cbn iota.
  destruct (assoc default_name files); reflexivity.
Qed.

Lemma probe_spec fuel : forall files fn cp,
  length cp + 2 <= fuel -> length fn <= 255 -> length cp <= 254 ->
  probe fuel files fn (Some cp)
  = Ok (lift_found (first_file files (fn :: map (cons STAR) (dot_suffixes cp) ++ [default_name]))).
Proof.
  induction fuel as [|f IH]; intros files fn cp Hfuel Hfn Hcp; [lia|].
  cbn [probe first_file].
  assert (Hlt : Nat.ltb NAME_MAX (length fn) = false) by (apply Nat.ltb_ge; rewrite name_max_val; lia).
  rewrite Hlt. destruct (assoc fn files) as [c|]; [reflexivity|].
  destruct (strchr cp DOT) as [d|] eqn:Es.
  - destruct (strchr_dot_some cp d Es) as (r & -> & Hs & Hl).
    assert (Hle : Nat.leb (N.to_nat ROUTE_FNBUF_SIZE - 1) (length (DOT :: r)) = false)
      by (rewrite fnbuf_val; apply Nat.leb_gt; lia).
    rewrite Hle. rewrite Hs. cbn [map app tl]. cbn [length] in Hl.
    apply IH; [lia|cbn [length]; lia|lia].
  - rewrite (strchr_dot_none cp Es). cbn [map app]. apply probe_default. lia.
Qed.

Lemma first_match_find cfg remhost lines :
  first_match cfg remhost lines
  = match find (line_matches remhost) lines with
    | Some l => eval_line cfg l
    | None => Route None ROUTE_DEFAULT_PORT
    end.
Proof.
  induction lines as [|l r IH]; [reflexivity|]. cbn [first_match find].
  destruct (line_matches remhost l); [reflexivity|exact IH].
Qed.

Lemma eval_routes_ref cfg remhost : eval_routes cfg remhost = routes_ref cfg remhost.
Proof.
  unfold eval_routes, routes_ref. destruct (routes_file cfg); [|reflexivity]. apply first_match_find.
Qed.

Theorem smtproute_order (cfg : route_cfg) (remhost : bytes) :
  length remhost <= 254 -> smtproute cfg remhost = Ok (route_ref cfg remhost).
Proof.
  intros Hl. unfold smtproute, route_ref. destruct (dir_exists cfg); [|rewrite eval_routes_ref; reflexivity].
  assert (Hp : probe (length remhost + 3) (dir_files cfg) remhost (Some remhost)
               = Ok (lift_found (first_file (dir_files cfg) (probe_names remhost)))).
  { apply probe_spec; lia. }
  rewrite Hp. cbn [bind].
  destruct (first_file (dir_files cfg) (probe_names remhost)); cbn [lift_found]; [reflexivity|].
  rewrite eval_routes_ref. reflexivity.
Qed.

(** "an empty relay means: use DNS, but keep the port": without a relay the answer never carries
    addresses, and a well-formed port in range is the port of the answer *)
Lemma no_relay_no_mx cfg port :
  match parse_route_params cfg None port with
  | Route (Some _) _ => False
  | _ => True
  end.
Proof.
  unfold parse_route_params. destruct port as [p|]; [|exact I].
  destruct (strtoul_uint p) as [v more]. destruct more; [|exact I].
  destruct (N.leb ROUTE_PORT_LIMIT v || N.eqb v 0); exact I.
Qed.

Lemma no_relay_keeps_port cfg p v :
  strtoul_uint p = (v, []) -> (0 < v < ROUTE_PORT_LIMIT)%N ->
  parse_route_params cfg None (Some p) = Route None v.
Proof.
  intros Hs [H0 H1]. unfold parse_route_params. rewrite Hs.
  assert (N.leb ROUTE_PORT_LIMIT v = false) as -> by (apply N.leb_gt; exact H1).
  assert (N.eqb v 0 = false) as -> by (apply N.eqb_neq; lia). reflexivity.
Qed.

(** a smtproutes line "pattern::port" / "pattern:" has no relay *)
Lemma eval_line_empty_relay cfg line :
  before (tl (match strchr line COLON with Some c => c | None => [] end)) COLON = [] ->
  match eval_line cfg line with
  | Route (Some _) _ => False
  | _ => True
  end.
Proof.
  intros H. unfold eval_line. rewrite H. apply no_relay_no_mx.
Qed.

(** files that are not among the probed names, and control/smtproutes once a file was found, have no influence *)
Lemma first_file_irrelevant files names extra_name extra_content :
  ~ In extra_name names ->
  (forall n, In n names -> list_eqb n extra_name = false) ->
  first_file ((extra_name, extra_content) :: files) names = first_file files names.
Proof.
  intros _ Hne. induction names as [|n r IH]; [reflexivity|].
  cbn [first_file assoc]. rewrite (Hne n (or_introl eq_refl)).
  rewrite IH; [reflexivity|]. intros m Hm. apply Hne. right. exact Hm.
Qed.

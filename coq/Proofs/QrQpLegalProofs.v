(** Whatever the strict quoted-printable receiver of Spec/SmtpDataSpec.v accepts is legal 7-bit
    SMTP data (CRLF lines, no other CR/LF, at most 76 < 998 octets, no lone dot).  A statement about
    the specification alone; with the round-trip theorem it gives the legality of what recode_qp writes. *)
From Qv Require Import Common.Bytes Spec.SmtpDataSpec Proofs.QrQpDecodeProofs.
Require Import Lia.

Lemma counted_len_snoc p c : (p <> [] \/ c <> DOT) -> counted_len (p ++ [c]) = S (counted_len p).
Proof.
  intros H. unfold counted_len, unstuff_line. destruct p as [|x p'].
  - cbn [app]. destruct H as [H|H]; [contradiction|]. destruct (N.eqb_spec c DOT); [contradiction|reflexivity].
  - cbn [app]. destruct (N.eqb x DOT); cbn [length]; rewrite ?app_length; cbn [length]; lia.
Qed.

Lemma line_clean_snoc p c : line_clean p -> c <> CR -> c <> LF -> line_clean (p ++ [c]).
Proof. intros Hp H1 H2. apply Forall_app. split; [exact Hp|]. constructor; [split; assumption|constructor]. Qed.

Lemma seven_bit_snoc p c : seven_bit p -> (c < 128)%N -> seven_bit (p ++ [c]).
Proof. intros Hp H1. apply Forall_app. split; [exact Hp|]. constructor; [assumption|constructor]. Qed.

Lemma hexval_char a x : hexval a = Some x -> a <> CR /\ a <> LF /\ (a < 128)%N.
Proof.
  unfold hexval. destruct (N.leb 48 a && N.leb a 57) eqn:E1.
  - intros _. apply andb_prop in E1 as [A B]. apply N.leb_le in A, B. unfold CR, LF. repeat split; lia.
  - destruct (N.leb 65 a && N.leb a 70) eqn:E2; [|discriminate].
    intros _. apply andb_prop in E2 as [A B]. apply N.leb_le in A, B. unfold CR, LF. repeat split; lia.
Qed.

Lemma literal_char c : qp_literal c = true -> c <> CR /\ c <> LF /\ (c < 128)%N.
Proof.
  unfold qp_literal. intros H. apply Bool.orb_prop in H as [H|H].
  - apply Bool.orb_prop in H as [H|H].
    + apply andb_prop in H as [H _]. apply andb_prop in H as [A B]. apply N.leb_le in A, B.
      unfold CR, LF. repeat split; lia.
    + apply N.eqb_eq in H. subst c. repeat split; discriminate || reflexivity.
  - apply N.eqb_eq in H. subst c. repeat split; discriminate || reflexivity.
Qed.

Definition PInv (p d : bytes) (col : nat) (bol : bool) : Prop :=
  line_clean p /\ seven_bit p /\ counted_len p = col /\ (bol = true -> p = []) /\ (bol = false -> p <> []) /\
  (p = [DOT] -> exists c2 r, d = c2 :: r /\ c2 <> CR).

Lemma join_cons l ls : join_crlf (l :: ls) = l ++ CRLF ++ join_crlf ls.
Proof. unfold join_crlf. cbn [map concat]. now rewrite <- app_assoc. Qed.

Lemma decode_legal_gen : forall d col bol x p,
  qp_decode col bol d = Some x -> PInv p d col bol ->
  exists ls, p ++ d = join_crlf ls /\ Forall (legal_line false) ls.
Proof.
  intros d. remember (length d) as n eqn:En. revert d En.
  induction n as [n IH] using lt_wf_ind. intros d En col bol x p Hdec (Hcl & H7 & Hlen & Hb1 & Hb2 & Hdot).
  destruct d as [|c r].
  { cbn [qp_decode] in Hdec. destruct (Nat.eqb_spec col 0) as [Hz|]; [|discriminate]. rewrite Hz in Hlen.
    assert (p = []) as ->.
    { destruct p as [|a p']; [reflexivity|]. unfold counted_len, unstuff_line in Hlen.
      destruct (N.eqb_spec a DOT) as [->|Hn]; [|cbn in Hlen; lia].
      destruct p'; [|cbn in Hlen; lia]. destruct (Hdot eq_refl) as (c2 & rr & E & _). discriminate. }
    exists []. split; [reflexivity|constructor]. }
  rewrite qp_decode_cons in Hdec.
  destruct (bol && N.eqb c DOT) eqn:Ebd.
  { (* transparency dot *)
    apply andb_prop in Ebd as [Eb Ed]. apply N.eqb_eq in Ed. subst c bol. rewrite (Hb1 eq_refl) in *.
    destruct r as [|c2 r2]; [discriminate|]. destruct (N.eqb_spec c2 CR) as [|Hn2]; [discriminate|].
    destruct (IH (length (c2 :: r2)) ltac:(cbn [length] in En |- *; lia) (c2 :: r2) eq_refl col false x [DOT] Hdec) as (ls & E & HF).
    { repeat split.
      - constructor; [split; discriminate|constructor].
      - constructor; [reflexivity|constructor].
      - cbn in Hlen |- *. exact Hlen.
      - discriminate.
      - discriminate.
      - intros _. exists c2, r2. auto. }
    exists ls. split; [exact E|exact HF]. }
  destruct (N.eqb_spec c CR) as [->|HnCR].
  { (* CRLF *)
    destruct r as [|c2 r2]; [discriminate|].
    destruct (N.eqb_spec c2 LF) as [->|]; [|discriminate]. cbn [andb] in Hdec.
    destruct (Nat.leb_spec col QP_MAXLINE) as [Hle|]; [|discriminate].
    destruct (qp_decode 0 true r2) as [o|] eqn:E2; [|discriminate].
    destruct (IH (length r2) ltac:(cbn [length] in En; lia) r2 eq_refl 0 true o [] E2) as (ls & E & HF).
    { repeat split; try constructor; try discriminate; auto. }
    exists (p :: ls). split.
    - rewrite join_cons. cbn [app] in E. rewrite <- E. reflexivity.
    - constructor; [|exact HF]. repeat split; auto.
      + intros ->. destruct (Hdot eq_refl) as (c2 & rr & E' & Hc2). inversion E'; subst. contradiction.
      + rewrite Hlen. unfold QP_MAXLINE, MAXLINE in *. lia. }
  destruct (N.eqb_spec c EQ) as [->|HnEQ].
  { destruct r as [|a r1]; [discriminate|]. destruct r1 as [|b r2]; [discriminate|].
    destruct (N.eqb a CR && N.eqb b LF) eqn:Esoft.
    - (* soft line break *)
      apply andb_prop in Esoft as [Ea Eb]. apply N.eqb_eq in Ea, Eb. subst a b.
      destruct (Nat.leb_spec (S col) QP_MAXLINE) as [Hle|]; [|discriminate].
      destruct (IH (length r2) ltac:(cbn [length] in En; lia) r2 eq_refl 0 true x [] Hdec) as (ls & E & HF).
      { repeat split; try constructor; try discriminate; auto. }
      exists ((p ++ [EQ]) :: ls). split.
      + rewrite join_cons. cbn [app] in E. rewrite <- E. rewrite <- !app_assoc. reflexivity.
      + constructor; [|exact HF]. repeat split.
        * apply line_clean_snoc; [exact Hcl|discriminate|discriminate].
        * intros E'. destruct p as [|a p']; [discriminate|]. destruct p'; discriminate.
        * rewrite counted_len_snoc by (right; discriminate). rewrite Hlen. unfold QP_MAXLINE, MAXLINE in *. lia.
        * intros _. apply seven_bit_snoc; [exact H7|reflexivity].
    - (* =XX *)
      destruct (hexval a) as [xa|] eqn:Ha; [|discriminate]. destruct (hexval b) as [xb|] eqn:Hb'; [|discriminate].
      destruct (qp_decode (col + 3) false r2) as [o|] eqn:E2; [|discriminate].
      destruct (hexval_char a xa Ha) as (A1 & A2 & A3). destruct (hexval_char b xb Hb') as (B1 & B2 & B3).
      destruct (IH (length r2) ltac:(cbn [length] in En; lia) r2 eq_refl (col + 3) false o (((p ++ [EQ]) ++ [a]) ++ [b]) E2)
        as (ls & E & HF).
      { repeat split.
        - repeat apply line_clean_snoc; auto; discriminate.
        - repeat apply seven_bit_snoc; auto; reflexivity.
        - rewrite !counted_len_snoc; [lia| | |]; try (right; discriminate); left;
            intros E'; apply (f_equal (@length N)) in E'; rewrite ?app_length in E'; cbn [length] in E'; lia.
        - discriminate.
        - intros _ E'. apply (f_equal (@length N)) in E'. rewrite !app_length in E'. cbn [length] in E'. lia.
        - intros E'. apply (f_equal (@length N)) in E'. rewrite !app_length in E'. cbn [length] in E'. lia. }
      exists ls. split; [|exact HF]. rewrite <- E. rewrite <- !app_assoc. reflexivity. }
  destruct (qp_literal c) eqn:Elit; [|discriminate].
  destruct r as [|c2 r2]; [discriminate|].
  destruct ((N.eqb c SP || N.eqb c HT) && N.eqb c2 CR); [discriminate|].
  destruct (qp_decode (S col) false (c2 :: r2)) as [o|] eqn:E2; [|discriminate].
  destruct (literal_char c Elit) as (L1 & L2 & L3).
  assert (Hpc : p <> [] \/ c <> DOT).
  { destruct bol.
    - right. intros ->. cbn in Ebd. discriminate.
    - left. apply Hb2. reflexivity. }
  destruct (IH (length (c2 :: r2)) ltac:(cbn [length] in En |- *; lia) (c2 :: r2) eq_refl (S col) false o (p ++ [c]) E2)
    as (ls & E & HF).
  { repeat split.
    - apply line_clean_snoc; assumption.
    - apply seven_bit_snoc; assumption.
    - rewrite counted_len_snoc by exact Hpc. lia.
    - discriminate.
    - intros _ E'. destruct p; discriminate.
    - intros E'. exfalso. destruct p as [|a p'].
      + cbn [app] in E'. inversion E'; subst c. destruct Hpc as [F|F]; contradiction.
      + destruct p'; discriminate. }
  exists ls. split; [|exact HF]. rewrite <- E. rewrite <- app_assoc. reflexivity.
Qed.

Theorem decode_legal d x : qp_decode 0 true d = Some x -> legal_data false d.
Proof.
  intros H. destruct (decode_legal_gen d 0 true x [] H) as (ls & E & HF).
  - repeat split; try constructor; try discriminate; auto.
  - exists ls. split; [exact E|exact HF].
Qed.

(** recode_qp on a window that ends with a line end: the output ends with LF (so that what follows, a
    MIME delimiter, starts a new line). *)
From Qv Require Import Common.Bytes Gen.GenQrdata Model.Mime Model.QrData Model.QrDataL2 Proofs.QrMemLemmas
  Proofs.QrPlainProofs Proofs.QrNeedRecodeProofs Proofs.QrQpProofs Proofs.QrPlainSpecProofs.
Require Import Lia.

Definition endlf (l : bytes) : Prop := last_is_lf l = true.

Lemma endlf_app_r a b : endlf b -> endlf (a ++ b).
Proof.
  unfold endlf. intros H. rewrite last_is_lf_app; [exact H|]. intros ->. discriminate.
Qed.

Lemma endlf_cons x b : endlf b -> endlf (x :: b).
Proof. intros H. apply (endlf_app_r [x] b H). Qed.

Lemma ends_eol_cons2 a b l : ends_eol (a :: b :: l) = ends_eol (b :: l).
Proof. reflexivity. Qed.

Ltac strip := repeat first [reflexivity | apply endlf_app_r | apply endlf_cons].

Lemma qp_enc_endlf : forall n rest, length rest <= n -> forall vs llen held,
  ends_eol rest = true -> endlf (qp_enc vs llen held rest).
Proof.
  induction n as [|n IH]; intros rest Hn vs llen held Hends; [destruct rest; [discriminate|cbn in Hn; lia]|].
  destruct rest as [|c r]; [discriminate|]. cbn [length] in Hn.
  cbn [qp_enc].
  destruct (N.eqb c CR) eqn:Hcr; [|destruct (N.eqb c LF) eqn:Hlf].
  - destruct r as [|c2 r2]; [strip|]. rewrite ends_eol_cons2 in Hends.
    destruct (N.eqb c2 LF) eqn:H2.
    + destruct r2 as [|c3 r3]; [cbn [qp_enc]; strip|]. rewrite ends_eol_cons2 in Hends.
      strip. apply IH; [cbn [length] in *; lia|exact Hends].
    + strip. apply IH; [cbn [length] in *; lia|exact Hends].
  - destruct r as [|c2 r2]; [cbn [qp_enc]; strip|]. rewrite ends_eol_cons2 in Hends.
    strip. apply IH; [cbn [length] in *; lia|exact Hends].
  - destruct r as [|c2 r2].
    { cbn [ends_eol] in Hends. unfold is_eol in Hends. rewrite Hcr, Hlf in Hends. discriminate. }
    rewrite ends_eol_cons2 in Hends.
    assert (Rec : forall vs' l' h', endlf (qp_enc vs' l' h' (c2 :: r2))).
    { intros. apply IH; [cbn [length] in *; lia|exact Hends]. }
    assert (Rec2 : forall vs' l', N.eqb c2 LF = true -> endlf (CRLF ++ qp_enc vs' l' None r2)).
    { intros vs' l' E2. destruct r2 as [|c3 r3]; [cbn [qp_enc]; strip|].
      rewrite ends_eol_cons2 in Hends. strip. apply IH; [cbn [length] in *; lia|exact Hends]. }
    assert (Rec3 : forall vs' l', N.eqb c2 CR = true ->
              endlf (CRLF ++ match r2 with
                             | c3 :: r3 => if N.eqb c3 LF then qp_enc vs' l' None r3 else qp_enc vs' l' None r2
                             | [] => []
                             end)).
    { intros vs' l' E2. destruct r2 as [|c3 r3]; [strip|]. rewrite ends_eol_cons2 in Hends.
      destruct (N.eqb c3 LF) eqn:H3.
      - destruct r3 as [|c4 r4]; [cbn [qp_enc]; strip|]. rewrite ends_eol_cons2 in Hends.
        strip. apply IH; [cbn [length] in *; lia|exact Hends].
      - strip. apply IH; [cbn [length] in *; lia|exact Hends]. }
    repeat match goal with
           | |- endlf (if ?x then _ else _) => destruct x eqn:?
           | |- endlf (match ?x with _ => _ end) => destruct x eqn:?
           | |- endlf (_ ++ CRLF ++ _) => apply endlf_app_r
           | |- endlf (_ ++ _ ++ CRLF ++ _) => apply endlf_app_r
           | |- endlf (CRLF ++ qp_enc _ _ _ r2) => apply Rec2; first [assumption|reflexivity]
           | |- endlf (CRLF ++ match r2 with _ => _ end) => apply Rec3; first [assumption|reflexivity]
           | |- endlf (qp_enc _ _ _ (c2 :: r2)) => apply Rec
           | |- endlf (_ ++ _) => apply endlf_app_r
           | |- endlf (_ :: _) => apply endlf_cons
           end.
Qed.

(** Reading the mapping through a window: facts about rd / rdn / sub / skipn used by all qrdata proofs. *)
From Qv Require Import Common.Bytes Model.Mime.
Require Import Lia.

Lemma rd_ok m i : i < length m -> rd m i = Ok (nth i m 0%N).
Proof.
  intros H. unfold rd. destruct (nth_error m i) eqn:E.
  - f_equal. symmetry. now apply nth_error_nth.
  - apply nth_error_None in E. lia.
Qed.

Lemma sub_length_le {A} (s : list A) off n : off + n <= length s -> length (sub s off n) = n.
Proof. apply sub_length. Qed.

Lemma rdn_ok m i n : i + n <= length m -> rdn m i n = Ok (sub m i n).
Proof.
  intros H. unfold rdn. rewrite sub_length by lia. now rewrite Nat.eqb_refl.
Qed.

Lemma skipn_nth_cons {A} (l : list A) i d : i < length l -> skipn i l = nth i l d :: skipn (S i) l.
Proof.
  revert i; induction l as [|x l IH]; intros i H; simpl in H; [lia|].
  destruct i; simpl; [reflexivity|]. apply IH. lia.
Qed.

Lemma sub_sub {A} (m : list A) b len off n :
  off + n <= len -> sub (sub m b len) off n = sub m (b + off) n.
Proof.
  intros H. unfold sub. rewrite skipn_firstn_comm. rewrite firstn_firstn.
  rewrite skipn_skipn'. replace (Nat.min n (len - off)) with n by lia. reflexivity.
Qed.

Lemma nth_skipn' {A} (l : list A) b i d : nth i (skipn b l) d = nth (b + i) l d.
Proof.
  revert l; induction b as [|b IH]; intros l; simpl; [reflexivity|].
  destruct l as [|x l]; [now destruct i|]. apply IH.
Qed.

Lemma nth_firstn' {A} (l : list A) n i d : i < n -> nth i (firstn n l) d = nth i l d.
Proof.
  revert l i; induction n as [|n IH]; intros l i H; [lia|].
  destruct l as [|x l]; [reflexivity|]. destruct i; simpl; [reflexivity|]. apply IH. lia.
Qed.

Lemma nth_sub (m : bytes) b len i : i < len -> nth i (sub m b len) 0%N = nth (b + i) m 0%N.
Proof.
  intros H1. unfold sub. rewrite nth_firstn' by lia. apply nth_skipn'.
Qed.

Lemma sub_S {A} (w : list A) off n d : off + n < length w -> sub w off (S n) = sub w off n ++ [nth (off + n) w d].
Proof.
  intros H. unfold sub.
  replace (S n) with (n + 1) by lia. rewrite firstn_add'. f_equal.
  rewrite skipn_skipn'. rewrite (skipn_nth_cons w (off + n) d) by lia. reflexivity.
Qed.

Lemma sub_0 {A} (w : list A) off : sub w off 0 = [].
Proof. reflexivity. Qed.

Lemma sub_all_skipn {A} (w : list A) off : sub w off (length w - off) = skipn off w.
Proof. unfold sub. apply firstn_all2. rewrite skipn_length. lia. Qed.

Lemma skipn_all' {A} (w : list A) n : length w <= n -> skipn n w = [].
Proof. intros. apply skipn_all2. lia. Qed.

Lemma window_length (m : bytes) b len : b + len <= length m -> length (sub m b len) = len.
Proof. apply sub_length. Qed.

(** parselocalpart() accepts exactly the [lweak] strings without an at sign; together with the class of
    F-C14-2 this is an equivalence with RFC 5321 Local-part = Dot-string / Quoted-string
    (quoted text as in RFC 5322 with the obsolete controls, pairs only for the quote and the backslash). *)
From Qv Require Import Common.Bytes Gen.GenAddr Model.Addr Spec.AddrSpec Spec.AddrGrammar
  Proofs.AddrTables Proofs.CStrLemmas Proofs.DomainProofs Proofs.LocalProofs.

Local Arguments N.eqb : simpl never.

(** the three character tables of parselocalpart are exactly the classes of the specification *)
Lemma LP_UNQ_OK_exact c : tbl LP_UNQ_OK c = atext c || N.eqb c DOT.
Proof.
  revert c. apply tbl_exact; [vm_compute; lia|vm_compute; reflexivity|].
  intros c H. apply orb_true_iff in H as [H|H]; [now apply atext_hi|apply N.eqb_eq in H; subst; reflexivity].
Qed.
Lemma LP_Q_OK_exact c : tbl LP_Q_OK c = qtext c.
Proof. revert c. apply tbl_exact; [vm_compute; lia|vm_compute; reflexivity|exact qtext_hi]. Qed.
Lemma LP_ESC_OK_exact c : tbl LP_ESC_OK c = N.eqb c cQUOTE || N.eqb c cBSL.
Proof.
  revert c. apply tbl_exact; [vm_compute; lia|vm_compute; reflexivity|].
  intros c H. apply orb_true_iff in H as [H|H]; apply N.eqb_eq in H; subst; reflexivity.
Qed.

Lemma qtext_not_nul_at c : qtext c = true -> c <> cAT -> N.eqb c NUL || N.eqb c AT = false.
Proof.
  intros H Ha. destruct (qtext_clean c H) as (_ & Hn & _).
  destruct (N.eqb_spec c NUL); [contradiction|]. destruct (N.eqb_spec c AT); [contradiction|reflexivity].
Qed.

(** inside a quoted string: the scan runs through its content and the closing quote *)
Lemma lp_loop_quoted q : qcontent q -> ~ In cAT q -> forall t tail,
  lp_loop (q ++ cQUOTE :: tail) t true = lp_loop tail (t + length q + 1) false.
Proof.
  induction 1 as [|c r Hc _ IH|e r He _ IH]; intros Hat t tail.
  - cbn [app lp_loop length]. change (N.eqb cQUOTE NUL || N.eqb cQUOTE AT) with false. cbn iota.
    change (N.eqb cQUOTE QUOTE) with true. cbn iota. cbn [negb]. f_equal. lia.
  - apply not_in_cons in Hat as [Hca Hat]. cbn [app lp_loop].
    rewrite (qtext_not_nul_at c Hc Hca).
    destruct (qtext_not_special c Hc) as [Hq Hb]. apply N.eqb_neq in Hq. change QUOTE with cQUOTE. rewrite Hq.
    cbn [negb]. rewrite LP_Q_OK_exact, Hc. rewrite IH by assumption. f_equal. cbn [length]. lia.
  - apply not_in_cons in Hat as [_ Hat]. apply not_in_cons in Hat as [_ Hat]. cbn [app lp_loop].
    change (N.eqb cBSL NUL || N.eqb cBSL AT) with false. cbn iota.
    change (N.eqb cBSL QUOTE) with false. cbn iota. cbn [negb].
    rewrite LP_Q_OK_exact. change (qtext cBSL) with false. cbn iota.
    change (N.eqb cBSL BSL) with true. cbn iota.
    rewrite LP_ESC_OK_exact.
    assert (Ee : N.eqb e cQUOTE || N.eqb e cBSL = true) by (destruct He as [-> | ->]; reflexivity).
    rewrite Ee. rewrite IH by assumption. f_equal. cbn [length]. lia.
Qed.

Lemma lp_loop_complete lp : lweak lp -> ~ In cAT lp -> forall t e rest, e = NUL \/ e = AT ->
  lp_loop (lp ++ e :: rest) t false = Ok (Z.of_nat (t + length lp)).
Proof.
  induction 1 as [|c r Hc _ IH|q r Hq _ IH]; intros Hat t e rest He.
  - cbn [app lp_loop length]. rewrite Nat.add_0_r.
    destruct He as [-> | ->]; [change (N.eqb NUL NUL || N.eqb NUL AT) with true|change (N.eqb AT NUL || N.eqb AT AT) with true]; reflexivity.
  - apply not_in_cons in Hat as [Hca Hat]. cbn [app lp_loop].
    assert (Hcl : clean7 c) by (destruct Hc as [Hc| ->]; [now apply atext_clean|apply clean7_special]).
    destruct Hcl as (_ & Hn & _).
    destruct (N.eqb_spec c NUL); [contradiction|]. destruct (N.eqb_spec c AT); [exfalso; apply Hca; assumption|]. cbn [orb].
    assert (Hnq : N.eqb c QUOTE = false).
    { apply N.eqb_neq. destruct Hc as [Hc| ->]; [apply atext_not_special in Hc; tauto|discriminate]. }
    rewrite Hnq. cbn [negb]. rewrite LP_UNQ_OK_exact.
    assert (Hu : atext c || N.eqb c DOT = true) by (destruct Hc as [Hc| ->]; [now rewrite Hc|reflexivity]).
    rewrite Hu. rewrite IH by assumption. do 2 f_equal. cbn [length]. lia.
  - apply not_in_cons in Hat as [_ Hat]. apply not_in_app in Hat as [Hatq Hat]. apply not_in_cons in Hat as [_ Hat].
    cbn [app lp_loop]. change (N.eqb cQUOTE NUL || N.eqb cQUOTE AT) with false. cbn iota.
    change (N.eqb cQUOTE QUOTE) with true. cbn iota. cbn [negb].
    rewrite <- app_assoc. cbn [app]. rewrite lp_loop_quoted by assumption.
    rewrite IH by assumption. do 2 f_equal. cbn [length]. rewrite app_length. cbn [length]. lia.
Qed.

(** parselocalpart() on  lp ++ (NUL or at sign) ++ anything  with no at sign in [lp]: it returns |lp|
    exactly when [lp] is [lweak], and -1 otherwise *)
Theorem parselocalpart_iff lp e rest : e = NUL \/ e = AT -> ~ In cAT lp ->
  (parselocalpart (lp ++ e :: rest) = Ok (Z.of_nat (length lp)) <-> lweak lp).
Proof.
  intros He Hat. split.
  - intros H. destruct (parselocalpart_sound _ _ H ltac:(lia)) as (_ & Hw & _). cbn zeta in Hw.
    rewrite Nat2Z.id, firstn_app_exact in Hw. exact Hw.
  - intros Hw. unfold parselocalpart. rewrite lp_loop_complete by assumption. reflexivity.
Qed.

Lemma atoms_lweak a r : Forall (fun c => atext c = true) a -> lweak r -> lweak (a ++ r).
Proof. induction 1; intros Hr; [exact Hr|]. cbn [app]. apply lw_char; [now left|auto]. Qed.

Lemma local_rfc_lweak l : local_rfc l -> lweak l /\ l <> [].
Proof.
  intros [Hd|(q & -> & Hq)].
  - induction Hd as [a [Hne Ha]|a r [Hne Ha] _ [IH _]].
    + split; [|exact Hne]. rewrite <- (app_nil_r a). apply atoms_lweak; [exact Ha|constructor].
    + split; [|destruct a; [congruence|discriminate]]. apply atoms_lweak; [exact Ha|].
      apply lw_char; [now right|exact IH].
  - split; [|discriminate]. apply lw_quoted; [exact Hq|constructor].
Qed.

(** RFC 5321 Local-part: [lp] (no at sign) is a Dot-string or a Quoted-string iff parselocalpart()
    accepts it and it is outside the class of F-C14-2 *)
Theorem local_rfc_iff lp e rest : e = NUL \/ e = AT -> ~ In cAT lp ->
  (local_rfc lp <->
   lp <> [] /\ parselocalpart (lp ++ e :: rest) = Ok (Z.of_nat (length lp)) /\ local_class lp = false).
Proof.
  intros He Hat. split.
  - intros H. destruct (local_rfc_lweak lp H) as [Hw Hne]. split; [exact Hne|]. split.
    + now apply parselocalpart_iff.
    + now apply local_class_exact.
  - intros (Hne & Hp & Hc). apply parselocalpart_iff in Hp; try assumption. now apply local_class_exact.
Qed.

(** C01, the three entitlements in ONE statement: the bridge between the session model (Model/Session.v, where the
    outcome of the one real tls_verify() evaluation is the oracle [o_tlsverify]) and the literal model of tls_verify() /
    tls_check_cert() / is_authenticated() with OpenSSL as oracles (Model/TlsVerify.v, property theorems of Props/Properties_C01t.v).

    (A) a sweep over all handlers: the ghost note [NCert name] is emitted nowhere but in is_authenticated(), inside TLS,
        where the oracle says "accepted, with this name";
    (B) [tv_agrees e tv]: the session's oracle value [tv] is what TlsVerify.tls_verify computes for the OpenSSL / file
        system answers [e] on a connection where the check has not run; with it a certificate note implies
        [cert_entitles e name], the right-hand side of property C01;
    (C) refinement: Session.relay_decide for an address outside rcpthosts IS TlsVerify.is_authenticated on the
        projection of the session state (relayclient, xmitstat.tlsclient, ssl_verified): same decision, same state. *)
From Qv Require Import Common.Bytes Gen.GenNetio Gen.GenSession Gen.GenTlsVerify Model.NetRead Model.Session Model.TlsVerify
  Spec.SessionSpec Spec.TlsVerifySpec Proofs.RelayDecide Proofs.AuthSync Proofs.SessionProofs Proofs.TlsVerifyProofs.
From Coq Require Import Lia ZArith.

(** ---------- (A) where certificate notes come from ---------- *)
Definition no_cert (evs : list event) : Prop := has_cert evs = false.

Lemma no_cert_in evs n : no_cert evs -> ~ In (Note (NCert n)) evs.
Proof.
  unfold no_cert. intros H Hin.
  assert (X : has_cert evs = true) by (apply existsb_exists; exists (Note (NCert n)); split; [exact Hin|reflexivity]).
  congruence.
Qed.
Lemma no_cert_app a b : no_cert a -> no_cert b -> no_cert (a ++ b).
Proof. unfold no_cert. intros Ha Hb. now rewrite has_cert_app, Ha, Hb. Qed.

Section Src.
Variable o : oracles.

(** tls_verify() got past its guard inside TLS and answered 1 with this name *)
Definition cert_src (n : bytes) : Prop := o_tls o = true /\ o_tlsverify o = TV_yes n.
Definition certs_ok (evs : list event) : Prop := forall n, In (Note (NCert n)) evs -> cert_src n.

Lemma nocert_ok evs : no_cert evs -> certs_ok evs.
Proof. intros H n Hin. exfalso. exact (no_cert_in _ _ H Hin). Qed.
Lemma certs_app a b : certs_ok a -> certs_ok b -> certs_ok (a ++ b).
Proof. intros Ha Hb n Hin. apply in_app_or in Hin as [Hi|Hi]; [exact (Ha _ Hi)|exact (Hb _ Hi)]. Qed.

Lemma wait_for_quit_nocert fuel : forall s, no_cert (wait_for_quit fuel s).
Proof.
  induction fuel as [|f IH]; intros s; cbn [wait_for_quit]; [reflexivity|].
  destruct (net_read (rd s)) as [it r'].
  destruct it; try reflexivity;
    try (match goal with |- context [if ?b then [Reply 221; Closed] else _] => destruct b; [reflexivity|] end);
    (match goal with |- context [if ?b then [Note NBadClose; Reply 550; Closed] else _] => destruct b; [reflexivity|] end);
    unfold no_cert; cbn [has_cert existsb is_cert_ev orb]; apply IH.
Qed.

Lemma sync_pipelining_nocert f s sp s2 : sync_pipelining f s = (sp, s2) -> forall evs, sp = Some evs -> no_cert evs.
Proof.
  unfold sync_pipelining. destruct (data_pending s) as [p sd].
  destruct (negb p). { intros H; inversion H; subst. discriminate. }
  destruct (esmtp sd).
  { intros H; inversion H; subst. intros evs E; inversion E; subst.
    unfold no_cert. cbn [has_cert existsb is_cert_ev orb]. apply wait_for_quit_nocert. }
  destruct (net_read (rd sd)) as [it r'].
  destruct it; intros H; inversion H; subst; intros evs E; inversion E; subst;
    try reflexivity; unfold no_cert; cbn [has_cert existsb is_cert_ev orb]; apply (wait_for_quit_nocert f (set_rd sd r')).
Qed.

(** is_authenticated(): the only place *)
Lemma relay_decide_certs s cls res s1 pre : relay_decide o s cls = (res, s1, pre) -> certs_ok pre.
Proof.
  unfold relay_decide. destruct cls; [intros H; inversion H; subst; apply nocert_ok; reflexivity|].
  destruct (authed_client s); [intros H; inversion H; subst; apply nocert_ok; reflexivity|].
  destruct (if N.eqb (relayclient s) 0 then _ else _) as [lerr sa].
  destruct lerr; [intros H; inversion H; subst; apply nocert_ok; reflexivity|].
  destruct (N.eqb (N.land (relayclient sa) 1) 0); [|intros H; inversion H; subst; apply nocert_ok; reflexivity].
  unfold Session.tls_verify. destruct (negb (o_tls o) || ssl_verified sa || authed_client sa) eqn:Eg.
  { intros H; inversion H; subst. apply nocert_ok; reflexivity. }
  apply orb_false_iff in Eg as [Eg _]. apply orb_false_iff in Eg as [Etls _]. apply negb_false_iff in Etls.
  destruct (o_tlsverify o) as [|name|w h] eqn:Ev; intros H; inversion H; subst.
  - apply nocert_ok; reflexivity.
  - intros n Hin. cbn [In] in Hin. destruct Hin as [E|[]]. inversion E; subst. split; [exact Etls|exact Ev].
  - apply nocert_ok. destruct w, h; reflexivity.
Qed.
Lemma subm_gate_certs s res s1 pre : subm_gate o s = (res, s1, pre) -> certs_ok pre.
Proof.
  unfold subm_gate. destruct (o_submission o); [apply relay_decide_certs|]. intros H; inversion H; subst. apply nocert_ok; reflexivity.
Qed.

Ltac cok Hp := first [ exact Hp | apply certs_app; [exact Hp|apply nocert_ok; reflexivity] | (apply nocert_ok; reflexivity) ].

Lemma h_rcpt_certs s arg evs h s' : h_rcpt o s arg = (evs, h, s') -> certs_ok evs.
Proof.
  unfold h_rcpt. intros H.
  destruct (o_addr o true arg) as [| | |addr more cls];
    try (destruct (Nat.leb MAXRCPT (rcptcount s))); try (inversion H; subst; apply nocert_ok; reflexivity).
  destruct (relay_decide o s cls) as [[res s1] pre] eqn:Er.
  pose proof (relay_decide_certs _ _ _ _ _ Er) as Hpre.
  destruct res as [al|h0]; [|inversion H; subst; exact Hpre].
  repeat (match type of H with
          | context [match ?x with _ => _ end] => destruct x eqn:?
          | context [if ?x then _ else _] => destruct x eqn:?
          end; try discriminate);
    inversion H; subst; cok Hpre.
Qed.

Lemma h_from_certs s arg len evs h s' : h_from o s arg len = (evs, h, s') -> certs_ok evs.
Proof.
  unfold h_from. intros H.
  destruct (o_addr o false arg) as [| | |addr more cls]; [inversion H; subst; apply nocert_ok; reflexivity| | |];
    (match type of H with context [subm_gate o ?sc] =>
       destruct (subm_gate o sc) as [[res s1] pre] eqn:Eg; pose proof (subm_gate_certs _ _ _ _ Eg) as Hpre end);
    (destruct res as [al|h0]; [|inversion H; subst; exact Hpre]);
    repeat (match type of H with
            | context [match ?x with _ => _ end] => destruct x eqn:?
            | context [if ?x then _ else _] => destruct x eqn:?
            end; try discriminate);
    inversion H; subst; cok Hpre.
Qed.

Lemma h_data_nocert f s evs h s' : h_data f o s = (evs, h, s') -> no_cert evs.
Proof.
  unfold h_data. intros H.
  destruct (Nat.eqb (goodrcpt s) 0). { inversion H; subst. reflexivity. }
  destruct (sync_pipelining f s) as [sp s2] eqn:Esp.
  pose proof (sync_pipelining_nocert _ _ _ _ Esp) as Hq.
  destruct sp as [e|]. { inversion H; subst. apply Hq; reflexivity. }
  match type of H with context [data_loop ?a ?b ?c ?d ?e] => destruct (data_loop a b c d e) as [de r'] end.
  destruct de;
    repeat (match type of H with
            | context [match ?x with _ => _ end] => destruct x eqn:?
            | context [if ?x then _ else _] => destruct x eqn:?
            | context [let '(_, _) := ?x in _] => destruct x eqn:?
            end; try discriminate);
    inversion H; subst; reflexivity.
Qed.

Lemma on_error_nocert s h ev so : on_error s h = (ev, so) -> no_cert ev.
Proof.
  unfold on_error. intros H. destruct (Nat.ltb MAXBADCMDS (badcmds s)); [inversion H; subst; reflexivity|].
  destruct h; inversion H; subst; reflexivity.
Qed.

Lemma dispatch_certs f s l evs h s1 : dispatch f o s l = (evs, h, s1) -> certs_ok evs.
Proof.
  unfold dispatch. intros H.
  destruct (negb (line_valid l)). { inversion H; subst. apply nocert_ok; reflexivity. }
  destruct (find_cmd commands 0 l) as [[i [[[[name mask] hid] st] flags]]|].
  2:{ inversion H; subst. apply nocert_ok; reflexivity. }
  destruct (N.eqb (N.land (comstate s) mask) 0). { inversion H; subst. apply nocert_ok; reflexivity. }
  destruct (N.eqb (N.land flags 2) 0 && Nat.ltb CMD_LINE_MAX (length l)). { inversion H; subst. apply nocert_ok; reflexivity. }
  destruct (N.eqb (N.land flags 1) 0 && negb (Nat.eqb (length (skipn (length name) l)) 0)). { inversion H; subst. apply nocert_ok; reflexivity. }
  destruct (negb (N.eqb (N.land flags 4) 0) && negb (N.eqb (nth 0 (skipn (length name) l) 0%N) SP)). { inversion H; subst. apply nocert_ok; reflexivity. }
  unfold after_handler, run_handler in H.
  destruct hid as [|[|[|[|[|[|[|[|[|[|[|[|[|hid]]]]]]]]]]]]].
  - destruct (sync_pipelining f s) as [sp s2] eqn:Esp. pose proof (sync_pipelining_nocert _ _ _ _ Esp) as Hq.
    destruct sp as [e|]; inversion H; subst; apply nocert_ok; [apply Hq; reflexivity|reflexivity].
  - inversion H; subst. apply nocert_ok; reflexivity.
  - destruct (N.leb 8 (comstate s)); inversion H; subst; apply nocert_ok; reflexivity.
  - destruct (o_helo o (skipn 5 l)); inversion H; subst; apply nocert_ok; reflexivity.
  - destruct (o_helo o (skipn 5 l)); inversion H; subst; apply nocert_ok; reflexivity.
  - destruct (h_from o s (skipn (length name) l) (length l)) as [[e h'] s'] eqn:Eh.
    pose proof (h_from_certs _ _ _ _ _ _ Eh) as Hn. destruct h'; inversion H; subst; exact Hn.
  - destruct (h_rcpt o s (skipn (length name) l)) as [[e h'] s'] eqn:Eh.
    pose proof (h_rcpt_certs _ _ _ _ _ Eh) as Hn. destruct h'; inversion H; subst; exact Hn.
  - destruct (h_data f o s) as [[e h'] s'] eqn:Eh.
    pose proof (h_data_nocert _ _ _ _ _ Eh) as Hn. destruct h'; inversion H; subst; apply nocert_ok; exact Hn.
  - destruct (negb (esmtp s)); inversion H; subst; apply nocert_ok; reflexivity.
  - destruct (Session.authed s || negb (o_authperm o)); [inversion H; subst; apply nocert_ok; reflexivity|].
    destruct (o_auth o (skipn 5 l)); inversion H; subst; apply nocert_ok; reflexivity.
  - inversion H; subst. apply nocert_ok; reflexivity.
  - inversion H; subst. apply nocert_ok; reflexivity.
  - destruct (N.eqb (comstate s) 1 && bytes_eqb (sub l 4 10) [32; 47; 32; 72; 84; 84; 80; 47; 49; 46]%N);
      inversion H; subst; apply nocert_ok; reflexivity.
  - inversion H; subst. apply nocert_ok; reflexivity.
Qed.

Lemma step_certs f s evs so : step f o s = (evs, so) -> certs_ok evs.
Proof.
  unfold step. intros H. destruct (net_read (rd s)) as [it r'].
  destruct it as [l| | | |].
  - destruct (dispatch f o (set_rd s r') l) as [[e h] s1] eqn:Ed.
    pose proof (dispatch_certs _ _ _ _ _ _ Ed) as Hd.
    destruct h;
      try (destruct (on_error s1 _) as [ev so'] eqn:Eoe; inversion H; subst;
           apply certs_app; [exact Hd|apply nocert_ok; exact (on_error_nocert _ _ _ _ Eoe)]).
    + inversion H; subst. apply certs_app; [exact Hd|apply nocert_ok; reflexivity].
    + inversion H; subst. exact Hd.
  - apply nocert_ok. exact (on_error_nocert _ _ _ _ H).
  - apply nocert_ok. exact (on_error_nocert _ _ _ _ H).
  - inversion H; subst. apply nocert_ok; reflexivity.
  - inversion H; subst. apply nocert_ok; reflexivity.
Qed.

Lemma serve_certs fuel : forall s, certs_ok (serve fuel o s).
Proof.
  induction fuel as [|f IH]; intros s; cbn [serve]; [apply nocert_ok; reflexivity|].
  destruct (step f o s) as [ev so] eqn:Es. apply certs_app; [exact (step_certs _ _ _ _ Es)|].
  destruct so as [s'|]; [apply IH|apply nocert_ok; reflexivity].
Qed.

(** a certificate note appears in a session only inside TLS and only where tls_verify() answered 1 with that name *)
Theorem cert_note_from_tls_verify chunks n : In (Note (NCert n)) (run_session o chunks) -> cert_src n.
Proof.
  unfold run_session. intros Hin. cbn [In] in Hin. destruct Hin as [E|Hin]; [discriminate|].
  exact (serve_certs _ _ _ Hin).
Qed.

End Src.

(** ---------- (B) the oracle of the session and the oracles of Model/TlsVerify.v ---------- *)
Local Open Scope Z_scope.

(** the connection state in which tls_verify() does its check: not verified yet, no certificate name *)
Definition st_unchecked (rc : Z) : state := {| verified := false; TlsVerify.tlsclient := None; relay := rc |}.

(** [tv] is what TlsVerify.tls_verify computes from the answers [e] of OpenSSL / the file system / the network *)
Definition tv_agrees (e : env) (tv : tv_result) : Prop :=
  e_tls e = true /\ e_auth e = false /\
  match TlsVerify.tls_verify e (st_unchecked 0) with
  | (Ret r, st', _) =>
      match tv with
      | TV_yes n => 0 < r /\ TlsVerify.tlsclient st' = Some n
      | TV_no => r = 0
      | TV_err _ h => r < 0 /\ h <> HEXIT
      end
  | (Die _, _, _) => exists w, tv = TV_err w HEXIT
  end.

(** the certificate note of a session, in terms of property C01: the client presented a certificate that verifies against
    clientca.pem and whose address [n] is listed in control/tlsclients ([cert_entitles], Spec/TlsVerifySpec.v) *)
Theorem cert_note_is_entitling_certificate o chunks n e :
  tv_agrees e (o_tlsverify o) -> netw_ok e ->
  In (Note (NCert n)) (run_session o chunks) ->
  o_tls o = true /\ cert_entitles e n.
Proof.
  intros (Htls & Hau & Hag) Hnw Hin.
  destruct (cert_note_from_tls_verify o chunks n Hin) as (Ho & Hv). split; [exact Ho|].
  rewrite Hv in Hag.
  destruct (TlsVerify.tls_verify e (st_unchecked 0)) as [[out st'] lg] eqn:Etv.
  destruct out as [r|en]; [|destruct Hag as (w & Hw); discriminate].
  destruct Hag as (Hpos & Hname).
  destruct (verify_positive_only_if _ _ _ _ _ Hnw Etv Hpos) as (_ & _ & _ & _ & _ & _ & _ & name & Hent & Hn2).
  rewrite Hname in Hn2. inversion Hn2; subst. exact Hent.
Qed.

Lemma has_cert_In evs : has_cert evs = true -> exists n, In (Note (NCert n)) evs.
Proof.
  unfold has_cert. intros H. apply existsb_exists in H as (x & Hin & Hx).
  destruct x as [c|a b| | |nt]; try discriminate. destruct nt; try discriminate. eauto.
Qed.

(** the three entitlements of property C01 in one statement: a 2xx for a recipient outside rcpthosts implies that the relay
    list matched, or an AUTH succeeded earlier on the connection, or - inside TLS - the client presented earlier on the
    connection a certificate that verifies against clientca.pem and whose address is listed in control/tlsclients *)
Theorem remote_rcpt_three_entitlements o chunks pre addr post e :
  tv_agrees e (o_tlsverify o) -> netw_ok e ->
  run_session o chunks = pre ++ Note (NRcpt addr RNotLocal) :: post ->
  (0 < o_relay o)%Z \/ has_auth pre = true
  \/ (o_tls o = true /\ exists name, In (Note (NCert name)) pre /\ cert_entitles e name).
Proof.
  intros Hag Hnw E.
  destruct (Proofs.SessionProofs.remote_rcpt_needs_relay o chunks pre addr post E) as [H|[H|H]]; [auto|auto|].
  right; right. destruct (has_cert_In _ H) as (n & Hin).
  assert (Hin' : In (Note (NCert n)) (run_session o chunks)) by (rewrite E; apply in_or_app; left; exact Hin).
  destruct (cert_note_is_entitling_certificate o chunks n e Hag Hnw Hin') as (Ht & Hent).
  split; [exact Ht|]. exists n. split; assumption.
Qed.

Theorem submission_mail_three_entitlements o chunks pre f post e :
  tv_agrees e (o_tlsverify o) -> netw_ok e -> o_submission o = true ->
  run_session o chunks = pre ++ Note (NMail f) :: post ->
  (0 < o_relay o)%Z \/ has_auth pre = true
  \/ (o_tls o = true /\ exists name, In (Note (NCert name)) pre /\ cert_entitles e name).
Proof.
  intros Hag Hnw Hs E.
  destruct (Proofs.SessionProofs.submission_mail_needs_entitlement o chunks pre f post Hs E) as [H|[H|H]]; [auto|auto|].
  right; right. destruct (has_cert_In _ H) as (n & Hin).
  assert (Hin' : In (Note (NCert n)) (run_session o chunks)) by (rewrite E; apply in_or_app; left; exact Hin).
  destruct (cert_note_is_entitling_certificate o chunks n e Hag Hnw Hin') as (Ht & Hent).
  split; [exact Ht|]. exists n. split; assumption.
Qed.

(** ---------- (C) refinement: Session.relay_decide is TlsVerify.is_authenticated ---------- *)
(** the part of the session state is_authenticated() works on *)
Definition proj (s : sstate) : state :=
  {| verified := ssl_verified s; TlsVerify.tlsclient := Session.tlsclient s; relay := Z.of_N (relayclient s) |}.

(** tls_verify() hands relayclient through untouched: its result for any relayclient is the one for relayclient 0 *)
Lemma tls_verify_any_relay e rc : e_tls e = true -> e_auth e = false ->
  TlsVerify.tls_verify e (st_unchecked rc) =
  let '(out, st', lg) := TlsVerify.tls_verify e (st_unchecked 0) in
  (out, {| verified := verified st'; TlsVerify.tlsclient := TlsVerify.tlsclient st'; relay := rc |}, lg).
Proof.
  intros Ht Ha. unfold TlsVerify.tls_verify, TlsVerify.authed, st_unchecked. rewrite Ht, Ha.
  cbn [negb orb verified TlsVerify.tlsclient relay].
  destruct (e_list e) as [en| |cl]; try reflexivity.
  destruct (e_ca e); cbn [negb]; [|reflexivity].
  unfold tls_check_cert. cbn [verified TlsVerify.tlsclient relay].
  repeat (match goal with
          | |- context [match e_peer e with _ => _ end] => destruct (e_peer e)
          | |- context [match match_loop ?a ?b with _ => _ end] => destruct (match_loop a b)
          | |- context [if ?c then _ else _] => destruct c
          end; try reflexivity).
Qed.

Lemma proj_unchecked sa : ssl_verified sa = false -> Session.tlsclient sa = None -> proj sa = st_unchecked (Z.of_N (relayclient sa)).
Proof. intros H1 H2. unfold proj, st_unchecked. now rewrite H1, H2. Qed.

Lemma land1_N_Z rc : Z.eqb (Z.land (Z.of_N rc) 1) 0 = N.eqb (N.land rc 1) 0.
Proof. destruct rc as [|[p|p|]]; reflexivity. Qed.
Lemma eqb_N_Z a b : Z.eqb (Z.of_N a) (Z.of_N b) = N.eqb a b.
Proof.
  destruct (N.eqb a b) eqn:E.
  - apply N.eqb_eq in E. subst. apply Z.eqb_refl.
  - apply N.eqb_neq in E. apply Z.eqb_neq. intros X. apply E. apply N2Z.inj. exact X.
Qed.

(** the decision as is_authenticated() returns it *)
Definition res_matches (res : rdres) (out : outcome) : Prop :=
  match res with
  | RD_ok b => out = Ret (if b then 1 else 0)
  | RD_fail h => match out with Ret r => r < 0 /\ h <> HEXIT | Die _ => h = HEXIT end
  end.

Theorem relay_decide_is_is_authenticated o s e res s1 pre :
  netw_ok e -> e_tls e = o_tls o -> e_auth e = Session.authed s -> e_ipbl e = o_relay o ->
  (o_tls o = true -> Session.authed s = false -> tv_agrees e (o_tlsverify o)) ->
  relay_decide o s RNotLocal = (res, s1, pre) ->
  exists out lg, is_authenticated e (proj s) = (out, proj s1, lg) /\ res_matches res out.
Proof.
  intros Hnw Htls Hauth Hipbl Hag H. unfold relay_decide in H. unfold is_authenticated.
  assert (Hau : TlsVerify.authed e (proj s) = authed_client s).
  { unfold TlsVerify.authed, authed_client, proj. cbn [TlsVerify.tlsclient]. now rewrite Hauth. }
  rewrite Hau. destruct (authed_client s) eqn:Eac.
  { inversion H; subst. eexists _, _. split; reflexivity. }
  assert (Hnoname : Session.authed s = false /\ Session.tlsclient s = None).
  { unfold authed_client in Eac. apply orb_false_iff in Eac as [A B]. split; [exact A|]. destruct (Session.tlsclient s); [discriminate|reflexivity]. }
  destruct Hnoname as (Hna & Hntc).
  (* the relay list stage *)
  cbn [proj relay]. change 0 with (Z.of_N 0) at 1. rewrite eqb_N_Z. rewrite Hipbl.
  (* both sides continue with the same intermediate state [sa] *)
  assert (Stage : forall sa lg0, Session.authed sa = false -> Session.tlsclient sa = None ->
            (if N.eqb (N.land (relayclient sa) 1) 0
             then match Session.tls_verify o sa with
                  | (None, s2) | (Some TV_no, s2) => (RD_ok (N.eqb (relayclient s2) 1), s2, [])
                  | (Some (TV_yes name), s2) => (RD_ok true, set_relayclient (set_tlsclient s2 (Some name)) 1%N, [Note (NCert name)])
                  | (Some (TV_err w h), s2) =>
                      (RD_fail (match h with H0 => HUNKNOWN | _ => h end), s2,
                       (if w then [Reply 454] else []) ++ (match h with HEXIT => [Closed] | _ => [] end))
                  end
             else (RD_ok (N.eqb (relayclient sa) 1), sa, [])) = (res, s1, pre) ->
            exists out lg, ia_tls_stage e (proj sa) lg0 = (out, proj s1, lg) /\ res_matches res out).
  { clear H. intros sa lg0 Hsa_au Hsa_tc Hs. unfold ia_tls_stage.
    change (relay (proj sa)) with (Z.of_N (relayclient sa)). rewrite land1_N_Z.
    destruct (N.eqb (N.land (relayclient sa) 1) 0) eqn:Eland.
    2:{ inversion Hs; subst. eexists _, _. split; [reflexivity|].
        cbn [res_matches set_relay relay proj Z.eqb]. rewrite <- (eqb_N_Z _ 1). reflexivity. }
    unfold Session.tls_verify in Hs.
    assert (Hac : authed_client sa = false) by (unfold authed_client; rewrite Hsa_au, Hsa_tc; reflexivity).
    rewrite Hac, orb_false_r in Hs.
    destruct (negb (o_tls o) || ssl_verified sa) eqn:Eg.
    { (* tls_verify() returns 0 at once *)
      assert (Hg : TlsVerify.tls_verify e (proj sa) = (Ret 0, proj sa, [])).
      { unfold TlsVerify.tls_verify. rewrite Htls. change (verified (proj sa)) with (ssl_verified sa). rewrite Eg. reflexivity. }
      rewrite Hg. inversion Hs; subst. eexists _, _. split; [reflexivity|].
      cbn [res_matches set_relay relay proj Z.eqb]. rewrite <- (eqb_N_Z _ 1). reflexivity. }
    apply orb_false_iff in Eg as [Et Ev]. apply negb_false_iff in Et.
    (* the check itself: the oracle of the session against TlsVerify's computation *)
    assert (Hna' : Session.authed s = false) by exact Hna.
    destruct (Hag Et Hna') as (Ht1 & Ha1 & Hagree).
    rewrite (proj_unchecked sa Ev Hsa_tc), (tls_verify_any_relay e (Z.of_N (relayclient sa)) Ht1 Ha1).
    destruct (TlsVerify.tls_verify e (st_unchecked 0)) as [[out st'] lg] eqn:Etv.
    assert (Hfacts : verified st' = true /\ ((exists name, out = Ret 1 /\ TlsVerify.tlsclient st' = Some name) \/ TlsVerify.tlsclient st' = None)).
    { destruct (tls_verify_cases _ _ _ _ _ Hnw Etv) as [(_ & _ & _ & Hnf)|(_ & _ & Hv' & _ & Hc)].
      - exfalso. apply Hnf. unfold fresh, st_unchecked, TlsVerify.authed. cbn [verified TlsVerify.tlsclient]. rewrite Ha1. auto.
      - split; [exact Hv'|]. destruct Hc as [(name & _ & Ho1 & Htc1)|(Htc1 & _)]; [left; eauto|right; exact Htc1]. }
    destruct Hfacts as (Hvf & Hc).
    destruct out as [r|en].
    - destruct (o_tlsverify o) as [|name|w h] eqn:Eo.
      + subst r. inversion Hs; subst.
        assert (Htc' : TlsVerify.tlsclient st' = None).
        { destruct Hc as [(nm & Ho1 & _)|Hc]; [discriminate|exact Hc]. }
        cbn [Z.ltb Z.compare Z.eqb set_relay relay verified TlsVerify.tlsclient]. rewrite Hvf, Htc'.
        unfold proj. cbn [set_verified ssl_verified Session.tlsclient relayclient]. rewrite Hsa_tc.
        eexists _, _. split; [reflexivity|]. cbn [res_matches]. rewrite <- (eqb_N_Z _ 1). reflexivity.
      + destruct Hagree as (Hpos & Hnm). inversion Hs; subst.
        destruct (Z.ltb r 0) eqn:En; [apply Z.ltb_lt in En; lia|].
        destruct (Z.eqb r 0) eqn:Ez; [apply Z.eqb_eq in Ez; lia|].
        cbn [Z.eqb set_relay relay verified TlsVerify.tlsclient]. rewrite Hvf, Hnm.
        unfold proj. cbn [set_verified set_relayclient set_tlsclient ssl_verified Session.tlsclient relayclient].
        eexists _, _. split; reflexivity.
      + destruct Hagree as (Hneg & Hnx). inversion Hs; subst.
        assert (En : Z.ltb r 0 = true) by (apply Z.ltb_lt; exact Hneg). rewrite En.
        assert (Htc' : TlsVerify.tlsclient st' = None).
        { destruct Hc as [(nm & Ho1 & _)|Hc]; [inversion Ho1; lia|exact Hc]. }
        rewrite Hvf, Htc'.
        unfold proj. cbn [set_verified ssl_verified Session.tlsclient relayclient]. rewrite Hsa_tc.
        eexists _, _. split; [reflexivity|]. cbn [res_matches]. split; [exact Hneg|]. destruct h; congruence.
    - destruct Hagree as (w & Hw). rewrite Hw in Hs. inversion Hs; subst.
      assert (Htc' : TlsVerify.tlsclient st' = None).
      { destruct Hc as [(nm & Ho1 & _)|Hc]; [discriminate|exact Hc]. }
      rewrite Hvf, Htc'.
      unfold proj. cbn [set_verified ssl_verified Session.tlsclient relayclient]. rewrite Hsa_tc.
      eexists _, _. split; reflexivity. }
  destruct (N.eqb (relayclient s) 0) eqn:E0.
  - destruct (Z.ltb (o_relay o) 0) eqn:Eneg.
    + assert (Epos : Z.ltb 0 (o_relay o) = false) by (apply Z.ltb_ge; apply Z.ltb_lt in Eneg; lia).
      rewrite Epos in H. inversion H; subst. eexists _, _. split; [reflexivity|]. cbn [res_matches].
      apply Z.ltb_lt in Eneg. split; [exact Eneg|discriminate].
    + assert (Hpj : set_relay (proj s) (if Z.ltb 0 (o_relay o) then 1 else 2)
                    = proj (set_relayclient s (if Z.ltb 0 (o_relay o) then 1%N else 2%N))).
      { unfold set_relay, proj. cbn [verified TlsVerify.tlsclient set_relayclient ssl_verified Session.tlsclient relayclient].
        destruct (Z.ltb 0 (o_relay o)); reflexivity. }
      rewrite Hpj. apply Stage; [exact Hna|exact Hntc|exact H].
  - apply Stage; [exact Hna|exact Hntc|exact H].
Qed.

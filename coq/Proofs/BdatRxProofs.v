(** smtp_bdat (qsmtpd/data.c, repaired): what reaches the queue is the chunk data with
    CRLF -> LF for every partition into chunks, buffers and reads; a failed command is never
    followed by an envelope; no out-of-range access for any input. *)
From Qv Require Import Common.Bytes Gen.GenBdatRx Model.BdatRx Spec.BdatRxSpec
  Proofs.BdatTxProofs Proofs.BdatRxNet Proofs.BdatRxPiece.
Require Import Lia.

(** * events *)
Definition qish (e : ev) : Prop := match e with EvQ _ | EvQBadf | EvQFail => True | _ => False end.
Definition only_q (e : ev) : Prop := match e with EvQ _ => True | _ => False end.

Lemma queued_app a b : queued (a ++ b) = queued a ++ queued b.
Proof.
  induction a as [|e a IH]; [reflexivity|]. destruct e; cbn [app queued]; rewrite ?IH, ?app_assoc; reflexivity.
Qed.

Lemma queued_map_q ws : queued (map EvQ ws) = concat ws.
Proof. induction ws as [|w ws IH]; [reflexivity|]. cbn. now rewrite IH. Qed.

Lemma only_q_map ws : Forall only_q (map EvQ ws).
Proof. induction ws; constructor; auto. exact I. Qed.

Lemma endcr_app : forall a p b, endcr p (a ++ b) = endcr (endcr p a) b.
Proof. induction a as [|x a IH]; intros p b; [reflexivity|]. cbn [app endcr]. apply IH. Qed.

(** * queue writes *)
(** the injected write fault, if any, is already behind us *)
Definition wf_clean (cfg : rxcfg) (wc : nat) : Prop :=
  match c_wfail cfg with None => True | Some (k, _) => k < wc end.

Lemma wf_clean_mono cfg wc wc' : wf_clean cfg wc -> wc <= wc' -> wf_clean cfg wc'.
Proof. unfold wf_clean. destruct (c_wfail cfg) as [[k e]|]; [lia|auto]. Qed.

Lemma q_writes_clean cfg ws :
  forall com lc be ms gr qh wc net, wf_clean cfg wc ->
  q_writes cfg (mk_rx com lc be ms gr true qh wc net) ws
  = (None, mk_rx com lc be ms gr true qh (wc + length ws) net, map EvQ ws).
Proof.
  induction ws as [|w ws IH]; intros com lc be ms gr qh wc net Hw.
  - cbn. rewrite Nat.add_0_r. reflexivity.
  - cbn [q_writes q_write r_qdata negb r_wcount].
    assert (E : match c_wfail cfg with
                | Some (k, e) => if Nat.eqb k wc then (Some e, mk_rx com lc be ms gr true qh (S wc) net, [EvQFail])
                                 else (None, mk_rx com lc be ms gr true qh (S wc) net, [EvQ w])
                | None => (None, mk_rx com lc be ms gr true qh (S wc) net, [EvQ w])
                end = (None, mk_rx com lc be ms gr true qh (S wc) net, [EvQ w])).
    { unfold wf_clean in Hw. destruct (c_wfail cfg) as [[k e]|]; [|reflexivity].
      destruct (Nat.eqb_spec k wc); [lia|reflexivity]. }
    cbn [r_com r_lastcr r_bdaterr r_msgsize r_goodrcpt r_qdata r_qhdr r_wcount r_net]. rewrite E.
    rewrite IH by (eapply wf_clean_mono; [exact Hw|lia]).
    cbn [length map app]. replace (S wc + length ws) with (wc + S (length ws)) by lia. reflexivity.
Qed.

Lemma q_write_clean cfg b com lc be ms gr qh wc net : wf_clean cfg wc ->
  q_write cfg (mk_rx com lc be ms gr true qh wc net) b = (None, mk_rx com lc be ms gr true qh (S wc) net, [EvQ b]).
Proof.
  intros Hw. unfold q_write, wf_clean in *. cbn [r_qdata negb r_wcount r_com r_lastcr r_bdaterr r_msgsize r_goodrcpt r_qhdr r_net].
  destruct (c_wfail cfg) as [[k e]|]; [|reflexivity]. destruct (Nat.eqb_spec k wc); [lia|reflexivity].
Qed.

Definition same_core (s s' : rxst) : Prop :=
  r_com s' = r_com s /\ r_lastcr s' = r_lastcr s /\ r_bdaterr s' = r_bdaterr s /\ r_msgsize s' = r_msgsize s
  /\ r_goodrcpt s' = r_goodrcpt s /\ r_qdata s' = r_qdata s /\ r_qhdr s' = r_qhdr s /\ r_net s' = r_net s.

Lemma q_write_pres cfg s b : let '(r, s', x) := q_write cfg s b in same_core s s' /\ Forall qish x.
Proof.
  unfold q_write, same_core. destruct (r_qdata s) eqn:Eq; cbn [negb].
  - destruct (c_wfail cfg) as [[k e0]|]; [destruct (Nat.eqb k (r_wcount s))|];
      cbn [r_com r_lastcr r_bdaterr r_msgsize r_goodrcpt r_qdata r_qhdr r_net]; rewrite ?Eq;
      (split; [repeat split|repeat constructor]).
  - rewrite ?Eq. split; [repeat split|repeat constructor].
Qed.

Lemma q_writes_pres cfg : forall ws s, let '(r, s', x) := q_writes cfg s ws in same_core s s' /\ Forall qish x.
Proof.
  induction ws as [|w ws IH]; intros s.
  - cbn. split; [repeat split|constructor].
  - cbn [q_writes]. pose proof (q_write_pres cfg s w) as Hw. destruct (q_write cfg s w) as [[r s1] x1].
    destruct Hw as (Hc1 & Hq1). destruct r as [e|].
    + split; assumption.
    + specialize (IH s1). destruct (q_writes cfg s1 ws) as [[r2 s2] x2]. destruct IH as (Hc2 & Hq2).
      split; [|apply Forall_app; split; assumption].
      unfold same_core in *. intuition congruence.
Qed.

(** * the read loop of one BDAT command *)
Definition cfg_ok (cfg : rxcfg) : Prop := 2 <= c_rs cfg.

Lemma chunk_num cfg (chunksize : N) : cfg_ok cfg -> chunksize <> 0%N ->
  let num := if N.leb (N.of_nat (c_rs cfg)) chunksize then c_rs cfg - RX_READ_BACK else N.to_nat chunksize in
  1 <= num /\ (N.of_nat num <= chunksize)%N /\ num + 1 <= c_rs cfg.
Proof.
  intros Hc Hs. unfold cfg_ok in Hc. rx_consts. cbv zeta. destruct (N.leb_spec (N.of_nat (c_rs cfg)) chunksize); lia.
Qed.

(** for every input: no crash, the events are queue writes only, the fields that decide the
    fate of the transaction are untouched *)
Lemma chunk_loop_gen cfg last : cfg_ok cfg -> forall fuel chunksize s evs, length (avail (r_net s)) < fuel ->
  exists le s' x, chunk_loop fuel cfg last chunksize s evs = Ok (le, s', evs ++ x)
    /\ Forall qish x /\ r_com s' = r_com s /\ r_goodrcpt s' = r_goodrcpt s
    /\ r_qdata s' = r_qdata s /\ r_qhdr s' = r_qhdr s
    /\ (r_bdaterr s <> E0 -> r_bdaterr s' <> E0).
Proof.
  intros Hcfg. induction fuel as [|f IH]; intros chunksize s evs Hf; [lia|].
  cbn [chunk_loop]. destruct (N.eqb_spec chunksize 0) as [->|Hn].
  { exists LoopOk, s, []. rewrite app_nil_r. repeat split; auto. }
  destruct (chunk_num cfg chunksize Hcfg Hn) as (Hn1 & Hn2 & Hn3).
  set (num := if N.leb (N.of_nat (c_rs cfg)) chunksize then c_rs cfg - RX_READ_BACK else N.to_nat chunksize) in *.
  destruct (net_readbin_ok (c_rs cfg) num (r_net s) Hn3) as (r & net' & Er & Hd & _).
  rewrite Er. cbn [bind].
  destruct r as [d| |].
  - destruct (Hd d eq_refl) as (Hdl & Hsplit).
    destruct (Nat.eqb_spec (length d) 0) as [E0|_]; [lia|].
    destruct (N.ltb_spec chunksize (N.of_nat (length d))) as [Hc|_]; [lia|].
    destruct (piece_ok (r_lastcr (set_net s net')) (negb (c_fix cfg) && last && N.eqb (chunksize - N.of_nat (length d)) 0) d
                ltac:(destruct d; [cbn in Hdl; lia|discriminate]))
      as (w0 & ws & Ep & _ & _).
    rewrite Ep. cbn [bind].
    match goal with |- context [q_writes cfg ?s2 w0] => pose proof (q_writes_pres cfg w0 s2) as H0;
      destruct (q_writes cfg s2 w0) as [[wr0 s3] x0] end.
    destruct H0 as (Hc0 & Hq0). unfold same_core in Hc0. cbn [r_com r_lastcr r_bdaterr r_msgsize r_goodrcpt r_qdata r_qhdr r_net set_net] in Hc0.
    destruct wr0 as [e0|].
    + exists (LoopErrWrite e0), s3, x0. split; [reflexivity|]. intuition congruence.
    + match goal with |- context [q_writes cfg ?s4 ws] => pose proof (q_writes_pres cfg ws s4) as H1;
        destruct (q_writes cfg s4 ws) as [[wr1 s5] x1] end.
      destruct H1 as (Hc1 & Hq1). unfold same_core in Hc1. cbn [r_com r_lastcr r_bdaterr r_msgsize r_goodrcpt r_qdata r_qhdr r_net] in Hc1.
      destruct wr1 as [e1|].
      * exists (LoopErrWrite e1), s5, (x0 ++ x1). split; [reflexivity|].
        split; [apply Forall_app; split; assumption|]. intuition congruence.
      * assert (Hlen5 : length (avail (r_net s5)) < f).
        { destruct Hc1 as (_ & _ & _ & _ & _ & _ & _ & Hn5). destruct Hc0 as (_ & _ & _ & _ & _ & _ & _ & Hn3').
          rewrite Hn5, Hn3'. rewrite Hsplit, app_length in Hf. lia. }
        destruct (IH (chunksize - N.of_nat (length d))%N s5 (evs ++ x0 ++ x1) Hlen5) as (le & s' & x & E & Hq & H').
        exists le, s', (x0 ++ x1 ++ x). split; [rewrite E, <- !app_assoc; reflexivity|].
        split; [repeat (apply Forall_app; split); assumption|]. intuition congruence.
  - eexists LoopOk, _, []. rewrite app_nil_r. split; [reflexivity|].
    cbn [r_com r_goodrcpt r_qdata r_qhdr r_bdaterr set_net]. repeat split; auto.
    intros Hb. destruct (r_bdaterr s); cbn [err_eqb]; congruence.
  - eexists LoopDied, _, []. rewrite app_nil_r. split; [reflexivity|].
    cbn [r_com r_goodrcpt r_qdata r_qhdr r_bdaterr set_net]. repeat split; auto.
Qed.

(** without a fault and with enough data: everything read is converted and queued *)
Lemma chunk_loop_clean cfg last : cfg_ok cfg -> c_fix cfg = true ->
  forall fuel k com lc ms qh wc net evs,
  length (avail net) < fuel -> wf_clean cfg wc -> n_rfail net = None -> k <= length (avail net) ->
  exists wc' net' x,
    chunk_loop fuel cfg last (N.of_nat k) (mk_rx com lc E0 ms true true qh wc net) evs
    = Ok (LoopOk, mk_rx com (endcr lc (firstn k (avail net))) E0 (ms + k) true true qh wc' net', evs ++ x)
    /\ Forall only_q x /\ queued x = conv lc (firstn k (avail net))
    /\ avail net' = skipn k (avail net) /\ n_rfail net' = None /\ wc <= wc'.
Proof.
  intros Hcfg Hfix. induction fuel as [|f IH]; intros k com lc ms qh wc net evs Hf Hw Hrf Hav; [lia|].
  cbn [chunk_loop]. destruct (N.eqb_spec (N.of_nat k) 0) as [E0k|Hn].
  { assert (k = 0) by lia. subst k. exists wc, net, []. rewrite app_nil_r, Nat.add_0_r. cbn [firstn skipn endcr conv].
    repeat split; auto. }
  destruct (chunk_num cfg (N.of_nat k) Hcfg Hn) as (Hn1 & Hn2 & Hn3).
  set (num := if N.leb (N.of_nat (c_rs cfg)) (N.of_nat k) then c_rs cfg - RX_READ_BACK else N.to_nat (N.of_nat k)) in *.
  cbn [r_net].
  destruct (net_readbin_ok (c_rs cfg) num net Hn3) as (r & net1 & Er & Hd & Hclean).
  rewrite Er. cbn [bind].
  destruct (Hclean Hrf) as (Hrf1 & Hnerr & Hndied). specialize (Hndied ltac:(lia)).
  destruct r as [d| |]; [|congruence|congruence].
  destruct (Hd d eq_refl) as (Hdl & Hsplit).
  cbn [set_net r_com r_lastcr r_bdaterr r_msgsize r_goodrcpt r_qdata r_qhdr r_wcount r_net].
  destruct (Nat.eqb_spec (length d) 0) as [E0'|_]; [lia|].
  destruct (N.ltb_spec (N.of_nat k) (N.of_nat (length d))) as [Hc|_]; [lia|].
  rewrite Hfix. cbn [negb andb].
  destruct (piece_ok lc false d ltac:(destruct d; [cbn in Hdl; lia|discriminate])) as (w0 & ws & Ep & Hcat & _).
  cbn [andb] in Hcat. rewrite app_nil_r in Hcat.
  rewrite Ep. cbn [bind].
  rewrite (q_writes_clean cfg w0) by exact Hw. cbn [r_com r_lastcr r_bdaterr r_msgsize r_goodrcpt r_qdata r_qhdr r_wcount r_net].
  rewrite (q_writes_clean cfg ws) by (eapply wf_clean_mono; [exact Hw|lia]).
  assert (Hav1 : k - length d <= length (avail net1)).
  { rewrite Hsplit, app_length in Hav. lia. }
  replace (N.of_nat k - N.of_nat (length d))%N with (N.of_nat (k - length d)) by lia.
  destruct (IH (k - length d) com (endcr lc d) (ms + length d) qh (wc + length w0 + length ws) net1
              (evs ++ map EvQ w0 ++ map EvQ ws) ltac:(rewrite Hsplit, app_length in Hf; lia)
              ltac:(eapply wf_clean_mono; [exact Hw|lia]) Hrf1 Hav1) as (wc' & net' & x & E & Hq & Hqd & Hav' & Hrf' & Hwc).
  assert (HD : firstn k (avail net) = d ++ firstn (k - length d) (avail net1)).
  { rewrite Hsplit, firstn_app, firstn_all2 by lia. reflexivity. }
  exists wc', net', (map EvQ w0 ++ map EvQ ws ++ x). rewrite E.
  split.
  { rewrite HD, endcr_app, <- !app_assoc. replace (ms + length d + (k - length d)) with (ms + k) by lia. reflexivity. }
  split; [repeat (apply Forall_app; split); auto using only_q_map|].
  split.
  { rewrite !queued_app, !queued_map_q, Hqd, HD, conv_app, <- Hcat, concat_app, <- app_assoc. reflexivity. }
  split; [|split; [exact Hrf'|lia]].
  rewrite Hav', Hsplit.
  rewrite <- (skipn_app_exact d (avail net1)) at 1. rewrite skipn_skipn'. f_equal. lia.
Qed.

(** * one BDAT command *)
Definition plain (e : ev) : Prop := match e with EvEnv _ | EvRc _ | Ev503 => False | _ => True end.

Lemma qish_plain x : Forall qish x -> Forall plain x.
Proof. apply Forall_impl. intros [] H; cbn in *; auto. Qed.
Lemma only_q_plain x : Forall only_q x -> Forall plain x.
Proof. apply Forall_impl. intros [] H; cbn in *; auto. Qed.

Lemma plain_noenv x : Forall plain x -> existsb is_env x = false /\ existsb is_fail x = false.
Proof.
  induction 1 as [|e x He Hx [IH1 IH2]]; [split; reflexivity|].
  cbn [existsb]. rewrite IH1, IH2. destruct e; cbn in *; try contradiction; split; reflexivity.
Qed.

Lemma smtp_bdat_dead cfg size last s : r_goodrcpt s = false ->
  smtp_bdat cfg size last s = Ok (Some EDONE, s, [EvTarpit; EvReply 554]).
Proof. intros H. unfold smtp_bdat. rewrite H. reflexivity. Qed.

Ltac plain_tac := repeat (apply Forall_app; split); repeat (constructor; try exact I); auto.

Lemma err_write_props e s evs : Forall plain evs ->
  exists rc s' x, err_write e s evs = (Some rc, s', x) /\ r_goodrcpt s' = false /\ Forall plain x /\ rc <> E0.
Proof.
  intros H. unfold err_write.
  destruct e; eexists _, _, _; (split; [reflexivity|]); (split; [reflexivity|]); (split; [plain_tac|discriminate]).
Qed.

(** every input: no crash; the events carry an envelope only when the command succeeds as the
    LAST one, and after any failure there are no recipients left *)
Lemma smtp_bdat_gen cfg size last s : cfg_ok cfg ->
  exists rc s' x, smtp_bdat cfg size last s = Ok (rc, s', x)
    /\ ((Forall plain x /\ (forall e, rc = Some e -> e <> E0 -> r_goodrcpt s' = false))
        \/ (rc = Some E0 /\ exists x0 n, x = x0 ++ [EvEnv n; EvFree; EvReply 250] /\ Forall plain x0)).
Proof.
  intros Hcfg. unfold smtp_bdat. destruct (r_goodrcpt s) eqn:Egr; cbn [negb].
  2:{ eexists _, _, _. split; [reflexivity|]. left. split; [plain_tac|]. intros e _ _. exact Egr. }
  assert (Hinit : Forall plain (snd (bdat_init s))).
  { unfold bdat_init. destruct (r_com s) as [[|]| |]; plain_tac. }
  destruct (bdat_init s) as [s1 ev1]. cbn [snd] in Hinit. unfold bdat_rest.
  destruct (chunk_loop_gen cfg last Hcfg (S (length (n_ln (r_net s1)) + length (n_stream (r_net s1)))) size s1 ev1
              ltac:(unfold avail; rewrite app_length; lia)) as (le & s2 & x & E & Hq & _).
  rewrite E. cbn [bind]. apply qish_plain in Hq.
  assert (Hev2 : Forall plain (ev1 ++ x)) by plain_tac.
  destruct le as [|e|].
  - (* the loop ended normally *)
    set (crw := if c_fix cfg && last && r_lastcr s2 && err_eqb (r_bdaterr s2) E0 then _ else (None, s2, ev1 ++ x)).
    assert (Hcrw : Forall plain (snd crw)).
    { subst crw. destruct (c_fix cfg && last && r_lastcr s2 && err_eqb (r_bdaterr s2) E0); [|exact Hev2].
      pose proof (q_write_pres cfg s2 [CR]) as Hw. destruct (q_write cfg s2 [CR]) as [[wr s'] e'].
      destruct Hw as (_ & Hw). cbn [snd]. apply qish_plain in Hw. plain_tac. }
    destruct crw as [[wr s3] ev3]. cbn [snd] in Hcrw.
    destruct wr as [ew|].
    + destruct (err_write_props ew s3 ev3 Hcrw) as (rc & s' & x' & Ee & Hg & Hp & _). rewrite Ee.
      eexists _, _, _. split; [reflexivity|]. left. split; [exact Hp|]. intros e _ _. exact Hg.
    + set (szc := if Nat.ltb (c_maxbytes cfg) (r_msgsize s3) && err_eqb (r_bdaterr s3) E0 then _ else (s3, ev3)).
      assert (Hszc : Forall plain (snd szc)).
      { subst szc. destruct (Nat.ltb (c_maxbytes cfg) (r_msgsize s3) && err_eqb (r_bdaterr s3) E0); cbn [snd]; plain_tac. }
      destruct szc as [s4 ev4]. cbn [snd] in Hszc.
      destruct (last && err_eqb (r_bdaterr s4) E0) eqn:Elast.
      * eexists _, _, _. split; [reflexivity|]. right. split; [reflexivity|]. eexists _, _. split; [reflexivity|exact Hszc].
      * destruct (err_eqb (r_bdaterr s4) E0) eqn:Eerr; cbn [negb].
        -- eexists _, _, _. split; [reflexivity|]. left. split; [plain_tac|]. intros e He Hne. congruence.
        -- destruct (r_qhdr s4); eexists _, _, _; (split; [reflexivity|]); left; (split; [plain_tac|]); intros e _ _; reflexivity.
  - destruct (err_write_props e s2 (ev1 ++ x) Hev2) as (rc & s' & x' & Ee & Hg & Hp & _). rewrite Ee.
    eexists _, _, _. split; [reflexivity|]. left. split; [exact Hp|]. intros e' _ _. exact Hg.
  - eexists _, _, _. split; [reflexivity|]. left. split; [exact Hev2|]. intros e' He. discriminate.
Qed.

(** * a sequence of commands: failure is final *)
Lemma naf_plain : forall x f b, Forall plain x -> no_env_after_fail f (x ++ b) = no_env_after_fail f b.
Proof.
  induction x as [|e x IH]; intros f b H; [reflexivity|].
  inversion H as [|? ? He Hx]; subst. cbn [app no_env_after_fail].
  destruct e; cbn in He; try contradiction; cbn [is_env is_fail]; rewrite ?andb_false_r, ?orb_false_r; cbn [negb andb];
    apply IH; exact Hx.
Qed.

Lemma naf_noenv : forall x f, existsb is_env x = false -> no_env_after_fail f x = true.
Proof.
  induction x as [|e x IH]; intros f H; [reflexivity|].
  cbn [existsb] in H. apply orb_false_iff in H as [He Hx].
  cbn [no_env_after_fail]. rewrite He, andb_false_r. cbn [negb andb]. apply IH. exact Hx.
Qed.

Lemma noenv_app a b : existsb is_env (a ++ b) = false <-> existsb is_env a = false /\ existsb is_env b = false.
Proof. rewrite existsb_app. apply orb_false_iff. Qed.

Lemma prebuffer_pres pre n : avail (prebuffer pre n) = avail n /\ n_rfail (prebuffer pre n) = n_rfail n.
Proof.
  unfold prebuffer, avail. destruct (Nat.eqb_spec (length (n_ln n)) 0) as [E|E]; cbn [andb]; [|split; reflexivity].
  destruct (negb (Nat.eqb pre 0)); [|split; reflexivity]. cbn [n_ln n_stream n_rfail].
  destruct (n_ln n); [|cbn in E; lia]. cbn [app]. split; [apply firstn_skipn|reflexivity].
Qed.

Definition run_post (s : rxst) (evs : list ev) (res : Cres (bool * rxst * list ev)) : Prop :=
  exists died s' x, res = Ok (died, s', evs ++ x)
    /\ no_env_after_fail false x = true
    /\ (r_goodrcpt s = false -> existsb is_env x = false).

Lemma run_step cfg size last s0 rest evs : cfg_ok cfg ->
  (forall s evs, run_post s evs (run_cmds cfg rest s evs)) ->
  run_post s0 evs
    (do r <- smtp_bdat cfg size last s0;
     let '(rc, s1, e1) := r in
     match rc with
     | None => Ok (true, s1, evs ++ e1)
     | Some e => run_cmds cfg rest s1 (evs ++ e1 ++ [EvRc e])
     end).
Proof.
  intros Hcfg IH. destruct (r_goodrcpt s0) eqn:Egr.
  - destruct (smtp_bdat_gen cfg size last s0 Hcfg) as (rc & s1 & e1 & E & Hcase). rewrite E. cbn [bind].
    destruct rc as [e|].
    + destruct (IH s1 (evs ++ e1 ++ [EvRc e])) as (died & s' & x & E' & Hnaf & Hdead).
      exists died, s', (e1 ++ [EvRc e] ++ x). split; [rewrite E', <- !app_assoc; reflexivity|].
      split; [|intros Hd; congruence].
      destruct Hcase as [(Hpl & Hfail)|(He & x0 & n & -> & Hpl)].
      * rewrite naf_plain by exact Hpl. cbn [app no_env_after_fail is_env andb negb orb].
        destruct e; cbn [is_fail]; try exact Hnaf;
          apply naf_noenv, Hdead, (Hfail _ eq_refl); discriminate.
      * injection He as ->. rewrite <- app_assoc, naf_plain by exact Hpl.
        cbn [app no_env_after_fail is_env is_fail andb negb orb]. exact Hnaf.
    + exists true, s1, e1. split; [reflexivity|].
      destruct Hcase as [(Hpl & _)|(Hx & _)]; [|discriminate].
      split; [|intros _; apply plain_noenv; exact Hpl].
      rewrite <- (app_nil_r e1), naf_plain by exact Hpl. reflexivity.
  - rewrite (smtp_bdat_dead cfg size last s0 Egr). cbn [bind].
    destruct (IH s0 (evs ++ [EvTarpit; EvReply 554] ++ [EvRc EDONE])) as (died & s' & x & E' & Hnaf & Hdead).
    exists died, s', ([EvTarpit; EvReply 554] ++ [EvRc EDONE] ++ x). split; [rewrite E', <- !app_assoc; reflexivity|].
    specialize (Hdead Egr).
    split; [|intros _; exact Hdead].
    cbn [app no_env_after_fail is_env is_fail andb negb orb]. apply naf_noenv. exact Hdead.
Qed.

Theorem run_cmds_gen cfg : cfg_ok cfg -> forall cmds s evs, run_post s evs (run_cmds cfg cmds s evs).
Proof.
  intros Hcfg. induction cmds as [|[[size last] pre] rest IH]; intros s evs.
  { exists false, s, []. rewrite app_nil_r. repeat split. }
  cbn [run_cmds]. set (s0 := set_net s (prebuffer pre (r_net s))).
  assert (Hg0 : r_goodrcpt s0 = r_goodrcpt s) by reflexivity.
  assert (Hstep := run_step cfg (N.of_nat size) last s0 rest evs Hcfg IH).
  destruct (r_com s0) eqn:Ecom.
  - destruct Hstep as (died & s' & x & E & Hnaf & Hdead). exists died, s', x. rewrite Hg0 in Hdead. auto.
  - destruct Hstep as (died & s' & x & E & Hnaf & Hdead). exists died, s', x. rewrite Hg0 in Hdead. auto.
  - (* the transaction is over: the dispatcher refuses BDAT *)
    destruct (IH s0 (evs ++ [Ev503])) as (died & s' & x & E' & Hnaf & Hdead).
    exists died, s', ([Ev503] ++ x). split; [rewrite E', <- app_assoc; reflexivity|].
    split; [exact Hnaf|]. intros Hd. cbn [app existsb is_env orb]. apply Hdead. congruence.
Qed.

(** * a transaction without injected faults *)
(** the version of smtp_bdat is the one of this run's C source *)
Definition cfg_clean (cfg : rxcfg) : Prop := cfg_ok cfg /\ c_fix cfg = RX_CR_AFTER_LOOP.

Definition lc0 (com : comst) (lc : bool) : bool := match com with CsBdat => lc | _ => false end.
Definition ms0 (com : comst) (ms : nat) : nat := match com with CsBdat => ms | _ => 0 end.
Definition init_evs (com : comst) : list ev := match com with CsBdat => [] | _ => [EvInit; EvHdr] end.
(** a transaction is starting and queue_init will work, or it is running without error so far;
    nothing else of the state left by earlier transactions matters *)
Definition tx_state (com : comst) (be : err) (qd qh : bool) : Prop :=
  com = CsRcpt false \/ (com = CsBdat /\ qd = true /\ qh = true /\ be = E0).

Ltac rsimpl := cbn [r_com r_lastcr r_bdaterr r_msgsize r_goodrcpt r_qdata r_qhdr r_wcount r_net err_eqb andb negb bind].

Lemma smtp_bdat_clean cfg size last com lc be ms qd qh wc net :
  cfg_clean cfg -> wf_clean cfg wc -> tx_state com be qd qh ->
  n_rfail net = None -> size <= length (avail net) -> ms0 com ms + size <= c_maxbytes cfg ->
  let D := firstn size (avail net) in
  exists wc' net' x,
    smtp_bdat cfg (N.of_nat size) last (mk_rx com lc be ms true qd qh wc net)
    = Ok (Some E0,
          (if last then mk_rx CsHelo false E0 (ms0 com ms + size) false false false wc' net'
           else mk_rx CsBdat (endcr (lc0 com lc) D) E0 (ms0 com ms + size) true true true wc' net'),
          x ++ (if last then [EvEnv (ms0 com ms + size); EvFree; EvReply 250] else [EvReply 250]))
    /\ Forall plain x
    /\ queued x = conv (lc0 com lc) D ++ (if last then pend (endcr (lc0 com lc) D) else [])
    /\ avail net' = skipn size (avail net) /\ n_rfail net' = None /\ wc <= wc'.
Proof.
  intros (Hcfg & Hfix) Hw Hst Hrf Hav Hmax D.
  change RX_CR_AFTER_LOOP with true in Hfix.   (* the theorem is about the repaired code *)
  unfold smtp_bdat. cbn [r_goodrcpt negb r_com].
  assert (Hinit : bdat_init (mk_rx com lc be ms true qd qh wc net)
                  = (mk_rx CsBdat (lc0 com lc) E0 (ms0 com ms) true true true wc net, init_evs com)).
  { destruct Hst as [->|(-> & -> & -> & ->)]; reflexivity. }
  rewrite Hinit. unfold bdat_rest.
  cbn [r_goodrcpt r_qdata r_qhdr r_wcount r_net] in *.
  destruct (chunk_loop_clean cfg last Hcfg Hfix (S (length (n_ln net) + length (n_stream net))) size CsBdat (lc0 com lc)
              (ms0 com ms) true wc net (init_evs com)
              ltac:(unfold avail; rewrite app_length; lia) Hw Hrf Hav) as (wc1 & net1 & x & E & Hoq & Hqd & Hav1 & Hrf1 & Hwc1).
  rewrite E. cbn [bind]. fold D in E, Hqd |- *. rewrite Hfix.
  cbn [r_lastcr r_bdaterr err_eqb andb r_msgsize r_com r_goodrcpt r_qdata r_qhdr r_wcount r_net].
  assert (Hplx : Forall plain (init_evs com ++ x)).
  { apply Forall_app; split; [destruct com; cbn; repeat constructor|apply only_q_plain; exact Hoq]. }
  assert (Hqi' : queued (init_evs com ++ x) = conv (lc0 com lc) D).
  { rewrite queued_app, Hqd. destruct com; reflexivity. }
  assert (Hsz : Nat.ltb (c_maxbytes cfg) (ms0 com ms + size) = false) by (apply Nat.ltb_ge; lia).
  destruct last; cbn [andb].
  - destruct (endcr (lc0 com lc) D) eqn:Eend; cbn [andb].
    + (* a CR is held back at the very end: it is written now *)
      rewrite q_write_clean by (eapply wf_clean_mono; [exact Hw|exact Hwc1]). rsimpl.
      rewrite Hsz. rsimpl.
      exists (S wc1), net1, ((init_evs com ++ x) ++ [EvQ [CR]]). split; [reflexivity|].
      split; [apply Forall_app; split; [exact Hplx|repeat constructor]|].
      split; [rewrite queued_app, Hqi'; reflexivity|]. repeat split; try assumption. lia.
    + rsimpl. rewrite Hsz. rsimpl.
      exists wc1, net1, (init_evs com ++ x). split; [reflexivity|].
      split; [exact Hplx|]. split; [rewrite Hqi', app_nil_r; reflexivity|]. repeat split; assumption.
  - rsimpl. rewrite Hsz. rsimpl.
    exists wc1, net1, (init_evs com ++ x). split; [reflexivity|].
    split; [exact Hplx|]. split; [rewrite Hqi', app_nil_r; reflexivity|]. repeat split; assumption.
Qed.

Lemma total_app a b : total (a ++ b) = total a + total b.
Proof. unfold total. induction a as [|c a IH]; [reflexivity|]. cbn [app fold_right]. rewrite IH. lia. Qed.

Lemma existsb_plain_env x : Forall plain x -> existsb is_env x = false.
Proof. intros H. apply plain_noenv. exact H. Qed.
Lemma existsb_plain_fail x : Forall plain x -> existsb is_fail x = false.
Proof. intros H. apply plain_noenv. exact H. Qed.

Lemma run_cmds_clean cfg : cfg_clean cfg -> forall mids sz pre com lc be ms qd qh wc net evs,
  forallb (fun c => negb (snd (fst c))) mids = true ->
  wf_clean cfg wc -> tx_state com be qd qh -> n_rfail net = None ->
  total mids + sz <= length (avail net) -> ms0 com ms + (total mids + sz) <= c_maxbytes cfg ->
  let tot := total mids + sz in
  let D := firstn tot (avail net) in
  exists s' x,
    run_cmds cfg (mids ++ [(sz, true, pre)]) (mk_rx com lc be ms true qd qh wc net) evs
    = Ok (false, s', evs ++ x ++ [EvEnv (ms0 com ms + tot); EvFree; EvReply 250; EvRc E0])
    /\ existsb is_env x = false /\ existsb is_fail x = false
    /\ queued x = conv (lc0 com lc) D ++ pend (endcr (lc0 com lc) D)
    /\ avail (r_net s') = skipn tot (avail net)
    /\ r_com s' = CsHelo /\ n_rfail (r_net s') = None /\ wc <= r_wcount s'.
Proof.
  intros Hclean. induction mids as [|[[s1 l1] p1] mids IH];
    intros sz pre com lc be ms qd qh wc net evs Hmids Hw Hst Hrf Hav Hmax tot D.
  - (* the LAST command *)
    destruct (prebuffer_pres pre net) as (Hpa & Hpr).
    cbn [total fold_right Nat.add] in *. subst tot D. cbn [Nat.add].
    destruct (smtp_bdat_clean cfg sz true com lc be ms qd qh wc (prebuffer pre net) Hclean Hw Hst
                ltac:(congruence) ltac:(rewrite Hpa; exact Hav) Hmax) as (wc' & net' & x & E & Hpl & Hqd & Hav' & Hrf' & Hwc).
    rewrite Hpa in *.
    assert (Erun : run_cmds cfg [(sz, true, pre)] (mk_rx com lc be ms true qd qh wc net) evs
                   = (do r <- smtp_bdat cfg (N.of_nat sz) true (mk_rx com lc be ms true qd qh wc (prebuffer pre net));
                      let '(rc, s1, e1) := r in
                      match rc with None => Ok (true, s1, evs ++ e1) | Some e => run_cmds cfg [] s1 (evs ++ e1 ++ [EvRc e]) end)).
    { cbn [run_cmds]. unfold set_net. rsimpl. destruct Hst as [->|(-> & _)]; reflexivity. }
    cbn [app]. rewrite Erun, E. cbn [bind run_cmds].
    eexists _, x. split; [rewrite <- !app_assoc; reflexivity|].
    split; [apply existsb_plain_env; exact Hpl|]. split; [apply existsb_plain_fail; exact Hpl|].
    split; [exact Hqd|]. split; [exact Hav'|]. cbn [r_com r_net r_wcount]. repeat split; assumption.
  - cbn [forallb fst snd] in Hmids. apply andb_true_iff in Hmids as [Hl1 Hmids]. apply negb_true_iff in Hl1. subst l1.
    destruct (prebuffer_pres p1 net) as (Hpa & Hpr).
    assert (Htot : total ((s1, false, p1) :: mids) = s1 + total mids) by reflexivity.
    subst tot D. rewrite Htot in *.
    destruct (smtp_bdat_clean cfg s1 false com lc be ms qd qh wc (prebuffer p1 net) Hclean Hw Hst
                ltac:(congruence) ltac:(rewrite Hpa; lia) ltac:(lia)) as (wc' & net' & x & E & Hpl & Hqd & Hav' & Hrf' & Hwc).
    rewrite Hpa in *.
    assert (Erun : run_cmds cfg (((s1, false, p1) :: mids) ++ [(sz, true, pre)]) (mk_rx com lc be ms true qd qh wc net) evs
                   = (do r <- smtp_bdat cfg (N.of_nat s1) false (mk_rx com lc be ms true qd qh wc (prebuffer p1 net));
                      let '(rc, s1', e1) := r in
                      match rc with None => Ok (true, s1', evs ++ e1)
                               | Some e => run_cmds cfg (mids ++ [(sz, true, pre)]) s1' (evs ++ e1 ++ [EvRc e]) end)).
    { cbn [app run_cmds]. unfold set_net. rsimpl. destruct Hst as [->|(-> & _)]; reflexivity. }
    rewrite Erun, E. cbn [bind].
    set (D1 := firstn s1 (avail net)) in *.
    assert (Hav1 : total mids + sz <= length (avail net')) by (rewrite Hav', skipn_length; lia).
    destruct (IH sz pre CsBdat (endcr (lc0 com lc) D1) E0 (ms0 com ms + s1) true true wc' net'
                (evs ++ (x ++ [EvReply 250]) ++ [EvRc E0]) Hmids ltac:(eapply wf_clean_mono; eauto)
                ltac:(right; auto) Hrf' Hav1
                ltac:(cbn [ms0]; lia)) as (s' & x' & E' & Hne' & Hnf' & Hq' & Hav'' & Hcom' & Hrf'' & Hwc').
    rewrite E'. cbn [ms0 lc0] in *.
    exists s', ((x ++ [EvReply 250]) ++ [EvRc E0] ++ x'). split.
    { rewrite <- !app_assoc. cbn [app]. replace (ms0 com ms + s1 + (total mids + sz)) with (ms0 com ms + (s1 + total mids + sz)) by lia.
      reflexivity. }
    assert (HD : firstn (s1 + total mids + sz) (avail net) = D1 ++ firstn (total mids + sz) (avail net')).
    { subst D1. rewrite Hav'. replace (s1 + total mids + sz) with (s1 + (total mids + sz)) by lia.
      apply firstn_add'. }
    split; [rewrite !existsb_app, Hne', (existsb_plain_env _ Hpl); reflexivity|].
    split; [rewrite !existsb_app, Hnf', (existsb_plain_fail _ Hpl); reflexivity|].
    split.
    + rewrite !queued_app, Hqd, Hq', app_nil_r. cbn [queued app].
      rewrite HD, conv_app, endcr_app. cbn [app]. rewrite <- !app_assoc. reflexivity.
    + split; [rewrite Hav'', Hav'; rewrite skipn_skipn'; f_equal; lia|].
      repeat split; try assumption. lia.
Qed.

(** the whole session of the harness: one transaction, no injected faults *)
Theorem rx_transaction_ok cfg cmds stream cuts :
  cfg_clean cfg -> c_wfail cfg = None -> one_transaction cmds ->
  total cmds <= length stream -> total cmds <= c_maxbytes cfg ->
  exists s evs, rx_session cfg false cmds stream cuts None = Ok (false, s, evs)
    /\ rx_delivered (firstn (total cmds) stream) evs
    /\ avail (r_net s) = skipn (total cmds) stream.
Proof.
  intros Hclean Hwf (Hne & Hmids & Hlast) Hlen Hmax.
  pose proof (app_removelast_last (0, false, 0) Hne) as Hsplit.
  remember (removelast cmds) as mids eqn:Em. remember (last cmds (0, false, 0)) as lastc eqn:El.
  destruct lastc as [[sz l] pre]. cbn [fst snd] in Hlast. subst l.
  clear Em El Hne. subst cmds.
  rewrite total_app in *. cbn [total fold_right] in Hlen, Hmax |- *. rewrite Nat.add_0_r in *.
  unfold rx_session, rx_init.
  destruct (run_cmds_clean cfg Hclean mids sz pre (CsRcpt false) false E0 0 false false 0 (mk_net [] stream cuts None) []
              Hmids ltac:(unfold wf_clean; rewrite Hwf; exact I) ltac:(left; reflexivity) eq_refl Hlen Hmax)
    as (s' & x & E & Hne' & Hnf' & Hq' & Hav' & _).
  cbn [avail n_ln n_stream app ms0 lc0 Nat.add] in *.
  exists s', (x ++ [EvEnv (total mids + sz); EvFree; EvReply 250; EvRc E0]). split; [exact E|].
  split; [|exact Hav'].
  exists x. rewrite firstn_length, Nat.min_l by exact Hlen.
  split; [reflexivity|]. split; [exact Hne'|]. split; [exact Hnf'|].
  rewrite Hq', crlf2lf_is_conv. reflexivity.
Qed.

(** any commands, any data, any read sizes, any injected fault: no crash, and a failed
    command is never followed by an envelope *)
Theorem rx_session_fail_final cfg qf cmds stream cuts rfail : cfg_ok cfg ->
  exists died s evs, rx_session cfg qf cmds stream cuts rfail = Ok (died, s, evs)
    /\ no_env_after_fail false evs = true.
Proof.
  intros Hcfg. destruct (run_cmds_gen cfg Hcfg cmds (rx_init qf stream cuts rfail) []) as (died & s & x & E & Hnaf & _).
  exists died, s, x. split; [exact E|exact Hnaf].
Qed.

(** what a delivered transaction put into the queue *)
Lemma rx_delivered_queued data evs : rx_delivered data evs -> queued evs = crlf2lf data.
Proof. intros (pre & -> & _ & _ & Hq). rewrite queued_app, Hq. cbn. apply app_nil_r. Qed.

(** F-C19-2: the unrepaired smtp_bdat ([c_fix = false]) loses a CR at the very end of the data when
    the LAST chunk is empty: "BDAT 2" a CR, "BDAT 0 LAST" queues only a *)
Theorem rx_unrepaired_refuted :
  let cfg := mk_cfg None 100 1024 false in
  exists s evs, rx_session cfg false [(2, false, 0); (0, true, 0)] [97; 13]%N [] None = Ok (false, s, evs)
    /\ ~ rx_delivered [97; 13]%N evs.
Proof.
  eexists _, _. split; [vm_compute; reflexivity|].
  intros H. apply rx_delivered_queued in H. vm_compute in H. discriminate.
Qed.

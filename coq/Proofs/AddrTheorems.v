(** C14: the statements of Props/Properties_C14.v assembled from the per-function results. *)
From Qv Require Import Common.Bytes Gen.GenAddr Model.InetPton Model.Addr Spec.AddrSpec
  Proofs.AddrTables Proofs.CStrLemmas Proofs.DomainProofs Proofs.LocalProofs Proofs.ParseaddrProofs
  Proofs.XtextProofs Proofs.AddrsyntaxProofs Proofs.AddrWrites.

Local Arguments N.eqb : simpl never.

(* ------------------------------------------------------------------ 1  domain *)

Theorem thm_domain h rest : ~ In 0%N h -> domainvalid (h ++ 0%N :: rest) = Ok 0 -> fqdn h.
Proof. exact (domainvalid_sound h rest). Qed.

Theorem thm_domain_exact h rest : ~ In 0%N h ->
  (domainvalid (h ++ 0%N :: rest) = Ok 0 <-> fqdn_strict h)
  /\ (domainvalid (h ++ 0%N :: rest) = Ok 0 \/ domainvalid (h ++ 0%N :: rest) = Ok 1)
  /\ (fqdn_strict h -> fqdn h).
Proof.
  intros H. split; [exact (domainvalid_iff h rest H)|]. split; [exact (domainvalid_01 h rest H)|exact (fqdn_strict_fqdn h)].
Qed.

(* ------------------------------------------------------------------ 2  local part *)

Theorem thm_local p n : parselocalpart p = Ok n -> (0 <= n)%Z ->
  let k := Z.to_nat n in
  let lp := firstn k p in
  k < length p /\ lweak lp /\ Forall clean7 lp /\ ~ In cAT lp
  /\ (nth k p 1%N = 0%N \/ nth k p 1%N = cAT).
Proof.
  intros H Hn. destruct (parselocalpart_sound p n H Hn) as (Hk & Hw & [Hc1 Hc2] & Hend). cbn zeta.
  split; [exact Hk|]. split; [exact Hw|]. split; [now apply lweak_clean|]. split; [exact Hc2|exact Hend].
Qed.

Definition local_full : Prop :=
  forall p n, parselocalpart p = Ok n -> (0 < n)%Z -> local_rfc (firstn (Z.to_nat n) p).

Definition witness_dots : bytes := [97; 46; 46; 98; 64; 0]%N.       (* a..b@ *)

Theorem thm_local_refuted : ~ local_full.
Proof.
  intros H. specialize (H witness_dots 4%Z eq_refl eq_refl).
  change (firstn (Z.to_nat 4) witness_dots) with [97; 46; 46; 98]%N in H.
  apply (local_class_exact [97; 46; 46; 98]%N) in H; [discriminate| |discriminate].
  apply lweak_b_ok. reflexivity.
Qed.

Theorem thm_local_partial p n : parselocalpart p = Ok n -> (0 < n)%Z ->
  let lp := firstn (Z.to_nat n) p in
  (local_class lp = false <-> local_rfc lp).
Proof.
  intros H Hn. cbn zeta.
  destruct (parselocalpart_sound p n H ltac:(lia)) as (Hk & Hw & _ & _). cbn zeta in *.
  apply local_class_exact; [exact Hw|].
  intros E. apply (f_equal (@length _)) in E. rewrite firstn_length in E. simpl in E. lia.
Qed.

(* ------------------------------------------------------------------ 3  parseaddr / addrsyntax / addrparse, 4 xtext *)

Theorem thm_parseaddr pton4 pton6 s rest rc : ~ In 0%N s ->
  parseaddr pton4 pton6 (s ++ 0%N :: rest) = Ok rc ->
  rc <= 4 /\ parseaddr_post pton4 pton6 s rc.
Proof. exact (parseaddr_rc pton4 pton6 s rest rc). Qed.

Theorem thm_addrsyntax pton4 pton6 s rest flags : ~ In 0%N s ->
  exists r, addrsyntax pton4 pton6 (s ++ 0%N :: rest) flags = Ok r
    /\ addrsyntax_post pton4 pton6 s flags (as_rc r) (as_addr r) (as_more r)
    /\ length (as_mem r) = length (s ++ 0%N :: rest).
Proof. exact (addrsyntax_spec pton4 pton6 s rest flags). Qed.

Theorem thm_addrparse pton4 pton6 s rest flags : ~ In 0%N s ->
  exists o, addrparse_syntax pton4 pton6 (s ++ 0%N :: rest) flags = Ok o /\ addrparse_post pton4 pton6 s flags o.
Proof. exact (addrparse_spec pton4 pton6 s rest flags). Qed.

Theorem thm_xtext pton4 pton6 s rest : ~ In 0%N s ->
  exists n, xtextlen pton4 pton6 (s ++ 0%N :: rest) = Ok n /\
  ((n = -1)%Z \/
   exists x tail d, s = x ++ tail /\ n = Z.of_nat (length x) /\ (tail = [] \/ hd 0%N tail = SP)
     /\ xdecode x = Some d /\ ~ In 0%N d /\ xtext_value pton4 pton6 d).
Proof. exact (xtextlen_spec pton4 pton6 s rest). Qed.

(* ------------------------------------------------------------------ safety *)

(** no function reads past the first NUL of its argument or writes outside the buffer:
    on any buffer that contains a NUL every model returns [Ok] (never [Crash], never out of fuel) *)
Theorem thm_safe pton4 pton6 p flags : In 0%N p ->
  is_ok (domainvalid p) = true /\ is_ok (parselocalpart p) = true
  /\ is_ok (parseaddr pton4 pton6 p) = true /\ is_ok (checkaddr pton4 pton6 p) = true
  /\ is_ok (addrspec_valid pton4 pton6 p) = true
  /\ is_ok (addrsyntax pton4 pton6 p flags) = true /\ is_ok (xtextlen pton4 pton6 p) = true
  /\ is_ok (addrparse_syntax pton4 pton6 p flags) = true.
Proof.
  intros Hin. destruct (first_nul p Hin) as (s & rest & -> & Hs).
  destruct (parseaddr_spec pton4 pton6 s rest Hs) as (rc & Hrc & _).
  split; [rewrite (domainvalid_exact s rest Hs); reflexivity|].
  split; [destruct (parselocalpart_total (s ++ NUL :: rest) Hin) as [n ->]; reflexivity|].
  split; [rewrite Hrc; reflexivity|].
  split; [unfold checkaddr; rewrite Hrc; reflexivity|].
  split; [unfold addrspec_valid; rewrite Hrc; reflexivity|].
  split; [destruct (addrsyntax_spec pton4 pton6 s rest flags Hs) as (r & -> & _); reflexivity|].
  split; [destruct (xtextlen_spec pton4 pton6 s rest Hs) as (n & -> & _); reflexivity|].
  destruct (addrparse_spec pton4 pton6 s rest flags Hs) as (o & -> & _); reflexivity.
Qed.

Theorem thm_writes pton4 pton6 mem0 flags r :
  addrsyntax pton4 pton6 mem0 flags = Ok r -> nulw mem0 (as_mem r) /\ length (as_mem r) = length mem0.
Proof. exact (addrsyntax_nulw pton4 pton6 mem0 flags r). Qed.

(* ------------------------------------------------------------------ the oracle contract and what follows from it *)

Definition oracle_clean (pton : bytes -> bool) : Prop := forall s, pton s = true -> Forall clean7 s.

Lemma pton4_loop_chars s : forall cur sd oc, pton4_loop s cur sd oc = true ->
  Forall (fun c => is_digit c = true \/ c = DOT) s.
Proof.
  induction s as [|ch s IH]; intros cur sd oc H; [constructor|].
  cbn [pton4_loop] in H.
  destruct (is_digit ch) eqn:Ed.
  - constructor; [now left|].
    destruct (sd && N.eqb cur 0); [discriminate|].
    destruct (N.ltb 255 (cur * 10 + (ch - 48))); [discriminate|].
    destruct sd; [eapply IH; eassumption|].
    destruct (Nat.ltb 4 (S oc)); [discriminate|eapply IH; eassumption].
  - destruct (N.eqb_spec ch DOT) as [->|]; cbn [andb] in H; [|discriminate].
    destruct sd; [|discriminate]. cbn [andb] in H.
    constructor; [now right|]. destruct (Nat.eqb oc 4); [discriminate|eapply IH; eassumption].
Qed.

Lemma digit_clean c : is_digit c = true \/ c = DOT -> clean7 c.
Proof.
  intros [H| ->]; [|apply clean7_special].
  unfold is_digit in H. apply andb_true_iff in H as [H1 H2]. apply N.leb_le in H1, H2.
  unfold clean7, CR, LF. repeat split; lia.
Qed.

Lemma ip6char_clean c : ip6char c = true -> clean7 c.
Proof.
  intros H. apply clean7_b_ok. revert c H. apply byte_pred_impl; [|vm_compute; reflexivity].
  intros c H. unfold ip6char, hexval, is_digit in H.
  destruct (N.leb_spec 48 c); destruct (N.leb_spec c 57); cbn [andb] in H; try lia;
  destruct (N.leb_spec 97 c); destruct (N.leb_spec c 102); cbn [andb] in H; try lia;
  destruct (N.leb_spec 65 c); destruct (N.leb_spec c 70); cbn [andb] in H; try lia;
  apply orb_true_iff in H as [H|H]; apply N.eqb_eq in H; unfold DOT in *; lia.
Qed.

(** the reference implementations satisfy the contract *)
Theorem pton_ref_clean : oracle_clean pton4_ref /\ oracle_clean pton6_ref.
Proof.
  split; intros s H.
  - apply pton4_loop_chars in H. eapply Forall_impl; [|exact H]. exact digit_clean.
  - unfold pton6_ref in H. apply andb_true_iff in H as [H _]. rewrite forallb_forall in H.
    apply Forall_forall. intros c Hc. apply ip6char_clean. auto.
Qed.

Lemma ldh_clean c : ldh c = true -> clean7 c.
Proof.
  intros H. apply clean7_b_ok. revert c H. apply byte_pred_impl; [|vm_compute; reflexivity].
  unfold ldh, is_alpha, is_upper, is_lower, is_digit, DASH. lo_true.
Qed.

Lemma join_dots_clean ls : Forall (fun l => Forall clean7 l) ls -> Forall clean7 (join_dots ls).
Proof.
  induction ls as [|l ls IH]; intros H; [constructor|].
  inversion H as [|? ? Hl Hls]; subst. destruct ls as [|l2 ls]; [exact Hl|].
  rewrite join_dots_cons2. apply Forall_app. split; [exact Hl|].
  constructor; [apply clean7_special|]. apply IH. exact Hls.
Qed.

Lemma fqdn_clean d : fqdn d -> Forall clean7 d.
Proof.
  intros (ls & -> & _ & Hlab & _). apply join_dots_clean.
  eapply Forall_impl; [|exact Hlab]. intros l [_ Hc]. eapply Forall_impl; [|exact Hc]. exact ldh_clean.
Qed.

Section Clean.
Variable pton4 pton6 : bytes -> bool.

Lemma mailbox_clean rc a : oracle_clean pton4 -> oracle_clean pton6 ->
  mailbox pton4 pton6 lweak rc a -> Forall clean7 a.
Proof.
  intros H4 H6 (lp & dom & -> & _ & _ & Hw & Hdom).
  assert (Cat : clean7 cAT) by (unfold clean7, cAT, CR, LF; repeat split; lia).
  assert (Clbr : clean7 cLBR) by (unfold clean7, cLBR, CR, LF; repeat split; lia).
  assert (Crbr : clean7 cRBR) by (unfold clean7, cRBR, CR, LF; repeat split; lia).
  apply Forall_app. split; [now apply lweak_clean|]. constructor; [exact Cat|].
  destruct Hdom as [[_ Hd]|[_ (lit & -> & _ & Hlit)]]; [now apply fqdn_clean|].
  constructor; [exact Clbr|]. apply Forall_app. split; [|constructor; [exact Crbr|constructor]].
  destruct Hlit as [[Hp _]|(l6 & -> & Hp & _)]; [now apply H4|].
  apply Forall_app. split; [|now apply H6].
  unfold TAG6. repeat constructor; unfold CR, LF; lia.
Qed.

Lemma to_lower_clean c : clean7 c -> clean7 (to_lower c).
Proof.
  unfold clean7, to_lower, is_upper, CR, LF. intros (H1 & H2 & H3 & H4).
  destruct (N.leb_spec 65 c); destruct (N.leb_spec c 90); cbn [andb]; repeat split; lia.
Qed.

(** with an oracle that accepts only clean strings, every address addrsyntax()/addrparse() hands back is
    7-bit and free of NUL, CR and LF (what C10 assumes of addresses embedded in replies) *)
Theorem thm_addr_clean s rest flags : oracle_clean pton4 -> oracle_clean pton6 -> ~ In 0%N s ->
  forall r, addrsyntax pton4 pton6 (s ++ 0%N :: rest) flags = Ok r ->
  forall ad, as_addr r = Some ad -> as_rc r <> 0%Z -> Forall clean7 ad.
Proof.
  intros H4 H6 Hs r Hr ad Had Hrc.
  destruct (addrsyntax_spec pton4 pton6 s rest flags Hs) as (r' & Hr' & Hpost & _).
  unfold NUL in Hr'. rewrite Hr in Hr'. inversion Hr'; subst r'. clear Hr'.
  destruct Hpost as [H0|(rt & a & post & _ & _ & _ & Haddr & _ & Hcases)]; [contradiction|].
  rewrite Had in Haddr. inversion Haddr; subst ad. clear Haddr.
  assert (Hmb : forall rc, mailbox pton4 pton6 lweak rc a -> Forall clean7 (map to_lower a)).
  { intros rc Hm. apply (mailbox_clean rc a H4 H6) in Hm. rewrite Forall_forall in *.
    intros c Hc. apply in_map_iff in Hc as (c0 & <- & Hc0). apply to_lower_clean. auto. }
  destruct Hcases as [(_ & [[_ ->]|[_ ->]])|[(_ & Hm)|(_ & Hm)]]; eauto.
  - constructor.
  - unfold POSTMASTER. repeat constructor; unfold CR, LF; lia.
Qed.
End Clean.

Theorem thm_oracle_ref :
  oracle_clean pton4_ref /\ oracle_clean pton6_ref /\
  forall s rest flags r ad, ~ In 0%N s ->
    addrsyntax pton4_ref pton6_ref (s ++ 0%N :: rest) flags = Ok r -> as_addr r = Some ad -> as_rc r <> 0%Z ->
    Forall clean7 ad.
Proof.
  destruct pton_ref_clean as [H4 H6]. split; [exact H4|]. split; [exact H6|].
  intros s rest flags r ad Hs Hr Had Hrc. exact (thm_addr_clean _ _ s rest flags H4 H6 Hs r Hr ad Had Hrc).
Qed.

Theorem thm_char_sign :
  DV_CHAR_OK_ALT = DV_CHAR_OK /\ DV_LAST_OK_ALT = DV_LAST_OK /\ LP_UNQ_OK_ALT = LP_UNQ_OK
  /\ LP_Q_OK_ALT = LP_Q_OK /\ LP_ESC_OK_ALT = LP_ESC_OK
  /\ XT_RANGE_OK_ALT = XT_RANGE_OK /\ XT_HEX_OK_ALT = XT_HEX_OK /\ XT_PLAIN_OK_ALT = XT_PLAIN_OK.
Proof. exact tables_sign_independent. Qed.

(** find_boundary() and skip_tpad() against their data-level descriptions in Spec/MultipartSpec.v:
    find_boundary reports the FIRST delimiter of the window (or 0), skip_tpad skips exactly the padding
    and the line end behind it. *)
From Qv Require Import Common.Bytes Gen.GenQrdata Model.Mime Model.QrData Proofs.QrMemLemmas
  Spec.SmtpDataSpec Spec.DeliverSpec Spec.MultipartSpec Proofs.MimeTotalProofs.
Require Import Lia.

Section Win.
Variable m : bytes.
Variables buf len : nat.
Variable Hw : buf + len <= length m.
Let u := sub m buf len.
Let u_len : length u = len.
Proof. apply sub_length. exact Hw. Qed.
Let rdu i : i < len -> rd m (buf + i) = Ok (nthb u i).
Proof. intros H. rewrite rd_ok by lia. unfold nthb, u. now rewrite nth_sub. Qed.

Lemma cmp_at_spec : forall lit p, p + length lit <= len ->
  cmp_at m (buf + p) lit = Ok (bytes_eqb (sub u p (length lit)) lit).
Proof.
  induction lit as [|x lit IH]; intros p H.
  - cbn [length]. rewrite sub_0. reflexivity.
  - cbn [cmp_at length] in *. rewrite rdu by lia. cbn [bind].
    assert (Hs : sub u p (S (length lit)) = nthb u p :: sub u (S p) (length lit)).
    { unfold sub. rewrite (skipn_nth_cons u p 0%N) by lia. reflexivity. }
    rewrite Hs. cbn [bytes_eqb]. destruct (N.eqb (nthb u p) x); [|reflexivity].
    replace (S (buf + p)) with (buf + S p) by lia. rewrite IH by lia. reflexivity.
Qed.

(* ------------------------------------------------------------------ find_boundary *)
Variable bnd : bytes.
Variable Hbnd : Forall (fun c => eolc c = false) bnd.
Let bl := length bnd.

Definition hitb (pos : nat) : bool :=
  eolc (nthb u pos) && N.eqb (nthb u (pos + 1)) DASH && N.eqb (nthb u (pos + 2)) DASH && bytes_eqb (sub u (pos + 3) bl) bnd.
Definition tailb (p1 : nat) : bool :=
  Nat.eqb p1 len || wsc (nthb u p1)
  || (Nat.ltb (p1 + 1) len && N.eqb (nthb u p1) DASH && N.eqb (nthb u (p1 + 1)) DASH
      && (Nat.eqb (p1 + 2) len || wsc (nthb u (p1 + 2)))).

Lemma delim_at_split q : delim_at bnd u q = Nat.leb (q + 3 + bl) len && hitb q && tailb (q + 3 + bl).
Proof. unfold delim_at, hitb, tailb. fold bl. rewrite u_len. now rewrite !Bool.andb_assoc. Qed.

(** what find_boundary returns *)
Definition fb_res (p : nat) : Prop :=
  (p = 0 /\ forall q, delim_at bnd u q = false) \/
  (exists q, p = q + 3 + bl /\ delim_at bnd u q = true /\ forall q', q' < q -> delim_at bnd u q' = false).

Lemma hit_ok pos : pos + 3 + bl <= len ->
  (if is_eol (nthb u pos) then
     do y <- rd m (buf + pos + 1);
     if N.eqb y DASH then
       do z <- rd m (buf + pos + 2);
       if N.eqb z DASH then cmp_at m (buf + pos + 3) bnd else Ok false
     else Ok false
   else Ok false) = Ok (hitb pos).
Proof.
  intros H. unfold hitb. change (is_eol (nthb u pos)) with (eolc (nthb u pos)).
  destruct (eolc (nthb u pos)); [|reflexivity]. cbn [andb].
  replace (buf + pos + 1) with (buf + (pos + 1)) by lia. rewrite rdu by lia. cbn [bind].
  destruct (N.eqb (nthb u (pos + 1)) DASH); [|reflexivity]. cbn [andb].
  replace (buf + pos + 2) with (buf + (pos + 2)) by lia. rewrite rdu by lia. cbn [bind].
  destruct (N.eqb (nthb u (pos + 2)) DASH); [|reflexivity]. cbn [andb].
  replace (buf + pos + 3) with (buf + (pos + 3)) by lia. apply cmp_at_spec. unfold bl in H. lia.
Qed.

Lemma tail_ok pos1 : pos1 <= len ->
  (if Nat.eqb pos1 len then Ok (Some pos1) else
   do w <- rd m (buf + pos1);
   if is_ws w then Ok (Some pos1) else
   if Nat.ltb (pos1 + 1) len then
     do w1 <- rd m (buf + pos1 + 1);
     if N.eqb w DASH && N.eqb w1 DASH then
       if Nat.eqb (pos1 + 2) len then Ok (Some pos1)
       else do w2 <- rd m (buf + pos1 + 2); Ok (if is_ws w2 then Some pos1 else None)
     else Ok None
   else Ok None) = Ok (if tailb pos1 then Some pos1 else None).
Proof.
  intros H. unfold tailb. destruct (Nat.eqb_spec pos1 len) as [E|N]; [reflexivity|]. cbn [orb].
  rewrite rdu by lia. cbn [bind]. change (is_ws (nthb u pos1)) with (wsc (nthb u pos1)).
  destruct (wsc (nthb u pos1)); [reflexivity|]. cbn [orb].
  destruct (Nat.ltb_spec (pos1 + 1) len) as [H1|H1]; [|reflexivity]. cbn [andb].
  replace (buf + pos1 + 1) with (buf + (pos1 + 1)) by lia. rewrite rdu by lia. cbn [bind].
  destruct (N.eqb (nthb u pos1) DASH && N.eqb (nthb u (pos1 + 1)) DASH) eqn:Ed.
  - cbn [andb].
    destruct (Nat.eqb_spec (pos1 + 2) len) as [E3|N3]; [reflexivity|]. cbn [orb].
    replace (buf + pos1 + 2) with (buf + (pos1 + 2)) by lia. rewrite rdu by lia. cbn [bind].
    change (is_ws (nthb u (pos1 + 2))) with (wsc (nthb u (pos1 + 2))). destruct (wsc _); reflexivity.
  - reflexivity.
Qed.

Lemma wsc_eolc c : wsc c = false -> eolc c = false.
Proof. unfold wsc, eolc. intros H. apply Bool.orb_false_elim in H as [H HL]. apply Bool.orb_false_elim in H as [_ HC]. now rewrite HC, HL. Qed.

Lemma fb_loop_spec : forall fuel pos, pos <= len -> len - pos < fuel ->
  (forall q, q < pos -> delim_at bnd u q = false) ->
  exists p, fb_loop fuel m buf len bnd pos = Ok p /\ fb_res p.
Proof.
  induction fuel as [|fu IH]; intros pos Hp Hf Hno; [lia|]. cbn [fb_loop]. cbv zeta. fold bl.
  destruct (Nat.leb_spec (pos + 3 + bl) len) as [Hin|Hout].
  - rewrite rdu by lia. cbn [bind]. rewrite (hit_ok pos Hin). cbn [bind].
    assert (Hd : delim_at bnd u pos = hitb pos && tailb (pos + 3 + bl)).
    { rewrite delim_at_split. destruct (Nat.leb_spec (pos + 3 + bl) len); [reflexivity|lia]. }
    destruct (hitb pos) eqn:Eh.
    + rewrite (tail_ok (pos + 3 + bl) Hin). cbn [bind]. cbn [andb] in Hd.
      destruct (tailb (pos + 3 + bl)) eqn:Eht.
      * exists (pos + 3 + bl). split; [reflexivity|]. right. exists pos. auto.
      * assert (Hlt : pos + 3 + bl < len).
        { destruct (Nat.eq_dec (pos + 3 + bl) len) as [E|]; [|lia]. unfold tailb in Eht. apply Nat.eqb_eq in E. rewrite E in Eht. discriminate. }
        assert (Hw1 : eolc (nthb u (pos + 3 + bl)) = false).
        { apply wsc_eolc. unfold tailb in Eht. apply Bool.orb_false_elim in Eht as [Eht _]. apply Bool.orb_false_elim in Eht as [_ Eht]. exact Eht. }
        apply IH; [lia|lia|]. intros q Hq.
        destruct (Nat.lt_ge_cases q pos) as [Hlo|Hhi]; [apply Hno; exact Hlo|].
        destruct (Nat.eq_dec q pos) as [->|Hne]; [exact Hd|].
        (* strictly inside the matched text: no line end there *)
        rewrite delim_at_split. assert (He : eolc (nthb u q) = false).
        { unfold hitb in Eh. apply andb_prop in Eh as [Eh' Eb]. apply andb_prop in Eh' as [Eh' E2]. apply andb_prop in Eh' as [_ E1].
          apply N.eqb_eq in E1, E2.
          destruct (Nat.eq_dec q (pos + 1)) as [->|]; [rewrite E1; reflexivity|].
          destruct (Nat.eq_dec q (pos + 2)) as [->|]; [rewrite E2; reflexivity|].
          destruct (Nat.eq_dec q (pos + 3 + bl)) as [->|]; [exact Hw1|].
          assert (Hb : sub u (pos + 3) bl = bnd).
          { clear - Eb. revert Eb. generalize (sub u (pos + 3) bl). intros l. revert l. induction bnd as [|x r IHr]; intros [|y l] E; cbn in E; try discriminate; [reflexivity|].
            apply andb_prop in E as [E1 E2]. apply N.eqb_eq in E1. subst. f_equal. apply IHr. exact E2. }
          assert (Hn : nthb u q = nth (q - (pos + 3)) bnd 0%N).
          { rewrite <- Hb at 1. unfold nthb. rewrite nth_sub by (unfold bl in *; lia). f_equal. lia. }
          rewrite Hn. apply (proj1 (Forall_forall _ _) Hbnd). apply nth_In. unfold bl in *. lia. }
        unfold hitb. rewrite He. cbn [andb]. now rewrite Bool.andb_false_r.
    + cbn [bind]. cbn [andb] in Hd. apply IH; [lia|lia|]. intros q Hq.
      destruct (Nat.lt_ge_cases q pos) as [Hlo|Hhi]; [apply Hno; exact Hlo|].
      assert (q = pos) by lia. subst q. exact Hd.
  - exists 0. split; [reflexivity|]. left. split; [reflexivity|]. intros q.
    destruct (Nat.lt_ge_cases q pos) as [Hlo|Hhi]; [apply Hno; exact Hlo|].
    rewrite delim_at_split. destruct (Nat.leb_spec (q + 3 + bl) len); [lia|reflexivity].
Qed.

Theorem find_boundary_spec : exists p, find_boundary m buf len bnd = Ok p /\ fb_res p.
Proof.
  unfold find_boundary. fold bl. destruct (Nat.ltb_spec len (bl + 3)) as [Hs|Hs].
  - exists 0. split; [reflexivity|]. left. split; [reflexivity|]. intros q. rewrite delim_at_split.
    destruct (Nat.leb_spec (q + 3 + bl) len); [lia|reflexivity].
  - apply fb_loop_spec; [lia|lia|]. intros q Hq. lia.
Qed.

End Win.

(* ------------------------------------------------------------------ find_delim, the data-level search *)
Lemma find_delim_from_spec bnd u : forall fuel q0, (forall q, q < q0 -> delim_at bnd u q = false) ->
  match find_delim_from bnd u fuel q0 with
  | Some q => delim_at bnd u q = true /\ forall q', q' < q -> delim_at bnd u q' = false
  | None => forall q, q < q0 + fuel -> delim_at bnd u q = false
  end.
Proof.
  induction fuel as [|f IH]; intros q0 H; cbn [find_delim_from].
  - intros q Hq. apply H. lia.
  - destruct (delim_at bnd u q0) eqn:E; [auto|].
    specialize (IH (S q0)). destruct (find_delim_from bnd u f (S q0)).
    + apply IH. intros q Hq. destruct (Nat.eq_dec q q0) as [->|]; [exact E|apply H; lia].
    + intros q Hq. apply IH; [|lia]. intros q1 Hq1. destruct (Nat.eq_dec q1 q0) as [->|]; [exact E|apply H; lia].
Qed.

Lemma delim_at_range bnd u q : delim_at bnd u q = true -> q + 3 + length bnd <= length u.
Proof. unfold delim_at. intros H. repeat (apply andb_prop in H as [H _]). apply Nat.leb_le. exact H. Qed.

Lemma find_delim_some bnd u q : delim_at bnd u q = true -> (forall q', q' < q -> delim_at bnd u q' = false) ->
  find_delim bnd u = Some q.
Proof.
  intros Hq Hno. unfold find_delim. pose proof (find_delim_from_spec bnd u (length u) 0 ltac:(intros; lia)) as H.
  destruct (find_delim_from bnd u (length u) 0) as [q1|].
  - destruct H as (H1 & H2). f_equal.
    destruct (Nat.lt_trichotomy q1 q) as [Hlt|[->|Hgt]]; [|reflexivity|].
    + rewrite (Hno q1 Hlt) in H1. discriminate.
    + rewrite (H2 q Hgt) in Hq. discriminate.
  - pose proof (delim_at_range bnd u q Hq). rewrite H in Hq by lia. discriminate.
Qed.

Lemma find_delim_none bnd u : (forall q, delim_at bnd u q = false) -> find_delim bnd u = None.
Proof.
  intros Hno. unfold find_delim. pose proof (find_delim_from_spec bnd u (length u) 0 ltac:(intros; lia)) as H.
  destruct (find_delim_from bnd u (length u) 0) as [q1|]; [|reflexivity]. destruct H as (H1 & _). rewrite Hno in H1. discriminate.
Qed.

(** find_boundary against find_delim *)
Theorem find_boundary_find_delim m buf len bnd : buf + len <= length m -> Forall (fun c => eolc c = false) bnd ->
  find_boundary m buf len bnd =
  Ok (match find_delim bnd (sub m buf len) with Some q => q + 3 + length bnd | None => 0 end).
Proof.
  intros Hw Hb. destruct (find_boundary_spec m buf len Hw bnd Hb) as (p & E & [(-> & Hno)|(q & -> & Hq & Hno)]).
  - rewrite (find_delim_none _ _ Hno). exact E.
  - rewrite (find_delim_some _ _ q Hq Hno). exact E.
Qed.

(* ------------------------------------------------------------------ skip_tpad *)
Lemma is_blank_c_eq c : is_blank c = is_blank_c c.
Proof. unfold is_blank, is_blank_c. apply Bool.orb_comm. Qed.

Lemma tpad_blanks_spec m b len : b + len <= length m -> forall fuel off, off <= len -> len - off < fuel ->
  exists o, tpad_blanks fuel m b len off = Ok o /\ off <= o <= len /\
            skipn o (sub m b len) = drop_blanks (skipn off (sub m b len)).
Proof.
  intros Hw. set (u := sub m b len). assert (Hl : length u = len) by (apply sub_length; exact Hw).
  induction fuel as [|fuel IH]; intros off Ho Hf; [lia|]. cbn [tpad_blanks].
  destruct (Nat.ltb_spec off len) as [Hlt|Hge].
  - rewrite rd_ok by lia. cbn [bind].
    assert (Hx : nth (b + off) m 0%N = nth off u 0%N) by (unfold u; now rewrite nth_sub).
    rewrite Hx. rewrite (skipn_nth_cons u off 0%N) by lia. cbn [drop_blanks]. rewrite <- is_blank_c_eq.
    destruct (is_blank (nth off u 0%N)) eqn:Eb.
    + destruct (IH (S off)) as (o & E & H1 & H2); [lia|lia|]. exists o. split; [exact E|]. split; [lia|exact H2].
    + exists off. split; [reflexivity|]. split; [lia|]. rewrite (skipn_nth_cons u off 0%N) by lia. reflexivity.
  - exists off. split; [reflexivity|]. split; [lia|]. rewrite skipn_all2 by lia. reflexivity.
Qed.

Theorem skip_tpad_spec m b len : b + len <= length m ->
  exists t, skip_tpad m b len = Ok t /\ t <= len /\ skipn t (sub m b len) = strip_tpad (sub m b len).
Proof.
  intros Hw. unfold skip_tpad. set (u := sub m b len). assert (Hl : length u = len) by (apply sub_length; exact Hw).
  destruct (tpad_blanks_spec m b len Hw (S len) 0) as (o & E & Ho & Hs); [lia|lia|]. rewrite E. cbn [bind].
  fold u in Hs. cbn [skipn] in Hs. unfold strip_tpad. rewrite <- Hs.
  assert (Hn : forall i, i < len -> rd m (b + i) = Ok (nth i u 0%N)).
  { intros i Hi. rewrite rd_ok by lia. unfold u. now rewrite nth_sub. }
  destruct (Nat.ltb_spec o len) as [Hlt|Hge].
  - rewrite Hn by lia. cbn [bind]. rewrite (skipn_nth_cons u o 0%N) by lia. cbn [strip_eol].
    destruct (N.eqb_spec (nth o u 0%N) CR) as [Ecr|Ncr].
    + destruct (Nat.ltb_spec (S o) len) as [Hlt2|Hge2].
      * rewrite Hn by lia. cbn [bind]. rewrite (skipn_nth_cons u (S o) 0%N) by lia.
        destruct (N.eqb (nth (S o) u 0%N) LF); eexists; (split; [reflexivity|]); (split; [lia|]).
        -- reflexivity.
        -- rewrite (skipn_nth_cons u (S o) 0%N) by lia. reflexivity.
      * cbn [bind]. exists (S o). split; [reflexivity|]. split; [lia|]. rewrite skipn_all2 by lia. reflexivity.
    + destruct (Nat.ltb_spec o len) as [_|]; [|lia]. rewrite Hn by lia. cbn [bind].
      destruct (N.eqb (nth o u 0%N) LF); eexists; (split; [reflexivity|]); (split; [lia|]).
      * reflexivity.
      * rewrite (skipn_nth_cons u o 0%N) by lia. reflexivity.
  - cbn [bind]. destruct (Nat.ltb_spec o len); [lia|]. cbn [bind]. exists o. split; [reflexivity|]. split; [lia|].
    rewrite skipn_all2 by lia. reflexivity.
Qed.

(* ------------------------------------------------------------------ what a delimiter looks like *)
Lemma delim_at_content bnd u q : delim_at bnd u q = true ->
  q + 3 + length bnd <= length u /\ eolc (nthb u q) = true /\
  firstn (q + 3 + length bnd) u = firstn (S q) u ++ DD ++ bnd /\
  (starts_dash (skipn (q + 3 + length bnd) u) = true -> q + 3 + length bnd + 2 <= length u).
Proof.
  unfold delim_at. intros H.
  apply andb_prop in H as [H Htail]. apply andb_prop in H as [H Hb]. apply andb_prop in H as [H H2].
  apply andb_prop in H as [H H1]. apply andb_prop in H as [Hr He].
  apply Nat.leb_le in Hr. apply N.eqb_eq in H1, H2. apply bytes_eqb_eq in Hb.
  split; [exact Hr|]. split; [exact He|]. split.
  - replace (q + 3 + length bnd) with (S q + (2 + length bnd)) by lia. rewrite firstn_add'. f_equal.
    replace (2 + length bnd) with (2 + length bnd) by lia.
    assert (Hs : firstn (2 + length bnd) (skipn (S q) u) = sub u (S q) (2 + length bnd)) by reflexivity.
    rewrite Hs. clear Hs.
    assert (E1 : sub u (S q) (2 + length bnd) = nthb u (q + 1) :: nthb u (q + 2) :: sub u (q + 3) (length bnd)).
    { unfold sub. rewrite (skipn_nth_cons u (S q) 0%N) by lia. rewrite (skipn_nth_cons u (S (S q)) 0%N) by lia.
      cbn [firstn Nat.add]. unfold nthb. replace (q + 1) with (S q) by lia. replace (q + 2) with (S (S q)) by lia.
      replace (q + 3) with (S (S (S q))) by lia. reflexivity. }
    rewrite E1, H1, H2, Hb. reflexivity.
  - intros Hd. unfold starts_dash in Hd.
    destruct (skipn (q + 3 + length bnd) u) as [|c r] eqn:Es; [discriminate|]. apply N.eqb_eq in Hd. subst c.
    assert (Hlt : q + 3 + length bnd < length u).
    { apply (f_equal (@length N)) in Es. rewrite skipn_length in Es. cbn [length] in Es. lia. }
    assert (Hn : nthb u (q + 3 + length bnd) = DASH).
    { unfold nthb. rewrite <- (Nat.add_0_r (q + 3 + length bnd)). rewrite <- nth_skipn'. rewrite Es. reflexivity. }
    rewrite Hn in Htail. destruct (Nat.eqb_spec (q + 3 + length bnd) (length u)); [lia|].
    cbn [orb] in Htail. change (wsc DASH) with false in Htail. cbn [orb] in Htail.
    apply andb_prop in Htail as [Ht _]. apply andb_prop in Ht as [Ht _]. apply andb_prop in Ht as [Ht _].
    apply Nat.ltb_lt in Ht. lia.
Qed.

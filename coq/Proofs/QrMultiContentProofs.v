(** C07 for multipart messages: a well-formed entity (Spec/MultipartSpec.v: [wf_ent]) that goes through
    send_qp is written as [ent_sent] says — header unfolded with the Content-Transfer-Encoding field taken out,
    preamble, delimiter lines and epilogue normalised, every part as it is or, recursively, recoded. *)
From Qv Require Import Common.Bytes Gen.GenQrdata Model.Mime Model.QrData Model.QrDataL2 Proofs.QrMemLemmas
  Spec.SmtpDataSpec Spec.DeliverSpec Spec.MultipartSpec Proofs.QrPlainProofs Proofs.QrNeedRecodeProofs
  Proofs.QrPlainSpecProofs Proofs.QrQpProofs Proofs.QrQpDecodeProofs Proofs.QrWireProofs Proofs.QrFoldProofs
  Proofs.QrPhaseProofs Proofs.QrScanProofs Proofs.MimeTotalProofs Proofs.QrHeaderTotalProofs Proofs.QrWrapHeaderProofs
  Proofs.QrPiecesProofs Proofs.QrSendQpTotalProofs Proofs.QrPartDecisionProofs Proofs.QrBoundaryProofs
  Proofs.QrEntityProofs Proofs.QrWalkProofs Proofs.QrWalkLegalProofs Proofs.QrDelimProofs Proofs.QrContentProofs.
Require Import Lia.

(** the closing CRLF that is still missing goes with the open rest *)
Definition closing (c t : bytes) : Prop := (c = [] \/ c = CRLF) /\ (c = [] <-> t = []).

Lemma closing_nil : closing [] [].
Proof. split; [left; reflexivity|tauto]. Qed.

Lemma join_last_lf ls : ls <> [] -> last_is_lf (join_crlf ls) = true.
Proof.
  intros H. destruct ls as [|l0 r0]; [contradiction|]. unfold join_crlf.
  induction r0 as [|a r0 IHr] using rev_ind.
  - cbn [map concat]. rewrite app_nil_r. rewrite last_is_lf_app by discriminate. reflexivity.
  - rewrite app_comm_cons, map_app, concat_app. cbn [map concat]. rewrite app_nil_r.
    rewrite last_is_lf_app; [|destruct a; discriminate]. rewrite last_is_lf_app by discriminate. reflexivity.
Qed.

(** complete lines plus an open rest: it ends with LF exactly when the rest is empty *)
Lemma wire_last_iff ext8 X t : wire ext8 X t -> X <> [] -> (last_is_lf X = true <-> t = []).
Proof.
  intros Hw Hne. split; [apply (wire_last_lf ext8 X t Hw)|].
  intros ->. destruct Hw as (ls & E & _ & _). rewrite app_nil_r in E. subst X.
  apply join_last_lf. intros ->. apply Hne. reflexivity.
Qed.

Lemma good_last_iff ext8 D0 st t O st0 : good ext8 D0 st t -> outof st = outof st0 ++ O -> O <> [] ->
  good ext8 D0 st0 [] -> (last_is_lf (outof st) = true <-> t = []).
Proof.
  intros (X & E & Hw & _) Ho Hne (X0 & E0 & _). rewrite E.
  assert (HX : X <> []).
  { intros ->. rewrite app_nil_r in E. rewrite E, E0 in Ho. rewrite <- app_assoc in Ho.
    rewrite <- (app_nil_r D0) in Ho at 1. apply app_inv_head in Ho. symmetry in Ho. apply app_eq_nil in Ho as [_ Ho]. contradiction. }
  rewrite last_is_lf_app by exact HX. apply (wire_last_iff ext8 X t Hw HX).
Qed.

Lemma clean_flags (x : bytes) : clean x = true -> flags_any (nr_fun x flags0 0 false) = false.
Proof.
  unfold clean. intros H. apply andb_prop in H as [H8 Hl]. apply Bool.negb_true_iff in H8, Hl.
  destruct (nr_fun_facts x flags0 0 false) as [A B]. cbv zeta in A, B.
  cbn [f8 flags0 orb] in A. unfold flong at 2 in B. cbn [fline fhdr flags0 orb] in B. rewrite longrun_has_long in B.
  unfold flags_any. rewrite <- Bool.orb_assoc. unfold flong in B. rewrite A, B.
  change (existsb is8 x) with (has_8bit x). rewrite H8, Hl. reflexivity.
Qed.

Section Pieces.
Variable m : bytes.
Variable ext8 : bool.
Variable D0 : bytes.

(** send_plain as a content step *)
Lemma plain_content b len st : b + len <= length m -> must_recode ext8 (sub m b len) = false -> good ext8 D0 st [] ->
  exists st' t c, send_plain m b len st = Ok st' /\ good ext8 D0 st' t /\
    outof st' ++ c = outof st ++ stuff (split_lines (sub m b len)) /\ closing c t /\
    (open_line false (sub m b len) = false -> t = []) /\
    c = (if open_line false (sub m b len) then CRLF else []).
Proof.
  intros Hw Hm Hg. destruct (plain_piece ext8 m b len D0 st Hw Hm Hg) as (st' & t & E & G & Ht).
  destruct (send_plain_ok m b len Hw st) as (st2 & E2 & Ho & Hz & Hnz). rewrite E in E2. inversion E2; subst st2.
  set (P := sub m b len) in *. fold (outof st') in Ho, Hnz. fold (outof st) in Ho.
  exists st', t, (if open_line false P then CRLF else []). split; [exact E|]. split; [exact G|]. split.
  - rewrite Ho, <- app_assoc. f_equal. apply (plain_enc_spec P false).
  - split; [|split; [exact Ht|reflexivity]]. split; [destruct (open_line false P); auto|].
    destruct P as [|x r] eqn:EP.
    + cbn [open_line]. split; [intros _; apply Ht; reflexivity|reflexivity].
    + assert (Hne : plain_enc false (x :: r) <> []) by apply plain_enc_nonempty.
      pose proof (good_last_iff ext8 D0 st' t _ st G Ho Hne Hg) as Hiff.
      rewrite Ho in Hiff at 1. rewrite last_is_lf_app in Hiff by exact Hne. rewrite plain_enc_last in Hiff by discriminate.
      unfold open_line. destruct (ends_eol (x :: r)); cbn [negb].
      * split; [intros _; apply Hiff; reflexivity|reflexivity].
      * split; [discriminate|]. intros Et. apply Hiff in Et. discriminate.
Qed.

(** the body writers on a non-empty window: what is written, completed by the CRLF that lastlf asks for *)
Lemma body_out (B L : nat) (br : bool) (st1 : St) : B + L <= length m -> 0 < L -> byte_list m ->
  exists st2 O,
    (if br then liftS (recode_qp m B L st1) else liftS (send_plain m B L st1)) = Ok (Done tt st2) /\
    outof st2 = outof st1 ++ O /\ O <> [] /\ lastlf st2 = last_is_lf (outof st2) /\
    body_sent br (sub m B L) (O ++ (if lastlf st2 then [] else CRLF)).
Proof.
  intros Hw HL Hb. set (P := sub m B L).
  assert (HPne : P <> []).
  { intros Ee. apply (f_equal (@length N)) in Ee. unfold P in Ee. rewrite sub_length in Ee by lia. cbn in Ee. lia. }
  destruct br; unfold liftS.
  - destruct (recode_qp_ok m B L Hw st1) as (vs & st2 & E & Ho & Hz & Hnz). fold P in Ho.
    rewrite E. cbn [bind]. exists st2, (qp_enc vs 0 None P). split; [reflexivity|]. split; [exact Ho|].
    assert (Hbw : byte_list P) by (apply Forall_sub; exact Hb).
    destruct (qp_enc_roundtrip P vs Hbw) as (Hne & Hrt). cbv zeta in Hne, Hrt. specialize (Hne HPne).
    split; [exact Hne|]. split; [apply Hnz; lia|]. unfold body_sent.
    rewrite (Hnz ltac:(lia)). rewrite Ho. rewrite last_is_lf_app by exact Hne.
    unfold at_bol in Hrt. destruct (qp_enc vs 0 None P); [contradiction|exact Hrt].
  - destruct (send_plain_ok m B L Hw st1) as (st2 & E & Ho & Hz & Hnz). fold P in Ho.
    rewrite E. cbn [bind]. exists st2, (plain_enc false P). split; [reflexivity|]. split; [exact Ho|].
    destruct P as [|c r] eqn:EP; [contradiction|].
    split; [apply plain_enc_nonempty|]. split; [apply Hnz; lia|]. unfold body_sent.
    rewrite (Hnz ltac:(lia)). rewrite Ho.
    rewrite last_is_lf_app by apply plain_enc_nonempty. rewrite plain_enc_last by discriminate.
    change (stuff (split_lines (c :: r))) with (rendering false (c :: r)). rewrite <- (plain_enc_spec (c :: r) false).
    unfold open_line. destruct (ends_eol (c :: r)); reflexivity.
Qed.

End Pieces.

Section Walk.
Variable m helo : bytes.
Variable ext8 : bool.
Variable Hhelo : helo_ok helo.
Variable Hbytes : byte_list m.
Variable D0 : bytes.

(** the analysis of an entity's header as the code makes it: [qh_view] = end of the header, the recorded
    Content-Type field, the recorded Content-Transfer-Encoding field; is_multipart() on the former *)
Definition hview (b len h : nat) (ob : option bytes) (s l : nat) : Prop :=
  exists ct mp, qh_view m b len = Ok (h, ct, (s, l)) /\ is_multipart m (b + fst ct) (snd ct) = Ok mp /\
    ((mp = MpNo /\ ob = None) \/ exists bs bl, mp = MpYes bs bl /\ ob = Some (sub m bs bl)).

Notation ESENT := (ent_sent m ext8 (MK helo) hview).
Notation PSENT := (parts_sent m ext8 (MK helo) hview).
Notation WFE := (wf_ent m ext8 hview).
Notation WFP := (wf_parts m ext8 hview).

(** outcome of send_qp on the window (b, len), started in [st] *)
Definition entc (b len : nat) (st : St) (res : Run unit) : Prop :=
  match res with
  | Done _ st' => exists t W c, good ext8 D0 st' t /\ (ends_eol (sub m b len) = true -> t = []) /\
                    outof st' ++ c = outof st ++ W /\ closing c t /\ ESENT b len W
  | Die _ st' => exists t, good0 ext8 D0 st' t
  end.

Definition partsc (bnd : bytes) (b len off : nat) (st : St) (res : Run unit) : Prop :=
  match res with
  | Done _ st' => exists t W c, good ext8 D0 st' t /\ (ends_eol (sub m b len) = true -> t = []) /\
                    outof st' ++ c = outof st ++ W /\ closing c t /\ PSENT bnd (b + off) (len - off) W
  | Die _ st' => exists t, good0 ext8 D0 st' t
  end.

Lemma bnd_no_eol bnd : bnd_ok bnd -> Forall (fun c => eolc c = false) bnd.
Proof.
  intros [H _]. eapply Forall_impl; [|exact H]. intros c Hc. cbv beta in Hc. unfold eolc.
  assert (c <> CR /\ c <> LF) as [A B] by (unfold CR, LF; split; intros ->; lia).
  apply N.eqb_neq in A, B. now rewrite A, B.
Qed.

(** the look at the octet behind a delimiter *)
Lemma dash_is_starts b len off k : b + len <= length m -> off + k <= len ->
  (if Nat.ltb (off + k) len then do c <- rd m (b + (off + k)); Ok (N.eqb c DASH) else Ok false) =
  Ok (starts_dash (skipn k (sub m (b + off) (len - off)))).
Proof.
  intros Hw Hk. destruct (Nat.ltb_spec (off + k) len) as [Hlt|Hge].
  - rewrite rd_ok by lia. cbn [bind]. rewrite (skipn_nth_cons (sub m (b + off) (len - off)) k 0%N) by (rewrite sub_length by lia; lia).
    cbn [starts_dash]. rewrite nth_sub by lia. do 3 f_equal. lia.
  - rewrite skipn_all2 by (rewrite sub_length by lia; lia). reflexivity.
Qed.

(** skip_tpad on what is left behind a delimiter *)
Lemma tpad_step B L k : B + L <= length m -> k <= L ->
  exists t, skip_tpad m (B + k) (L - k) = Ok t /\ t = tpad_len (skipn k (sub m B L)) /\ k + t <= L.
Proof.
  intros Hw Hk. destruct (skip_tpad_spec m (B + k) (L - k)) as (t & E & Ht & Hs); [lia|].
  exists t. split; [exact E|]. rewrite (sub_skipn m B L k Hw Hk) in Hs. split; [|lia].
  unfold tpad_len. rewrite <- Hs. rewrite !skipn_length, sub_length by lia. lia.
Qed.

Lemma outof_wr2 st x y : outof (wr (wr st x) y) = outof st ++ x ++ y.
Proof. now rewrite !outof_wr, <- app_assoc. Qed.

(** one part: through the recoder or as it is, by the decision for the part *)
Lemma part_content rec B L q bnd st : B + L <= length m ->
  delim_at bnd (sub m B L) q = true ->
  (good ext8 D0 st [] -> WFE B (S q) -> exists r, rec B (S q) st = Ok r /\ entc B (S q) st r) ->
  good ext8 D0 st [] ->
  (must_recode ext8 (sub m B (S q)) = true -> WFE B (S q)) ->
  exists r, (if nr_match ext8 (nr_fun (sub m B (S q)) flags0 0 false) then rec B (S q) st
             else liftS (send_plain m B (S q) st)) = Ok r /\
    match r with
    | Done _ st1 => good ext8 D0 st1 [] /\ exists wp, outof st1 = outof st ++ wp /\
                      (must_recode ext8 (sub m B (S q)) = true -> ESENT B (S q) wp) /\
                      (must_recode ext8 (sub m B (S q)) = false -> wp = stuff (split_lines (sub m B (S q))))
    | Die _ st1 => exists t, good0 ext8 D0 st1 t
    end.
Proof.
  intros Hw Hd Hrec Hg Hwf. destruct (delim_at_content _ _ _ Hd) as (Hr & He & _ & _).
  rewrite sub_length in Hr by exact Hw. set (P := sub m B (S q)) in *.
  assert (HPe : ends_eol P = true).
  { assert (HPl : length P = S q) by (unfold P; rewrite sub_length by lia; reflexivity).
    rewrite ends_eol_last by (intros E; rewrite E in HPl; discriminate). rewrite HPl. unfold P.
    rewrite nth_sub by lia. replace (S q - 1) with q by lia. unfold nthb in He. rewrite nth_sub in He by lia. exact He. }
  rewrite part_decision_is_message_decision, window_decision.
  destruct (must_recode ext8 P) eqn:Em.
  - destruct (Hrec Hg (Hwf eq_refl)) as (r & Er & Hr'). exists r. split; [exact Er|].
    destruct r as [u st1|why st1]; [|exact Hr'].
    destruct Hr' as (t & W & c & Gt & Ht & Eo & (Hc & Hct) & HS). fold P in Ht. specialize (Ht HPe). subst t.
    assert (c = []) by (apply Hct; reflexivity). subst c. rewrite app_nil_r in Eo.
    split; [exact Gt|]. exists W. split; [exact Eo|]. split; [intros _; exact HS|discriminate].
  - destruct (plain_content m ext8 D0 B (S q) st ltac:(lia) Em Hg) as (st1 & t & c & E & G & Eo & (Hc & Hct) & Ht & _).
    fold P in Eo, Ht. specialize (Ht (open_line_ends _ HPe)). subst t.
    assert (c = []) by (apply Hct; reflexivity). subst c. rewrite app_nil_r in Eo.
    unfold liftS. rewrite E. cbn [bind]. eexists. split; [reflexivity|]. split; [exact G|].
    exists (stuff (split_lines P)). split; [exact Eo|]. split; [discriminate|reflexivity].
Qed.

Lemma parts_content rec b len bnd bl : b + len <= length m -> bl = length bnd -> bnd_ok bnd ->
  (forall b' len' st', b' + len' <= b + len -> len' < len -> 1 <= len' -> good ext8 D0 st' [] -> WFE b' len' ->
     exists r, rec b' len' st' = Ok r /\ entc b' len' st' r) ->
  forall fuel2 off st, 1 <= off <= len -> len - off < fuel2 -> good ext8 D0 st [] -> WFP bnd (b + off) (len - off) ->
  exists r, parts_fix rec m ext8 b len bnd bl fuel2 off false st = Ok r /\ partsc bnd b len off st r.
Proof.
  intros Hw Hbl Hbnd Hrec.
  induction fuel2 as [|f2 IH]; intros off st Ho Hf Hg Hwf; [lia|].
  assert (HW : b + off + (len - off) <= length m) by lia.
  set (u := sub m (b + off) (len - off)) in *.
  assert (Hul : length u = len - off) by (unfold u; apply sub_length; lia).
  (* the next delimiter *)
  assert (Hq : exists q, find_delim bnd u = Some q) by (inversion Hwf; subst; eauto).
  destruct Hq as (q & Hfd).
  assert (Hd : delim_at bnd u q = true).
  { unfold find_delim in Hfd. pose proof (find_delim_from_spec bnd u (length u) 0 ltac:(intros; lia)) as Hs.
    rewrite Hfd in Hs. apply Hs. }
  destruct (delim_at_content _ _ _ Hd) as (Hr & He & Hpre & Hdd). rewrite Hul in Hr, Hdd. rewrite <- Hbl in Hr, Hdd.
  cbn [parts_fix].
  destruct (Nat.ltb_spec off len) as [Holt|]; [|lia]. cbn [negb andb].
  rewrite (find_boundary_find_delim m (b + off) (len - off) bnd HW (bnd_no_eol bnd Hbnd)). fold u. rewrite Hfd. cbn [bind].
  rewrite <- Hbl. destruct (Nat.eqb_spec (q + 3 + bl) 0) as [|_]; [lia|]. cbn [negb].
  destruct (Nat.ltb_spec (q + 3 + bl) (bl + 2)) as [|_]; [lia|]. cbv zeta.
  replace (q + 3 + bl - bl - 2) with (S q) by lia.
  rewrite (need_recode_ok m (b + off) (S q)) by lia. cbn [bind].
  assert (Hpw : must_recode ext8 (sub m (b + off) (S q)) = true -> WFE (b + off) (S q)).
  { inversion Hwf; subst; match goal with H : find_delim _ _ = Some ?q' |- _ => fold u in H; rewrite Hfd in H; inversion H; subst q' end; assumption. }
  destruct (part_content rec (b + off) (len - off) q bnd st HW Hd) as (r & Er & Hr'); [|exact Hg|exact Hpw|].
  { intros G W'. apply Hrec; [lia|lia|lia|exact G|exact W']. }
  rewrite Er. destruct r as [u0 st1|why st1]; cbn [bindR]; [|eexists; split; [reflexivity|exact Hr']].
  destruct Hr' as (G1 & wp & Eo1 & Hwp1 & Hwp2).
  pose proof (lit_delim ext8 D0 bnd Hbnd st1 G1) as G2. set (st2 := wr (wr st1 S_DD) bnd) in *.
  assert (Eo2 : outof st2 = outof st ++ wp ++ DD ++ bnd).
  { unfold st2. rewrite outof_wr2, Eo1, <- !app_assoc. reflexivity. }
  rewrite (dash_is_starts b len off (q + 3 + bl) Hw ltac:(lia)). fold u. cbn [bind].
  set (after := skipn (q + 3 + bl) u) in *.
  destruct (starts_dash after) eqn:Esd.
  - (* the close delimiter *)
    specialize (Hdd eq_refl).
    assert (Hlast : line_ends (skipn (q + 3 + bl + 2) u) = true /\
                    clean (skipn (q + 3 + bl + 2 + tpad_len (skipn (q + 3 + bl + 2) u)) u) = true).
    { inversion Hwf; subst; match goal with H : find_delim _ _ = Some ?q' |- _ => fold u in H; rewrite Hfd in H; inversion H; subst q' end.
      - unfold after, u in *. congruence.
      - unfold after, u in *. split; assumption. }
    destruct Hlast as (_ & Hclean).
    pose proof (lit_delim_dd ext8 D0 bnd Hbnd st2 G2) as G3. set (st3 := wr st2 S_DD) in *.
    destruct (Nat.ltb_spec len (off + (q + 3 + bl) + 2)) as [|_]; [lia|].
    replace (b + (off + (q + 3 + bl) + 2)) with (b + off + (q + 3 + bl + 2)) by lia.
    replace (len - (off + (q + 3 + bl) + 2)) with (len - off - (q + 3 + bl + 2)) by lia.
    destruct (tpad_step (b + off) (len - off) (q + 3 + bl + 2) HW ltac:(lia)) as (tp & Etp & Htp & Htl). fold u in Htp.
    rewrite Etp. cbn [bind]. cbv zeta. rewrite Bool.andb_false_r.
    pose proof (lit_crlf ext8 D0 st3 _ G3) as G4. set (st4 := wr st3 CRLF) in *.
    assert (Eo4 : outof st4 = outof st ++ wp ++ DD ++ bnd ++ DD ++ CRLF).
    { unfold st4, st3. rewrite outof_wr2, Eo2, <- !app_assoc. reflexivity. }
    set (adv := q + 3 + bl + 2 + tp) in *.
    assert (Hps : forall We, We = stuff (split_lines (skipn adv u)) -> PSENT bnd (b + off) (len - off) (wp ++ DD ++ bnd ++ DD ++ CRLF ++ We)).
    { intros We ->. unfold adv. rewrite Htp, Hbl. apply (ps_last m ext8 (MK helo) hview bnd (b + off) (len - off) q wp); [exact Hfd|exact Hwp1|exact Hwp2]. }
    destruct (Nat.eqb_spec (off + (q + 3 + bl) + 2 + tp) len) as [Eend|Nend].
    + eexists. split; [reflexivity|]. exists [], (wp ++ DD ++ bnd ++ DD ++ CRLF ++ []), []. split; [exact G4|]. split; [reflexivity|].
      split; [rewrite !app_nil_r; exact Eo4|]. split; [apply closing_nil|].
      apply Hps. rewrite skipn_all2 by (rewrite Hul; unfold adv; lia). reflexivity.
    + (* the epilogue *)
      destruct f2 as [|f3]; [lia|]. cbn [parts_fix].
      destruct (Nat.ltb (off + (q + 3 + bl) + 2 + tp) len); cbn [negb andb bind Nat.eqb];
        (destruct (Nat.ltb_spec len (off + (q + 3 + bl) + 2 + tp)) as [|_]; [lia|]).
      all: replace (b + (off + (q + 3 + bl) + 2 + tp)) with (b + off + adv) by (unfold adv; lia).
      all: replace (len - (off + (q + 3 + bl) + 2 + tp)) with (len - off - adv) by (unfold adv; lia).
      all: rewrite (need_recode_ok m (b + off + adv) (len - off - adv)) by (unfold adv; lia); cbn [bind].
      all: rewrite (sub_skipn m (b + off) (len - off) adv HW ltac:(unfold adv; lia)); fold u.
      all: rewrite <- Htp in Hclean; fold adv in Hclean.
      all: rewrite (clean_flags _ Hclean).
      all: destruct (plain_content m ext8 D0 (b + off + adv) (len - off - adv) st4 ltac:(unfold adv; lia)) as (st5 & t5 & c5 & E5 & G5 & Eo5 & Hc5 & Ht5 & _);
        [rewrite (sub_skipn m (b + off) (len - off) adv HW ltac:(unfold adv; lia)); fold u; apply flags_any_none; apply clean_flags; exact Hclean|exact G4|].
      all: rewrite (sub_skipn m (b + off) (len - off) adv HW ltac:(unfold adv; lia)) in Eo5, Ht5; fold u in Eo5, Ht5.
      all: unfold liftS; rewrite E5; cbn [bind]; eexists; (split; [reflexivity|]).
      all: exists t5, (wp ++ DD ++ bnd ++ DD ++ CRLF ++ stuff (split_lines (skipn adv u))), c5.
      all: split; [exact G5|]; split.
      all: try (intros Hee; apply Ht5; apply open_line_ends;
                assert (Es : skipn adv u = skipn (off + adv) (sub m b len)) by (unfold u; rewrite (sub_skipn m b len off Hw ltac:(lia)), skipn_skipn'; f_equal; lia);
                rewrite Es; rewrite ends_eol_skipn'; [exact Hee|rewrite sub_length by lia; unfold adv; lia]).
      all: split; [rewrite Eo5, Eo4, <- !app_assoc; reflexivity|]; split; [exact Hc5|]; apply Hps; reflexivity.
  - (* another part follows *)
    assert (Hmore : q + 3 + bl + tpad_len after < len - off /\
                    WFP bnd (b + off + (q + 3 + bl + tpad_len after)) (len - off - (q + 3 + bl + tpad_len after))).
    { inversion Hwf; subst; match goal with H : find_delim _ _ = Some ?q' |- _ => fold u in H; rewrite Hfd in H; inversion H; subst q' end.
      - unfold after, u in *. split; assumption.
      - unfold after, u in *. congruence. }
    destruct Hmore as (Hadv & Hwf').
    destruct (Nat.ltb_spec len (off + (q + 3 + bl))) as [|_]; [lia|].
    replace (b + (off + (q + 3 + bl))) with (b + off + (q + 3 + bl)) by lia.
    replace (len - (off + (q + 3 + bl))) with (len - off - (q + 3 + bl)) by lia.
    destruct (tpad_step (b + off) (len - off) (q + 3 + bl) HW ltac:(lia)) as (tp & Etp & Htp & Htl). fold u in Htp. fold after in Htp.
    rewrite Etp. cbn [bind]. cbv zeta. subst tp.
    destruct (Nat.eqb_spec (off + (q + 3 + bl) + tpad_len after) len) as [|_]; [lia|]. cbn [andb].
    pose proof (lit_crlf ext8 D0 st2 _ G2) as G4. set (st4 := wr st2 CRLF) in *.
    assert (Eo4 : outof st4 = outof st ++ wp ++ DD ++ bnd ++ CRLF).
    { unfold st4. rewrite outof_wr, Eo2, <- !app_assoc. reflexivity. }
    destruct (IH (off + (q + 3 + bl) + tpad_len after) st4) as (r & Er2 & Hr2); [lia|lia|exact G4| |].
    { replace (b + (off + (q + 3 + bl) + tpad_len after)) with (b + off + (q + 3 + bl + tpad_len after)) by lia.
      replace (len - (off + (q + 3 + bl) + tpad_len after)) with (len - off - (q + 3 + bl + tpad_len after)) by lia. exact Hwf'. }
    exists r. split; [exact Er2|]. destruct r as [u1 st5|why st5]; [|exact Hr2].
    destruct Hr2 as (t5 & W5 & c5 & G5 & Ht5 & Eo5 & Hc5 & HP5).
    exists t5, (wp ++ DD ++ bnd ++ CRLF ++ W5), c5. split; [exact G5|]. split; [exact Ht5|].
    split; [rewrite Eo5, Eo4, <- !app_assoc; reflexivity|]. split; [exact Hc5|].
    apply (ps_more m ext8 (MK helo) hview bnd (b + off) (len - off) q wp W5); [exact Hfd|exact Hwp1|exact Hwp2|].
    fold u. rewrite <- Hbl. fold after.
    replace (b + off + (q + 3 + bl + tpad_len after)) with (b + (off + (q + 3 + bl) + tpad_len after)) by lia.
    replace (len - off - (q + 3 + bl + tpad_len after)) with (len - (off + (q + 3 + bl) + tpad_len after)) by lia. exact HP5.
Qed.

Lemma firstn_sub B L k : B + L <= length m -> k <= L -> firstn k (sub m B L) = sub m B k.
Proof. intros Hw Hk. unfold sub. rewrite firstn_firstn. f_equal. lia. Qed.

Lemma hview_det b len h ct cenc mp h' ob s l :
  qh_view m b len = Ok (h, ct, cenc) -> is_multipart m (b + fst ct) (snd ct) = Ok mp ->
  hview b len h' ob s l ->
  h' = h /\ cenc = (s, l) /\ ((mp = MpNo /\ ob = None) \/ exists bs bl, mp = MpYes bs bl /\ ob = Some (sub m bs bl)).
Proof.
  intros Ev Emp (ct' & mp' & Ev' & Emp' & Hk). rewrite Ev in Ev'. inversion Ev'; subst.
  rewrite Emp in Emp'. inversion Emp'; subst. auto.
Qed.

(** send_qp on a well-formed entity *)
Theorem entity_content : forall fuel b len st, b + len <= length m -> len < fuel -> 1 <= len ->
  good ext8 D0 st [] -> WFE b len ->
  exists r, send_qp fuel m helo ext8 b len st = Ok r /\ entc b len st r.
Proof.
  induction fuel as [|fu IH]; intros b len st Hw Hf Hl Hg Hwf; [lia|].
  rewrite send_qp_S. rewrite (need_recode_ok m b len Hw). cbn [bind].
  destruct (Nat.eqb_spec len 0) as [|_]; [lia|]. cbv zeta.
  set (W := sub m b len). set (rf := nr_fun W flags0 0 false). set (br := f8 rf || fline rf).
  destruct (qp_header_spec m helo ext8 b len Hw Hl Hhelo D0 br st Hg) as (h0 & ct & cenc & rh & Ev & Erh & Hd). rewrite Erh.
  destruct rh as [[h mp] st1|why st1]; cbn [bindR].
  2: { eexists. split; [reflexivity|]. cbn [hdr_done] in Hd. subst st1. exists []. apply good_good0. exact Hg. }
  destruct Hd as (Eh & Hh & Emp & Hbnd & (Hpos & Hkind) & H8 & Hlr & t & Gt & Ht & Hcok & Hcont). subst h0. fold W in Hlr, Ht.
  destruct Hcont as (X1 & X2 & ch & Eo1 & Hch & Hcht & U1 & U2).
  destruct cenc as [s l]. cbn [fst snd] in U1, U2.
  destruct (Nat.ltb_spec len h) as [|_]; [lia|].
  destruct Hkind as [->|(bs & bl & ->)]; cbn [mk_of cut_of] in Eo1, U1, U2.
  - (* no multipart *)
    assert (Hv : hview b len h None s l) by (exists ct, MpNo; split; [exact Ev|]; split; [exact Emp|left; auto]).
    destruct (Nat.eq_dec h len) as [Ehl|Nhl].
    + replace (len - h) with 0 by lia. unfold recode_qp, send_plain, liftS. cbn [Nat.eqb bind].
      assert (Hres : exists r, (if br then Ok (Done tt st1) else Ok (Done tt st1)) = Ok r /\ entc b len st r).
      { exists (Done tt st1). split; [destruct br; reflexivity|].
        exists t, (X1 ++ (if br then MK helo else []) ++ (X2 ++ ch) ++ []), ch. split; [exact Gt|]. split; [intros He; apply Ht; right; exact He|].
        split; [rewrite Eo1, app_nil_r, <- !app_assoc; reflexivity|]. split; [split; assumption|].
        apply (es_single m ext8 (MK helo) hview b len h s l br X1 (X2 ++ ch) []); [exact Hv|split; assumption|].
        replace (len - h) with 0 by lia. rewrite sub_0. unfold body_sent. destruct br; [apply qp_roundtrip_nil|reflexivity]. }
      exact Hres.
    + assert (Et : t = []) by (apply Ht; left; lia). subst t.
      assert (Ech : ch = []) by (apply Hcht; reflexivity). subst ch. rewrite app_nil_r in U2.
      destruct (entity_body m ext8 b len Hw Hl D0 h st1 [] Hbytes Hh Hlr Gt Ht) as (st2 & t2 & E2 & G2 & H2).
      fold W in E2, H2. fold rf in E2. fold br in E2.
      destruct (body_out m (b + h) (len - h) br st1 ltac:(lia) ltac:(lia) Hbytes) as (st2' & O & E2' & Ho & Hne & Hlf & Hbs).
      rewrite E2 in E2'. inversion E2'; subst st2'. rewrite E2.
      eexists. split; [reflexivity|].
      exists t2, (X1 ++ (if br then MK helo else []) ++ X2 ++ (O ++ (if lastlf st2 then [] else CRLF))), (if lastlf st2 then [] else CRLF).
      split; [exact G2|]. split; [exact H2|]. split; [rewrite Ho, Eo1, <- !app_assoc; reflexivity|]. split.
      * pose proof (good_last_iff ext8 D0 st2 t2 O st1 G2 Ho Hne Gt) as Hiff. rewrite <- Hlf in Hiff.
        split; [destruct (lastlf st2); auto|]. destruct (lastlf st2).
        -- split; [intros _; apply Hiff; reflexivity|reflexivity].
        -- split; [discriminate|]. intros Et. apply Hiff in Et. discriminate.
      * apply (es_single m ext8 (MK helo) hview b len h s l br X1 X2 _); [exact Hv|split; assumption|exact Hbs].
  - (* multipart *)
    destruct (Hbnd bs bl eq_refl) as (Hbl & Hbin).
    rewrite rdn_ok by exact Hbin. cbn [bind]. set (bnd := sub m bs bl).
    assert (Hblen : bl = length bnd) by (unfold bnd; rewrite sub_length by lia; reflexivity).
    assert (Hbok : bnd_ok bnd).
    { split; [|rewrite <- Hblen; lia]. destruct (is_multipart_bchars m _ _ bs bl Emp) as (q & Hq).
      apply Forall_sub_at; [exact Hbin|]. intros k Hk. apply (bchar_ok_range q). apply Hq. exact Hk. }
    (* what well-formedness says about the body *)
    assert (Hwfm : exists q0,
              find_delim bnd (sub m (b + h) (len - h)) = Some q0 /\
              clean (sub m (b + h) (S q0) ++ DD ++ bnd) = true /\
              starts_dash (skipn (q0 + 3 + bl) (sub m (b + h) (len - h))) = false /\
              q0 + 3 + bl + tpad_len (skipn (q0 + 3 + bl) (sub m (b + h) (len - h))) < len - h /\
              WFP bnd (b + h + (q0 + 3 + bl + tpad_len (skipn (q0 + 3 + bl) (sub m (b + h) (len - h)))))
                      (len - h - (q0 + 3 + bl + tpad_len (skipn (q0 + 3 + bl) (sub m (b + h) (len - h)))))).
    { inversion Hwf as [b0 len0 h' s' l' Hv|b0 len0 h' bnd' s' l' q0 Hv Hfd Hcl Hsd Hle Hadv Hwp]; subst b0 len0.
      - destruct (hview_det _ _ _ _ _ _ _ _ _ _ Ev Emp Hv) as (_ & _ & [(Hx & _)|(bs' & bl' & Hx & Hy)]); discriminate.
      - destruct (hview_det _ _ _ _ _ _ _ _ _ _ Ev Emp Hv) as (-> & _ & [(Hx & _)|(bs' & bl' & Hx & Hy)]); [discriminate|].
        inversion Hx; subst bs' bl'. assert (Eb : bnd' = bnd) by (inversion Hy; reflexivity). rewrite Eb in *. clear Eb Hy.
        rewrite <- Hblen in Hsd, Hadv, Hwp.
        exists q0. auto. }
    destruct Hwfm as (q0 & Hfd & Hcl & Hsd & Hadv & Hwp).
    set (u := sub m (b + h) (len - h)) in *.
    assert (Hul : length u = len - h) by (unfold u; apply sub_length; lia).
    assert (Hd : delim_at bnd u q0 = true).
    { unfold find_delim in Hfd. pose proof (find_delim_from_spec bnd u (length u) 0 ltac:(intros; lia)) as Hs.
      rewrite Hfd in Hs. apply Hs. }
    destruct (delim_at_content _ _ _ Hd) as (Hr & He & Hpre & _). rewrite Hul in Hr. rewrite <- Hblen in Hr, Hpre.
    rewrite (find_boundary_find_delim m (b + h) (len - h) bnd ltac:(lia) (bnd_no_eol bnd Hbok)). fold u. rewrite Hfd. cbn [bind].
    rewrite <- Hblen. destruct (Nat.eqb_spec (q0 + 3 + bl) 0) as [|_]; [lia|].
    assert (Et : t = []) by (apply Ht; left; lia). subst t.
    assert (Ech : ch = []) by (apply Hcht; reflexivity). subst ch. rewrite app_nil_r in U2. cbn [app] in Eo1.
    (* the preamble with the first delimiter *)
    assert (EPRE : sub m (b + h) (q0 + 3 + bl) = sub m (b + h) (S q0) ++ DD ++ bnd).
    { rewrite <- (firstn_sub (b + h) (len - h) (q0 + 3 + bl)) by lia. fold u. rewrite Hpre.
      unfold u. rewrite firstn_sub by lia. reflexivity. }
    rewrite (need_recode_ok m (b + h) (q0 + 3 + bl)) by lia. cbn [bind]. rewrite EPRE.
    rewrite (clean_flags _ Hcl).
    destruct (plain_content m ext8 D0 (b + h) (q0 + 3 + bl) st1 ltac:(lia)) as (st2 & t2 & c2 & E2 & G2 & Eo2 & Hc2 & _ & Ec2);
      [rewrite EPRE; apply flags_any_none; apply clean_flags; exact Hcl|exact Gt|].
    rewrite EPRE in Eo2, Ec2.
    assert (Hopen : open_line false (sub m (b + h) (S q0) ++ DD ++ bnd) = true).
    { assert (Hne : DD ++ bnd <> []) by discriminate.
      destruct (sub m (b + h) (S q0) ++ DD ++ bnd) as [|x r] eqn:Ex; [destruct (sub m (b + h) (S q0)); discriminate|].
      unfold open_line. rewrite <- Ex. rewrite ends_eol_app by exact Hne.
      rewrite ends_eol_last by exact Hne. apply Bool.negb_true_iff.
      assert (Hin : In (nth (length (DD ++ bnd) - 1) (DD ++ bnd) 0%N) (DD ++ bnd)) by (apply nth_In; cbn [length app DD]; lia).
      revert Hin. generalize (nth (length (DD ++ bnd) - 1) (DD ++ bnd) 0%N). intros x0 Hin.
      apply in_app_or in Hin as [Hin|Hin].
      - destruct Hin as [<-|[<-|[]]]; reflexivity.
      - apply (proj1 (Forall_forall _ _) (bnd_no_eol bnd Hbok)) in Hin. exact Hin. }
    rewrite Hopen in Ec2. subst c2.
    rewrite E2. cbn [bind]. cbv zeta.
    rewrite (dash_is_starts b len h (q0 + 3 + bl) Hw ltac:(lia)). fold u. rewrite Hsd. cbn [bind].
    destruct (Nat.ltb_spec len (h + (q0 + 3 + bl))) as [|_]; [lia|].
    replace (b + (h + (q0 + 3 + bl))) with (b + h + (q0 + 3 + bl)) by lia.
    replace (len - (h + (q0 + 3 + bl))) with (len - h - (q0 + 3 + bl)) by lia.
    destruct (tpad_step (b + h) (len - h) (q0 + 3 + bl) ltac:(lia) ltac:(lia)) as (tp & Etp & Htp & Htl). fold u in Htp.
    rewrite Etp. cbn [bind]. subst tp.
    pose proof (lit_crlf ext8 D0 st2 t2 (good_good0 _ _ _ _ G2)) as G4. set (st4 := wr st2 CRLF) in *.
    assert (Eo4 : outof st4 = outof st ++ X1 ++ X2 ++ stuff (split_lines (sub m (b + h) (S q0) ++ DD ++ bnd))).
    { unfold st4. rewrite outof_wr, Eo2, Eo1, <- !app_assoc. reflexivity. }
    set (adv := q0 + 3 + bl + tpad_len (skipn (q0 + 3 + bl) u)) in *.
    destruct (parts_content (send_qp fu m helo ext8) b len bnd bl Hw Hblen Hbok) with (fuel2 := S len) (off := h + adv) (st := st4)
      as (r & Er & Hr'); [|unfold adv; lia|lia|exact G4| |].
    { intros b' len' st' H1 H2 H3 G' W'. apply IH; [lia|lia|exact H3|exact G'|exact W']. }
    { replace (b + (h + adv)) with (b + h + adv) by lia. replace (len - (h + adv)) with (len - h - adv) by lia. exact Hwp. }
    replace (h + (q0 + 3 + bl) + tpad_len (skipn (q0 + 3 + bl) u)) with (h + adv) by (unfold adv; lia).
    exists r. split; [exact Er|]. destruct r as [u1 st5|why st5]; [|exact Hr'].
    destruct Hr' as (t5 & W5 & c5 & G5 & Ht5 & Eo5 & Hc5 & HP5).
    exists t5, (X1 ++ X2 ++ stuff (split_lines (sub m (b + h) (S q0) ++ DD ++ bnd)) ++ W5), c5.
    split; [exact G5|]. split; [exact Ht5|]. split; [rewrite Eo5, Eo4, <- !app_assoc; reflexivity|]. split; [exact Hc5|].
    apply (es_multi m ext8 (MK helo) hview b len h bnd s l X1 X2 q0 W5).
    + exists ct, (MpYes bs bl). split; [exact Ev|]. split; [exact Emp|]. right. exists bs, bl. auto.
    + split; assumption.
    + exact Hfd.
    + fold u. rewrite <- Hblen. fold adv.
      replace (b + h + adv) with (b + (h + adv)) by lia. replace (len - h - adv) with (len - (h + adv)) by lia. exact HP5.
Qed.

End Walk.

(** send_data on a well-formed message that takes the recoding path and completes *)
Theorem send_data_multipart_content (m helo : bytes) (ext8 : bool) :
  helo_ok helo -> byte_list m -> wf_ent m ext8 (hview m) 0 (length m) ->
  forall fl st, send_data m helo ext8 = Ok (fl, true, Done tt st) ->
  exists W extra, outof st = W ++ extra ++ TERMINATOR /\ (extra = [] \/ extra = CRLF) /\
                  ent_sent m ext8 (MK helo) (hview m) 0 (length m) W.
Proof.
  intros Hhelo Hb Hwf fl st H. unfold send_data in H. cbv zeta in H.
  assert (Hw : 0 + length m <= length m) by lia.
  rewrite (need_recode_ok m 0 (length m) Hw) in H. cbn [bind] in H.
  assert (Em : sub m 0 (length m) = m) by (unfold sub; cbn [skipn]; apply firstn_all).
  rewrite Em in H. set (rf := nr_fun m flags0 0 false) in *. set (st0 := mkSt [] true) in *.
  destruct (takes_qp ext8 rf) eqn:Eq.
  2: { destruct (liftS (send_plain m 0 (length m) st0)) as [r| |]; cbn [bind] in H; try discriminate.
       destruct r; inversion H. }
  assert (Hl : 1 <= length m).
  { destruct m as [|c0 r0]; [|cbn [length]; lia]. exfalso. unfold rf in Eq. destruct ext8; vm_compute in Eq; discriminate. }
  assert (G0 : good ext8 [] st0 []) by (apply (good_init ext8 st0)).
  destruct (entity_content m helo ext8 Hhelo Hb [] (S (length m)) 0 (length m) st0 Hw ltac:(lia) Hl G0 Hwf) as (r & Er & Hr).
  rewrite Er in H. cbn [bind] in H. destruct r as [u st1|why st1]; [|discriminate].
  inversion H; subst fl st. clear H.
  destruct Hr as (t & W & c & Gt & _ & Eo & (Hc & Hct) & HS). change (outof st0) with (@nil N) in Eo. cbn [app] in Eo.
  rewrite outof_wr. destruct (lastlf st1) eqn:Elf.
  - assert (Et : t = []) by (destruct Gt as (? & _ & _ & _ & Hlf); apply Hlf; exact Elf).
    assert (Ec : c = []) by (apply Hct; exact Et). subst c. rewrite app_nil_r in Eo.
    exists W, []. split; [rewrite Eo; reflexivity|]. split; [left; reflexivity|exact HS].
  - destruct Hc as [->| ->].
    + rewrite app_nil_r in Eo. exists W, CRLF. split; [rewrite Eo, term_nolf; reflexivity|]. split; [right; reflexivity|exact HS].
    + exists W, []. split; [rewrite <- Eo, term_nolf, <- !app_assoc; reflexivity|]. split; [left; reflexivity|exact HS].
Qed.

(** Proofs about Model/NetWriten.v: the reply produced by net_writen is a valid
    SMTP reply carrying the complete text, for all s0 / parts in the contract. *)
From Qv Require Import Common.Bytes Gen.GenNetio Model.NetWriten Spec.ReplySpec.

Ltac consts := unfold NW_MSG, NW_FLUSH_MARGIN, NW_LONG_ADD, NW_WIN_MARGIN, NW_SCAN_MARGIN,
  NW_BRUTE_MARGIN, NW_OFF_BACK, NW_HDR, NW_LEN_RESET in *.

(** the blank search *)
Lemma last_sp_scan_spec rest : forall i off win found p,
  last_sp_scan rest i off win found = Some p ->
  (found = Some p) \/ (off <= p /\ p < off + win /\ i <= p /\ p < i + length rest).
Proof.
  induction rest as [|b rest IH]; intros i off win found p H; simpl in H.
  - left; exact H.
  - destruct (Nat.leb (off + win) i) eqn:E1; [left; exact H|].
    apply Nat.leb_gt in E1.
    destruct (Nat.leb off i && N.eqb b SP) eqn:E2.
    + apply IH in H. destruct H as [H|H].
      * inversion H; subst. right. apply andb_true_iff in E2 as [E2 _].
        apply Nat.leb_le in E2. simpl. lia.
      * right. simpl. lia.
    + apply IH in H. destruct H as [H|H]; [left; exact H|right; simpl; lia].
Qed.

Lemma last_sp_window_spec s off win p :
  last_sp_window s off win = Some p -> off <= p /\ p < off + win /\ p < length s.
Proof.
  unfold last_sp_window. intros H. apply last_sp_scan_spec in H.
  destruct H as [H|H]; [discriminate|]. lia.
Qed.

Definition dashline (code t : bytes) : bytes := code ++ [DASH] ++ t ++ CRLF.

Lemma sub_sub_concat {A} (s : list A) a b c :
  a <= b -> b <= c -> sub s a (b - a) ++ sub s b (c - b) = sub s a (c - a).
Proof.
  intros H1 H2. unfold sub.
  replace (skipn b s) with (skipn (b - a) (skipn a s)) by (rewrite skipn_skipn'; f_equal; lia).
  replace (c - a) with ((b - a) + (c - b)) by lia.
  generalize (skipn a s) as t. intros t.
  rewrite firstn_add'. reflexivity.
Qed.

(** the long-part loop: emits continuation lines, each carrying at most 505
    text bytes, consuming [s] from [off] to the returned offset, and leaves at
    most 506 bytes for the caller. *)
Lemma long_loop_spec code : length code = 3 ->
  forall fuel s off acc,
  off <= length s -> length s - off < fuel ->
  exists ts off',
    long_loop fuel (code ++ [DASH]) s off acc = Ok (acc ++ map (dashline code) ts, off')
    /\ off <= off' /\ off' <= length s /\ length s <= off' + 506
    /\ concat ts = sub s off (off' - off)
    /\ Forall (fun t => length t <= 506) ts.
Proof.
  intros Hc fuel. induction fuel as [|fuel IH]; intros s off acc Hoff Hfuel; [lia|].
  cbn [long_loop]. consts.
  destruct (Nat.ltb (off + (512 - 6)) (length s)) eqn:Elong.
  2:{ apply Nat.ltb_ge in Elong. exists [], off. simpl. rewrite app_nil_r.
      repeat split; try lia; [unfold sub; rewrite Nat.sub_diag; reflexivity|constructor]. }
  apply Nat.ltb_lt in Elong.
  set (sp := match last_sp_window s off (512 - 6) with Some p => p | None => off end).
  assert (Hsp : off <= sp /\ sp < off + 506 /\ sp <= length s).
  { unfold sp. destruct (last_sp_window s off (512 - 6)) eqn:E.
    - apply last_sp_window_spec in E. lia.
    - lia. }
  set (m := if Nat.eqb (sp - off) 0 then 512 - 8 else sp - off).
  assert (Hm : 1 <= m /\ m <= 505 /\ off + m <= length s).
  { unfold m. destruct (Nat.eqb (sp - off) 0) eqn:E.
    - lia.
    - apply Nat.eqb_neq in E. lia. }
  destruct (Nat.ltb 512 (4 + m + 2)) eqn:E1; [apply Nat.ltb_lt in E1; lia|].
  destruct (Nat.ltb (length s) (off + m)) eqn:E2; [apply Nat.ltb_lt in E2; lia|].
  replace (off + (m + 4 + 2 - 6)) with (off + m) by lia.
  destruct (IH s (off + m) (acc ++ [firstn 4 (code ++ [DASH]) ++ sub s off m ++ CRLF]))
    as (ts & off' & Heq & H1 & H2 & H3 & H5 & H6); [lia|lia|].
  exists (sub s off m :: ts), off'.
  rewrite Heq. split.
  { rewrite (firstn_all2 (n:=4) (code ++ [DASH])) by (rewrite app_length; simpl; lia).
    f_equal. f_equal. rewrite <- app_assoc. f_equal. cbn [map app]. f_equal.
    unfold dashline. rewrite <- !app_assoc. reflexivity. }
  repeat split; try lia.
  - cbn [concat]. rewrite H5.
    replace m with ((off + m) - off) at 1 by lia.
    apply sub_sub_concat; lia.
  - constructor; [|exact H6]. rewrite sub_length; lia.
Qed.

(** invariant of the loop over the parts *)
Inductive inv (code : bytes) (c : N) (consumed : bytes) (msg : bytes) (out : list bytes) : Prop :=
| Build_inv (inv_done : list bytes) (inv_cur : bytes)
    (inv_msg : msg = code ++ [c] ++ inv_cur)
    (inv_len : length msg <= 510)
    (inv_out : out = map (dashline code) inv_done)
    (inv_text : concat inv_done ++ inv_cur = consumed)
    (inv_short : Forall (fun t => length t <= 506) inv_done).

Lemma set_nth3_code (code : bytes) (c d : N) (t : bytes) : length code = 3 ->
  set_nth3 (code ++ [c] ++ t) d = code ++ [d] ++ t.
Proof.
  intros H. destruct code as [|x1 [|x2 [|x3 [|x4 code]]]]; try discriminate. reflexivity.
Qed.

Lemma firstn4_code (code : bytes) (d : N) (t : bytes) : length code = 3 ->
  firstn 4 (code ++ [d] ++ t) = code ++ [d].
Proof.
  intros H. destruct code as [|x1 [|x2 [|x3 [|x4 code]]]]; try discriminate. reflexivity.
Qed.

Lemma part_step_inv code c consumed msg out p : length code = 3 ->
  inv code c consumed msg out ->
  exists msg' out', part_step msg out p = Ok (msg', out')
    /\ inv code c (consumed ++ p) msg' out'.
Proof.
  intros Hc [done cur Hmsg Hlen Hout Htext Hshort].
  unfold part_step. consts.
  destruct (Nat.ltb (512 - 2) (length msg + length p)) eqn:Eflush.
  2:{ apply Nat.ltb_ge in Eflush.
      destruct (Nat.ltb 512 (length msg + length p)) eqn:E; [apply Nat.ltb_lt in E; lia|].
      eexists _, _. split; [reflexivity|].
      apply (Build_inv _ _ _ _ _ done (cur ++ p)).
      - subst msg. now rewrite <- !app_assoc.
      - rewrite app_length. lia.
      - exact Hout.
      - rewrite app_assoc. now rewrite Htext.
      - exact Hshort. }
  apply Nat.ltb_lt in Eflush.
  destruct (Nat.ltb 512 (length msg + 2)) eqn:E3; [apply Nat.ltb_lt in E3; lia|].
  assert (Hn3 : nth 3 msg 0%N = c).
  { subst msg. rewrite app_nth2 by lia. replace (3 - length code) with 0 by lia. reflexivity. }
  rewrite Hn3.
  assert (Hd : set_nth3 msg DASH = code ++ [DASH] ++ cur) by (subst msg; now apply set_nth3_code).
  rewrite Hd.
  assert (H4 : firstn 4 (code ++ [DASH] ++ cur) = code ++ [DASH]).
  { now apply firstn4_code. }
  rewrite H4.
  assert (Hcurlen : length cur <= 506).
  { subst msg. rewrite !app_length in Hlen. simpl in Hlen. lia. }
  assert (Hset : set_nth3 (code ++ [DASH]) c = code ++ [c]).
  { replace (code ++ [DASH]) with (code ++ [DASH] ++ []) by reflexivity.
    rewrite set_nth3_code by exact Hc. reflexivity. }
  destruct (Nat.ltb 512 (length p + 6)) eqn:Elong.
  - apply Nat.ltb_lt in Elong.
    destruct (long_loop_spec code Hc (S (length p)) p 0
                (out ++ [(code ++ [DASH] ++ cur) ++ CRLF]))
      as (ts & off' & Heq & H1 & H2 & H3 & H6 & H7); [lia|lia|].
    rewrite Heq. cbn [bind].
    destruct (Nat.ltb 512 (4 + (length p - off'))) eqn:E4; [apply Nat.ltb_lt in E4; lia|].
    eexists _, _. split; [reflexivity|].
    apply (Build_inv _ _ _ _ _ (done ++ [cur] ++ ts) (sub p off' (length p - off'))).
    + rewrite Hset. now rewrite <- app_assoc.
    + rewrite Hset. rewrite !app_length, sub_length by lia. simpl. lia.
    + rewrite Hout. rewrite !map_app. rewrite <- app_assoc. f_equal. simpl. f_equal.
      unfold dashline. now rewrite <- !app_assoc.
    + rewrite !concat_app. simpl. rewrite app_nil_r. rewrite <- !app_assoc.
      rewrite (app_assoc (concat done) cur). rewrite Htext. f_equal.
      rewrite H6. replace (off' - 0) with off' by lia.
      replace off' with (off' - 0) at 1 by lia.
      rewrite sub_sub_concat by lia. unfold sub. simpl.
      rewrite Nat.sub_0_r. now rewrite firstn_all.
    + apply Forall_app. split; [exact Hshort|]. constructor; [exact Hcurlen|exact H7].
  - apply Nat.ltb_ge in Elong. cbn [bind].
    replace (length p - 0) with (length p) by lia.
    destruct (Nat.ltb 512 (4 + length p)) eqn:E4; [apply Nat.ltb_lt in E4; lia|].
    eexists _, _. split; [reflexivity|].
    apply (Build_inv _ _ _ _ _ (done ++ [cur]) p).
    + rewrite Hset. unfold sub. simpl. rewrite firstn_all. now rewrite <- app_assoc.
    + rewrite Hset. unfold sub. simpl. rewrite firstn_all. rewrite !app_length. simpl. lia.
    + rewrite Hout. rewrite map_app. f_equal. simpl. f_equal.
      unfold dashline. now rewrite <- !app_assoc.
    + rewrite concat_app. simpl. rewrite app_nil_r. now rewrite Htext.
    + apply Forall_app. split; [exact Hshort|]. constructor; [exact Hcurlen|constructor].
Qed.

Lemma parts_loop_inv code c : length code = 3 -> forall ps consumed msg out,
  inv code c consumed msg out ->
  exists msg' out', parts_loop msg out ps = Ok (msg', out')
    /\ inv code c (consumed ++ concat ps) msg' out'.
Proof.
  intros Hc ps. induction ps as [|p ps IH]; intros consumed msg out Hinv.
  - exists msg, out. simpl. rewrite app_nil_r. auto.
  - destruct (part_step_inv code c consumed msg out p Hc Hinv) as (msg1 & out1 & Hs & Hinv1).
    cbn [parts_loop]. rewrite Hs. cbn [bind].
    destruct (IH _ _ _ Hinv1) as (msg2 & out2 & Hl & Hinv2).
    exists msg2, out2. split; [exact Hl|]. simpl. now rewrite app_assoc.
Qed.

Lemma render_snoc code c ts t : render code c (ts ++ [t]) = map (dashline code) ts ++ [code ++ [c] ++ t ++ CRLF].
Proof.
  induction ts as [|x ts IH]; [reflexivity|].
  rewrite <- app_comm_cons. cbn [map]. rewrite <- app_comm_cons. rewrite <- IH.
  destruct (ts ++ [t]) eqn:E; [destruct ts; discriminate|]. reflexivity.
Qed.

Lemma concat_no_crlf (ts : list bytes) : no_crlf (concat ts) -> Forall no_crlf ts.
Proof.
  induction ts as [|t ts IH]; intros H; [constructor|].
  simpl in H. unfold no_crlf in H. apply Forall_app in H as [H1 H2].
  constructor; [exact H1|apply IH; exact H2].
Qed.

Theorem net_writen_valid s0 code c t0 parts :
  pre_s0 s0 code c t0 -> no_crlf (t0 ++ concat parts) ->
  exists ls, net_writen s0 parts = Ok ls
    /\ valid_reply_for code c (t0 ++ concat parts) ls.
Proof.
  intros (Hs0 & Hc & Hlen) Hclean.
  unfold net_writen. consts.
  destruct (Nat.ltb 512 (length s0)) eqn:E; [apply Nat.ltb_lt in E; lia|].
  assert (Hinv0 : inv code c t0 s0 []).
  { apply (Build_inv _ _ _ _ _ [] t0); [exact Hs0|lia|reflexivity|reflexivity|constructor]. }
  destruct (parts_loop_inv code c Hc parts _ _ _ Hinv0) as (msg & out & Hl & [done cur Hmsg Hmlen Hout Htext Hshort]).
  rewrite Hl. cbn [bind].
  destruct (Nat.ltb 512 (length msg + 2)) eqn:E2; [apply Nat.ltb_lt in E2; lia|].
  eexists. split; [reflexivity|].
  exists (done ++ [cur]). repeat split.
  - destruct done; discriminate.
  - rewrite render_snoc. rewrite Hout, Hmsg. now rewrite <- !app_assoc.
  - rewrite concat_app. simpl. now rewrite app_nil_r.
  - apply Forall_app. split; [exact Hshort|]. constructor; [|constructor].
    subst msg. rewrite !app_length in Hmlen. simpl in Hmlen. lia.
  - apply concat_no_crlf. rewrite concat_app. simpl. rewrite app_nil_r, Htext. exact Hclean.
Qed.

(** Proofs about check_ipbl_file (binary IP lists): -1 iff the size is not a
    multiple of the record size or some prefix length is out of range, else 1
    iff the client lies in one of the listed networks. *)
From Qv Require Import Common.Bytes Gen.GenControl Model.MatchNet Spec.ControlSpec Proofs.MatchNetProofs.
From Coq Require Import ZifyN ZifyBool ZifyNat.

Ltac iconsts := unfold IPBL_MINMASK, IPBL_BYTE_BITS, IPBL_REC_EXTRA, IN_ADDR_LEN, IN6_ADDR_LEN in *.

Lemma mask_in_range_valid (iplen : nat) (r : bytes) :
  mask_in_range iplen (rec_mask iplen r) = rec_valid iplen r.
Proof.
  unfold mask_in_range, rec_valid. iconsts.
  set (m := rec_mask iplen r).
  change (N.of_nat 8) with 8%N.
  destruct (N.ltb m 8) eqn:E1, (N.ltb (N.of_nat (8 * iplen)) m) eqn:E2,
           (N.leb 8 m) eqn:E3, (N.leb m (N.of_nat (8 * iplen))) eqn:E4; try reflexivity; exfalso;
    rewrite ?N.ltb_lt, ?N.ltb_ge, ?N.leb_le, ?N.leb_gt in *; lia.
Qed.

Lemma concat_length (n : nat) (recs : list bytes) :
  Forall (fun r => length r = n) recs -> length (concat recs) = length recs * n.
Proof.
  induction 1 as [|r recs Hr _ IH]; [reflexivity|].
  cbn [concat length]. rewrite app_length, IH, Hr. lia.
Qed.

Section Records.
  Variable iplen : nat.
  Variable matchf : bytes -> bytes -> N -> Cres bool.
  Variable innet : bytes -> bytes -> N -> bool.
  Variable ip : bytes.
  Variable good : bytes -> Prop.      (* what the matcher needs to know about a record, e.g. "made of octets" *)

  Let reclen := iplen + 1.

  Lemma rec_head (r : bytes) (rest : bytes) :
    length r = reclen ->
    nth_error (r ++ rest) iplen = Some (rec_mask iplen r).
  Proof.
    intros Hl. unfold rec_mask. rewrite nth_error_app1 by (unfold reclen in Hl; lia).
    apply nth_error_nth'. unfold reclen in Hl. lia.
  Qed.

  Lemma validate_spec (recs : list bytes) : forall fuel,
    Forall (fun r => length r = reclen) recs -> length recs < fuel ->
    ipbl_validate fuel iplen (concat recs) = Ok (forallb (rec_valid iplen) recs).
  Proof.
    induction recs as [|r recs IH]; intros fuel Hall Hf.
    - destruct fuel; [lia|]. reflexivity.
    - destruct fuel as [|fuel]; [cbn in Hf; lia|].
      inversion Hall as [|? ? Hr Hrs]; subst.
      cbn [concat ipbl_validate forallb].
      destruct (r ++ concat recs) as [|x xs] eqn:Ecur.
      { apply (f_equal (@length N)) in Ecur. rewrite app_length, Hr in Ecur. unfold reclen in Ecur. cbn in Ecur. lia. }
      rewrite <- Ecur. rewrite rec_head by assumption.
      rewrite mask_in_range_valid.
      destruct (rec_valid iplen r); [|reflexivity]. cbn [andb].
      iconsts. fold reclen. rewrite skipn_app, skipn_all2, <- Hr, Nat.sub_diag by lia.
      cbn [app skipn]. apply IH; [assumption|cbn in Hf; lia].
  Qed.

  Variable matchf_ok : forall r, length r = reclen -> good r -> rec_valid iplen r = true ->
    matchf ip r (rec_mask iplen r) = Ok (innet ip r (rec_mask iplen r)).

  Lemma scan_spec (recs : list bytes) : forall fuel,
    Forall (fun r => length r = reclen) recs -> Forall good recs -> length recs < fuel ->
    forallb (rec_valid iplen) recs = true ->
    ipbl_scan fuel iplen matchf ip (concat recs) =
    Ok (existsb (fun r => innet ip r (rec_mask iplen r)) recs).
  Proof.
    induction recs as [|r recs IH]; intros fuel Hall Hgood Hf Hv.
    - destruct fuel; [lia|]. reflexivity.
    - destruct fuel as [|fuel]; [cbn in Hf; lia|].
      inversion Hall as [|? ? Hr Hrs]; subst.
      inversion Hgood as [|? ? Hg Hgs]; subst.
      cbn [forallb] in Hv. apply andb_true_iff in Hv as [Hv1 Hv2].
      cbn [concat ipbl_scan existsb].
      destruct (r ++ concat recs) as [|x xs] eqn:Ecur.
      { apply (f_equal (@length N)) in Ecur. rewrite app_length, Hr in Ecur. unfold reclen in Ecur. cbn in Ecur. lia. }
      rewrite <- Ecur. rewrite rec_head by assumption.
      iconsts. fold reclen.
      replace (Nat.ltb (length (r ++ concat recs)) reclen) with false
        by (symmetry; apply Nat.ltb_ge; rewrite app_length; lia).
      rewrite firstn_app, firstn_all2, <- Hr, Nat.sub_diag by lia. cbn [firstn]. rewrite app_nil_r.
      rewrite matchf_ok by assumption. cbn [bind].
      destruct (innet ip r (rec_mask iplen r)); [reflexivity|]. cbn [orb].
      rewrite skipn_app, skipn_all2, Nat.sub_diag by lia. cbn [app skipn].
      apply IH; [assumption|assumption|cbn in Hf; lia|assumption].
  Qed.

  Theorem check_ipbl_records (recs : list bytes) :
    Forall (fun r => length r = reclen) recs -> Forall good recs ->
    check_ipbl_file iplen matchf ip (concat recs) = Ok (ipbl_spec iplen innet ip recs).
  Proof.
    intros Hall Hgood. unfold check_ipbl_file, ipbl_spec. iconsts. fold reclen.
    pose proof (concat_length reclen recs Hall) as Hlen.
    assert (Hpos : 0 < reclen) by (unfold reclen; lia).
    rewrite Hlen, Nat.mod_mul by lia. cbn [Nat.eqb negb].
    rewrite validate_spec by (auto; nia). cbn [bind].
    destruct (forallb (rec_valid iplen) recs) eqn:Hv; [|reflexivity]. cbn [negb].
    rewrite scan_spec by (auto; nia). cbn [bind].
    destruct (existsb _ recs); reflexivity.
  Qed.

  Theorem check_ipbl_bad_size (buf : bytes) :
    length buf mod reclen <> 0 -> check_ipbl_file iplen matchf ip buf = Ok (-1)%Z.
  Proof.
    intros H. unfold check_ipbl_file. iconsts. fold reclen.
    apply Nat.eqb_neq in H. rewrite H. reflexivity.
  Qed.

End Records.

(** every file whose size is a multiple of the record size is a sequence of records *)
Lemma chunks_spec (reclen fuel : nat) : forall (l : bytes),
  reclen <> 0 -> length l mod reclen = 0 -> length l <= fuel ->
  concat (chunks fuel reclen l) = l /\ Forall (fun r => length r = reclen) (chunks fuel reclen l).
Proof.
  induction fuel as [|fuel IH]; intros l Hpos Hm Hf.
  - destruct l; [split; [reflexivity|constructor]|cbn in Hf; lia].
  - destruct l as [|x l']; [split; [reflexivity|constructor]|].
    set (l := x :: l') in *. cbn [chunks]. unfold l at 1. fold l.
    apply Nat.mod_divides in Hm as [c Hc]; [|assumption].
    assert (Hc1 : c <> 0) by (intros ->; unfold l in Hc; cbn in Hc; lia).
    assert (Hge : reclen <= length l) by nia.
    destruct (IH (skipn reclen l)) as [E F].
    + assumption.
    + rewrite skipn_length, Hc. replace (reclen * c - reclen) with ((c - 1) * reclen) by nia.
      apply Nat.mod_mul. assumption.
    + rewrite skipn_length. unfold l in *. cbn [length] in *. lia.
    + split.
      * cbn [concat]. rewrite E. apply firstn_skipn.
      * constructor; [|assumption]. rewrite firstn_length. lia.
Qed.

Lemma chunks_ok (reclen fuel : nat) : forall (l : bytes),
  bytes_ok l -> Forall bytes_ok (chunks fuel reclen l).
Proof.
  induction fuel as [|fuel IH]; intros l Hl; [constructor|].
  cbn [chunks]. destruct l as [|x l']; [constructor|].
  constructor.
  - apply Forall_firstn. assumption.
  - apply IH. apply Forall_skipn. assumption.
Qed.

(** ------------------------------------------------------------ the two instances, for every file content *)
Section Files.
  Variable iplen : nat.
  Variable matchf : bytes -> bytes -> N -> Cres bool.
  Variable innet : bytes -> bytes -> N -> bool.
  Variable ip : bytes.
  Variable matchf_ok : forall r, length r = iplen + 1 -> bytes_ok r -> rec_valid iplen r = true ->
    matchf ip r (rec_mask iplen r) = Ok (innet ip r (rec_mask iplen r)).

  Theorem check_ipbl_file_correct (buf : bytes) :
    bytes_ok buf ->
    check_ipbl_file iplen matchf ip buf = Ok (ipbl_file_spec iplen innet ip buf).
  Proof.
    intros Hbuf. unfold ipbl_file_spec.
    destruct (Nat.eqb (length buf mod (iplen + 1)) 0) eqn:E.
    - apply Nat.eqb_eq in E.
      destruct (chunks_spec (iplen + 1) (length buf) buf ltac:(lia) E (le_n _)) as [Ec Fc].
      rewrite <- Ec at 1.
      apply (check_ipbl_records iplen matchf innet ip bytes_ok matchf_ok); [assumption|].
      apply chunks_ok. assumption.
    - apply Nat.eqb_neq in E. apply check_ipbl_bad_size. assumption.
  Qed.
End Files.

Theorem check_ip4_correct (ip buf : bytes) :
  length ip = 16 -> bytes_ok ip -> bytes_ok buf ->
  check_ip4 ip buf = Ok (ipbl_file_spec 4 in_net4b ip buf).
Proof.
  intros Hl Hip Hbuf. unfold check_ip4. iconsts.
  apply check_ipbl_file_correct; [|assumption].
  intros r Hr Hok Hv. apply ip4_matchnet_correct; try assumption; try lia.
  unfold rec_valid in Hv. apply andb_true_iff in Hv as [_ Hv]. apply N.leb_le in Hv. cbn in Hv. lia.
Qed.

Theorem check_ip6_correct (ip buf : bytes) :
  length ip = 16 -> bytes_ok ip -> bytes_ok buf ->
  check_ip6 ip buf = Ok (ipbl_file_spec 16 in_net6b ip buf).
Proof.
  intros Hl Hip Hbuf. unfold check_ip6. iconsts.
  apply check_ipbl_file_correct; [|assumption].
  intros r Hr Hok Hv. apply ip6_matchnet_correct; try assumption; try lia.
  unfold rec_valid in Hv. apply andb_true_iff in Hv as [_ Hv]. apply N.leb_le in Hv. cbn in Hv. lia.
Qed.

(** ------------------------------------------------------------ the unpatched code (F-C16-2):
    192.0.2.0/24 followed by a record with prefix length 7, client 192.0.2.1 *)
Lemma check_ipbl_orig_lazy :
  let ip := [0;0;0;0;0;0;0;0;0;0;255;255;192;0;2;1]%N in
  let buf := [192;0;2;0;24; 192;0;2;0;7]%N in
  check_ipbl_file_orig 4 ip4_matchnet ip buf = Ok 1%Z /\ ipbl_file_spec 4 in_net4b ip buf = (-1)%Z.
Proof. vm_compute. split; reflexivity. Qed.

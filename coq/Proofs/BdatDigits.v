(** Decimal digits: the digit-count loops of send_bdat and lib/fmt.c:ultostr. *)
From Qv Require Import Common.Bytes Gen.GenBdat Model.BdatTx Spec.BdatSpec.
Require Import Lia.

Ltac bd_consts := unfold BD_BASE, BD_RESERVE, BD_CS_MARGIN, BD_SKIP_MARGIN, BD_HDR_FIXED, BD_LAST_ADD, BD_CMD_LEN,
  BD_LAST_BACK, BD_LAST_LEN, BD_NUM_OFF, BD_CR_BACK, BD_LF_BACK, UL_BASE in *.

Lemma div10_lt i : 0 < i -> i / 10 < i.
Proof. intros H. apply Nat.div_lt; lia. Qed.

Lemma ndigits_loop_enough : forall f g i, i <= f -> i <= g -> ndigits_loop f 10 i = ndigits_loop g 10 i.
Proof.
  induction f as [|f IH]; intros g i Hf Hg.
  - assert (i = 0) by lia; subst. destruct g; reflexivity.
  - destruct g as [|g].
    + assert (i = 0) by lia; subst. reflexivity.
    + cbn [ndigits_loop]. destruct (Nat.eqb_spec i 0) as [E|E]; [reflexivity|].
      f_equal. pose proof (div10_lt i ltac:(lia)). apply IH; lia.
Qed.

Lemma ndigits_0 : ndigits 0 = 0.
Proof. reflexivity. Qed.

Lemma ndigits_pos i : 0 < i -> ndigits i = S (ndigits (i / 10)).
Proof.
  intros H. unfold ndigits. bd_consts. destruct i as [|i]; [lia|].
  cbn [ndigits_loop]. change (Nat.eqb (S i) 0) with false. cbv iota.
  f_equal. pose proof (div10_lt (S i) H). apply ndigits_loop_enough; lia.
Qed.

Lemma ndigits_ge1 i : 0 < i -> 1 <= ndigits i.
Proof. intros H. rewrite ndigits_pos by exact H. lia. Qed.

Lemma ndigits_mono : forall m n, n <= m -> ndigits n <= ndigits m.
Proof.
  induction m as [m IH] using lt_wf_ind. intros n Hn.
  destruct (Nat.eq_dec n 0) as [->|Hn0]; [rewrite ndigits_0; lia|].
  rewrite (ndigits_pos n) by lia. rewrite (ndigits_pos m) by lia.
  apply le_n_S. apply IH.
  - apply div10_lt; lia.
  - apply Nat.div_le_mono; lia.
Qed.

(** a chunk size of at least 16 leaves room for the reserved header and one line octet *)
Lemma ndigits_room : forall c, 16 <= c -> ndigits c + 14 <= c.
Proof.
  induction c as [c IH] using lt_wf_ind. intros Hc.
  destruct (Nat.lt_ge_cases c 160) as [Hs|Hb].
  - destruct (Nat.lt_ge_cases c 100) as [H1|H1].
    + assert (ndigits c <= ndigits 99) by (apply ndigits_mono; lia).
      assert (ndigits 99 = 2) by (vm_compute; reflexivity). lia.
    + assert (ndigits c <= ndigits 159) by (apply ndigits_mono; lia).
      assert (ndigits 159 = 3) by (vm_compute; reflexivity). lia.
  - rewrite ndigits_pos by lia.
    assert (H16 : 16 <= c / 10) by (apply Nat.div_le_lower_bound; lia).
    assert (Hlt : c / 10 < c) by (apply div10_lt; lia).
    specialize (IH (c / 10) Hlt H16).
    assert (c / 10 + 1 <= c).
    { pose proof (Nat.div_mod c 10 ltac:(lia)). lia. }
    lia.
Qed.

(** ** ultostr *)
Definition nd1 (n : nat) : nat := if Nat.eqb n 0 then 1 else ndigits n.

Lemma ul_count_spec : forall f v j, v <= f -> ul_count f v j = j + (ndigits v - 1).
Proof.
  induction f as [|f IH]; intros v j Hv.
  - assert (v = 0) by lia; subst. cbn. lia.
  - cbn [ul_count]. bd_consts.
    destruct (Nat.eq_dec v 0) as [->|Hv0]; [cbn; lia|].
    rewrite (ndigits_pos v) by lia.
    destruct (Nat.eqb_spec (v / 10) 0) as [E|E].
    + rewrite E, ndigits_0. lia.
    + pose proof (div10_lt v ltac:(lia)).
      rewrite IH by lia. pose proof (ndigits_ge1 (v / 10) ltac:(lia)). lia.
Qed.

Lemma ul_count_nd1 u : ul_count u u 1 = nd1 u.
Proof.
  rewrite ul_count_spec by lia. unfold nd1.
  destruct (Nat.eqb_spec u 0) as [->|E]; [reflexivity|].
  pose proof (ndigits_ge1 u ltac:(lia)). lia.
Qed.

Definition digit (v : nat) : N := N.of_nat (48 + v mod 10).

Lemma ul_fill_acc : forall j v acc, ul_fill j v acc = ul_fill j v [] ++ acc.
Proof.
  induction j as [|j IH]; intros v acc; [reflexivity|].
  cbn [ul_fill]. rewrite IH. rewrite (IH _ [_]). rewrite <- app_assoc. reflexivity.
Qed.

Lemma ul_fill_S j v : ul_fill (S j) v [] = ul_fill j (v / 10) [] ++ [digit v].
Proof. cbn [ul_fill]. bd_consts. rewrite ul_fill_acc. reflexivity. Qed.

Lemma ul_fill_length : forall j v, length (ul_fill j v []) = j.
Proof.
  induction j as [|j IH]; intros v; [reflexivity|].
  rewrite ul_fill_S, app_length, IH. cbn. lia.
Qed.

Lemma digit_is_digit v : is_digit (digit v) = true.
Proof.
  unfold is_digit, digit. pose proof (Nat.mod_upper_bound v 10 ltac:(lia)).
  apply andb_true_iff; split; apply N.leb_le; lia.
Qed.

Lemma digit_val v : N.to_nat (digit v) - 48 = v mod 10.
Proof. unfold digit. rewrite Nat2N.id. lia. Qed.

Lemma ul_fill_digits : forall j v, Forall (fun c => is_digit c = true) (ul_fill j v []).
Proof.
  induction j as [|j IH]; intros v; [constructor|].
  rewrite ul_fill_S. apply Forall_app; split; [apply IH|]. constructor; [apply digit_is_digit|constructor].
Qed.

Lemma dec_val_snoc l c : dec_val (l ++ [c]) = 10 * dec_val l + (N.to_nat c - 48).
Proof. unfold dec_val. rewrite fold_left_app. reflexivity. Qed.

(** the digits written for v > 0 with j = number of digits: value v, no leading zero *)
Lemma ul_fill_value : forall v, 0 < v ->
  dec_val (ul_fill (ndigits v) v []) = v /\ hd 0%N (ul_fill (ndigits v) v []) <> 48%N.
Proof.
  induction v as [v IH] using lt_wf_ind. intros Hv.
  rewrite ndigits_pos by exact Hv. rewrite ul_fill_S.
  rewrite dec_val_snoc, digit_val.
  destruct (Nat.eq_dec (v / 10) 0) as [E|E].
  - rewrite E, ndigits_0. cbn [ul_fill app hd dec_val fold_left].
    pose proof (Nat.div_mod v 10 ltac:(lia)). split; [lia|].
    unfold digit. intros HH. apply (f_equal N.to_nat) in HH. rewrite Nat2N.id in HH.
    change (N.to_nat 48) with 48 in HH. lia.
  - destruct (IH (v / 10) (div10_lt v Hv) ltac:(lia)) as [Hval Hhd].
    rewrite Hval. pose proof (Nat.div_mod v 10 ltac:(lia)). split; [lia|].
    pose proof (ul_fill_length (ndigits (v / 10)) (v / 10)) as Hl.
    pose proof (ndigits_ge1 (v / 10) ltac:(lia)).
    remember (ul_fill (ndigits (v / 10)) (v / 10) []) as dl eqn:Edl.
    destruct dl as [|x l]; [cbn [length] in Hl; lia|].
    exact Hhd.
Qed.

Lemma ultostr_spec n :
  exists d, ultostr n = d ++ [0%N] /\ decimal_of n d /\ length d = nd1 n.
Proof.
  unfold ultostr. rewrite ul_count_nd1, ul_fill_acc.
  exists (ul_fill (nd1 n) n []). split; [reflexivity|]. split; [|apply ul_fill_length].
  unfold decimal_of, nd1. destruct (Nat.eqb_spec n 0) as [->|E].
  - cbn. repeat split; try congruence. constructor; [reflexivity|constructor].
  - destruct (ul_fill_value n ltac:(lia)) as [Hv Hh].
    pose proof (ul_fill_length (ndigits n) n) as Hl. pose proof (ndigits_ge1 n ltac:(lia)).
    repeat split.
    + intros H0. rewrite H0 in Hl. cbn in Hl. lia.
    + apply ul_fill_digits.
    + exact Hv.
    + intros H0. contradiction.
Qed.

(** Proofs about Model/ServerCert.v (find_servercert of qsmtpd/starttls.c, as fixed):
    for every local address of at most SC_IPMAX octets, every port of at most 5 octets, every
    answer of faccessat() and every number of calls, no access leaves the two 76-byte arrays and
    the result is 0 exactly when one of the three candidate certificate files exists;
    certfilename then names the most specific one.  The code as found (suffix written behind
    strlen(certfilename)) is refuted by a two-call witness. *)
From Qv Require Import Common.Bytes Gen.GenServerCert Model.ServerCert Spec.ServerCertSpec.
From Coq Require Import Lia.

Definition no_nul (b : bytes) : Prop := Forall (fun x => x <> 0%N) b.

Lemma consts : length SC_CERT = 22 /\ length SC_KEY = 21 /\ length SC_DIR = 8 /\ SC_BUF = 76 /\ SC_IPMAX = 45
  /\ SC_CERT = SC_DIR ++ CERTN /\ SC_KEY = SC_DIR ++ KEYN /\ SC_OLDLEN_CONST = true.
Proof. repeat split; reflexivity. Qed.

Lemma names_no_nul : no_nul CERTN /\ no_nul KEYN.
Proof. split; unfold no_nul; repeat constructor; discriminate. Qed.

(** ---------- the array primitives on buffers written as concatenations ---------- *)
Lemma zeros_length n : length (zeros n) = n.
Proof. apply repeat_length. Qed.

Lemma firstn_app_exact {A} (a b : list A) : firstn (length a) (a ++ b) = a.
Proof. rewrite firstn_app, Nat.sub_diag, firstn_all. cbn. apply app_nil_r. Qed.

Lemma skipn_app_exact {A} (a b : list A) : skipn (length a) (a ++ b) = b.
Proof. rewrite skipn_app, Nat.sub_diag, skipn_all. reflexivity. Qed.

Lemma store_app pre x post v : store (pre ++ x :: post) (length pre) v = Ok (pre ++ v :: post).
Proof.
  unfold store. rewrite app_length. cbn [length].
  replace (Nat.ltb (length pre) (length pre + S (length post))) with true by (symmetry; apply Nat.ltb_lt; lia).
  rewrite firstn_app_exact.
  replace (S (length pre)) with (length (pre ++ [x])) by (rewrite app_length; cbn; lia).
  replace (pre ++ x :: post) with ((pre ++ [x]) ++ post) by (rewrite <- app_assoc; reflexivity).
  rewrite skipn_app_exact. reflexivity.
Qed.

Lemma strncpy_app pre mid post src n : length mid = n ->
  strncpy_at (pre ++ mid ++ post) (length pre) src n = Ok (pre ++ firstn n src ++ zeros (n - length src) ++ post).
Proof.
  intros Hm. unfold strncpy_at. rewrite !app_length, Hm.
  replace (Nat.leb (length pre + n) (length pre + (n + length post))) with true by (symmetry; apply Nat.leb_le; lia).
  rewrite firstn_app_exact.
  replace (length pre + n) with (length (pre ++ mid)) by (rewrite app_length; lia).
  replace (pre ++ mid ++ post) with ((pre ++ mid) ++ post) by (symmetry; apply app_assoc).
  rewrite skipn_app_exact. reflexivity.
Qed.

Lemma strlen_from_app str post : no_nul str -> strlen_from (str ++ 0%N :: post) = Some (length str).
Proof.
  induction 1 as [|x r Hx _ IH]; cbn [app strlen_from length]; [reflexivity|].
  destruct (N.eqb x 0) eqn:E; [apply N.eqb_eq in E; contradiction|]. rewrite IH. reflexivity.
Qed.

Lemma cstr_app pre str post : no_nul str -> cstr_at (pre ++ str ++ 0%N :: post) (length pre) = Ok str.
Proof.
  intros Hn. unfold cstr_at. rewrite skipn_app_exact, (strlen_from_app _ _ Hn), firstn_app_exact. reflexivity.
Qed.

Lemma cstr_app0 str post : no_nul str -> cstr_at (str ++ 0%N :: post) 0 = Ok str.
Proof. intros Hn. apply (cstr_app [] str post Hn). Qed.

(** the same with the offset given as a number *)
Lemma store_n i pre x post v : length pre = i -> store (pre ++ x :: post) i v = Ok (pre ++ v :: post).
Proof. intros <-. apply store_app. Qed.
Lemma strncpy_n off pre mid post src n : length pre = off -> length mid = n ->
  strncpy_at (pre ++ mid ++ post) off src n = Ok (pre ++ firstn n src ++ zeros (n - length src) ++ post).
Proof. intros <-. apply strncpy_app. Qed.
Lemma cstr_n off pre str post : length pre = off -> no_nul str -> cstr_at (pre ++ str ++ 0%N :: post) off = Ok str.
Proof. intros <-. apply cstr_app. Qed.

(** a buffer whose last byte is NUL holds a C string at every offset inside it *)
Lemma strlen_from_last b : b <> [] -> last b 1%N = 0%N -> exists n, strlen_from b = Some n.
Proof.
  induction b as [|x r IH]; [congruence|]. intros _ Hl. cbn [strlen_from].
  destruct (N.eqb x 0) eqn:Ex; [eauto|].
  destruct r as [|y r']; [cbn in Hl; subst; discriminate|].
  destruct IH as (n & Hn); [discriminate|exact Hl|]. rewrite Hn. cbn. eauto.
Qed.

Lemma firstn_app_n {A} n (a b : list A) : length a = n -> firstn n (a ++ b) = a.
Proof. intros <-. apply firstn_app_exact. Qed.
Lemma skipn_app_n {A} n (a b : list A) : length a = n -> skipn n (a ++ b) = b.
Proof. intros <-. apply skipn_app_exact. Qed.

Lemma memcpy_key_app kpre kmid kpost cpre cmid :
  length kpre = 21 -> length kmid = 54 -> length kpost = 1 -> length cpre = 22 -> length cmid = 54 ->
  memcpy_key (kpre ++ kmid ++ kpost) (cpre ++ cmid) 22 = Ok (kpre ++ cmid ++ kpost).
Proof.
  intros H1 H2 H3 H4 H5. unfold memcpy_key. destruct consts as (_ & _ & _ & -> & _).
  rewrite !app_length, H1, H2, H3, H4, H5. cbn [Nat.leb andb Nat.add Nat.sub].
  rewrite (firstn_app_n 21 kpre _ H1), (skipn_app_n 22 cpre _ H4).
  rewrite <- H5 at 1. rewrite firstn_all.
  replace (kpre ++ kmid ++ kpost) with ((kpre ++ kmid) ++ kpost) by (symmetry; apply app_assoc).
  rewrite (skipn_app_n 75 (kpre ++ kmid)) by (rewrite app_length; lia). reflexivity.
Qed.

(** ---------- the invariant of the two static arrays ---------- *)
Definition Inv (s : scstate) : Prop :=
  exists ctail kmid, cert s = SC_CERT ++ ctail /\ length ctail = 54
                     /\ key s = SC_KEY ++ kmid ++ [0%N] /\ length kmid = 54.

Lemma Inv_init : Inv sc_init.
Proof.
  unfold Inv, sc_init. cbn [cert key].
  exists (zeros 54), (zeros 54). repeat split; reflexivity.
Qed.

Lemma key_cstr kmid : length kmid = 54 -> exists kn, cstr_at (SC_KEY ++ kmid ++ [0%N]) 8 = Ok kn.
Proof.
  intros Hk. unfold cstr_at.
  destruct (strlen_from_last (skipn 8 (SC_KEY ++ kmid ++ [0%N]))) as (n & Hn).
  - intros E. apply (f_equal (@length N)) in E. rewrite skipn_length, !app_length, Hk in E. cbn in E. lia.
  - change (SC_KEY ++ kmid ++ [0%N]) with (SC_DIR ++ KEYN ++ kmid ++ [0%N]).
    rewrite (skipn_app_n 8 SC_DIR) by reflexivity.
    rewrite !app_assoc. apply last_last.
  - rewrite Hn. eauto.
Qed.

Section Fixed.
Variable ex : bytes -> bool.
Variable ip : bytes.
Variable Hip : no_nul ip.
Variable Hlen : length ip <= SC_IPMAX.

(** the part of the function behind the address-and-port attempt: [c] = "control/servercert.pem" "." ip NUL junk *)
Lemma rest_spec (s : scstate) kmid junk probes :
  key s = SC_KEY ++ kmid ++ [0%N] -> length kmid = 54 -> length junk + length ip = 52 ->
  let c := SC_CERT ++ DOTC :: ip ++ 0%N :: junk in
  exists rc probes' s',
    sc_rest ex s 22 c probes
    = Ok (rc, probes', s')
    /\ Inv s'
    /\ ((ex (CERTN ++ sfx_ip ip) = true /\ rc = 0%Z /\ cstr_at (cert s') 0 = Ok (SC_CERT ++ sfx_ip ip))
        \/ (ex (CERTN ++ sfx_ip ip) = false /\ ex CERTN = true /\ rc = 0%Z /\ cstr_at (cert s') 0 = Ok SC_CERT)
        \/ (ex (CERTN ++ sfx_ip ip) = false /\ ex CERTN = false /\ rc = (-1)%Z /\ cstr_at (cert s') 0 = Ok SC_CERT)).
Proof.
  intros Hk Hkm Hj c.
  destruct names_no_nul as [Hcn Hkn].
  assert (Hsfx : no_nul (CERTN ++ sfx_ip ip)).
  { unfold no_nul, sfx_ip. apply Forall_app. split; [exact Hcn|]. constructor; [discriminate|exact Hip]. }
  assert (E2 : cstr_at c 8 = Ok (CERTN ++ sfx_ip ip)).
  { unfold c. change SC_CERT with (SC_DIR ++ CERTN).
    replace ((SC_DIR ++ CERTN) ++ DOTC :: ip ++ 0%N :: junk) with (SC_DIR ++ (CERTN ++ sfx_ip ip) ++ 0%N :: junk)
      by (unfold sfx_ip; rewrite <- !app_assoc; reflexivity).
    apply cstr_n; [reflexivity|exact Hsfx]. }
  unfold sc_rest, sc_found. change (length SC_DIR) with 8.
  rewrite E2. cbn [bind].
  destruct (ex (CERTN ++ sfx_ip ip)) eqn:Ex2.
  - (* found with the address *)
    assert (Em : memcpy_key (key s) c 22 = Ok (SC_KEY ++ (DOTC :: ip ++ 0%N :: junk) ++ [0%N])).
    { rewrite Hk. unfold c. apply memcpy_key_app; try reflexivity; try assumption.
      cbn [length]. rewrite app_length. cbn [length]. lia. }
    rewrite Em. cbn [bind].
    assert (Ek : cstr_at (SC_KEY ++ (DOTC :: ip ++ 0%N :: junk) ++ [0%N]) 8 = Ok (KEYN ++ sfx_ip ip)).
    { change SC_KEY with (SC_DIR ++ KEYN).
      replace ((SC_DIR ++ KEYN) ++ (DOTC :: ip ++ 0%N :: junk) ++ [0%N])
        with (SC_DIR ++ (KEYN ++ sfx_ip ip) ++ 0%N :: junk ++ [0%N])
        by (unfold sfx_ip; rewrite <- !app_assoc; cbn [app]; rewrite <- !app_assoc; reflexivity).
      apply cstr_n; [reflexivity|]. unfold no_nul, sfx_ip. apply Forall_app. split; [exact Hkn|]. constructor; [discriminate|exact Hip]. }
    rewrite Ek. cbn [bind].
    eexists _, _, _. split; [reflexivity|]. split.
    + exists (DOTC :: ip ++ 0%N :: junk), (DOTC :: ip ++ 0%N :: junk). cbn [cert key].
      repeat split; cbn [length]; rewrite ?app_length; cbn [length]; lia.
    + left. split; [reflexivity|]. split; [reflexivity|]. cbn [cert]. unfold c.
      replace (SC_CERT ++ DOTC :: ip ++ 0%N :: junk) with ((SC_CERT ++ sfx_ip ip) ++ 0%N :: junk)
        by (unfold sfx_ip; rewrite <- app_assoc; reflexivity).
      apply cstr_app0. unfold no_nul, sfx_ip. apply Forall_app. split.
      * change SC_CERT with (SC_DIR ++ CERTN). apply Forall_app. split; [repeat constructor; discriminate|exact Hcn].
      * constructor; [discriminate|exact Hip].
  - (* the general name *)
    assert (E6 : store c 22 0%N = Ok (SC_CERT ++ 0%N :: ip ++ 0%N :: junk)).
    { unfold c. apply store_n. reflexivity. }
    rewrite E6. cbn [bind].
    assert (E3 : cstr_at (SC_CERT ++ 0%N :: ip ++ 0%N :: junk) 8 = Ok CERTN).
    { change SC_CERT with (SC_DIR ++ CERTN). rewrite <- app_assoc.
      apply cstr_n; [reflexivity|exact Hcn]. }
    rewrite E3. cbn [bind].
    assert (HI : forall u, Inv {| cert := SC_CERT ++ 0%N :: ip ++ 0%N :: junk; key := key s; usekey := u |}).
    { intros u. exists (0%N :: ip ++ 0%N :: junk), kmid. cbn [cert key].
      repeat split; try assumption; cbn [length]; rewrite ?app_length; cbn [length]; lia. }
    assert (Ec : cstr_at (SC_CERT ++ 0%N :: ip ++ 0%N :: junk) 0 = Ok SC_CERT).
    { apply cstr_app0. change SC_CERT with (SC_DIR ++ CERTN). apply Forall_app. split; [repeat constructor; discriminate|exact Hcn]. }
    destruct (ex CERTN) eqn:Ex3.
    + destruct (key_cstr kmid Hkm) as (kn & Hkn'). rewrite Hk, Hkn'. cbn [bind].
      eexists _, _, _. split; [reflexivity|]. split; [rewrite <- Hk; apply HI|].
      right; left. cbn [cert]. auto.
    + eexists _, _, _. split; [reflexivity|]. split; [apply HI|].
      right; right. cbn [cert]. auto.
Qed.

Definition port_ok (port : option bytes) : Prop :=
  match port with Some p => no_nul p /\ length p <= 5 | None => True end.

Lemma zeros_pos n : 1 <= n -> zeros n = 0%N :: zeros (n - 1).
Proof. destruct n; [lia|]. intros _. cbn [Nat.sub]. rewrite Nat.sub_0_r. reflexivity. Qed.

Theorem find_servercert_fixed port s : Inv s -> port_ok port ->
  exists probes s', find_servercert_gen true ex ip port s = Ok (servercert_spec ex ip port, probes, s')
    /\ Inv s'
    /\ (forall sfx, chosen ex ip port = Some sfx -> cstr_at (cert s') 0 = Ok (SC_CERT ++ sfx))
    /\ (chosen ex ip port = None -> cstr_at (cert s') 0 = Ok SC_CERT).
Proof.
  intros (ctail & kmid & Hc & Hct & Hk & Hkm) Hp.
  destruct consts as (_ & _ & _ & HB & HM & _). rewrite HM in Hlen.
  destruct names_no_nul as [Hcn Hkn].
  unfold find_servercert_gen. cbn [bind]. change (length SC_CERT) with 22. change (length SC_DIR) with 8.
  rewrite HB. change (Nat.ltb 76 (22 + 1)) with false. cbv iota.
  destruct ctail as [|x tail]; [discriminate|]. cbn [length] in Hct.
  assert (E1 : store (cert s) 22 DOTC = Ok (SC_CERT ++ DOTC :: tail)).
  { rewrite Hc. apply store_n. reflexivity. }
  rewrite E1. cbn [bind].
  assert (E2 : strncpy_at (SC_CERT ++ DOTC :: tail) (22 + 1) ip (76 - 22 - 1) = Ok (SC_CERT ++ DOTC :: ip ++ zeros (53 - length ip))).
  { change (22 + 1) with 23. change (76 - 22 - 1) with 53.
    replace (SC_CERT ++ DOTC :: tail) with ((SC_CERT ++ [DOTC]) ++ tail ++ []) by (rewrite <- app_assoc, app_nil_r; reflexivity).
    rewrite (strncpy_n 23 (SC_CERT ++ [DOTC]) tail [] ip 53) by (try reflexivity; lia).
    rewrite firstn_all2 by lia. rewrite app_nil_r, <- app_assoc. reflexivity. }
  rewrite E2. cbn [bind].
  assert (Spec_of_rest : forall rc s' ,
     ((ex (CERTN ++ sfx_ip ip) = true /\ rc = 0%Z /\ cstr_at (cert s') 0 = Ok (SC_CERT ++ sfx_ip ip))
        \/ (ex (CERTN ++ sfx_ip ip) = false /\ ex CERTN = true /\ rc = 0%Z /\ cstr_at (cert s') 0 = Ok SC_CERT)
        \/ (ex (CERTN ++ sfx_ip ip) = false /\ ex CERTN = false /\ rc = (-1)%Z /\ cstr_at (cert s') 0 = Ok SC_CERT)) ->
     forall pre, (forall sfx, In sfx pre -> ex (CERTN ++ sfx) = false) ->
     rc = (if existsb (fun sfx => ex (CERTN ++ sfx)) (pre ++ [sfx_ip ip; []]) then 0%Z else (-1)%Z)
     /\ (forall sfx, find (fun sfx => ex (CERTN ++ sfx)) (pre ++ [sfx_ip ip; []]) = Some sfx -> cstr_at (cert s') 0 = Ok (SC_CERT ++ sfx))
     /\ (find (fun sfx => ex (CERTN ++ sfx)) (pre ++ [sfx_ip ip; []]) = None -> cstr_at (cert s') 0 = Ok SC_CERT)).
  { intros rc s' Hr pre Hpre.
    assert (Hex : existsb (fun sfx => ex (CERTN ++ sfx)) pre = false).
    { apply Bool.not_true_is_false. intros E. apply existsb_exists in E as (y & Hy & Ey). rewrite (Hpre y Hy) in Ey. discriminate. }
    assert (Hfi : forall r, find (fun sfx => ex (CERTN ++ sfx)) (pre ++ r) = find (fun sfx => ex (CERTN ++ sfx)) r).
    { intros r. induction pre as [|y p IH]; [reflexivity|]. cbn [app find]. rewrite (Hpre y (or_introl eq_refl)).
      apply IH. - intros z Hz. apply Hpre. right. exact Hz.
      - cbn [existsb] in Hex. apply Bool.orb_false_iff in Hex. tauto. }
    rewrite existsb_app, Hex, Hfi. cbn [orb existsb find]. rewrite app_nil_r.
    destruct Hr as [(Ea & -> & Hcs)|[(Ea & Eb & -> & Hcs)|(Ea & Eb & -> & Hcs)]]; rewrite Ea; cbn [orb].
    - split; [reflexivity|]. split; [|discriminate]. intros sfx E; inversion E; subst. exact Hcs.
    - rewrite Eb. split; [reflexivity|]. split; [|discriminate]. intros sfx E; inversion E; subst. rewrite app_nil_r. exact Hcs.
    - rewrite Eb. split; [reflexivity|]. split; [discriminate|]. intros _. exact Hcs. }
  destruct port as [p|].
  - destruct Hp as (Hpn & Hpl).
    (* ':' and the port *)
    remember (52 - length ip) as m eqn:Hm.
    assert (Hz : zeros (53 - length ip) = 0%N :: zeros m) by (subst m; replace (53 - length ip) with (S (52 - length ip)) by lia; reflexivity).
    rewrite Hz.
    assert (E3 : store (SC_CERT ++ DOTC :: ip ++ 0%N :: zeros m) (22 + 1 + length ip) COLON
                 = Ok (SC_CERT ++ DOTC :: ip ++ COLON :: zeros m)).
    { replace (SC_CERT ++ DOTC :: ip ++ 0%N :: zeros m) with ((SC_CERT ++ DOTC :: ip) ++ 0%N :: zeros m) by (rewrite <- app_assoc; reflexivity).
      rewrite store_n by (rewrite app_length; cbn [length]; change (length SC_CERT) with 22; lia).
      rewrite <- app_assoc. reflexivity. }
    rewrite E3. cbn [bind].
    replace (Nat.ltb 76 (22 + 1 + length ip + 1)) with false by (symmetry; apply Nat.ltb_ge; lia).
    assert (E4 : strncpy_at (SC_CERT ++ DOTC :: ip ++ COLON :: zeros m) (22 + 1 + length ip + 1) p (76 - (22 + 1 + length ip) - 1)
                 = Ok (SC_CERT ++ DOTC :: ip ++ COLON :: p ++ zeros (m - length p))).
    { replace (SC_CERT ++ DOTC :: ip ++ COLON :: zeros m) with ((SC_CERT ++ DOTC :: ip ++ [COLON]) ++ zeros m ++ [])
        by (rewrite app_nil_r, <- !app_assoc; cbn [app]; rewrite <- app_assoc; reflexivity).
      replace (76 - (22 + 1 + length ip) - 1) with m by lia.
      rewrite (strncpy_n (22 + 1 + length ip + 1) (SC_CERT ++ DOTC :: ip ++ [COLON]) (zeros m) [] p m)
        by (try apply zeros_length; rewrite app_length; cbn [length]; rewrite app_length; cbn [length]; change (length SC_CERT) with 22; lia).
      rewrite firstn_all2 by lia. rewrite app_nil_r, <- !app_assoc. cbn [app]. rewrite <- app_assoc. reflexivity. }
    rewrite E4. cbn [bind].
    remember (m - length p - 1) as m2 eqn:Hm2.
    assert (Hz2 : zeros (m - length p) = 0%N :: zeros m2) by (subst m2; apply zeros_pos; lia).
    rewrite Hz2.
    assert (Hsfx : no_nul (sfx_ipport ip p)).
    { unfold no_nul, sfx_ipport. constructor; [discriminate|]. apply Forall_app. split; [exact Hip|]. constructor; [discriminate|exact Hpn]. }
    assert (En1 : cstr_at (SC_CERT ++ DOTC :: ip ++ COLON :: p ++ 0%N :: zeros m2) 8 = Ok (CERTN ++ sfx_ipport ip p)).
    { change SC_CERT with (SC_DIR ++ CERTN).
      replace ((SC_DIR ++ CERTN) ++ DOTC :: ip ++ COLON :: p ++ 0%N :: zeros m2) with (SC_DIR ++ (CERTN ++ sfx_ipport ip p) ++ 0%N :: zeros m2)
        by (unfold sfx_ipport; rewrite <- !app_assoc; cbn [app]; rewrite <- !app_assoc; reflexivity).
      apply cstr_n; [reflexivity|]. apply Forall_app. split; assumption. }
    rewrite En1. cbn [bind].
    unfold servercert_spec, chosen, candidates. cbn [app existsb find].
    destruct (ex (CERTN ++ sfx_ipport ip p)) eqn:Ex1; cbn [orb].
    + (* found with address and port *)
      unfold sc_found. change (length SC_DIR) with 8.
      assert (Em : memcpy_key (key s) (SC_CERT ++ DOTC :: ip ++ COLON :: p ++ 0%N :: zeros m2) 22
                   = Ok (SC_KEY ++ (DOTC :: ip ++ COLON :: p ++ 0%N :: zeros m2) ++ [0%N])).
      { rewrite Hk. apply memcpy_key_app; try reflexivity; try assumption.
        cbn [length]. rewrite !app_length. cbn [length]. rewrite app_length. cbn [length]. rewrite zeros_length. lia. }
      rewrite Em. cbn [bind].
      assert (Ek : cstr_at (SC_KEY ++ (DOTC :: ip ++ COLON :: p ++ 0%N :: zeros m2) ++ [0%N]) 8 = Ok (KEYN ++ sfx_ipport ip p)).
      { change SC_KEY with (SC_DIR ++ KEYN).
        replace ((SC_DIR ++ KEYN) ++ (DOTC :: ip ++ COLON :: p ++ 0%N :: zeros m2) ++ [0%N])
          with (SC_DIR ++ (KEYN ++ sfx_ipport ip p) ++ 0%N :: zeros m2 ++ [0%N])
          by (unfold sfx_ipport; rewrite <- !app_assoc; cbn [app]; rewrite <- !app_assoc; cbn [app]; rewrite <- !app_assoc; reflexivity).
        apply cstr_n; [reflexivity|]. apply Forall_app. split; assumption. }
      rewrite Ek. cbn [bind].
      eexists _, _. split; [reflexivity|]. split; [|split; [|discriminate]].
      * exists (DOTC :: ip ++ COLON :: p ++ 0%N :: zeros m2), (DOTC :: ip ++ COLON :: p ++ 0%N :: zeros m2). cbn [cert key].
        repeat split; cbn [length]; rewrite !app_length; cbn [length]; rewrite app_length; cbn [length]; rewrite zeros_length; lia.
      * intros sfx E; injection E as <-. cbn [cert].
        replace (SC_CERT ++ DOTC :: ip ++ COLON :: p ++ 0%N :: zeros m2) with ((SC_CERT ++ sfx_ipport ip p) ++ 0%N :: zeros m2)
          by (unfold sfx_ipport; rewrite <- !app_assoc; cbn [app]; rewrite <- !app_assoc; reflexivity).
        apply cstr_app0. apply Forall_app. split; [|exact Hsfx].
        change SC_CERT with (SC_DIR ++ CERTN). apply Forall_app. split; [repeat constructor; discriminate|exact Hcn].
    + (* cut the port off again *)
      assert (E5 : store (SC_CERT ++ DOTC :: ip ++ COLON :: p ++ 0%N :: zeros m2) (22 + 1 + length ip) 0%N
                   = Ok (SC_CERT ++ DOTC :: ip ++ 0%N :: p ++ 0%N :: zeros m2)).
      { replace (SC_CERT ++ DOTC :: ip ++ COLON :: p ++ 0%N :: zeros m2) with ((SC_CERT ++ DOTC :: ip) ++ COLON :: p ++ 0%N :: zeros m2)
          by (rewrite <- app_assoc; reflexivity).
        rewrite store_n by (rewrite app_length; cbn [length]; change (length SC_CERT) with 22; lia).
        rewrite <- app_assoc. reflexivity. }
      rewrite E5. cbn [bind].
      destruct (rest_spec s kmid (p ++ 0%N :: zeros m2) [CERTN ++ sfx_ipport ip p] Hk Hkm) as (rc & probes' & s' & Hrun & HI & Hres).
      { rewrite app_length. cbn [length]. rewrite zeros_length. lia. }
      destruct (Spec_of_rest rc s' Hres [sfx_ipport ip p]) as (Hrc & Hch & Hno).
      { intros sfx [<-|[]]. exact Ex1. }
      cbn [app existsb find] in Hrc, Hch, Hno. rewrite Ex1 in Hrc, Hch, Hno. cbn [orb] in Hrc.
      exists probes', s'. split; [rewrite <- Hrc; exact Hrun|]. split; [exact HI|]. split; [exact Hch|exact Hno].
  - (* no port known *)
    remember (52 - length ip) as m eqn:Hm.
    assert (Hz : zeros (53 - length ip) = 0%N :: zeros m) by (subst m; replace (53 - length ip) with (S (52 - length ip)) by lia; reflexivity).
    rewrite Hz.
    destruct (rest_spec s kmid (zeros m) [] Hk Hkm) as (rc & probes' & s' & Hrun & HI & Hres).
    { rewrite zeros_length. lia. }
    destruct (Spec_of_rest rc s' Hres []) as (Hrc & Hch & Hno); [intros sfx []|].
    unfold servercert_spec, chosen, candidates. cbn [app] in *.
    exists probes', s'. split; [rewrite <- Hrc; exact Hrun|]. split; [exact HI|]. split; [exact Hch|exact Hno].
Qed.


End Fixed.

(** ---------- any number of calls ---------- *)
Lemma bytes_eqb_refl' x : bytes_eqb x x = true.
Proof. induction x as [|a r IH]; cbn [bytes_eqb]; [reflexivity|]. rewrite N.eqb_refl. exact IH. Qed.

Lemma key_cstr0 kmid : length kmid = 54 -> exists kn, cstr_at (SC_KEY ++ kmid ++ [0%N]) 0 = Ok kn.
Proof.
  intros Hk. unfold cstr_at. cbn [skipn].
  destruct (strlen_from_last (SC_KEY ++ kmid ++ [0%N])) as (n & Hn).
  - intros E. apply (f_equal (@length N)) in E. rewrite !app_length in E. cbn in E. lia.
  - rewrite !app_assoc. apply last_last.
  - rewrite Hn. eauto.
Qed.

Theorem calls_fixed ip port : no_nul ip -> length ip <= SC_IPMAX -> port_ok port ->
  forall exs s, Inv s ->
  exists rs, calls_gen true exs ip port s = Ok rs
    /\ spec_ok_servercert exs ip port (map (fun r => let '(rc, _, cn, _) := r in (rc, cn)) rs) = true.
Proof.
  intros Hip Hlen Hp exs. induction exs as [|ex r IH]; intros s HI; cbn [calls_gen].
  { exists []. split; reflexivity. }
  destruct (find_servercert_fixed ex ip Hip Hlen port s HI Hp) as (probes & s' & Hrun & HI' & Hch & Hno).
  rewrite Hrun. cbn [bind].
  assert (Hcn : exists cn, cstr_at (cert s') 0 = Ok cn /\ spec_ok_call ex ip port (servercert_spec ex ip port) cn = true).
  { unfold spec_ok_call, servercert_spec. destruct (chosen ex ip port) as [sfx|] eqn:Ec.
    - exists (SC_CERT ++ sfx). split; [apply Hch; reflexivity|].
      unfold chosen in Ec. apply find_some in Ec as (Hin & Hex).
      replace (existsb (fun sfx0 => ex (CERTN ++ sfx0)) (candidates ip port)) with true
        by (symmetry; apply existsb_exists; exists sfx; auto).
      rewrite bytes_eqb_refl'. reflexivity.
    - exists SC_CERT. split; [apply Hno; reflexivity|].
      unfold chosen in Ec.
      replace (existsb (fun sfx0 => ex (CERTN ++ sfx0)) (candidates ip port)) with false; [reflexivity|].
      symmetry. apply Bool.not_true_is_false. intros E. apply existsb_exists in E as (y & Hy & Ey).
      pose proof (find_none _ _ Ec y Hy) as Hf. cbn beta in Hf. congruence. }
  destruct Hcn as (cn & Hcn & Hok). rewrite Hcn. cbn [bind].
  assert (Hkn : exists kn, cstr_at (if usekey s' then key s' else cert s') 0 = Ok kn).
  { destruct (usekey s'); [|eauto]. destruct HI' as (_ & kmid & _ & _ & -> & Hkm). apply key_cstr0. exact Hkm. }
  destruct Hkn as (kn & Hkn). rewrite Hkn. cbn [bind].
  destruct (IH s' HI') as (rs & Hrs & Hspec). rewrite Hrs. cbn [bind].
  eexists. split; [reflexivity|]. cbn [map spec_ok_servercert]. rewrite Hok, Hspec. reflexivity.
Qed.

(** the code as found: the second call with a per-address-and-port certificate and a 39-octet address leaves the array *)
Definition long_ip : bytes :=
  [50;48;48;49;58;48;100;98;56;58;49;49;49;49;58;50;50;50;50;58;51;51;51;51;58;52;52;52;52;58;53;53;53;53;58;54;54;54;54]%N.
Definition ex_ipport (name : bytes) : bool := bytes_eqb name (CERTN ++ sfx_ipport long_ip [50;53]%N).

Theorem orig_second_call_crashes :
  calls_gen false [ex_ipport; ex_ipport] long_ip (Some [50;53]%N) sc_init = Crash 1%N.
Proof. vm_compute. reflexivity. Qed.

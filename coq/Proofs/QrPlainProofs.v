(** send_plain: the literal model (staging buffer, offsets, fuel) writes exactly
    [plain_enc] of its window, never reads outside it, never overflows sendbuf,
    never runs out of fuel — whatever the position of the buffer boundaries. *)
From Qv Require Import Common.Bytes Gen.GenQrdata Model.Mime Model.QrData Model.QrDataL2 Proofs.QrMemLemmas.
Require Import Lia.

Ltac consts := unfold SP_BUF, SP_MARGIN in *.

Definition last_is_lf (l : bytes) : bool :=
  match rev l with
  | c :: _ => N.eqb c LF
  | [] => false
  end.

Lemma last_is_lf_app l1 l2 : l2 <> [] -> last_is_lf (l1 ++ l2) = last_is_lf l2.
Proof.
  intros H. unfold last_is_lf. rewrite rev_app_distr.
  destruct (rev l2) as [|c r] eqn:E; [|reflexivity].
  apply (f_equal (@rev N)) in E. rewrite rev_involutive in E. simpl in E. contradiction.
Qed.

Lemma rev_nonempty {A} (l : list A) : l <> [] -> exists c r, rev l = c :: r.
Proof.
  intros H. destruct (rev l) as [|c r] eqn:E; [|eauto].
  apply (f_equal (@rev A)) in E. rewrite rev_involutive in E. simpl in E. contradiction.
Qed.

Lemma sp_loop_S fuel m b len idx chunk off llen sb st :
  sp_loop (S fuel) m b len idx chunk off llen sb st =
      if Nat.ltb (idx + chunk) (SP_BUF - SP_MARGIN) && negb (Nat.eqb (off + chunk) len) then
        do c <- rd m (b + (off + chunk));
        if N.eqb c CR then
          let chunk1 := S chunk in
          do lf <- (if negb (Nat.eqb (off + chunk1) len) then do c2 <- rd m (b + (off + chunk1)); Ok (N.eqb c2 LF) else Ok false);
          if lf then sp_loop fuel m b len idx (S chunk1) off false sb st
          else
            do d <- rdn m (b + off) chunk1;
            do sb1 <- sb_add SP_BUF idx sb (d ++ [LF]);
            sp_loop fuel m b len (idx + chunk1 + 1) 0 (off + chunk1) false sb1 st
        else if N.eqb c LF then
          do d <- rdn m (b + off) chunk;
          do sb1 <- sb_add SP_BUF idx sb (d ++ [CR; LF]);
          sp_loop fuel m b len (idx + chunk + 2) 0 (off + chunk + 1) false sb1 st
        else if N.eqb c DOT && negb llen then
          do d <- rdn m (b + off) (S chunk);
          do sb1 <- sb_add SP_BUF idx sb (d ++ [DOT]);
          sp_loop fuel m b len (idx + S chunk + 1) 0 (off + S chunk) true sb1 st
        else sp_loop fuel m b len idx (S chunk) off true sb st
      else
        do d <- rdn m (b + off) chunk;
        do sb1 <- sb_add SP_BUF idx sb d;
        let off1 := off + chunk in
        match rev sb1 with
        | [] => Crash 4%N
        | lastc :: _ =>
            let st1 := mkSt (sb1 :: out st) (N.eqb lastc LF) in
            if Nat.ltb off1 len then sp_loop fuel m b len 0 0 off1 llen [] st1 else Ok st1
        end.
Proof. reflexivity. Qed.

Section Window.
Variable m : bytes.
Variables b len : nat.
Variable Hwin : b + len <= length m.
Let w := sub m b len.

Lemma w_length : length w = len.
Proof. apply sub_length. exact Hwin. Qed.

Lemma rd_win i : i < len -> rd m (b + i) = Ok (nth i w 0%N).
Proof. intros H. rewrite rd_ok by lia. unfold w. now rewrite nth_sub. Qed.

Lemma rdn_win off k : off + k <= len -> rdn m (b + off) k = Ok (sub w off k).
Proof. intros H. rewrite rdn_ok by lia. unfold w. now rewrite sub_sub. Qed.

Lemma skipn_win i : i < len -> skipn i w = nth i w 0%N :: skipn (S i) w.
Proof. intros H. apply skipn_nth_cons. rewrite w_length. exact H. Qed.

Lemma sub_win_S off n : off + n < len -> sub w off (S n) = sub w off n ++ [nth (off + n) w 0%N].
Proof. intros H. apply sub_S. rewrite w_length. exact H. Qed.

Lemma sub_win_length off n : off + n <= len -> length (sub w off n) = n.
Proof. intros H. apply sub_length. rewrite w_length. exact H. Qed.

Lemma sb_add_ok cap idx sb x : idx + length x <= cap -> sb_add cap idx sb x = Ok (sb ++ x).
Proof. intros H. unfold sb_add. destruct (Nat.ltb_spec cap (idx + length x)); [lia|reflexivity]. Qed.

Lemma sp_loop_ok : forall fuel idx chunk off llen sb st,
  off + chunk <= len -> length sb = idx -> idx + chunk <= SP_BUF - SP_MARGIN + 1 ->
  (0 < idx + chunk \/ off + chunk < len) ->
  2 * (len - (off + chunk)) + (if Nat.eqb (idx + chunk) 0 then 0 else 1) < fuel ->
  exists st', sp_loop fuel m b len idx chunk off llen sb st = Ok st' /\
     concat (rev (out st')) = concat (rev (out st)) ++ sb ++ sub w off chunk ++ plain_enc llen (skipn (off + chunk) w) /\
     lastlf st' = last_is_lf (concat (rev (out st'))).
Proof.
  induction fuel as [|fuel IH]; intros idx chunk off llen sb st Hoc Hsb Hcap Hne Hfuel; [lia|].
  rewrite sp_loop_S.
  destruct (Nat.ltb_spec (idx + chunk) (SP_BUF - SP_MARGIN)) as [Hlt|Hge];
    [destruct (Nat.eqb_spec (off + chunk) len) as [Heq|Hneq]|]; cbn [andb negb].
  3: {
    (* flush because the staging buffer is full *)
    assert (Hpos : 0 < idx + chunk) by (consts; lia).
    replace (Nat.eqb (idx + chunk) 0) with false in Hfuel by (symmetry; apply Nat.eqb_neq; lia).
    rewrite rdn_win by lia. cbn [bind].
    rewrite sb_add_ok by (rewrite sub_win_length by lia; consts; lia). cbn [bind].
    assert (Hnz : sb ++ sub w off chunk <> []).
    { intros E. apply (f_equal (@length N)) in E. rewrite app_length, sub_win_length in E by lia.
      simpl in E. consts. lia. }
    destruct (rev_nonempty _ Hnz) as (lastc & r & Erev). rewrite Erev. cbv zeta.
    destruct (Nat.ltb_spec (off + chunk) len) as [Hmore|Hdone].
    - destruct (IH 0 0 (off + chunk) llen [] (mkSt ((sb ++ sub w off chunk) :: out st) (N.eqb lastc LF)))
        as (st' & E1 & E2 & E3); [lia|reflexivity|lia|lia|simpl; lia|].
      exists st'. split; [exact E1|]. split; [|exact E3].
      rewrite E2. cbn [out rev]. rewrite concat_app. cbn [concat]. rewrite sub_0.
      rewrite Nat.add_0_r. rewrite !app_nil_r, <- !app_assoc. reflexivity.
    - eexists. split; [reflexivity|]. cbn [out lastlf rev]. rewrite concat_app. cbn [concat].
      rewrite skipn_all' by (rewrite w_length; lia). cbn [plain_enc]. rewrite !app_nil_r.
      split; [now rewrite <- ?app_assoc|].
      rewrite last_is_lf_app by exact Hnz. unfold last_is_lf. now rewrite Erev.
  }
  - (* flush because the input is used up *)
    rewrite rdn_win by lia. cbn [bind].
    rewrite sb_add_ok by (rewrite sub_win_length by lia; consts; lia). cbn [bind].
    assert (Hnz : sb ++ sub w off chunk <> []).
    { intros E. apply (f_equal (@length N)) in E. rewrite app_length, sub_win_length in E by lia.
      simpl in E. lia. }
    destruct (rev_nonempty _ Hnz) as (lastc & r & Erev). rewrite Erev. cbv zeta.
    destruct (Nat.ltb_spec (off + chunk) len) as [Hmore|Hdone]; [lia|].
    eexists. split; [reflexivity|]. cbn [out lastlf rev]. rewrite concat_app. cbn [concat].
    rewrite skipn_all' by (rewrite w_length; lia). cbn [plain_enc]. rewrite !app_nil_r.
    split; [now rewrite <- ?app_assoc|].
    rewrite last_is_lf_app by exact Hnz. unfold last_is_lf. now rewrite Erev.
  - (* one round of the inner loop *)
    assert (Hin : off + chunk < len) by lia.
    rewrite rd_win by exact Hin. cbn [bind].
    rewrite (skipn_win (off + chunk)) by exact Hin.
    set (c := nth (off + chunk) w 0%N).
    assert (HsubS : sub w off (S chunk) = sub w off chunk ++ [c]) by (apply sub_win_S; exact Hin).
    assert (Hfu : forall k, 1 <= k -> off + chunk + k <= len ->
                  2 * (len - (off + chunk + k)) + 1 < fuel).
    { intros k Hk Hk2. destruct (Nat.eqb (idx + chunk) 0); lia. }
    assert (Hfu' : forall i c' o', 1 <= o' + c' - (off + chunk) -> o' + c' <= len -> off + chunk <= o' + c' ->
                  2 * (len - (o' + c')) + (if Nat.eqb (i + c') 0 then 0 else 1) < fuel).
    { intros i c' o' H1 H2 H3. specialize (Hfu (o' + c' - (off + chunk)) H1).
      replace (off + chunk + (o' + c' - (off + chunk))) with (o' + c') in Hfu by lia.
      destruct (Nat.eqb (i + c') 0); lia. }
    cbn [plain_enc].
    destruct (N.eqb_spec c CR) as [HCR|HnCR].
    + (* CR *)
      cbv zeta.
      destruct (Nat.eqb_spec (off + S chunk) len) as [Hend|Hnend]; cbn [negb bind].
      * (* CR is the last byte: insert LF *)
        rewrite rdn_win by lia. cbn [bind].
        rewrite sb_add_ok by (rewrite app_length, sub_win_length by lia; simpl; consts; lia). cbn [bind].
        destruct (IH (idx + S chunk + 1) 0 (off + S chunk) false (sb ++ sub w off (S chunk) ++ [LF]) st)
          as (st' & E1 & E2 & E3);
          [lia | rewrite !app_length, sub_win_length by lia; simpl; lia | consts; lia | lia | apply Hfu'; lia |].
        exists st'. split; [exact E1|]. split; [|exact E3]. rewrite E2.
        rewrite sub_0, Nat.add_0_r. rewrite (skipn_all' w (S (off + chunk))) by (rewrite w_length; lia).
        rewrite (skipn_all' w (off + S chunk)) by (rewrite w_length; lia).
        rewrite HsubS. cbn [plain_enc app]. rewrite <- !app_assoc. rewrite HCR. reflexivity.
      * assert (Hin2 : off + S chunk < len) by lia.
        rewrite rd_win by exact Hin2. cbn [bind].
        replace (S (off + chunk)) with (off + S chunk) by lia.
        rewrite (skipn_win (off + S chunk)) by exact Hin2.
        set (c2 := nth (off + S chunk) w 0%N).
        assert (HsubSS : sub w off (S (S chunk)) = sub w off chunk ++ [c; c2]).
        { rewrite (sub_win_S off (S chunk)) by lia. rewrite HsubS. rewrite <- app_assoc. reflexivity. }
        destruct (N.eqb_spec c2 LF) as [HLF|HnLF].
        -- (* CRLF stays in the chunk *)
           destruct (IH idx (S (S chunk)) off false sb st) as (st' & E1 & E2 & E3);
             [lia | exact Hsb | consts; lia | lia | apply Hfu'; lia |].
           exists st'. split; [exact E1|]. split; [|exact E3]. rewrite E2.
           rewrite HsubSS. replace (off + S (S chunk)) with (S (off + S chunk)) by lia.
           rewrite <- !app_assoc. rewrite HCR, HLF. reflexivity.
        -- (* lone CR: insert LF *)
           rewrite rdn_win by lia. cbn [bind].
           rewrite sb_add_ok by (rewrite app_length, sub_win_length by lia; simpl; consts; lia). cbn [bind].
           destruct (IH (idx + S chunk + 1) 0 (off + S chunk) false (sb ++ sub w off (S chunk) ++ [LF]) st)
             as (st' & E1 & E2 & E3);
             [lia | rewrite !app_length, sub_win_length by lia; simpl; lia | consts; lia | lia | apply Hfu'; lia |].
           exists st'. split; [exact E1|]. split; [|exact E3]. rewrite E2.
           rewrite sub_0, Nat.add_0_r. rewrite (skipn_win (off + S chunk)) by exact Hin2. fold c2.
           rewrite HsubS. cbn [app]. rewrite <- !app_assoc. rewrite HCR. reflexivity.
    + destruct (N.eqb_spec c LF) as [HLF|HnLF].
      * (* bare LF *)
        rewrite rdn_win by lia. cbn [bind].
        rewrite sb_add_ok by (rewrite app_length, sub_win_length by lia; simpl; consts; lia). cbn [bind].
        destruct (IH (idx + chunk + 2) 0 (off + chunk + 1) false (sb ++ sub w off chunk ++ [CR; LF]) st)
          as (st' & E1 & E2 & E3);
          [lia | rewrite !app_length, sub_win_length by lia; simpl; lia | consts; lia | lia | apply Hfu'; lia |].
        exists st'. split; [exact E1|]. split; [|exact E3]. rewrite E2.
        rewrite sub_0, Nat.add_0_r. replace (off + chunk + 1) with (S (off + chunk)) by lia.
        cbn [app]. rewrite <- !app_assoc. reflexivity.
      * destruct (N.eqb_spec c DOT) as [HDOT|HnDOT]; [destruct llen|]; cbn [andb negb].
        -- (* dot inside a line *)
           destruct (IH idx (S chunk) off true sb st) as (st' & E1 & E2 & E3);
             [lia | exact Hsb | consts; lia | lia | apply Hfu'; lia |].
           exists st'. split; [exact E1|]. split; [|exact E3]. rewrite E2.
           rewrite HsubS. replace (off + S chunk) with (S (off + chunk)) by lia.
           rewrite <- !app_assoc. reflexivity.
        -- (* dot at the start of a line: doubled *)
           rewrite rdn_win by lia. cbn [bind].
           rewrite sb_add_ok by (rewrite app_length, sub_win_length by lia; simpl; consts; lia). cbn [bind].
           destruct (IH (idx + S chunk + 1) 0 (off + S chunk) true (sb ++ sub w off (S chunk) ++ [DOT]) st)
             as (st' & E1 & E2 & E3);
             [lia | rewrite !app_length, sub_win_length by lia; simpl; lia | consts; lia | lia | apply Hfu'; lia |].
           exists st'. split; [exact E1|]. split; [|exact E3]. rewrite E2.
           rewrite sub_0, Nat.add_0_r. replace (off + S chunk) with (S (off + chunk)) by lia.
           rewrite HsubS. cbn [app]. rewrite <- !app_assoc. rewrite HDOT. reflexivity.
        -- (* any other byte *)
           destruct (IH idx (S chunk) off true sb st) as (st' & E1 & E2 & E3);
             [lia | exact Hsb | consts; lia | lia | apply Hfu'; lia |].
           exists st'. split; [exact E1|]. split; [|exact E3]. rewrite E2.
           rewrite HsubS. replace (off + S chunk) with (S (off + chunk)) by lia.
           rewrite <- !app_assoc. reflexivity.
Qed.

(** send_plain on a window inside the mapping *)
Theorem send_plain_ok : forall st,
  exists st', send_plain m b len st = Ok st' /\
    concat (rev (out st')) = concat (rev (out st)) ++ plain_enc false w /\
    (len = 0 -> st' = st) /\
    (0 < len -> lastlf st' = last_is_lf (concat (rev (out st')))).
Proof.
  intros st. unfold send_plain. destruct (Nat.eqb_spec len 0) as [H0|Hn0].
  - exists st. split; [reflexivity|]. split; [|split; [reflexivity|lia]].
    assert (w = []) as -> by (apply length_zero_iff_nil; rewrite w_length; exact H0).
    cbn [plain_enc]. now rewrite app_nil_r.
  - destruct (sp_loop_ok (2 * len + 2) 0 0 0 false [] st) as (st' & E1 & E2 & E3);
      [lia | reflexivity | consts; lia | lia | simpl; lia |].
    exists st'. split; [exact E1|]. split; [|split; [lia|intros _; exact E3]].
    rewrite E2. rewrite sub_0. reflexivity.
Qed.

End Window.

(** The boolean checkers that ./check runs on the outputs of the C are sound for the predicates of
    Spec/AddrSpec.v: when a checker answers [true] for an accepted address, the address is a mailbox in
    the sense of the specification (with the reference inet_pton as the oracle).  Not a property theorem;
    it shrinks what has to be trusted about the failing-input search. *)
From Qv Require Import Common.Bytes Model.InetPton Spec.AddrSpec Proofs.AddrTables Proofs.CStrLemmas Proofs.DomainProofs Proofs.LocalProofs.

Local Arguments N.eqb : simpl never.

Lemma before_behind c s r : behind c s = Some r -> s = before c s ++ c :: r /\ ~ In c (before c s).
Proof.
  revert r. induction s as [|x s IH]; intros r H; [discriminate|].
  cbn [behind before] in *. destruct (N.eqb_spec x c) as [->|Hx].
  - inversion H; subst. split; [reflexivity|intros []].
  - destruct (IH r H) as [E Hn]. split; [cbn [app]; now rewrite <- E|].
    intros [X|X]; [congruence|contradiction].
Qed.

Lemma starts_with_split p s : starts_with p s = true -> s = p ++ skipn (length p) s.
Proof.
  unfold starts_with. intros H. apply bytes_eqb_eq in H. rewrite <- H at 1. symmetry. apply firstn_skipn.
Qed.

Lemma literal_body_b_sound lit : literal_body_b lit = true -> literal_body pton4_ref pton6_ref lit.
Proof.
  unfold literal_body_b, literal_body. destruct (starts_with TAG6 lit) eqn:E.
  - intros H. apply andb_true_iff in H as [H1 H2]. apply Nat.ltb_lt in H2. right.
    exists (skipn (length TAG6) lit). split; [now apply starts_with_split|]. split; [exact H1|].
    rewrite skipn_length. exact H2.
  - intros H. apply andb_true_iff in H as [H1 H2]. apply Nat.ltb_lt in H2. left. auto.
Qed.

(** [strict = true]: the local part is a Dot-string or a Quoted-string; otherwise what parselocalpart enforces *)
Theorem mailbox_b_sound strict rc s : mailbox_b strict rc s = true ->
  mailbox pton4_ref pton6_ref (fun lp => lweak lp /\ (strict = true -> local_rfc lp)) rc s.
Proof.
  unfold mailbox_b. destruct (behind cAT s) as [dom|] eqn:Eb; [|discriminate].
  destruct (before_behind cAT s dom Eb) as [Es Hn]. intros H.
  apply andb_true_iff in H as [H Hdom]. apply andb_true_iff in H as [H Hstrict].
  apply andb_true_iff in H as [Hne Hw]. apply negb_true_iff, Nat.eqb_neq in Hne.
  exists (before cAT s), dom. split; [exact Es|]. split; [intros E; rewrite E in Hne; apply Hne; reflexivity|].
  split; [exact Hn|]. split.
  { split; [now apply lweak_b_ok|]. intros ->. cbn [negb orb] in Hstrict. now apply local_rfc_b_iff. }
  destruct (Nat.eqb_spec rc 3) as [->|H3].
  { left. split; [reflexivity|]. now apply fqdn_b_iff. }
  destruct (Nat.eqb_spec rc 4) as [->|H4]; [|discriminate].
  right. split; [reflexivity|].
  destruct dom as [|c r]; [discriminate|].
  apply andb_true_iff in Hdom as [Hd Hlit]. apply andb_true_iff in Hd as [Hd Hnr].
  apply andb_true_iff in Hd as [Hd Hr0]. apply andb_true_iff in Hd as [Hc Hlast].
  apply N.eqb_eq in Hc, Hlast. apply negb_true_iff, Nat.eqb_neq in Hr0.
  assert (Hrne : r <> []) by (intros E; rewrite E in Hr0; apply Hr0; reflexivity).
  exists (removelast r). split.
  { subst c. f_equal. rewrite <- Hlast. apply app_removelast_last. exact Hrne. }
  split.
  { apply negb_true_iff in Hnr. intros X.
    assert (Y : existsb (N.eqb cRBR) (removelast r) = true).
    { apply existsb_exists. exists cRBR. split; [exact X|apply N.eqb_refl]. }
    congruence. }
  now apply literal_body_b_sound.
Qed.

(* ------------------------------------------------------------------ the checker of the addrsyntax observation *)

Lemma behind_none c s : behind c s = None -> before c s = s /\ ~ In c s.
Proof.
  induction s as [|x s IH]; intros H; [split; [reflexivity|intros []]|].
  cbn [behind before] in *. destruct (N.eqb_spec x c) as [->|Hx]; [discriminate|].
  destruct (IH H) as [E Hn]. split; [now rewrite E|]. intros [X|X]; [congruence|contradiction].
Qed.

Lemma existsb_behind c s : existsb (N.eqb c) s = true -> exists x, behind c s = Some x.
Proof.
  induction s as [|y s IH]; [discriminate|]. cbn [existsb behind]. intros H.
  destruct (N.eqb_spec y c) as [->|Hy]; [eauto|].
  apply orb_true_iff in H as [H|H]; [apply N.eqb_eq in H; congruence|auto].
Qed.

Lemma route_b_sound fuel : forall r, route_b r fuel = true -> route r.
Proof.
  induction fuel as [|fuel IH]; intros r H; [discriminate|].
  cbn [route_b] in H. destruct r as [|c r']; [discriminate|].
  apply andb_true_iff in H as [Hc H]. apply N.eqb_eq in Hc. subst c. cbn zeta in H.
  destruct (behind cCOMMA r') as [rest|] eqn:Eb.
  - destruct (before_behind cCOMMA r' rest Eb) as [E _]. apply andb_true_iff in H as [Hd Hr].
    rewrite E. apply rt_more; [now apply fqdn_b_iff|now apply IH].
  - destruct (behind_none cCOMMA r' Eb) as [E _]. rewrite E in H. apply andb_true_iff in H as [Hl Hd].
    apply N.eqb_eq in Hl.
    assert (Hne : r' <> []) by (intros ->; discriminate).
    rewrite (app_removelast_last 0%N Hne), Hl. apply rt_last. now apply fqdn_b_iff.
Qed.

Lemma mailbox_mono pton4 pton6 (L L' : bytes -> Prop) rc s :
  (forall l, L l -> L' l) -> mailbox pton4 pton6 L rc s -> mailbox pton4 pton6 L' rc s.
Proof. intros HL (lp & dom & E & H1 & H2 & H3 & H4). exists lp, dom. auto 10. Qed.

(** [spec_as_core] = Some (k, follows): the line is route ++ a ++ ">" ++ rest as [addrsyntax_post] says,
    k is the offset behind the ">", follows = (rest <> []) *)
Theorem spec_as_core_sound strict flags s rc ad k follows : rc <> 0%Z ->
  spec_as_core strict flags s rc ad = Some (k, follows) ->
  addrsyntax_post pton4_ref pton6_ref s flags rc (Some ad) (if follows then Some k else None).
Proof.
  intros Hrc H. right. unfold spec_as_core in H. cbn zeta in H.
  set (has_route := Z.eqb flags 1 && N.eqb (hd 0%N s) cAT) in *.
  set (rt := if has_route then before cCOLON s ++ [cCOLON] else []) in *.
  destruct (behind cGT (skipn (length rt) s)) as [rest|] eqn:Eb; [|discriminate].
  destruct (before_behind cGT _ rest Eb) as [Es1 Hna].
  set (a := before cGT (skipn (length rt) s)) in *.
  match type of H with (if ?c then _ else _) = _ => destruct c eqn:Ec; [|discriminate] end.
  inversion H; subst k follows. clear H.
  apply andb_true_iff in Ec as [Ec Hcase]. apply andb_true_iff in Ec as [Hroute Had]. apply bytes_eqb_eq in Had.
  assert (Hs : s = rt ++ a ++ cGT :: rest /\ (rt = [] \/ (flags = 1%Z /\ route rt /\ length rt <= 256))).
  { unfold rt in *. destruct has_route eqn:Ehr.
    - cbn [negb orb] in Hroute. apply andb_true_iff in Hroute as [Hr Hex]. apply andb_true_iff in Hr as [Hr Hl].
      apply Nat.leb_le in Hl. apply route_b_sound in Hr.
      destruct (existsb_behind cCOLON s Hex) as (x & Ex). destruct (before_behind cCOLON s x Ex) as [E _].
      assert (E2 : s = (before cCOLON s ++ [cCOLON]) ++ x) by (rewrite <- app_assoc; exact E).
      assert (E3 : skipn (length (before cCOLON s ++ [cCOLON])) s = x) by (rewrite E2 at 2; apply CStrLemmas.skipn_app_exact).
      rewrite E3 in Es1. split; [rewrite E2 at 1; now rewrite Es1|].
      right. unfold has_route in Ehr. apply andb_true_iff in Ehr as [Hf _]. apply Z.eqb_eq in Hf. auto.
    - cbn [length skipn] in Es1. split; [exact Es1|now left]. }
  destruct Hs as [Hs Hrt].
  exists rt, a, rest. split; [exact Hs|]. split; [exact Hna|]. split; [exact Hrt|]. split; [now rewrite Had|].
  split; [destruct rest; reflexivity|].
  destruct (Z.eqb_spec rc 1) as [->|H1].
  { left. split; [reflexivity|]. apply orb_true_iff in Hcase as [Hc|Hc]; apply andb_true_iff in Hc as [Hf Hc]; apply Z.eqb_eq in Hf.
    - left. split; [exact Hf|]. apply Nat.eqb_eq in Hc. destruct a; [reflexivity|discriminate].
    - right. split; [exact Hf|]. now apply bytes_eqb_eq. }
  destruct (Z.eqb_spec rc 3) as [->|H3].
  { right. left. split; [reflexivity|]. apply mailbox_b_sound in Hcase. eapply mailbox_mono; [|exact Hcase]. intros l [Hl _]. exact Hl. }
  destruct (Z.eqb_spec rc 4) as [->|H4]; [|discriminate].
  right. right. split; [reflexivity|]. apply mailbox_b_sound in Hcase. eapply mailbox_mono; [|exact Hcase]. intros l [Hl _]. exact Hl.
Qed.

Lemma only_nuls_written_sound old new : only_nuls_written old new = true -> nulw old new.
Proof.
  revert new. induction old as [|x o IH]; intros [|y n] H; try discriminate; [constructor|].
  cbn [only_nuls_written] in H. apply andb_true_iff in H as [H1 H2]. constructor; [|now apply IH].
  apply orb_true_iff in H1 as [E|E]; apply N.eqb_eq in E; auto.
Qed.

(** the checker of the addrsyntax observation (rc, addr, more, buffer) accepts only observations that satisfy
    the specification: only NULs written, and for rc <> 0 the postcondition of C14_addrsyntax *)
Theorem spec_as_sound strict flags inb rc addr more mem :
  spec_as strict flags inb rc addr more mem = true ->
  nulw (inb ++ [0%N]) mem
  /\ addrsyntax_post pton4_ref pton6_ref (cstr_of inb) flags rc addr more.
Proof.
  unfold spec_as. intros H. apply andb_true_iff in H as [Hw H]. split; [now apply only_nuls_written_sound|].
  destruct (Z.eqb_spec rc 0) as [->|Hrc]; [now left|].
  destruct addr as [ad|]; [|discriminate].
  destruct (spec_as_core strict flags (cstr_of inb) rc ad) as [[k follows]|] eqn:Ec; [|discriminate].
  pose proof (spec_as_core_sound strict flags _ rc ad k follows Hrc Ec) as Hp.
  destruct more as [m|].
  - apply andb_true_iff in H as [Hf Hm]. apply Nat.eqb_eq in Hm. subst m. rewrite Hf in Hp. exact Hp.
  - apply negb_true_iff in H. rewrite H in Hp. exact Hp.
Qed.

(* ------------------------------------------------------------------ the other observation checkers *)

Theorem spec_pa_sound strict addr rc chk av : spec_pa strict addr rc chk av = true ->
  (0 <= rc <= 4)%Z
  /\ (rc = 3%Z -> mailbox pton4_ref pton6_ref lweak 3 (cstr_of addr))
  /\ (rc = 4%Z -> mailbox pton4_ref pton6_ref lweak 4 (cstr_of addr))
  /\ (rc = 1%Z -> fqdn (cstr_of addr)).
Proof.
  unfold spec_pa. cbn zeta. intros H. apply andb_true_iff in H as [_ H].
  destruct (Z.eqb_spec rc 0) as [->|H0]; [repeat split; try lia; discriminate|].
  destruct (Z.eqb_spec rc 1) as [->|H1]; [repeat split; try lia; try discriminate; intros _; now apply fqdn_b_iff|].
  destruct (Z.eqb_spec rc 2) as [->|H2]; [repeat split; try lia; discriminate|].
  destruct (Z.eqb_spec rc 3) as [->|H3].
  { repeat split; try lia; try discriminate. intros _. apply mailbox_b_sound in H. eapply mailbox_mono; [|exact H]. intros l [Hl _]; exact Hl. }
  destruct (Z.eqb_spec rc 4) as [->|H4]; [|discriminate].
  repeat split; try lia; try discriminate. intros _. apply mailbox_b_sound in H. eapply mailbox_mono; [|exact H]. intros l [Hl _]; exact Hl.
Qed.

Theorem spec_xt_sound strict str n : spec_xt strict str n = true ->
  n = (-1)%Z \/
  ((0 <= n)%Z /\ exists d, xdecode (firstn (Z.to_nat n) str) = Some d
     /\ xtext_value pton4_ref pton6_ref d
     /\ (nth (Z.to_nat n) (str ++ [0%N]) 1%N = 0%N \/ nth (Z.to_nat n) (str ++ [0%N]) 1%N = SP)).
Proof.
  unfold spec_xt. destruct (Z.ltb_spec n 0) as [Hneg|Hpos]; [intros H; apply Z.eqb_eq in H; now left|].
  cbn zeta. intros H. right. split; [exact Hpos|].
  apply andb_true_iff in H as [H Hd]. apply andb_true_iff in H as [_ He].
  destruct (xdecode (firstn (Z.to_nat n) str)) as [d|]; [|discriminate]. exists d. split; [reflexivity|]. split.
  - unfold xtext_value.
    apply orb_true_iff in Hd as [Hd|H4]; [apply orb_true_iff in Hd as [Hd|H3]; [apply orb_true_iff in Hd as [H0|Hn]|]|].
    + left. apply Nat.eqb_eq in H0. destruct d; [reflexivity|discriminate].
    + right. left. now apply bytes_eqb_eq.
    + right. right. left. apply mailbox_b_sound in H3. eapply mailbox_mono; [|exact H3]. intros l [Hl _]; exact Hl.
    + right. right. right. apply mailbox_b_sound in H4. eapply mailbox_mono; [|exact H4]. intros l [Hl _]; exact Hl.
  - apply orb_true_iff in He as [E|E]; apply N.eqb_eq in E; auto.
Qed.

(* ------------------------------------------------------------------ completeness of the recognisers *)

Lemma lweak_b_quoted q : qcontent q -> forall r, lweak_b true (q ++ cQUOTE :: r) = lweak_b false r.
Proof.
  induction 1 as [|c q Hc _ IH|e q He _ IH]; intros r.
  - cbn [app lweak_b negb]. now rewrite N.eqb_refl.
  - destruct (qtext_not_special c Hc) as [H1 H2]. apply N.eqb_neq in H1, H2.
    cbn [app lweak_b negb]. rewrite H1, H2, Hc. cbn [andb]. apply IH.
  - cbn [app lweak_b negb]. change (N.eqb cBSL cQUOTE) with false. rewrite N.eqb_refl.
    assert (Ee : N.eqb e cQUOTE || N.eqb e cBSL = true) by (destruct He as [-> | ->]; reflexivity).
    rewrite Ee. cbn [andb]. apply IH.
Qed.

(** [lweak_b] decides [lweak] *)
Theorem lweak_b_iff l : lweak_b false l = true <-> lweak l.
Proof.
  split; [apply lweak_b_ok|].
  induction 1 as [|c r Hc _ IH|q r Hq _ IH]; [reflexivity| |].
  - cbn [lweak_b negb].
    assert (Hnq : N.eqb c cQUOTE = false).
    { apply N.eqb_neq. destruct Hc as [Hc| ->]; [apply atext_not_special in Hc; tauto|discriminate]. }
    rewrite Hnq. assert (Hu : atext c || N.eqb c DOT = true) by (destruct Hc as [Hc| ->]; [now rewrite Hc|reflexivity]).
    now rewrite Hu, IH.
  - cbn [lweak_b negb]. rewrite N.eqb_refl. now rewrite lweak_b_quoted.
Qed.

Lemma before_behind_app c lp dom : ~ In c lp -> before c (lp ++ c :: dom) = lp /\ behind c (lp ++ c :: dom) = Some dom.
Proof.
  induction lp as [|x lp IH]; intros Hn; cbn [app before behind].
  - rewrite N.eqb_refl. auto.
  - apply not_in_cons in Hn as [Hx Hn]. destruct (N.eqb_spec x c); [congruence|].
    destruct (IH Hn) as [E1 E2]. now rewrite E1, E2.
Qed.

Lemma literal_body_b_complete lit : literal_body pton4_ref pton6_ref lit -> literal_body_b lit = true.
Proof.
  unfold literal_body, literal_body_b. intros [[H4 Hl]|(l6 & -> & H6 & Hl)].
  - destruct (starts_with TAG6 lit) eqn:E.
    + apply starts_with_split in E. rewrite E in H4. cbn in H4. discriminate.
    + rewrite H4. apply Nat.ltb_lt in Hl. now rewrite Hl.
  - assert (E : starts_with TAG6 (TAG6 ++ l6) = true).
    { unfold starts_with. rewrite firstn_app_exact. apply bytes_eqb_refl. }
    rewrite E. rewrite skipn_app_exact, H6. rewrite app_length.
    replace (length TAG6 + length l6 - length TAG6) with (length l6) by lia.
    apply Nat.ltb_lt in Hl. now rewrite Hl.
Qed.

(** [mailbox_b] decides [mailbox] (with the reference oracle; local part [lweak], and Dot-string/Quoted-string
    when [strict]) *)
Theorem mailbox_b_iff strict rc s :
  mailbox_b strict rc s = true <->
  mailbox pton4_ref pton6_ref (fun lp => lweak lp /\ (strict = true -> local_rfc lp)) rc s.
Proof.
  split; [apply mailbox_b_sound|].
  intros (lp & dom & -> & Hne & Hat & [Hw Hs] & Hd).
  unfold mailbox_b. destruct (before_behind_app cAT lp dom Hat) as [E1 E2]. rewrite E1, E2.
  assert (Hl : negb (Nat.eqb (length lp) 0) = true) by (destruct lp; [congruence|reflexivity]).
  rewrite Hl, (proj2 (lweak_b_iff lp) Hw). cbn [andb].
  assert (Hst : negb strict || local_rfc_b lp = true).
  { destruct strict; [|reflexivity]. cbn [negb orb]. apply local_rfc_b_iff. now apply Hs. }
  rewrite Hst. cbn [andb].
  destruct Hd as [[-> Hf]|[-> (lit & -> & Hnr & Hlit)]].
  - cbn [Nat.eqb]. now apply fqdn_b_iff.
  - cbn [Nat.eqb]. rewrite N.eqb_refl. cbn [andb].
    assert (Hlast : last (lit ++ [cRBR]) 0%N = cRBR) by (rewrite last_app_cons; reflexivity).
    rewrite Hlast, N.eqb_refl. cbn [andb].
    assert (Hlen : negb (Nat.eqb (length (lit ++ [cRBR])) 0) = true) by (rewrite app_length; cbn [length]; destruct (length lit); reflexivity).
    rewrite Hlen, removelast_last. cbn [andb].
    assert (Hex : existsb (N.eqb cRBR) lit = false).
    { destruct (existsb (N.eqb cRBR) lit) eqn:E; [|reflexivity]. apply existsb_exists in E as (x & Hx & Ex).
      apply N.eqb_eq in Ex. subst x. contradiction. }
    rewrite Hex. cbn [negb andb]. now apply literal_body_b_complete.
Qed.

(** The boolean checkers that ./check runs on the outputs of the C are sound for the predicates of
    Spec/AddrSpec.v: when a checker answers [true] for an accepted address, the address is a mailbox in
    the sense of the specification (with the reference inet_pton as the oracle).  Not a property theorem;
    it shrinks what has to be trusted about the failing-input search. *)
From Qv Require Import Common.Bytes Model.InetPton Spec.AddrSpec Proofs.AddrTables Proofs.DomainProofs Proofs.LocalProofs.

Local Arguments N.eqb : simpl never.

Lemma before_behind c s r : behind c s = Some r -> s = before c s ++ c :: r /\ ~ In c (before c s).
Proof.
  revert r. induction s as [|x s IH]; intros r H; [discriminate|].
  cbn [behind before] in *. destruct (N.eqb_spec x c) as [->|Hx].
  - inversion H; subst. split; [reflexivity|intros []].
  - destruct (IH r H) as [E Hn]. split; [cbn [app]; now rewrite <- E|].
    intros [X|X]; [congruence|contradiction].
Qed.

Lemma starts_with_split p s : starts_with p s = true -> s = p ++ skipn (length p) s.
Proof.
  unfold starts_with. intros H. apply bytes_eqb_eq in H. rewrite <- H at 1. symmetry. apply firstn_skipn.
Qed.

Lemma literal_body_b_sound lit : literal_body_b lit = true -> literal_body pton4_ref pton6_ref lit.
Proof.
  unfold literal_body_b, literal_body. destruct (starts_with TAG6 lit) eqn:E.
  - intros H. apply andb_true_iff in H as [H1 H2]. apply Nat.ltb_lt in H2. right.
    exists (skipn (length TAG6) lit). split; [now apply starts_with_split|]. split; [exact H1|].
    rewrite skipn_length. exact H2.
  - intros H. apply andb_true_iff in H as [H1 H2]. apply Nat.ltb_lt in H2. left. auto.
Qed.

(** [strict = true]: the local part is a Dot-string or a Quoted-string; otherwise what parselocalpart enforces *)
Theorem mailbox_b_sound strict rc s : mailbox_b strict rc s = true ->
  mailbox pton4_ref pton6_ref (fun lp => lweak lp /\ (strict = true -> local_rfc lp)) rc s.
Proof.
  unfold mailbox_b. destruct (behind cAT s) as [dom|] eqn:Eb; [|discriminate].
  destruct (before_behind cAT s dom Eb) as [Es Hn]. intros H.
  apply andb_true_iff in H as [H Hdom]. apply andb_true_iff in H as [H Hstrict].
  apply andb_true_iff in H as [Hne Hw]. apply negb_true_iff, Nat.eqb_neq in Hne.
  exists (before cAT s), dom. split; [exact Es|]. split; [intros E; rewrite E in Hne; apply Hne; reflexivity|].
  split; [exact Hn|]. split.
  { split; [now apply lweak_b_ok|]. intros ->. cbn [negb orb] in Hstrict. now apply local_rfc_b_iff. }
  destruct (Nat.eqb_spec rc 3) as [->|H3].
  { left. split; [reflexivity|]. now apply fqdn_b_iff. }
  destruct (Nat.eqb_spec rc 4) as [->|H4]; [|discriminate].
  right. split; [reflexivity|].
  destruct dom as [|c r]; [discriminate|].
  apply andb_true_iff in Hdom as [Hd Hlit]. apply andb_true_iff in Hd as [Hd Hnr].
  apply andb_true_iff in Hd as [Hd Hr0]. apply andb_true_iff in Hd as [Hc Hlast].
  apply N.eqb_eq in Hc, Hlast. apply negb_true_iff, Nat.eqb_neq in Hr0.
  assert (Hrne : r <> []) by (intros E; rewrite E in Hr0; apply Hr0; reflexivity).
  exists (removelast r). split.
  { subst c. f_equal. rewrite <- Hlast. apply app_removelast_last. exact Hrne. }
  split.
  { apply negb_true_iff in Hnr. intros X.
    assert (Y : existsb (N.eqb cRBR) (removelast r) = true).
    { apply existsb_exists. exists cRBR. split; [exact X|apply N.eqb_refl]. }
    congruence. }
  now apply literal_body_b_sound.
Qed.

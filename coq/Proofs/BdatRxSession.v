(** Sessions with several transactions: a transaction delivers ITS data whatever state the
    previous ones left behind. *)
From Qv Require Import Common.Bytes Gen.GenBdatRx Model.BdatRx Spec.BdatRxSpec
  Proofs.BdatTxProofs Proofs.BdatRxNet Proofs.BdatRxPiece Proofs.BdatRxProofs Proofs.BdatRxParse.
Require Import Lia.

(** a well-formed BDAT command line announcing [sz] octets *)
Definition valid_line (line : bytes) (sz : nat) (last : bool) : Prop :=
  existsb (fun b => N.eqb b 0) line = false /\ is_bdat_sp (firstn 5 line) = true
  /\ length line <= 510 /\ bdat_arg line = Some (N.of_nat sz, last).

Definition rec_op (r : nat * bytes * nat * bool) : sop := let '(pre, line, _, _) := r in OpLine pre line.
Definition rec_c (r : nat * bytes * nat * bool) : nat * bool * nat := let '(pre, _, sz, last) := r in (sz, last, pre).

Lemma bdat_sp_nth line : is_bdat_sp (firstn 5 line) = true -> nth 4 line 0%N = 32%N.
Proof.
  destruct line as [|a [|b [|c [|d [|e l]]]]]; cbn; try discriminate.
  intros H. repeat (apply andb_true_iff in H as [H ?]). now apply N.eqb_eq.
Qed.

(** the BDAT row of the dispatcher, given well-formed lines, is the command loop of the
    single-transaction theorems *)
Lemma run_script_as_cmds cfg slen rest : forall recs s evs s' evs',
  Forall (fun r => let '(_, line, sz, last) := r in valid_line line sz last) recs ->
  run_cmds cfg (map rec_c recs) s evs = Ok (false, s', evs') ->
  run_script cfg slen (map rec_op recs ++ rest) s evs = run_script cfg slen rest s' evs'.
Proof.
  induction recs as [|[[[pre line] sz] last] recs IH]; intros s evs s' evs' Hv Hr.
  - cbn in Hr. injection Hr as <- <-. reflexivity.
  - inversion Hv as [|? ? Hh Hv']; subst. cbv beta iota in Hh. destruct Hh as (Hn & Hb & Hl & Ha).
    cbn [map rec_op rec_c app run_script run_cmds] in *.
    set (s0 := set_net s (prebuffer pre (r_net s))) in *.
    unfold dispatch_bdat. rewrite cstr_nonul by exact Hn. bp_consts.
    rewrite (bdat_sp_nth line Hb). change (N.eqb 32 32) with true. cbn [negb].
    destruct (Nat.ltb_spec 510 (length line)) as [Hc|_]; [lia|].
    destruct (r_com s0) eqn:Ecom; cbn [com_bit N.land N.eqb].
    3:{ change (N.eqb (N.land 16 2112) 0) with true. cbv iota. cbn [bind]. apply IH; assumption. }
    1,2: (match goal with |- context [N.eqb ?a 0] => change (N.eqb a 0) with false end; cbv iota;
          unfold smtp_bdat_line; rewrite parse_bdat_spec, Ha by assumption;
          assert (Esame : (if negb (r_goodrcpt s0) then Ok (Some EDONE, s0, [EvTarpit; EvReply 554])
                           else smtp_bdat cfg (N.of_nat sz) last s0) = smtp_bdat cfg (N.of_nat sz) last s0)
            by (unfold smtp_bdat; destruct (r_goodrcpt s0); reflexivity);
          rewrite Esame; destruct (smtp_bdat cfg (N.of_nat sz) last s0) as [[[rc s1] e1]| |]; cbn [bind] in *; try discriminate;
          destruct rc as [e|]; cbn [bind]; [|discriminate];
          apply IH; assumption).
Qed.

Lemma do_rset_helo s : r_com (fst (do_rset s)) = CsHelo.
Proof. unfold do_rset. destruct (r_com s); reflexivity. Qed.

(** one transaction in the middle of a session: whatever the state [s] left by what came before
    (lastcr, bdaterr, msgsize, descriptors: arbitrary), as long as the command state allows MAIL
    (after a completed transaction or RSET) and no injected fault is still ahead *)
Theorem rx_tx_independent cfg slen : cfg_clean cfg ->
  forall recs pre0 rest s evs,
  r_com s = CsHelo -> wf_clean cfg (r_wcount s) -> n_rfail (r_net s) = None ->
  Forall (fun r => let '(_, line, sz, last) := r in valid_line line sz last) recs ->
  one_transaction (map rec_c recs) ->
  let tot := total (map rec_c recs) in
  tot <= length (avail (r_net s)) -> tot <= c_maxbytes cfg ->
  exists s' x,
    run_script cfg slen (OpBegin pre0 false :: map rec_op recs ++ rest) s evs
    = run_script cfg slen rest s'
        (evs ++ [EvBegin (slen - length (avail (r_net s)))] ++ x ++ [EvEnv tot; EvFree; EvReply 250; EvRc E0])
    /\ existsb is_env x = false /\ existsb is_fail x = false
    /\ queued x = crlf2lf (firstn tot (avail (r_net s)))
    /\ avail (r_net s') = skipn tot (avail (r_net s))
    /\ r_com s' = CsHelo /\ n_rfail (r_net s') = None /\ wf_clean cfg (r_wcount s').
Proof.
  intros Hclean recs pre0 rest s evs Hcom Hw Hrf Hv (Hne & Hmids & Hlast) tot Hlen Hmax.
  destruct s as [com lc be ms gr qd qh wc net]. cbn [r_com r_wcount r_net] in *. subst com.
  destruct (prebuffer_pres pre0 net) as (Hpa & Hpr).
  cbn [run_script]. unfold set_net, do_begin. rsimpl.
  pose proof (app_removelast_last (0, false, 0) Hne) as Hsplit.
  remember (removelast (map rec_c recs)) as mids eqn:Em. remember (last (map rec_c recs) (0, false, 0)) as lastc eqn:El.
  destruct lastc as [[sz l] pre]. cbn [fst snd] in Hlast. subst l.
  assert (Htot : tot = total mids + sz).
  { subst tot. rewrite Hsplit, total_app. cbn [total fold_right fst]. lia. }
  destruct (run_cmds_clean cfg Hclean mids sz pre (CsRcpt false) lc be ms qd qh wc (prebuffer pre0 net)
              (evs ++ [EvBegin (slen - (length (n_ln (prebuffer pre0 net)) + length (n_stream (prebuffer pre0 net))))])
              Hmids Hw ltac:(left; reflexivity) ltac:(congruence) ltac:(rewrite Hpa; lia) ltac:(cbn [ms0]; lia))
    as (s' & x & E & Hne' & Hnf' & Hq' & Hav' & Hcom' & Hrf' & Hwc').
  rewrite <- Hsplit in E.
  rewrite (run_script_as_cmds cfg slen rest recs _ _ _ _ Hv E).
  exists s', x. cbn [ms0 lc0 Nat.add] in *. rewrite Hpa in *. rewrite <- Htot in *.
  assert (Epos : length (n_ln (prebuffer pre0 net)) + length (n_stream (prebuffer pre0 net)) = length (avail net)).
  { rewrite <- Hpa. unfold avail. now rewrite app_length. }
  rewrite Epos. split; [rewrite <- !app_assoc; reflexivity|].
  split; [exact Hne'|]. split; [exact Hnf'|]. split; [rewrite Hq', crlf2lf_is_conv; reflexivity|].
  split; [exact Hav'|]. split; [exact Hcom'|]. split; [exact Hrf'|]. eapply wf_clean_mono; eauto.
Qed.

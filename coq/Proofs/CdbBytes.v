(** Byte-level lemmas for the cdb proofs: [has], little endian words, strncmp. *)
From Qv Require Import Common.Bytes Gen.GenCdb Model.Cdb Spec.CdbSpec Proofs.CdbSafe.

Lemma nth_firstn' {A} (d : A) : forall n l k, k < n -> nth k (firstn n l) d = nth k l d.
Proof.
  induction n as [|n IH]; intros l k H; [lia|]. destruct l as [|x l]; [now destruct k|].
  destruct k as [|k]; simpl; [reflexivity|]. apply IH. lia.
Qed.

Lemma nth_sub {A} (d : A) (f : list A) o n k : k < n -> nth k (sub f o n) d = nth (o + k) f d.
Proof. intros H. unfold sub. rewrite nth_firstn' by exact H. apply nth_skipn. Qed.

Lemma has_nth f o bs k : has f o bs -> k < length bs ->
  (o + N.of_nat k < N.of_nat (length f))%N /\ nth (N.to_nat (o + N.of_nat k)) f 0%N = nth k bs 0%N.
Proof.
  intros [B E] H. split; [lia|]. rewrite <- E. rewrite nth_sub by exact H. f_equal. lia.
Qed.

Lemma app_eq_len {A} (a a' b b' : list A) : a ++ b = a' ++ b' -> length a = length a' -> a = a' /\ b = b'.
Proof.
  revert a'. induction a as [|x a IH]; intros [|y a'] H L; simpl in *; try discriminate; [now split|].
  inversion H; subst. destruct (IH a' H2) as [-> ->]; [lia|]. now split.
Qed.

Lemma sub_app {A} (f : list A) o la lb : sub f o (la + lb) = sub f o la ++ sub f (o + la) lb.
Proof. unfold sub. rewrite firstn_add'. now rewrite skipn_skipn'. Qed.

Lemma has_app f o a b : has f o (a ++ b) -> has f o a /\ has f (o + N.of_nat (length a)) b.
Proof.
  intros [B E]. rewrite app_length in *. rewrite sub_app in E.
  apply app_eq_len in E as [E1 E2]; [|apply sub_length; lia].
  split; (split; [lia|]); [exact E1|]. replace (N.to_nat (o + N.of_nat (length a))) with (N.to_nat o + length a) by lia.
  exact E2.
Qed.

Lemma has_app_r f o a b : has f o (a ++ b) -> has f (o + N.of_nat (length a)) b.
Proof. intros H. now apply has_app in H. Qed.
Lemma has_app_l f o a b : has f o (a ++ b) -> has f o a.
Proof. intros H. now apply has_app in H. Qed.

Lemma le32_length v : length (le32 v) = 4.
Proof. reflexivity. Qed.

Lemma le32_decode v : (v < M32)%N ->
  ((v / 16777216) mod 256 * 16777216 + (v / 65536) mod 256 * 65536 + (v / 256) mod 256 * 256 + v mod 256 = v)%N.
Proof.
  unfold M32. intros H.
  pose proof (N.div_mod v 256) as A. pose proof (N.div_mod (v / 256) 256) as B.
  pose proof (N.div_mod (v / 256 / 256) 256) as C.
  rewrite N.div_div in B, C by lia. rewrite N.div_div in C by lia.
  change (256 * 256)%N with 65536%N in *. change (65536 * 256)%N with 16777216%N in *.
  assert (D : (v / 16777216 < 256)%N) by (apply N.div_lt_upper_bound; lia).
  rewrite (N.mod_small (v / 16777216) 256) by exact D.
  specialize (A ltac:(lia)). specialize (B ltac:(lia)). specialize (C ltac:(lia)).
  lia.
Qed.

Lemma unpack_has f o v : has f o (le32 v) -> (v < M32)%N -> unpack f (N.of_nat (length f)) o = Ok v.
Proof.
  intros H V. unfold unpack.
  destruct (has_nth f o _ 0 H) as [A0 E0]; [simpl; lia|].
  destruct (has_nth f o _ 1 H) as [A1 E1]; [simpl; lia|].
  destruct (has_nth f o _ 2 H) as [A2 E2]; [simpl; lia|].
  destruct (has_nth f o _ 3 H) as [A3 E3]; [simpl; lia|].
  replace (o + N.of_nat 0)%N with o in * by lia. change (N.of_nat 1) with 1%N in *. change (N.of_nat 2) with 2%N in *.
  change (N.of_nat 3) with 3%N in *.
  rewrite !rd_ok by assumption. cbn [bind]. rewrite E0, E1, E2, E3. cbn [nth le32]. f_equal.
  apply le32_decode. exact V.
Qed.

(** strncmp against a NUL-free key of the same length decides equality *)
Lemma strncmp_has f : forall key' k o,
  has f o key' -> length key' = length k -> Forall (fun b => (0 < b)%N) k ->
  strncmp_eq f (N.of_nat (length f)) o k (length k) = Ok (bytes_eqb key' k).
Proof.
  induction key' as [|a key' IH]; intros [|b k] o H L NZ; simpl in L; try discriminate; [reflexivity|].
  cbn [length strncmp_eq hd tl]. destruct (has_nth f o (a :: key') 0 H) as [A E]; [simpl; lia|].
  replace (o + N.of_nat 0)%N with o in * by lia. rewrite rd_ok by exact A. cbn [bind]. rewrite E. cbn [nth bytes_eqb].
  inversion NZ as [|x y Hb NZ']; subst.
  destruct (a =? b)%N eqn:Eab; [|reflexivity]. apply N.eqb_eq in Eab. subst a.
  destruct (b =? 0)%N eqn:E0; [apply N.eqb_eq in E0; lia|]. cbn [andb].
  apply IH; [|lia|exact NZ'].
  change (b :: key') with ([b] ++ key') in H. apply has_app_r in H. exact H.
Qed.

(** an element of a concatenation of blocks of 8 bytes *)
Lemma has_concat8 {A} f (g : A -> bytes) (dflt : A) : forall l o s,
  (forall x, length (g x) = 8) -> has f o (concat (map g l)) -> s < length l ->
  has f (o + 8 * N.of_nat s) (g (nth s l dflt)).
Proof.
  induction l as [|x l IH]; intros o s G H HS; simpl in HS; [lia|].
  cbn [map concat] in H. destruct s as [|s].
  - apply has_app_l in H. replace (o + 8 * N.of_nat 0)%N with o by lia. exact H.
  - apply has_app_r in H. rewrite G in H. cbn [nth].
    replace (o + 8 * N.of_nat (S s))%N with (o + N.of_nat 8 + 8 * N.of_nat s)%N by lia.
    apply IH; [exact G|exact H|lia].
Qed.

Lemma length_concat8 {A} (l : list A) (g : A -> bytes) : (forall x, length (g x) = 8) ->
  length (concat (map g l)) = 8 * length l.
Proof.
  intros G. induction l as [|x l IH]; [reflexivity|]. cbn [map concat]. rewrite app_length, G, IH. simpl. lia.
Qed.

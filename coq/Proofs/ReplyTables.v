(** C10, engine `replysites`: the four finite checks over the regenerated tables of Gen/GenReplies.v, settled by
    vm_compute.  When a check fails the proof stops with the NAME of the first failing entry (file:line and
    function, from Gen/GenReplyNames.v) in the message.  Coq.Strings.String is imported here for that message
    only; list functions are written qualified because it shadows [length]. *)
From Coq Require Import List NArith Bool.
From Qv Require Import Common.Bytes Common.ReplyTpl Gen.GenReplies Gen.GenReplyNames Spec.ReplySitesSpec.
From Coq Require Import String.
Open Scope string_scope.

Lemma netwrite_literals_ok : List.forallb (fun e => literal_reply_ok (snd e)) netwrite_literals = true.
Proof.
  lazymatch eval vm_compute in
    (List.map fst (List.filter (fun ne => negb (literal_reply_ok (snd (snd ne)))) (List.combine netwrite_literal_names netwrite_literals))) with
  | nil => idtac
  | cons ?n _ => fail 0 n "<- not a valid reply"
  end.
  vm_compute. reflexivity.
Qed.

Lemma writen_templates_ok : List.forallb (fun e => template_ok (snd e)) writen_templates = true.
Proof.
  lazymatch eval vm_compute in
    (List.map fst (List.filter (fun ne => negb (template_ok (snd (snd ne)))) (List.combine writen_template_names writen_templates))) with
  | nil => idtac
  | cons ?n _ => fail 0 n "<- array outside the contract of net_writen"
  end.
  vm_compute. reflexivity.
Qed.

Lemma multiline_templates_ok :
  List.forallb (fun e => ml_template_ok (snd e) && Nat.ltb (List.length (snd e)) ML_CAPACITY) multiline_templates = true.
Proof.
  lazymatch eval vm_compute in
    (List.map fst (List.filter (fun ne => negb ((fun t => ml_template_ok t && Nat.ltb (List.length t) ML_CAPACITY) (snd (snd ne)))) (List.combine multiline_template_names multiline_templates))) with
  | nil => idtac
  | cons ?n _ => fail 0 n "<- not a valid multi-line reply or too long for its array"
  end.
  vm_compute. reflexivity.
Qed.

Lemma reply_sequences_ok : List.forallb (fun e => seq_ok (snd e)) reply_sequences = true.
Proof.
  lazymatch eval vm_compute in
    (List.map fst (List.filter (fun ne => negb (seq_ok (snd (snd ne)))) (List.combine reply_sequence_names reply_sequences))) with
  | nil => idtac
  | cons ?n _ => fail 0 n "<- calls that together are not one valid reply"
  end.
  vm_compute. reflexivity.
Qed.

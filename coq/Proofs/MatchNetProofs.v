(** Proofs about ip4_matchnet / ip6_matchnet: the result is 1 exactly when the
    big-endian values of address and network agree after dropping the low
    (bits - mask) bits. *)
From Qv Require Import Common.Bytes Gen.GenControl Model.MatchNet Spec.ControlSpec.
From Coq Require Import ZifyN ZifyBool ZifyNat.

Ltac mconsts := unfold MN_WORD, MN_V4_WORD, MN_V6_WORDS in *.
Ltac forall_split :=
  repeat match goal with
         | H : Forall _ (_ :: _) |- _ => let H' := fresh "Hb" in pose proof (Forall_inv H) as H'; cbv beta in H'; apply Forall_inv_tail in H
         end.

Local Open Scope N_scope.

(** ------------------------------------------------------------ bit lemmas *)
Lemma testbit_add_mul_pow2 (n lo hi i : N) :
  lo < 2 ^ n ->
  N.testbit (lo + 2 ^ n * hi) i = if i <? n then N.testbit lo i else N.testbit hi (i - n).
Proof.
  intros Hlo. assert (Hp : 2 ^ n <> 0) by (apply N.pow_nonzero; lia).
  assert (Em : (lo + 2 ^ n * hi) mod 2 ^ n = lo).
  { rewrite (N.mul_comm (2 ^ n) hi), N.mod_add by assumption. now apply N.mod_small. }
  assert (Ed : (lo + 2 ^ n * hi) / 2 ^ n = hi).
  { rewrite (N.mul_comm (2 ^ n) hi), N.div_add by assumption.
    rewrite N.div_small by assumption. reflexivity. }
  destruct (i <? n) eqn:E.
  - apply N.ltb_lt in E.
    rewrite <- (N.mod_pow2_bits_low (lo + 2 ^ n * hi) n i E). rewrite Em. reflexivity.
  - apply N.ltb_ge in E.
    replace i with ((i - n) + n) at 1 by lia.
    rewrite <- N.div_pow2_bits. rewrite Ed. reflexivity.
Qed.

Lemma land_lt_pow2 (a b n : N) : a < 2 ^ n -> N.land a b < 2 ^ n.
Proof.
  intros Ha. assert (Hp : 2 ^ n <> 0) by (apply N.pow_nonzero; lia).
  rewrite <- (N.mod_small a (2 ^ n) Ha), <- N.land_ones.
  rewrite <- N.land_assoc, (N.land_comm (N.ones n)), N.land_assoc, N.land_ones.
  apply N.mod_lt. assumption.
Qed.

Lemma land_split (n a b x y : N) :
  a < 2 ^ n -> b < 2 ^ n ->
  N.land (a + 2 ^ n * x) (b + 2 ^ n * y) = N.land a b + 2 ^ n * N.land x y.
Proof.
  intros Ha Hb. apply N.bits_inj. intros i.
  rewrite N.land_spec.
  rewrite !testbit_add_mul_pow2 by (auto using land_lt_pow2).
  destruct (i <? n); now rewrite N.land_spec.
Qed.

Lemma land_split8 (a b x y : N) :
  a < 256 -> b < 256 -> N.land (a + 256 * x) (b + 256 * y) = N.land a b + 256 * N.land x y.
Proof. intros. change 256 with (2 ^ 8). apply land_split; assumption. Qed.

Lemma land_byte (a b : N) : a < 256 -> N.land a b < 256.
Proof. change 256 with (2 ^ 8). apply land_lt_pow2. Qed.

(** and with the complement of the low k bits *)
Lemma land_himask (x k : N) :
  x < 2 ^ 32 -> k <= 32 -> N.land x (2 ^ 32 - 2 ^ k) = x / 2 ^ k * 2 ^ k.
Proof.
  intros Hx Hk.
  assert (Hp : 2 ^ k <> 0) by (apply N.pow_nonzero; lia).
  assert (E32 : 2 ^ 32 = 2 ^ k * 2 ^ (32 - k)) by (rewrite <- N.pow_add_r; f_equal; lia).
  pose proof (N.div_mod x (2 ^ k) Hp) as Hdm.
  pose proof (N.mod_lt x (2 ^ k) Hp) as Hr.
  set (q := x / 2 ^ k) in *. set (r := x mod 2 ^ k) in *.
  assert (Hq : q < 2 ^ (32 - k)).
  { apply N.div_lt_upper_bound; [assumption|]. rewrite <- E32. assumption. }
  assert (Hp2 : 2 ^ (32 - k) <> 0) by (apply N.pow_nonzero; lia).
  replace (2 ^ 32 - 2 ^ k) with (0 + 2 ^ k * (2 ^ (32 - k) - 1)) by (rewrite E32; nia).
  rewrite Hdm at 1. rewrite N.add_comm.
  rewrite land_split by (auto; lia).
  rewrite N.land_0_r, N.add_0_l.
  replace (2 ^ (32 - k) - 1) with (N.ones (32 - k)) by (rewrite N.ones_equiv; lia).
  rewrite N.land_ones, N.mod_small by assumption. apply N.mul_comm.
Qed.

(** ------------------------------------------------------------ 32-bit words from bytes *)
Definition le32 (b0 b1 b2 b3 : N) : N := b0 + 256 * b1 + 65536 * b2 + 16777216 * b3.
Definition be32 (b0 b1 b2 b3 : N) : N := ((b0 * 256 + b1) * 256 + b2) * 256 + b3.

Lemma land_le32 a0 a1 a2 a3 m0 m1 m2 m3 :
  a0 < 256 -> a1 < 256 -> a2 < 256 -> m0 < 256 -> m1 < 256 -> m2 < 256 ->
  N.land (le32 a0 a1 a2 a3) (le32 m0 m1 m2 m3) =
  le32 (N.land a0 m0) (N.land a1 m1) (N.land a2 m2) (N.land a3 m3).
Proof.
  intros. unfold le32.
  replace (a0 + 256 * a1 + 65536 * a2 + 16777216 * a3) with (a0 + 256 * (a1 + 256 * (a2 + 256 * a3))) by lia.
  replace (m0 + 256 * m1 + 65536 * m2 + 16777216 * m3) with (m0 + 256 * (m1 + 256 * (m2 + 256 * m3))) by lia.
  rewrite !land_split8 by assumption. lia.
Qed.

Lemma land_be32 a0 a1 a2 a3 m0 m1 m2 m3 :
  a1 < 256 -> a2 < 256 -> a3 < 256 -> m1 < 256 -> m2 < 256 -> m3 < 256 ->
  N.land (be32 a0 a1 a2 a3) (be32 m0 m1 m2 m3) =
  be32 (N.land a0 m0) (N.land a1 m1) (N.land a2 m2) (N.land a3 m3).
Proof.
  intros. unfold be32.
  replace (((a0 * 256 + a1) * 256 + a2) * 256 + a3) with (a3 + 256 * (a2 + 256 * (a1 + 256 * a0))) by lia.
  replace (((m0 * 256 + m1) * 256 + m2) * 256 + m3) with (m3 + 256 * (m2 + 256 * (m1 + 256 * m0))) by lia.
  rewrite !land_split8 by assumption. lia.
Qed.

Lemma be32_lt a0 a1 a2 a3 : a0 < 256 -> a1 < 256 -> a2 < 256 -> a3 < 256 -> be32 a0 a1 a2 a3 < 2 ^ 32.
Proof. intros. unfold be32. change (2 ^ 32) with 4294967296. lia. Qed.

(** htonl of a 32-bit value is the little-endian load of its big-endian bytes *)
Lemma htonl_bytes (M : N) :
  M < 2 ^ 32 ->
  exists m0 m1 m2 m3, m0 < 256 /\ m1 < 256 /\ m2 < 256 /\ m3 < 256 /\
    htonl M = le32 m0 m1 m2 m3 /\ M = be32 m0 m1 m2 m3.
Proof.
  intros HM. change (2 ^ 32) with 4294967296 in HM.
  exists ((M / 16777216) mod 256), ((M / 65536) mod 256), ((M / 256) mod 256), (M mod 256).
  repeat split; try (apply N.mod_lt; lia).
  unfold be32.
  pose proof (N.div_mod M 256 ltac:(lia)) as H1. pose proof (N.mod_lt M 256 ltac:(lia)) as H1'.
  pose proof (N.div_mod (M / 256) 256 ltac:(lia)) as H2. pose proof (N.mod_lt (M / 256) 256 ltac:(lia)) as H2'.
  pose proof (N.div_mod (M / 256 / 256) 256 ltac:(lia)) as H3. pose proof (N.mod_lt (M / 256 / 256) 256 ltac:(lia)) as H3'.
  rewrite !N.div_div in * by lia. change (256 * 256) with 65536 in *. change (65536 * 256) with 16777216 in *.
  assert (H4 : M / 16777216 < 256) by (apply N.div_lt_upper_bound; lia).
  rewrite (N.mod_small (M / 16777216) 256 H4) in *.
  lia.
Qed.

Lemma le32_be32_eq a0 a1 a2 a3 c0 c1 c2 c3 :
  a0 < 256 -> a1 < 256 -> a2 < 256 -> a3 < 256 -> c0 < 256 -> c1 < 256 -> c2 < 256 -> c3 < 256 ->
  (le32 a0 a1 a2 a3 = le32 c0 c1 c2 c3 <-> be32 a0 a1 a2 a3 = be32 c0 c1 c2 c3).
Proof. intros. unfold le32, be32. lia. Qed.

(** one word: the C comparison equals the comparison of the top 32-k bits *)
Lemma word_match (a0 a1 a2 a3 n0 n1 n2 n3 k : N) :
  a0 < 256 -> a1 < 256 -> a2 < 256 -> a3 < 256 ->
  n0 < 256 -> n1 < 256 -> n2 < 256 -> n3 < 256 -> k <= 32 ->
  let m := htonl (4294967295 - (2 ^ k - 1)) in
  (N.land (le32 a0 a1 a2 a3) m =? N.land (le32 n0 n1 n2 n3) m) =
  (be32 a0 a1 a2 a3 / 2 ^ k =? be32 n0 n1 n2 n3 / 2 ^ k).
Proof.
  intros Ha0 Ha1 Ha2 Ha3 Hn0 Hn1 Hn2 Hn3 Hk m. subst m.
  assert (Hp : 2 ^ k <> 0) by (apply N.pow_nonzero; lia).
  assert (Hpk : 2 ^ k <= 2 ^ 32) by (apply N.pow_le_mono_r; lia).
  assert (HM : 4294967295 - (2 ^ k - 1) = 2 ^ 32 - 2 ^ k) by (change (2 ^ 32) with 4294967296 in *; lia).
  rewrite HM.
  destruct (htonl_bytes (2 ^ 32 - 2 ^ k)) as (m0 & m1 & m2 & m3 & Hm0 & Hm1 & Hm2 & Hm3 & Eh & Eb); [lia|].
  rewrite Eh. rewrite !land_le32 by assumption.
  pose proof (be32_lt a0 a1 a2 a3 Ha0 Ha1 Ha2 Ha3) as Hba.
  pose proof (be32_lt n0 n1 n2 n3 Hn0 Hn1 Hn2 Hn3) as Hbn.
  pose proof (land_himask _ k Hba Hk) as La. pose proof (land_himask _ k Hbn Hk) as Ln.
  rewrite Eb in La, Ln. rewrite !land_be32 in La, Ln by assumption.
  pose proof (land_byte a0 m0 Ha0). pose proof (land_byte a1 m1 Ha1).
  pose proof (land_byte a2 m2 Ha2). pose proof (land_byte a3 m3 Ha3).
  pose proof (land_byte n0 m0 Hn0). pose proof (land_byte n1 m1 Hn1).
  pose proof (land_byte n2 m2 Hn2). pose proof (land_byte n3 m3 Hn3).
  apply eq_true_iff_eq. rewrite !N.eqb_eq.
  rewrite le32_be32_eq by assumption.
  rewrite La, Ln. apply N.mul_cancel_r. assumption.
Qed.

Lemma be_val_4 a0 a1 a2 a3 : be_val [a0; a1; a2; a3] = be32 a0 a1 a2 a3.
Proof. reflexivity. Qed.

(** ------------------------------------------------------------ ip4_matchnet *)
Theorem ip4_matchnet_correct (ip net : bytes) (mask : N) :
  length ip = 16%nat -> (4 <= length net)%nat -> bytes_ok ip -> bytes_ok net -> mask <= 32 ->
  ip4_matchnet ip net mask = Ok (in_net4b ip net mask).
Proof.
  intros Hli Hln Hip Hnet Hm.
  do 17 (destruct ip as [|? ip]; try discriminate). clear Hli.
  do 4 (destruct net as [|? net]; [cbn in Hln; lia|]). clear Hln.
  unfold bytes_ok in *.
  forall_split.
  unfold ip4_matchnet, in_net4b, same_prefixb, sub. cbn [skipn firstn].
  rewrite !be_val_4.
  destruct (N.eqb mask 0) eqn:E0.
  - apply N.eqb_eq in E0. subst mask. f_equal. symmetry.
    rewrite !N.div_small by (apply be32_lt; assumption). reflexivity.
  - apply N.eqb_neq in E0. unfold netmask_word. mconsts.
    replace (Z.of_nat 32 - Z.of_N mask <? 0)%Z with false by lia.
    replace (Z.of_nat 32 <=? Z.of_nat 32 - Z.of_N mask)%Z with false by lia.
    cbn [orb bind]. replace (Z.to_N (Z.of_nat 32 - Z.of_N mask)) with (32 - mask) by lia.
    unfold ld32. cbn [skipn Nat.mul Nat.add bind].
    f_equal. apply word_match; try assumption. lia.
Qed.

(** ------------------------------------------------------------ arithmetic of prefixes over several words *)
Lemma div_top (H L k j : N) : L < 2 ^ k -> (H * 2 ^ k + L) / 2 ^ (k + j) = H / 2 ^ j.
Proof.
  intros HL. assert (Hk : 2 ^ k <> 0) by (apply N.pow_nonzero; lia).
  assert (Hj : 2 ^ j <> 0) by (apply N.pow_nonzero; lia).
  rewrite N.pow_add_r, <- N.div_div by assumption.
  rewrite N.div_add_l by assumption. rewrite (N.div_small L) by assumption.
  now rewrite N.add_0_r.
Qed.

Lemma div_split (H L H' L' k j : N) :
  j <= k -> L < 2 ^ k -> L' < 2 ^ k ->
  ((H * 2 ^ k + L) / 2 ^ j = (H' * 2 ^ k + L') / 2 ^ j <-> H = H' /\ L / 2 ^ j = L' / 2 ^ j).
Proof.
  intros Hjk HL HL'.
  assert (Hj : 2 ^ j <> 0) by (apply N.pow_nonzero; lia).
  assert (Hd : 2 ^ (k - j) <> 0) by (apply N.pow_nonzero; lia).
  assert (Ek : 2 ^ k = 2 ^ (k - j) * 2 ^ j) by (rewrite <- N.pow_add_r; f_equal; lia).
  rewrite Ek, !N.mul_assoc, !N.div_add_l by assumption.
  assert (B : L / 2 ^ j < 2 ^ (k - j)) by (apply N.div_lt_upper_bound; [assumption|]; rewrite N.mul_comm, <- Ek; assumption).
  assert (B' : L' / 2 ^ j < 2 ^ (k - j)) by (apply N.div_lt_upper_bound; [assumption|]; rewrite N.mul_comm, <- Ek; assumption).
  split.
  - intros E. apply (N.div_mod_unique (2 ^ (k - j))); [assumption|assumption|]. lia.
  - intros [-> ->]. reflexivity.
Qed.

Lemma eq_split (H L H' L' : N) :
  L < 2 ^ 32 -> L' < 2 ^ 32 -> (H * 2 ^ 32 + L = H' * 2 ^ 32 + L' <-> H = H' /\ L = L').
Proof.
  intros HL HL'. pose proof (div_split H L H' L' 32 0 ltac:(lia) HL HL') as D.
  rewrite !N.pow_0_r, !N.div_1_r in D. exact D.
Qed.

(** which low bits of word [i] are ignored for a prefix of q whole words and r further bits *)
Definition drop_bits (q r : N) (i : N) : N :=
  if i <? q then 0 else if i =? q then 32 - r else 32.

Lemma prefix128 (w0 w1 w2 w3 v0 v1 v2 v3 q r : N) :
  w0 < 2 ^ 32 -> w1 < 2 ^ 32 -> w2 < 2 ^ 32 -> w3 < 2 ^ 32 ->
  v0 < 2 ^ 32 -> v1 < 2 ^ 32 -> v2 < 2 ^ 32 -> v3 < 2 ^ 32 ->
  r < 32 -> 32 * q + r <= 128 ->
  ((((w0 * 2 ^ 32 + w1) * 2 ^ 32 + w2) * 2 ^ 32 + w3) / 2 ^ (128 - (32 * q + r)) =
   (((v0 * 2 ^ 32 + v1) * 2 ^ 32 + v2) * 2 ^ 32 + v3) / 2 ^ (128 - (32 * q + r))
   <->
   w0 / 2 ^ drop_bits q r 0 = v0 / 2 ^ drop_bits q r 0 /\
   w1 / 2 ^ drop_bits q r 1 = v1 / 2 ^ drop_bits q r 1 /\
   w2 / 2 ^ drop_bits q r 2 = v2 / 2 ^ drop_bits q r 2 /\
   w3 / 2 ^ drop_bits q r 3 = v3 / 2 ^ drop_bits q r 3).
Proof.
  intros Hw0 Hw1 Hw2 Hw3 Hv0 Hv1 Hv2 Hv3 Hr Hm.
  assert (Z32 : forall x, x < 2 ^ 32 -> x / 2 ^ 32 = 0) by (intros; now apply N.div_small).
  assert (P64 : forall a b, a < 2 ^ 32 -> b < 2 ^ 32 -> a * 2 ^ 32 + b < 2 ^ 64)
    by (intros a b; change (2 ^ 32) with 4294967296; change (2 ^ 64) with 18446744073709551616; nia).
  assert (P96 : forall a b c, a < 2 ^ 32 -> b < 2 ^ 32 -> c < 2 ^ 32 -> (a * 2 ^ 32 + b) * 2 ^ 32 + c < 2 ^ 96)
    by (intros a b c; change (2 ^ 32) with 4294967296; change (2 ^ 96) with 79228162514264337593543950336; nia).
  assert (Hq : q = 0 \/ q = 1 \/ q = 2 \/ q = 3 \/ q = 4) by lia.
  destruct Hq as [-> | [-> | [-> | [-> | ->]]]]; unfold drop_bits; cbn [N.ltb N.eqb N.compare Pos.compare Pos.compare_cont Pos.eqb].
  - (* q = 0 *)
    replace (128 - (32 * 0 + r)) with (96 + (32 - r)) by lia.
    replace (((w0 * 2 ^ 32 + w1) * 2 ^ 32 + w2) * 2 ^ 32 + w3) with (w0 * 2 ^ 96 + ((w1 * 2 ^ 32 + w2) * 2 ^ 32 + w3))
      by (change (2 ^ 96) with (2 ^ 32 * 2 ^ 32 * 2 ^ 32); ring).
    replace (((v0 * 2 ^ 32 + v1) * 2 ^ 32 + v2) * 2 ^ 32 + v3) with (v0 * 2 ^ 96 + ((v1 * 2 ^ 32 + v2) * 2 ^ 32 + v3))
      by (change (2 ^ 96) with (2 ^ 32 * 2 ^ 32 * 2 ^ 32); ring).
    rewrite !div_top by (apply P96; assumption).
    rewrite !Z32 by assumption. tauto.
  - (* q = 1 *)
    replace (128 - (32 * 1 + r)) with (64 + (32 - r)) by lia.
    replace (((w0 * 2 ^ 32 + w1) * 2 ^ 32 + w2) * 2 ^ 32 + w3) with ((w0 * 2 ^ 32 + w1) * 2 ^ 64 + (w2 * 2 ^ 32 + w3))
      by (change (2 ^ 64) with (2 ^ 32 * 2 ^ 32); ring).
    replace (((v0 * 2 ^ 32 + v1) * 2 ^ 32 + v2) * 2 ^ 32 + v3) with ((v0 * 2 ^ 32 + v1) * 2 ^ 64 + (v2 * 2 ^ 32 + v3))
      by (change (2 ^ 64) with (2 ^ 32 * 2 ^ 32); ring).
    rewrite !div_top by (apply P64; assumption).
    rewrite div_split by (assumption || lia).
    rewrite !Z32 by assumption. rewrite N.pow_0_r, !N.div_1_r. tauto.
  - (* q = 2 *)
    replace (128 - (32 * 2 + r)) with (32 + (32 - r)) by lia.
    rewrite !div_top by assumption.
    rewrite div_split by (assumption || lia).
    rewrite eq_split by assumption.
    rewrite !Z32 by assumption. rewrite N.pow_0_r, !N.div_1_r. tauto.
  - (* q = 3 *)
    replace (128 - (32 * 3 + r)) with (32 - r) by lia.
    rewrite div_split by (assumption || lia).
    rewrite !eq_split by assumption.
    rewrite N.pow_0_r, !N.div_1_r. tauto.
  - (* q = 4 *)
    assert (r = 0) by lia. subst r.
    replace (128 - (32 * 4 + 0)) with 0 by lia.
    rewrite !N.pow_0_r, !N.div_1_r.
    rewrite !eq_split by assumption. tauto.
Qed.

(** ------------------------------------------------------------ ip6_matchnet *)
(** the mask word that ignores the low k bits, as stored by the C *)
Definition hm (k : N) : N := htonl (4294967295 - (2 ^ k - 1)).

Lemma mask_words (mask : N) :
  mask <= 128 ->
  let q := mask / 32 in let r := mask mod 32 in
  (do m1 <- fill_ones (N.to_nat q) 0 (repeat 0 4);
   if N.eqb r 0 then Ok m1
   else do mw <- netmask_word (Z.of_nat 32 - Z.of_N r); set_word m1 (N.to_nat q) (htonl mw))
  = Ok [hm (drop_bits q r 0); hm (drop_bits q r 1); hm (drop_bits q r 2); hm (drop_bits q r 3)].
Proof.
  intros Hm q r.
  assert (Hr : r < 32) by (apply N.mod_lt; lia).
  assert (Hdm : mask = 32 * q + r) by (apply N.div_mod; lia).
  assert (Hq : q = 0 \/ q = 1 \/ q = 2 \/ q = 3 \/ q = 4) by lia.
  clearbody q r.
  assert (Hnw : r <> 0 -> netmask_word (Z.of_nat 32 - Z.of_N r) = Ok (4294967295 - (2 ^ (32 - r) - 1))).
  { intros Hr0. unfold netmask_word. mconsts.
    replace (Z.of_nat 32 - Z.of_N r <? 0)%Z with false by lia.
    replace (Z.of_nat 32 <=? Z.of_nat 32 - Z.of_N r)%Z with false by lia.
    cbn [orb]. replace (Z.to_N (Z.of_nat 32 - Z.of_N r)) with (32 - r) by lia. reflexivity. }
  destruct Hq as [-> | [-> | [-> | [-> | ->]]]];
    (destruct (N.eqb r 0) eqn:Er;
     [ apply N.eqb_eq in Er; subst r; vm_compute; reflexivity
     | apply N.eqb_neq in Er; try lia; rewrite (Hnw Er);
       unfold drop_bits; cbn [N.ltb N.eqb N.compare Pos.compare Pos.compare_cont Pos.eqb];
       reflexivity ]).
Qed.

Lemma cmp_words_spec (a0 a1 a2 a3 a4 a5 a6 a7 a8 a9 a10 a11 a12 a13 a14 a15 : N)
      (n0 n1 n2 n3 n4 n5 n6 n7 n8 n9 n10 n11 n12 n13 n14 n15 : N) (rest : bytes) (k0 k1 k2 k3 : N) :
  bytes_ok [a0; a1; a2; a3; a4; a5; a6; a7; a8; a9; a10; a11; a12; a13; a14; a15] ->
  bytes_ok [n0; n1; n2; n3; n4; n5; n6; n7; n8; n9; n10; n11; n12; n13; n14; n15] ->
  k0 <= 32 -> k1 <= 32 -> k2 <= 32 -> k3 <= 32 ->
  cmp_words 4 [a0; a1; a2; a3; a4; a5; a6; a7; a8; a9; a10; a11; a12; a13; a14; a15]
              (n0 :: n1 :: n2 :: n3 :: n4 :: n5 :: n6 :: n7 :: n8 :: n9 :: n10 :: n11 :: n12 :: n13 :: n14 :: n15 :: rest)
              [hm k0; hm k1; hm k2; hm k3]
  = Ok ((be32 a12 a13 a14 a15 / 2 ^ k3 =? be32 n12 n13 n14 n15 / 2 ^ k3) &&
        ((be32 a8 a9 a10 a11 / 2 ^ k2 =? be32 n8 n9 n10 n11 / 2 ^ k2) &&
         ((be32 a4 a5 a6 a7 / 2 ^ k1 =? be32 n4 n5 n6 n7 / 2 ^ k1) &&
          (be32 a0 a1 a2 a3 / 2 ^ k0 =? be32 n0 n1 n2 n3 / 2 ^ k0))))%bool.
Proof.
  intros Ha Hn Hk0 Hk1 Hk2 Hk3. unfold bytes_ok in *.
  forall_split.
  cbn [cmp_words ld32 skipn Nat.mul Nat.add bind nth].
  fold (le32 a12 a13 a14 a15). fold (le32 n12 n13 n14 n15).
  fold (le32 a8 a9 a10 a11). fold (le32 n8 n9 n10 n11).
  fold (le32 a4 a5 a6 a7). fold (le32 n4 n5 n6 n7).
  fold (le32 a0 a1 a2 a3). fold (le32 n0 n1 n2 n3).
  unfold hm. rewrite !word_match by assumption.
  repeat match goal with |- context [if ?c then _ else _] => destruct c end; reflexivity.
Qed.

Lemma be_val_16 (a0 a1 a2 a3 a4 a5 a6 a7 a8 a9 a10 a11 a12 a13 a14 a15 : N) :
  be_val [a0; a1; a2; a3; a4; a5; a6; a7; a8; a9; a10; a11; a12; a13; a14; a15] =
  ((be32 a0 a1 a2 a3 * 2 ^ 32 + be32 a4 a5 a6 a7) * 2 ^ 32 + be32 a8 a9 a10 a11) * 2 ^ 32 + be32 a12 a13 a14 a15.
Proof. unfold be_val, be32. cbn [fold_left]. change (2 ^ 32) with 4294967296. lia. Qed.

Lemma drop_bits_le (q r i : N) : drop_bits q r i <= 32.
Proof. unfold drop_bits. destruct (i <? q); [lia|]. destruct (i =? q); lia. Qed.

Theorem ip6_matchnet_correct (ip net : bytes) (mask : N) :
  length ip = 16%nat -> (16 <= length net)%nat -> bytes_ok ip -> bytes_ok net -> mask <= 128 ->
  ip6_matchnet ip net mask = Ok (in_net6b ip net mask).
Proof.
  intros Hli Hln Hip Hnet Hm.
  destruct ip as [|a0 ip]; [discriminate|].
  destruct ip as [|a1 ip]; [discriminate|].
  destruct ip as [|a2 ip]; [discriminate|].
  destruct ip as [|a3 ip]; [discriminate|].
  destruct ip as [|a4 ip]; [discriminate|].
  destruct ip as [|a5 ip]; [discriminate|].
  destruct ip as [|a6 ip]; [discriminate|].
  destruct ip as [|a7 ip]; [discriminate|].
  destruct ip as [|a8 ip]; [discriminate|].
  destruct ip as [|a9 ip]; [discriminate|].
  destruct ip as [|a10 ip]; [discriminate|].
  destruct ip as [|a11 ip]; [discriminate|].
  destruct ip as [|a12 ip]; [discriminate|].
  destruct ip as [|a13 ip]; [discriminate|].
  destruct ip as [|a14 ip]; [discriminate|].
  destruct ip as [|a15 ip]; [discriminate|].
  destruct ip as [|? ?]; [|discriminate]. clear Hli.
  destruct net as [|n0 net]; [cbn in Hln; lia|].
  destruct net as [|n1 net]; [cbn in Hln; lia|].
  destruct net as [|n2 net]; [cbn in Hln; lia|].
  destruct net as [|n3 net]; [cbn in Hln; lia|].
  destruct net as [|n4 net]; [cbn in Hln; lia|].
  destruct net as [|n5 net]; [cbn in Hln; lia|].
  destruct net as [|n6 net]; [cbn in Hln; lia|].
  destruct net as [|n7 net]; [cbn in Hln; lia|].
  destruct net as [|n8 net]; [cbn in Hln; lia|].
  destruct net as [|n9 net]; [cbn in Hln; lia|].
  destruct net as [|n10 net]; [cbn in Hln; lia|].
  destruct net as [|n11 net]; [cbn in Hln; lia|].
  destruct net as [|n12 net]; [cbn in Hln; lia|].
  destruct net as [|n13 net]; [cbn in Hln; lia|].
  destruct net as [|n14 net]; [cbn in Hln; lia|].
  destruct net as [|n15 net]; [cbn in Hln; lia|].
  clear Hln.
  unfold ip6_matchnet. mconsts. change (N.of_nat 32) with 32.
  pose proof (mask_words mask Hm) as MW. cbv zeta in MW.
  assert (Hr : mask mod 32 < 32) by (apply N.mod_lt; lia).
  assert (Hdm : mask = 32 * (mask / 32) + mask mod 32) by (apply N.div_mod; lia).
  set (q := mask / 32) in *. set (r := mask mod 32) in *.
  destruct (fill_ones (N.to_nat q) 0 (repeat 0 4)) as [m1| |]; cbn [bind] in MW |- *; try discriminate.
  destruct (if r =? 0 then Ok m1 else _) as [m2| |]; try discriminate.
  injection MW as ->. cbn [bind].
  assert (Hnet' : bytes_ok [n0; n1; n2; n3; n4; n5; n6; n7; n8; n9; n10; n11; n12; n13; n14; n15]).
  { unfold bytes_ok in *. forall_split.
    repeat constructor; assumption. }
  rewrite cmp_words_spec by (auto using drop_bits_le).
  f_equal. unfold in_net6b, same_prefixb. cbn [firstn]. rewrite !be_val_16.
  unfold bytes_ok in *.
  forall_split.
  apply eq_true_iff_eq. rewrite !andb_true_iff, !N.eqb_eq.
  rewrite Hdm at 1 2.
  rewrite prefix128 by (try (apply be32_lt; assumption); lia).
  tauto.
Qed.

(** The macro expander of this development satisfies the one assumption the
    core theorems make about it: it never yields [OutOfFuel]. *)
From Qv Require Import Common.Bytes Gen.GenSpf Model.SpfBase Model.SpfEnv Model.SpfMacro.
Local Open Scope N_scope.

Lemma makro_loop_nofuel D X : forall fuel s d ex acc q, makro_loop D X fuel s d ex acc q <> OutOfFuel.
Proof.
  induction fuel as [|f IH]; intros s d ex acc q; cbn [makro_loop]; [discriminate|].
  destruct s as [|c0 [|c t]]; try discriminate.
  destruct (negb (c0 =? 37)); [discriminate|].
  assert (Hc : forall add t' q',
    match drop_while not_pct t' with
    | [] => Ok (MOk (acc ++ add ++ take_while not_pct t'), q')
    | c1 :: l => makro_loop D X f (c1 :: l) d ex (acc ++ add ++ take_while not_pct t') q'
    end <> OutOfFuel).
  { intros add t' q'. destruct (drop_while not_pct t'); [discriminate|apply IH]. }
  destruct (c =? 45); [apply Hc|].
  destruct (c =? 95); [apply Hc|].
  destruct (c =? 37); [apply Hc|].
  destruct (c =? 123); [|discriminate].
  destruct (makroletter D X t d ex) as [[[e| | |] t'] ql]; try discriminate. apply Hc.
Qed.

Lemma spf_makro_nofuel D X t d e : spf_makro D X t d e <> OutOfFuel.
Proof.
  unfold spf_makro. destruct (drop_while not_pct _); [discriminate|apply makro_loop_nofuel].
Qed.

(** C10, engine `replysites`: the guarantees of other properties' theorems, restated as the class
    invariants the site theorems assume.  Only the SPEC files of the other properties are used
    here (their predicates), not their proofs:
      C14_oracle_ref        concludes  Forall clean7 ad        for every address addrsyntax() returns,
      C14_domain            concludes  fqdn h                  for every name domainvalid() accepts,
      C11_exp_text_clean    concludes  reply_text r = true     for the explanation left in xmitstat.spfexp,
      C05_line_shape        concludes  no_crlf l               for every line net_read() hands out. *)
From Coq Require Import Lia ZifyBool ZifyN.
From Qv Require Import Common.Bytes Common.ReplyTpl Gen.GenReplies Model.ReplySites Spec.ReplySpec Spec.ReplySitesSpec Proofs.ReplySitesProofs.
From Qv Require Spec.AddrSpec Spec.SpfSpec Spec.LineSpec.

Lemma addr_class ad : Forall AddrSpec.clean7 ad -> class_inv HAddr ad.
Proof.
  intros H. cbn [class_inv]. unfold no_crlf. eapply Forall_impl; [|exact H].
  intros c (_ & _ & H1 & H2). split; assumption.
Qed.

Lemma ldh_clean c : AddrSpec.ldh c = true -> c <> CR /\ c <> LF.
Proof. unfold AddrSpec.ldh, is_alpha, is_upper, is_lower, is_digit, DASH, CR, LF. lia. Qed.

Lemma join_dots_clean ls : Forall AddrSpec.label ls -> no_crlf (AddrSpec.join_dots ls).
Proof.
  induction 1 as [|l ls Hl _ IH]; [constructor|].
  assert (Hc : no_crlf l).
  { destruct Hl as [_ Hl]. unfold no_crlf. eapply Forall_impl; [|exact Hl]. intros c Hc. now apply ldh_clean. }
  destruct ls as [|l2 ls]; [exact Hc|].
  change (AddrSpec.join_dots (l :: l2 :: ls)) with (l ++ DOT :: AddrSpec.join_dots (l2 :: ls)).
  unfold no_crlf. apply Forall_app. split; [exact Hc|]. constructor; [|exact IH].
  unfold DOT, CR, LF. lia.
Qed.

Lemma domain_class h : AddrSpec.fqdn h -> class_inv HDomain h.
Proof.
  intros (labels & -> & _ & Hl & Hlen & _). cbn [class_inv]. split; [now apply join_dots_clean|exact Hlen].
Qed.

Lemma spfexp_class r : SpfSpec.reply_text r = true -> class_inv HSpfExp r.
Proof.
  unfold SpfSpec.reply_text. rewrite forallb_forall. intros H. cbn [class_inv]. unfold no_crlf.
  apply Forall_forall. intros c Hc. specialize (H c Hc). unfold SpfSpec.reply_byte, CR, LF in *. lia.
Qed.

Lemma linearg_class l n : LineSpec.no_crlf l -> class_inv HLineArg (skipn n l).
Proof. intros H. cbn [class_inv]. apply Forall_skipn. exact H. Qed.

Theorem thm_hole_sources :
  (forall ad, Forall AddrSpec.clean7 ad -> class_inv HAddr ad)
  /\ (forall h, AddrSpec.fqdn h -> class_inv HDomain h)
  /\ (forall r, SpfSpec.reply_text r = true -> class_inv HSpfExp r)
  /\ (forall l n, LineSpec.no_crlf l -> class_inv HLineArg (skipn n l))
  /\ (forall raw v, dnstxt raw = Some v -> class_inv HDnsTxt v)
  /\ length hole_sources
     = length (filter (fun e => match e with Hole _ => true | Lit _ => false end)
                 (concat (map snd writen_templates) ++ concat (map snd multiline_templates))).
Proof.
  split; [exact addr_class|]. split; [exact domain_class|]. split; [exact spfexp_class|].
  split; [exact linearg_class|]. split; [intros raw v H; apply (dnstxt_clean raw v H)|].
  vm_compute. reflexivity.
Qed.

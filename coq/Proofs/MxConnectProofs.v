(** connect_mx() over the real tryconn(): the composed model is QrConnect's loop run on the servers
    of exactly those candidates whose connect() succeeds, taken in list order, each candidate once. *)
From Coq Require Import List NArith ZArith Bool Arith Lia.
From Qv Require Import Common.Bytes Gen.GenMx Gen.GenNetio Gen.GenQremote Gen.GenStarttls
  Model.NetRead Model.TlsClient Model.QrConnect Model.Mx Model.MxConnect Spec.MxSpec
  Proofs.MxConnProofs Proofs.TlsSwitchTotal Proofs.QrConnectProofs.
Import ListNotations.
Local Open Scope bool_scope.

(** the entries (ids) of the candidates at which a connection comes about, in order:
    one connect() outcome per candidate, an exhausted oracle fails *)
Fixpoint conn_ids (rem : list (N * nat * addr)) (oracle : list N) : list N :=
  match rem, oracle with
  | (id, _, _) :: r, o :: os => if N.eqb o 0 then id :: conn_ids r os else conn_ids r os
  | _, _ => []
  end.

(** the i-th connection talks to the i-th server; the partner's name is the entry's *)
Fixpoint reached (servers : list qconn) (ids : list N) : list qconn :=
  match servers, ids with
  | qc :: s', id :: i' => set_named qc (entry_named id) :: reached s' i'
  | _, _ => []
  end.

Lemma conn_ids_nil_oracle rem : conn_ids rem [] = [].
Proof. destruct rem as [|[[? ?] ?] ?]; reflexivity. Qed.

Lemma conn_ids_length rem : forall oracle, length (conn_ids rem oracle) <= length rem.
Proof.
  induction rem as [|[[id idx] a] r IH]; intros oracle; [cbn; lia|].
  destruct oracle as [|o os]; cbn [conn_ids length]; [lia|].
  destruct (N.eqb o 0); cbn [length]; specialize (IH os); lia.
Qed.

Lemma ref_call_ids rem : forall oracle acc rem' o' atts res,
  ref_call rem oracle acc = (rem', o', atts, res) ->
  match res with
  | TcConnected id _ => conn_ids rem oracle = id :: conn_ids rem' o'
  | TcNoent => conn_ids rem oracle = []
  end.
Proof.
  induction rem as [|[[id idx] a] r IH]; intros oracle acc rem' o' atts res H; cbn [ref_call] in H.
  - injection H as <- <- <- <-. reflexivity.
  - destruct oracle as [|o os].
    + specialize (IH _ _ _ _ _ _ H). destruct res; cbn [conn_ids].
      * rewrite conn_ids_nil_oracle in IH. discriminate.
      * reflexivity.
    + cbn [conn_ids]. destruct (N.eqb o 0).
      * injection H as <- <- <- <-. reflexivity.
      * exact (IH _ _ _ _ _ _ H).
Qed.

(** what one run of the loop leaves: the QrConnect result, and which candidates were attempted *)
Lemma connect_mx_c_spec fe fd all fuel : forall l cs oracle servers k acc s,
  wf l cs ->
  length (conn_ids (remaining l cs) oracle) <= length servers ->
  length (conn_ids (remaining l cs) oracle) < fuel ->
  exists tried rest,
    remaining l cs = tried ++ rest
    /\ connect_mx_c fuel fe fd all k (mkst l cs oracle) servers acc s
       = (connect_mx_q fe fd all k (reached servers (conn_ids (remaining l cs) oracle)) s, acc ++ map att_of tried)
    /\ (forall s', connect_mx_q fe fd all k (reached servers (conn_ids (remaining l cs) oracle)) s = Ret None s' -> rest = []).
Proof.
  induction fuel as [|f IH]; intros l cs oracle servers k acc s Hwf Hsrv Hfuel; [lia|].
  destruct (tryconn_ref l cs oracle Hwf) as (l' & cs' & Ht).
  destruct (ref_call (remaining l cs) oracle []) as [[[rem' o'] atts] res] eqn:Er.
  destruct Ht as (Ht & Hwf' & Hrem').
  destruct (ref_call_split _ _ _ _ _ _ _ Er) as (tried1 & Hsplit & Hatts & Hnoent). cbn [rev app] in Hatts.
  pose proof (ref_call_ids _ _ _ _ _ _ _ Er) as Hids.
  cbn [connect_mx_c]. rewrite Ht.
  destruct res as [id idx|].
  - rewrite Hids in *. cbn [length] in Hsrv, Hfuel.
    destruct servers as [|qc0 servers']; [cbn [length] in Hsrv; lia|].
    cbn [reached connect_mx_q rbind].
    destruct (conn_iter_q fe fd k (set_named qc0 (entry_named id)) (tlsa_eff all)
                          (if asks_tlsa all then log (EvTlsa 0) s else s)) as [[g|] s1|s1|s1] eqn:Ei; cbn [rbind].
    + exists tried1, rem'. split; [exact Hsplit|]. split; [rewrite Hatts; reflexivity|]. intros s' H. discriminate.
    + cbn [length] in Hsrv.
      destruct (IH l' cs' o' servers' (S k) (acc ++ atts) s1 Hwf') as (tried2 & rest & Hs2 & Hc2 & Hn2);
        [rewrite Hrem'; lia|rewrite Hrem'; lia|].
      exists (tried1 ++ tried2), rest. rewrite Hrem' in *. split; [rewrite Hsplit, Hs2, app_assoc; reflexivity|].
      split; [rewrite Hc2, Hatts, map_app, app_assoc; reflexivity|exact Hn2].
    + exists tried1, rem'. split; [exact Hsplit|]. split; [rewrite Hatts; reflexivity|]. intros s' H. discriminate.
    + exists tried1, rem'. split; [exact Hsplit|]. split; [rewrite Hatts; reflexivity|]. intros s' H. discriminate.
  - rewrite Hids. destruct servers; cbn [reached connect_mx_q];
      (exists tried1, rem'; split; [exact Hsplit|]; split; [rewrite Hatts; reflexivity|]; intros _ _; apply Hnoent; reflexivity).
Qed.

Lemma firstn_app_exact {A} (a b : list A) : firstn (length a) (a ++ b) = a.
Proof. rewrite firstn_app, Nat.sub_diag, firstn_all. cbn [firstn]. apply app_nil_r. Qed.

(** THE COMPOSITION.  On a fresh list (what getmxlist/sortmx hand over), with a server scripted for every
    connection that comes about: the run of connect_mx() is QrConnect's run on [reached ...]; the connect()
    attempts are an initial segment of the candidates in list order (each at most once); and when the loop
    ends with -ENOENT every candidate was attempted. *)
Theorem connect_compose fe fd all l cs0 oracle servers k s :
  Forall fresh l ->
  length (conn_ids (flat_targets l) oracle) <= length servers ->
  exists n,
    connect_mx_c (S (S (total_addrs l))) fe fd all k (mkst l cs0 oracle) servers [] s
    = (connect_mx_q fe fd all k (reached servers (conn_ids (flat_targets l) oracle)) s,
       map att_of (firstn n (flat_targets l)))
    /\ (forall s', connect_mx_q fe fd all k (reached servers (conn_ids (flat_targets l) oracle)) s = Ret None s'
                   -> n = length (flat_targets l)).
Proof.
  intros Hf Hsrv. destruct (fresh_wf l cs0 Hf) as [Hwf Hrem].
  destruct (connect_mx_c_spec fe fd all (S (S (total_addrs l))) l cs0 oracle servers k [] s Hwf) as (tried & rest & Hs & Hc & Hn).
  - rewrite Hrem. exact Hsrv.
  - rewrite Hrem. pose proof (conn_ids_length (flat_targets l) oracle). rewrite flat_targets_length in H. lia.
  - rewrite Hrem in *. exists (length tried).
    assert (Hfn : firstn (length tried) (flat_targets l) = tried) by (rewrite Hs; apply firstn_app_exact).
    rewrite Hfn. cbn [app] in Hc. split; [exact Hc|].
    intros s' H. rewrite Hs, (Hn s' H), app_nil_r. reflexivity.
Qed.

(** attempts as addresses *)
Lemma map_fst_att_of' tried : map fst (map att_of tried) = map snd tried.
Proof. rewrite map_map. reflexivity. Qed.

(** consequences for the code that exists (both exits of connect_mx() report): never stuck; whenever the
    process exits inside connect_mx() a report starting with Z was written; a connection is handed on
    with the status stream untouched *)
Theorem connect_c_total all l cs0 oracle servers k s :
  Forall fresh l -> length (conn_ids (flat_targets l) oracle) <= length servers -> good s ->
  match fst (connect_mx_c (S (S (total_addrs l))) true true all k (mkst l cs0 oracle) servers [] s) with
  | Stuck _ => False
  | r => rk (s_rpt s) r
  end.
Proof.
  intros Hf Hsrv Hg. destruct (connect_compose true true all l cs0 oracle servers k s Hf Hsrv) as (n & Hc & _).
  rewrite Hc. cbn [fst].
  pose proof (connect_mx_q_ns true true all (reached servers (conn_ids (flat_targets l) oracle)) k s Hg) as HN.
  pose proof (connect_mx_q_rk all (reached servers (conn_ids (flat_targets l) oracle)) k s) as HR.
  destruct (connect_mx_q true true all k _ s); cbn [ns] in HN; [exact HR|exact HR|contradiction].
Qed.

(* ------------------------------------------------------------------ which iterations exit *)
Lemma rbind_exit {A B} (m : res A) (f : A -> st -> res B) s' :
  rbind m f = Exit s' -> m = Exit s' \/ exists a s1, m = Ret a s1 /\ f a s1 = Exit s'.
Proof. destruct m as [a s1|s1|s1]; cbn [rbind]; intros H; [right; eauto|left; injection H as ->; reflexivity|discriminate]. Qed.

Lemma banner_loop_nx fuel : forall sc fe s, nx (banner_loop fuel sc fe s).
Proof.
  induction fuel as [|f IH]; intros sc fe s; cbn [banner_loop]; destruct (dash3 s); try exact I.
  apply nx_bind; [apply netget0_nx|]. intros t s1.
  destruct (Z.eqb t (neg ST_ECONNRESET)); [exact I|]. destruct (0 <? t)%Z; [apply IH|exact I].
Qed.

Lemma quitmsg_if_net_nx err s : nx (quitmsg_if_net err s).
Proof. unfold quitmsg_if_net. destruct (closes_socket err); [exact I|apply quitmsg_nx]. Qed.

Lemma next_nx (m : res unit) : nx m -> nx (rdo (_, s') <- m; Ret (@None Z) s').
Proof. intros H. apply nx_bind; [exact H|]. intros; exact I. Qed.

Definition starttls_offered (g : Z) : bool := negb (N.eqb (N.land (Z.to_N g) ST_ESMTP_STARTTLS) 0).

(** TlsClient's loop body exits only in the STARTTLS step: STARTTLS was offered and tls_init() did not
    come back with a result >= 0 (it reported a local problem and returned < 0, or the process ended in it) *)
Lemma conn_iter_exit k c tlsa s s' :
  conn_iter k c tlsa s = Exit s' ->
  exists g s3, starttls_offered g = true
               /\ match tls_init c tlsa s3 with Ret r _ => (r < 0)%Z | Exit _ => True | Stuck _ => False end.
Proof.
  unfold conn_iter. intros H.
  apply rbind_exit in H. destruct H as [H|(sc0 & s1 & E0 & H)].
  { pose proof (netget0_nx (log (EvConn k) (open_conn c s))) as N0. rewrite H in N0. destruct N0. }
  pose proof (netget0_val _ _ _ E0) as V0.
  destruct ((sc0 <? 0)%Z && Z.eqb sc0 (neg ST_ECONNRESET)) eqn:C1; [discriminate|].
  destruct ((sc0 <? 0)%Z && Z.eqb sc0 (neg ST_EINVAL)) eqn:C2.
  { pose proof (next_nx _ (quitmsg_nx s1)) as N1. rewrite H in N1. destruct N1. }
  destruct (sc0 <? 0)%Z eqn:C3.
  { exfalso. apply Z.ltb_lt in C3. cbn [andb] in C1, C2. apply Z.eqb_neq in C1. apply Z.eqb_neq in C2.
    destruct V0 as [V|[V|V]]; [lia|contradiction|contradiction]. }
  apply rbind_exit in H. destruct H as [H|([sc fe] & s2 & E1 & H)].
  { pose proof (banner_loop_nx (S (avail s1)) sc0 false s1) as N1. rewrite H in N1. destruct N1. }
  destruct (Z.eqb sc (neg ST_ECONNRESET)); [discriminate|].
  destruct (negb (Z.eqb sc ST_GREETING_OK) || fe).
  { pose proof (next_nx _ (quitmsg_if_net_nx sc s2)) as N1. rewrite H in N1. destruct N1. }
  apply rbind_exit in H. destruct H as [H|(g & s3 & E2 & H)].
  { pose proof (greeting_nx s2) as N1. rewrite H in N1. destruct N1. }
  destruct (g <? 0)%Z.
  { pose proof (next_nx _ (quitmsg_if_net_nx g s3)) as N1. rewrite H in N1. destruct N1. }
  destruct (negb (N.eqb (N.land (Z.to_N g) ST_ESMTP_STARTTLS) 0)) eqn:Etls.
  - exists g, s3. split; [exact Etls|].
    apply rbind_exit in H. destruct H as [H|(r & s4 & E3 & H)]; [rewrite H; exact I|].
    rewrite E3. destruct (r <? 0)%Z eqn:Er; [apply Z.ltb_lt; exact Er|].
    exfalso. destruct (negb (Z.eqb r 0)).
    + pose proof (next_nx _ (quitmsg_if_net_nx (- r)%Z s4)) as N1. rewrite H in N1. destruct N1.
    + apply rbind_exit in H. destruct H as [H|(g2 & s5 & E4 & H)].
      * pose proof (greeting_nx s4) as N1. rewrite H in N1. destruct N1.
      * destruct (g2 <? 0)%Z; [|discriminate].
        pose proof (next_nx _ (quitmsg_if_net_nx g2 s5)) as N1. rewrite H in N1. destruct N1.
  - exfalso. destruct (s_xtls s3).
    + pose proof (next_nx _ (quitmsg_nx s3)) as N1. rewrite H in N1. destruct N1.
    + destruct (Nat.ltb 0 (length tlsa)); [|discriminate].
      pose proof (next_nx _ (quitmsg_nx s3)) as N1. rewrite H in N1. destruct N1.
Qed.

(** ... and the head of the loop body adds the failing dup2() and the server that accepts the connection
    and says nothing (the only error of the first netget(0) besides "closed" and "invalid" in this network) *)
Theorem conn_iter_q_exit fe fd k qc tlsa s s' :
  conn_iter_q fe fd k qc tlsa s = Exit s' ->
  q_dup2 qc = true
  \/ (exists v s1, netget_first (q_silent qc) (log (EvConn k) (open_conn (q_conn qc) s)) = Ret v s1
                   /\ (v < 0)%Z /\ v <> neg ST_ECONNRESET /\ v <> neg ST_EINVAL)
  \/ (exists g s3, starttls_offered g = true
                   /\ match tls_init (q_conn qc) tlsa s3 with Ret r _ => (r < 0)%Z | Exit _ => True | Stuck _ => False end).
Proof.
  unfold conn_iter_q. destruct (q_dup2 qc); [left; reflexivity|]. intros H.
  destruct (netget_first (q_silent qc) (log (EvConn k) (open_conn (q_conn qc) s))) as [v s1|s1|s1] eqn:E.
  - destruct ((v <? 0)%Z && negb (Z.eqb v (neg ST_ECONNRESET)) && negb (Z.eqb v (neg ST_EINVAL))) eqn:C.
    + right. left. exists v, s1. split; [reflexivity|].
      apply andb_true_iff in C. destruct C as [C C3]. apply andb_true_iff in C. destruct C as [C1 C2].
      apply Z.ltb_lt in C1. apply negb_true_iff in C2. apply negb_true_iff in C3.
      apply Z.eqb_neq in C2. apply Z.eqb_neq in C3. auto.
    + right. right. eapply conn_iter_exit; exact H.
  - right. right. eapply conn_iter_exit; exact H.
  - right. right. eapply conn_iter_exit; exact H.
Qed.

(* ------------------------------------------------------------------ the clause of the property *)
From Qv Require Import Spec.MxConnectSpec.

Lemma conn_ids_zeros rem : forall oracle, length (conn_ids rem oracle) = zeros (firstn (length rem) oracle).
Proof.
  unfold zeros. induction rem as [|[[id idx] a] r IH]; intros oracle; [reflexivity|].
  destruct oracle as [|o os]; [reflexivity|]. cbn [conn_ids length firstn filter].
  destruct (N.eqb o 0); cbn [length]; rewrite IH; reflexivity.
Qed.

Lemma pre_connect_servers k :
  pre_connect k -> length (conn_ids (flat_targets (m_list k)) (m_oracle k)) <= length (m_servers k).
Proof. intros [_ H]. rewrite conn_ids_zeros, flat_targets_length. exact H. Qed.

Definition loop_of (fe fd : bool) (k : mcase) : res (option (conn * Z)) * list attempt :=
  connect_mx_c (mc_fuel k) fe fd (head_conns (m_list k) (m_headtlsa k)) 0
               (mkst (m_list k) (m_cs0 k) (m_oracle k)) (m_servers k) [] (init_st (mkCase (m_route k) [])).

Lemma loop_of_compose fe fd k :
  pre_connect k ->
  exists n,
    loop_of fe fd k
    = (connect_mx_q fe fd (head_conns (m_list k) (m_headtlsa k)) 0
                    (reached (m_servers k) (conn_ids (flat_targets (m_list k)) (m_oracle k)))
                    (init_st (mkCase (m_route k) [])),
       map att_of (firstn n (flat_targets (m_list k))))
    /\ (forall s', fst (loop_of fe fd k) = Ret None s' -> n = length (flat_targets (m_list k))).
Proof.
  intros Hp. unfold loop_of, mc_fuel.
  destruct (connect_compose fe fd (head_conns (m_list k) (m_headtlsa k)) (m_list k) (m_cs0 k) (m_oracle k) (m_servers k) 0
                            (init_st (mkCase (m_route k) [])) (proj1 Hp) (pre_connect_servers k Hp)) as (n & Hc & Hn).
  exists n. split; [exact Hc|]. intros s' H. rewrite Hc in H. cbn [fst] in H. exact (Hn s' H).
Qed.

Lemma phase_c_loop fe fd k :
  snd (connect_phase_c fe fd k) = snd (loop_of fe fd k).
Proof. unfold connect_phase_c. fold (loop_of fe fd k). destruct (loop_of fe fd k) as [r atts]. reflexivity. Qed.

(** each candidate at most once, in sortmx order: the attempts are an initial segment of the candidates *)
Theorem connect_once fe fd k :
  pre_connect k ->
  exists n, snd (connect_phase_c fe fd k) = map att_of (firstn n (flat_targets (m_list k))).
Proof.
  intros Hp. destruct (loop_of_compose fe fd k Hp) as (n & Hc & _). exists n. rewrite phase_c_loop, Hc. reflexivity.
Qed.

Lemma all_tried_all k : all_tried k (map att_of (flat_targets (m_list k))).
Proof. unfold all_tried. rewrite map_fst_att_of'. apply map_addr_flat_targets. Qed.

(** connect_mx() returns -ENOENT ("can't connect to any server") only when every candidate was tried *)
Theorem connect_noent_after_all fe fd k s' :
  pre_connect k -> fst (loop_of fe fd k) = Ret None s' -> all_tried k (snd (loop_of fe fd k)).
Proof.
  intros Hp H. destruct (loop_of_compose fe fd k Hp) as (n & Hc & Hn).
  rewrite (Hn s' H) in Hc. rewrite Hc. cbn [snd]. rewrite firstn_all. apply all_tried_all.
Qed.

(** which runs give up although candidates are left: the process exited inside an iteration of the loop
    (failing dup2(), an error other than "closed" / "invalid" on the first line of the greeting — a silent
    server, an over-long line —, a negative result of tls_init()), or main() refused the connection
    because the host is pinned and there is no TLS session *)
Definition gave_up_inside (k : mcase) : Prop :=
  match fst (loop_of true true k) with
  | Exit _ => True
  | Ret (Some (c, _)) s => ST_PINNED_NEEDS_TLS && negb (s_ssl s) && pinned c = true
  | _ => False
  end.

Theorem temp_failure_partial k :
  pre_connect k ->
  let '(p, atts) := connect_phase_c true true k in
  ends_without_connection p -> all_tried k atts \/ gave_up_inside k.
Proof.
  intros Hp. pose proof (connect_noent_after_all true true k) as Hno.
  unfold gave_up_inside. unfold connect_phase_c. fold (loop_of true true k).
  destruct (loop_of true true k) as [r atts]. cbn [fst snd] in *.
  destruct r as [[[c g]|] s|s|s]; intros He.
  - destruct (ST_PINNED_NEEDS_TLS && negb (s_ssl s) && pinned c); [right; reflexivity|destruct He].
  - left. exact (Hno s Hp eq_refl).
  - right. exact I.
  - destruct He.
Qed.

(** the code that exists never gets stuck in the connect phase, and every exit inside it has reported *)
Theorem connect_phase_c_total k :
  pre_connect k ->
  match fst (loop_of true true k) with
  | Stuck _ => False
  | r => rk [] r
  end.
Proof.
  intros Hp. unfold loop_of, mc_fuel.
  apply (connect_c_total _ (m_list k) (m_cs0 k) (m_oracle k) (m_servers k) 0 (init_st (mkCase (m_route k) []))
                         (proj1 Hp) (pre_connect_servers k Hp)).
  unfold good, init_st. cbn. lia.
Qed.

(** the witness: two MX entries with one address each, both connect; the first server accepts the connection
    and stays silent.  Qremote reports "Z4.4.1 connection to remote server timed out" after ONE attempt. *)
Definition W_addr (n : N) : addr := [0; 0; 0; 0; 0; 0; 0; 0; 0; 0; 255; 255; 192; 1; 2; n]%N.
Definition W_silent_first : mcase :=
  mkMC false [mkmx 10 1 [W_addr 1]; mkmx 20 2 [W_addr 2]] 0 [0; 0]%N []
       [mkQ (mkConn true false false [] 0 0 [] [] []) true false;
        mkQ (mkConn true false false [] 0 0 [[50; 50; 48; 32; 109; 120; 13; 10]; [50; 53; 48; 32; 109; 120; 13; 10]]%N [] []) false false].

Lemma W_silent_first_pre : pre_connect W_silent_first.
Proof.
  split.
  - repeat constructor; cbn; try discriminate; unfold TRYCONN_FRESH_MAX; apply N.leb_le; reflexivity.
  - cbn. lia.
Qed.

Theorem temp_failure_refuted : ~ C20_temp_failure_after_all_full.
Proof.
  intros H. specialize (H W_silent_first W_silent_first_pre).
  assert (E : connect_phase_c true true W_silent_first
              = (fst (connect_phase_c true true W_silent_first), [(W_addr 1, true)])) by (vm_compute; reflexivity).
  rewrite E in H.
  assert (Ex : ends_without_connection (fst (connect_phase_c true true W_silent_first))) by (vm_compute; exact I).
  specialize (H Ex). unfold all_tried in H. vm_compute in H. discriminate.
Qed.

(** C15, bad command limit: the trace of every session passes [bad_ok]: the connection is
    closed by check_max_bad_commands() only after more than MAXBADCMDS+1 bad commands in a
    row, every bad command before that is answered and the session continues, and every good
    command restarts the count. *)
From Qv Require Import Common.Bytes Gen.GenNetio Gen.GenSession Model.NetRead Model.Session Spec.SessionSpec Proofs.RelayDecide.
From Coq Require Import Lia.

Section Bad.
Variable o : oracles.

Lemma bad_run_app e1 e2 c :
  bad_run (e1 ++ e2) c = match bad_run e1 c with Some c' => bad_run e2 c' | None => None end.
Proof.
  revert c; induction e1 as [|e r IH]; intros c; simpl; [reflexivity|].
  destruct (bad_step e c); [apply IH|reflexivity].
Qed.

Lemma bc_data_pending s : badcmds (snd (data_pending s)) = badcmds s.
Proof. unfold data_pending. destruct (inn (rd s)); [|reflexivity]. destruct (cur (en (rd s))); reflexivity. Qed.
Lemma bc_tarpit s : badcmds (tarpit s) = badcmds s.
Proof. apply bc_data_pending. Qed.

Lemma wait_for_quit_bad fuel : forall s, bad_run (wait_for_quit fuel s) (badcmds s) <> None.
Proof.
  induction fuel as [|f IH]; intros s; cbn [wait_for_quit]; [simpl; discriminate|].
  destruct (net_read (rd s)) as [it r'].
  assert (K : forall s0, badcmds s0 = badcmds s ->
            bad_run (if Nat.ltb MAXBADCMDS (badcmds s0) then [Note NBadClose; Reply 550; Closed]
                     else Note NBad :: Reply 503 :: wait_for_quit f (set_badcmds s0 (S (badcmds s0)))) (badcmds s) <> None).
  { intros s0 E. destruct (Nat.ltb MAXBADCMDS (badcmds s0)) eqn:Eb.
    - cbn [bad_run bad_step]. rewrite <- E, Eb. discriminate.
    - apply Nat.ltb_ge in Eb. cbn [bad_run bad_step]. rewrite <- E.
      assert (El : Nat.leb (badcmds s0) MAXBADCMDS = true) by (apply Nat.leb_le; lia). rewrite El.
      apply (IH (set_badcmds s0 (S (badcmds s0)))). }
  destruct it; try (simpl; discriminate);
    cbn [set_rd badcmds];
    try (match goal with |- context [if ?b then [Reply 221; Closed] else _] => destruct b; [simpl; discriminate|] end);
    apply (K (set_rd s r')); reflexivity.
Qed.

Lemma sync_pipelining_bad f s sp s2 : sync_pipelining f s = (sp, s2) ->
  badcmds s2 = badcmds s /\ (forall evs, sp = Some evs -> bad_run evs (badcmds s) <> None).
Proof.
  unfold sync_pipelining. destruct (data_pending s) as [p sd] eqn:Ed.
  pose proof (bc_data_pending s) as Hb. rewrite Ed in Hb. cbn [snd] in Hb.
  destruct (negb p). { intros H; inversion H; subst. split; [exact Hb|discriminate]. }
  destruct (esmtp sd).
  { intros H; inversion H; subst. split; [exact Hb|]. intros evs E; inversion E; subst.
    cbn [bad_run bad_step]. rewrite <- Hb. apply wait_for_quit_bad. }
  destruct (net_read (rd sd)) as [it r'].
  destruct it; intros H; inversion H; subst; (split; [exact Hb|]); intros evs E; inversion E; subst;
    try (simpl; discriminate); cbn [bad_run bad_step]; rewrite <- Hb;
    apply (wait_for_quit_bad f (set_rd sd r')).
Qed.

(** handlers neither touch the counter nor emit counter notes (unless the session ends in wait_for_quit) *)
Definition nobad (evs : list event) : Prop := forall c, bad_run evs c = Some c.

Ltac nb := let c := fresh in intros c; reflexivity.

Lemma nobad_app a b : nobad a -> nobad b -> nobad (a ++ b).
Proof. intros Ha Hb c. rewrite bad_run_app, Ha. apply Hb. Qed.
Lemma nobad_nil : nobad []. Proof. intros c. reflexivity. Qed.

Lemma pre_ok_nobad pre : pre_ok pre -> nobad pre.
Proof.
  unfold pre_ok. induction pre as [|e r IH]; [intros _; apply nobad_nil|]. cbn [forallb]. intros H.
  apply andb_true_iff in H as [He Hr]. intros c. cbn [bad_run].
  destruct e as [x|x y| | |n]; try discriminate; try (cbn [bad_step]; apply (IH Hr)).
  destruct n; try discriminate. cbn [bad_step]. apply (IH Hr).
Qed.

Lemma relay_decide_bad s cls res s1 pre : relay_decide o s cls = (res, s1, pre) ->
  badcmds s1 = badcmds s /\ nobad pre.
Proof.
  intros H. destruct (relay_decide_core _ _ _ _ _ _ H) as (Hc & Hp). split; [apply Hc|exact (pre_ok_nobad _ Hp)].
Qed.

Ltac nbp Hp := first [ exact Hp | apply nobad_app; [exact Hp|let c := fresh in intros c; reflexivity] | (let c := fresh in intros c; reflexivity) ].

Lemma h_rcpt_bad s arg evs h s' : h_rcpt o s arg = (evs, h, s') -> nobad evs /\ badcmds s' = badcmds s.
Proof.
  unfold h_rcpt. intros H.
  destruct (o_addr o true arg) as [| | |addr more cls];
    try (destruct (Nat.leb MAXRCPT (rcptcount s))); try (inversion H; subst; (split; [nb|]); rewrite ?bc_tarpit; reflexivity).
  destruct (relay_decide o s cls) as [[res s1] pre] eqn:Er.
  destruct (relay_decide_bad _ _ _ _ _ Er) as (Hb & Hpre).
  destruct res as [al|h0]; [|inversion H; subst; split; [exact Hpre|exact Hb]].
  repeat (match type of H with
          | context [match ?x with _ => _ end] => destruct x eqn:?
          | context [if ?x then _ else _] => destruct x eqn:?
          end; try discriminate);
    inversion H; subst; (split; [nbp Hpre|]); rewrite ?bc_tarpit; cbn [badcmds]; exact Hb.
Qed.

Lemma subm_gate_bad s res s1 pre : subm_gate o s = (res, s1, pre) ->
  badcmds s1 = badcmds s /\ nobad pre.
Proof.
  unfold subm_gate. destruct (o_submission o); [apply relay_decide_bad|]. intros H; inversion H; subst. split; [reflexivity|apply nobad_nil].
Qed.

Lemma h_from_bad s arg len evs h s' : h_from o s arg len = (evs, h, s') -> nobad evs /\ badcmds s' = badcmds s.
Proof.
  unfold h_from. intros H.
  destruct (o_addr o false arg) as [| | |addr more cls]; [inversion H; subst; split; [nb|reflexivity]| | |];
    (match type of H with context [subm_gate o ?sc] =>
       destruct (subm_gate o sc) as [[res s1] pre] eqn:Eg; destruct (subm_gate_bad _ _ _ _ Eg) as (Hb & Hpre) end);
    cbn [badcmds] in Hb;
    (destruct res as [al|h0]; [|inversion H; subst; split; [exact Hpre|exact Hb]]);
    repeat (match type of H with
            | context [match ?x with _ => _ end] => destruct x eqn:?
            | context [if ?x then _ else _] => destruct x eqn:?
            end; try discriminate);
    inversion H; subst; (split; [nbp Hpre|]); rewrite ?bc_tarpit; cbn [badcmds]; exact Hb.
Qed.

Lemma h_data_bad f s evs h s' : h_data f o s = (evs, h, s') ->
  (h <> HEXIT -> nobad evs /\ badcmds s' = badcmds s) /\ (h = HEXIT -> bad_run evs (badcmds s) <> None).
Proof.
  unfold h_data. intros H.
  destruct (Nat.eqb (goodrcpt s) 0).
  { inversion H; subst. split; [intros _; split; [nb|apply bc_tarpit]|discriminate]. }
  destruct (sync_pipelining f s) as [sp s2] eqn:Esp.
  destruct (sync_pipelining_bad _ _ _ _ Esp) as (Hb & Hq).
  destruct sp as [e|].
  { inversion H; subst. split; [congruence|]. intros _. apply Hq. reflexivity. }
  match type of H with context [data_loop ?a ?b ?c ?d ?e] => destruct (data_loop a b c d e) as [de r'] end.
  destruct de;
    repeat (match type of H with
            | context [match ?x with _ => _ end] => destruct x eqn:?
            | context [if ?x then _ else _] => destruct x eqn:?
            | context [let '(_, _) := ?x in _] => destruct x eqn:?
            end; try discriminate);
    inversion H; subst;
    (split; [intros _; split; [nb|cbn [freedata set_rd badcmds]; exact Hb]
            | intros E; try discriminate; simpl; discriminate]).
Qed.

Lemma on_error_bad s h ev so : on_error s h = (ev, so) -> h <> H0 -> h <> HEXIT ->
  match so with
  | Some s' => bad_run ev (badcmds s) = Some (badcmds s')
  | None => bad_run ev (badcmds s) <> None
  end.
Proof.
  unfold on_error. intros H Hn0 Hnx. destruct (Nat.ltb MAXBADCMDS (badcmds s)) eqn:Eb.
  - inversion H; subst. cbn [bad_run bad_step]. rewrite Eb. discriminate.
  - apply Nat.ltb_ge in Eb.
    assert (El : Nat.leb (badcmds s) MAXBADCMDS = true) by (apply Nat.leb_le; lia).
    destruct h; try congruence; inversion H; subst; cbn [bad_run bad_step]; rewrite El;
      rewrite ?bc_tarpit; reflexivity.
Qed.

Lemma dispatch_bad f s l evs h s1 : dispatch f o s l = (evs, h, s1) ->
  match h with
  | HEXIT => bad_run evs (badcmds s) <> None
  | H0 => nobad evs /\ badcmds s1 = 0
  | _ => nobad evs /\ badcmds s1 = badcmds s
  end.
Proof.
  unfold dispatch. intros H.
  destruct (negb (line_valid l)). { inversion H; subst. split; [nb|reflexivity]. }
  destruct (find_cmd commands 0 l) as [[i [[[[name mask] hid] st] flags]]|].
  2:{ inversion H; subst. split; [nb|reflexivity]. }
  destruct (N.eqb (N.land (comstate s) mask) 0). { inversion H; subst. split; [nb|reflexivity]. }
  destruct (N.eqb (N.land flags 2) 0 && Nat.ltb CMD_LINE_MAX (length l)). { inversion H; subst. split; [nb|reflexivity]. }
  destruct (N.eqb (N.land flags 1) 0 && negb (Nat.eqb (length (skipn (length name) l)) 0)). { inversion H; subst. split; [nb|reflexivity]. }
  destruct (negb (N.eqb (N.land flags 4) 0) && negb (N.eqb (nth 0 (skipn (length name) l) 0%N) SP)). { inversion H; subst. split; [nb|reflexivity]. }
  unfold after_handler, run_handler in H.
  destruct hid as [|[|[|[|[|[|[|[|[|[|[|[|[|hid]]]]]]]]]]]]].
  - destruct (sync_pipelining f s) as [sp s2] eqn:Esp. destruct (sync_pipelining_bad _ _ _ _ Esp) as (Hb & Hq).
    destruct sp as [e|]; inversion H; subst; [apply Hq; reflexivity|split; [nb|reflexivity]].
  - inversion H; subst. simpl. discriminate.
  - destruct (N.leb 8 (comstate s)); inversion H; subst; (split; [nb|reflexivity]).
  - destruct (o_helo o (skipn 5 l)); inversion H; subst; (split; [nb|reflexivity]).
  - destruct (o_helo o (skipn 5 l)); inversion H; subst; (split; [nb|reflexivity]).
  - destruct (h_from o s (skipn (length name) l) (length l)) as [[e h'] s'] eqn:Eh.
    destruct (h_from_bad _ _ _ _ _ _ Eh) as (Hn & Hb).
    destruct h'; inversion H; subst; try (rewrite Hn; discriminate); (split; [exact Hn|]); try exact Hb; reflexivity.
  - destruct (h_rcpt o s (skipn (length name) l)) as [[e h'] s'] eqn:Eh.
    destruct (h_rcpt_bad _ _ _ _ _ Eh) as (Hn & Hb).
    destruct h'; inversion H; subst; try (rewrite Hn; discriminate); (split; [exact Hn|]); try exact Hb; reflexivity.
  - destruct (h_data f o s) as [[e h'] s'] eqn:Eh.
    destruct (h_data_bad _ _ _ _ _ Eh) as (Hne & Hex).
    destruct h'; inversion H; subst; try (apply Hex; reflexivity);
      (destruct Hne as (Hn & Hb); [discriminate|]); (split; [exact Hn|]); try exact Hb; reflexivity.
  - destruct (negb (esmtp s)); inversion H; subst; (split; [nb|reflexivity]).
  - (* smtp_auth *)
    destruct (authed s || negb (o_authperm o)); [inversion H; subst; split; [nb|reflexivity]|].
    destruct (o_auth o (skipn 5 l)); inversion H; subst; [split; [nb|reflexivity]|split; [nb|reflexivity]|simpl; discriminate].
  - inversion H; subst. split; [nb|reflexivity].
  - inversion H; subst. split; [nb|reflexivity].
  - destruct (N.eqb (comstate s) 1 && bytes_eqb (sub l 4 10) [32; 47; 32; 72; 84; 84; 80; 47; 49; 46]%N);
      inversion H; subst; [simpl; discriminate|split; [nb|reflexivity]].
  - inversion H; subst. split; [nb|reflexivity].
Qed.

Lemma step_bad f s evs so : step f o s = (evs, so) ->
  match so with
  | Some s' => bad_run evs (badcmds s) = Some (badcmds s')
  | None => bad_run evs (badcmds s) <> None
  end.
Proof.
  unfold step. intros H. destruct (net_read (rd s)) as [it r'].
  destruct it as [l| | | |].
  - destruct (dispatch f o (set_rd s r') l) as [[e h] s1] eqn:Ed.
    pose proof (dispatch_bad _ _ _ _ _ _ Ed) as Hd. cbn [set_rd badcmds] in Hd.
    destruct h;
      try (destruct (on_error s1 _) as [ev so'] eqn:Eoe; inversion H; subst;
           destruct Hd as (Hn & Hb);
           pose proof (on_error_bad _ _ _ _ Eoe) as Hoe; rewrite Hb in Hoe;
           rewrite bad_run_app, Hn; apply Hoe; discriminate).
    + inversion H; subst. destruct Hd as (Hn & Hb). rewrite bad_run_app, Hn. simpl. now rewrite Hb.
    + inversion H; subst. exact Hd.
  - apply (on_error_bad (set_rd s r')) in H; [exact H|discriminate|discriminate].
  - apply (on_error_bad (set_rd s r')) in H; [exact H|discriminate|discriminate].
  - inversion H; subst. simpl. discriminate.
  - inversion H; subst. simpl. discriminate.
Qed.

Lemma serve_bad fuel : forall s, bad_run (serve fuel o s) (badcmds s) <> None.
Proof.
  induction fuel as [|f IH]; intros s; cbn [serve]; [simpl; discriminate|].
  destruct (step f o s) as [ev so] eqn:Es. pose proof (step_bad _ _ _ _ Es) as Hs.
  rewrite bad_run_app. destruct so as [s'|].
  - rewrite Hs. apply IH.
  - destruct (bad_run ev (badcmds s)); [simpl; discriminate|congruence].
Qed.

Theorem session_bad_ok chunks : bad_ok (run_session o chunks).
Proof. unfold bad_ok, run_session. cbn [bad_run bad_step]. apply (serve_bad _ (init_state chunks)). Qed.

End Bad.

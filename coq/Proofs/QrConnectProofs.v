(** C04, connect phase: however Qremote leaves connect_mx() -- by exit() inside it, by "can't connect
    to any server", by the pinned-certificate refusal, or with a connection for send_envelope() --
    the status stream is non-empty exactly in the exiting cases, and every report starts with Z.

    The functions of Model/TlsClient.v are taken as they are; what is proved about them here is their
    report discipline ([rk]): a function that returns has written nothing, a function that exits has
    written exactly one report (tls_init() is the exception: its negative return has written one, and
    connect_mx() exits on it); and, since loop_long() reads with the caller's [fatal], nothing below
    connect_mx() exits at all ([nx]): net_read(0) never ends in dieerror(), so quitmsg() -- whatever the
    server sends or does not send in the QUIT exchange -- returns without a report.
    Totality (no [Stuck]) comes from Proofs/TlsSwitchTotal.v. *)
From Qv Require Import Common.Bytes Gen.GenNetio Gen.GenQremote Gen.GenStarttls Model.NetRead Model.TlsClient
  Model.QrConnect Proofs.NetReadProofs Proofs.TlsSwitchTotal.
From Coq Require Import Lia.
Local Open Scope bool_scope.

Definition zword (w : bytes) : Prop := hd 0%N w = 90%N.       (* the report starts with 'Z' *)

(** the reports of a result relative to [rp], the reports before the call *)
Definition rk {A} (rp : list bytes) (r : res A) : Prop :=
  match r with
  | Ret _ s' => s_rpt s' = rp
  | Exit s' => exists w, s_rpt s' = rp ++ [w] /\ zword w
  | Stuck _ => True
  end.

(** the function does not exit *)
Definition nx {A} (r : res A) : Prop := match r with Exit _ => False | _ => True end.
Lemma nx_bind {A B} (m : res A) (f : A -> st -> res B) : nx m -> (forall a s, nx (f a s)) -> nx (rbind m f).
Proof. intros Hm Hf. destruct m as [a s|s|s]; cbn [rbind nx] in *; auto. Qed.

Lemma rk_bind {A B} rp (m : res A) (f : A -> st -> res B) :
  rk rp m -> (forall a s, s_rpt s = rp -> rk rp (f a s)) -> rk rp (rbind m f).
Proof. intros Hm Hf. destruct m as [a s|s|s]; cbn [rbind rk] in *; auto. Qed.

Lemma rk_exit1 {A} rp s w : s_rpt s = rp ++ [w] -> zword w -> rk rp (@Exit A s).
Proof. intros H Hw. exists w. split; [exact H|exact Hw]. Qed.

(* ------------------------------------------------------------------ state updates *)
Lemma rpt_log e s : s_rpt (log e s) = s_rpt s. Proof. reflexivity. Qed.
Lemma rpt_set_linein l s : s_rpt (set_linein l s) = s_rpt s. Proof. reflexivity. Qed.
Lemma rpt_set_conn a b s : s_rpt (set_conn a b s) = s_rpt s. Proof. reflexivity. Qed.
Lemma rpt_set_route a b s : s_rpt (set_route a b s) = s_rpt s. Proof. reflexivity. Qed.
Lemma rpt_set_clr i e s : s_rpt (set_clr i e s) = s_rpt s. Proof. reflexivity. Qed.
Lemma rpt_open_conn c s : s_rpt (open_conn c s) = s_rpt s. Proof. reflexivity. Qed.
Lemma rpt_nwrite b s : s_rpt (nwrite b s) = s_rpt s. Proof. reflexivity. Qed.
Lemma rpt_report w s : s_rpt (report w s) = s_rpt s ++ [w]. Proof. reflexivity. Qed.
Lemma rpt_upd_net s i e : s_rpt (upd_net s i e) = s_rpt s.
Proof. unfold upd_net. destruct (s_ssl s); reflexivity. Qed.
Lemma rpt_purge s : s_rpt (purge s) = s_rpt s.
Proof. unfold purge. destruct (_ && _); reflexivity. Qed.
Lemma rpt_connection_died s : s_rpt (connection_died s) = s_rpt s. Proof. reflexivity. Qed.

Lemma z_died : zword ST_RPT_DIED. Proof. reflexivity. Qed.
Lemma z_noconn : zword ST_RPT_NOCONN. Proof. reflexivity. Qed.
Lemma z_pinned : zword ST_RPT_PINNED. Proof. reflexivity. Qed.
Lemma z_pinload : zword ST_RPT_PINLOAD. Proof. reflexivity. Qed.
Lemma z_tlsaadd : zword ST_RPT_TLSAADD. Proof. reflexivity. Qed.

(* ------------------------------------------------------------------ netio.c, reply.c *)
(** loop_long() reads with the caller's fatal (breaks on a tree without fixes/C04-loop-long-fatal.diff) *)
Lemma fix_loop_long : ST_LOOPLONG_PASSES_FATAL = true. Proof. reflexivity. Qed.
Lemma long_end_reset : long_end = RReset. Proof. unfold long_end. rewrite fix_loop_long. reflexivity. Qed.

(** net_read(0) never ends in dieerror() *)
Lemma read_loop2_no_die fuel : forall buf e, fst (read_loop2 fuel buf e) <> RDie.
Proof.
  induction fuel as [|fuel IH]; intros buf e; cbn [read_loop2]; [discriminate|].
  destruct (readinput e (LINEINBUF - length buf)) as [[d e1]|]; [|discriminate].
  destruct (find_eol (buf ++ d)) as [p valid].
  set (retry := match p with Some p' => _ | None => false end).
  destruct (if retry then None else p) as [p'|].
  - destruct valid; [discriminate|].
    destruct (Nat.eqb p' (LINEINBUF - 1) && N.eqb (nth (p' - 1) (buf ++ d) 0%N) CR); [|discriminate].
    destruct (loop_long (S (length (rest e1))) e1 true) as [[i|] e2]; cbn [fst]; [discriminate|].
    rewrite long_end_reset. discriminate.
  - destruct (Nat.ltb (length (buf ++ d)) (LINEINBUF - 1)); [apply IH|].
    destruct (loop_long (S (length (rest e1))) e1 false) as [[i|] e2]; cbn [fst]; [discriminate|].
    rewrite long_end_reset. discriminate.
Qed.

Lemma net_read2_no_die s : fst (net_read2 s) <> RDie.
Proof.
  unfold net_read2. destruct (inn s) as [|x r]; [apply read_loop2_no_die|].
  destruct (find_eol (x :: r)) as [p valid]. destruct p as [p|]; [|apply read_loop2_no_die].
  destruct valid; [discriminate|].
  destruct (N.eqb (nth (p - 1) (x :: r) 0%N) CR && Nat.eqb p (length (x :: r))); [apply read_loop2_no_die|discriminate].
Qed.

Lemma nread_rk s : rk (s_rpt s) (nread s).
Proof.
  unfold nread. pose proof (net_read2_no_die {| inn := s_inn (purge s); en := chan (purge s) |}) as Hd.
  destruct (net_read2 _) as [it r]. cbn [fst] in Hd.
  assert (H : s_rpt (upd_net (purge s) (inn r) (en r)) = s_rpt s) by (rewrite rpt_upd_net, rpt_purge; reflexivity).
  destruct it; try (cbn [rk]; rewrite ?rpt_log; exact H); [congruence|exact I].
Qed.

Lemma nread_nx s : nx (nread s).
Proof.
  unfold nread. pose proof (net_read2_no_die {| inn := s_inn (purge s); en := chan (purge s) |}) as Hd.
  destruct (net_read2 _) as [it r]. cbn [fst] in Hd. destruct it; cbn [nx]; auto.
Qed.

Lemma netget0_rk s : rk (s_rpt s) (netget0 s).
Proof.
  unfold netget0. apply rk_bind; [apply nread_rk|]. intros it s1 H.
  destruct it; cbn [rk]; auto. destruct (netget_code l); cbn [rk]; rewrite rpt_set_linein; exact H.
Qed.
Lemma netget0_nx s : nx (netget0 s).
Proof.
  unfold netget0. apply nx_bind; [apply nread_nx|]. intros it s1.
  destruct it; cbn [nx]; auto. destruct (netget_code l); exact I.
Qed.

(** what netget(0) can return in this network: a reply code, -EINVAL or -ECONNRESET *)
Lemma netget_code_pos l c : netget_code l = Some c -> (0 <= c)%Z.
Proof.
  unfold netget_code. destruct (Nat.ltb 3 (length l) && _); [|discriminate].
  destruct ((QR_NG_D0_MIN <=? zch l 0 - 48)%Z && _ && _ && _) eqn:E1; [|discriminate].
  destruct ((0 <=? zch l 2 - 48)%Z && _) eqn:E2; [|discriminate].
  intros H; inversion H; subst; clear H. unfold QR_NG_D0_MIN in E1.
  repeat (apply andb_true_iff in E1; destruct E1 as [E1 ?]). apply andb_true_iff in E2 as [? ?]. lia.
Qed.

Lemma netget0_val s v s1 : netget0 s = Ret v s1 ->
  (0 <= v)%Z \/ v = neg ST_ECONNRESET \/ v = neg ST_EINVAL.
Proof.
  unfold netget0. destruct (nread s) as [it s'|s'|s']; cbn [rbind]; try discriminate.
  destruct it as [l| | | | |].
  - destruct (netget_code l) as [c|] eqn:E; intros Hq; inversion Hq; subst; auto.
    left. eapply netget_code_pos; eauto.
  - intros Hq; inversion Hq; subst; auto.
  - intros Hq; inversion Hq; subst; auto.
  - intros Hq; inversion Hq; subst; auto.
  - intros Hq; inversion Hq; subst; auto.
  - intros Hq; inversion Hq; subst; auto.
Qed.

(* ------------------------------------------------------------------ greeting.c *)
Lemma ehlo_loop_rk fuel : forall sc ret err s, rk (s_rpt s) (ehlo_loop fuel sc ret err s).
Proof.
  induction fuel as [|f IH]; intros sc ret err s; cbn [ehlo_loop]; destruct (dash3 s); cbn [rk]; auto.
  apply rk_bind; [apply netget0_rk|]. intros t s1 H. rewrite <- H.
  destruct (negb (Z.eqb sc t)).
  - destruct (t <? 0)%Z; [reflexivity|apply IH].
  - destruct (Z.eqb sc ST_EHLO_OK && negb err); [|apply IH].
    destruct (check_ext (ext_arg (s_linein s1)) <? 0)%Z; apply IH.
Qed.
Lemma ehlo_loop_nx fuel : forall sc ret err s, nx (ehlo_loop fuel sc ret err s).
Proof.
  induction fuel as [|f IH]; intros sc ret err s; cbn [ehlo_loop]; destruct (dash3 s); cbn [nx]; auto.
  apply nx_bind; [apply netget0_nx|]. intros t s1.
  destruct (negb (Z.eqb sc t)).
  - destruct (t <? 0)%Z; [exact I|apply IH].
  - destruct (Z.eqb sc ST_EHLO_OK && negb err); [|apply IH].
    destruct (check_ext (ext_arg (s_linein s1)) <? 0)%Z; apply IH.
Qed.

Lemma helo_loop_rk fuel : forall sc err s, rk (s_rpt s) (helo_loop fuel sc err s).
Proof.
  induction fuel as [|f IH]; intros sc err s; cbn [helo_loop]; destruct (dash3 s); cbn [rk]; auto.
  apply rk_bind; [apply netget0_rk|]. intros t s1 H. rewrite <- H.
  destruct (t <? 0)%Z; [reflexivity|apply IH].
Qed.
Lemma helo_loop_nx fuel : forall sc err s, nx (helo_loop fuel sc err s).
Proof.
  induction fuel as [|f IH]; intros sc err s; cbn [helo_loop]; destruct (dash3 s); cbn [nx]; auto.
  apply nx_bind; [apply netget0_nx|]. intros t s1. destruct (t <? 0)%Z; [exact I|apply IH].
Qed.

Lemma greeting_rk s : rk (s_rpt s) (greeting s).
Proof.
  unfold greeting. apply rk_bind; [rewrite <- (rpt_nwrite (helo_cmd ST_CMD_EHLO) s); apply netget0_rk|].
  intros sc s1 H1. destruct (sc <? 0)%Z; [exact H1|].
  apply rk_bind; [rewrite <- H1; apply ehlo_loop_rk|]. intros r s2 H2.
  destruct r as [t|[ret err]]; [exact H2|].
  destruct err; [exact H2|]. destruct (Z.eqb sc ST_EHLO_OK); [exact H2|].
  apply rk_bind; [rewrite <- H2, <- (rpt_nwrite (helo_cmd ST_CMD_HELO) s2); apply netget0_rk|].
  intros sh s4 H4. destruct (sh <? 0)%Z; [exact H4|].
  apply rk_bind; [rewrite <- H4; apply helo_loop_rk|]. intros r2 s5 H5.
  destruct r2 as [t|err2]; [exact H5|].
  destruct (negb err2 && Z.eqb sh ST_EHLO_OK); [exact H5|].
  destruct (negb err2 && (ST_HELO_FAIL_LO <=? sh)%Z && (sh <=? ST_HELO_FAIL_HI)%Z); exact H5.
Qed.
Lemma greeting_nx s : nx (greeting s).
Proof.
  unfold greeting. apply nx_bind; [apply netget0_nx|]. intros sc s1. destruct (sc <? 0)%Z; [exact I|].
  apply nx_bind; [apply ehlo_loop_nx|]. intros r s2. destruct r as [t|[ret err]]; [exact I|].
  destruct err; [exact I|]. destruct (Z.eqb sc ST_EHLO_OK); [exact I|].
  apply nx_bind; [apply netget0_nx|]. intros sh s4. destruct (sh <? 0)%Z; [exact I|].
  apply nx_bind; [apply helo_loop_nx|]. intros r2 s5. destruct r2 as [t|err2]; [exact I|].
  destruct (negb err2 && Z.eqb sh ST_EHLO_OK); [exact I|].
  destruct (negb err2 && (ST_HELO_FAIL_LO <=? sh)%Z && (sh <=? ST_HELO_FAIL_HI)%Z); exact I.
Qed.

(* ------------------------------------------------------------------ qremote.c: quitmsg, net_conn_shutdown *)
Lemma quit_loop_rk fuel : forall s, rk (s_rpt s) (quit_loop fuel s).
Proof.
  induction fuel as [|f IH]; intros s; cbn [quit_loop rk]; auto.
  apply rk_bind; [apply nread_rk|]. intros it s1 H. rewrite <- H.
  destruct it; cbn [rk]; auto.
  destruct (Nat.leb 4 (length l) && N.eqb (nth 3 l 0%N) DASH).
  - rewrite <- (rpt_set_linein l s1). apply IH.
  - reflexivity.
Qed.
Lemma quit_loop_nx fuel : forall s, nx (quit_loop fuel s).
Proof.
  induction fuel as [|f IH]; intros s; cbn [quit_loop nx]; auto.
  apply nx_bind; [apply nread_nx|]. intros it s1. destruct it; cbn [nx]; auto.
  destruct (Nat.leb 4 (length l) && N.eqb (nth 3 l 0%N) DASH); [apply IH|exact I].
Qed.

Lemma quitmsg_rk s : rk (s_rpt s) (quitmsg s).
Proof.
  unfold quitmsg. apply rk_bind; [rewrite <- (rpt_nwrite ST_CMD_QUIT s); apply quit_loop_rk|].
  intros u s1 H. cbn [rk]. destruct ST_QUITMSG_RESETS_ROUTE; rewrite ?rpt_set_route, rpt_set_conn; exact H.
Qed.
Lemma quitmsg_nx s : nx (quitmsg s).
Proof. unfold quitmsg. apply nx_bind; [apply quit_loop_nx|]. intros u s1. exact I. Qed.

(** QUITMSG NEVER WRITES A REPORT and never ends the process: for every state of the program and every
    behaviour of the server in the QUIT exchange (any bytes in any segmentation: a reply, a multi-line
    reply, garbage, an over-long line, an over-long line that never ends; then close or silence) it returns
    with the status stream as it found it. *)
Theorem quitmsg_silent s : good s ->
  exists s', quitmsg s = Ret tt s' /\ s_rpt s' = s_rpt s.
Proof.
  intros Hg. pose proof (quitmsg_rk s) as H1. pose proof (quitmsg_nx s) as H2. pose proof (quitmsg_ns s Hg) as H3.
  destruct (quitmsg s) as [[] s'|s'|s']; cbn [rk nx ns] in *; try contradiction. eauto.
Qed.

(** net_conn_shutdown(shutdown_clean): exit with the reports as they were *)
Definition exits_same {A} (rp : list bytes) (r : res A) : Prop :=
  match r with
  | Exit s' => s_rpt s' = rp
  | Ret _ _ => False
  | Stuck _ => True
  end.

Lemma shutdown_clean_rk {A} s : exits_same (s_rpt s) (@shutdown_clean A s).
Proof.
  unfold shutdown_clean. destruct (s_sock s); [|reflexivity].
  pose proof (quitmsg_rk s) as H. pose proof (quitmsg_nx s) as Hx.
  destruct (quitmsg s) as [u s1|s1|s1]; cbn [rk nx exits_same] in *; auto; contradiction.
Qed.

Lemma exits_same_rk {A} rp (r : res A) w : zword w -> exits_same (rp ++ [w]) r -> rk rp r.
Proof.
  intros Hw. destruct r as [a s|s|s]; cbn [rk exits_same]; auto; [contradiction|]. intros H. exists w. auto.
Qed.

Lemma quitmsg_if_net_rk err s : rk (s_rpt s) (quitmsg_if_net err s).
Proof. unfold quitmsg_if_net. destruct (closes_socket err); [reflexivity|apply quitmsg_rk]. Qed.

Lemma next_rk rp (m : res unit) : rk rp m -> rk rp (rdo (_, s') <- m; Ret (@None Z) s').
Proof. intros H. apply rk_bind; [exact H|]. intros u s' H'. exact H'. Qed.

(* ------------------------------------------------------------------ starttlsr.c *)
Lemma tls_reply_loop_rk fuel : forall i s, rk (s_rpt s) (tls_reply_loop fuel i s).
Proof.
  induction fuel as [|f IH]; intros i s; cbn [tls_reply_loop]; destruct ((0 <? i)%Z && dash3 s); cbn [rk]; auto.
  apply rk_bind; [apply netget0_rk|]. intros k s1 H. rewrite <- H.
  destruct (negb (Z.eqb i k)); [reflexivity|apply IH].
Qed.

(** tls_init(): a negative result (local error) has written its report, any other nothing *)
Definition tls_rk (rp : list bytes) (r : res Z) : Prop :=
  match r with
  | Ret v s' => if (v <? 0)%Z then exists w, s_rpt s' = rp ++ [w] /\ zword w else s_rpt s' = rp
  | Exit s' => exists w, s_rpt s' = rp ++ [w] /\ zword w
  | Stuck _ => True
  end.

Lemma tls_rk_nonneg rp v s' : (0 <= v)%Z -> s_rpt s' = rp -> tls_rk rp (Ret v s').
Proof. intros Hv H. cbn [tls_rk]. destruct (Z.ltb_spec v 0); [lia|exact H]. Qed.

Lemma tls_init_rk c tlsa s : tls_rk (s_rpt s) (tls_init c tlsa s).
Proof.
  unfold tls_init. destruct (pinned c && negb (c_pinload c)).
  { cbn. exists ST_RPT_PINLOAD. split; [reflexivity|apply z_pinload]. }
  destruct (if Nat.eqb (count_usable tlsa) 0 then Some 0 else dane_add tlsa (count_usable tlsa)) as [usable|].
  2: { cbn. exists ST_RPT_TLSAADD. split; [reflexivity|apply z_tlsaadd]. }
  set (sa := log (EvCert (s_rcert s)) s).
  assert (Ha : s_rpt (nwrite ST_CMD_STARTTLS sa) = s_rpt s) by reflexivity.
  pose proof (netget0_rk (nwrite ST_CMD_STARTTLS sa)) as H1. rewrite Ha in H1.
  destruct (netget0 (nwrite ST_CMD_STARTTLS sa)) as [i0 s1|s1|s1]; cbn [rbind rk tls_rk] in *; auto.
  pose proof (tls_reply_loop_rk (S (avail s1)) i0 s1) as H2. rewrite H1 in H2.
  destruct (tls_reply_loop (S (avail s1)) i0 s1) as [i s2|s2|s2]; cbn [rbind rk tls_rk] in *; auto.
  destruct (negb (Z.eqb i ST_STARTTLS_OK)).
  { apply tls_rk_nonneg; [|exact H2]. destruct (Z.ltb_spec i 0); lia. }
  destruct (negb (N.eqb (c_hs c) 0)).
  { apply tls_rk_nonneg; [lia|]. rewrite rpt_log, rpt_set_clr. exact H2. }
  destruct (pinned c || Nat.ltb 0 usable).
  - destruct (negb (N.eqb (c_verify c) 0)); apply tls_rk_nonneg; try lia; rewrite ?rpt_log, ?rpt_set_conn, ?rpt_log, ?rpt_set_clr; exact H2.
  - apply tls_rk_nonneg; [lia|]. rewrite ?rpt_set_conn, ?rpt_log, ?rpt_set_clr. exact H2.
Qed.

(* ------------------------------------------------------------------ conn_mx.c *)
Lemma banner_loop_rk fuel : forall sc fe s, rk (s_rpt s) (banner_loop fuel sc fe s).
Proof.
  induction fuel as [|f IH]; intros sc fe s; cbn [banner_loop]; destruct (dash3 s); cbn [rk]; auto.
  apply rk_bind; [apply netget0_rk|]. intros t s1 H. rewrite <- H.
  destruct (Z.eqb t (neg ST_ECONNRESET)); [reflexivity|].
  destruct (0 <? t)%Z; [apply IH|reflexivity].
Qed.

(** TlsClient's loop body: in its network the [default:] exit of the first netget(0) cannot be reached *)
Lemma conn_iter_rk k c tlsa s : rk (s_rpt s) (conn_iter k c tlsa s).
Proof.
  unfold conn_iter. set (s0 := log (EvConn k) (open_conn c s)).
  assert (H0 : s_rpt s0 = s_rpt s) by reflexivity.
  pose proof (netget0_rk s0) as H1. rewrite H0 in H1.
  pose proof (netget0_val s0) as Hv.
  destruct (netget0 s0) as [sc0 s1|s1|s1]; cbn [rbind rk] in *; auto.
  specialize (Hv sc0 s1 eq_refl).
  destruct ((sc0 <? 0)%Z && Z.eqb sc0 (neg ST_ECONNRESET)) eqn:E1; [cbn [rk]; rewrite rpt_connection_died; exact H1|].
  destruct ((sc0 <? 0)%Z && Z.eqb sc0 (neg ST_EINVAL)) eqn:E2; [apply next_rk; rewrite <- H1; apply quitmsg_rk|].
  destruct (sc0 <? 0)%Z eqn:E3.
  { exfalso. cbn [andb] in E1, E2. apply Z.ltb_lt in E3. apply Z.eqb_neq in E1. apply Z.eqb_neq in E2.
    destruct Hv as [Hv|[Hv|Hv]]; [lia|contradiction|contradiction]. }
  apply rk_bind; [rewrite <- H1; apply banner_loop_rk|]. intros [sc flagerr] s2 H2.
  destruct (Z.eqb sc (neg ST_ECONNRESET)); [cbn [rk]; rewrite rpt_connection_died; exact H2|].
  destruct (negb (Z.eqb sc ST_GREETING_OK) || flagerr); [apply next_rk; rewrite <- H2; apply quitmsg_if_net_rk|].
  apply rk_bind; [rewrite <- H2; apply greeting_rk|]. intros g s3 H3.
  destruct (g <? 0)%Z; [apply next_rk; rewrite <- H3; apply quitmsg_if_net_rk|].
  destruct (negb (N.eqb (N.land (Z.to_N g) ST_ESMTP_STARTTLS) 0)).
  - pose proof (tls_init_rk c tlsa s3) as HT. rewrite H3 in HT.
    destruct (tls_init c tlsa s3) as [r s4|s4|s4]; cbn [rbind rk tls_rk] in *; auto.
    destruct (r <? 0)%Z.
    + destruct HT as (w & HT & Hw). apply (exits_same_rk _ _ w Hw). rewrite <- HT. apply shutdown_clean_rk.
    + destruct (negb (Z.eqb r 0)); [apply next_rk; rewrite <- HT; apply quitmsg_if_net_rk|].
      apply rk_bind; [rewrite <- HT; apply greeting_rk|]. intros g2 s5 H5.
      destruct (g2 <? 0)%Z; [apply next_rk; rewrite <- H5; apply quitmsg_if_net_rk|exact H5].
  - destruct (s_xtls s3); [apply next_rk; rewrite <- H3; apply quitmsg_rk|].
    destruct (Nat.ltb 0 (length tlsa)); [apply next_rk; rewrite <- H3; apply quitmsg_rk|exact H3].
Qed.

(* ------------------------------------------------------------------ the connect phase of C04 *)
Lemma z_conn_timeout : QR_CONN_ERR_REPORTS = true -> zword QR_RPT_CONN_TIMEOUT /\ zword QR_RPT_CONN_ERR.
Proof. intros _. split; reflexivity. Qed.
Lemma z_conn_dup2 : QR_CONN_DUP2_REPORTS = true -> zword QR_RPT_CONN_DUP2.
Proof. intros _. reflexivity. Qed.

(** the code that exists reports before both exits (breaks on a tree without the fix) *)
Lemma fix_conn_err : QR_CONN_ERR_REPORTS = true. Proof. reflexivity. Qed.
Lemma fix_conn_dup2 : QR_CONN_DUP2_REPORTS = true. Proof. reflexivity. Qed.

Lemma conn_iter_q_rk k qc tlsa s : rk (s_rpt s) (conn_iter_q true true k qc tlsa s).
Proof.
  unfold conn_iter_q. set (s0 := log (EvConn k) (open_conn (q_conn qc) s)).
  destruct (q_dup2 qc).
  { apply (rk_exit1 _ _ QR_RPT_CONN_DUP2); [reflexivity|apply z_conn_dup2, fix_conn_dup2]. }
  destruct (netget_first (q_silent qc) s0) as [v s1|s1|s1] eqn:EN; try apply conn_iter_rk.
  destruct ((v <? 0)%Z && negb (Z.eqb v (neg ST_ECONNRESET)) && negb (Z.eqb v (neg ST_EINVAL))); [|apply conn_iter_rk].
  assert (H1 : s_rpt s1 = s_rpt s).
  { unfold netget_first in EN. pose proof (netget0_rk s0) as H. destruct (netget0 s0) as [v' s'|s'|s']; cbn [rbind] in EN; try discriminate.
    inversion EN; subst. exact H. }
  unfold conn_err_exit, shutdown_abort. destruct (z_conn_timeout fix_conn_err) as [Z1 Z2].
  destruct (Z.eqb v (neg ST_ETIMEDOUT)).
  - apply (rk_exit1 _ _ QR_RPT_CONN_TIMEOUT); [rewrite rpt_set_conn, rpt_report, H1; reflexivity|exact Z1].
  - apply (rk_exit1 _ _ QR_RPT_CONN_ERR); [rewrite rpt_set_conn, rpt_report, H1; reflexivity|exact Z2].
Qed.

Lemma connect_mx_q_rk all : forall todo k s, rk (s_rpt s) (connect_mx_q true true all k todo s).
Proof.
  induction todo as [|qc todo IH]; intros k s; cbn [connect_mx_q].
  - cbn [rk]. destruct (asks_tlsa all); reflexivity.
  - set (sa := if asks_tlsa all then log (EvTlsa 0) s else s).
    assert (Ha : s_rpt sa = s_rpt s) by (subst sa; destruct (asks_tlsa all); reflexivity).
    apply rk_bind; [rewrite <- Ha; apply conn_iter_q_rk|]. intros r s1 H1.
    destruct r; [exact H1|]. rewrite <- H1. apply IH.
Qed.

(* ---- totality: the connect phase never runs out of fuel ---- *)
Lemma conn_iter_q_ns fe fd k qc tlsa s : good s -> ns (fun _ _ => True) (conn_iter_q fe fd k qc tlsa s).
Proof.
  intros Hg. unfold conn_iter_q. destruct (q_dup2 qc); [exact I|].
  destruct (netget_first _ _) as [v s1|s1|s1]; try (apply conn_iter_ns; exact Hg).
  destruct (_ && _); [exact I|apply conn_iter_ns; exact Hg].
Qed.

Lemma connect_mx_q_ns fe fd all : forall todo k s, good s -> ns (fun _ _ => True) (connect_mx_q fe fd all k todo s).
Proof.
  induction todo as [|c todo IH]; intros k s Hg; cbn [connect_mx_q].
  - split; [|exact I]. destruct (asks_tlsa all); exact Hg.
  - eapply ns_bind; [apply conn_iter_q_ns; destruct (asks_tlsa all); exact Hg|].
    intros r s1 Hg1 _. destruct r; [split; [exact Hg1|exact I]|now apply IH].
Qed.

(** THE CONNECT PHASE, for every case (any number of MX entries, any server bytes, closes and silences,
    any STARTTLS/OpenSSL oracle, failing dup2()): it never gets stuck; when the process exits in it,
    EXACTLY ONE report was written (also on the exits that go through quitmsg()), and it starts with Z;
    when it hands a connection to send_envelope(), nothing has been written to the status stream yet. *)
Theorem connect_phase_reports k :
  match connect_phase true true k with
  | PExited s => exists w, s_rpt s = [w] /\ zword w
  | PConnected _ _ s => s_rpt s = []
  | PStuck _ => False
  end.
Proof.
  unfold connect_phase. pose proof LB as HLB.
  assert (Hg0 : good (init_st (tcase_of k))) by (unfold good; cbn; lia).
  pose proof (connect_mx_q_ns true true (map q_conn (q_conns k)) (q_conns k) 0 _ Hg0) as HN.
  pose proof (connect_mx_q_rk (map q_conn (q_conns k)) (q_conns k) 0 (init_st (tcase_of k))) as HR.
  change (s_rpt (init_st (tcase_of k))) with (@nil bytes) in HR.
  destruct (connect_mx_q true true _ 0 _ _) as [r s|s|s]; cbn [ns rk] in *; [| |contradiction].
  - destruct HN as [Hg _]. destruct r as [[c g]|].
    + destruct (ST_PINNED_NEEDS_TLS && negb (s_ssl s) && pinned c); [|exact HR].
      pose proof (@shutdown_clean_rk unit (report ST_RPT_PINNED s)) as HS.
      pose proof (@shutdown_clean_exits unit (report ST_RPT_PINNED s) Hg) as HX.
      destruct (shutdown_clean (report ST_RPT_PINNED s)) as [u s'|s'|s']; cbn [exits exits_same] in *; try contradiction.
      rewrite rpt_report, HR in HS. exists ST_RPT_PINNED. split; [exact HS|apply z_pinned].
    + cbn. rewrite HR. exists ST_RPT_NOCONN. split; [reflexivity|apply z_noconn].
  - exact HR.
Qed.

(** the unfixed code: a server that accepts the connection and stays silent makes Qremote exit
    without any report *)
Definition W_silent : qcase := mkQC false [mkQ (mkConn false false false [] 0 0 [] [] []) true false].
Definition W_dup2 : qcase := mkQC false [mkQ (mkConn false false false [] 0 0 [] [] []) false true].

Lemma unfixed_silent_exit :
  match connect_phase false true W_silent with PExited s => s_rpt s = [] | _ => False end.
Proof. vm_compute. reflexivity. Qed.
Lemma unfixed_dup2_exit :
  match connect_phase true false W_dup2 with PExited s => s_rpt s = [] | _ => False end.
Proof. vm_compute. reflexivity. Qed.

(* ------------------------------------------------------------------ the run of the harness and the boolean specification *)
From Qv Require Import Spec.QrConnectSpec.

Definition mail_of (p : phase_end) : option nat :=
  match p with PConnected _ _ s => Some (length (s_rpt s)) | _ => None end.

Lemma zword_b_ok w : zword w -> zword_b w = true.
Proof. unfold zword, zword_b. intros ->. reflexivity. Qed.

(** the model of the harness run meets the specification, for every case *)
Theorem run_q_spec k :
  match run_q_with true true k with
  | Exit s => conn_spec_ok 0 (mail_of (connect_phase true true k)) (s_rpt s) true = true
  | _ => False
  end.
Proof.
  unfold run_q_with. pose proof (connect_phase_reports k) as H.
  pose proof LB as HLB.
  destruct (connect_phase true true k) as [s|c g s|s] eqn:EP; [| |contradiction].
  - destruct H as (w & Hs & Hw). unfold conn_spec_ok. cbn [mail_of Nat.eqb andb]. rewrite Hs.
    cbn [forallb length Nat.leb Nat.eqb negb andb]. rewrite zword_b_ok by exact Hw. reflexivity.
  - set (s1 := nwrite MAIL_CMD (log (EvMail (s_ssl s) (Z.to_N g)) s)).
    assert (Hg : good s1).
    { (* the state behind connect_mx() is good: from the totality proof *)
      unfold connect_phase in EP.
      assert (Hg0 : good (init_st (tcase_of k))) by (unfold good; cbn; lia).
      pose proof (connect_mx_q_ns true true (map q_conn (q_conns k)) (q_conns k) 0 _ Hg0) as HN.
      destruct (connect_mx_q true true _ 0 _ _) as [r s'|s'|s']; cbn [ns] in HN; try contradiction.
      - destruct HN as [Hg' _]. destruct r as [[c' g']|].
        + destruct (ST_PINNED_NEEDS_TLS && negb (s_ssl s') && pinned c').
          * destruct (shutdown_clean (report ST_RPT_PINNED s')); discriminate.
          * inversion EP; subst. exact Hg'.
        + cbn in EP. discriminate.
      - discriminate. }
    pose proof (@shutdown_clean_rk unit s1) as HS.
    pose proof (@shutdown_clean_exits unit s1 Hg) as HX.
    destruct (shutdown_clean s1) as [u s'|s'|s']; cbn [exits exits_same] in *; try contradiction.
    change (s_rpt s1) with (s_rpt s) in HS. rewrite H in HS.
    unfold conn_spec_ok. cbn [mail_of]. rewrite H, HS. reflexivity.
Qed.

(* ------------------------------------------------------------------ the QUIT exchange before the fix (F-C04-8) *)
(** a pinned host reached without TLS: main() reports "Z4.5.0 ..." and shuts down cleanly; the server
    answers QUIT with 1500 octets without CRLF and closes.  [W_quit_state]: the program state after
    that report, with the reply on the wire. *)
Definition W_quit_reply : bytes := repeat 122%N 1500.
Definition W_quit_state : st :=
  mkSt [] false {| cur := []; future := [W_quit_reply] |} {| cur := []; future := [] |} false true [] false false []
       [ST_RPT_PINNED].

(** loop_long() with fatal = 1: dieerror() under quitmsg() writes a second report *)
Lemma unfixed_quit_second_report :
  match @shutdown_clean_old unit W_quit_state with
  | Exit s => s_rpt s = [ST_RPT_PINNED; ST_RPT_DIED]
  | _ => False
  end.
Proof. vm_compute. reflexivity. Qed.

(** the code that exists: one report *)
Lemma fixed_quit_one_report :
  match @shutdown_clean unit W_quit_state with
  | Exit s => s_rpt s = [ST_RPT_PINNED]
  | _ => False
  end.
Proof. vm_compute. reflexivity. Qed.

(** wrap_header on a window without 8-bit octets and without an empty line (a header, or a part of one
    that starts at the beginning of a line): what it writes is legal SMTP data, line by line — short
    lines dot-stuffed, over-long ones folded by wrap_line — and unfolds to the dot-stuffed window. *)
From Qv Require Import Common.Bytes Gen.GenQrdata Model.Mime Model.QrData Model.QrDataL2 Proofs.QrMemLemmas
  Spec.SmtpDataSpec Spec.DeliverSpec Proofs.QrPlainProofs Proofs.QrNeedRecodeProofs Proofs.QrPlainSpecProofs
  Proofs.QrWrapLineProofs Proofs.QrWireProofs Proofs.QrFoldProofs Proofs.QrPhaseProofs Proofs.MimeTotalProofs.
Require Import Lia.

Definition outof (st : St) : bytes := concat (rev (out st)).

Lemma is8_lt c : is8 c = false -> (c < 128)%N.
Proof. unfold is8. intros H. apply Bool.orb_false_elim in H as [_ H]. apply N.leb_gt in H. exact H. Qed.

Lemma clean_of_noeol (l : bytes) : (forall j, j < length l -> is_eol (nth j l 0%N) = false) -> line_clean l.
Proof.
  induction l as [|c r IH]; intros H; [constructor|]. constructor.
  - specialize (H 0 ltac:(cbn; lia)). cbn in H. unfold is_eol in H. apply Bool.orb_false_elim in H as [A B].
    apply N.eqb_neq in A, B. auto.
  - apply IH. intros j Hj. apply (H (S j)). cbn [length]. lia.
Qed.

Section Header.
Variable m : bytes.
Variables bh n : nat.
Variable Hw : bh + n <= length m.
Variable ext8 : bool.
Let hw := sub m bh n.
Variable H7 : existsb is8 hw = false.

Let hw_len : length hw = n.
Proof. apply sub_length. exact Hw. Qed.
Let hw_at j : j < n -> at_ m (bh + j) = nth j hw 0%N.
Proof. intros H. unfold hw, at_. now rewrite nth_sub. Qed.
Let hw_sub p k : p + k <= n -> sub m (bh + p) k = sub hw p k.
Proof. intros H. unfold hw. now rewrite sub_sub. Qed.

Lemma hw_seven p k : ext8 = false -> seven_bit (sub hw p k).
Proof.
  intros _. apply Forall_sub. apply existsb_false_Forall in H7. eapply Forall_impl; [|exact H7]. intros c. apply is8_lt.
Qed.

Lemma hw_clean p k : p + k <= n -> (forall j, p <= j < p + k -> is_eol (nth j hw 0%N) = false) -> line_clean (sub hw p k).
Proof.
  intros Hin H. apply clean_of_noeol. rewrite sub_length by (rewrite hw_len; exact Hin). intros j Hj.
  unfold sub. rewrite nth_firstn' by exact Hj. rewrite nth_skipn'. apply H. lia.
Qed.

Variable D0 : bytes.

Definition WInv (pos off ll : nat) (st : St) (done : list item) (outs : list bytes) (blk : list item) : Prop :=
  pos + off + ll <= n /\
  length (concat (map item_bytes done)) = pos /\ length (concat (map item_bytes blk)) = off /\
  firstn (pos + off) hw = concat (map item_bytes (done ++ blk)) /\
  items_ok (done ++ blk) (skipn (pos + off) hw) /\
  Forall2 (rendered ext8) done outs /\ outof st = D0 ++ concat outs /\
  Forall (fun it => length (fst it) < SW_LIMIT) blk /\ Forall item_ok blk /\
  (forall j, pos + off <= j < pos + off + ll -> is_eol (nth j hw 0%N) = false).

Lemma blk_bytes pos off ll st done outs blk : WInv pos off ll st done outs blk ->
  sub hw pos off = concat (map item_bytes blk).
Proof.
  intros (Hin & Hd & Hb & Hf & _).
  rewrite map_app, concat_app in Hf.
  assert (E : firstn (pos + off) hw = firstn pos hw ++ sub hw pos off) by apply firstn_add'.
  rewrite E in Hf.
  assert (E2 : firstn pos hw = concat (map item_bytes done)).
  { apply (f_equal (firstn pos)) in Hf. rewrite firstn_app in Hf.
    rewrite firstn_length, hw_len in Hf. replace (pos - Nat.min pos n) with 0 in Hf by lia.
    rewrite firstn_firstn in Hf. replace (Nat.min pos pos) with pos in Hf by lia. cbn [firstn] in Hf. rewrite app_nil_r in Hf.
    rewrite Hf. rewrite firstn_app. rewrite Hd. replace (pos - pos) with 0 by lia. cbn [firstn]. rewrite app_nil_r.
    apply firstn_all2. lia. }
  rewrite E2 in Hf. apply app_inv_head in Hf. exact Hf.
Qed.

(** a complete line (or the unterminated last one when [l = 0] is not used here) has been found: what send_wrapped does *)
Lemma step_eol pos off ll l st done outs blk :
  WInv pos off ll st done outs blk -> 1 <= l -> pos + off + ll + l <= n ->
  valid_eol (sub hw (pos + off + ll) l) ->
  (sub hw (pos + off + ll) l = [CR] -> hd_not_lf (skipn (pos + off + ll + l) hw)) ->
  exists pos' off' st' done' outs' blk',
    send_wrapped m bh pos off ll l st = Ok (pos', off', 0, st') /\
    WInv pos' off' 0 st' done' outs' blk' /\ pos' + off' = pos + off + ll + l.
Proof.
  intros HI Hl Hin He Hnm. pose proof (blk_bytes _ _ _ _ _ _ _ HI) as Hblk.
  destruct HI as (Hin0 & Hd & Hb & Hf & Hok & HR & HD & Hshort & Hbok & Hcl).
  set (q := pos + off + ll) in *.
  set (line := sub hw (pos + off) ll). set (e := sub hw q l).
  set (it := (line, e) : item).
  assert (Hline : line_clean line) by (apply hw_clean; [lia|exact Hcl]).
  assert (Hitok : item_ok it) by (split; assumption).
  assert (Hlen_line : length line = ll) by (apply sub_length; rewrite hw_len; lia).
  assert (Hlen_e : length e = l) by (apply sub_length; rewrite hw_len; lia).
  assert (Hsk : skipn (pos + off) hw = item_bytes it ++ skipn (q + l) hw).
  { unfold item_bytes, it, line, e. cbn [fst snd]. rewrite <- app_assoc.
    rewrite <- (sub_app_skipn hw (pos + off) ll). f_equal. fold q. rewrite <- (sub_app_skipn hw q l). reflexivity. }
  assert (Hfn : firstn (q + l) hw = firstn (pos + off) hw ++ item_bytes it).
  { unfold item_bytes, it, line, e. cbn [fst snd]. replace (q + l) with ((pos + off) + (ll + l)) by lia.
    rewrite firstn_add'. f_equal. rewrite firstn_add'. rewrite skipn_skipn'. reflexivity. }
  assert (Hok2 : items_ok ((done ++ blk) ++ [it]) (skipn (q + l) hw)).
  { apply items_ok_snoc; [rewrite <- Hsk; exact Hok|exact Hitok|exact Hnm]. }
  unfold send_wrapped. destruct (Nat.ltb_spec ll SW_LIMIT) as [Hs|Hlong].
  - (* short line: it joins the block *)
    exists pos, (off + ll + l), st, done, outs, (blk ++ [it]). split; [reflexivity|]. split; [|lia].
    unfold WInv. replace (pos + (off + ll + l)) with (q + l) by lia.
    split; [lia|]. split; [exact Hd|]. split.
    { rewrite map_app, concat_app, app_length, Hb. cbn [map concat]. rewrite app_nil_r. unfold item_bytes, it. cbn [fst snd].
      rewrite app_length, Hlen_line, Hlen_e. lia. }
    split. { rewrite Hfn, Hf. rewrite app_assoc. rewrite !map_app, !concat_app. cbn [map concat]. now rewrite app_nil_r, <- !app_assoc. }
    split. { rewrite app_assoc. exact Hok2. }
    split; [exact HR|]. split; [exact HD|]. split.
    { apply Forall_app. split; [exact Hshort|]. constructor; [unfold it; cbn [fst]; rewrite Hlen_line; exact Hs|constructor]. }
    split. { apply Forall_app. split; [exact Hbok|]. constructor; [exact Hitok|constructor]. }
    intros j Hj. lia.
  - (* over-long line: the block goes out, then the line is folded *)
    assert (Hw1 : bh + pos + off <= length m) by lia.
    destruct (send_plain_ok m (bh + pos) off Hw1 st) as (st1 & E1 & Ho1 & _).
    rewrite E1. cbn [bind].
    assert (Hw2 : bh + (pos + off) + ll <= length m) by lia.
    destruct (wrap_line_ok m (bh + (pos + off)) ll Hw2 st1) as (st2 & fs & E2 & Hcat & _ & Hflen & (f0 & fr & Efs & Hf0) & Ho2 & _).
    { unfold WL_LONG, SW_LIMIT in *. lia. }
    rewrite E2. cbn [bind]. rewrite Nat.eqb_refl. cbn [negb].
    rewrite hw_sub in Ho1 by lia. rewrite Hblk in Ho1. rewrite hw_sub in Hcat by lia. fold line in Hcat.
    assert (Hbok0 : items_ok blk []) by (apply (items_ok_nil _ (skipn (pos + off) hw)); apply (items_ok_drop done); exact Hok).
    pose proof (plain_enc_items blk [] Hbok0) as Hpe. rewrite app_nil_r in Hpe. cbn [plain_enc] in Hpe. rewrite app_nil_r in Hpe.
    exists (pos + off + ll + l), 0, st2, (done ++ blk ++ [it]), (outs ++ map line_out blk ++ [render_frags fs]), [].
    split; [reflexivity|]. split; [|lia].
    unfold WInv. replace (pos + off + ll + l + 0) with (q + l) by lia.
    split; [lia|]. split.
    { rewrite !map_app, !concat_app, !app_length. cbn [map concat]. rewrite app_nil_r. rewrite Hd, Hb.
      unfold item_bytes, it. cbn [fst snd]. rewrite app_length, Hlen_line, Hlen_e. lia. }
    split; [reflexivity|]. split.
    { rewrite app_nil_r. rewrite Hfn, Hf. rewrite !map_app, !concat_app. cbn [map concat]. now rewrite app_nil_r, <- !app_assoc. }
    split. { rewrite app_nil_r. rewrite app_assoc. exact Hok2. }
    split.
    { apply Forall2_app_r; [exact HR|]. apply Forall2_app_r.
      - apply Forall2_map_r. rewrite Forall_forall in *. intros x Hx. apply rendered_plain.
        + apply Hbok; exact Hx.
        + specialize (Hshort x Hx). unfold SW_LIMIT in Hshort. unfold MAXLINE. apply Nat.lt_succ_r. exact Hshort.
        + intros E8.
          (* the lines of the block are parts of the window *)
          assert (Hall : seven_bit (concat (map item_bytes blk))) by (rewrite <- Hblk; apply hw_seven; exact E8).
          unfold seven_bit in *. rewrite Forall_forall in Hall |- *. intros c Hc. apply Hall.
          apply in_concat. exists (item_bytes x). split; [apply in_map; exact Hx|]. unfold item_bytes. apply in_or_app. left. exact Hc.
      - constructor; [|constructor]. split.
        + apply frags_legal; [rewrite Hcat; exact Hline|intros E8; rewrite Hcat; apply hw_seven; exact E8|exact Hflen|rewrite Efs; discriminate].
        + unfold line_out, it. cbn [fst]. rewrite <- Hcat, Efs. apply frags_unfold. exact Hf0. }
    split.
    { unfold outof in *. rewrite Ho2, Ho1, HD, Hpe. rewrite !concat_app. cbn [concat]. now rewrite app_nil_r, <- !app_assoc. }
    split; [constructor|]. split; [constructor|]. intros j Hj. lia.
Qed.

Let hw_skip j : j < n -> skipn j hw = nth j hw 0%N :: skipn (S j) hw.
Proof. intros H. apply skipn_nth_cons. rewrite hw_len. exact H. Qed.

Lemma sub1 q : q < n -> sub hw q 1 = [nth q hw 0%N].
Proof. intros H. unfold sub. rewrite hw_skip by exact H. reflexivity. Qed.

Lemma sub2 q : S q < n -> sub hw q 2 = [nth q hw 0%N; nth (S q) hw 0%N].
Proof. intros H. unfold sub. rewrite hw_skip by lia. rewrite (hw_skip (S q)) by lia. reflexivity. Qed.

Lemma wh_loop_spec : forall fuel pos off ll st done outs blk,
  WInv pos off ll st done outs blk -> n - (pos + off + ll) < fuel ->
  exists pos' off' ll' st' done' outs' blk',
    wh_loop fuel m bh n pos off ll st = Ok (pos', off', ll', st') /\
    WInv pos' off' ll' st' done' outs' blk' /\ pos' + off' + ll' = n.
Proof.
  induction fuel as [|fuel IH]; intros pos off ll st done outs blk HI Hf.
  { pose proof HI as (Hin & _). lia. }
  pose proof HI as (Hin & Hd & Hb & Hfn & Hok & HR & HD & Hshort & Hbok & Hcl).
  cbn [wh_loop]. set (q := pos + off + ll) in *.
  destruct (Nat.ltb_spec q n) as [Hlt|Hge].
  2: { exists pos, off, ll, st, done, outs, blk. split; [reflexivity|]. split; [exact HI|unfold q in *; lia]. }
  rewrite rd_at by lia. cbn [bind]. rewrite hw_at by exact Hlt. cbv zeta.
  set (c := nth q hw 0%N).
  set (l0 := if N.eqb c CR then 1 else 0).
  assert (Hl : exists l, (if Nat.ltb (q + l0) n then do c2 <- rd m (bh + (q + l0)); Ok (if N.eqb c2 LF then S l0 else l0) else Ok l0) = Ok l /\
             q + l <= n /\
             ((l = 0 /\ is_eol c = false) \/
              (1 <= l /\ valid_eol (sub hw q l) /\ (sub hw q l = [CR] -> hd_not_lf (skipn (q + l) hw))))).
  { unfold l0. destruct (N.eqb_spec c CR) as [HCR|HnCR].
    - destruct (Nat.ltb_spec (q + 1) n) as [H2|H2].
      + rewrite rd_at by lia. cbn [bind]. rewrite hw_at by exact H2.
        destruct (N.eqb_spec (nth (q + 1) hw 0%N) LF) as [HLF|HnLF].
        * exists 2. split; [reflexivity|]. split; [lia|]. right. split; [lia|].
          rewrite sub2 by lia. fold c. replace (S q) with (q + 1) by lia. rewrite HCR, HLF.
          split; [right; right; reflexivity|discriminate].
        * exists 1. split; [reflexivity|]. split; [lia|]. right. split; [lia|].
          rewrite sub1 by lia. fold c. rewrite HCR. split; [left; reflexivity|].
          intros _. rewrite hw_skip by lia. cbn [hd_not_lf]. exact HnLF.
      + exists 1. split; [reflexivity|]. split; [lia|]. right. split; [lia|].
        rewrite sub1 by lia. fold c. rewrite HCR. split; [left; reflexivity|].
        intros _. rewrite skipn_all' by lia. exact I.
    - replace (q + 0) with q by lia. destruct (Nat.ltb_spec q n) as [_|]; [|lia].
      rewrite rd_at by lia. cbn [bind]. rewrite hw_at by exact Hlt. fold c.
      destruct (N.eqb_spec c LF) as [HLF|HnLF].
      + exists 1. split; [reflexivity|]. split; [lia|]. right. split; [lia|].
        rewrite sub1 by lia. fold c. rewrite HLF. split; [right; left; reflexivity|discriminate].
      + exists 0. split; [reflexivity|]. split; [lia|]. left. split; [reflexivity|].
        unfold is_eol. apply N.eqb_neq in HnCR, HnLF. now rewrite HnCR, HnLF. }
  destruct Hl as (l & El & Hql & Hcase). rewrite El. cbn [bind].
  destruct Hcase as [(Hl0 & Hne)|(Hl1 & Hve & Hnm)].
  - subst l. cbn [Nat.eqb].
    destruct (IH pos off (S ll) st done outs blk) as (p' & o' & l' & st' & d' & os' & b' & E & HI' & Hsum).
    + repeat split; auto; try (unfold q in *; lia).
      intros j Hj. destruct (Nat.eq_dec j q) as [->|]; [exact Hne|apply Hcl; unfold q in *; lia].
    + unfold q in *. lia.
    + exists p', o', l', st', d', os', b'. auto.
  - destruct (Nat.eqb_spec l 0) as [|_]; [lia|].
    destruct (step_eol pos off ll l st done outs blk HI Hl1 ltac:(unfold q in *; lia) Hve Hnm)
      as (p1 & o1 & st1 & d1 & os1 & b1 & E1 & HI1 & Hs1).
    rewrite E1. cbn [bind].
    destruct (IH p1 o1 0 st1 d1 os1 b1 HI1) as (p' & o' & l' & st' & d' & os' & b' & E & HI' & Hsum); [unfold q in *; lia|].
    exists p', o', l', st', d', os', b'. auto.
Qed.

End Header.

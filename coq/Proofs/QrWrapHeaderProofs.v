(** wrap_header on a window without 8-bit octets and without an empty line (a header, or a part of one
    that starts at the beginning of a line): what it writes is legal SMTP data, line by line — short
    lines dot-stuffed, over-long ones folded by wrap_line — and unfolds to the dot-stuffed window. *)
From Qv Require Import Common.Bytes Gen.GenQrdata Model.Mime Model.QrData Model.QrDataL2 Proofs.QrMemLemmas
  Spec.SmtpDataSpec Spec.DeliverSpec Proofs.QrPlainProofs Proofs.QrNeedRecodeProofs Proofs.QrPlainSpecProofs
  Proofs.QrWrapLineProofs Proofs.QrWireProofs Proofs.QrFoldProofs Proofs.QrPhaseProofs Proofs.MimeTotalProofs.
Require Import Lia.

Definition outof (st : St) : bytes := concat (rev (out st)).

Lemma is8_lt c : is8 c = false -> (c < 128)%N.
Proof. unfold is8. intros H. apply Bool.orb_false_elim in H as [_ H]. apply N.leb_gt in H. exact H. Qed.

Lemma clean_of_noeol (l : bytes) : (forall j, j < length l -> is_eol (nth j l 0%N) = false) -> line_clean l.
Proof.
  induction l as [|c r IH]; intros H; [constructor|]. constructor.
  - specialize (H 0 ltac:(cbn; lia)). cbn in H. unfold is_eol in H. apply Bool.orb_false_elim in H as [A B].
    apply N.eqb_neq in A, B. auto.
  - apply IH. intros j Hj. apply (H (S j)). cbn [length]. lia.
Qed.

Lemma ends_eol_app a b' : b' <> [] -> ends_eol (a ++ b') = ends_eol b'.
Proof.
  induction a as [|x a IH]; intros H; [reflexivity|]. cbn [app].
  destruct a as [|y a'].
  - cbn [app]. destruct b'; [contradiction|reflexivity].
  - change (ends_eol (x :: (y :: a') ++ b')) with (ends_eol ((y :: a') ++ b')). apply IH. exact H.
Qed.

Lemma ends_eol_clean l : line_clean l -> ends_eol l = false.
Proof.
  induction l as [|c r IH]; intros H; [reflexivity|]. inversion H as [|? ? (A & B) Hr]; subst. cbn [ends_eol].
  destruct r; [|apply IH; exact Hr]. unfold is_eol. apply N.eqb_neq in A, B. now rewrite A, B.
Qed.

Lemma ends_eol_valid e : valid_eol e -> ends_eol e = true /\ e <> [].
Proof. intros [->|[->| ->]]; split; try reflexivity; discriminate. Qed.

Lemma open_items its (line : bytes) : Forall item_ok its -> line_clean line ->
  open_line false (concat (map item_bytes its) ++ line) = match line with [] => false | _ => true end.
Proof.
  intros Hi Hc. destruct line as [|c r].
  - rewrite app_nil_r. destruct its as [|it0 its0] using rev_ind; [reflexivity|].
    rewrite map_app, concat_app. cbn [map concat]. rewrite app_nil_r.
    apply Forall_app in Hi as [_ Hi]. inversion Hi as [|? ? (_ & Hv) _]; subst.
    destruct (ends_eol_valid _ Hv) as [He Hne]. unfold item_bytes at 2.
    assert (Hnn : concat (map item_bytes its0) ++ fst it0 ++ snd it0 <> []).
    { intros E. apply app_eq_nil in E as [_ E]. apply app_eq_nil in E as [_ E]. contradiction. }
    unfold open_line. destruct (concat (map item_bytes its0) ++ fst it0 ++ snd it0) eqn:E; [contradiction|]. rewrite <- E.
    rewrite app_assoc. rewrite ends_eol_app by exact Hne. now rewrite He.
  - unfold open_line. destruct (concat (map item_bytes its) ++ c :: r) eqn:E; [destruct (concat (map item_bytes its)); discriminate|].
    rewrite <- E. rewrite ends_eol_app by discriminate. now rewrite ends_eol_clean.
Qed.

Section Header.
Variable m : bytes.
Variables bh n : nat.
Variable Hw : bh + n <= length m.
Variable ext8 : bool.
Let hw := sub m bh n.
Variable H7 : existsb is8 hw = false.

Let hw_len : length hw = n.
Proof. apply sub_length. exact Hw. Qed.
Let hw_at j : j < n -> at_ m (bh + j) = nth j hw 0%N.
Proof. intros H. unfold hw, at_. now rewrite nth_sub. Qed.
Let hw_sub p k : p + k <= n -> sub m (bh + p) k = sub hw p k.
Proof. intros H. unfold hw. now rewrite sub_sub. Qed.

Lemma hw_seven p k : ext8 = false -> seven_bit (sub hw p k).
Proof.
  intros _. apply Forall_sub. apply existsb_false_Forall in H7. eapply Forall_impl; [|exact H7]. intros c. apply is8_lt.
Qed.

Lemma hw_clean p k : p + k <= n -> (forall j, p <= j < p + k -> is_eol (nth j hw 0%N) = false) -> line_clean (sub hw p k).
Proof.
  intros Hin H. apply clean_of_noeol. rewrite sub_length by (rewrite hw_len; exact Hin). intros j Hj.
  unfold sub. rewrite nth_firstn' by exact Hj. rewrite nth_skipn'. apply H. lia.
Qed.

Variable D0 : bytes.

Definition WInv (pos off ll : nat) (st : St) (done : list item) (outs : list bytes) (blk : list item) : Prop :=
  pos + off + ll <= n /\
  length (concat (map item_bytes done)) = pos /\ length (concat (map item_bytes blk)) = off /\
  firstn (pos + off) hw = concat (map item_bytes (done ++ blk)) /\
  items_ok (done ++ blk) (skipn (pos + off) hw) /\
  Forall2 (rendered ext8) done outs /\ outof st = D0 ++ concat outs /\
  Forall (fun it => length (fst it) < SW_LIMIT) blk /\ Forall item_ok blk /\
  (forall j, pos + off <= j < pos + off + ll -> is_eol (nth j hw 0%N) = false).

Lemma blk_bytes pos off ll st done outs blk : WInv pos off ll st done outs blk ->
  sub hw pos off = concat (map item_bytes blk).
Proof.
  intros (Hin & Hd & Hb & Hf & _).
  rewrite map_app, concat_app in Hf.
  assert (E : firstn (pos + off) hw = firstn pos hw ++ sub hw pos off) by apply firstn_add'.
  rewrite E in Hf.
  assert (E2 : firstn pos hw = concat (map item_bytes done)).
  { apply (f_equal (firstn pos)) in Hf. rewrite firstn_app in Hf.
    rewrite firstn_length, hw_len in Hf. replace (pos - Nat.min pos n) with 0 in Hf by lia.
    rewrite firstn_firstn in Hf. replace (Nat.min pos pos) with pos in Hf by lia. cbn [firstn] in Hf. rewrite app_nil_r in Hf.
    rewrite Hf. rewrite firstn_app. rewrite Hd. replace (pos - pos) with 0 by lia. cbn [firstn]. rewrite app_nil_r.
    apply firstn_all2. lia. }
  rewrite E2 in Hf. apply app_inv_head in Hf. exact Hf.
Qed.

(** a complete line (or the unterminated last one when [l = 0] is not used here) has been found: what send_wrapped does *)
Lemma step_eol pos off ll l st done outs blk :
  WInv pos off ll st done outs blk -> 1 <= l -> pos + off + ll + l <= n ->
  valid_eol (sub hw (pos + off + ll) l) ->
  (sub hw (pos + off + ll) l = [CR] -> hd_not_lf (skipn (pos + off + ll + l) hw)) ->
  exists pos' off' st' done' outs' blk',
    send_wrapped m bh pos off ll l st = Ok (pos', off', 0, st') /\
    WInv pos' off' 0 st' done' outs' blk' /\ pos' + off' = pos + off + ll + l.
Proof.
  intros HI Hl Hin He Hnm. pose proof (blk_bytes _ _ _ _ _ _ _ HI) as Hblk.
  destruct HI as (Hin0 & Hd & Hb & Hf & Hok & HR & HD & Hshort & Hbok & Hcl).
  set (q := pos + off + ll) in *.
  set (line := sub hw (pos + off) ll). set (e := sub hw q l).
  set (it := (line, e) : item).
  assert (Hline : line_clean line) by (apply hw_clean; [lia|exact Hcl]).
  assert (Hitok : item_ok it) by (split; assumption).
  assert (Hlen_line : length line = ll) by (apply sub_length; rewrite hw_len; lia).
  assert (Hlen_e : length e = l) by (apply sub_length; rewrite hw_len; lia).
  assert (Hsk : skipn (pos + off) hw = item_bytes it ++ skipn (q + l) hw).
  { unfold item_bytes, it, line, e. cbn [fst snd]. rewrite <- app_assoc.
    rewrite <- (sub_app_skipn hw (pos + off) ll). f_equal. fold q. rewrite <- (sub_app_skipn hw q l). reflexivity. }
  assert (Hfn : firstn (q + l) hw = firstn (pos + off) hw ++ item_bytes it).
  { unfold item_bytes, it, line, e. cbn [fst snd]. replace (q + l) with ((pos + off) + (ll + l)) by lia.
    rewrite firstn_add'. f_equal. rewrite firstn_add'. rewrite skipn_skipn'. reflexivity. }
  assert (Hok2 : items_ok ((done ++ blk) ++ [it]) (skipn (q + l) hw)).
  { apply items_ok_snoc; [rewrite <- Hsk; exact Hok|exact Hitok|exact Hnm]. }
  unfold send_wrapped. destruct (Nat.ltb_spec ll SW_LIMIT) as [Hs|Hlong].
  - (* short line: it joins the block *)
    exists pos, (off + ll + l), st, done, outs, (blk ++ [it]). split; [reflexivity|]. split; [|lia].
    unfold WInv. replace (pos + (off + ll + l)) with (q + l) by lia.
    split; [lia|]. split; [exact Hd|]. split.
    { rewrite map_app, concat_app, app_length, Hb. cbn [map concat]. rewrite app_nil_r. unfold item_bytes, it. cbn [fst snd].
      rewrite app_length, Hlen_line, Hlen_e. lia. }
    split. { rewrite Hfn, Hf. rewrite app_assoc. rewrite !map_app, !concat_app. cbn [map concat]. now rewrite app_nil_r, <- !app_assoc. }
    split. { rewrite app_assoc. exact Hok2. }
    split; [exact HR|]. split; [exact HD|]. split.
    { apply Forall_app. split; [exact Hshort|]. constructor; [unfold it; cbn [fst]; rewrite Hlen_line; exact Hs|constructor]. }
    split. { apply Forall_app. split; [exact Hbok|]. constructor; [exact Hitok|constructor]. }
    intros j Hj. lia.
  - (* over-long line: the block goes out, then the line is folded *)
    assert (Hw1 : bh + pos + off <= length m) by lia.
    destruct (send_plain_ok m (bh + pos) off Hw1 st) as (st1 & E1 & Ho1 & _).
    rewrite E1. cbn [bind].
    assert (Hw2 : bh + (pos + off) + ll <= length m) by lia.
    destruct (wrap_line_ok m (bh + (pos + off)) ll Hw2 st1) as (st2 & fs & E2 & Hcat & _ & Hflen & (f0 & fr & Efs & Hf0) & Ho2 & _).
    { unfold WL_LONG, SW_LIMIT in *. lia. }
    rewrite E2. cbn [bind]. rewrite Nat.eqb_refl. cbn [negb].
    rewrite hw_sub in Ho1 by lia. rewrite Hblk in Ho1. rewrite hw_sub in Hcat by lia. fold line in Hcat.
    assert (Hbok0 : items_ok blk []) by (apply (items_ok_nil _ (skipn (pos + off) hw)); apply (items_ok_drop done); exact Hok).
    pose proof (plain_enc_items blk [] Hbok0) as Hpe. rewrite app_nil_r in Hpe. cbn [plain_enc] in Hpe. rewrite app_nil_r in Hpe.
    exists (pos + off + ll + l), 0, st2, (done ++ blk ++ [it]), (outs ++ map line_out blk ++ [render_frags fs]), [].
    split; [reflexivity|]. split; [|lia].
    unfold WInv. replace (pos + off + ll + l + 0) with (q + l) by lia.
    split; [lia|]. split.
    { rewrite !map_app, !concat_app, !app_length. cbn [map concat]. rewrite app_nil_r. rewrite Hd, Hb.
      unfold item_bytes, it. cbn [fst snd]. rewrite app_length, Hlen_line, Hlen_e. lia. }
    split; [reflexivity|]. split.
    { rewrite app_nil_r. rewrite Hfn, Hf. rewrite !map_app, !concat_app. cbn [map concat]. now rewrite app_nil_r, <- !app_assoc. }
    split. { rewrite app_nil_r. rewrite app_assoc. exact Hok2. }
    split.
    { apply Forall2_app_r; [exact HR|]. apply Forall2_app_r.
      - apply Forall2_map_r. rewrite Forall_forall in *. intros x Hx. apply rendered_plain.
        + apply Hbok; exact Hx.
        + specialize (Hshort x Hx). unfold SW_LIMIT in Hshort. unfold MAXLINE. apply Nat.lt_succ_r. exact Hshort.
        + intros E8.
          (* the lines of the block are parts of the window *)
          assert (Hall : seven_bit (concat (map item_bytes blk))) by (rewrite <- Hblk; apply hw_seven; exact E8).
          unfold seven_bit in *. rewrite Forall_forall in Hall |- *. intros c Hc. apply Hall.
          apply in_concat. exists (item_bytes x). split; [apply in_map; exact Hx|]. unfold item_bytes. apply in_or_app. left. exact Hc.
      - constructor; [|constructor]. split.
        + apply frags_legal; [rewrite Hcat; exact Hline|intros E8; rewrite Hcat; apply hw_seven; exact E8|exact Hflen|rewrite Efs; discriminate].
        + unfold line_out, it. cbn [fst]. rewrite <- Hcat, Efs. apply frags_unfold. exact Hf0. }
    split.
    { unfold outof in *. rewrite Ho2, Ho1, HD, Hpe. rewrite !concat_app. cbn [concat]. now rewrite app_nil_r, <- !app_assoc. }
    split; [constructor|]. split; [constructor|]. intros j Hj. lia.
Qed.

Let hw_skip j : j < n -> skipn j hw = nth j hw 0%N :: skipn (S j) hw.
Proof. intros H. apply skipn_nth_cons. rewrite hw_len. exact H. Qed.

Lemma sub1 q : q < n -> sub hw q 1 = [nth q hw 0%N].
Proof. intros H. unfold sub. rewrite hw_skip by exact H. reflexivity. Qed.

Lemma sub2 q : S q < n -> sub hw q 2 = [nth q hw 0%N; nth (S q) hw 0%N].
Proof. intros H. unfold sub. rewrite hw_skip by lia. rewrite (hw_skip (S q)) by lia. reflexivity. Qed.

Lemma wh_loop_spec : forall fuel pos off ll st done outs blk,
  WInv pos off ll st done outs blk -> n - (pos + off + ll) < fuel ->
  exists pos' off' ll' st' done' outs' blk',
    wh_loop fuel m bh n pos off ll st = Ok (pos', off', ll', st') /\
    WInv pos' off' ll' st' done' outs' blk' /\ pos' + off' + ll' = n.
Proof.
  induction fuel as [|fuel IH]; intros pos off ll st done outs blk HI Hf.
  { pose proof HI as (Hin & _). lia. }
  pose proof HI as (Hin & Hd & Hb & Hfn & Hok & HR & HD & Hshort & Hbok & Hcl).
  cbn [wh_loop]. set (q := pos + off + ll) in *.
  destruct (Nat.ltb_spec q n) as [Hlt|Hge].
  2: { exists pos, off, ll, st, done, outs, blk. split; [reflexivity|]. split; [exact HI|unfold q in *; lia]. }
  rewrite rd_at by lia. cbn [bind]. rewrite hw_at by exact Hlt. cbv zeta.
  set (c := nth q hw 0%N).
  set (l0 := if N.eqb c CR then 1 else 0).
  assert (Hl : exists l, (if Nat.ltb (q + l0) n then do c2 <- rd m (bh + (q + l0)); Ok (if N.eqb c2 LF then S l0 else l0) else Ok l0) = Ok l /\
             q + l <= n /\
             ((l = 0 /\ is_eol c = false) \/
              (1 <= l /\ valid_eol (sub hw q l) /\ (sub hw q l = [CR] -> hd_not_lf (skipn (q + l) hw))))).
  { unfold l0. destruct (N.eqb_spec c CR) as [HCR|HnCR].
    - destruct (Nat.ltb_spec (q + 1) n) as [H2|H2].
      + rewrite rd_at by lia. cbn [bind]. rewrite hw_at by exact H2.
        destruct (N.eqb_spec (nth (q + 1) hw 0%N) LF) as [HLF|HnLF].
        * exists 2. split; [reflexivity|]. split; [lia|]. right. split; [lia|].
          rewrite sub2 by lia. fold c. replace (S q) with (q + 1) by lia. rewrite HCR, HLF.
          split; [right; right; reflexivity|discriminate].
        * exists 1. split; [reflexivity|]. split; [lia|]. right. split; [lia|].
          rewrite sub1 by lia. fold c. rewrite HCR. split; [left; reflexivity|].
          intros _. rewrite hw_skip by lia. cbn [hd_not_lf]. exact HnLF.
      + exists 1. split; [reflexivity|]. split; [lia|]. right. split; [lia|].
        rewrite sub1 by lia. fold c. rewrite HCR. split; [left; reflexivity|].
        intros _. rewrite skipn_all' by lia. exact I.
    - replace (q + 0) with q by lia. destruct (Nat.ltb_spec q n) as [_|]; [|lia].
      rewrite rd_at by lia. cbn [bind]. rewrite hw_at by exact Hlt. fold c.
      destruct (N.eqb_spec c LF) as [HLF|HnLF].
      + exists 1. split; [reflexivity|]. split; [lia|]. right. split; [lia|].
        rewrite sub1 by lia. fold c. rewrite HLF. split; [right; left; reflexivity|discriminate].
      + exists 0. split; [reflexivity|]. split; [lia|]. left. split; [reflexivity|].
        unfold is_eol. apply N.eqb_neq in HnCR, HnLF. now rewrite HnCR, HnLF. }
  destruct Hl as (l & El & Hql & Hcase). rewrite El. cbn [bind].
  destruct Hcase as [(Hl0 & Hne)|(Hl1 & Hve & Hnm)].
  - subst l. cbn [Nat.eqb].
    destruct (IH pos off (S ll) st done outs blk) as (p' & o' & l' & st' & d' & os' & b' & E & HI' & Hsum).
    + repeat split; auto; try (unfold q in *; lia).
      intros j Hj. destruct (Nat.eq_dec j q) as [->|]; [exact Hne|apply Hcl; unfold q in *; lia].
    + unfold q in *. lia.
    + exists p', o', l', st', d', os', b'. auto.
  - destruct (Nat.eqb_spec l 0) as [|_]; [lia|].
    destruct (step_eol pos off ll l st done outs blk HI Hl1 ltac:(unfold q in *; lia) Hve Hnm)
      as (p1 & o1 & st1 & d1 & os1 & b1 & E1 & HI1 & Hs1).
    rewrite E1. cbn [bind].
    destruct (IH p1 o1 0 st1 d1 os1 b1 HI1) as (p' & o' & l' & st' & d' & os' & b' & E & HI' & Hsum); [unfold q in *; lia|].
    exists p', o', l', st', d', os', b'. auto.
Qed.

(** the result of wrap_header: [X] is what was written, [t] the open rest of its last line, [c] what
    closes it *)
Definition wh_result (st st' : St) (X t c : bytes) : Prop :=
  outof st' = D0 ++ X /\ wire ext8 X t /\ legal_line ext8 t /\
  (c = [] \/ c = CRLF) /\ (c = [] <-> t = []) /\ (open_line false hw = false -> c = []) /\
  legal_data ext8 (X ++ c) /\ unfolds_to (X ++ c) (stuff (split_lines hw)) = true /\
  (n = 0 -> st' = st) /\ (0 < n -> lastlf st' = true -> t = []).

Lemma stuff_clean l : line_clean l -> line_clean (stuff_line l).
Proof.
  intros H. unfold stuff_line. destruct l as [|c r]; [constructor|]. destruct (N.eqb c DOT); [|exact H].
  constructor; [split; discriminate|exact H].
Qed.

Lemma stuff_nil_iff l : stuff_line l = [] <-> l = [].
Proof. destruct l as [|c r]; [tauto|]. cbn [stuff_line]. destruct (N.eqb c DOT); split; discriminate. Qed.

Theorem wrap_header_spec st : noempty hw -> outof st = D0 ->
  exists st' X t c, wrap_header m bh n st = Ok st' /\ wh_result st st' X t c.
Proof.
  intros Hne HD. unfold wrap_header.
  rewrite (need_recode_ok m bh n Hw). cbn [bind]. fold hw.
  set (fl := nr_fun hw flags0 0 false).
  destruct (nr_fun_facts hw flags0 0 false) as [_ Hlong]. cbv zeta in Hlong. fold fl in Hlong.
  destruct (nr_phase hw H7 flags0 0 false eq_refl) as [_ Hfline]. cbv zeta in Hfline. fold fl in Hfline.
  unfold noempty in Hne. rewrite Hne in Hfline. rewrite skipn_all in Hfline. cbn [fline flags0 orb longrun] in Hfline.
  change (Nat.ltb MAXLINE 0) with false in Hfline.
  unfold flong in Hlong. cbn [fline fhdr flags0 orb] in Hlong. rewrite Hfline in Hlong. cbn [orb] in Hlong.
  rewrite longrun_has_long in Hlong.
  destruct (fhdr fl) eqn:Ehdr; cbn [negb].
  2: { (* no over-long line: the window goes through send_plain as it is *)
    destruct (send_plain_ok m bh n Hw st) as (st' & E & Ho & Hz & Hnz). rewrite E. fold hw in Ho.
    assert (Hmust : must_recode ext8 hw = false).
    { unfold must_recode. rewrite <- Hlong. change (has_8bit hw) with (existsb is8 hw). rewrite H7. now rewrite Bool.andb_false_r. }
    pose proof (plain_data_legal hw ext8 Hmust) as Hleg.
    pose proof (plain_enc_spec hw false) as Hspec. unfold rendering in Hspec.
    set (c := if open_line false hw then CRLF else []) in *.
    assert (Hc : c = [] \/ c = CRLF) by (unfold c; destruct (open_line false hw); auto).
    rewrite <- Hspec in Hleg.
    destruct (wire_of_legal_open ext8 (plain_enc false hw) c Hc Hleg) as (t & Hwt & Hlt & Hct).
    exists st', (plain_enc false hw), t, c. split; [reflexivity|].
    assert (Htc : t = [] -> c = []).
    { intros ->. unfold c. destruct (open_line false hw) eqn:Eo; [|reflexivity]. exfalso.
      (* an open line leaves a non-empty rest: the data does not end in LF *)
      destruct Hwt as (ls & E1 & _ & _). rewrite app_nil_r in E1.
      destruct hw as [|h0 hr] eqn:Ehw; [cbn in Eo; discriminate|].
      pose proof (plain_enc_last (h0 :: hr) false ltac:(discriminate)) as Hlast.
      unfold open_line in Eo. apply Bool.negb_true_iff in Eo. rewrite Eo in Hlast.
      rewrite E1 in Hlast. destruct ls as [|l0 lr] using rev_ind.
      - cbn in E1. exact (plain_enc_nonempty false h0 hr E1).
      - rewrite join_app in Hlast. unfold join_crlf at 2 in Hlast. cbn [map concat] in Hlast. rewrite app_nil_r in Hlast.
        rewrite app_assoc in Hlast. rewrite last_is_lf_app in Hlast by discriminate. discriminate. }
    unfold wh_result. split; [unfold outof; rewrite Ho; fold (outof st); rewrite HD; reflexivity|].
    split; [exact Hwt|]. split; [exact Hlt|]. split; [exact Hc|]. split; [split; assumption|].
    split; [intros Eo; unfold c; now rewrite Eo|]. split; [exact Hleg|]. split; [rewrite Hspec; apply unfolds_refl|].
    split; [exact Hz|]. intros Hn Hl. specialize (Hnz Hn). rewrite Hl in Hnz. symmetry in Hnz.
    apply (wire_last_lf ext8 (plain_enc false hw) t Hwt).
    rewrite Ho in Hnz. rewrite last_is_lf_app in Hnz; [exact Hnz|].
    assert (Hnn : hw <> []) by (intros Ee; pose proof hw_len as Hl2; rewrite Ee in Hl2; cbn in Hl2; lia).
    destruct hw as [|h0 hr]; [contradiction|apply plain_enc_nonempty]. }
  (* the loop over the lines *)
  assert (Hnpos : 0 < n).
  { destruct (Nat.eq_dec n 0) as [Hz0|]; [|lia]. exfalso.
    assert (Hnil : hw = []) by (apply length_zero_iff_nil; rewrite hw_len; exact Hz0).
    unfold fl in Ehdr. rewrite Hnil in Ehdr. cbn in Ehdr. discriminate. }
  destruct (wh_loop_spec (2 * n + 2) 0 0 0 st [] [] []) as (pos & off & ll & st1 & done & outs & blk & E1 & HI & Hsum).
  { repeat split; try constructor; try (cbn; lia). cbn [concat]. rewrite app_nil_r. exact HD. }
  { lia. }
  rewrite E1. cbn [bind].
  pose proof (blk_bytes _ _ _ _ _ _ _ HI) as Hblk.
  destruct HI as (Hin & Hd & Hb & Hfn & Hok & HR & HD1 & Hshort & Hbok & Hcl).
  set (line := sub hw (pos + off) ll).
  assert (Hline : line_clean line) by (apply hw_clean; [lia|exact Hcl]).
  assert (Hlen_line : length line = ll) by (apply sub_length; rewrite hw_len; lia).
  assert (Hsk : skipn (pos + off) hw = line).
  { unfold line. rewrite <- (sub_all_skipn hw (pos + off)). rewrite hw_len. f_equal. lia. }
  assert (Hhw : hw = concat (map item_bytes (done ++ blk)) ++ line).
  { rewrite <- (firstn_skipn (pos + off) hw) at 1. rewrite Hfn, Hsk. reflexivity. }
  rewrite Hsk in Hok.
  pose proof (plain_enc_items (done ++ blk) line Hok) as Hall. rewrite <- Hhw in Hall.
  assert (Hpl : plain_enc false line = stuff_line line).
  { rewrite <- (app_nil_r line) at 1. rewrite plain_enc_clean by exact Hline. cbn [plain_enc]. apply app_nil_r. }
  rewrite Hpl in Hall.
  destruct (rendered_concat ext8 done outs HR) as (Hlegdone & Hunfdone).
  assert (Hbok0 : items_ok blk line) by (apply (items_ok_drop done); exact Hok).
  assert (Hblkleg : Forall2 (rendered ext8) blk (map line_out blk)).
  { apply Forall2_map_r. rewrite Forall_forall in *. intros x Hx. apply rendered_plain.
    - apply Hbok; exact Hx.
    - specialize (Hshort x Hx). unfold SW_LIMIT in Hshort. unfold MAXLINE. apply Nat.lt_succ_r. exact Hshort.
    - intros E8. assert (Hall7 : seven_bit (concat (map item_bytes blk))) by (rewrite <- Hblk; apply hw_seven; exact E8).
      unfold seven_bit in *. rewrite Forall_forall in Hall7 |- *. intros c Hc. apply Hall7.
      apply in_concat. exists (item_bytes x). split; [apply in_map; exact Hx|]. unfold item_bytes. apply in_or_app. left. exact Hc. }
  destruct (rendered_concat ext8 blk (map line_out blk) Hblkleg) as (Hlegblk & Hunfblk).
  pose proof (open_items (done ++ blk) line ltac:(apply Forall_app; split; [|exact Hbok]; clear - Hok; revert Hok; generalize (blk); intros b0; induction done as [|d0 dr IH]; [constructor|]; intros (A & _ & C); constructor; [exact A|apply IH; exact C]) Hline) as Hopen.
  rewrite <- Hhw in Hopen.
  pose proof (plain_enc_spec hw false) as Hspec. unfold rendering in Hspec.
  unfold send_wrapped. destruct (Nat.ltb_spec ll SW_LIMIT) as [Hs|Hlong2].
  - (* the last line is short: block and line go through send_plain *)
    cbn [bind].
    assert (Hw3 : bh + pos + (off + ll + 0 + 0) <= length m) by lia.
    destruct (send_plain_ok m (bh + pos) (off + ll + 0 + 0) Hw3 st1) as (st' & E & Ho & Hz & Hnz). rewrite E.
    rewrite hw_sub in Ho by lia. replace (off + ll + 0 + 0) with (off + ll) in * by lia.
    assert (Hwin : sub hw pos (off + ll) = concat (map item_bytes blk) ++ line).
    { unfold sub. rewrite firstn_add'. fold (sub hw pos off). rewrite Hblk. f_equal. rewrite skipn_skipn'. reflexivity. }
    rewrite Hwin in Ho. rewrite (plain_enc_items blk line Hbok0) in Ho.
    rewrite Hpl in Ho.
    set (t := stuff_line line). set (c := match line with [] => [] | _ => CRLF end).
    set (X := concat outs ++ concat (map line_out blk) ++ t).
    assert (Hlt : legal_line ext8 t).
    { apply legal_stuffed'; [exact Hline|rewrite Hlen_line; unfold SW_LIMIT in Hs; unfold MAXLINE; apply Nat.lt_succ_r; exact Hs|].
      intros E8. apply hw_seven. exact E8. }
    assert (HwX : wire ext8 X t).
    { unfold X. rewrite app_assoc. apply (wire_app ext8 _ [] _ t).
      - apply wire_legal. apply legal_data_app; assumption.
      - cbn [app]. apply wire_open. apply stuff_clean. exact Hline. }
    assert (Hc : c = [] \/ c = CRLF) by (unfold c; destruct line; auto).
    assert (Hct : c = [] <-> t = []).
    { unfold c, t. rewrite stuff_nil_iff. destruct line; split; auto; discriminate. }
    assert (HlegX : legal_data ext8 (X ++ c)).
    { unfold X. rewrite <- !app_assoc. apply legal_data_app; [exact Hlegdone|]. apply legal_data_app; [exact Hlegblk|].
      destruct Hc as [Hc0|Hc1].
      - rewrite Hc0, app_nil_r. rewrite (proj1 Hct Hc0). apply wire_legal, wire_nil.
      - rewrite Hc1. apply wire_legal. apply wire_close. exact Hlt. }
    exists st', X, t, c. split; [reflexivity|]. unfold wh_result.
    split. { unfold outof in *. rewrite Ho, HD1. unfold X. now rewrite <- !app_assoc. }
    split; [exact HwX|]. split; [exact Hlt|]. split; [exact Hc|]. split; [exact Hct|].
    split. { intros Eo. rewrite Eo in Hopen. unfold c. destruct line; [reflexivity|discriminate]. }
    split; [exact HlegX|]. split.
    { rewrite <- Hspec, Hall. rewrite Hopen. unfold X. rewrite map_app, concat_app. rewrite <- !app_assoc.
      apply unfolds_app2; [exact Hunfdone|]. apply unfolds_app2; [exact Hunfblk|]. fold t.
      unfold c. destruct line; apply unfolds_refl. }
    split; [intros Hn0; lia|].
    intros Hn Hl.
    destruct (Nat.eq_dec (off + ll) 0) as [Hz0|Hnz0].
    + (* nothing was left for the final send_plain *)
      unfold t. apply stuff_nil_iff. apply length_zero_iff_nil. rewrite Hlen_line. lia.
    + specialize (Hnz ltac:(lia)). rewrite Hl in Hnz. symmetry in Hnz. rewrite Ho in Hnz.
      apply (wire_last_lf ext8 (concat (map line_out blk) ++ t) t).
      * apply (wire_app ext8 _ [] _ t); [apply wire_legal; exact Hlegblk|cbn [app]; apply wire_open; apply stuff_clean; exact Hline].
      * rewrite last_is_lf_app in Hnz; [exact Hnz|].
        intros Ee. apply app_eq_nil in Ee as [Ea Eb]. unfold t in Eb. apply (proj1 (stuff_nil_iff _)) in Eb.
        assert (Hll0 : ll = 0) by (rewrite <- Hlen_line; apply length_zero_iff_nil; exact Eb).
        assert (off = 0).
        { rewrite <- Hb. destruct blk as [|b0 br]; [reflexivity|]. exfalso. cbn [map concat] in Ea.
          apply app_eq_nil in Ea as [Ea _]. unfold line_out in Ea. apply app_eq_nil in Ea as [_ Ea]. discriminate. }
        lia.
  - (* the last line is over-long: block through send_plain, line through wrap_line *)
    assert (Hw1 : bh + pos + off <= length m) by lia.
    destruct (send_plain_ok m (bh + pos) off Hw1 st1) as (st2 & E2 & Ho2 & _). rewrite E2. cbn [bind].
    assert (Hw2 : bh + (pos + off) + ll <= length m) by lia.
    destruct (wrap_line_ok m (bh + (pos + off)) ll Hw2 st2) as (st3 & fs & E3 & Hcat & _ & Hflen & (f0 & fr & Efs & Hf0) & Ho3 & Hlf3).
    { unfold WL_LONG, SW_LIMIT in *. lia. }
    rewrite E3. cbn [bind]. rewrite Nat.eqb_refl. cbn [negb bind].
    unfold send_plain. replace (0 + 0) with 0 by lia. cbn [Nat.eqb].
    rewrite hw_sub in Ho2 by lia. rewrite Hblk in Ho2.
    pose proof (plain_enc_items blk [] (items_ok_nil _ _ Hbok0)) as Hpe. rewrite app_nil_r in Hpe. cbn [plain_enc] in Hpe. rewrite app_nil_r in Hpe.
    rewrite Hpe in Ho2. rewrite hw_sub in Hcat by lia. fold line in Hcat.
    assert (Hline_ne : line <> []) by (intros Ee; rewrite Ee in Hlen_line; cbn in Hlen_line; unfold SW_LIMIT in Hlong2; lia).
    set (X := concat outs ++ concat (map line_out blk) ++ render_frags fs).
    assert (Hfleg : legal_data ext8 (render_frags fs)).
    { apply frags_legal; [rewrite Hcat; exact Hline|intros E8; rewrite Hcat; apply hw_seven; exact E8|exact Hflen|rewrite Efs; discriminate]. }
    assert (HlegX : legal_data ext8 X).
    { unfold X. apply legal_data_app; [exact Hlegdone|]. apply legal_data_app; assumption. }
    exists st3, X, [], []. split; [reflexivity|]. unfold wh_result.
    split. { unfold outof in *. rewrite Ho3, Ho2, HD1. unfold X. now rewrite <- !app_assoc. }
    split; [apply wire_legal; exact HlegX|]. split; [repeat split; try constructor; try discriminate; cbn; lia|].
    split; [left; reflexivity|]. split; [tauto|]. split; [reflexivity|]. rewrite app_nil_r.
    split; [exact HlegX|]. split.
    { rewrite <- Hspec, Hall, Hopen. destruct line as [|l0 lr] eqn:El; [contradiction|]. rewrite <- El in *.
      unfold X. rewrite map_app, concat_app. rewrite <- !app_assoc.
      apply unfolds_app2; [exact Hunfdone|]. apply unfolds_app2; [exact Hunfblk|].
      rewrite <- Hcat, Efs. apply frags_unfold. exact Hf0. }
    split; [intros Hn0; lia|]. reflexivity.
Qed.

End Header.

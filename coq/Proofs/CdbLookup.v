(** Lookup correctness: on a well-formed constant database cdb_seekmm() returns the value of the first
    record with the key, and "not found" (NULL, errno 0) exactly when there is none. *)
From Qv Require Import Common.Bytes Gen.GenCdb Model.Cdb Spec.CdbSpec Proofs.CdbSafe Proofs.CdbBytes.

Lemma hash_ascii : forall k h, ascii_key k -> cdb_hash_from h k = std_hash_from h k.
Proof.
  induction k as [|c k IH]; intros h A; [reflexivity|]. inversion A as [|x y Hc A']; subst.
  cbn [cdb_hash_from std_hash_from]. unfold sx. destruct (c <? 128)%N eqn:E; [|apply N.ltb_ge in E; lia].
  unfold CDB_SHIFT. now apply IH.
Qed.
Lemma cdb_hash_std k : ascii_key k -> cdb_hash k = std_hash k.
Proof. intros A. unfold cdb_hash, std_hash, CDB_HASHSTART. now apply hash_ascii. Qed.

Lemma std_hash_from_lt : forall k h, (h < M32 -> Forall (fun b => b < 256) k -> std_hash_from h k < M32)%N.
Proof.
  induction k as [|c k IH]; intros h H A; [exact H|]. inversion A as [|x y Hc A']; subst.
  cbn [std_hash_from]. apply IH; [|exact A'].
  unfold u32, M32. change 4294967296%N with (2 ^ 32)%N.
  destruct (N.lxor ((h + N.shiftl h 5) mod 2 ^ 32) c) as [|p] eqn:E; [reflexivity|]. rewrite <- E.
  apply N.log2_lt_pow2; [rewrite E; reflexivity|].
  eapply N.le_lt_trans; [apply N.log2_lxor|].
  apply N.max_lub_lt.
  - destruct ((h + N.shiftl h 5) mod 2 ^ 32)%N eqn:E2; [reflexivity|]. rewrite <- E2. apply N.log2_lt_pow2; [rewrite E2; reflexivity|].
    apply N.mod_lt. discriminate.
  - destruct c as [|pc]; [reflexivity|]. apply N.log2_lt_pow2; [reflexivity|]. change (2 ^ 32)%N with 4294967296%N. lia.
Qed.

(** index of the first record with key k *)
Fixpoint first_idx (recs : list (bytes * bytes)) (k : bytes) : option nat :=
  match recs with
  | [] => None
  | kv :: r => if bytes_eqb (fst kv) k then Some 0 else match first_idx r k with Some i => Some (S i) | None => None end
  end.

Lemma first_idx_some recs k i : first_idx recs k = Some i ->
  i < length recs /\ key_of recs i = k /\ forall j, j < i -> key_of recs j <> k.
Proof.
  revert i. induction recs as [|kv r IH]; intros i H; simpl in H; [discriminate|].
  destruct (bytes_eqb (fst kv) k) eqn:E.
  - inversion H; subst. apply bytes_eqb_eq in E. simpl. repeat split; [lia|exact E|]. intros j Hj. lia.
  - destruct (first_idx r k) as [i'|] eqn:F; [|discriminate]. inversion H; subst.
    destruct (IH _ eq_refl) as [A [B C]]. simpl. repeat split; [lia|exact B|].
    intros [|j] Hj; unfold key_of; simpl.
    + intros Q. apply bytes_eqb_eq in Q. congruence.
    + apply C. lia.
Qed.

Lemma first_idx_none recs k : first_idx recs k = None -> forall i, i < length recs -> key_of recs i <> k.
Proof.
  induction recs as [|kv r IH]; intros H i Hi; simpl in *; [lia|].
  destruct (bytes_eqb (fst kv) k) eqn:E; [discriminate|].
  destruct (first_idx r k) eqn:F; [discriminate|].
  destruct i as [|i]; unfold key_of; simpl.
  - intros Q. apply bytes_eqb_eq in Q. congruence.
  - apply IH; [reflexivity|lia].
Qed.

Lemma first_idx_lookup recs k :
  lookup recs k = match first_idx recs k with Some i => Some (snd (nth i recs ([], []))) | None => None end.
Proof.
  unfold lookup. induction recs as [|kv r IH]; simpl; [reflexivity|].
  destruct (bytes_eqb (fst kv) k); [reflexivity|].
  destruct (first_idx r k); exact IH.
Qed.

Lemma probe_lt n st : st < n -> forall d, probe n st d < n.
Proof.
  intros H. induction d as [|d IH]; simpl; [exact H|]. unfold nxt.
  destruct (S (probe n st d) =? n) eqn:E; [lia|]. apply Nat.eqb_neq in E. unfold probe in *. lia.
Qed.

Section Walk.
  Variable f : bytes.
  Variable recs : list (bytes * bytes).
  Variable ps : list N.
  Variable k : bytes.
  Variable tp : N.
  Variable sl : list islot.
  Local Notation size := (N.of_nat (length f)).
  Local Notation hs := (map (fun kv => std_hash (fst kv)) recs).
  Local Notation n := (length sl).
  Local Notation len := (N.of_nat (length k)).
  Local Notation h := (std_hash k).
  Local Notation st := (start_slot h n).

  Variable Hsmall : (size < M32)%N.
  Variable Hbytes : Forall (fun b => (b < 256)%N) f.
  Variable Hlen : length ps = length recs.
  Variable Hrec : forall i, i < length recs ->
       (0 < nth i ps 0)%N /\ has f (nth i ps 0%N) (ser_rec (nth i recs ([], []))).
  Variable Htab : has f tp (concat (map (ser_islot hs ps) sl)).
  Variable Hok : table_ok recs (h mod 256) sl.
  Variable Hascii : ascii_key k.
  Variable Hn : 0 < n.

  Definition result : seek :=
    match first_idx recs k with
    | Some i => SFound (nth i ps 0 + 8 + len)%N
    | None => SNone 0
    end.

  Lemma st_lt : st < n.
  Proof.
    unfold start_slot. pose proof (N.mod_lt (h / 256) (N.of_nat n)). lia.
  Qed.

  Lemma hs_nth j : j < length recs -> nth j hs 0%N = hash_of recs j.
  Proof.
    intros H. unfold hash_of, key_of.
    rewrite (nth_indep _ 0%N (std_hash (fst (@nil N, @nil N)))) by (rewrite map_length; exact H).
    now rewrite (map_nth (fun kv => std_hash (fst kv))).
  Qed.

  (** a record with the key sits in this table *)
  Lemma key_chain i : i < length recs -> key_of recs i = k -> chain recs sl i.
  Proof.
    intros Hi E. apply Hok; [exact Hi|]. unfold hash_of. now rewrite E.
  Qed.

  Lemma chain_start i : key_of recs i = k -> start_slot (hash_of recs i) (length sl) = st.
  Proof. intros E. unfold hash_of. now rewrite E. Qed.

  Definition inv (d : nat) : Prop :=
    forall d', d' < d -> exists j, nth (probe n st d') sl None = Some j /\ key_of recs j <> k.

  (** no record has the key when the walk ends without a match at step d *)
  Lemma no_key_if d : d <= n -> inv d -> (d < n -> nth (probe n st d) sl None = None) ->
    first_idx recs k = None.
  Proof.
    intros Hd I E. destruct (first_idx recs k) as [i|] eqn:F; [|reflexivity]. exfalso.
    destruct (first_idx_some _ _ _ F) as [Hi [Ek _]].
    destruct (key_chain i Hi Ek) as [d0 [D0 [S0 C0]]]. rewrite (chain_start i Ek) in *.
    destruct (Nat.lt_trichotomy d0 d) as [L|[L|L]].
    - destruct (I d0 L) as [j [Sj Nj]]. rewrite S0 in Sj. inversion Sj; subst. contradiction.
    - subst d0. rewrite E in S0 by lia. discriminate.
    - destruct (C0 d L) as [j [Sj _]]. rewrite E in Sj by lia. discriminate.
  Qed.

  Lemma found_is_first d j : d < n -> inv d -> nth (probe n st d) sl None = Some j -> key_of recs j = k ->
    j < length recs -> first_idx recs k = Some j.
  Proof.
    intros Hd I Sj Ej Hj. destruct (first_idx recs k) as [i|] eqn:F.
    - destruct (first_idx_some _ _ _ F) as [Hi [Ek Min]].
      destruct (key_chain i Hi Ek) as [d0 [D0 [S0 C0]]]. rewrite (chain_start i Ek) in *.
      destruct (Nat.lt_trichotomy d0 d) as [L|[L|L]].
      + destruct (I d0 L) as [j' [Sj' Nj']]. rewrite S0 in Sj'. inversion Sj'; subst. contradiction.
      + subst d0. rewrite S0 in Sj. now inversion Sj.
      + destruct (C0 d L) as [j' [Sj' Lt]]. rewrite Sj in Sj'. inversion Sj'; subst j'.
        assert (j < i) by (apply Lt; congruence). exfalso. apply (Min j); assumption.
    - exfalso. apply (first_idx_none _ _ F j Hj). exact Ej.
  Qed.

  Lemma walk_correct : forall fuel d, fuel + d = n -> inv d ->
    walk f size k len h tp (N.of_nat n) fuel (N.of_nat (probe n st d)) = Ok result.
  Proof.
    induction fuel as [|fuel IH]; intros d Hd I.
    - cbn [walk]. unfold result. rewrite (no_key_if d); [reflexivity|lia|exact I|lia].
    - cbn [walk]. pose proof (probe_lt n st st_lt d) as PL. set (s := probe n st d) in *.
      assert (NX : (if (N.of_nat s + 1 =? N.of_nat n)%N then 0%N else (N.of_nat s + 1)%N) = N.of_nat (probe n st (S d))).
      { simpl. fold s. unfold nxt. destruct (S s =? n) eqn:E.
        - apply Nat.eqb_eq in E. replace (N.of_nat s + 1 =? N.of_nat n)%N with true; [reflexivity|]. symmetry. apply N.eqb_eq. lia.
        - apply Nat.eqb_neq in E. replace (N.of_nat s + 1 =? N.of_nat n)%N with false; [lia|]. symmetry. apply N.eqb_neq. lia. }
      rewrite NX.
      pose proof (has_concat8 f (ser_islot hs ps) None sl tp s) as HS.
      specialize (HS ltac:(intros [x|]; reflexivity) Htab PL).
      destruct (nth s sl None) as [j|] eqn:Sj.
      + (* occupied slot *)
        destruct Hok as [OkA _]. destruct (OkA s j Sj) as [Hj Ht].
        destruct (Hrec j Hj) as [Ppos Prec]. cbn [ser_islot] in HS.
        pose proof (has_app_l _ _ _ _ HS) as HSh. pose proof (has_app_r _ _ _ _ HS) as HSp.
        rewrite le32_length in HSp. change (N.of_nat 4) with 4%N in HSp.
        set (pj := nth j ps 0%N) in *.
        assert (PB : (pj + 8 + N.of_nat (length (key_of recs j)) + N.of_nat (length (snd (nth j recs ([], [])))) <= size)%N).
        { destruct Prec as [B _]. unfold ser_rec in B. rewrite !app_length, !le32_length in B. unfold key_of. lia. }
        rewrite (unpack_has f _ pj HSp) by lia. cbn [bind].
        destruct (pj =? 0)%N eqn:E0; [apply N.eqb_eq in E0; lia|].
        rewrite hs_nth in HSh by exact Hj.
        assert (HB : (hash_of recs j < M32)%N).
        { unfold hash_of, std_hash. apply std_hash_from_lt; [reflexivity|].
          pose proof Prec as Q. unfold ser_rec in Q. apply has_app_r in Q. apply has_app_r in Q. apply has_app_l in Q.
          destruct Q as [_ Q]. unfold key_of. rewrite <- Q. now apply Forall_sub. }
        rewrite (unpack_has f _ _ HSh HB). cbn [bind].
        assert (NEXT : key_of recs j <> k ->
                 walk f size k len h tp (N.of_nat n) fuel (N.of_nat (probe n st (S d))) = Ok result).
        { intros NK. apply IH; [lia|]. intros d' Hd'. destruct (Nat.eq_dec d' d) as [->|ND].
          - exists j. fold s. now split.
          - apply I. lia. }
        destruct (hash_of recs j =? h)%N eqn:EH.
        2:{ apply NEXT. intros Q. apply N.eqb_neq in EH. apply EH. unfold hash_of. now rewrite Q. }
        replace (size <? pj)%N with false by (symmetry; apply N.ltb_ge; lia).
        replace (size - pj <? 8)%N with false by (symmetry; apply N.ltb_ge; lia). cbn [orb].
        unfold ser_rec in Prec. fold (key_of recs j) in Prec.
        pose proof (has_app_l _ _ _ _ Prec) as R1. pose proof (has_app_r _ _ _ _ Prec) as R2.
        pose proof (has_app_l _ _ _ _ R2) as R3. pose proof (has_app_r _ _ _ _ R2) as R4.
        pose proof (has_app_l _ _ _ _ R4) as R5.
        rewrite le32_length in R2. rewrite le32_length in R3. rewrite !le32_length in R4. rewrite !le32_length in R5.
        change (N.of_nat 4) with 4%N in *.
        rewrite (unpack_has f _ _ R1) by lia. cbn [bind].
        destruct (N.of_nat (length (key_of recs j)) =? len)%N eqn:EL.
        2:{ apply NEXT. intros Q. apply N.eqb_neq in EL. apply EL. now rewrite Q. }
        apply N.eqb_eq in EL. assert (EL' : length (key_of recs j) = length k) by lia.
        rewrite (unpack_has f _ _ R3) by lia. cbn [bind].
        replace (size - pj - 8 <? len)%N with false by (symmetry; apply N.ltb_ge; lia).
        replace (size - pj - 8 - len <? N.of_nat (length (snd (nth j recs ([], [])))))%N with false
          by (symmetry; apply N.ltb_ge; lia). cbn [orb].
        rewrite Nat2N.id. replace (pj + 4 + 4)%N with (pj + 8)%N in R5 by lia.
        rewrite (strncmp_has f (key_of recs j) k (pj + 8) R5 EL').
        2:{ eapply Forall_impl; [|exact Hascii]. simpl. intros a Ha. lia. }
        cbn [bind]. destruct (bytes_eqb (key_of recs j) k) eqn:EK.
        * apply bytes_eqb_eq in EK. unfold result. rewrite (found_is_first d j); try assumption; [reflexivity|lia].
        * apply NEXT. intros Q. apply bytes_eqb_eq in Q. congruence.
      + (* empty slot *)
        cbn [ser_islot] in HS. pose proof (has_app_r _ _ _ _ HS) as HSp.
        rewrite le32_length in HSp. change (N.of_nat 4) with 4%N in HSp.
        rewrite (unpack_has f _ 0%N HSp) by reflexivity. cbn [bind]. change (0 =? 0)%N with true. cbv iota.
        unfold result. rewrite (no_key_if d); [reflexivity|lia|exact I|]. intros _. exact Sj.
  Qed.
End Walk.

Lemma land_tabmask h : N.land h CDB_TABMASK = (h mod 256)%N.
Proof. unfold CDB_TABMASK. change 255%N with (N.ones 8). rewrite N.land_ones. reflexivity. Qed.

Theorem cdb_lookup_correct f recs k : cdb_wf f recs -> ascii_key k ->
  match lookup recs k with
  | Some v => exists off, cdb_seekmm f k = Ok (SFound off) /\ has f off v /\ (N.of_nat (length k) + 8 <= off)%N
  | None => cdb_seekmm f k = Ok (SNone 0%N)
  end.
Proof.
  intros [Hsmall [Hbytes [ps [tbls [Hlen [Htl [Hrec Htab]]]]]]] Hascii.
  assert (R : cdb_seekmm f k = Ok (result recs ps k)).
  { unfold cdb_seekmm. rewrite (cdb_hash_std k Hascii). rewrite land_tabmask.
    set (h := std_hash k). set (t := N.to_nat (h mod 256)).
    assert (Tlt : t < 256). { unfold t. pose proof (N.mod_lt h 256). lia. }
    assert (Tof : (h mod 256 = N.of_nat t)%N) by (unfold t; lia).
    rewrite Tof.
    destruct (Htab 255 ltac:(lia)) as [[HB _] _]. rewrite app_length, !le32_length in HB.
    destruct (Htab t Tlt) as [Hhdr [Htb Hok]].
    set (tp := fst (nth t tbls (0%N, []))) in *. set (sl := snd (nth t tbls (0%N, []))) in *.
    replace (N.of_nat (length f) =? 0)%N with false by (symmetry; apply N.eqb_neq; lia).
    replace (N.of_nat (length f) <? CDB_HDR)%N with false by (symmetry; apply N.ltb_ge; unfold CDB_HDR; lia).
    pose proof (has_app_l _ _ _ _ Hhdr) as H1. pose proof (has_app_r _ _ _ _ Hhdr) as H2.
    rewrite le32_length in H2. change (N.of_nat 4) with 4%N in H2.
    assert (TB : (tp + 8 * N.of_nat (length sl) <= N.of_nat (length f))%N).
    { destruct Htb as [B _]. rewrite (length_concat8 _ (ser_islot _ ps)) in B by (intros [x|]; reflexivity). lia. }
    rewrite (unpack_has f _ _ H2) by lia. cbn [bind].
    destruct (N.of_nat (length sl) =? 0)%N eqn:E0.
    - (* no slots: no record can have the key *)
      apply N.eqb_eq in E0. unfold result. destruct (first_idx recs k) as [i|] eqn:F; [|reflexivity]. exfalso.
      destruct (first_idx_some _ _ _ F) as [Hi [Ek _]]. destruct Hok as [_ OkB].
      destruct (OkB i Hi) as [d [D _]]; [unfold hash_of; rewrite Ek; fold h; exact Tof|]. lia.
    - apply N.eqb_neq in E0.
      rewrite (unpack_has f _ _ H1) by lia. cbn [bind].
      replace (N.of_nat (length f) <? tp)%N with false by (symmetry; apply N.ltb_ge; lia).
      replace ((N.of_nat (length f) - tp) / 8 <? N.of_nat (length sl))%N with false.
      2:{ symmetry. apply N.ltb_ge. apply N.div_le_lower_bound; lia. }
      cbn [orb]. rewrite Nat2N.id.
      replace (N.shiftr h CDB_HSHIFT mod N.of_nat (length sl))%N with (N.of_nat (probe (length sl) (start_slot h (length sl)) 0)).
      2:{ unfold CDB_HSHIFT. rewrite N.shiftr_div_pow2. change (2 ^ 8)%N with 256%N.
          change (probe (length sl) (start_slot h (length sl)) 0) with (start_slot h (length sl)). unfold start_slot. apply N2Nat.id. }
      apply walk_correct; try assumption; try lia.
      + fold h. rewrite Tof. exact Hok.
      + intros d' Hd'. lia. }
  rewrite first_idx_lookup. unfold result in R. destruct (first_idx recs k) as [i|] eqn:F; [|exact R].
  destruct (first_idx_some _ _ _ F) as [Hi [Ek _]]. destruct (Hrec i Hi) as [_ Prec].
  eexists. split; [exact R|]. unfold ser_rec in Prec.
  apply has_app_r in Prec. apply has_app_r in Prec. apply has_app_r in Prec. rewrite !le32_length in Prec.
  unfold key_of in Ek. rewrite Ek in Prec. change (N.of_nat 4) with 4%N in Prec.
  replace (nth i ps 0 + 8 + N.of_nat (length k))%N with (nth i ps 0 + 4 + 4 + N.of_nat (length k))%N by lia.
  split; [exact Prec|lia].
Qed.

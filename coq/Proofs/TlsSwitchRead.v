(** C18 proofs, part 1: the line reader with its two ways of ending (Model/TlsSwitch.v:
    read_loop2, net_read2) is the reader of C05 (Model/NetRead.v) with the end of the
    stream told apart, so the stream lemma of C05 carries over; a reset leaves nothing
    behind. *)
From Qv Require Import Common.Bytes Gen.GenNetio Gen.GenStarttls Model.NetRead Spec.LineSpec Proofs.NetReadProofs Model.TlsClient.

Definition erase (it : ritem) : item :=
  match it with
  | RLine l => Line l
  | RInval => Einval
  | R2big => E2big
  | RReset | RDie => Dead
  | RStuck => NetRead.Stuck
  end.

Lemma read_loop2_erase fuel : forall buf e,
  read_loop fuel buf e = (erase (fst (read_loop2 fuel buf e)), snd (read_loop2 fuel buf e)).
Proof.
  induction fuel as [|fuel IH]; intros buf e; cbn [read_loop read_loop2]; [reflexivity|].
  destruct (readinput e (LINEINBUF - length buf)) as [[d e1]|]; [|reflexivity].
  destruct (find_eol (buf ++ d)) as [p valid].
  set (retry := match p with Some p' => _ | None => false end).
  destruct (if retry then None else p) as [p'|].
  - destruct valid; [reflexivity|].
    destruct (Nat.eqb p' (LINEINBUF - 1) && N.eqb (nth (p' - 1) (buf ++ d) 0%N) CR); [|reflexivity].
    destruct (loop_long (S (length (rest e1))) e1 true) as [[i|] e2]; reflexivity.
  - destruct (Nat.ltb (length (buf ++ d)) (LINEINBUF - 1)); [apply IH|].
    destruct (loop_long (S (length (rest e1))) e1 false) as [[i|] e2]; reflexivity.
Qed.

Lemma net_read2_erase s :
  net_read s = (erase (fst (net_read2 s)), snd (net_read2 s)).
Proof.
  unfold net_read, net_read2. destruct (inn s) as [|x r] eqn:Ei.
  - apply read_loop2_erase.
  - destruct (find_eol (x :: r)) as [p valid]. destruct p as [p|]; [|apply read_loop2_erase].
    destruct valid; [reflexivity|].
    destruct (N.eqb (nth (p - 1) (x :: r) 0%N) CR && Nat.eqb p (length (x :: r))); [apply read_loop2_erase|reflexivity].
Qed.

Lemma net_read2_spec s it s' :
  length (inn s) <= LINEINBUF - 1 ->
  net_read2 s = (it, s') ->
  item_ok (total s) (erase it) s' /\ length (inn s') <= LINEINBUF - 1.
Proof.
  intros Hl H. apply (net_read_spec s (erase it) s' Hl).
  rewrite net_read2_erase, H. reflexivity.
Qed.

(** a reset: the buffer is empty and the stream exhausted *)
Lemma next_segment_none f : next_segment f = None -> concat f = [].
Proof.
  induction f as [|c f IH]; simpl; [reflexivity|].
  destruct c; [exact IH|discriminate].
Qed.

Lemma readinput_none e len : readinput e len = None -> rest e = [].
Proof.
  unfold readinput, rest. destruct (cur e) as [|b c] eqn:Ec.
  - destruct (next_segment (future e)) as [[c f]|] eqn:En; [discriminate|].
    intros _. simpl. now apply next_segment_none.
  - discriminate.
Qed.

(** loop_long() gives up only when the stream is used up *)
Lemma loop_long_none fuel : forall e hc e', length (rest e) < fuel ->
  loop_long fuel e hc = (None, e') -> rest e' = [].
Proof.
  pose proof LB as HLB.
  induction fuel as [|fuel IH]; intros e hc e' Hf H; [inversion Hf|]. cbn [loop_long] in H.
  destruct (readinput e LINEINBUF) as [[b e1]|] eqn:Er.
  2:{ inversion H; subst. eapply readinput_none; eassumption. }
  destruct (readinput_spec _ _ _ _ Er) as (Hrest & _ & Hne).
  assert (Hb : b <> []) by (apply Hne; lia).
  assert (Hr1 : length (rest e1) < fuel).
  { apply (f_equal (@length _)) in Hrest. rewrite app_length in Hrest. destruct b; [congruence|simpl in Hrest; lia]. }
  destruct (hc && N.eqb (nth 0 b 0%N) LF); [discriminate|].
  destruct (find_eol b) as [p valid]. destruct p as [p|]; [|eapply IH; eassumption].
  destruct (negb valid && Nat.eqb p (length b) && N.eqb (nth (p - 1) b 0%N) CR); [eapply IH; eassumption|discriminate].
Qed.

(** whichever way loop_long() reads (Gen: [ST_LOOPLONG_PASSES_FATAL]), a reset behind it leaves the state of a reset *)
Lemma long_end_is_reset e2 s' : (long_end, {| inn := []; en := e2 |}) = (RReset, s') -> s' = {| inn := []; en := e2 |}.
Proof. unfold long_end. destruct ST_LOOPLONG_PASSES_FATAL; intros H; inversion H; subst. reflexivity. Qed.

Lemma read_loop2_reset fuel : forall buf e s',
  read_loop2 fuel buf e = (RReset, s') -> inn s' = [] /\ rest (en s') = [].
Proof.
  induction fuel as [|fuel IH]; intros buf e s' H; cbn [read_loop2] in H; [discriminate|].
  destruct (readinput e (LINEINBUF - length buf)) as [[d e1]|] eqn:Er.
  2:{ inversion H; subst. simpl. split; [reflexivity|]. eapply readinput_none; eassumption. }
  destruct (find_eol (buf ++ d)) as [p valid].
  set (retry := match p with Some p' => _ | None => false end) in H.
  destruct (if retry then None else p) as [p'|].
  - destruct valid; [discriminate|].
    destruct (Nat.eqb p' (LINEINBUF - 1) && N.eqb (nth (p' - 1) (buf ++ d) 0%N) CR); [|discriminate].
    destruct (loop_long (S (length (rest e1))) e1 true) as [[i|] e2] eqn:El; [discriminate|].
    apply long_end_is_reset in H. subst s'. cbn [inn en]. split; [reflexivity|].
    eapply loop_long_none; [|exact El]. lia.
  - destruct (Nat.ltb (length (buf ++ d)) (LINEINBUF - 1)); [eapply IH; eassumption|].
    destruct (loop_long (S (length (rest e1))) e1 false) as [[i|] e2] eqn:El; [discriminate|].
    apply long_end_is_reset in H. subst s'. cbn [inn en]. split; [reflexivity|].
    eapply loop_long_none; [|exact El]. lia.
Qed.

Lemma net_read2_reset s s' :
  net_read2 s = (RReset, s') -> inn s' = [] /\ rest (en s') = [].
Proof.
  unfold net_read2. destruct (inn s) as [|x r] eqn:Ei.
  - apply read_loop2_reset.
  - destruct (find_eol (x :: r)) as [p valid]. destruct p as [p|]; [|apply read_loop2_reset].
    destruct valid; [discriminate|].
    destruct (N.eqb (nth (p - 1) (x :: r) 0%N) CR && Nat.eqb p (length (x :: r))); [apply read_loop2_reset|discriminate].
Qed.

(** is_authenticated() of the session model ([relay_decide], [subm_gate], [tls_verify] of Model/Session.v): the facts every sweep
    over the handlers needs.  It changes nothing of the state but relayclient, xmitstat.tlsclient and ssl_verified, and what it
    emits is a reply (421, 454), the end of the connection, or the ghost note of an accepted certificate. *)
From Qv Require Import Common.Bytes Gen.GenNetio Gen.GenSession Model.NetRead Model.Session.

(** everything but relayclient / tlsclient / ssl_verified *)
Definition same_core (s s1 : sstate) : Prop :=
  rd s1 = rd s /\ comstate s1 = comstate s /\ esmtp s1 = esmtp s /\ helostr s1 = helostr s /\ mailfrom s1 = mailfrom s
  /\ rcpts s1 = rcpts s /\ rcptcount s1 = rcptcount s /\ goodrcpt s1 = goodrcpt s /\ badcmds s1 = badcmds s
  /\ thisbytes s1 = thisbytes s /\ qcount s1 = qcount s /\ check2822 s1 = check2822 s /\ datatype s1 = datatype s
  /\ authname s1 = authname s.

Lemma same_core_refl s : same_core s s.
Proof. unfold same_core. repeat split. Qed.

Definition pre_ev (e : event) : bool := match e with Reply _ | Closed | Note (NCert _) => true | _ => false end.
Definition pre_ok (evs : list event) : Prop := forallb pre_ev evs = true.

Section RD.
Variable o : oracles.

Lemma tls_verify_core s r s2 : tls_verify o s = (r, s2) -> same_core s s2 /\ relayclient s2 = relayclient s /\ tlsclient s2 = tlsclient s.
Proof.
  unfold tls_verify. destruct (negb (o_tls o) || ssl_verified s || authed_client s); intros H; inversion H; subst;
    (split; [apply same_core_refl || (unfold same_core; repeat split)|split; reflexivity]).
Qed.

Lemma relay_decide_core s cls res s1 pre : relay_decide o s cls = (res, s1, pre) -> same_core s s1 /\ pre_ok pre.
Proof.
  unfold relay_decide. destruct cls; [intros H; inversion H; subst; split; [apply same_core_refl|reflexivity]|].
  destruct (authed_client s); [intros H; inversion H; subst; split; [apply same_core_refl|reflexivity]|].
  set (p := if N.eqb (relayclient s) 0 then _ else _).
  assert (Hp : same_core s (snd p)) by (unfold p; destruct (N.eqb (relayclient s) 0); cbn [snd]; [unfold same_core; repeat split|apply same_core_refl]).
  destruct p as [lerr sa]. cbn [snd] in Hp.
  destruct lerr; [intros H; inversion H; subst; split; [exact Hp|reflexivity]|].
  destruct (N.eqb (N.land (relayclient sa) 1) 0); [|intros H; inversion H; subst; split; [exact Hp|reflexivity]].
  destruct (tls_verify o sa) as [r s2] eqn:Ev. destruct (tls_verify_core _ _ _ Ev) as (Hc & _ & _).
  assert (Hc2 : same_core s s2).
  { unfold same_core in *. intuition congruence. }
  destruct r as [[|name|w h]|]; intros H; inversion H; subst; (split; [try exact Hc2|]); try reflexivity.
  unfold pre_ok. destruct w, h; reflexivity.
Qed.

(** an error result is an error code: never "no error" *)
Lemma relay_decide_fail s cls h s1 pre : relay_decide o s cls = (RD_fail h, s1, pre) -> h <> H0.
Proof.
  unfold relay_decide. destruct cls; [discriminate|].
  destruct (authed_client s); [discriminate|].
  destruct (if N.eqb (relayclient s) 0 then _ else _) as [lerr sa].
  destruct lerr; [intros H; inversion H; discriminate|].
  destruct (N.eqb (N.land (relayclient sa) 1) 0); [|discriminate].
  destruct (tls_verify o sa) as [r s2]. destruct r as [[|name|w h0]|]; try discriminate.
  intros H; inversion H. destruct h0; discriminate.
Qed.
Lemma subm_gate_fail s h s1 pre : subm_gate o s = (RD_fail h, s1, pre) -> h <> H0.
Proof. unfold subm_gate. destruct (o_submission o); [apply relay_decide_fail|discriminate]. Qed.

Lemma subm_gate_core s res s1 pre : subm_gate o s = (res, s1, pre) -> same_core s s1 /\ pre_ok pre.
Proof.
  unfold subm_gate. destruct (o_submission o); [apply relay_decide_core|].
  intros H; inversion H; subst. split; [apply same_core_refl|reflexivity].
Qed.

End RD.

(** C11, stage 1: the evaluation core of qsmtpd/spf.c.
    For every resolver [D], session [X] and macro expander [makro]:
    termination, the bound on evaluated DNS querying terms, the result set,
    and the cleanliness of xmitstat.spfexp as an invariant. *)
From Coq Require Import Lia ZifyBool ZifyN.
From Qv Require Import Common.Bytes Gen.GenSpf Model.SpfBase Model.SpfEnv Model.SpfMacro Model.Spf Spec.SpfSpec
  Proofs.SpfSanitise.
Local Open Scope N_scope.

Ltac codes := unfold SPF_NONE, SPF_PASS, SPF_NEUTRAL, SPF_SOFTFAIL, SPF_FAIL, SPF_PERMERROR, SPF_TEMPERROR,
  SPF_DNS_HARD_ERROR, SPF_IGNORE in *.
Ltac limits := unfold SPF_TERM_LIMIT, SPF_INCLUDE_KEEP_FAIL in *.

(** membership in a list of codes, as a computation *)
Definition okcode (l : list Z) (r : Z) : Prop := existsb (Z.eqb r) l = true.

Lemma okcode_sub l l' r : (forall x, In x l -> In x l') -> okcode l r -> okcode l' r.
Proof.
  unfold okcode. intros H E. apply existsb_exists in E as [x [I Ex]]. apply existsb_exists.
  exists x. split; [apply H, I|exact Ex].
Qed.
Lemma okcode_in l r : okcode l r -> In r l.
Proof. unfold okcode. intros E. apply existsb_exists in E as [x [I Ex]]. apply Z.eqb_eq in Ex. subst. exact I. Qed.

(* ------------------------------------------------------------------ the log *)
Lemma count_terms_app l1 l2 : count_terms (l1 ++ l2) = (count_terms l1 + count_terms l2)%nat.
Proof. unfold count_terms. rewrite filter_app, app_length. reflexivity. Qed.
Lemma count_terms_EQ qs : count_terms (map EQ qs) = 0%nat.
Proof. induction qs as [|q qs IH]; [reflexivity|exact IH]. Qed.

(* ------------------------------------------------------------------ the invariant *)
Definition mech_ok (m : option bytes) : Prop := match m with Some s => sess_text s = true | None => True end.

Definition P (g : gst) : Prop :=
  (count_terms (g_log g) <= g_q g)%nat /\ (count_terms (g_log g) <= SPF_TERM_LIMIT)%nat
  /\ exp_ok (g_exp g) = true /\ mech_ok (g_mech g).

Lemma P_addq g qs : P g -> P (g_addq g qs).
Proof.
  unfold P, g_addq; simpl. rewrite count_terms_app, count_terms_EQ. intros (A & B & C & E).
  repeat split; auto; lia.
Qed.
Lemma P_setexp g e : exp_ok e = true -> P g -> P (g_setexp g e).
Proof. unfold P, g_setexp; simpl. intros H (A & B & C & E). repeat split; auto. Qed.
Lemma P_setmech g m : mech_ok m -> P g -> P (g_setmech g m).
Proof. unfold P, g_setmech; simpl. intros H (A & B & C & E). repeat split; auto. Qed.
Lemma P_limit g over g1 : g_limit g = (over, g1) -> P g ->
  P g1 /\ g_q g1 = S (g_q g) /\ (over = false -> (g_q g1 <= SPF_TERM_LIMIT)%nat /\ P (g_term g1))
  /\ (over = true -> g_q g1 = S SPF_TERM_LIMIT \/ (SPF_TERM_LIMIT < g_q g)%nat).
Proof.
  unfold g_limit. intros H (A & B & C & E). inversion H; subst; clear H. simpl.
  split; [unfold P; simpl; repeat split; auto; lia|]. split; [reflexivity|]. split.
  - intros Hov. apply Nat.ltb_ge in Hov. split; [exact Hov|].
    unfold P, g_term; simpl. rewrite count_terms_app. simpl. repeat split; auto; cbn; lia.
  - intros Hov. apply Nat.ltb_lt in Hov. lia.
Qed.

Lemma q_addq g qs : g_q (g_addq g qs) = g_q g. Proof. reflexivity. Qed.
Lemma q_term g : g_q (g_term g) = g_q g. Proof. reflexivity. Qed.
Lemma q_setexp g e : g_q (g_setexp g e) = g_q g. Proof. reflexivity. Qed.
Lemma q_setmech g e : g_q (g_setmech g e) = g_q g. Proof. reflexivity. Qed.

Lemma mech_consts : mech_ok (Some M_MX) /\ mech_ok (Some M_PTR) /\ mech_ok (Some M_EXISTS) /\ mech_ok (Some M_ALL)
  /\ mech_ok (Some M_A) /\ mech_ok (Some M_IP4) /\ mech_ok (Some M_IP6) /\ mech_ok (Some M_INCLUDE) /\ mech_ok (Some M_DEFAULT).
Proof. repeat split; reflexivity. Qed.

(* ------------------------------------------------------------------ the CIDR part *)
(** with the range test of spf_domainspec() a length that was given is never negative *)
Lemma parse_cidr_given s i4 i6 : hd0 s = 47 -> parse_cidr s = Some (i4, i6) -> (0 <= i4)%Z \/ (0 <= i6)%Z.
Proof.
  intros Hs. unfold parse_cidr. rewrite Hs. cbn [N.eqb Pos.eqb negb].
  destruct (hd0 (tl s) =? 47) eqn:E1.
  - (* "//": the ip6 length must follow *)
    rewrite Hs. cbn [N.eqb Pos.eqb negb]. rewrite E1. cbn [negb].
    destruct (at_end (tl (tl s))); [discriminate|].
    destruct (strtol_c (tl (tl s))) as [v cend].
    destruct ((to_int32 v <? 0)%Z || (CIDR6_MAX <? to_int32 v)%Z || negb (at_end cend)) eqn:E2; [discriminate|].
    intros H; inversion H; subst. right. lia.
  - destruct (at_end (tl s)); [discriminate|].
    destruct (strtol_c (tl s)) as [v cend].
    destruct ((to_int32 v <? 0)%Z || (CIDR4_MAX <? to_int32 v)%Z || negb (at_end cend || (hd0 cend =? 47))) eqn:E2; [discriminate|].
    destruct (negb (hd0 cend =? 47)); [intros H; inversion H; subst; left; lia|].
    destruct (negb (hd0 (tl cend) =? 47)); [discriminate|].
    destruct (at_end (tl (tl cend))); [discriminate|].
    destruct (strtol_c (tl (tl cend))) as [v' cend'].
    destruct ((to_int32 v' <? 0)%Z || (CIDR6_MAX <? to_int32 v')%Z || negb (at_end cend')) eqn:E3; [discriminate|].
    intros H; inversion H; subst. right. lia.
Qed.

Section CoreProofs.
Variable D : dns.
Variable X : sess.
Variable makro : bytes -> bytes -> bool -> Cres (mres * list qev).
Variable makro_nofuel : forall t d e, makro t d e <> OutOfFuel.

(** "the macro expander has crashed": the only way the model of the core crashes *)
Definition MC : Prop := exists t d e w, makro t d e = Crash w.

(** no resolver call (and no macro expansion) reports a local error such as ENOMEM *)
Definition noloc : Prop :=
  (forall n, d_a D n <> AErr ELocal) /\ (forall n, d_aaaa D n <> AErr ELocal)
  /\ (forall n, d_mx D n <> MxErr ELocal) /\ (forall ip, d_name D ip <> NErr ELocal)
  /\ (forall n, d_txt D n <> TxtErr TEOther)
  /\ (forall t d e q, makro t d e <> Ok (MLocal, q)).

(** values a single mechanism may yield *)
Definition LR (r : Z) : Prop :=
  okcode [SPF_NONE; SPF_PASS; SPF_FAIL; SPF_PERMERROR; SPF_TEMPERROR; SPF_DNS_HARD_ERROR; (-1)%Z] r
  /\ (noloc -> r <> (-1)%Z).
Ltac lr_const := split; [reflexivity | intros _; codes; discriminate].

Definition errcode (c : Z) : Prop := c = SPF_PERMERROR \/ (c = (-1)%Z /\ ~ noloc).
Lemma errcode_LR c : errcode c -> LR c.
Proof. intros [H|[H Hn]]; subst; [lr_const|]. split; [reflexivity|]. intros N; contradiction. Qed.

Lemma addr_result_LR e : (noloc -> e <> ELocal) -> LR (addr_result e).
Proof.
  intros H. destruct e; cbn [addr_result]; try lr_const.
  split; [reflexivity|]. intros N. exfalso. apply (H N). reflexivity.
Qed.

(* ------------------------------------------------------------------ spf_domainspec *)
Definition ds_post (tok : bytes) (x : Cres (dsres * list qev)) : Prop :=
  match x with
  | Ok (DErr c, _) => errcode c
  | Ok (DOk ds i4 i6, _) => ds = None -> at_end tok = true \/ (0 <= i4)%Z \/ (0 <= i6)%Z
  | Crash _ => MC
  | OutOfFuel => False
  end.

Lemma cidr_res_post ds rest :
  match cidr_res ds rest with
  | DErr c => c = SPF_PERMERROR
  | DOk ds' i4 i6 => ds' = ds /\ (hd0 rest = 47 -> (0 <= i4)%Z \/ (0 <= i6)%Z)
  end.
Proof.
  unfold cidr_res. destruct (parse_cidr rest) as [[i4 i6]|] eqn:E; [|reflexivity].
  split; [reflexivity|]. intros H. eapply parse_cidr_given; eauto.
Qed.

Lemma spf_domainspec_post domain tok : ds_post tok (spf_domainspec makro domain tok).
Proof.
  unfold spf_domainspec, ds_post.
  destruct (at_end tok) eqn:Eend; [intros _; left; reflexivity|].
  destruct (hd0 tok =? 47) eqn:Esl.
  { apply N.eqb_eq in Esl. pose proof (cidr_res_post None tok) as H.
    destruct (cidr_res None tok) as [c|ds i4 i6]; [left; exact H|]. intros _. right. apply H, Esl. }
  destruct (ds_scan tok SNone 0 None) as [[[tlen te] st]|]; [|left; reflexivity].
  destruct st; try (left; reflexivity).
  destruct (_ && _); [left; reflexivity|].
  destruct (makro tok domain false) as [[m q]|w|] eqn:Em; cbn [bind].
  - destruct m as [out| |].
    + pose proof (cidr_res_post (Some out) (skipn tlen tok)) as H.
      destruct (cidr_res (Some out) (skipn tlen tok)) as [c|ds i4 i6]; [left; exact H|].
      destruct H as [H _]. subst ds. intros; discriminate.
    + left; reflexivity.
    + right. split; [reflexivity|]. intros (_ & _ & _ & _ & _ & N). eapply N; eauto.
  - exists tok, domain, false, w. exact Em.
  - eapply makro_nofuel; eauto.
Qed.

Lemma ds_a_mx_post domain tok :
  match ds_a_mx makro domain tok with
  | Ok (inl c, _) => errcode c
  | Ok (inr _, _) => True
  | Crash _ => MC
  | OutOfFuel => False
  end.
Proof.
  unfold ds_a_mx.
  destruct (may_have_domainspec tok =? 0)%Z; [exact I|].
  destruct (may_have_domainspec tok =? 1)%Z; [|left; reflexivity].
  set (tok' := if hd0 tok =? 58 then tl tok else tok).
  pose proof (spf_domainspec_post domain tok') as H. unfold ds_post in H.
  destruct (spf_domainspec makro domain tok') as [[d q]|w|]; cbn [bind]; [|exact H|exact H].
  destruct d as [c|ds i4 i6]; [exact H|exact I].
Qed.

(* ------------------------------------------------------------------ the mechanisms *)
Definition leaf_post (x : Cres (Z * list qev)) : Prop :=
  match x with
  | Ok (r, _) => LR r
  | Crash _ => MC
  | OutOfFuel => False
  end.

Lemma spfa_post domain tok : leaf_post (spfa D X makro domain tok).
Proof.
  unfold spfa, leaf_post.
  pose proof (ds_a_mx_post domain tok) as H.
  destruct (ds_a_mx makro domain tok) as [[x q]|w|]; cbn [bind]; [|exact H|exact H].
  destruct x as [c|[[name l4] l6]]; [apply errcode_LR, H|].
  unfold ask_client_family.
  destruct (client_v4 X).
  - destruct (d_a D name) as [e|l] eqn:E.
    + apply addr_result_LR. intros (N & _) ->. eapply N; eauto.
    + destruct (existsb _ l); lr_const.
  - destruct (d_aaaa D name) as [e|l] eqn:E.
    + apply addr_result_LR. intros (_ & N & _) ->. eapply N; eauto.
    + destruct (existsb _ l); lr_const.
Qed.

Lemma spfmx_post domain tok : leaf_post (spfmx D X makro domain tok).
Proof.
  unfold spfmx, leaf_post.
  pose proof (ds_a_mx_post domain tok) as H.
  destruct (ds_a_mx makro domain tok) as [[x q]|w|]; cbn [bind]; [|exact H|exact H].
  destruct x as [c|[[name l4] l6]]; [apply errcode_LR, H|].
  destruct (d_mx D name) as [e| | |l] eqn:E; try lr_const.
  - destruct e; try lr_const. split; [reflexivity|]. intros (_ & _ & N & _) _. eapply N; eauto.
  - destruct l as [|[prio a] l']; [lr_const|].
    destruct (65536 <=? prio); [lr_const|].
    destruct (Nat.ltb _ _); [lr_const|].
    destruct (client_v4 X); destruct (existsb _ _); lr_const.
Qed.

Lemma spfexists_post domain tok : leaf_post (spfexists D makro domain tok).
Proof.
  unfold spfexists, leaf_post.
  pose proof (spf_domainspec_post domain tok) as H. unfold ds_post in H.
  destruct (spf_domainspec makro domain tok) as [[d q]|w|]; cbn [bind]; [|exact H|exact H].
  destruct d as [c|ds i4 i6]; [apply errcode_LR, H|].
  destruct ds as [name|]; [|lr_const].
  destruct (_ || _); [lr_const|].
  destruct (d_a D name) as [e|l] eqn:E.
  - apply addr_result_LR. intros (N & _) ->. eapply N; eauto.
  - destruct l; lr_const.
Qed.

Lemma spfptr_post domain tok : leaf_post (spfptr D X makro domain tok).
Proof.
  unfold spfptr, leaf_post.
  destruct (may_have_domainspec tok =? 0)%Z.
  - cbn [bind]. destruct (s_remotehost X); [lr_const|].
    unfold validate_domain.
    destruct (d_name D (s_client X)) as [e|names] eqn:E.
    + apply addr_result_LR. intros (_ & _ & _ & N & _) ->. eapply N; eauto.
    + destruct (vd_loop D X _) as [vs qs]. destruct (existsb _ vs); lr_const.
  - destruct (may_have_domainspec tok =? 1)%Z; [|cbn [bind]; lr_const].
    set (tok' := if hd0 tok =? 58 then tl tok else tok).
    pose proof (spf_domainspec_post domain tok') as H. unfold ds_post in H.
    destruct (spf_domainspec makro domain tok') as [[d q]|w|]; cbn [bind]; [|exact H|exact H].
    destruct d as [c|ds i4 i6]; cbn [bind]; [apply errcode_LR, H|].
    destruct (_ || _); cbn [bind]; [lr_const|].
    destruct (s_remotehost X); [lr_const|].
    unfold validate_domain.
    destruct (d_name D (s_client X)) as [e|names] eqn:E.
    + apply addr_result_LR. intros (_ & _ & _ & N & _) ->. eapply N; eauto.
    + destruct (vd_loop D X _) as [vs qs]. destruct (existsb _ vs); lr_const.
Qed.

Lemma spfip4_LR tok : LR (spfip4 X tok).
Proof.
  unfold spfip4. destruct (negb _); [lr_const|]. destruct (_ || _); [lr_const|].
  destruct (ip_prefix _ _ _); [|lr_const]. destruct (inet_pton4 _); [|lr_const].
  destruct (ip4_matchnet _ _ _); lr_const.
Qed.
Lemma spfip6_LR tok : LR (spfip6 X tok).
Proof.
  unfold spfip6. destruct (client_v4 X); [lr_const|]. destruct (_ || _); [lr_const|].
  destruct (ip_prefix _ _ _); [|lr_const]. destruct (inet_pton6 _); [|lr_const].
  destruct (ip6_matchnet _ _ _); lr_const.
Qed.


(* ------------------------------------------------------------------ one record *)
Definition prefix_ok (p : Z) : Prop := okcode [SPF_FAIL; SPF_SOFTFAIL; SPF_PASS; SPF_NEUTRAL] p.
(** beyond the limit the evaluation has failed *)
Definition qfail (g : gst) (r : Z) : Prop :=
  (g_q g <= SPF_TERM_LIMIT)%nat \/ (g_q g = S SPF_TERM_LIMIT /\ r = SPF_FAIL).
(** values a record evaluation may yield *)
Definition RR (r : Z) : Prop := okcode result_codes r /\ (noloc -> r <> (-1)%Z).

Definition post (g : gst) (x : Cres (Z * gst)) : Prop :=
  match x with
  | Ok (r, g') => RR r /\ P g' /\ (g_q g <= g_q g')%nat /\ qfail g' r
  | Crash _ => MC
  | OutOfFuel => False
  end.

Lemma LR_RR r : LR r -> RR r.
Proof.
  intros [H N]. split; [|exact N]. revert H. apply okcode_sub. unfold result_codes.
  intros x Hx. simpl in *. intuition.
Qed.

Section Rec.
Variable rec : bytes -> gst -> Cres (Z * gst).
Variable q0 : nat.
Variable rec_ok : forall n g, P g -> (q0 < g_q g)%nat -> (g_q g <= SPF_TERM_LIMIT)%nat -> post g (rec n g).

Definition tres_post (g : gst) (x : Cres tres) : Prop :=
  match x with
  | Ok (TRes res mechl g') => LR res /\ mech_ok mechl /\ P g' /\ (g_q g <= g_q g')%nat /\ qfail g' res
  | Ok (TRet _ _) => False
  | Crash _ => MC
  | OutOfFuel => False
  end.

Lemma tres_same g res mechl :
  LR res -> mech_ok mechl -> P g -> (g_q g <= SPF_TERM_LIMIT)%nat -> tres_post g (Ok (TRes res mechl g)).
Proof. intros A B C E. cbn. split; [exact A|]. split; [exact B|]. split; [exact C|]. split; [lia|left; exact E]. Qed.

Lemma dns_mech_post f name g :
  leaf_post f -> mech_ok (Some name) -> P g -> (g_q g <= SPF_TERM_LIMIT)%nat ->
  tres_post g (dns_mech f name g).
Proof.
  intros Hf Hm HP Hq. unfold dns_mech, tres_post.
  destruct (g_limit g) as [over g1] eqn:El. apply P_limit in El as (P1 & Q1 & Hno & Hov); [|exact HP].
  destruct over.
  - split; [lr_const|]. split; [exact Hm|]. split; [exact P1|]. split; [lia|].
    right. split; [|reflexivity]. destruct (Hov eq_refl); lia.
  - destruct (Hno eq_refl) as [Hq1 PT].
    unfold leaf_post in Hf. destruct f as [[res q]|w|]; cbn [bind]; [|exact Hf|exact Hf].
    split; [exact Hf|]. split; [exact Hm|]. split; [apply P_addq, PT|].
    rewrite q_addq, q_term. split; [lia|]. left. exact Hq1.
Qed.

Lemma match_include_colon tok nx :
  match_mechanism tok MECH_include = Some nx -> may_have_domainspec nx = 1%Z -> at_end (tl nx) = false.
Proof.
  unfold match_mechanism, MECH_include.
  destruct (case_prefix _ tok); [|discriminate].
  set (n := skipn _ tok). destruct (at_end n || mem (hd0 n) [58]) eqn:E; [|discriminate].
  intros H; inversion H; subst nx; clear H.
  unfold may_have_domainspec. destruct n as [|c t]; [codes; discriminate|].
  cbn [tl]. destruct (wspace c) eqn:Ew; [codes; discriminate|].
  destruct (c =? 58) eqn:E58.
  - destruct (at_end t); [codes; discriminate|reflexivity].
  - exfalso. cbn [at_end hd0 mem existsb] in E. rewrite Ew, E58 in E. discriminate.
Qed.

Lemma include_eval_post domain tok nx g :
  match_mechanism tok MECH_include = Some nx ->
  P g -> (q0 <= g_q g)%nat -> (g_q g <= SPF_TERM_LIMIT)%nat ->
  post g (include_eval makro rec domain nx g).
Proof.
  intros Hm HP H0 Hq. unfold include_eval.
  destruct (may_have_domainspec nx =? 1)%Z eqn:E1.
  2:{ cbn. split; [apply LR_RR; lr_const|]. split; [exact HP|]. split; [lia|left; exact Hq]. }
  apply Z.eqb_eq in E1. pose proof (match_include_colon _ _ Hm E1) as Hend.
  pose proof (spf_domainspec_post domain (tl nx)) as H. unfold ds_post in H.
  destruct (spf_domainspec makro domain (tl nx)) as [[d q]|w|]; cbn [bind]; [|exact H|exact H].
  pose proof (P_addq g q HP) as PA.
  destruct d as [c|ds i4 i6].
  { cbn. split; [apply LR_RR, errcode_LR, H|]. split; [exact PA|]. split; [lia|left; exact Hq]. }
  destruct ((0 <=? i4)%Z || (0 <=? i6)%Z) eqn:Ec.
  { cbn. split; [apply LR_RR; lr_const|]. split; [exact PA|]. split; [lia|left; exact Hq]. }
  destruct (g_limit (g_addq g q)) as [over g1] eqn:El. apply P_limit in El as (P1 & Q1 & Hno & Hov); [|exact PA].
  rewrite q_addq in Q1.
  destruct over.
  - cbn. split; [apply LR_RR; lr_const|]. split; [exact P1|]. split; [lia|].
    right. split; [|reflexivity]. destruct (Hov eq_refl) as [A|A]; [exact A|rewrite q_addq in A; lia].
  - destruct (Hno eq_refl) as [Hq1 PT].
    destruct ds as [n|].
    + pose proof (rec_ok n (g_term g1) PT) as R. rewrite q_term in R.
      specialize (R ltac:(lia) Hq1). unfold post in R |- *.
      destruct (rec n (g_term g1)) as [[r g2]|w|]; [|exact R|exact R].
      destruct R as (R1 & R2 & R3 & R4). rewrite q_term in R3.
      split; [exact R1|]. split; [exact R2|]. split; [lia|exact R4].
    + exfalso. destruct (H eq_refl) as [A|[A|A]]; [congruence|lia|lia].
Qed.

Lemma include_result_LR r g2 : RR r -> qfail g2 r ->
  LR (include_result r (g_q g2)) /\ qfail g2 (include_result r (g_q g2)).
Proof.
  intros [Hr Hn] Hq. unfold include_result.
  destruct (r =? SPF_NONE)%Z eqn:E0.
  { split; [lr_const|]. destruct Hq as [A|[A B]]; [left; exact A|]. apply Z.eqb_eq in E0. subst r. codes. discriminate. }
  destruct ((r =? SPF_TEMPERROR)%Z || (r =? SPF_PERMERROR)%Z || (r =? SPF_PASS)%Z || (r =? -1)%Z) eqn:E1.
  { split; [|exact Hq]. split; [|exact Hn]. unfold okcode. cbn [existsb]. codes. lia. }
  destruct ((r =? SPF_FAIL)%Z && Nat.ltb SPF_INCLUDE_KEEP_FAIL (g_q g2)) eqn:E2.
  { split; [|exact Hq]. apply andb_true_iff in E2 as [E2 _]. apply Z.eqb_eq in E2. subst r. lr_const. }
  split; [lr_const|]. destruct Hq as [A|[A B]]; [left; exact A|].
  exfalso. subst r. rewrite Z.eqb_refl in E2. cbn [andb] in E2. apply Nat.ltb_ge in E2. limits. lia.
Qed.

Lemma modifier_eval_post domain tk tok mechl g :
  mech_ok mechl -> P g -> (g_q g <= SPF_TERM_LIMIT)%nat ->
  tres_post g (modifier_eval makro domain tk tok mechl g).
Proof.
  intros Hm HP Hq. unfold modifier_eval.
  assert (Hbad : tres_post g (Ok (TRes SPF_PERMERROR mechl (g_setexp g (Some (record_bad_token tk)))))).
  { cbn. split; [lr_const|]. split; [exact Hm|]. split; [apply P_setexp; [apply record_bad_token_reply|exact HP]|].
    split; [lia|left; exact Hq]. }
  destruct (Nat.eqb _ 0); [exact Hbad|].
  destruct (negb _); [exact Hbad|].
  destruct (makro _ domain false) as [[m q]|w|] eqn:Em; cbn [bind].
  - pose proof (P_addq g q HP) as PA. destruct m as [out| |]; cbn.
    + split; [lr_const|]. split; [exact Hm|]. split; [exact PA|]. split; [lia|left; exact Hq].
    + split; [lr_const|]. split; [exact Hm|]. split; [apply P_setexp; [apply record_bad_token_reply|exact PA]|].
      split; [lia|left; exact Hq].
    + split; [|split; [exact Hm|split; [exact PA|split; [lia|left; exact Hq]]]].
      split; [reflexivity|]. intros (_ & _ & _ & _ & _ & N) _. eapply N; eauto.
  - eexists _, _, _, _; exact Em.
  - eapply makro_nofuel; eauto.
Qed.

Lemma mech_eval_post domain tk tok mechl g :
  mech_ok mechl -> P g -> (q0 <= g_q g)%nat -> (g_q g <= SPF_TERM_LIMIT)%nat ->
  tres_post g (mech_eval D X makro rec domain tk tok mechl g).
Proof.
  intros Hm HP H0 Hq. unfold mech_eval.
  destruct mech_consts as (C1 & C2 & C3 & C4 & C5 & C6 & C7 & C8 & C9).
  assert (Hperm : tres_post g (Ok (TRes SPF_PERMERROR mechl g))) by (apply tres_same; auto; lr_const).
  destruct (match_mechanism tok MECH_mx); [apply dns_mech_post; auto; apply spfmx_post|].
  destruct (match_mechanism tok MECH_ptr); [apply dns_mech_post; auto; apply spfptr_post|].
  destruct (match_mechanism tok MECH_exists) as [nx|].
  { destruct (hd0 nx =? 58); [apply dns_mech_post; auto; apply spfexists_post|exact Hperm]. }
  destruct (match_mechanism tok MECH_all); [apply tres_same; auto; lr_const|].
  destruct (match_mechanism tok MECH_a); [apply dns_mech_post; auto; apply spfa_post|].
  destruct (match_mechanism tok MECH_ip4) as [nx|].
  { destruct (hd0 nx =? 58); [|exact Hperm].
    apply tres_same; auto; apply spfip4_LR. }
  destruct (match_mechanism tok MECH_ip6) as [nx|].
  { destruct (hd0 nx =? 58); [|exact Hperm].
    apply tres_same; auto; apply spfip6_LR. }
  destruct (match_mechanism tok MECH_include) as [nx|] eqn:Ei; [|apply modifier_eval_post; auto].
  pose proof (include_eval_post domain tok nx g Ei HP H0 Hq) as H. unfold post in H.
  destruct (include_eval makro rec domain nx g) as [[res g2]|w|]; cbn [bind]; [|exact H|exact H].
  destruct H as (R1 & R2 & R3 & R4).
  destruct (include_result_LR res g2 R1 R4) as [A B].
  cbn. split; [exact A|]. split; [exact C8|]. split; [exact R2|]. split; [exact R3|exact B].
Qed.

Definition term_post (g : gst) (x : Cres (Z * tres)) : Prop :=
  match x with
  | Ok (prefix, TRes res mechl g') =>
      prefix_ok prefix /\ LR res /\ mech_ok mechl /\ P g' /\ (g_q g <= g_q g')%nat /\ qfail g' res
  | Ok (_, TRet z g') => z = SPF_PERMERROR /\ g' = g
  | Crash _ => MC
  | OutOfFuel => False
  end.

Lemma term_eval_post domain tk mechl g :
  mech_ok mechl -> P g -> (q0 <= g_q g)%nat -> (g_q g <= SPF_TERM_LIMIT)%nat ->
  term_post g (term_eval D X makro rec domain tk mechl g).
Proof.
  intros Hm HP H0 Hq. unfold term_eval.
  destruct (qualifier tk) as [[prefix tok]|] eqn:Eq; [|cbn; auto].
  assert (Hp : prefix_ok prefix).
  { unfold qualifier in Eq.
    repeat match type of Eq with (if ?c then _ else _) = _ => destruct c end;
      inversion Eq; subst; reflexivity. }
  pose proof (mech_eval_post domain tk tok mechl g Hm HP H0 Hq) as H. unfold tres_post in H.
  destruct (mech_eval D X makro rec domain tk tok mechl g) as [[res ml g'|z g']|w|]; cbn [bind term_post];
    [|contradiction|exact H|exact H].
  split; [exact Hp|exact H].
Qed.


Definition loop_post (g : gst) (x : Cres lres) : Prop :=
  match x with
  | Ok (LDone res prefix mechl g') =>
      LR res /\ (res = SPF_PASS -> prefix_ok prefix) /\ mech_ok mechl /\ P g' /\ (g_q g <= g_q g')%nat /\ qfail g' res
  | Ok (LRet z g') => z = SPF_PERMERROR /\ P g' /\ (g_q g <= g_q g')%nat /\ (g_q g' <= SPF_TERM_LIMIT)%nat
  | Crash _ => MC
  | OutOfFuel => False
  end.

Lemma loop_post_mono g g' x : (g_q g <= g_q g')%nat -> loop_post g' x -> loop_post g x.
Proof.
  intros H. unfold loop_post. destruct x as [[res prefix mechl g2|z g2]|w|]; auto.
  - intros (A & B & C & E & F & G). repeat (split; [assumption|]). split; [lia|assumption].
  - intros (A & B & C & E). repeat (split; [assumption|]). split; [lia|assumption].
Qed.

Lemma term_loop_post domain : forall s intok prefix mechl g,
  mech_ok mechl -> P g -> (q0 <= g_q g)%nat -> (g_q g <= SPF_TERM_LIMIT)%nat ->
  loop_post g (term_loop D X makro rec domain s intok prefix mechl g).
Proof.
  destruct mech_consts as (C1 & C2 & C3 & C4 & C5 & C6 & C7 & C8 & C9).
  induction s as [|c t IH]; intros intok prefix mechl g Hm HP H0 Hq; cbn [term_loop].
  - destruct intok; cbn.
    + split; [lr_const|]. split; [codes; discriminate|]. split; [exact Hm|]. split; [exact HP|]. split; [lia|left; exact Hq].
    + split; [lr_const|]. split; [codes; discriminate|]. split; [exact C9|]. split; [exact HP|]. split; [lia|left; exact Hq].
  - destruct (wspace c); [apply IH; auto|].
    destruct intok; [apply IH; auto|].
    pose proof (term_eval_post domain (c :: t) mechl g Hm HP H0 Hq) as H. unfold term_post in H.
    destruct (term_eval D X makro rec domain (c :: t) mechl g) as [[prefix' [res ml g'|z g']]|w|]; cbn [bind];
      [| |exact H|exact H].
    + destruct H as (A & B & C & E & F & G).
      destruct (res =? SPF_NONE)%Z eqn:En.
      * apply Z.eqb_eq in En. subst res.
        assert (Hq' : (g_q g' <= SPF_TERM_LIMIT)%nat) by (destruct G as [G|[_ G]]; [exact G|codes; discriminate]).
        apply loop_post_mono with g'; [exact F|]. apply IH; auto; lia.
      * cbn. split; [exact B|]. split; [intros _; exact A|]. split; [exact C|]. split; [exact E|]. split; [exact F|exact G].
    + destruct H as [A B]. subst. cbn. split; [reflexivity|]. split; [exact HP|]. split; [lia|exact Hq].
Qed.

Lemma txtlookup_ans domain :
  fst (txtlookup D domain) = TxtErr TEInval \/ exists n, fst (txtlookup D domain) = d_txt D n.
Proof.
  unfold txtlookup. destruct (txt_trim _ _ _) as [name|]; [right; exists name; reflexivity|left; reflexivity].
Qed.

Lemma do_exp_post domain expl g : P g ->
  match do_exp D makro domain expl g with
  | Ok g' => P g' /\ g_q g' = g_q g
  | Crash _ => MC
  | OutOfFuel => False
  end.
Proof.
  intros HP. unfold do_exp.
  destruct (makro expl domain false) as [[m q]|w|] eqn:Em; cbn [bind];
    [|eexists _, _, _, _; exact Em|eapply makro_nofuel; eauto].
  pose proof (P_addq g q HP) as PA.
  destruct m as [target| |]; [|split; [exact PA|reflexivity]|split; [exact PA|reflexivity]].
  destruct (strip_trailing_dots target) as [|c0 t0]; [split; [exact PA|reflexivity]|].
  destruct (txtlookup D (c0 :: t0)) as [ans qt].
  pose proof (P_addq _ qt PA) as PB.
  destruct ans as [e|recs]; [split; [exact PB|reflexivity]|].
  destruct recs as [|e recs]; [split; [exact PB|reflexivity]|].
  destruct (makro e domain true) as [[m2 q2]|w|] eqn:Em2; cbn [bind];
    [|eexists _, _, _, _; exact Em2|eapply makro_nofuel; eauto].
  pose proof (P_addq _ q2 PB) as PC.
  destruct m2 as [text| |]; (split; [|reflexivity]); apply P_setexp; auto; apply exp_sanitise_ok.
Qed.

Lemma redirect_eval_post domain rd g :
  at_end rd = false -> P g -> (q0 <= g_q g)%nat -> (g_q g <= SPF_TERM_LIMIT)%nat ->
  post g (redirect_eval makro rec domain rd g).
Proof.
  intros Hend HP H0 Hq. unfold redirect_eval.
  pose proof (spf_domainspec_post domain rd) as H. unfold ds_post in H.
  destruct (spf_domainspec makro domain rd) as [[d q]|w|]; cbn [bind]; [|exact H|exact H].
  pose proof (P_addq g q HP) as PA.
  destruct d as [c|ds i4 i6].
  { cbn. split; [apply LR_RR, errcode_LR, H|]. split; [exact PA|]. split; [lia|left; exact Hq]. }
  destruct (negb (i4 =? -1)%Z || negb (i6 =? -1)%Z) eqn:Ec.
  { cbn. split; [apply LR_RR; lr_const|]. split; [exact PA|]. split; [lia|left; exact Hq]. }
  destruct (g_limit (g_addq g q)) as [over g3] eqn:El. apply P_limit in El as (P1 & Q1 & Hno & Hov); [|exact PA].
  rewrite q_addq in Q1.
  destruct over.
  - cbn. split; [apply LR_RR; lr_const|]. split; [exact P1|]. split; [lia|].
    right. split; [|reflexivity]. destruct (Hov eq_refl) as [A|A]; [exact A|rewrite q_addq in A; lia].
  - destruct (Hno eq_refl) as [Hq1 PT].
    destruct ds as [n|].
    + change (g_term (g_setexp g3 None)) with (g_setexp (g_term g3) None).
      assert (PS : P (g_setexp (g_term g3) None)) by (apply P_setexp; [reflexivity|exact PT]).
      pose proof (rec_ok n _ PS) as R. rewrite q_setexp, q_term in R.
      specialize (R ltac:(lia) Hq1). unfold post in R.
      destruct (rec n (g_setexp (g_term g3) None)) as [[r g4]|w|]; cbn [bind]; [|exact R|exact R].
      destruct R as (R1 & R2 & R3 & R4). rewrite q_setexp, q_term in R3.
      cbn. destruct (r =? SPF_NONE)%Z eqn:En.
      * apply Z.eqb_eq in En. subst r. split; [apply LR_RR; lr_const|]. split; [exact R2|]. split; [lia|].
        destruct R4 as [A|[_ A]]; [left; exact A|codes; discriminate].
      * split; [exact R1|]. split; [exact R2|]. split; [lia|exact R4].
    + exfalso. destruct (H eq_refl) as [A|[A|A]]; [congruence|lia|lia].
Qed.

Lemma prefix_RR p : prefix_ok p -> RR p.
Proof.
  intros H. apply okcode_in in H. simpl in H.
  destruct H as [H|[H|[H|[H|[]]]]]; subst; (split; [reflexivity|intros _; codes; discriminate]).
Qed.

Lemma eval_record_post domain valid g :
  P g -> (q0 <= g_q g)%nat -> (g_q g <= SPF_TERM_LIMIT)%nat ->
  post g (eval_record D X makro rec domain valid g).
Proof.
  intros HP H0 Hq. unfold eval_record.
  assert (Hperm : post g (Ok (SPF_PERMERROR, g))).
  { cbn. split; [apply LR_RR; lr_const|]. split; [exact HP|]. split; [lia|left; exact Hq]. }
  set (red := find_modifier MOD_REDIRECT valid 49).
  destruct (match red with Some nx => _ | None => false end) eqn:Erb; [exact Hperm|].
  set (ex := find_modifier MOD_EXP valid 49).
  destruct (match ex with Some nx => _ | None => false end) eqn:Eeb; [exact Hperm|].
  pose proof (term_loop_post domain valid true 0%Z None g I HP H0 Hq) as H. unfold loop_post in H.
  destruct (term_loop D X makro rec domain valid true 0%Z None g) as [[result prefix mechl g1|z g1]|w|]; cbn [bind];
    [| |exact H|exact H].
  2:{ destruct H as (A & B & C & E). subst z. cbn. split; [apply LR_RR; lr_const|]. split; [exact B|]. split; [exact C|left; exact E]. }
  destruct H as (A & B & C & E & F & G).
  destruct (result <? 0)%Z; [cbn; split; [apply LR_RR, A|]; split; [exact E|]; split; [exact F|exact G]|].
  destruct (negb (result =? SPF_NONE)%Z) eqn:En.
  - set (result' := if (result =? SPF_PASS)%Z then prefix else result).
    assert (HR : RR result' /\ qfail g1 result').
    { unfold result'. destruct (result =? SPF_PASS)%Z eqn:Ep; [|split; [apply LR_RR, A|exact G]].
      apply Z.eqb_eq in Ep. split; [apply prefix_RR, B, Ep|].
      destruct G as [G|[_ G]]; [left; exact G|subst result; codes; discriminate]. }
    destruct HR as [HR HG].
    assert (HX : match (if (result' =? SPF_FAIL)%Z
                        then match (match ex with Some nx => if at_end nx then None else Some nx | None => None end) with
                             | Some e => do_exp D makro domain e g1 | None => Ok g1 end
                        else Ok g1) with
                 | Ok g2 => P g2 /\ g_q g2 = g_q g1 | Crash _ => MC | OutOfFuel => False end).
    { destruct (result' =? SPF_FAIL)%Z; [|split; [exact E|reflexivity]].
      destruct (match ex with Some nx => _ | None => None end); [apply do_exp_post, E|split; [exact E|reflexivity]]. }
    destruct (if (result' =? SPF_FAIL)%Z then _ else _) as [g2|w|]; cbn [bind]; [|exact HX|exact HX].
    destruct HX as [PX QX]. cbn. split; [exact HR|]. split; [apply P_setmech; assumption|].
    split; [lia|]. unfold qfail in HG |- *. rewrite q_setmech, QX. exact HG.
  - apply negb_false_iff, Z.eqb_eq in En. subst result.
    assert (Hq1 : (g_q g1 <= SPF_TERM_LIMIT)%nat) by (destruct G as [G|[_ G]]; [exact G|codes; discriminate]).
    destruct red as [rd|] eqn:Er.
    + apply orb_false_iff in Erb as [Erb _].
      pose proof (redirect_eval_post domain rd g1 Erb E ltac:(lia) Hq1) as R. unfold post in R |- *.
      destruct (redirect_eval makro rec domain rd g1) as [[r g4]|w|]; [|exact R|exact R].
      destruct R as (R1 & R2 & R3 & R4). split; [exact R1|]. split; [exact R2|]. split; [lia|exact R4].
    + cbn. split; [split; [reflexivity|intros _; codes; discriminate]|]. split; [exact E|]. split; [exact F|left; exact Hq1].
Qed.

Lemma spflookup_body_post domain g :
  P g -> (q0 <= g_q g)%nat -> (g_q g <= SPF_TERM_LIMIT)%nat ->
  post g (spflookup_body D X makro rec domain g).
Proof.
  intros HP H0 Hq. unfold spflookup_body.
  assert (Hc : forall c g', LR c -> P g' -> g_q g' = g_q g -> post g (Ok (c, g'))).
  { intros c g' A B C. cbn. split; [apply LR_RR, A|]. split; [exact B|]. split; [lia|left; lia]. }
  assert (Hans : forall ans qt, (ans = TxtErr TEInval \/ exists n, ans = d_txt D n) ->
            post g (records_eval D X makro rec domain ans (g_addq g qt))).
  { intros ans qt Ha. pose proof (P_addq g qt HP) as PA. unfold records_eval.
    destruct ans as [e|recs].
    - apply Hc; [|exact PA|reflexivity].
      destruct e; cbn [txt_result]; try lr_const.
      split; [reflexivity|]. intros (_ & _ & _ & _ & N & _) _.
      destruct Ha as [Ha|[n Ha]]; [discriminate|]. eapply N; eauto.
    - destruct recs as [|r rs]; [apply Hc; [lr_const|exact PA|reflexivity]|].
      destruct (scan_records (r :: rs) None) as [[valid|]|]; try (apply Hc; [lr_const|exact PA|reflexivity]).
      pose proof (eval_record_post domain valid (g_addq g qt) PA ltac:(rewrite q_addq; lia) ltac:(rewrite q_addq; lia)) as R.
      unfold post in R |- *. destruct (eval_record D X makro rec domain valid (g_addq g qt)) as [[r' g']|w|]; exact R. }
  destruct (Nat.eqb (g_q g) 0).
  - destruct (domain_invalid domain); [apply Hc; [lr_const|exact HP|reflexivity]|].
    apply Hans. right. exists domain. reflexivity.
  - pose proof (txtlookup_ans domain) as Ha.
    destruct (txtlookup D domain) as [a q]. apply Hans. exact Ha.
Qed.

End Rec.

(** the recursion never runs out of fuel: a nested call happens only after the counter
    was incremented and found <= the limit *)
Lemma spflookup_post : forall fuel domain g,
  P g -> (g_q g <= SPF_TERM_LIMIT)%nat -> (SPF_TERM_LIMIT + 1 <= fuel + g_q g)%nat ->
  post g (spflookup D X makro fuel domain g).
Proof.
  induction fuel as [|f IH]; intros domain g HP Hq Hf; [lia|].
  cbn [spflookup]. apply spflookup_body_post with (q0 := g_q g); auto.
  intros n g' HP' H1 H2. apply IH; auto. lia.
Qed.

(** check_host(): whatever xmitstat.spfexp / spfmechanism held before, as long as it was clean *)
Theorem check_host_post domain e0 m0 :
  exp_ok e0 = true -> mech_ok m0 ->
  match check_host D X makro domain e0 m0 with
  | Ok (r, g) => RR r /\ P g /\ qfail g r
  | Crash _ => MC
  | OutOfFuel => False
  end.
Proof.
  intros He Hm. unfold check_host.
  assert (HP : P (g_init e0 m0)) by (unfold P, g_init; cbn; repeat split; auto; lia).
  pose proof (spflookup_post (SPF_TERM_LIMIT + 2) domain (g_init e0 m0) HP ltac:(cbn; lia) ltac:(cbn; lia)) as H.
  unfold post in H. destruct (spflookup D X makro (SPF_TERM_LIMIT + 2) domain (g_init e0 m0)) as [[r g]|w|]; auto.
  destruct H as (A & B & _ & C). auto.
Qed.

End CoreProofs.

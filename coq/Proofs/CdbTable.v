(** The hash tables written by cdb_make satisfy [table_ok] (linear probing, records inserted in file order). *)
From Coq Require Import Sorting.Sorted.
From Qv Require Import Common.Bytes Gen.GenCdb Model.Cdb Spec.CdbSpec Proofs.CdbSafe Proofs.CdbBytes Proofs.CdbLookup.

(** * set_nth, counting *)
Lemma set_nth_length {A} (l : list A) i x : i < length l -> length (set_nth l i x) = length l.
Proof.
  intros H. unfold set_nth. rewrite app_length, firstn_length. cbn [length]. rewrite skipn_length. lia.
Qed.

Lemma set_nth_nth {A} (d : A) (l : list A) i x p : i < length l ->
  nth p (set_nth l i x) d = if p =? i then x else nth p l d.
Proof.
  intros H. unfold set_nth. destruct (p =? i) eqn:E.
  - apply Nat.eqb_eq in E. subst p. rewrite app_nth2; rewrite firstn_length; [|lia].
    replace (i - Nat.min i (length l)) with 0 by lia. reflexivity.
  - apply Nat.eqb_neq in E. destruct (Nat.lt_ge_cases p i) as [L|L].
    + rewrite app_nth1 by (rewrite firstn_length; lia). apply nth_firstn'. exact L.
    + rewrite app_nth2 by (rewrite firstn_length; lia). rewrite firstn_length.
      replace (p - Nat.min i (length l)) with (S (p - S i)) by lia. cbn [nth].
      rewrite nth_skipn. f_equal. lia.
Qed.

Fixpoint count_some (l : list islot) : nat :=
  match l with [] => 0 | None :: r => count_some r | Some _ :: r => S (count_some r) end.

Lemma count_some_le l : count_some l <= length l.
Proof. induction l as [|[x|] l IH]; simpl; lia. Qed.

Lemma count_some_full l : (forall s, s < length l -> nth s l None <> None) -> count_some l = length l.
Proof.
  induction l as [|[x|] l IH]; intros H; simpl; [reflexivity| |].
  - f_equal. apply IH. intros s Hs. apply (H (S s)). simpl. lia.
  - exfalso. apply (H 0); [simpl; lia|reflexivity].
Qed.

Lemma set_nth_cons {A} (a : A) l s y : set_nth (a :: l) (S s) y = a :: set_nth l s y.
Proof. reflexivity. Qed.

Lemma count_some_set : forall l s x, s < length l -> nth s l None = None ->
  count_some (set_nth l s (Some x)) = S (count_some l).
Proof.
  induction l as [|a l IH]; intros s x H E; simpl in H; [lia|].
  destruct s as [|s].
  - simpl in E. subst a. reflexivity.
  - rewrite set_nth_cons. simpl in E.
    destruct a; cbn [count_some]; rewrite IH; try lia; exact E.
Qed.

Lemma count_some_repeat m : count_some (repeat None m) = 0.
Proof. induction m as [|m IH]; simpl; [reflexivity|exact IH]. Qed.
Lemma nth_repeat_none m : forall s, nth s (repeat (@None nat) m) None = None.
Proof. induction m as [|m IH]; intros [|s]; simpl; try reflexivity. apply IH. Qed.

(** * probing *)
Lemma iter_swap {A} (g : A -> A) : forall d x, Nat.iter d g (g x) = g (Nat.iter d g x).
Proof. induction d as [|d IH]; intros x; simpl; [reflexivity|]. now rewrite IH. Qed.

Lemma probe_S n st d : probe n (nxt n st) d = probe n st (S d).
Proof. unfold probe. simpl. apply iter_swap. Qed.

Lemma probe_mod n st : st < n -> forall d, probe n st d = (st + d) mod n.
Proof.
  intros H. induction d as [|d IH].
  - simpl. rewrite Nat.add_0_r. symmetry. now apply Nat.mod_small.
  - unfold probe in *. simpl. rewrite IH. unfold nxt.
    pose proof (Nat.div_mod (st + d) n ltac:(lia)) as DM.
    pose proof (Nat.mod_upper_bound (st + d) n ltac:(lia)) as UB.
    destruct (S ((st + d) mod n) =? n) eqn:E.
    + apply Nat.eqb_eq in E. apply Nat.mod_unique with (q := S ((st + d) / n)); [lia|]. nia.
    + apply Nat.eqb_neq in E. apply Nat.mod_unique with (q := (st + d) / n); [lia|]. nia.
Qed.

Lemma probe_surj n st s : st < n -> s < n -> exists d, d < n /\ probe n st d = s.
Proof.
  intros H1 H2. destruct (Nat.le_gt_cases st s) as [L|L].
  - exists (s - st). split; [lia|]. rewrite probe_mod by exact H1. replace (st + (s - st)) with s by lia.
    now apply Nat.mod_small.
  - exists (s + n - st). split; [lia|]. rewrite probe_mod by exact H1. replace (st + (s + n - st)) with (s + 1 * n) by lia.
    rewrite Nat.mod_add by lia. now apply Nat.mod_small.
Qed.

Lemma probe_empty_some tbl : forall fuel s0 s, probe_empty tbl fuel s0 = Some s ->
  exists d, d < fuel /\ s = probe (length tbl) s0 d /\ nth s tbl None = None /\
    forall d', d' < d -> exists j, nth (probe (length tbl) s0 d') tbl None = Some j.
Proof.
  induction fuel as [|fuel IH]; intros s0 s H; simpl in H; [discriminate|].
  destruct (nth s0 tbl None) as [j|] eqn:E.
  - destruct (IH _ _ H) as [d [D [P [N C]]]]. exists (S d). rewrite <- probe_S. repeat split; [lia|exact P|exact N|].
    intros [|d'] Hd'; [exists j; exact E|]. rewrite <- probe_S. apply C. lia.
  - inversion H; subst. exists 0. repeat split; [lia|exact E|]. intros d' Hd'. lia.
Qed.

Lemma probe_empty_none tbl : forall fuel s0, probe_empty tbl fuel s0 = None ->
  forall d, d < fuel -> nth (probe (length tbl) s0 d) tbl None <> None.
Proof.
  induction fuel as [|fuel IH]; intros s0 H d Hd; [lia|]. simpl in H.
  destruct (nth s0 tbl None) as [j|] eqn:E; [|discriminate].
  destruct d as [|d]; [simpl; congruence|]. rewrite <- probe_S. apply IH; [exact H|lia].
Qed.

(** * the invariant of make_table *)
Section Table.
  Variable recs : list (bytes * bytes).
  Local Notation hs := (map (fun kv => std_hash (fst kv)) recs).

  Lemma hs_nth' j : j < length recs -> nth j hs 0%N = hash_of recs j.
  Proof.
    intros H. unfold hash_of, key_of.
    rewrite (nth_indep _ 0%N (std_hash (fst (@nil N, @nil N)))) by (rewrite map_length; exact H).
    now rewrite (map_nth (fun kv => std_hash (fst kv))).
  Qed.

  Definition tinv (n : nat) (tbl : list islot) (done : list nat) : Prop :=
    length tbl = n /\ count_some tbl = length done /\
    (forall s j, nth s tbl None = Some j -> In j done) /\
    (forall i, In i done -> chain recs tbl i).

  Lemma insert_inv n tbl done i :
    tinv n tbl done -> length done < n -> i < length recs -> (forall j, In j done -> j < i) ->
    tinv n (tbl_insert hs tbl i) (i :: done).
  Proof.
    intros [HL [HC [HA HB]]] Hroom Hi Hlt. unfold tbl_insert. rewrite hs_nth' by exact Hi.
    assert (Npos : 0 < length tbl) by lia.
    assert (ST : start_slot (hash_of recs i) (length tbl) < length tbl).
    { unfold start_slot. pose proof (N.mod_lt (hash_of recs i / 256) (N.of_nat (length tbl))). lia. }
    destruct (probe_empty tbl (length tbl) (start_slot (hash_of recs i) (length tbl))) as [s|] eqn:PE.
    2:{ exfalso. pose proof (probe_empty_none _ _ _ PE) as NN.
        assert (F : count_some tbl = length tbl).
        { apply count_some_full. intros s Hs. destruct (probe_surj _ _ s ST Hs) as [d [D <-]]. now apply NN. }
        lia. }
    destruct (probe_empty_some _ _ _ _ PE) as [d [D [P [NE C]]]].
    assert (SL : s < length tbl) by (rewrite P; now apply probe_lt).
    assert (NTH : forall p, nth p (set_nth tbl s (Some i)) None = if p =? s then Some i else nth p tbl None).
    { intros p. now apply set_nth_nth. }
    assert (KEEP : forall p j, nth p tbl None = Some j -> nth p (set_nth tbl s (Some i)) None = Some j).
    { intros p j Hp. rewrite NTH. destruct (p =? s) eqn:E; [|exact Hp]. apply Nat.eqb_eq in E. subst p. congruence. }
    split; [rewrite set_nth_length; lia|]. split; [rewrite count_some_set by assumption; simpl; lia|]. split.
    - intros p j Hp. rewrite NTH in Hp. destruct (p =? s); [inversion Hp; now left|right; eapply HA; eauto].
    - intros i' [<-|Hin]; unfold chain; rewrite set_nth_length by exact SL.
      + exists d. split; [exact D|]. split; [rewrite <- P, NTH, Nat.eqb_refl; reflexivity|].
        intros d' Hd'. destruct (C d' Hd') as [j Hj]. exists j. split; [now apply KEEP|]. intros _. apply Hlt. eapply HA; eauto.
      + destruct (HB i' Hin) as [d0 [D0 [S0 C0]]]. exists d0. split; [exact D0|]. split; [now apply KEEP|].
        intros d' Hd'. destruct (C0 d' Hd') as [j [Hj Lj]]. exists j. split; [now apply KEEP|exact Lj].
  Qed.

  Lemma fold_inv n : forall mine tbl done,
    tinv n tbl done -> length done + length mine <= n -> (mine <> [] -> length done + length mine < n \/ length mine < n - length done) ->
    StronglySorted lt mine -> (forall i, In i mine -> i < length recs) ->
    (forall j i, In j done -> In i mine -> j < i) ->
    tinv n (fold_left (tbl_insert hs) mine tbl) (rev mine ++ done).
  Proof.
    induction mine as [|i mine IH]; intros tbl done I Hn Hn' SS Hrec Hlt; [exact I|].
    cbn [fold_left rev]. rewrite <- app_assoc. cbn [app].
    apply StronglySorted_inv in SS as [SS HF]. rewrite Forall_forall in HF.
    apply IH.
    - apply insert_inv; [exact I| |apply Hrec; now left|intros j Hj; apply Hlt; [exact Hj|now left]].
      simpl in Hn. destruct Hn' as [A|A]; [discriminate|simpl in A; lia|simpl in A; lia].
    - simpl in *. lia.
    - intros NE. simpl in *. destruct Hn' as [A|A]; [discriminate|lia|lia].
    - exact SS.
    - intros i' Hi'. apply Hrec. now right.
    - intros j i' [<-|Hj] Hi'; [now apply HF|apply Hlt; [exact Hj|now right]].
  Qed.

  Lemma seq_sorted : forall len start, StronglySorted lt (seq start len).
  Proof.
    induction len as [|len IH]; intros start; simpl; constructor; [apply IH|].
    apply Forall_forall. intros x Hx. apply in_seq in Hx. lia.
  Qed.

  Lemma filter_sorted (p : nat -> bool) : forall l, StronglySorted lt l -> StronglySorted lt (filter p l).
  Proof.
    induction l as [|x l IH]; intros SS; simpl; [constructor|].
    apply StronglySorted_inv in SS as [SS HF]. destruct (p x); [|now apply IH].
    constructor; [now apply IH|]. rewrite Forall_forall in *. intros y Hy. apply filter_In in Hy as [Hy _]. now apply HF.
  Qed.

  Theorem make_table_ok t : table_ok recs t (make_table hs t).
  Proof.
    unfold make_table. set (mine := table_members t hs).
    assert (MI : forall i, In i mine <-> i < length recs /\ (hash_of recs i mod 256 = t)%N).
    { intros i. unfold mine, table_members. rewrite filter_In, in_seq, map_length. split.
      - intros [A B]. split; [lia|]. apply N.eqb_eq in B. rewrite hs_nth' in B by lia. exact B.
      - intros [A B]. split; [lia|]. apply N.eqb_eq. rewrite hs_nth' by lia. exact B. }
    assert (I0 : tinv (2 * length mine) (repeat None (2 * length mine)) []).
    { split; [apply repeat_length|]. split; [apply count_some_repeat|]. split.
      - intros s j H. rewrite nth_repeat_none in H. discriminate.
      - intros i []. }
    pose proof (fold_inv (2 * length mine) mine _ [] I0) as F.
    rewrite app_nil_r in F.
    destruct F as [FL [FC [FA FB]]].
    - simpl. lia.
    - intros NE. left. simpl. destruct mine; [congruence|simpl; lia].
    - unfold mine, table_members. apply filter_sorted, seq_sorted.
    - intros i Hi. now apply MI.
    - intros j i [].
    - split.
      + intros s j H. apply FA in H. apply in_rev in H. now apply MI.
      + intros i Hi Ht. apply FB. apply in_rev. rewrite rev_involutive. apply MI. now split.
  Qed.
End Table.

(** The header scan of qp_header() and need_recode() agree on where the header ends: [hpos 0 w], the
    first line end met with an empty current line.  First part: getfieldlen() jumps over a field without
    passing such a place. *)
From Qv Require Import Common.Bytes Gen.GenQrdata Model.Mime Model.QrData Proofs.QrMemLemmas
  Proofs.QrNeedRecodeProofs Proofs.QrPhaseProofs Proofs.MimeTotalProofs.
Require Import Lia.

Lemma hpos_nz : forall l a b, a <> 0 -> b <> 0 -> hpos a l = hpos b l.
Proof.
  induction l as [|c r IH]; intros a b Ha Hb; [reflexivity|]. cbn [hpos].
  destruct (is_eol c).
  - destruct (Nat.eqb_spec a 0); [contradiction|]. destruct (Nat.eqb_spec b 0); [contradiction|]. reflexivity.
  - f_equal. apply IH; lia.
Qed.

Lemma hpos_noneol c r a : is_eol c = false -> hpos a (c :: r) = S (hpos 1 r).
Proof. intros H. cbn [hpos]. rewrite H. f_equal. apply hpos_nz; lia. Qed.

Lemma hpos_eol_nz c r a : is_eol c = true -> a <> 0 ->
  hpos a (c :: r) = (length (c :: r) - length (after_eol c r)) + hpos 0 (after_eol c r).
Proof. intros He Ha. apply (hpos_eol c r a He Ha). Qed.

Lemma hpos_eol_z c r : is_eol c = true -> hpos 0 (c :: r) = 0.
Proof. intros He. cbn [hpos]. now rewrite He. Qed.

(** a run of octets that are no line ends *)
Lemma hpos_run (u : bytes) : forall k a, k <= length u -> 1 <= k ->
  (forall j, j < k -> is_eol (nth j u 0%N) = false) ->
  hpos a u = k + hpos 1 (skipn k u).
Proof.
  revert u. intros u k. revert u. induction k as [|k IH]; intros u a Hk H1 Hne; [lia|].
  destruct u as [|c r]; [cbn in Hk; lia|].
  rewrite (hpos_noneol c r a (Hne 0 ltac:(lia))). cbn [skipn].
  destruct k as [|k'].
  - cbn [skipn]. reflexivity.
  - rewrite (IH r 1); [lia|cbn [length] in Hk; lia|lia|]. intros j Hj. apply (Hne (S j)). lia.
Qed.

Section Field.
Variable m : bytes.
Variables msg n : nat.
Variable Hw : msg + n <= length m.
Let u := sub m msg n.

Let u_len : length u = n.
Proof. apply sub_length. exact Hw. Qed.
Let u_at j : j < n -> at_ m (msg + j) = nth j u 0%N.
Proof. intros H. unfold u, at_. now rewrite nth_sub. Qed.
Let u_skip j : j < n -> skipn j u = nth j u 0%N :: skipn (S j) u.
Proof. intros H. apply skipn_nth_cons. rewrite u_len. exact H. Qed.

(** ghost state of the loop of getfieldlen: [z] = the current line is empty so far *)
Definition gfl_inv (a cr r : nat) (z : bool) : Prop :=
  cr + r = n /\ hpos a u = cr + hpos (if z then 0 else 1) (skipn cr u) /\
  (z = true -> 1 <= r /\ is_eol (nth cr u 0%N) = false) /\
  (z = false -> 1 <= cr /\ is_eol (nth (cr - 1) u 0%N) = false).

Definition gfl_post (a fl : nat) : Prop :=
  fl = 0 \/ (2 <= fl <= n /\ hpos a u = (fl - 2) + hpos 1 (skipn (fl - 2) u) /\
             (nth (fl - 1) u 0%N = CR -> fl < n -> nth fl u 0%N <> LF)).

Lemma gfl_hpos a : forall fuel cr r z fl, gfl_inv a cr r z -> gfl fuel m msg n cr r = Ok fl -> gfl_post a fl.
Proof.
  induction fuel as [|fuel IH]; intros cr r z fl (Hcr & Hh & Hz1 & Hz0) E; [discriminate|].
  cbn [gfl] in E.
  (* the two ways to leave the loop share this *)
  assert (Fin : forall cr2 r2, cr2 + r2 = n -> 2 <= cr2 ->
            hpos a u = (cr2 - 2) + hpos 1 (skipn (cr2 - 2) u) ->
            (nth (cr2 - 1) u 0%N = CR -> cr2 < n -> nth cr2 u 0%N <> LF) ->
            (if Nat.eqb cr2 0 then Crash 25%N else do z0 <- rd m (msg + cr2 - 1); Ok (if is_eol z0 then n - r2 else 0)) = Ok fl ->
            gfl_post a fl).
  { intros cr2 r2 Hc2 H2 Hh2 Hns E2. destruct (Nat.eqb_spec cr2 0); [lia|].
    rewrite rd_at in E2 by lia. cbn [bind] in E2. inversion E2 as [E3].
    destruct (is_eol (at_ m (msg + cr2 - 1))); [right|left; reflexivity].
    replace (n - r2) with cr2 by lia. split; [lia|]. split; [exact Hh2|exact Hns]. }
  destruct (Nat.eqb_spec r 0) as [Hr0|Hrn].
  - (* data used up *)
    subst r. cbn [bind negb Nat.eqb] in E. destruct z; [destruct (Hz1 eq_refl); lia|].
    destruct (Hz0 eq_refl) as (Hc1 & Hne).
    destruct (Nat.eqb_spec cr 0); [lia|].
    rewrite rd_at in E by lia. cbn [bind] in E.
    replace (msg + cr - 1) with (msg + (cr - 1)) in E by lia. rewrite u_at in E by lia. rewrite Hne in E.
    inversion E. left. reflexivity.
  - rewrite rd_at in E by lia. cbn [bind] in E. rewrite u_at in E by lia.
    destruct (is_eol (nth cr u 0%N)) eqn:Ee; cbn [negb] in E.
    2: { (* one more octet of the line *)
      apply (IH (S cr) (r - 1) false fl); [|exact E]. split; [lia|]. split.
      { rewrite Hh. rewrite (u_skip cr) by lia. rewrite hpos_noneol by exact Ee. lia. }
      split; [discriminate|]. intros _. split; [lia|]. replace (S cr - 1) with cr by lia. exact Ee. }
    (* line end: the line is not empty *)
    destruct z; [destruct (Hz1 eq_refl) as (_ & F); discriminate F|].
    destruct (Hz0 eq_refl) as (Hc1 & Hne).
    set (c := nth cr u 0%N) in *.
    assert (Hafter : exists k, (k = 1 \/ k = 2) /\ cr + k <= n /\
              hpos a u = (cr + k) + hpos 0 (skipn (cr + k) u) /\
              (k = 2 -> c = CR /\ nth (S cr) u 0%N = LF) /\
              (k = 1 -> S cr < n -> c = CR -> nth (S cr) u 0%N <> LF)).
    { rewrite Hh. rewrite (u_skip cr) by lia. fold c. rewrite hpos_eol_nz by (auto; discriminate).
      unfold after_eol. destruct (Nat.lt_ge_cases (S cr) n) as [Hlt|Hge].
      - rewrite (u_skip (S cr)) by lia. set (c2 := nth (S cr) u 0%N).
        destruct (N.eqb c CR && N.eqb c2 LF) eqn:Ecl.
        + apply andb_prop in Ecl as [A B]. apply N.eqb_eq in A, B. exists 2. cbn [length].
          replace (S (S (length (skipn (S (S cr)) u))) - length (skipn (S (S cr)) u)) with 2 by lia.
          replace (cr + 2) with (S (S cr)) by lia. repeat split; auto; try lia; try (intros F; lia).
        + exists 1. cbn [length].
          replace (S (S (length (skipn (S (S cr)) u))) - S (length (skipn (S (S cr)) u))) with 1 by lia.
          replace (cr + 1) with (S cr) by lia. rewrite (u_skip (S cr)) by lia. fold c2. repeat split; auto; try lia; try (intros F; lia).
          intros _ _ Hc Hl. fold c2 in Hl. rewrite Hc, Hl in Ecl. discriminate.
      - rewrite (skipn_all' u (S cr)) by lia. exists 1. cbn [length]. replace (cr + 1) with (S cr) by lia.
        rewrite (skipn_all' u (S cr)) by lia. repeat split; auto; try lia; try (intros F; lia). }
    destruct Hafter as (k & Hk & Hkn & Hhk & Hk2 & Hk1).
    (* what the two optional steps of the C do is to advance by k *)
    cbn [bind] in E. fold c in E.
    assert (Hred :
      (do again <- (if Nat.eqb (n - (cr + k)) 0 then Ok false else do x <- rd m (msg + (cr + k)); Ok (N.eqb x SP || N.eqb x HT));
       if again then gfl fuel m msg n (cr + k) (n - (cr + k)) else
       if Nat.eqb (cr + k) 0 then Crash 25%N else
       do z0 <- rd m (msg + (cr + k) - 1);
       Ok (if is_eol z0 then n - (n - (cr + k)) else 0)) = Ok fl).
    { destruct (eol_cases _ Ee) as [Ec|Ec].
      - rewrite Ec in E. change (N.eqb CR CR) with true in E. cbv iota in E. cbn [bind] in E.
        destruct (Nat.eqb_spec (r - 1) 0) as [Hz|Hnz].
        + cbn [bind] in E. assert (k = 1) by (destruct Hk as [|Hk']; [assumption|lia]). subst k.
          replace (cr + 1) with (S cr) by lia. replace (n - S cr) with (r - 1) by lia. exact E.
        + rewrite rd_at in E by lia. cbn [bind] in E. rewrite (u_at (S cr)) in E by lia.
          destruct (N.eqb_spec (nth (S cr) u 0%N) LF) as [El|Enl]; cbn [bind] in E.
          * assert (k = 2).
            { destruct Hk as [Hk'|]; [|assumption]. exfalso. apply (Hk1 Hk' ltac:(lia) Ec). exact El. }
            subst k. replace (cr + 2) with (S (S cr)) by lia. replace (n - S (S cr)) with (r - 1 - 1) by lia. exact E.
          * assert (k = 1).
            { destruct Hk as [|Hk']; [assumption|]. destruct (Hk2 Hk') as (_ & F). contradiction. }
            subst k. replace (cr + 1) with (S cr) by lia. replace (n - S cr) with (r - 1) by lia. exact E.
      - assert (Hk1' : k = 1).
        { destruct Hk as [|Hk']; [assumption|]. destruct (Hk2 Hk') as (F & _). rewrite Ec in F. discriminate. }
        subst k. rewrite Ec in E. change (N.eqb LF CR) with false in E. cbv iota in E. cbn [bind] in E.
        destruct (Nat.eqb_spec r 0) as [|_]; [contradiction|].
        rewrite rd_at in E by lia. cbn [bind] in E. rewrite u_at in E by lia. fold c in E. rewrite Ec in E.
        change (N.eqb LF LF) with true in E. cbv iota in E. cbn [bind] in E.
        replace (cr + 1) with (S cr) by lia. replace (n - S cr) with (r - 1) by lia. exact E. }
    pose proof Hred as E2. clear E Hred.
    set (cr2 := cr + k) in *. set (r2 := n - cr2) in *.
    assert (Hfin : hpos a u = (cr2 - 2) + hpos 1 (skipn (cr2 - 2) u)).
    { destruct Hk as [Hk'|Hk'].
      - (* one octet of line end: the octet before it belongs to the line *)
        replace (cr2 - 2) with (cr - 1) by (unfold cr2; lia).
        rewrite (u_skip (cr - 1)) by lia. rewrite hpos_noneol by exact Hne.
        replace (S (cr - 1)) with cr by lia. rewrite Hh. cbn [Nat.eqb]. lia.
      - replace (cr2 - 2) with cr by (unfold cr2; lia). rewrite Hh. reflexivity. }
    assert (Hns : nth (cr2 - 1) u 0%N = CR -> cr2 < n -> nth cr2 u 0%N <> LF).
    { unfold cr2. destruct Hk as [Hk'|Hk']; subst k.
      - replace (cr + 1 - 1) with cr by lia. replace (cr + 1) with (S cr) by lia. intros A B. apply Hk1; auto.
      - replace (cr + 2 - 1) with (S cr) by lia. destruct (Hk2 eq_refl) as (_ & B). rewrite B. discriminate. }
    destruct (Nat.eqb_spec r2 0) as [Hr2|Hr2].
    + cbn [bind] in E2. apply (Fin cr2 r2); auto; unfold cr2, r2 in *; lia.
    + rewrite rd_at in E2 by (unfold cr2, r2 in *; lia). cbn [bind] in E2.
      destruct (N.eqb (at_ m (msg + cr2)) SP || N.eqb (at_ m (msg + cr2)) HT) eqn:Eag.
      * (* continuation line *)
        apply (IH cr2 r2 true fl); [|exact E2]. split; [unfold cr2, r2 in *; lia|]. split; [exact Hhk|].
        split; [|discriminate]. intros _. split; [unfold cr2, r2 in *; lia|].
        rewrite <- u_at by (unfold cr2, r2 in *; lia).
        apply Bool.orb_prop in Eag as [A|A]; apply N.eqb_eq in A; rewrite A; reflexivity.
      * apply (Fin cr2 r2); auto; unfold cr2, r2 in *; lia.
Qed.

End Field.

(* ------------------------------------------------------------------ the scan of qp_header *)
From Qv Require Import Proofs.QrHeaderTotalProofs.

Lemma skipline_spec m b len : b + len <= length m -> forall fuel2 off,
  off <= len -> len - off < fuel2 ->
  exists off1,
    (fix skipline (fuel2 : nat) (off : nat) : Cres nat :=
       match fuel2 with
       | O => OutOfFuel
       | S f2 =>
           if Nat.ltb off len then
             do x <- rd m (b + off);
             if is_eol x then Ok off else skipline f2 (S off)
           else Ok off
       end) fuel2 off = Ok off1 /\ off <= off1 <= len /\
    (forall j, off <= j < off1 -> is_eol (at_ m (b + j)) = false) /\
    (off1 < len -> is_eol (at_ m (b + off1)) = true).
Proof.
  intros Hw. induction fuel2 as [|f2 IH]; intros off Ho Hf; [lia|].
  destruct (Nat.ltb_spec off len) as [Hlt|Hge].
  - rewrite rd_at by lia. cbn [bind]. destruct (is_eol (at_ m (b + off))) eqn:Ee.
    + exists off. split; [reflexivity|]. split; [lia|]. split; [intros j Hj; lia|auto].
    + destruct (IH (S off)) as (o1 & E & H1 & H2 & H3); [lia|lia|]. exists o1. split; [exact E|]. split; [lia|]. split; [|exact H3].
      intros j Hj. destruct (Nat.eq_dec j off) as [->|]; [exact Ee|apply H2; lia].
  - exists off. split; [reflexivity|]. split; [lia|]. split; [intros j Hj; lia|lia].
Qed.

Section Scan.
Variable m : bytes.
Variables b len : nat.
Variable Hw : b + len <= length m.
Let w := sub m b len.
Let P := hpos 0 w.

Let w_len : length w = len.
Proof. apply sub_length. exact Hw. Qed.
Let w_at j : j < len -> at_ m (b + j) = nth j w 0%N.
Proof. intros H. unfold w, at_. now rewrite nth_sub. Qed.
Let w_skip j : j < len -> skipn j w = nth j w 0%N :: skipn (S j) w.
Proof. intros H. apply skipn_nth_cons. rewrite w_len. exact H. Qed.

(** offset [i] of the window is the start of a line *)
Definition ls_at (i : nat) : Prop := i = 0 \/ is_eol (nth (i - 1) w 0%N) = true.

(** a line end that ends at offset [e] is complete: no CR | LF pair is cut there *)
Definition nosplit (e : nat) : Prop := nth (e - 1) w 0%N = CR -> e < len -> nth e w 0%N <> LF.
Definition fld_inv2 (f : nat * nat) : Prop := fld_inv m b len f /\ (snd f <> 0 -> ls_at (fst f) /\ nosplit (fst f + snd f)).

(** ghost state of the scan: [z] = at the start of a line *)
Definition scan_inv (off : nat) (z : bool) : Prop :=
  off <= len /\ hpos (if z then 0 else 1) (skipn off w) + off = P /\
  (z = true -> ls_at off /\ (off < len -> is_eol (nth off w 0%N) = false)) /\
  (z = false -> off < len -> is_eol (nth off w 0%N) = true \/ (S off < len /\ is_eol (nth (S off) w 0%N) = true)).

Definition scan_post (header : nat) : Prop :=
  header <= len /\ (header <> 0 -> header = P /\ P < len) /\ (header = 0 -> P = len).

Lemma after_eol_window off : off < len -> is_eol (nth off w 0%N) = true ->
  forall off1, off1 = (if Nat.ltb (S off) len && N.eqb (nth off w 0%N) CR && N.eqb (nth (S off) w 0%N) LF then S (S off) else S off) ->
  off < off1 <= len /\ hpos 1 (skipn off w) + off = hpos 0 (skipn off1 w) + off1 /\ is_eol (nth (off1 - 1) w 0%N) = true.
Proof.
  intros Hlt He off1 ->. rewrite (w_skip off) by exact Hlt. rewrite hpos_eol_nz by (auto; discriminate).
  unfold after_eol. destruct (Nat.ltb_spec (S off) len) as [H2|H2]; cbn [andb].
  - rewrite (w_skip (S off)) by exact H2. cbn [length].
    destruct (N.eqb (nth off w 0%N) CR && N.eqb (nth (S off) w 0%N) LF) eqn:E.
    + apply andb_prop in E as [_ E2]. apply N.eqb_eq in E2.
      split; [lia|]. split; [generalize (length (skipn (S (S off)) w)), (hpos 0 (skipn (S (S off)) w)); intros; lia|].
      replace (S (S off) - 1) with (S off) by lia. rewrite E2. reflexivity.
    + split; [lia|]. split; [cbn [length]; rewrite (w_skip (S off)) by exact H2;
                             generalize (length (skipn (S (S off)) w)), (hpos 0 (nth (S off) w 0%N :: skipn (S (S off)) w)); intros; lia|].
      replace (S off - 1) with off by lia. exact He.
  - rewrite (skipn_all' w (S off)) by lia. cbn [length]. split; [lia|]. split; [cbn; lia|].
    replace (S off - 1) with off by lia. exact He.
Qed.

Lemma qh_scan_spec : forall fuel off ctype cenc z,
  len - off < fuel -> scan_inv off z -> fld_inv2 ctype -> fld_inv2 cenc ->
  exists header off' ctype' cenc',
    qh_scan fuel m b len off ctype cenc = Ok (header, off', ctype', cenc') /\
    scan_post header /\ fld_inv2 ctype' /\ fld_inv2 cenc'.
Proof.
  induction fuel as [|fuel IH]; intros off ctype cenc z Hf (Ho & Hh & Hz1 & Hz0) Hct Hce; [lia|].
  cbn [qh_scan]. destruct (Nat.ltb_spec off len) as [Hlt|Hge].
  2: { do 4 eexists. split; [reflexivity|]. split; [|auto]. split; [lia|]. split; [intros F; contradiction|].
       intros _. rewrite skipn_all' in Hh by lia. destruct z; cbn in Hh; lia. }
  rewrite rd_at by lia. cbn [bind]. rewrite w_at by exact Hlt. set (c := nth off w 0%N) in *.
  assert (Rec : forall off1 z1 ct ce, off < off1 -> scan_inv off1 z1 -> fld_inv2 ct -> fld_inv2 ce ->
            exists header off' ctype' cenc',
              qh_scan fuel m b len off1 ct ce = Ok (header, off', ctype', cenc') /\
              scan_post header /\ fld_inv2 ctype' /\ fld_inv2 cenc').
  { intros off1 z1 ct ce H1 Hi H2 H3. apply (IH off1 ct ce z1); auto. lia. }
  (* a line end at [off]: the two branches of the C share this *)
  assert (Eol : is_eol c = true -> forall (iscr : bool) off1, iscr = N.eqb c CR ->
            off1 = (if Nat.ltb (S off) len && iscr && N.eqb (nth (S off) w 0%N) LF then S (S off) else S off) ->
            exists header off' ctype' cenc',
              (if Nat.eqb off1 len then qh_scan fuel m b len off1 ctype cenc else
               do c3 <- rd m (b + off1);
               if is_eol c3 then Ok (off1, off1, ctype, cenc) else qh_scan fuel m b len off1 ctype cenc)
              = Ok (header, off', ctype', cenc') /\ scan_post header /\ fld_inv2 ctype' /\ fld_inv2 cenc').
  { intros He iscr off1 -> Eo1. destruct z; [destruct (Hz1 eq_refl) as (_ & F); rewrite (F Hlt) in He; discriminate|].
    destruct (after_eol_window off Hlt He off1 Eo1) as (Ho1 & Hh1 & Hprev).
    assert (Hinv1 : (off1 < len -> is_eol (nth off1 w 0%N) = false) -> scan_inv off1 true).
    { intros Hn. split; [lia|]. split; [cbn [Nat.eqb] in Hh |- *; lia|]. split; [|discriminate].
      intros _. split; [right; exact Hprev|exact Hn]. }
    destruct (Nat.eqb_spec off1 len) as [Hend|Hnend].
    - apply (Rec off1 true); [lia| |exact Hct|exact Hce]. apply Hinv1. lia.
    - rewrite rd_at by lia. cbn [bind]. rewrite w_at by lia.
      destruct (is_eol (nth off1 w 0%N)) eqn:E3.
      + do 4 eexists. split; [reflexivity|]. split; [|auto]. split; [lia|]. split; [|lia].
        intros _. rewrite (w_skip off1) in Hh1 by lia. rewrite hpos_eol_z in Hh1 by exact E3.
        cbn [Nat.eqb] in Hh. lia.
      + apply (Rec off1 true); [lia| |exact Hct|exact Hce]. apply Hinv1. intros _. reflexivity. }
  destruct (N.eqb_spec c CR) as [HCR|HnCR].
  { cbv zeta.
    assert (Eoff : (if Nat.ltb (S off) len then do c2 <- rd m (b + S off); Ok (if N.eqb c2 LF then S (S off) else S off) else Ok (S off))
                   = Ok (if Nat.ltb (S off) len && true && N.eqb (nth (S off) w 0%N) LF then S (S off) else S off)).
    { rewrite Bool.andb_true_r.
      destruct (Nat.ltb_spec (S off) len); cbn [andb]; [|reflexivity].
      rewrite rd_at by lia. cbn [bind]. rewrite w_at by lia. reflexivity. }
    assert (Hec : is_eol c = true) by (rewrite HCR; reflexivity).
    rewrite Eoff. cbn [bind]. apply (Eol Hec true); [first [reflexivity | symmetry; apply N.eqb_eq; exact HCR]|reflexivity]. }
  destruct (N.eqb_spec c LF) as [HLF|HnLF].
  { cbv zeta. assert (Hec : is_eol c = true) by (rewrite HLF; reflexivity). apply (Eol Hec false); [first [reflexivity | symmetry; apply N.eqb_neq; exact HnCR]|].
    now rewrite Bool.andb_false_r. }
  assert (Hce0 : is_eol c = false).
  { unfold is_eol. apply N.eqb_neq in HnCR, HnLF. now rewrite HnCR, HnLF. }
  cbv zeta.
  (* the default: skip to the end of the line *)
  destruct (skipline_spec m b len Hw (S len) (S off)) as (off1 & Esk & Hsk & Hskne & Hskeol); [lia|lia|].
  assert (Hinv1 : scan_inv off1 false).
  { split; [lia|]. split.
    - rewrite <- Hh. rewrite (hpos_run (skipn off w) (off1 - off) (if z then 0 else 1)).
      + rewrite skipn_skipn'. replace (off + (off1 - off)) with off1 by lia. lia.
      + rewrite skipn_length, w_len. lia.
      + lia.
      + intros j Hj. rewrite nth_skipn'. destruct (Nat.eq_dec j 0) as [->|].
        * rewrite Nat.add_0_r. exact Hce0.
        * rewrite <- w_at by lia. apply Hskne. lia.
    - split; [discriminate|]. intros _ Hl1. left. rewrite <- w_at by lia. apply Hskeol. exact Hl1. }
  assert (Dflt : forall ct ce, fld_inv2 ct -> fld_inv2 ce ->
            exists header off' ctype' cenc',
              (do o1 <- Ok off1; qh_scan fuel m b len o1 ct ce) = Ok (header, off', ctype', cenc') /\
              scan_post header /\ fld_inv2 ctype' /\ fld_inv2 cenc').
  { intros ct ce H1 H2. cbn [bind]. apply (Rec off1 false); [lia|exact Hinv1|exact H1|exact H2]. }
  rewrite Esk.
  destruct (N.eqb c 99 || N.eqb c 67) eqn:Ecc; [|apply Dflt; assumption].
  (* a field name is looked for here; it can only match at the start of a line *)
  assert (Field : forall lit, forallb (fun x => negb (N.eqb (to_lower CR) (to_lower x)) && negb (N.eqb (to_lower LF) (to_lower x))) lit = true ->
            CT_LEN <= S (length lit) ->
            exists isf, (if Nat.ltb (length lit) (len - off) then casecmp_at m (b + S off) lit else Ok false) = Ok isf /\
              (isf = true -> z = true /\ exists fl, getfieldlen m (b + off) (len - off) = Ok fl /\
                 (fl = 0 \/ (CT_LEN < fl /\ 2 <= fl /\ off + fl <= len /\ field_ok m (b + off) fl /\
                             scan_inv (off + fl - 2) false /\ nosplit (off + fl))))).
  { intros lit Hlit Hlen. destruct (Nat.ltb_spec (length lit) (len - off)) as [Hr|Hr].
    - destruct (casecmp_in m lit (b + S off)) as (isf & Eisf & Hm); [lia|].
      exists isf. split; [exact Eisf|]. intros Ht. specialize (Hm Ht).
      assert (Hnext : is_eol (nth (S off) w 0%N) = false).
      { rewrite <- w_at by (unfold CT_LEN in Hlen; lia).
        replace (b + S off) with (b + S off + 0) by lia.
        apply (matched_not_eol _ (nth 0 lit 0%N) lit Hlit); [apply nth_In; unfold CT_LEN in Hlen; lia|apply Hm; unfold CT_LEN in Hlen; lia]. }
      assert (Hzt : z = true).
      { destruct z; [reflexivity|]. destruct (Hz0 eq_refl Hlt) as [F|(_ & F)]; [fold c in F; rewrite Hce0 in F; discriminate|].
        rewrite Hnext in F. discriminate. }
      split; [exact Hzt|].
      destruct (getfieldlen_ok m (b + off) (len - off)) as (fl & Efl & Hg); [lia|lia|].
      exists fl. split; [exact Efl|]. destruct (Nat.eq_dec fl 0) as [|Hnz]; [left; assumption|right].
      assert (Hlong : S (length lit) < fl).
      { apply (field_longer m (b + off) (len - off) fl); [exact Hg|exact Hnz|].
        intros j Hj. destruct j as [|j]; [rewrite Nat.add_0_r, w_at by lia; exact Hce0|].
        replace (b + off + S j) with (b + S off + j) by lia.
        apply (matched_not_eol _ (nth j lit 0%N) lit Hlit); [apply nth_In; lia|apply Hm; lia]. }
      destruct Hg as [|(Hr2 & He)]; [contradiction|].
      split; [lia|]. split; [lia|]. split; [lia|]. split; [repeat split; [lia|lia|exact He]|].
      (* the scan goes on two octets before the end of the field *)
      assert (Hsub : sub m (b + off) (len - off) = skipn off w).
      { rewrite <- (sub_sub m b len off (len - off)) by lia. fold w. rewrite <- (sub_all_skipn w off). rewrite w_len. reflexivity. }
      unfold getfieldlen in Efl.
      assert (Hpost : gfl_post m (b + off) (len - off) (if z then 0 else 1) fl).
      { apply (gfl_hpos m (b + off) (len - off) ltac:(lia) (if z then 0 else 1) (2 * (len - off) + 2) 0 (len - off) true fl); [|exact Efl].
        split; [lia|]. split; [cbn [skipn]; rewrite Hsub, Hzt; cbn; reflexivity|]. split; [|discriminate].
        intros _. split; [lia|]. rewrite Hsub. rewrite nth_skipn'. rewrite Nat.add_0_r. exact Hce0. }
      destruct Hpost as [|(Hfl2 & Hhp & Hnsp)]; [contradiction|]. rewrite Hsub in Hhp, Hnsp.
      assert (Hnosplit : nosplit (off + fl)).
      { unfold nosplit. intros A B. rewrite !nth_skipn' in Hnsp. replace (off + (fl - 1)) with (off + fl - 1) in Hnsp by lia.
        apply Hnsp; [exact A|lia]. }
      split; [|exact Hnosplit]. split; [lia|]. split.
      + rewrite skipn_skipn' in Hhp. replace (off + (fl - 2)) with (off + fl - 2) in Hhp by lia. cbn [Nat.eqb]. lia.
      + split; [discriminate|]. intros _ Hlt2.
        (* the octet before the last of the field *)
        right. split; [lia|]. replace (S (off + fl - 2)) with (off + fl - 1) by lia.
        rewrite <- w_at by lia. replace (b + (off + fl - 1)) with (b + off + fl - 1) by lia. exact He.
    - exists false. split; [reflexivity|discriminate]. }
  assert (Hls : z = true -> ls_at off) by (intros Hzt; destruct (Hz1 Hzt); assumption).
  destruct (Field CT_TAIL eq_refl ltac:(unfold CT_LEN; cbn; lia)) as (isct & Eisct & Hisct). rewrite Eisct. cbn [bind].
  destruct isct.
  - destruct (Hisct eq_refl) as (Hzt & fl & Efl & Hfl). rewrite Efl. cbn [bind].
    destruct (Nat.eqb_spec fl 0) as [Hz|Hnz]; cbn [negb].
    + apply Dflt; [split; [left; reflexivity|intros F; contradiction]|assumption].
    + destruct Hfl as [|(H13 & H2 & Hin & Hfo & Hinv2 & Hnsp)]; [contradiction|].
      destruct (Nat.ltb_spec fl 2) as [|_]; [lia|].
      apply (Rec (off + fl - 2) false); [unfold CT_LEN in H13; lia|exact Hinv2| |assumption].
      split; [right; cbn [fst snd]; auto|]. intros _. cbn [fst snd]. split; [apply Hls; exact Hzt|exact Hnsp].
  - destruct (Field CTE_TAIL eq_refl ltac:(unfold CT_LEN; cbn; lia)) as (iscte & Eiscte & Hiscte). rewrite Eiscte. cbn [bind].
    destruct iscte; [|apply Dflt; assumption].
    destruct (Hiscte eq_refl) as (Hzt & fl & Efl & Hfl). rewrite Efl. cbn [bind].
    destruct (Nat.eqb_spec fl 0) as [Hz|Hnz]; cbn [negb].
    + apply Dflt; [assumption|split; [left; reflexivity|intros F; contradiction]].
    + destruct Hfl as [|(H13 & H2 & Hin & Hfo & Hinv2 & Hnsp)]; [contradiction|].
      destruct (Nat.ltb_spec fl 2) as [|_]; [lia|].
      apply (Rec (off + fl - 2) false); [unfold CT_LEN in H13; lia|exact Hinv2|assumption|].
      split; [right; cbn [fst snd]; auto|]. intros _. cbn [fst snd]. split; [apply Hls; exact Hzt|exact Hnsp].
Qed.

End Scan.
Definition fle (off : nat) (f : nat * nat) : Prop := snd f <> 0 -> fst f <= off.

Lemma skipline_ge m b len : forall fuel2 off off1,
    (fix skipline (fuel2 : nat) (off : nat) : Cres nat :=
       match fuel2 with
       | O => OutOfFuel
       | S f2 =>
           if Nat.ltb off len then
             do x <- rd m (b + off);
             if is_eol x then Ok off else skipline f2 (S off)
           else Ok off
       end) fuel2 off = Ok off1 -> off <= off1.
Proof.
  induction fuel2 as [|f2 IH]; intros off off1 E; [discriminate|].
  destruct (Nat.ltb off len); [|inversion E; lia].
  destruct (rd m (b + off)) as [x| |]; cbn [bind] in E; try discriminate.
  destruct (is_eol x); [inversion E; lia|]. apply IH in E. lia.
Qed.

Lemma qh_scan_S fu m b len off ctype cenc : qh_scan (S fu) m b len off ctype cenc =
      if Nat.ltb off len then
        do c <- rd m (b + off);
        if N.eqb c CR then
          let off := S off in
          do off <- (if Nat.ltb off len then do c2 <- rd m (b + off); Ok (if N.eqb c2 LF then S off else off) else Ok off);
          if Nat.eqb off len then qh_scan fu m b len off ctype cenc else
          do c3 <- rd m (b + off);
          if is_eol c3 then Ok (off, off, ctype, cenc) else qh_scan fu m b len off ctype cenc
        else if N.eqb c LF then
          let off := S off in
          if Nat.eqb off len then qh_scan fu m b len off ctype cenc else
          do c3 <- rd m (b + off);
          if is_eol c3 then Ok (off, off, ctype, cenc) else qh_scan fu m b len off ctype cenc
        else
          (* case 'c' / 'C' first, then the default: skip to the end of the line *)
          let skip :=
            (fix skipline (fuel2 : nat) (off : nat) : Cres nat :=
               match fuel2 with
               | O => OutOfFuel
               | S f2 =>
                   if Nat.ltb off len then
                     do x <- rd m (b + off);
                     if is_eol x then Ok off else skipline f2 (S off)
                   else Ok off
               end) (S len) (S off) in
          let dflt (ctype cenc : nat * nat) :=
            do off1 <- skip; qh_scan fu m b len off1 ctype cenc in
          if N.eqb c 99 || N.eqb c 67 then
            let rest := len - off in
            do isct <- (if Nat.ltb (length CT_TAIL) rest then casecmp_at m (b + S off) CT_TAIL else Ok false);
            if isct then
              do fl <- getfieldlen m (b + off) (len - off);
              if negb (Nat.eqb fl 0) then
                if Nat.ltb fl 2 then Crash 31%N else
                qh_scan fu m b len (off + fl - 2) (off, fl) cenc
              else dflt (fst ctype, 0) cenc
            else
              do iscte <- (if Nat.ltb (length CTE_TAIL) rest then casecmp_at m (b + S off) CTE_TAIL else Ok false);
              if iscte then
                do fl <- getfieldlen m (b + off) (len - off);
                if negb (Nat.eqb fl 0) then
                  if Nat.ltb fl 2 then Crash 31%N else
                  qh_scan fu m b len (off + fl - 2) ctype (off, fl)
                else dflt ctype (fst cenc, 0)
              else dflt ctype cenc
          else dflt ctype cenc
      else Ok (0, off, ctype, cenc).
Proof. reflexivity. Qed.

Lemma qh_scan_mono m b len : forall fuel off ct ce h o' ct' ce',
  qh_scan fuel m b len off ct ce = Ok (h, o', ct', ce') -> h <> 0 -> fle off ct -> fle off ce ->
  off <= h /\ fle h ct' /\ fle h ce'.
Proof.
  induction fuel as [|fuel IH]; intros off ct ce h o' ct' ce' E Hh Hct Hce; [discriminate|].
  rewrite qh_scan_S in E.
  assert (Up : forall off1 f, off <= off1 -> fle off f -> fle off1 f) by (intros off1 f H1 H2 Hn; specialize (H2 Hn); lia).
  assert (Mono : forall off1 c1 c2, off <= off1 -> fle off c1 -> fle off c2 ->
            qh_scan fuel m b len off1 c1 c2 = Ok (h, o', ct', ce') -> off <= h /\ fle h ct' /\ fle h ce').
  { intros off1 c1 c2 H1 H2 H3 E1. destruct (IH off1 c1 c2 h o' ct' ce' E1 Hh (Up _ _ H1 H2) (Up _ _ H1 H3)) as (A & B & C). repeat split; auto. lia. }
  destruct (Nat.ltb off len); [|inversion E; subst; contradiction].
  destruct (rd m (b + off)) as [c| |]; cbn [bind] in E; try discriminate.
  destruct (N.eqb c CR).
  { cbv zeta in E.
    destruct (if Nat.ltb (S off) len then do c2 <- rd m (b + S off); Ok (if N.eqb c2 LF then S (S off) else S off) else Ok (S off)) as [off1| |] eqn:Eo; cbn [bind] in E; try discriminate.
    assert (Ho1 : off < off1).
    { destruct (Nat.ltb (S off) len); [|inversion Eo; lia]. destruct (rd m (b + S off)); cbn [bind] in Eo; try discriminate.
      destruct (N.eqb a LF); inversion Eo; lia. }
    destruct (Nat.eqb off1 len); [apply (Mono off1 ct ce); auto; lia|].
    destruct (rd m (b + off1)) as [c3| |]; cbn [bind] in E; try discriminate.
    destruct (is_eol c3); [|apply (Mono off1 ct ce); auto; lia].
    inversion E; subst. repeat split; [lia|apply Up; auto; lia|apply Up; auto; lia]. }
  destruct (N.eqb c LF).
  { cbv zeta in E. destruct (Nat.eqb (S off) len); [apply (Mono (S off) ct ce); auto|].
    destruct (rd m (b + S off)) as [c3| |]; cbn [bind] in E; try discriminate.
    destruct (is_eol c3); [|apply (Mono (S off) ct ce); auto].
    inversion E; subst. repeat split; [lia|apply Up; auto|apply Up; auto]. }
  pose proof (skipline_ge m b len (S len) (S off)) as Hsk. cbn [bind] in Hsk.
  match type of E with context [bind ?sk (fun off1 => qh_scan fuel m b len off1 (fst ct, 0) ce)] => set (skip := sk) in E, Hsk end.
  cbv zeta in E.
  assert (D : forall c1 c2, fle off c1 -> fle off c2 -> (do off1 <- skip; qh_scan fuel m b len off1 c1 c2) = Ok (h, o', ct', ce') -> off <= h /\ fle h ct' /\ fle h ce').
  { intros c1 c2 H1 H2 E1. destruct skip as [off1| |]; cbn [bind] in E1; try discriminate.
    specialize (Hsk off1 eq_refl). apply (Mono off1 c1 c2); auto; lia. }
  clearbody skip.
  assert (Z : forall s, fle off (s, 0)) by (intros s F; cbn in F; contradiction).
  destruct (N.eqb c 99 || N.eqb c 67); [|apply (D ct ce); auto].
  match type of E with context [bind ?x _] => destruct x as [isct| |]; cbn [bind] in E; try discriminate end.
  destruct isct.
  - destruct (getfieldlen m (b + off) (len - off)) as [fl| |]; cbn [bind] in E; try discriminate.
    destruct (Nat.eqb fl 0); cbn [negb] in E; [apply (D (fst ct, 0) ce); auto|].
    destruct (Nat.ltb_spec fl 2); [discriminate|].
    apply (Mono (off + fl - 2) (off, fl) ce); auto; [lia|intros _; cbn; lia].
  - match type of E with context [bind ?x _] => destruct x as [iscte| |]; cbn [bind] in E; try discriminate end.
    destruct iscte; [|apply (D ct ce); auto].
    destruct (getfieldlen m (b + off) (len - off)) as [fl| |]; cbn [bind] in E; try discriminate.
    destruct (Nat.eqb fl 0); cbn [negb] in E; [apply (D ct (fst ce, 0)); auto|].
    destruct (Nat.ltb_spec fl 2); [discriminate|].
    apply (Mono (off + fl - 2) ct (off, fl)); auto; [lia|intros _; cbn; lia].
Qed.

(* ------------------------------------------------------------------ the recorded field has the name *)
Lemma casecmp_true m : forall lit p, casecmp_at m p lit = Ok true ->
  (lit <> [] -> p + length lit <= length m) /\ map to_lower (sub m p (length lit)) = map to_lower lit.
Proof.
  induction lit as [|x lit IH]; intros p E.
  - cbn [length]. rewrite sub_0. split; [intros H; contradiction|reflexivity].
  - cbn [casecmp_at] in E. destruct (rd m p) as [c| |] eqn:Ec; cbn [bind] in E; try discriminate.
    destruct (N.eqb_spec (to_lower c) (to_lower x)) as [Ex|]; [|discriminate].
    destruct (IH (S p) E) as (H1 & H2). unfold rd in Ec. destruct (nth_error m p) as [y|] eqn:En; [|discriminate].
    inversion Ec; subst y. cbn [length].
    assert (Hp : p < length m) by (apply nth_error_Some; congruence).
    split.
    + intros _. destruct lit as [|x2 l2]; [cbn [length]; lia|]. specialize (H1 ltac:(discriminate)). cbn [length] in *. lia.
    + assert (Hs : sub m p (S (length lit)) = c :: sub m (S p) (length lit)).
      { unfold sub. rewrite (skipn_nth_cons m p 0%N Hp). cbn [firstn]. f_equal. apply nth_error_nth. exact En. }
      rewrite Hs. cbn [map]. rewrite Ex, H2. reflexivity.
Qed.

Definition CTE_LOWER : bytes := map to_lower (67%N :: CTE_TAIL).   (* "content-transfer-encoding:" *)

(** a recorded Content-Transfer-Encoding field starts with that name (in any case) and is as long as
    getfieldlen() says *)
Definition cte_named (m : bytes) (b len : nat) (f : nat * nat) : Prop :=
  snd f <> 0 -> map to_lower (sub m (b + fst f) (length CTE_LOWER)) = CTE_LOWER /\
                getfieldlen m (b + fst f) (len - fst f) = Ok (snd f).

Lemma qh_scan_cte m b len : forall fuel off ct ce h o' ct' ce',
  qh_scan fuel m b len off ct ce = Ok (h, o', ct', ce') -> cte_named m b len ce -> cte_named m b len ce'.
Proof.
  induction fuel as [|fuel IH]; intros off ct ce h o' ct' ce' E Hce; [discriminate|].
  rewrite qh_scan_S in E.
  assert (Rec : forall off1 c1 c2, cte_named m b len c2 ->
            qh_scan fuel m b len off1 c1 c2 = Ok (h, o', ct', ce') -> cte_named m b len ce').
  { intros off1 c1 c2 H2 E1. apply (IH off1 c1 c2 h o' ct' ce' E1 H2). }
  destruct (Nat.ltb off len); [|inversion E; subst; exact Hce].
  destruct (rd m (b + off)) as [c| |] eqn:Erd; cbn [bind] in E; try discriminate.
  destruct (N.eqb c CR).
  { cbv zeta in E.
    destruct (if Nat.ltb (S off) len then do c2 <- rd m (b + S off); Ok (if N.eqb c2 LF then S (S off) else S off) else Ok (S off)) as [off1| |] eqn:Eo; cbn [bind] in E; try discriminate.
    destruct (Nat.eqb off1 len); [apply (Rec off1 ct ce); auto|].
    destruct (rd m (b + off1)) as [c3| |]; cbn [bind] in E; try discriminate.
    destruct (is_eol c3); [|apply (Rec off1 ct ce); auto].
    inversion E; subst. exact Hce. }
  destruct (N.eqb c LF).
  { cbv zeta in E. destruct (Nat.eqb (S off) len); [apply (Rec (S off) ct ce); auto|].
    destruct (rd m (b + S off)) as [c3| |]; cbn [bind] in E; try discriminate.
    destruct (is_eol c3); [|apply (Rec (S off) ct ce); auto].
    inversion E; subst. exact Hce. }
  match type of E with context [bind ?sk (fun off1 => qh_scan fuel m b len off1 (fst ct, 0) ce)] => set (skip := sk) in E end.
  cbv zeta in E.
  assert (D : forall c1 c2, cte_named m b len c2 -> (do off1 <- skip; qh_scan fuel m b len off1 c1 c2) = Ok (h, o', ct', ce') -> cte_named m b len ce').
  { intros c1 c2 H2 E1. destruct skip as [off1| |]; cbn [bind] in E1; try discriminate. apply (Rec off1 c1 c2); auto. }
  clearbody skip.
  assert (Z : forall s, cte_named m b len (s, 0)) by (intros s F; cbn in F; contradiction).
  destruct (N.eqb c 99 || N.eqb c 67) eqn:Ecc; [|apply (D ct ce); auto].
  match type of E with context [bind ?x _] => destruct x as [isct| |]; cbn [bind] in E; try discriminate end.
  destruct isct.
  - destruct (getfieldlen m (b + off) (len - off)) as [fl| |]; cbn [bind] in E; try discriminate.
    destruct (Nat.eqb fl 0); cbn [negb] in E; [apply (D (fst ct, 0) ce); auto|].
    destruct (Nat.ltb_spec fl 2); [discriminate|].
    apply (Rec (off + fl - 2) (off, fl) ce); auto.
  - match type of E with context [bind ?x _] => destruct x as [iscte| |] eqn:Ecte; cbn [bind] in E; try discriminate end.
    destruct iscte; [|apply (D ct ce); auto].
    destruct (getfieldlen m (b + off) (len - off)) as [fl| |] eqn:Egf; cbn [bind] in E; try discriminate.
    destruct (Nat.eqb fl 0); cbn [negb] in E; [apply (D ct (fst ce, 0)); auto|].
    destruct (Nat.ltb_spec fl 2); [discriminate|].
    apply (Rec (off + fl - 2) ct (off, fl)); auto.
    intros _. cbn [fst snd]. split; [|exact Egf].
    destruct (Nat.ltb (length CTE_TAIL) (len - off)); [|inversion Ecte].
    destruct (casecmp_true m CTE_TAIL (b + S off) Ecte) as (Hin & Hmap).
    specialize (Hin ltac:(discriminate)).
    apply rd_inv in Erd as (Hlt & Hc).
    assert (Hs : sub m (b + off) (length CTE_LOWER) = c :: sub m (b + S off) (length CTE_TAIL)).
    { unfold sub. rewrite (skipn_nth_cons m (b + off) 0%N Hlt). replace (S (b + off)) with (b + S off) by lia.
      change (length CTE_LOWER) with (S (length CTE_TAIL)). cbn [firstn]. f_equal. exact (eq_sym Hc). }
    rewrite Hs. cbn [map]. rewrite Hmap. unfold CTE_LOWER. cbn [map]. f_equal.
    apply Bool.orb_true_iff in Ecc as [Ec|Ec]; apply N.eqb_eq in Ec; rewrite Ec; reflexivity.
Qed.

Definition CT_LOWER : bytes := map to_lower (67%N :: CT_TAIL).   (* "content-type:" *)

Definition ct_named (m : bytes) (b len : nat) (f : nat * nat) : Prop :=
  snd f <> 0 -> map to_lower (sub m (b + fst f) (length CT_LOWER)) = CT_LOWER /\
                getfieldlen m (b + fst f) (len - fst f) = Ok (snd f).

Lemma qh_scan_ctn m b len : forall fuel off ct ce h o' ct' ce',
  qh_scan fuel m b len off ct ce = Ok (h, o', ct', ce') -> ct_named m b len ct -> ct_named m b len ct'.
Proof.
  induction fuel as [|fuel IH]; intros off ct ce h o' ct' ce' E Hct; [discriminate|].
  rewrite qh_scan_S in E.
  assert (Rec : forall off1 c1 c2, ct_named m b len c1 ->
            qh_scan fuel m b len off1 c1 c2 = Ok (h, o', ct', ce') -> ct_named m b len ct').
  { intros off1 c1 c2 H2 E1. apply (IH off1 c1 c2 h o' ct' ce' E1 H2). }
  destruct (Nat.ltb off len); [|inversion E; subst; exact Hct].
  destruct (rd m (b + off)) as [c| |] eqn:Erd; cbn [bind] in E; try discriminate.
  destruct (N.eqb c CR).
  { cbv zeta in E.
    destruct (if Nat.ltb (S off) len then do c2 <- rd m (b + S off); Ok (if N.eqb c2 LF then S (S off) else S off) else Ok (S off)) as [off1| |] eqn:Eo; cbn [bind] in E; try discriminate.
    destruct (Nat.eqb off1 len); [apply (Rec off1 ct ce); auto|].
    destruct (rd m (b + off1)) as [c3| |]; cbn [bind] in E; try discriminate.
    destruct (is_eol c3); [|apply (Rec off1 ct ce); auto].
    inversion E; subst. exact Hct. }
  destruct (N.eqb c LF).
  { cbv zeta in E. destruct (Nat.eqb (S off) len); [apply (Rec (S off) ct ce); auto|].
    destruct (rd m (b + S off)) as [c3| |]; cbn [bind] in E; try discriminate.
    destruct (is_eol c3); [|apply (Rec (S off) ct ce); auto].
    inversion E; subst. exact Hct. }
  match type of E with context [bind ?sk (fun off1 => qh_scan fuel m b len off1 (fst ct, 0) ce)] => set (skip := sk) in E end.
  cbv zeta in E.
  assert (D : forall c1 c2, ct_named m b len c1 -> (do off1 <- skip; qh_scan fuel m b len off1 c1 c2) = Ok (h, o', ct', ce') -> ct_named m b len ct').
  { intros c1 c2 H2 E1. destruct skip as [off1| |]; cbn [bind] in E1; try discriminate. apply (Rec off1 c1 c2); auto. }
  clearbody skip.
  assert (Z : forall s, ct_named m b len (s, 0)) by (intros s F; cbn in F; contradiction).
  destruct (N.eqb c 99 || N.eqb c 67) eqn:Ecc; [|apply (D ct ce); auto].
  match type of E with context [bind ?x _] => destruct x as [isct| |] eqn:Ect; cbn [bind] in E; try discriminate end.
  destruct isct.
  - destruct (getfieldlen m (b + off) (len - off)) as [fl| |] eqn:Egf; cbn [bind] in E; try discriminate.
    destruct (Nat.eqb fl 0); cbn [negb] in E; [apply (D (fst ct, 0) ce); auto|].
    destruct (Nat.ltb_spec fl 2); [discriminate|].
    apply (Rec (off + fl - 2) (off, fl) ce); auto.
    intros _. cbn [fst snd]. split; [|exact Egf].
    destruct (Nat.ltb (length CT_TAIL) (len - off)); [|inversion Ect].
    destruct (casecmp_true m CT_TAIL (b + S off) Ect) as (Hin & Hmap).
    specialize (Hin ltac:(discriminate)).
    apply rd_inv in Erd as (Hlt & Hc).
    assert (Hs : sub m (b + off) (length CT_LOWER) = c :: sub m (b + S off) (length CT_TAIL)).
    { unfold sub. rewrite (skipn_nth_cons m (b + off) 0%N Hlt). replace (S (b + off)) with (b + S off) by lia.
      change (length CT_LOWER) with (S (length CT_TAIL)). cbn [firstn]. f_equal. exact (eq_sym Hc). }
    rewrite Hs. cbn [map]. rewrite Hmap. unfold CT_LOWER. cbn [map]. f_equal.
    apply Bool.orb_true_iff in Ecc as [Ec|Ec]; apply N.eqb_eq in Ec; rewrite Ec; reflexivity.
  - match type of E with context [bind ?x _] => destruct x as [iscte| |]; cbn [bind] in E; try discriminate end.
    destruct iscte; [|apply (D ct ce); auto].
    destruct (getfieldlen m (b + off) (len - off)) as [fl| |]; cbn [bind] in E; try discriminate.
    destruct (Nat.eqb fl 0); cbn [negb] in E; [apply (D ct (fst ce, 0)); auto|].
    destruct (Nat.ltb_spec fl 2); [discriminate|].
    apply (Rec (off + fl - 2) ct (off, fl)); auto.
Qed.

(** C07 on the recoding path, for a message that is no multipart: what send_data writes is the header
    of the message with the Content-Transfer-Encoding field taken out and the two lines of recodeheader()
    in its place (lines folded with CRLF SP where they were too long), followed by the body as
    quoted-printable that the strict decoder turns back into the body, or by the body as it is. *)
From Qv Require Import Common.Bytes Gen.GenQrdata Model.Mime Model.QrData Model.QrDataL2 Proofs.QrMemLemmas
  Spec.SmtpDataSpec Spec.DeliverSpec Proofs.QrPlainProofs Proofs.QrNeedRecodeProofs Proofs.QrPlainSpecProofs
  Proofs.QrQpProofs Proofs.QrQpDecodeProofs Proofs.QrWireProofs Proofs.QrPhaseProofs Proofs.QrScanProofs
  Proofs.MimeTotalProofs Proofs.QrWrapHeaderProofs Proofs.QrPiecesProofs Proofs.QrSendQpTotalProofs
  Proofs.QrEntityProofs.
Require Import Lia.

(** what was written for the body behind the header *)
Definition body_sent (br : bool) (body B : bytes) : Prop :=
  if br then qp_roundtrip body B else B = stuff (split_lines body).

Lemma qp_roundtrip_nil : qp_roundtrip [] [].
Proof. exists []. split; [reflexivity|left; reflexivity]. Qed.

(** the body of a non-multipart entity: the octets written, with the CRLF the terminator will add *)
Lemma body_content (m : bytes) (h : nat) (br : bool) (st1 : St) : h <= length m -> byte_list m ->
  exists st2 O,
    (if br then liftS (recode_qp m h (length m - h) st1) else liftS (send_plain m h (length m - h) st1)) = Ok (Done tt st2) /\
    outof st2 = outof st1 ++ O /\
    (h = length m -> st2 = st1 /\ O = []) /\
    (h < length m -> body_sent br (skipn h m) (O ++ (if lastlf st2 then [] else CRLF))).
Proof.
  intros Hh Hb.
  assert (Hw : h + (length m - h) <= length m) by lia.
  assert (Esub : sub m h (length m - h) = skipn h m) by apply sub_all_skipn.
  destruct br; unfold liftS.
  - destruct (recode_qp_ok m h (length m - h) Hw st1) as (vs & st2 & E & Ho & Hz & Hnz). rewrite Esub in Ho.
    rewrite E. cbn [bind]. exists st2, (qp_enc vs 0 None (skipn h m)). split; [reflexivity|]. split; [exact Ho|]. split.
    + intros Eh. split; [apply Hz; lia|]. rewrite Eh, skipn_all. reflexivity.
    + intros Hlt. unfold body_sent.
      assert (Hbw : byte_list (skipn h m)) by (rewrite <- Esub; apply Forall_sub; exact Hb).
      destruct (qp_enc_roundtrip (skipn h m) vs Hbw) as (Hne & Hrt). cbv zeta in Hne, Hrt.
      assert (Hwne : skipn h m <> []).
      { intros Ee. apply (f_equal (@length N)) in Ee. rewrite skipn_length in Ee. cbn in Ee. lia. }
      specialize (Hne Hwne). rewrite (Hnz ltac:(lia)), Ho. rewrite last_is_lf_app by exact Hne.
      unfold at_bol in Hrt. destruct (qp_enc vs 0 None (skipn h m)); [contradiction|exact Hrt].
  - destruct (send_plain_ok m h (length m - h) Hw st1) as (st2 & E & Ho & Hz & Hnz). rewrite Esub in Ho.
    rewrite E. cbn [bind]. exists st2, (plain_enc false (skipn h m)). split; [reflexivity|]. split; [exact Ho|]. split.
    + intros Eh. split; [apply Hz; lia|]. rewrite Eh, skipn_all. reflexivity.
    + intros Hlt. unfold body_sent.
      assert (Hwne : skipn h m <> []).
      { intros Ee. apply (f_equal (@length N)) in Ee. rewrite skipn_length in Ee. cbn in Ee. lia. }
      rewrite (Hnz ltac:(lia)), Ho.
      destruct (skipn h m) as [|c r] eqn:Es; [contradiction|].
      rewrite last_is_lf_app by apply plain_enc_nonempty. rewrite plain_enc_last by discriminate.
      change (stuff (split_lines (c :: r))) with (rendering false (c :: r)). rewrite <- (plain_enc_spec (c :: r) false).
      unfold open_line. destruct (ends_eol (c :: r)); reflexivity.
Qed.

Lemma term_nolf : TERM_NOLF = CRLF ++ TERM_LF.
Proof. reflexivity. Qed.

Theorem send_data_content_nomulti (m helo : bytes) (ext8 : bool) :
  helo_ok helo -> byte_list m ->
  (forall ls ll bs bl, is_multipart m ls ll <> Ok (MpYes bs bl)) ->
  forall fl st, send_data m helo ext8 = Ok (fl, true, Done tt st) ->
  let br := f8 fl || fline fl in
  exists h s l X1 X2 B extra,
    (exists ct, qh_view m 0 (length m) = Ok (h, ct, (s, l))) /\
    1 <= h <= length m /\
    (h = hpos 0 m \/ exists c0 r, m = c0 :: r /\ is_eol c0 = true /\ skipn h m = after_eol c0 r) /\
    (l <> 0 -> s + l <= length m /\ s <= h /\ (s = 0 \/ is_eol (nth (s - 1) m 0%N) = true) /\
               is_eol (nth (s + l - 1) m 0%N) = true /\
               map to_lower (sub m s (length CTE_LOWER)) = CTE_LOWER /\ getfieldlen m s (length m - s) = Ok l) /\
    let cut := br && negb (Nat.eqb l 0) in
    let s' := if cut then s else 0 in
    let e' := if cut then s + l else 0 in
    outof st = X1 ++ (if br then RECODED_STR ++ helo ++ CRLF else []) ++ X2 ++ B ++ extra ++ TERMINATOR /\
    (extra = [] \/ extra = CRLF /\ h = length m) /\
    unfolds_to X1 (stuff (split_lines (sub m 0 s'))) = true /\
    unfolds_to X2 (stuff (split_lines (sub m e' (h - e')))) = true /\
    body_sent br (skipn h m) B.
Proof.
  intros Hhelo Hb Hnm fl st H. unfold send_data in H. cbv zeta in H.
  assert (Hw : 0 + length m <= length m) by lia.
  rewrite (need_recode_ok m 0 (length m) Hw) in H. cbn [bind] in H.
  assert (Em : sub m 0 (length m) = m) by (unfold sub; cbn [skipn]; apply firstn_all).
  rewrite Em in H. set (rf := nr_fun m flags0 0 false) in *. set (st0 := mkSt [] true) in *.
  destruct (takes_qp ext8 rf) eqn:Eq.
  2: { destruct (liftS (send_plain m 0 (length m) st0)) as [r| |]; cbn [bind] in H; try discriminate.
       destruct r; inversion H. }
  assert (Hl : 1 <= length m).
  { destruct m as [|c0 r0]; [|cbn [length]; lia]. exfalso. unfold rf in Eq. destruct ext8; vm_compute in Eq; discriminate. }
  assert (G0 : good ext8 [] st0 []) by (apply (good_init ext8 st0)).
  rewrite send_qp_S in H. rewrite (need_recode_ok m 0 (length m) Hw) in H. cbn [bind] in H.
  destruct (Nat.eqb_spec (length m) 0) as [|_]; [lia|]. cbv zeta in H. rewrite Em in H. fold rf in H.
  destruct (qp_header_spec m helo ext8 0 (length m) Hw Hl Hhelo [] (f8 rf || fline rf) st0 G0) as (h0 & ct & cenc & rh & Ev & E & Hd).
  rewrite E in H. destruct rh as [[h mp] st1|why st1]; cbn [bindR bind] in H; [|discriminate].
  unfold hdr_done in Hd. rewrite Em in Hd.
  destruct Hd as (Eh0 & Hh & Emp & _ & (Hpos & Hkind) & H8 & Hlr & t & Gt & Ht & Hcont). subst h0.
  assert (Hview : exists ct0, qh_view m 0 (length m) = Ok (h, ct0, (fst cenc, snd cenc))) by (exists ct; rewrite Ev; destruct cenc; reflexivity).
  destruct Hkind as [->|(bs & bl & ->)]; [|exfalso; apply (Hnm _ _ bs bl Emp)].
  unfold hdr_pos in Hpos. rewrite Em in Hpos.
  destruct Hcont as ((Finv & Hnamed & Hsh) & (X1 & X2 & c & Eo & Hc & Hct & U1 & U2)). cbn [mk_of cut_of] in Eo, U1, U2.
  destruct (Nat.ltb_spec (length m) h) as [|_]; [lia|].
  change (0 + h) with h in H.
  destruct (body_content m h (f8 rf || fline rf) st1 ltac:(lia) Hb) as (st2 & O & E2 & Ho2 & Hz2 & Hnz2).
  rewrite E2 in H. cbn [bind] in H. inversion H; subst fl st. clear H.
  cbv zeta. change (outof st0) with (@nil N) in Eo. cbn [app] in Eo.
  set (MKq := if f8 rf || fline rf then RECODED_STR ++ helo ++ CRLF else []) in *.
  (* the field *)
  assert (Hfield : snd cenc <> 0 ->
            fst cenc + snd cenc <= length m /\ fst cenc <= h /\ (fst cenc = 0 \/ is_eol (nth (fst cenc - 1) m 0%N) = true) /\
            is_eol (nth (fst cenc + snd cenc - 1) m 0%N) = true /\
            map to_lower (sub m (fst cenc) (length CTE_LOWER)) = CTE_LOWER /\ getfieldlen m (fst cenc) (length m - fst cenc) = Ok (snd cenc)).
  { intros Hn. destruct Finv as (Fi & F2). destruct (F2 Hn) as (Hls & _).
    destruct Fi as [Hz0|(_ & Hle & (_ & _ & Heol))]; [contradiction|].
    destruct (Hnamed Hn) as (Hname & Hgfl). unfold ls_at in Hls. rewrite Em in Hls.
    split; [exact Hle|]. split; [apply Hsh; exact Hn|]. split; [exact Hls|]. split; [exact Heol|]. split; [exact Hname|exact Hgfl]. }
  exists h, (fst cenc), (snd cenc), X1.
  destruct (Nat.eq_dec h (length m)) as [Ehl|Nhl].
  - (* header only *)
    destruct (Hz2 Ehl) as (-> & ->).
    assert (Hbody : body_sent (f8 rf || fline rf) (skipn h m) []).
    { rewrite Ehl, skipn_all. unfold body_sent. destruct (f8 rf || fline rf); [apply qp_roundtrip_nil|reflexivity]. }
    destruct (lastlf st1) eqn:Elf.
    + assert (Ec : c = []) by (apply Hct; destruct Gt as (? & _ & _ & _ & Hlf); apply Hlf; exact Elf). subst c.
      rewrite app_nil_r in U2. exists X2, [], []. split; [exact Hview|]. split; [exact Hh|]. split; [exact Hpos|]. split; [exact Hfield|].
      split; [rewrite outof_wr, Eo, <- !app_assoc; reflexivity|]. split; [left; reflexivity|]. split; [exact U1|]. split; [exact U2|exact Hbody].
    + destruct Hc as [->| ->].
      * rewrite app_nil_r in U2. exists X2, [], CRLF. split; [exact Hview|]. split; [exact Hh|]. split; [exact Hpos|]. split; [exact Hfield|].
        split; [rewrite outof_wr, Eo, term_nolf, <- !app_assoc; reflexivity|]. split; [right; split; [reflexivity|exact Ehl]|].
        split; [exact U1|]. split; [exact U2|exact Hbody].
      * exists (X2 ++ CRLF), [], []. split; [exact Hview|]. split; [exact Hh|]. split; [exact Hpos|]. split; [exact Hfield|].
        split; [rewrite outof_wr, Eo, term_nolf, <- !app_assoc; reflexivity|]. split; [left; reflexivity|].
        split; [exact U1|]. split; [exact U2|exact Hbody].
  - assert (Et : t = []) by (apply Ht; left; lia). assert (Ec : c = []) by (apply Hct; exact Et). subst c.
    rewrite app_nil_r in U2. specialize (Hnz2 ltac:(lia)).
    exists X2, (O ++ (if lastlf st2 then [] else CRLF)), []. split; [exact Hview|]. split; [exact Hh|]. split; [exact Hpos|]. split; [exact Hfield|].
    split; [|split; [left; reflexivity|split; [exact U1|split; [exact U2|exact Hnz2]]]].
    rewrite outof_wr, Ho2, Eo. destruct (lastlf st2); [|rewrite term_nolf]; rewrite <- !app_assoc; reflexivity.
Qed.

(** C11, stage 3 (proved part): what spf_domainspec(), the CIDR parser, spf_makro() of the model do
    on the texts the strict grammar of Spec/SpfRfc.v accepts. *)
From Coq Require Import Lia ZifyBool ZifyN.
From Qv Require Import Common.Bytes Gen.GenSpf Model.SpfBase Model.SpfEnv Model.SpfMacro Model.Spf Spec.SpfRfc Proofs.SpfStr.
Local Open Scope N_scope.

(** what may follow a domain-spec: the end of the term or the CIDR part *)
Definition ds_tail (y : bytes) : bool := match y with [] => true | c :: _ => (c =? 32) || (c =? 47) end.

Lemma sp_tail_ds_tail y : sp_tail y = true -> ds_tail y = true.
Proof. destruct y; cbn; [auto|]. intros ->. reflexivity. Qed.

Lemma ds_scan_plain d y : forall pos, forallb ds_char d = true -> ds_tail y = true ->
  ds_scan (d ++ y) SNone pos None = Some ((pos + length d)%nat, None, SNone).
Proof.
  induction d as [|c d IH]; intros pos Hd Hy.
  - cbn [app length]. rewrite Nat.add_0_r. destruct y as [|e y]; [reflexivity|].
    cbn in Hy. cbn [ds_scan ds_top andb].
    assert (E : wspace e || (e =? 47) = true) by (unfold wspace; lia). rewrite E. reflexivity.
  - cbn in Hd. apply andb_true_iff in Hd as [Hc Hd]. unfold ds_char in Hc.
    cbn [app ds_scan ds_top andb].
    assert (E1 : wspace c || (c =? 47) = false) by (unfold wspace; lia). rewrite E1.
    assert (E2 : (128 <=? c) = false) by lia. rewrite E2.
    assert (E3 : (c =? 37) = false) by lia. rewrite E3.
    assert (E4 : (c <? 33) || (126 <? c) = false) by lia. rewrite E4.
    rewrite IH; auto. cbn [length]. do 3 f_equal. lia.
Qed.

Lemma tok_scan_plain d y : forallb ds_char d = true -> ds_tail y = true ->
  tok_scan (d ++ y) false false = length d.
Proof.
  induction d as [|c d IH]; intros Hd Hy.
  - destruct y as [|e y]; [reflexivity|]. cbn in Hy. cbn [app tok_scan length].
    destruct (wspace e) eqn:Ew; [reflexivity|].
    assert (E : (e =? 47) = true) by (unfold wspace in Ew; lia). rewrite E. reflexivity.
  - cbn in Hd. apply andb_true_iff in Hd as [Hc Hd]. unfold ds_char in Hc.
    cbn [app tok_scan length].
    assert (E1 : wspace c = false) by (unfold wspace; lia). rewrite E1.
    assert (E2 : (c =? 47) = false) by lia. rewrite E2.
    assert (E3 : (c =? 37) = false) by lia. rewrite E3. cbn [negb andb].
    rewrite IH; auto.
Qed.

Lemma ds_char_not_pct c : ds_char c = true -> not_pct c = true.
Proof. unfold ds_char, not_pct. lia. Qed.

Lemma firstn_app_exact {A} (a b : list A) : firstn (length a) (a ++ b) = a.
Proof. rewrite firstn_app, Nat.sub_diag, firstn_all. cbn. apply app_nil_r. Qed.
Lemma skipn_app_exact {A} (a b : list A) : skipn (length a) (a ++ b) = b.
Proof. rewrite skipn_app, Nat.sub_diag, skipn_all. reflexivity. Qed.

Lemma spf_makro_plain D X domain d y : forallb ds_char d = true -> ds_tail y = true ->
  spf_makro D X (d ++ y) domain false = Ok (MOk d, []).
Proof.
  intros Hd Hy. unfold spf_makro. rewrite tok_scan_plain, firstn_app_exact; auto.
  rewrite drop_while_none; [reflexivity|]. eapply forallb_impl'; [apply ds_char_not_pct|exact Hd].
Qed.

(** the value of a modifier: some text without '%' *)
Lemma tok_scan_le v rest : forallb mod_value_char v = true -> sp_tail rest = true ->
  (tok_scan (v ++ rest) false false <= length v)%nat.
Proof.
  induction v as [|c v IH]; intros Hv Hr.
  - destruct rest as [|e r]; [cbn; lia|]. cbn in Hr. apply N.eqb_eq in Hr. subst. cbn. lia.
  - cbn in Hv. apply andb_true_iff in Hv as [Hc Hv]. unfold mod_value_char in Hc.
    cbn [app tok_scan length].
    assert (E1 : wspace c = false) by (unfold wspace; lia). rewrite E1. cbn [negb andb].
    destruct (c =? 47); [lia|].
    assert (E3 : (c =? 37) = false) by lia. rewrite E3. specialize (IH Hv Hr). lia.
Qed.
Lemma spf_makro_value D X domain v rest : forallb mod_value_char v = true -> sp_tail rest = true ->
  exists out, spf_makro D X (v ++ rest) domain false = Ok (MOk out, []).
Proof.
  intros Hv Hr. unfold spf_makro.
  pose proof (tok_scan_le v rest Hv Hr) as L.
  set (n := tok_scan (v ++ rest) false false) in *.
  assert (E : firstn n (v ++ rest) = firstn n v).
  { rewrite firstn_app. replace (n - length v)%nat with 0%nat by lia. cbn. apply app_nil_r. }
  rewrite E. rewrite drop_while_none; [eexists; reflexivity|].
  apply forallb_firstn. eapply forallb_impl'; [|exact Hv]. unfold mod_value_char, not_pct. intros x. lia.
Qed.

(* ------------------------------------------------------------------ domain-spec *)
Lemma domain_spec_parts d : domain_spec d = true ->
  forallb ds_char d = true /\ (length d <= 253)%nat /\ ends_with_dot d = false /\ mem 46 d = true /\ toplabel (last_label d) = true.
Proof.
  unfold domain_spec. intros H. repeat (apply andb_true_iff in H as [H ?]).
  repeat split; auto; [apply Nat.leb_le; auto|destruct (ends_with_dot d); [discriminate|reflexivity]].
Qed.
Lemma domain_spec_hd d : domain_spec d = true -> exists c t, d = c :: t /\ ds_char c = true.
Proof.
  intros H. destruct (domain_spec_parts d H) as (A & _ & _ & M & _).
  destruct d as [|c t]; [discriminate|]. cbn in A. apply andb_true_iff in A as [A _]. eauto.
Qed.

Lemma toplabel_ok_plain d : domain_spec d = true -> toplabel_ok d = true.
Proof.
  intros H. destruct (domain_spec_parts d H) as (_ & _ & E & M & T).
  unfold toplabel_ok. rewrite E, M. cbn [negb]. exact T.
Qed.

Section Plain.
Variable D : dns.
Variable X : sess.
Let mk := spf_makro D X.

Lemma spf_domainspec_plain domain d y : domain_spec d = true -> ds_tail y = true ->
  spf_domainspec mk domain (d ++ y) = Ok (cidr_res (Some d) y, []).
Proof.
  intros H Hy. destruct (domain_spec_parts d H) as (A & _ & _ & _ & _).
  destruct (domain_spec_hd d H) as (c & t & -> & Hc). unfold ds_char in Hc.
  unfold spf_domainspec.
  assert (E1 : at_end ((c :: t) ++ y) = false) by (cbn; unfold wspace; lia). rewrite E1.
  assert (E2 : (hd0 ((c :: t) ++ y) =? 47) = false) by (cbn; lia). rewrite E2.
  rewrite ds_scan_plain; auto. cbn [Nat.add].
  rewrite firstn_app_exact, skipn_app_exact.
  rewrite toplabel_ok_plain; auto. cbn [negb andb].
  unfold mk. rewrite spf_makro_plain; auto.
Qed.
End Plain.

(* ------------------------------------------------------------------ CIDR lengths *)
Lemma cidr_num_spec s max v : cidr_num s max = Some v ->
  s <> [] /\ forallb is_digit s = true /\ v = fst (digits_val s 0) /\ v <= max.
Proof.
  unfold cidr_num. destruct s as [|c t]; [discriminate|].
  destruct (forallb is_digit (c :: t)) eqn:E; cbn [negb]; [|discriminate].
  destruct ((c =? 48) && _); [discriminate|]. destruct (Nat.ltb 3 _); [discriminate|].
  destruct (fst (digits_val (c :: t) 0) <=? max) eqn:L; [|discriminate].
  apply N.leb_le in L. intros H; inversion H; subst. split; [discriminate|]. split; [reflexivity|]. split; [reflexivity|exact L].
Qed.

Lemma parse_cidr_tail rest : sp_tail rest = true -> parse_cidr rest = Some ((-1)%Z, (-1)%Z).
Proof.
  intros H. unfold parse_cidr. destruct (sp_tail_hd rest H) as [E|E]; rewrite E; reflexivity.
Qed.

(** how a_mx read the lengths *)
Definition lenmap (def : N) (i : Z) : N := if (i <? 0)%Z then def else Z.to_N i.

Lemma cidr_consts : CIDR4_MAX = 32%Z /\ CIDR6_MAX = 128%Z.
Proof. split; reflexivity. Qed.

(** a number of the strict grammar, read by strtol(): [x] is what follows *)
Lemma strtol_cidr n max v x : cidr_num n max = Some v -> max <= 128 -> stops is_digit x = true ->
  strtol_c (n ++ x) = (Z.of_N v, x) /\ to_int32 (Z.of_N v) = Z.of_N v /\ at_end (n ++ x) = false /\ (hd0 (n ++ x) =? 47) = false.
Proof.
  intros H Hm Hx. destruct (cidr_num_spec _ _ _ H) as (Hne & Hd & -> & Hv).
  destruct (strtol_digits n x Hne Hd Hx ltac:(lia)) as [A B]. split; [exact A|]. split; [exact B|].
  destruct n as [|c t]; [congruence|]. cbn in Hd. apply andb_true_iff in Hd as [Hc _].
  unfold is_digit in Hc. cbn. unfold wspace. split; lia.
Qed.

Lemma stops_digit_sp y : sp_tail y = true -> stops is_digit y = true.
Proof. apply sp_tail_stops. reflexivity. Qed.

Lemma parse_cidr_dual c rest a b : dual_cidr c = Some (a, b) -> sp_tail rest = true ->
  exists i4 i6, parse_cidr (c ++ rest) = Some (i4, i6) /\ lenmap 32 i4 = a /\ lenmap 128 i6 = b.
Proof.
  intros H Hr. destruct cidr_consts as [C4 C6].
  destruct c as [|c0 t].
  { cbn in H. injection H as Ha Hb; subst a b. exists (-1)%Z, (-1)%Z. split; [apply parse_cidr_tail, Hr|split; reflexivity]. }
  cbn [dual_cidr] in H. destruct (negb (c0 =? 47)) eqn:E0; [discriminate|].
  apply negb_false_iff, N.eqb_eq in E0. subst c0.
  destruct (hd0 t =? 47) eqn:E1.
  - (* "//" n6 *)
    destruct t as [|c1 n6]; [discriminate|]. cbn in E1. apply N.eqb_eq in E1. subst c1. cbn [tl] in H.
    destruct (cidr_num n6 128) as [v6|] eqn:E6; [|discriminate]. injection H as Ha Hb; subst a b.
    destruct (strtol_cidr n6 128 v6 rest E6 ltac:(lia) (stops_digit_sp _ Hr)) as (S1 & S2 & S3 & S4).
    destruct (cidr_num_spec _ _ _ E6) as (_ & _ & _ & L6).
    exists (-1)%Z, (Z.of_N v6). split; [|split; [reflexivity|unfold lenmap; destruct (Z.of_N v6 <? 0)%Z eqn:Q; [lia|apply N2Z.id]]].
    unfold parse_cidr. cbn [app hd0 tl N.eqb Pos.eqb negb].
    rewrite S3, S1, S2, C6, (sp_tail_at_end _ Hr).
    destruct ((Z.of_N v6 <? 0)%Z || (128 <? Z.of_N v6)%Z || negb true) eqn:Q; [lia|reflexivity].
  - (* "/" n4 [ "//" n6 ] *)
    set (d4 := take_while is_digit t) in *. set (r := drop_while is_digit t) in *.
    assert (Et : t = d4 ++ r) by (symmetry; apply take_drop).
    assert (Hsr : stops is_digit r = true) by apply drop_while_stops.
    clearbody d4 r. subst t. clear E1.
    destruct (cidr_num d4 32) as [v4|] eqn:E4; [|discriminate].
    destruct (cidr_num_spec _ _ _ E4) as (_ & _ & _ & L4).
    destruct r as [|r0 r'] eqn:Er.
    + injection H as Ha Hb; subst a b. rewrite app_nil_r.
      destruct (strtol_cidr d4 32 v4 rest E4 ltac:(lia) (stops_digit_sp _ Hr)) as (S1 & S2 & S3 & S4).
      exists (Z.of_N v4), (-1)%Z. split; [|split; [unfold lenmap; destruct (Z.of_N v4 <? 0)%Z eqn:Q; [lia|apply N2Z.id]|reflexivity]].
      unfold parse_cidr. cbn [app hd0 tl N.eqb Pos.eqb negb].
      rewrite S4, S3, S1, S2, C4, (sp_tail_at_end _ Hr). cbn [orb negb].
      destruct ((Z.of_N v4 <? 0)%Z || (32 <? Z.of_N v4)%Z || false) eqn:Q; [lia|].
      destruct (sp_tail_hd rest Hr) as [E|E]; rewrite E; reflexivity.
    + destruct (is_prefix [47; 47] (r0 :: r')) eqn:Ep; [|discriminate].
      apply is_prefix_split in Ep. cbn [length skipn app] in Ep.
      destruct r' as [|r1 n6]; [discriminate|]. cbn [skipn] in Ep, H. inversion Ep; subst r0 r1. clear Ep.
      destruct (cidr_num n6 128) as [v6|] eqn:E6; [|discriminate]. injection H as Ha Hb; subst a b.
      destruct (cidr_num_spec _ _ _ E6) as (_ & _ & _ & L6).
      cbn [app]. rewrite <- app_assoc.
      destruct (strtol_cidr d4 32 v4 ((47 :: 47 :: n6) ++ rest) E4 ltac:(lia) eq_refl) as (S1 & S2 & S3 & S4).
      destruct (strtol_cidr n6 128 v6 rest E6 ltac:(lia) (stops_digit_sp _ Hr)) as (T1 & T2 & T3 & T4).
      exists (Z.of_N v4), (Z.of_N v6).
      split; [|split; unfold lenmap; [destruct (Z.of_N v4 <? 0)%Z eqn:Q|destruct (Z.of_N v6 <? 0)%Z eqn:Q]; try lia; apply N2Z.id].
      unfold parse_cidr. cbn [app hd0 tl N.eqb Pos.eqb negb] in *.
      rewrite S4, S3, S1, S2, C4. cbn [app hd0 tl at_end N.eqb Pos.eqb negb orb wspace].
      destruct ((Z.of_N v4 <? 0)%Z || (32 <? Z.of_N v4)%Z || false) eqn:Q; [lia|].
      cbn [hd0 tl N.eqb Pos.eqb negb].
      rewrite T3, T1, T2, C6, (sp_tail_at_end _ Hr).
      destruct ((Z.of_N v6 <? 0)%Z || (128 <? Z.of_N v6)%Z || negb true) eqn:Q2; [lia|reflexivity].
Qed.

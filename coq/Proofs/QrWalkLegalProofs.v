(** send_qp on any window, multipart of any shape and nesting: what it writes is a sequence of legal
    lines (plus the open beginning of one), also when it gives up half way. *)
From Qv Require Import Common.Bytes Gen.GenQrdata Model.Mime Model.QrData Model.QrDataL2 Proofs.QrMemLemmas
  Spec.SmtpDataSpec Spec.DeliverSpec Proofs.QrPlainProofs Proofs.QrNeedRecodeProofs Proofs.QrPlainSpecProofs
  Proofs.QrQpProofs Proofs.QrQpDecodeProofs Proofs.QrWireProofs Proofs.QrPhaseProofs
  Proofs.MimeTotalProofs Proofs.QrHeaderTotalProofs Proofs.QrWrapHeaderProofs Proofs.QrPiecesProofs
  Proofs.QrSendQpTotalProofs Proofs.QrPartDecisionProofs Proofs.QrBoundaryProofs Proofs.QrEntityProofs Proofs.QrWalkProofs.
Require Import Lia.

(** the decision for a window *)
Lemma window_decision (w : bytes) (ext8 : bool) :
  takes_qp ext8 (nr_fun w flags0 0 false) = must_recode ext8 w.
Proof.
  destruct (nr_fun_facts w flags0 0 false) as [A B]. cbv zeta in A, B.
  cbn [f8 flags0 orb] in A. unfold flong at 2 in B. cbn [fline fhdr flags0 orb] in B.
  rewrite longrun_has_long in B. unfold flong in B.
  unfold takes_qp, must_recode. rewrite <- Bool.orb_assoc. rewrite A, B. reflexivity.
Qed.

Lemma flags_any_none (w : bytes) (ext8 : bool) :
  flags_any (nr_fun w flags0 0 false) = false -> must_recode ext8 w = false.
Proof.
  intros H. rewrite <- window_decision. unfold flags_any in H. unfold takes_qp.
  apply Bool.orb_false_elim in H as [H Hh]. apply Bool.orb_false_elim in H as [H8 Hl].
  rewrite H8, Hl, Hh. now rewrite Bool.andb_false_r.
Qed.

Lemma Forall_sub_at (P : N -> Prop) (m : bytes) b n : b + n <= length m ->
  (forall k, k < n -> P (at_ m (b + k))) -> Forall P (sub m b n).
Proof.
  intros Hw H. apply Forall_forall. intros x Hx. apply (In_nth _ _ 0%N) in Hx as (k & Hk & <-).
  rewrite sub_length in Hk by exact Hw. rewrite nth_sub by exact Hk. apply H. exact Hk.
Qed.

Lemma sub_skipn (m : bytes) b len off : b + len <= length m -> off <= len ->
  sub m (b + off) (len - off) = skipn off (sub m b len).
Proof.
  intros Hw Ho. rewrite <- (sub_sub m b len off (len - off)) by lia. unfold sub at 1.
  apply firstn_all2. rewrite skipn_length, sub_length by lia. lia.
Qed.

Lemma ends_eol_skipn' (l : bytes) k : k < length l -> ends_eol (skipn k l) = ends_eol l.
Proof.
  intros H. rewrite <- (firstn_skipn k l) at 2. symmetry. apply ends_eol_app.
  intros E. apply (f_equal (@length N)) in E. rewrite skipn_length in E. cbn in E. lia.
Qed.

Section Walk.
Variable m helo : bytes.
Variable ext8 : bool.
Variable Hhelo : helo_ok helo.
Variable Hbytes : byte_list m.
Variable D0 : bytes.

(** outcome of send_qp on the window [w] *)
Definition ent_ok (w : bytes) (res : Run unit) : Prop :=
  match res with
  | Done _ st' => exists t, good ext8 D0 st' t /\ (ends_eol w = true -> t = [])
  | Die _ st' => exists t, good0 ext8 D0 st' t
  end.

Lemma ent_done_nil w st : good ext8 D0 st [] -> ent_ok w (Done tt st).
Proof. intros H. exists []. auto. Qed.

(** a window sent with send_plain because its flags say so *)
Lemma plain_window b len st : b + len <= length m -> must_recode ext8 (sub m b len) = false ->
  good ext8 D0 st [] ->
  exists st' t, send_plain m b len st = Ok st' /\ good ext8 D0 st' t /\ (ends_eol (sub m b len) = true -> t = []).
Proof.
  intros Hw Hm Hg. destruct (plain_piece ext8 m b len D0 st Hw Hm Hg) as (st' & t & E & G & Ht).
  exists st', t. split; [exact E|]. split; [exact G|]. intros He. apply Ht. apply open_line_ends. exact He.
Qed.

(** the loop over the parts *)
Lemma parts_legal rec b len bnd bl : b + len <= length m -> bl = length bnd -> bnd_ok bnd ->
  (forall b' len' st', b' + len' <= b + len -> len' < len -> good ext8 D0 st' [] ->
     exists r, rec b' len' st' = Ok r /\ ent_ok (sub m b' len') r) ->
  forall fuel2 off islast st, 1 <= off <= len -> len - off < fuel2 -> good ext8 D0 st [] ->
  exists r, parts_fix rec m ext8 b len bnd bl fuel2 off islast st = Ok r /\ ent_ok (sub m b len) r.
Proof.
  intros Hw Hbl Hbnd Hrec. set (W := sub m b len).
  induction fuel2 as [|f2 IH]; intros off islast st Ho Hf Hg; [lia|].
  cbn [parts_fix].
  assert (Hfb : exists nextoff, (if Nat.ltb off len && negb islast then find_boundary m (b + off) (len - off) bnd else Ok 0) = Ok nextoff /\
                  fb_good m (b + off) (len - off) bnd nextoff /\
                  (nextoff <> 0 -> islast = false /\ is_eol (at_ m (b + off + (nextoff - bl - 3))) = true)).
  { destruct (Nat.ltb off len && negb islast) eqn:Ec.
    - destruct (find_boundary_ok m (b + off) (len - off) bnd) as (p & Ep & Hp); [lia|].
      exists p. split; [exact Ep|]. split; [exact Hp|]. intros Hn.
      apply andb_prop in Ec as [_ Ei]. split; [destruct islast; [discriminate|reflexivity]|].
      rewrite Hbl. apply (find_boundary_eol m (b + off) (len - off) bnd p Ep Hn).
    - exists 0. split; [reflexivity|]. split; [left; reflexivity|]. intros Hn. contradiction. }
  destruct Hfb as (nextoff & Efb & Hfbg & Hfbe). rewrite Efb. cbn [bind].
  destruct (Nat.eqb_spec nextoff 0) as [Hz|Hnz]; cbn [negb].
  - (* behind the loop *)
    destruct (negb islast).
    + destruct (Nat.ltb_spec len off) as [|_]; [lia|].
      destruct (Hrec (b + off) (len - off) st) as (r & Er & Hr); [lia|lia|exact Hg|]. rewrite Er.
      destruct r as [u st1|why st1]; cbn [bindR].
      * eexists. split; [reflexivity|]. destruct Hr as (t & Gt & _). apply ent_done_nil.
        apply (lit_close_delim ext8 D0 bnd Hbnd st1 t). apply good_good0. exact Gt.
      * eexists. split; [reflexivity|]. exact Hr.
    + destruct (Nat.ltb_spec len off) as [|_]; [lia|].
      rewrite (need_recode_ok m (b + off) (len - off)) by lia. cbn [bind].
      destruct (flags_any (nr_fun (sub m (b + off) (len - off)) flags0 0 false)) eqn:Eany.
      * eexists. split; [reflexivity|]. apply ent_done_nil.
        apply (lit_epilogue ext8 D0 st []). apply good_good0. exact Hg.
      * destruct (plain_piece ext8 m (b + off) (len - off) D0 st) as (st1 & t & E & G & Ht); [lia|apply flags_any_none; exact Eany|exact Hg|].
        unfold liftS. rewrite E. cbn [bind]. eexists. split; [reflexivity|]. exists t. split; [exact G|].
        intros He. apply Ht. destruct (Nat.eq_dec off len) as [Eol|Nol].
        -- assert (Hnil : sub m (b + off) (len - off) = []) by (apply length_zero_iff_nil; rewrite sub_length by lia; lia).
           rewrite Hnil. reflexivity.
        -- apply open_line_ends. unfold W in He. rewrite sub_skipn by lia. rewrite ends_eol_skipn'; [exact He|].
           rewrite sub_length by lia. lia.
  - destruct Hfbg as [|(Hr & Hd)]; [contradiction|]. rewrite <- Hbl in Hr.
    destruct (Hfbe Hnz) as (Eil & Heol). subst islast.
    destruct (Nat.ltb_spec nextoff (bl + 2)) as [|_]; [lia|]. cbv zeta.
    set (partlen := nextoff - bl - 2).
    rewrite (need_recode_ok m (b + off) partlen) by (unfold partlen; lia). cbn [bind].
    set (P := sub m (b + off) partlen).
    assert (HPe : ends_eol P = true).
    { assert (HPl : length P = partlen) by (unfold P; rewrite sub_length by (unfold partlen; lia); reflexivity).
      rewrite ends_eol_last by (intros E; rewrite E in HPl; cbn in HPl; unfold partlen in HPl; lia).
      rewrite HPl. unfold P. rewrite nth_sub by (unfold partlen; lia).
      replace (b + off + (partlen - 1)) with (b + off + (nextoff - bl - 3)) by (unfold partlen; lia). exact Heol. }
    assert (Hpart : exists r, (if nr_match ext8 (nr_fun P flags0 0 false) then rec (b + off) partlen st
                               else liftS (send_plain m (b + off) partlen st)) = Ok r /\
                              match r with Done _ st1 => good ext8 D0 st1 [] | Die _ st1 => exists t, good0 ext8 D0 st1 t end).
    { destruct (nr_match ext8 (nr_fun P flags0 0 false)) eqn:Enr.
      - destruct (Hrec (b + off) partlen st) as (r & Er & Hr'); [unfold partlen; lia|unfold partlen; lia|exact Hg|].
        exists r. split; [exact Er|]. destruct r as [u st1|why st1]; [|exact Hr'].
        destruct Hr' as (t & Gt & Ht). fold P in Ht. rewrite (Ht HPe) in Gt. exact Gt.
      - destruct (plain_window (b + off) partlen st) as (st1 & t & E & G & Ht); [unfold partlen; lia| |exact Hg|].
        + fold P. rewrite <- window_decision, <- part_decision_is_message_decision. exact Enr.
        + unfold liftS. rewrite E. cbn [bind]. eexists. split; [reflexivity|]. fold P in Ht. rewrite (Ht HPe) in G. exact G. }
    destruct Hpart as (r & Er & Hr'). rewrite Er.
    destruct r as [u st1|why st1]; cbn [bindR]; [|eexists; split; [reflexivity|exact Hr']].
    destruct (dash_step m b len off nextoff bnd Hw ltac:(lia)) as (e & Ee & Hin & He); [right; rewrite <- Hbl; auto|exact Hnz|].
    rewrite Ee. cbn [bind].
    pose proof (lit_delim ext8 D0 bnd Hbnd st1 Hr') as G2. set (st2 := wr (wr st1 S_DD) bnd) in *.
    assert (Hrest : forall st3 il off3 t3, off + nextoff <= off3 <= len -> good0 ext8 D0 st3 t3 -> (il = false -> t3 = DL bnd []) ->
      exists r,
        (if Nat.ltb len off3 then Crash 43%N else
         do t <- skip_tpad m (b + off3) (len - off3);
         let off4 := off3 + t in
         if Nat.eqb off4 len && negb il then Ok (Done tt (set_lastlf (wr st3 S_DD_CRLF) true))
         else
           let st4 := wr st3 CRLF in
           if Nat.eqb off4 len then Ok (Done tt st4) else
           parts_fix rec m ext8 b len bnd bl f2 off4 il st4) = Ok r /\ ent_ok W r).
    { intros st3 il off3 t3 Ho3 G3 Hil. destruct (Nat.ltb_spec len off3) as [|_]; [lia|].
      destruct (skip_tpad_total m (b + off3) (len - off3)) as (t & Et & Ht); [lia|]. rewrite Et. cbn [bind]. cbv zeta.
      destruct (Nat.eqb (off3 + t) len && negb il) eqn:Ec.
      - eexists. split; [reflexivity|]. apply ent_done_nil.
        apply andb_prop in Ec as [_ Ei]. assert (il = false) by (destruct il; [discriminate|reflexivity]).
        rewrite (Hil H) in G3. apply (lit_delim_close ext8 D0 bnd Hbnd st3 G3).
      - pose proof (lit_crlf ext8 D0 st3 t3 G3) as G4.
        destruct (Nat.eqb_spec (off3 + t) len); [eexists; split; [reflexivity|apply ent_done_nil; exact G4]|].
        apply IH; [lia|lia|exact G4]. }
    destruct e.
    + specialize (He eq_refl). apply (Hrest (wr st2 S_DD) true (off + nextoff + 2) (DL bnd [DASH; DASH])); [lia| |discriminate].
      apply (lit_delim_dd ext8 D0 bnd Hbnd st2 G2).
    + apply (Hrest st2 false (off + nextoff) (DL bnd [])); [lia|exact G2|reflexivity].
Qed.

(** send_qp on any window inside the message *)
Theorem entity_legal : forall fuel b len st, b + len <= length m -> len < fuel -> good ext8 D0 st [] ->
  exists r, send_qp fuel m helo ext8 b len st = Ok r /\ ent_ok (sub m b len) r.
Proof.
  induction fuel as [|fu IH]; intros b len st Hw Hf Hg; [lia|].
  rewrite send_qp_S. rewrite (need_recode_ok m b len Hw). cbn [bind].
  destruct (Nat.eqb_spec len 0) as [|Hl]; [eexists; split; [reflexivity|apply ent_done_nil; exact Hg]|]. cbv zeta.
  set (W := sub m b len). set (rf := nr_fun W flags0 0 false).
  destruct (qp_header_spec m helo ext8 b len Hw ltac:(lia) Hhelo D0 (f8 rf || fline rf) st Hg) as (h0 & ct & cenc & rh & _ & Erh & Hd). rewrite Erh.
  destruct rh as [[h mp] st1|why st1]; cbn [bindR].
  2: { eexists. split; [reflexivity|]. cbn [hdr_done] in Hd. subst st1. exists []. apply good_good0. exact Hg. }
  destruct Hd as (_ & Hh & Emp & Hbnd & _ & H8 & Hlr & t & Gt & Ht & _). fold W in Hlr, Ht.
  destruct (Nat.ltb_spec len h) as [|_]; [lia|].
  assert (Hbody : exists r, (if f8 rf || fline rf then liftS (recode_qp m (b + h) (len - h) st1)
                             else liftS (send_plain m (b + h) (len - h) st1)) = Ok r /\ ent_ok W r).
  { destruct (entity_body m ext8 b len Hw ltac:(lia) D0 h st1 t Hbytes Hh Hlr Gt Ht) as (st2 & t2 & E2 & G2 & H2).
    fold W in E2, H2. fold rf in E2. rewrite E2. eexists. split; [reflexivity|]. exists t2. auto. }
  destruct mp as [bs bl| | |why]; try exact Hbody.
  destruct (Hbnd bs bl eq_refl) as (Hbl & Hbin).
  rewrite rdn_ok by exact Hbin. cbn [bind]. set (bnd := sub m bs bl).
  assert (Hblen : bl = length bnd) by (unfold bnd; rewrite sub_length by lia; reflexivity).
  assert (Hbok : bnd_ok bnd).
  { split; [|rewrite <- Hblen; lia]. destruct (is_multipart_bchars m _ _ bs bl Emp) as (q & Hq).
    apply Forall_sub_at; [exact Hbin|]. intros k Hk. apply (bchar_ok_range q). apply Hq. exact Hk. }
  destruct (find_boundary_ok m (b + h) (len - h) bnd) as (nextoff & Efb & Hfb); [lia|]. rewrite Efb. cbn [bind].
  destruct (Nat.eqb_spec nextoff 0) as [Hz|Hnz].
  - cbv zeta.
    pose proof (lit_open_delim ext8 D0 bnd Hbok st1 t (good_good0 _ _ _ _ Gt)) as Ga.
    set (sta := wr (wr (wr st1 S_CRLF_DD) bnd) CRLF) in *.
    pose proof (lit_recodeheader ext8 D0 helo sta Hhelo Ga) as Gb.
    set (stb := wr (recodeheader helo sta) CRLF) in *.
    destruct (qp_piece ext8 m (b + h) (len - h) D0 stb) as (stc & tc & Ec & Gc); [lia|exact Hbytes|exact Gb|].
    rewrite Ec. cbn [bind]. eexists. split; [reflexivity|]. apply ent_done_nil. apply good_set_lastlf.
    apply (lit_close_delim ext8 D0 bnd Hbok stc tc). apply good_good0. exact Gc.
  - destruct Hfb as [|(Hr & Hdash)]; [contradiction|].
    assert (Et : t = []) by (apply Ht; left; lia). subst t.
    rewrite (need_recode_ok m (b + h) nextoff) by lia. cbn [bind].
    assert (Hpre : exists st2 t2, (if flags_any (nr_fun (sub m (b + h) nextoff) flags0 0 false) then Ok (wr (wr st1 PREAMBLE_TXT) bnd)
                                   else send_plain m (b + h) nextoff st1) = Ok st2 /\ good0 ext8 D0 st2 t2).
    { destruct (flags_any (nr_fun (sub m (b + h) nextoff) flags0 0 false)) eqn:Eany.
      - eexists. eexists. split; [reflexivity|]. apply (lit_preamble ext8 D0 bnd Hbok st1 []). apply good_good0. exact Gt.
      - destruct (plain_piece ext8 m (b + h) nextoff D0 st1) as (st2 & t2 & E2 & G2 & _); [lia|apply flags_any_none; exact Eany|exact Gt|].
        exists st2, t2. split; [exact E2|]. apply good_good0. exact G2. }
    destruct Hpre as (st2 & t2 & E2 & G2). rewrite E2. cbn [bind]. cbv zeta.
    destruct (dash_step m b len h nextoff bnd Hw ltac:(lia)) as (e & Ee & Hin & He); [right; auto|exact Hnz|].
    rewrite Ee. cbn [bind].
    assert (Hrest : forall st3 il off3 t3, h + nextoff <= off3 <= len -> good0 ext8 D0 st3 t3 ->
      exists r,
        (if Nat.ltb len off3 then Crash 41%N else
         do tp <- skip_tpad m (b + off3) (len - off3);
         parts_fix (send_qp fu m helo ext8) m ext8 b len bnd bl (S len) (off3 + tp) il (wr st3 CRLF)) = Ok r /\ ent_ok W r).
    { intros st3 il off3 t3 Ho3 G3. destruct (Nat.ltb_spec len off3) as [|_]; [lia|].
      destruct (skip_tpad_total m (b + off3) (len - off3)) as (tp & Et & Htp); [lia|]. rewrite Et. cbn [bind].
      apply (parts_legal (send_qp fu m helo ext8) b len bnd bl Hw Hblen Hbok); [|lia|lia|apply (lit_crlf ext8 D0 st3 t3 G3)].
      intros b' len' st' H1 H2 G'. apply IH; [lia|lia|exact G']. }
    destruct e.
    + specialize (He eq_refl). apply (Hrest _ true (h + nextoff + 2) (DL bnd [DASH; DASH])); [lia|].
      apply (lit_first_is_last ext8 D0 bnd Hbok st2 t2 G2).
    + apply (Hrest st2 false (h + nextoff) t2); [lia|exact G2].
Qed.

End Walk.

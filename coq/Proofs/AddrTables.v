(** The generated character tables of Gen/GenAddr.v mean what the specification says.
    Each fact is a finite check over the 256 entries (vm_compute) lifted to all N. *)
From Qv Require Import Common.Bytes Gen.GenAddr Model.Addr Spec.AddrSpec.

Lemma tbl_impl (T : list bool) (P : N -> bool) :
  length T <= 256 ->
  forallb (fun i => implb (nth i T false) (P (N.of_nat i))) (seq 0 256) = true ->
  forall c, tbl T c = true -> P c = true.
Proof.
  intros HL HF c Hc. unfold tbl in Hc.
  destruct (Nat.lt_ge_cases (N.to_nat c) 256) as [Hlt|Hge].
  - rewrite forallb_forall in HF. specialize (HF (N.to_nat c)).
    assert (Hin : In (N.to_nat c) (seq 0 256)) by (apply in_seq; lia).
    specialize (HF Hin). rewrite Hc in HF. rewrite N2Nat.id in HF. exact HF.
  - rewrite nth_overflow in Hc by lia. discriminate.
Qed.

Lemma tbl_exact (T : list bool) (P : N -> bool) :
  length T <= 256 ->
  forallb (fun i => Bool.eqb (nth i T false) (P (N.of_nat i))) (seq 0 256) = true ->
  (forall c, P c = true -> (c < 256)%N) ->
  forall c, tbl T c = P c.
Proof.
  intros HL HF Hhi c. unfold tbl.
  destruct (Nat.lt_ge_cases (N.to_nat c) 256) as [Hlt|Hge].
  - rewrite forallb_forall in HF. specialize (HF (N.to_nat c)).
    assert (Hin : In (N.to_nat c) (seq 0 256)) by (apply in_seq; lia).
    specialize (HF Hin). rewrite N2Nat.id in HF. apply eqb_prop in HF. exact HF.
  - rewrite nth_overflow by lia. symmetry. destruct (P c) eqn:E; [|reflexivity].
    apply Hhi in E. lia.
Qed.

(** helper: a byte predicate built from N.leb / N.eqb with small constants holds only below 256 *)
Ltac lo_true :=
  let c := fresh "c" in let H := fresh "H" in
  intros c H;
  rewrite ?orb_true_iff, ?andb_true_iff, ?negb_true_iff, ?N.eqb_eq, ?N.leb_le, ?N.ltb_lt, ?N.eqb_neq in H;
  lia.

Definition domch (c : N) : bool := ldh c || N.eqb c DOT.

Lemma DV_CHAR_OK_spec c : tbl DV_CHAR_OK c = domch c.
Proof.
  revert c. apply tbl_exact.
  - vm_compute. lia.
  - vm_compute. reflexivity.
  - unfold domch, ldh, is_alpha, is_upper, is_lower, is_digit, DASH, DOT. lo_true.
Qed.

Lemma DV_LAST_OK_spec c : tbl DV_LAST_OK c = is_alpha c.
Proof.
  revert c. apply tbl_exact.
  - vm_compute. lia.
  - vm_compute. reflexivity.
  - unfold is_alpha, is_upper, is_lower. lo_true.
Qed.

(** parselocalpart: outside quotes only atext or a dot *)
Lemma LP_UNQ_OK_spec c : tbl LP_UNQ_OK c = true -> (atext c || N.eqb c DOT) = true.
Proof. revert c. apply tbl_impl; [vm_compute; lia | vm_compute; reflexivity]. Qed.

(** ... and neither NUL, the at sign nor the double quote (they are tested before the table) *)
Lemma LP_Q_OK_spec c : tbl LP_Q_OK c = true -> qtext c = true.
Proof. revert c. apply tbl_impl; [vm_compute; lia | vm_compute; reflexivity]. Qed.

Lemma LP_ESC_OK_spec c : tbl LP_ESC_OK c = true -> (N.eqb c cQUOTE || N.eqb c cBSL) = true.
Proof. revert c. apply tbl_impl; [vm_compute; lia | vm_compute; reflexivity]. Qed.

(** the specification classes are 7-bit and exclude NUL, CR, LF *)
Definition clean7_b (c : N) : bool := N.ltb c 128 && negb (N.eqb c 0) && negb (N.eqb c CR) && negb (N.eqb c LF).

Lemma clean7_b_ok c : clean7_b c = true -> clean7 c.
Proof.
  unfold clean7_b, clean7. intros H.
  repeat (apply andb_true_iff in H as [H ?]).
  apply N.ltb_lt in H.
  repeat match goal with X : negb (N.eqb _ _) = true |- _ => apply negb_true_iff, N.eqb_neq in X end.
  auto.
Qed.

Lemma byte_pred_impl (P Q : N -> bool) :
  (forall c, P c = true -> (c < 256)%N) ->
  forallb (fun i => implb (P (N.of_nat i)) (Q (N.of_nat i))) (seq 0 256) = true ->
  forall c, P c = true -> Q c = true.
Proof.
  intros Hhi HF c Hc.
  destruct (N.lt_ge_cases c 256) as [Hlt|Hge].
  - rewrite forallb_forall in HF. specialize (HF (N.to_nat c)).
    assert (Hin : In (N.to_nat c) (seq 0 256)) by (apply in_seq; lia).
    specialize (HF Hin). rewrite N2Nat.id, Hc in HF. exact HF.
  - apply Hhi in Hc. lia.
Qed.

Lemma atext_hi c : atext c = true -> (c < 256)%N.
Proof.
  revert c. unfold atext, is_alpha, is_upper, is_lower, is_digit, existsb. lo_true.
Qed.
Lemma qtext_hi c : qtext c = true -> (c < 256)%N.
Proof. revert c. unfold qtext. lo_true. Qed.

Lemma atext_clean c : atext c = true -> clean7 c.
Proof.
  intros H. apply clean7_b_ok. revert c H. apply byte_pred_impl; [apply atext_hi | vm_compute; reflexivity].
Qed.
Lemma qtext_clean c : qtext c = true -> clean7 c.
Proof.
  intros H. apply clean7_b_ok. revert c H. apply byte_pred_impl; [apply qtext_hi | vm_compute; reflexivity].
Qed.
Lemma atext_not_special c : atext c = true -> c <> DOT /\ c <> cQUOTE /\ c <> cAT /\ c <> cBSL.
Proof.
  intros H.
  assert (X : (negb (N.eqb c DOT) && negb (N.eqb c cQUOTE) && negb (N.eqb c cAT) && negb (N.eqb c cBSL)) = true).
  { revert c H. apply byte_pred_impl; [apply atext_hi | vm_compute; reflexivity]. }
  repeat (apply andb_true_iff in X as [X ?]).
  repeat match goal with X : negb (N.eqb _ _) = true |- _ => apply negb_true_iff, N.eqb_neq in X end.
  auto.
Qed.
Lemma qtext_not_special c : qtext c = true -> c <> cQUOTE /\ c <> cBSL.
Proof.
  intros H.
  assert (X : (negb (N.eqb c cQUOTE) && negb (N.eqb c cBSL)) = true).
  { revert c H. apply byte_pred_impl; [apply qtext_hi | vm_compute; reflexivity]. }
  repeat (apply andb_true_iff in X as [X ?]).
  repeat match goal with X : negb (N.eqb _ _) = true |- _ => apply negb_true_iff, N.eqb_neq in X end.
  auto.
Qed.

(** xtextlen *)
Definition xchar (c : N) : bool := N.leb 33 c && N.leb c 126 && negb (N.eqb c 61).
Lemma XT_PLAIN_OK_spec c : tbl XT_PLAIN_OK c = true -> xchar c = true.
Proof. revert c. apply tbl_impl; [vm_compute; lia | vm_compute; reflexivity]. Qed.
Lemma XT_HEX_OK_spec c : tbl XT_HEX_OK c = true -> exists v, uhex c = Some v /\ tblN XT_HEXVAL c = v /\ (v < 16)%N.
Proof.
  intros H.
  assert (X : (match uhex c with Some v => N.eqb (tblN XT_HEXVAL c) v && N.ltb v 16 | None => false end) = true).
  { revert c H. apply tbl_impl; [vm_compute; lia | vm_compute; reflexivity]. }
  destruct (uhex c) as [v|]; [|discriminate].
  apply andb_true_iff in X as [X1 X2]. apply N.eqb_eq in X1. apply N.ltb_lt in X2. eauto.
Qed.

(** The character classes do not depend on the signedness of char: evaluated the other way
    (unsigned char, as on ARM/PowerPC Linux) every table is the same.  On the unpatched
    parselocalpart the quoted-text table differs: [*t >= 93] admits all bytes >= 128 inside
    quotes where char is unsigned (fixes/C14-quoted-8bit-unsigned-char.diff). *)
Lemma tables_sign_independent :
  DV_CHAR_OK_ALT = DV_CHAR_OK /\ DV_LAST_OK_ALT = DV_LAST_OK /\ LP_UNQ_OK_ALT = LP_UNQ_OK
  /\ LP_Q_OK_ALT = LP_Q_OK /\ LP_ESC_OK_ALT = LP_ESC_OK
  /\ XT_RANGE_OK_ALT = XT_RANGE_OK /\ XT_HEX_OK_ALT = XT_HEX_OK /\ XT_PLAIN_OK_ALT = XT_PLAIN_OK.
Proof. repeat split; vm_compute; reflexivity. Qed.

(** C11, stage 2: the Received-SPF header written by spfreceived() is a well
    formed folded header field whatever xmitstat.spfexp holds, as long as that
    text is clean (which check_host() guarantees, see SpfCore). *)
From Coq Require Import Lia ZifyBool ZifyN.
From Qv Require Import Common.Bytes Gen.GenSpf Model.SpfBase Model.SpfEnv Model.SpfMacro Model.Spf Spec.SpfSpec
  Proofs.SpfSanitise Proofs.SpfCore.
Local Open Scope N_scope.

Definition ends_lf (s : bytes) : bool := match last_opt s with Some c => c =? 10 | None => false end.
Definition starts_tab (s : bytes) : bool := hd0 s =? 9.

Lemma ends_lf_cons c t : t <> [] -> ends_lf (c :: t) = ends_lf t.
Proof. unfold ends_lf. destruct t; [congruence|reflexivity]. Qed.

Lemma hdr_ok_app a b :
  hdr_ok a = true -> hdr_ok b = true -> (ends_lf a = false \/ starts_tab b = true \/ b = []) ->
  hdr_ok (a ++ b) = true.
Proof.
  induction a as [|c t IH]; intros Ha Hb Hs; [exact Hb|].
  cbn [app hdr_ok] in *.
  apply andb_true_iff in Ha as [Ha Ht]. apply andb_true_iff in Ha as [Ha Hlf].
  rewrite Ha. cbn [andb].
  destruct t as [|c' t'].
  - cbn [app]. rewrite Hb, andb_true_r.
    destruct (c =? 10) eqn:E; [|reflexivity].
    destruct Hs as [Hs|[Hs|Hs]].
    + unfold ends_lf in Hs. cbn in Hs. congruence.
    + destruct b; [reflexivity|exact Hs].
    + subst b. reflexivity.
  - assert (HI : hdr_ok ((c' :: t') ++ b) = true).
    { apply IH; auto. }
    rewrite HI, andb_true_r. exact Hlf.
Qed.

Lemma reply_hdr s : reply_text s = true -> hdr_ok s = true /\ ends_lf s = false.
Proof.
  induction s as [|c t IH]; [split; reflexivity|].
  cbn [reply_text forallb]. intros H. apply andb_true_iff in H as [Hc Ht].
  destruct (IH Ht) as [I1 I2]. unfold reply_byte in Hc. split.
  - cbn [hdr_ok]. rewrite I1. destruct (c =? 10) eqn:E; lia.
  - destruct t; [unfold ends_lf; cbn; lia|rewrite ends_lf_cons by discriminate; exact I2].
Qed.

Lemma sess_reply s : sess_text s = true -> reply_text s = true.
Proof. apply forallb_impl. unfold reply_byte. intros x. lia. Qed.

Lemma sess_ok_parts X : sess_ok X = true ->
  reply_text (s_iptext X) = true /\ reply_text (s_mailfrom X) = true /\ reply_text (s_heloname X) = true
  /\ reply_text (HELOSTR X) = true /\ reply_text (spfdomain X) = true.
Proof.
  unfold sess_ok. intros H. repeat (apply andb_true_iff in H as [H ?]).
  assert (Hh : reply_text (HELOSTR X) = true).
  { unfold HELOSTR. destruct (s_helostr X) eqn:E; [apply sess_reply; assumption|].
    apply sess_reply. assumption. }
  split; [apply sess_reply; assumption|]. split; [apply sess_reply; assumption|].
  split; [apply sess_reply; assumption|]. split; [exact Hh|].
  unfold spfdomain. destruct (s_mailfrom X) eqn:E; [exact Hh|apply sess_reply; assumption].
Qed.

(** every literal piece of the header is itself well formed *)
Lemma lits_ok : forallb hdr_ok RCV_LIT = true /\ forallb hdr_ok RCV_RESULT = true /\ length RCV_LIT = 26%nat.
Proof. vm_compute. repeat split. Qed.

Ltac piece_ok :=
  first [ assumption
        | apply reply_hdr; assumption
        | match goal with
          | |- hdr_ok [] = true => reflexivity
          | |- hdr_ok (lit _) = true => vm_compute; reflexivity
          | |- hdr_ok (nth _ RCV_RESULT []) = true => vm_compute; reflexivity
          end ].
Ltac side_ok :=
  first [ right; left; assumption
        | left; apply reply_hdr; assumption
        | match goal with
          | |- ends_lf [] = false \/ _ => left; reflexivity
          | |- ends_lf (lit _) = false \/ _ => left; vm_compute; reflexivity
          | |- ends_lf (nth _ RCV_RESULT []) = false \/ _ => left; vm_compute; reflexivity
          end ].
Ltac hdr_pieces :=
  repeat rewrite <- app_assoc;
  repeat (apply hdr_ok_app; [piece_ok| |side_ok]);
  try piece_ok.

Lemma some_inj {A} (a b : A) : Some a = Some b -> a = b.
Proof. congruence. Qed.

Theorem spfreceived_clean X spf g h :
  sess_ok X = true -> exp_ok (g_exp g) = true -> mech_ok (g_mech g) ->
  spfreceived X spf g = Some h -> hdr_ok h = true.
Proof.
  intros HX He Hm. destruct (sess_ok_parts X HX) as (S1 & S2 & S3 & S4 & S5).
  unfold spfreceived.
  assert (Htail : forall t, t = lit 20 ++ s_heloname X ++ lit 21 ++ s_iptext X
              ++ match g_mech g with Some m => lit 22 ++ m | None => [] end
              ++ lit 23 ++ HELOSTR X ++ lit 24 ++ s_mailfrom X ++ lit 25 ->
              hdr_ok t = true /\ starts_tab t = true).
  { intros t ->. split; [|reflexivity].
    destruct (g_mech g) as [m|]; [pose proof (sess_reply m Hm) as Sm|]; hdr_pieces. }
  set (tail := lit 20 ++ s_heloname X ++ _) in *.
  destruct (Htail tail eq_refl) as [T1 T2]. clearbody tail.
  destruct (spf =? SPF_IGNORE)%Z; [intros H; inversion H; reflexivity|].
  destruct (spf =? SPF_PERMERROR)%Z eqn:E5.
  { apply Z.eqb_eq in E5. subst spf. intros H; apply some_inj in H; subst h.
    destruct (g_exp g) as [e|]; [cbn [exp_ok] in He; destruct (mem 37 e)|]; hdr_pieces. }
  destruct ((spf =? SPF_DNS_HARD_ERROR)%Z || (spf =? SPF_TEMPERROR)%Z) eqn:E8.
  { apply orb_true_iff in E8 as [E8|E8]; apply Z.eqb_eq in E8; subst spf; intros H; apply some_inj in H; subst h;
      hdr_pieces. }
  destruct (spf =? SPF_NONE)%Z eqn:E0.
  { apply Z.eqb_eq in E0. subst spf. intros H; apply some_inj in H; subst h. hdr_pieces. }
  destruct ((spf =? SPF_SOFTFAIL)%Z || (spf =? SPF_FAIL)%Z) eqn:E3.
  { apply orb_true_iff in E3 as [E3|E3]; apply Z.eqb_eq in E3; subst spf; intros H; apply some_inj in H; subst h;
      hdr_pieces. }
  destruct (spf =? SPF_NEUTRAL)%Z eqn:E2.
  { apply Z.eqb_eq in E2. subst spf. intros H; apply some_inj in H; subst h. hdr_pieces. }
  destruct (spf =? SPF_PASS)%Z eqn:E1; [|discriminate].
  apply Z.eqb_eq in E1. subst spf. intros H; apply some_inj in H; subst h. hdr_pieces.
Qed.

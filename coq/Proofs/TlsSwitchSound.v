(** C18 proofs, part 3: what the one-pass checker [spec_ok_C18] accepts satisfies the
    property as stated event by event ([C18_trace_ok]). *)
From Qv Require Import Common.Bytes Gen.GenStarttls Model.NetRead Model.TlsClient Spec.TlsSwitchSpec.
Local Open Scope bool_scope.

Section Sound.
Variable tf : conn -> list (N * Z).

Definition is_conn (e : ev) : bool := match e with EvConn _ => true | _ => false end.

Lemma since_conn_acc_snoc tr : forall acc e,
  since_conn_acc acc (tr ++ [e]) = if is_conn e then [] else since_conn_acc acc tr ++ [e].
Proof.
  induction tr as [|x tr IH]; intros acc e.
  - destruct e; reflexivity.
  - destruct x; cbn [app since_conn_acc]; apply IH.
Qed.
Lemma since_conn_snoc tr e : since_conn (tr ++ [e]) = if is_conn e then [] else since_conn tr ++ [e].
Proof. apply since_conn_acc_snoc. Qed.

Lemma last_conn_acc_snoc tr : forall o e,
  last_conn_acc o (tr ++ [e]) = match e with EvConn i => Some i | _ => last_conn_acc o tr end.
Proof.
  induction tr as [|x tr IH]; intros o e.
  - destruct e; reflexivity.
  - destruct x; cbn [app last_conn_acc]; apply IH.
Qed.
Lemma last_conn_snoc tr e : last_conn (tr ++ [e]) = match e with EvConn i => Some i | _ => last_conn tr end.
Proof. apply last_conn_acc_snoc. Qed.

Lemma hs_done_snoc l e : hs_done (l ++ [e]) <-> hs_done l \/ exists p, e = EvHs p 0.
Proof.
  unfold hs_done. split.
  - intros (p & H). apply in_app_or in H as [H|[H|[]]]; [left; now exists p|right; exists p; now symmetry].
  - intros [(p & H)|(p & ->)]; exists p; apply in_or_app; [now left|right; now left].
Qed.
Lemma hs_failed_snoc l e : hs_failed (l ++ [e]) <-> hs_failed l \/ exists p h, h <> 0%N /\ e = EvHs p h.
Proof.
  unfold hs_failed. split.
  - intros (p & h & Hh & H). apply in_app_or in H as [H|[H|[]]]; [left; now exists p, h|right; exists p, h; split; [exact Hh|now symmetry]].
  - intros [(p & h & Hh & H)|(p & h & Hh & ->)]; exists p, h; (split; [exact Hh|]); apply in_or_app; [now left|right; now left].
Qed.

Definition Hist (k : tcase) (pre : list ev) (c : cst) : Prop :=
  let since := since_conn pre in
  (x_ph c <> PNone -> last_conn pre = Some (x_k c)) /\
  match x_ph c with
  | PNone | PClear => ~ hs_done since /\ ~ hs_failed since
  | PFailed => ~ hs_done since /\ hs_failed since
  | PTls prev => hs_done since /\ ~ hs_failed since /\ prev <= length (tls_stream (conn_of k (x_k c)))
  end /\
  (x_vfy c = true -> In (EvVfy 0) since) /\
  (forall bit, N.testbit (x_acc c) bit = true ->
     exists l lft, In (EvR true (RLine l) lft) since /\ N.testbit (line_ext l) bit = true).

(** an event that is neither a connect nor a handshake leaves the history facts alone *)
Lemma Hist_plain k pre c e c' :
  Hist k pre c -> is_conn e = false -> (forall p h, e <> EvHs p h) ->
  x_k c' = x_k c -> x_ph c' = x_ph c ->
  (x_vfy c' = true -> x_vfy c = true \/ e = EvVfy 0) ->
  (forall bit, N.testbit (x_acc c') bit = true -> N.testbit (x_acc c) bit = true \/
       exists l lft, e = EvR true (RLine l) lft /\ N.testbit (line_ext l) bit = true) ->
  Hist k (pre ++ [e]) c'.
Proof.
  intros (H1 & H2 & H3 & H4) Hc Hh Hk Hp Hv Ha. unfold Hist.
  rewrite since_conn_snoc, Hc, last_conn_snoc, Hk, Hp.
  assert (Hd : hs_done (since_conn pre ++ [e]) <-> hs_done (since_conn pre)).
  { rewrite hs_done_snoc. split; [intros [H|(p & H)]; [exact H|exfalso; exact (Hh _ _ H)]|now left]. }
  assert (Hf : hs_failed (since_conn pre ++ [e]) <-> hs_failed (since_conn pre)).
  { rewrite hs_failed_snoc. split; [intros [H|(p & h & _ & H)]; [exact H|exfalso; exact (Hh _ _ H)]|now left]. }
  repeat split.
  - destruct e; try exact H1; discriminate.
  - destruct (x_ph c); rewrite Hd, Hf; exact H2.
  - intros Hv'. apply in_or_app. destruct (Hv Hv') as [Ho| ->]; [left; now apply H3|right; now left].
  - intros bit Hb. destruct (Ha bit Hb) as [Ho|(l & lft & -> & Hl)].
    + destruct (H4 bit Ho) as (l & lft & Hin & Hl). exists l, lft. split; [apply in_or_app; now left|exact Hl].
    + exists l, lft. split; [apply in_or_app; right; now left|exact Hl].
Qed.

Lemma step_sound k pre c e c' :
  Hist k pre c -> step tf k c e = Some c' -> C18_event_ok tf k pre e /\ Hist k (pre ++ [e]) c'.
Proof.
  intros HH Hs. pose proof HH as (H1 & H2 & H3 & H4).
  destruct e as [i|i|r|t b|t it lft|p h|v|t ext]; cbn [step] in Hs.
  - (* EvTlsa *)
    inversion Hs; subst c'. split; [exact I|].
    apply (Hist_plain k pre c _ c HH); try reflexivity; try discriminate; auto.
  - (* EvConn *)
    destruct (Nat.ltb i (length (k_conns k))); [|discriminate]. inversion Hs; subst c'. split; [exact I|].
    unfold Hist. rewrite since_conn_snoc, last_conn_snoc. cbn.
    repeat split; try discriminate.
    + intros (p & []).
    + intros (p & h & _ & []).
  - (* EvCert *)
    destruct (x_ph c) eqn:Eph; try discriminate.
    destruct (Bool.eqb r (k_route k)) eqn:Er; [|discriminate]. inversion Hs; subst c'.
    split; [cbn; now apply Bool.eqb_prop|].
    apply (Hist_plain k pre c _ c HH); try reflexivity; try discriminate; auto.
  - (* EvW *)
    assert (Hgo : c' = c -> Hist k (pre ++ [EvW t b]) c').
    { intros ->. apply (Hist_plain k pre c _ c HH); try reflexivity; try discriminate; auto. }
    destruct (x_ph c) eqn:Eph; try discriminate.
    + destruct t; [discriminate|]. inversion Hs; subst c'. split; [|now apply Hgo].
      cbn. destruct H2 as [Hnd Hnf]. split; [split; [discriminate|intros Hd; contradiction]|intros Hf; contradiction].
    + destruct t; [discriminate|]. destruct (bytes_eqb b ST_CMD_QUIT) eqn:Eb; [|discriminate].
      inversion Hs; subst c'. split; [|now apply Hgo].
      cbn. destruct H2 as [Hnd Hf]. split; [split; [discriminate|intros Hd; contradiction]|].
      intros _. now apply bytes_eqb_eq.
    + destruct t; [|discriminate]. inversion Hs; subst c'. split; [|now apply Hgo].
      cbn. destruct H2 as (Hd & Hnf & _). split; [split; [intros _; exact Hd|reflexivity]|intros Hf; contradiction].
  - (* EvR *)
    destruct (x_ph c) as [| | |prev] eqn:Eph; try discriminate.
    + destruct t; [discriminate|]. inversion Hs; subst c'. destruct H2 as [Hnd Hnf]. split.
      * cbn. split; [split; [discriminate|intros Hd; contradiction]|]. destruct it; try exact I. discriminate.
      * apply (Hist_plain k pre c _ c HH); try reflexivity; try discriminate; auto.
    + destruct t; [discriminate|]. inversion Hs; subst c'. destruct H2 as [Hnd Hf]. split.
      * cbn. split; [split; [discriminate|intros Hd; contradiction]|]. destruct it; try exact I. discriminate.
      * apply (Hist_plain k pre c _ c HH); try reflexivity; try discriminate; auto.
    + destruct t; [|discriminate]. cbn [negb] in Hs. destruct H2 as (Hd & Hnf & Hprev).
      set (T := tls_stream (conn_of k (x_k c))) in *.
      assert (Hiff : true = true <-> hs_done (since_conn pre)) by (split; [intros _; exact Hd|reflexivity]).
      destruct it as [l| | | | |].
      * destruct (Nat.leb lft prev && bytes_eqb (sub T (length T - prev) (prev - lft)) (l ++ [CR; LF])) eqn:Ec; [|discriminate].
        apply andb_true_iff in Ec as [Ele Ecut]. apply Nat.leb_le in Ele. apply bytes_eqb_eq in Ecut.
        inversion Hs; subst c'. split.
        -- cbn. split; [exact Hiff|]. intros _. exists (x_k c). split; [apply H1; try rewrite Eph; discriminate|].
           fold T. exists (firstn (length T - prev) T), (skipn (prev - lft) (skipn (length T - prev) T)). split.
           ++ rewrite <- (firstn_skipn (length T - prev) T) at 1. f_equal.
              rewrite <- (firstn_skipn (prev - lft) (skipn (length T - prev) T)) at 1.
              unfold sub in Ecut. rewrite Ecut. now rewrite <- app_assoc.
           ++ rewrite !skipn_length. lia.
        -- unfold Hist. rewrite since_conn_snoc, last_conn_snoc. cbn [is_conn x_ph x_k x_vfy x_acc].
           assert (Hd' : hs_done (since_conn pre ++ [EvR true (RLine l) lft])) by (apply hs_done_snoc; now left).
           assert (Hf' : ~ hs_failed (since_conn pre ++ [EvR true (RLine l) lft])).
           { rewrite hs_failed_snoc. intros [H|(p & h & _ & H)]; [contradiction|discriminate]. }
           repeat split; try assumption.
           ++ intros _. apply H1; try rewrite Eph; discriminate.
           ++ fold T. lia.
           ++ intros Hv. apply in_or_app. left. now apply H3.
           ++ intros bit Hb. rewrite N.lor_spec in Hb. apply orb_true_iff in Hb as [Hb|Hb].
              ** destruct (H4 bit Hb) as (l0 & lft0 & Hin & Hl). exists l0, lft0. split; [apply in_or_app; now left|exact Hl].
              ** exists l, lft. split; [apply in_or_app; right; now left|exact Hb].
      * destruct (Nat.leb lft prev) eqn:Ele; [|discriminate]. apply Nat.leb_le in Ele. inversion Hs; subst c'. split.
        -- cbn. split; [exact Hiff|exact I].
        -- unfold Hist. rewrite since_conn_snoc, last_conn_snoc. cbn [is_conn x_ph x_k x_vfy x_acc].
           repeat split.
           ++ intros _. apply H1; try rewrite Eph; discriminate.
           ++ apply hs_done_snoc. now left.
           ++ rewrite hs_failed_snoc. intros [H|(p & h & _ & H)]; [contradiction|discriminate].
           ++ fold T. lia.
           ++ intros Hv. apply in_or_app. left. now apply H3.
           ++ intros bit Hb. destruct (H4 bit Hb) as (l0 & lft0 & Hin & Hl). exists l0, lft0. split; [apply in_or_app; now left|exact Hl].
      * destruct (Nat.leb lft prev) eqn:Ele; [|discriminate]. apply Nat.leb_le in Ele. inversion Hs; subst c'. split.
        -- cbn. split; [exact Hiff|exact I].
        -- unfold Hist. rewrite since_conn_snoc, last_conn_snoc. cbn [is_conn x_ph x_k x_vfy x_acc].
           repeat split.
           ++ intros _. apply H1; try rewrite Eph; discriminate.
           ++ apply hs_done_snoc. now left.
           ++ rewrite hs_failed_snoc. intros [H|(p & h & _ & H)]; [contradiction|discriminate].
           ++ fold T. lia.
           ++ intros Hv. apply in_or_app. left. now apply H3.
           ++ intros bit Hb. destruct (H4 bit Hb) as (l0 & lft0 & Hin & Hl). exists l0, lft0. split; [apply in_or_app; now left|exact Hl].
      * destruct (Nat.leb lft prev) eqn:Ele; [|discriminate]. apply Nat.leb_le in Ele. inversion Hs; subst c'. split.
        -- cbn. split; [exact Hiff|exact I].
        -- unfold Hist. rewrite since_conn_snoc, last_conn_snoc. cbn [is_conn x_ph x_k x_vfy x_acc].
           repeat split.
           ++ intros _. apply H1; try rewrite Eph; discriminate.
           ++ apply hs_done_snoc. now left.
           ++ rewrite hs_failed_snoc. intros [H|(p & h & _ & H)]; [contradiction|discriminate].
           ++ fold T. lia.
           ++ intros Hv. apply in_or_app. left. now apply H3.
           ++ intros bit Hb. destruct (H4 bit Hb) as (l0 & lft0 & Hin & Hl). exists l0, lft0. split; [apply in_or_app; now left|exact Hl].
      * destruct (Nat.leb lft prev) eqn:Ele; [|discriminate]. apply Nat.leb_le in Ele. inversion Hs; subst c'. split.
        -- cbn. split; [exact Hiff|exact I].
        -- unfold Hist. rewrite since_conn_snoc, last_conn_snoc. cbn [is_conn x_ph x_k x_vfy x_acc].
           repeat split.
           ++ intros _. apply H1; try rewrite Eph; discriminate.
           ++ apply hs_done_snoc. now left.
           ++ rewrite hs_failed_snoc. intros [H|(p & h & _ & H)]; [contradiction|discriminate].
           ++ fold T. lia.
           ++ intros Hv. apply in_or_app. left. now apply H3.
           ++ intros bit Hb. destruct (H4 bit Hb) as (l0 & lft0 & Hin & Hl). exists l0, lft0. split; [apply in_or_app; now left|exact Hl].
      * destruct (Nat.leb lft prev) eqn:Ele; [|discriminate]. apply Nat.leb_le in Ele. inversion Hs; subst c'. split.
        -- cbn. split; [exact Hiff|exact I].
        -- unfold Hist. rewrite since_conn_snoc, last_conn_snoc. cbn [is_conn x_ph x_k x_vfy x_acc].
           repeat split.
           ++ intros _. apply H1; try rewrite Eph; discriminate.
           ++ apply hs_done_snoc. now left.
           ++ rewrite hs_failed_snoc. intros [H|(p & h & _ & H)]; [contradiction|discriminate].
           ++ fold T. lia.
           ++ intros Hv. apply in_or_app. left. now apply H3.
           ++ intros bit Hb. destruct (H4 bit Hb) as (l0 & lft0 & Hin & Hl). exists l0, lft0. split; [apply in_or_app; now left|exact Hl].
  - (* EvHs *)
    destruct (x_ph c) eqn:Eph; try discriminate.
    inversion Hs; subst c'. destruct H2 as [Hnd Hnf]. split; [cbn; split; assumption|].
    unfold Hist. rewrite since_conn_snoc, last_conn_snoc. cbn [is_conn x_ph x_k x_vfy x_acc].
    assert (Hl : last_conn pre = Some (x_k c)) by (apply H1; try rewrite Eph; discriminate).
    destruct (N.eqb h 0) eqn:Eh.
    + apply N.eqb_eq in Eh. subst h. repeat split; try discriminate.
      * intros _. exact Hl.
      * apply hs_done_snoc. right. now exists p.
      * rewrite hs_failed_snoc. intros [H|(p' & h' & Hh & H)]; [contradiction|]. inversion H; subst. now apply Hh.
      * lia.
    + apply N.eqb_neq in Eh. repeat split; try discriminate.
      * intros _. exact Hl.
      * rewrite hs_done_snoc. intros [H|(p' & H)]; [contradiction|]. inversion H; subst. now apply Eh.
      * apply hs_failed_snoc. right. exists p, h. split; [exact Eh|reflexivity].
  - (* EvVfy *)
    destruct (x_ph c) as [| | |prev] eqn:Eph; try discriminate. inversion Hs; subst c'.
    destruct H2 as (Hd & Hnf & Hprev). split; [exact Hd|].
    apply (Hist_plain k pre c _ _ HH); try reflexivity; try discriminate.
    + cbn. symmetry. exact Eph.
    + cbn. intros Hv. right. apply N.eqb_eq in Hv. now subst v.
    + cbn. intros bit Hb. now left.
  - (* EvMail *)
    destruct (x_ph c) as [| | |prev] eqn:Eph; try discriminate.
    + destruct (t || k_route k || need_verify tf (conn_of k (x_k c))) eqn:Ec; [discriminate|].
      apply orb_false_iff in Ec as [Ec Env]. apply orb_false_iff in Ec as [Et Er]. subst t.
      inversion Hs; subst c'. destruct H2 as [Hnd Hnf]. split.
      * cbn. exists (x_k c). split; [apply H1; try rewrite Eph; discriminate|].
        split; [exact Hnf|]. split; [split; [discriminate|intros Hd; contradiction]|].
        split; [intros _; split; assumption|]. split; [rewrite Env; discriminate|discriminate].
      * apply (Hist_plain k pre c _ c HH); try reflexivity; try discriminate; auto.
    + destruct (negb t || (need_verify tf (conn_of k (x_k c)) && negb (x_vfy c)) || negb (N.eqb (N.lor (x_acc c) ext) (x_acc c))) eqn:Ec; [discriminate|].
      apply orb_false_iff in Ec as [Ec Eacc]. apply orb_false_iff in Ec as [Et Env].
      apply negb_false_iff in Et. subst t. apply negb_false_iff, N.eqb_eq in Eacc.
      inversion Hs; subst c'. destruct H2 as (Hd & Hnf & Hprev). split.
      * cbn. exists (x_k c). split; [apply H1; try rewrite Eph; discriminate|].
        split; [exact Hnf|]. split; [split; [intros _; exact Hd|reflexivity]|].
        split; [discriminate|]. split.
        -- intros Hn. rewrite Hn in Env. cbn in Env. apply negb_false_iff in Env. now apply H3.
        -- intros _ bit Hb. apply H4. rewrite <- Eacc, N.lor_spec, Hb. apply orb_true_r.
      * apply (Hist_plain k pre c _ c HH); try reflexivity; try discriminate; auto.
Qed.

Lemma Hist_init k : Hist k [] cst0.
Proof.
  unfold Hist. cbn. split; [intros H; now elim H|]. split; [split; [intros (p & [])|intros (p & h & _ & [])]|].
  split; [discriminate|]. intros bit Hb. discriminate.
Qed.

Lemma steps_sound k : forall tr pre c cf,
  Hist k pre c -> steps tf k c tr = Some cf ->
  forall a e b, tr = a ++ e :: b -> C18_event_ok tf k (pre ++ a) e.
Proof.
  induction tr as [|x tr IH]; intros pre c cf HH Hs a e b Heq.
  - destruct a; discriminate.
  - cbn [steps] in Hs. destruct (step tf k c x) as [c1|] eqn:Ex; [|discriminate].
    destruct (step_sound k pre c x c1 HH Ex) as (Hok & HH1).
    destruct a as [|y a].
    + inversion Heq; subst. rewrite app_nil_r. exact Hok.
    + inversion Heq; subst. replace (pre ++ y :: a) with ((pre ++ [y]) ++ a) by (rewrite <- app_assoc; reflexivity).
      eapply (IH _ _ _ HH1 Hs). reflexivity.
Qed.

Theorem checker_sound k tr : spec_ok_with tf k tr = true -> C18_trace_ok tf k tr.
Proof.
  unfold spec_ok_with. destruct (steps tf k cst0 tr) as [cf|] eqn:Es; [|discriminate]. intros _.
  intros pre e post Heq. exact (steps_sound k tr [] cst0 cf (Hist_init k) Es pre e post Heq).
Qed.

End Sound.

(** addrsyntax(): completeness -- every line of the exact grammar is accepted with the stated results --
    and with the soundness of AddrsyntaxProofs.v an equivalence. *)
From Qv Require Import Common.Bytes Gen.GenAddr Model.Addr Spec.AddrSpec Spec.AddrGrammar
  Proofs.AddrTables Proofs.CStrLemmas Proofs.DomainProofs Proofs.LocalProofs Proofs.LocalEquiv
  Proofs.ParseaddrProofs Proofs.ParseaddrEquiv Proofs.AddrsyntaxProofs.

Local Arguments N.eqb : simpl never.

Lemma strchr_absent y rest c base : ~ In NUL y -> c <> NUL -> ~ In c y -> strchr (y ++ NUL :: rest) c base = Ok None.
Proof.
  intros Hy Hc Hn. destruct (strchr_spec y rest c base Hy Hc) as [(a & b & -> & _ & _)|[_ H]]; [|exact H].
  exfalso. apply Hn. apply in_or_app. right. now left.
Qed.

Lemma fqdn_strict_chars d : fqdn_strict d -> ~ In NUL d /\ ~ In COMMA d /\ ~ In COLON d.
Proof.
  intros H. apply fqdn_strict_b_iff in H. apply dv_b_iff in H.
  destruct d as [|c0 d']; [discriminate|]. unfold dv_b in H.
  repeat (apply andb_true_iff in H as [H ?]). 
  match goal with X : mid_ok 0 _ = true |- _ => apply mid_ok_split in X as [HF _] end.
  rewrite Forall_forall in HF.
  repeat split; intros X; apply HF in X; discriminate.
Qed.

Lemma route_pre_head r yl : route_pre r -> hd 0%N yl = AT -> hd 0%N (r ++ yl) = AT.
Proof. intros [|d r' _ _] H; [exact H|reflexivity]. Qed.

Lemma route_loop_complete rest ys : route_pre ys -> forall fuel m1 yl,
  ~ In COMMA yl -> hd 0%N yl = AT -> ~ In NUL yl -> length (ys ++ yl) < fuel ->
  exists m2, length m2 = length ys /\
    route_loop fuel (m1 ++ (ys ++ yl) ++ NUL :: rest) (length m1)
    = Ok ((m1 ++ m2) ++ yl ++ NUL :: rest, Some (length m1 + length ys)).
Proof.
  induction 1 as [|d r Hd Hr IH]; intros fuel m1 yl Hc Hhd Hn Hfuel.
  - destruct fuel as [|fuel]; [lia|]. exists []. split; [reflexivity|].
    cbn [route_loop app]. rewrite skipn_app_exact. rewrite strchr_absent by (assumption || discriminate).
    cbn [bind length]. rewrite app_nil_r, Nat.add_0_r. reflexivity.
  - destruct fuel as [|fuel]; [lia|].
    destruct (fqdn_strict_chars d Hd) as (Hdn & Hdc & _).
    cbn [route_loop]. rewrite skipn_app_exact.
    assert (E0 : ((cAT :: d ++ cCOMMA :: r) ++ yl) ++ NUL :: rest = (AT :: d) ++ COMMA :: ((r ++ yl) ++ NUL :: rest)).
    { cbn [app]. rewrite <- !app_assoc. reflexivity. }
    rewrite E0. rewrite strchr_first; [|intros [X|X]; [discriminate|contradiction]|intros [X|X]; [discriminate|contradiction]].
    cbn [bind].
    assert (E1 : m1 ++ (AT :: d) ++ COMMA :: (r ++ yl) ++ NUL :: rest = (m1 ++ AT :: d) ++ COMMA :: ((r ++ yl) ++ NUL :: rest)).
    { rewrite <- !app_assoc. reflexivity. }
    rewrite E1. replace (length m1 + length (AT :: d)) with (length (m1 ++ AT :: d)) by (rewrite app_length; reflexivity).
    rewrite upd_app. cbn [bind].
    assert (S1 : skipn (length m1 + 1) ((m1 ++ AT :: d) ++ NUL :: (r ++ yl) ++ NUL :: rest) = d ++ NUL :: ((r ++ yl) ++ NUL :: rest)).
    { rewrite <- app_assoc. rewrite skipn_app_plus. reflexivity. }
    rewrite S1. rewrite (proj2 (domainvalid_iff d _ Hdn) Hd). cbn [bind Nat.eqb negb].
    rewrite rd_app_exact.
    assert (Hh : exists y', r ++ yl = AT :: y').
    { pose proof (route_pre_head r yl Hr Hhd) as X. destruct (r ++ yl) as [|c y']; [discriminate|]. cbn [hd] in X. subst c. eauto. }
    destruct Hh as (y' & Ey). rewrite Ey. cbn [app]. unfold rd at 1. cbn [nth_error bind]. rewrite N.eqb_refl. cbn [negb].
    set (m1' := (m1 ++ AT :: d) ++ [NUL]).
    assert (E2 : (m1 ++ AT :: d) ++ NUL :: AT :: y' ++ NUL :: rest = m1' ++ (r ++ yl) ++ NUL :: rest).
    { unfold m1'. rewrite Ey. rewrite <- !app_assoc. reflexivity. }
    assert (L2 : length (m1 ++ AT :: d) + 1 = length m1') by (unfold m1'; rewrite (app_length _ [NUL]); reflexivity).
    rewrite E2, L2.
    destruct (IH fuel m1' yl Hc Hhd Hn) as (m2 & Hm2 & Hrun).
    { rewrite !app_length in *. cbn [length] in *. rewrite app_length in Hfuel. cbn [length] in Hfuel. lia. }
    exists ((AT :: d) ++ NUL :: m2). split.
    { rewrite !app_length. cbn [length]. rewrite app_length. cbn [length]. lia. }
    rewrite Hrun. unfold m1'. do 2 f_equal.
    + rewrite <- !app_assoc. reflexivity.
    + rewrite !app_length. cbn [length]. rewrite ?app_length. cbn [length]. f_equal. lia.
Qed.

Lemma route_x_split rt : route_x rt -> exists ys d, rt = ys ++ cAT :: d ++ [cCOLON] /\ route_pre ys /\ fqdn_strict d.
Proof.
  induction 1 as [d Hd|d r Hd _ (ys & d' & -> & Hys & Hd')].
  - exists [], d. split; [reflexivity|]. split; [constructor|exact Hd].
  - exists (cAT :: d ++ cCOMMA :: ys), d'. split; [cbn [app]; rewrite <- app_assoc; reflexivity|].
    split; [now constructor|exact Hd'].
Qed.

Lemma lower_pm_head a : map to_lower a = POSTMASTER -> hd NUL (a ++ [NUL]) <> AT /\ ~ In cAT a.
Proof.
  intros H. split.
  - destruct a as [|c a]; [discriminate|]. cbn [map] in H. inversion H as [[Hc _]]. cbn [app hd]. intros ->. discriminate.
  - intros X. apply (in_map to_lower) in X. rewrite H in X. vm_compute in X. intuition discriminate.
Qed.

Section Oracle.
Variable pton4 pton6 : bytes -> bool.

Definition body_x (flags : Z) (rc : Z) (a : bytes) : Prop :=
  (rc = 1%Z /\ ((flags = 0%Z /\ a = []) \/ (flags = 1%Z /\ map to_lower a = POSTMASTER)))
  \/ (rc = 3%Z /\ mailbox_x pton4 pton6 lweak 3 a)
  \/ (rc = 4%Z /\ mailbox_x pton4 pton6 lweak 4 a).

Lemma mailbox_not_pm rc a : mailbox_x pton4 pton6 lweak rc a -> map to_lower a <> POSTMASTER.
Proof.
  intros (lp & dom & -> & _) H. apply lower_pm_head in H as [_ H]. apply H. apply in_or_app. right. now left.
Qed.

(** from the search for the closing bracket on, forwards *)
Lemma as_tail_complete rest flags rc m1 a post : ~ In NUL (a ++ GT :: post) -> ~ In cGT a -> body_x flags rc a ->
  let mem := m1 ++ (a ++ GT :: post) ++ NUL :: rest in
  let f := length m1 in
  exists mem',
    (do l0 <- strchr (skipn f mem) GT f;
      match l0 with
      | None => Ok (as_fail None mem)
      | Some l =>
          let len := l - f in
          do l1 <- rd mem (l + 1);
          let more := if N.eqb l1 NUL then None else Some (l + 1) in
          if Z.eqb flags 0 && Nat.eqb len 0 then Ok (mk_asres (Z.of_nat AS_RC_EMPTY) (Some []) more mem)
          else
            do mem' <- upd mem l NUL;
            do call <- (if negb (Z.eqb flags 1) then Ok true
                        else do pm <- strcase_eq (skipn f mem') (AS_POSTMASTER ++ [NUL]); Ok (negb pm));
            do x <- (if call then parseaddr pton4 pton6 (skipn f mem') else Ok AS_RC_POSTMASTER);
            if call && Nat.ltb x AS_MIN then Ok (as_fail more mem')
            else
              do s <- cstr (skipn f mem');
              if Nat.ltb (length s + 1) len then Crash 40
              else Ok (mk_asres (Z.of_nat x)
                         (Some (map to_lower (firstn len s) ++ skipn len s)) more mem')
      end)
    = Ok (mk_asres rc (Some (map to_lower a))
            (match post with [] => None | _ => Some (length m1 + length a + 1) end) mem').
Proof.
  intros Hy Ha Hbody mem f. unfold mem, f.
  set (mo := match post with [] => None | _ => Some (length m1 + length a + 1) end).
  rewrite skipn_app_exact.
  apply not_in_app in Hy as [Hna Hnp]. apply not_in_cons in Hnp as [_ Hnp].
  rewrite <- app_assoc. cbn [app]. rewrite strchr_first by assumption. cbn [bind].
  assert (E0 : m1 ++ a ++ GT :: post ++ NUL :: rest = (m1 ++ a) ++ GT :: (post ++ NUL :: rest)).
  { rewrite <- !app_assoc. reflexivity. }
  rewrite E0. replace (length m1 + length a) with (length (m1 ++ a)) by (rewrite app_length; reflexivity).
  rewrite rd_app_exact.
  replace (length (m1 ++ a) - length m1) with (length a) by (rewrite app_length; lia).
  assert (Hmore : exists l1, rd (GT :: post ++ NUL :: rest) 1 = Ok l1 /\
            (if N.eqb l1 NUL then None else Some (length (m1 ++ a) + 1))
            = mo).
  { unfold mo. destruct post as [|c0 post']; eexists; (split; [reflexivity|]); [reflexivity|].
    apply not_in_cons in Hnp as [Hc0 _]. destruct (N.eqb_spec c0 NUL); [congruence|]. rewrite app_length. reflexivity. }
  destruct Hmore as (l1 & Hrd & Hmore). rewrite Hrd. cbn [bind]. rewrite Hmore. clear Hmore Hrd l1.
  as_consts.
  destruct (Z.eqb_spec flags 0) as [Hf0|Hf0]; cbn [andb].
  - destruct (Nat.eqb_spec (length a) 0) as [Ha0|Ha0].
    + destruct a; [|discriminate]. rewrite ?app_length. cbn [length app map].
      destruct Hbody as [(-> & _)|[(_ & (lp & dom & E & Hne & _))|(_ & (lp & dom & E & Hne & _))]];
        [eexists; reflexivity|destruct lp; [congruence|discriminate]|destruct lp; [congruence|discriminate]].
    + rewrite upd_app. cbn [bind]. subst flags. cbn [Z.eqb negb bind].
      assert (S1 : skipn (length m1) ((m1 ++ a) ++ NUL :: post ++ NUL :: rest) = a ++ NUL :: (post ++ NUL :: rest)).
      { rewrite <- app_assoc. apply skipn_app_exact. }
      rewrite S1.
      assert (Hm : exists k, (k = 3 \/ k = 4) /\ rc = Z.of_nat k /\ mailbox_x pton4 pton6 lweak k a).
      { destruct Hbody as [(_ & [[_ ->]|[X _]])|[(-> & H)|(-> & H)]]; [simpl in Ha0; lia|discriminate|exists 3; auto|exists 4; auto]. }
      destruct Hm as (k & Hk & -> & Hm).
      rewrite (parseaddr_complete pton4 pton6 a _ k Hna Hm). cbn [bind andb].
      destruct (Nat.ltb_spec k 3) as [X|_]; [lia|].
      rewrite cstr_run by assumption. cbn [bind].
      destruct (Nat.ltb_spec (length a + 1) (length a)) as [X|_]; [lia|].
      eexists. rewrite firstn_all, skipn_all, app_nil_r. reflexivity.
  - rewrite upd_app. cbn [bind].
    assert (S1 : skipn (length m1) ((m1 ++ a) ++ NUL :: post ++ NUL :: rest) = a ++ NUL :: (post ++ NUL :: rest)).
    { rewrite <- app_assoc. apply skipn_app_exact. }
    rewrite S1.
    assert (Hfin : forall k, (k = 3 \/ k = 4) -> rc = Z.of_nat k -> mailbox_x pton4 pton6 lweak k a ->
      exists mem', (do x <- parseaddr pton4 pton6 (a ++ NUL :: post ++ NUL :: rest);
         if true && Nat.ltb x 3 then Ok (as_fail mo
                                        ((m1 ++ a) ++ NUL :: post ++ NUL :: rest))
         else do s <- cstr (a ++ NUL :: post ++ NUL :: rest);
              if Nat.ltb (length s + 1) (length a) then Crash 40
              else Ok (mk_asres (Z.of_nat x) (Some (map to_lower (firstn (length a) s) ++ skipn (length a) s))
                         mo
                         ((m1 ++ a) ++ NUL :: post ++ NUL :: rest)))
        = Ok (mk_asres rc (Some (map to_lower a)) mo mem')).
    { intros k Hk -> Hm. rewrite (parseaddr_complete pton4 pton6 a _ k Hna Hm). cbn [bind andb].
      destruct (Nat.ltb_spec k 3) as [X|_]; [lia|].
      rewrite cstr_run by assumption. cbn [bind].
      destruct (Nat.ltb_spec (length a + 1) (length a)) as [X|_]; [lia|].
      eexists. rewrite firstn_all, skipn_all, app_nil_r. reflexivity. }
    destruct (Z.eqb_spec flags 1) as [Hf1|Hf1]; cbn [negb bind].
    + change [112; 111; 115; 116; 109; 97; 115; 116; 101; 114]%N with POSTMASTER.
      rewrite strcase_run; [|assumption|vm_compute; intuition discriminate]. cbn [bind].
      change (map to_lower POSTMASTER) with POSTMASTER.
      destruct Hbody as [(-> & [[X _]|[_ Hpm]])|[(E & Hm)|(E & Hm)]]; [congruence| | |].
      * replace (bytes_eqb (map to_lower a) POSTMASTER) with true by (rewrite Hpm; symmetry; apply bytes_eqb_refl).
        cbn [negb andb bind].
        rewrite cstr_run by assumption. cbn [bind].
        destruct (Nat.ltb_spec (length a + 1) (length a)) as [X|_]; [lia|].
        eexists. rewrite firstn_all, skipn_all, app_nil_r. reflexivity.
      * assert (Hb : bytes_eqb (map to_lower a) POSTMASTER = false).
        { destruct (bytes_eqb (map to_lower a) POSTMASTER) eqn:B; [|reflexivity]. apply bytes_eqb_eq in B.
          exfalso. exact (mailbox_not_pm 3 a Hm B). }
        rewrite Hb. cbn [negb bind]. apply (Hfin 3); auto.
      * assert (Hb : bytes_eqb (map to_lower a) POSTMASTER = false).
        { destruct (bytes_eqb (map to_lower a) POSTMASTER) eqn:B; [|reflexivity]. apply bytes_eqb_eq in B.
          exfalso. exact (mailbox_not_pm 4 a Hm B). }
        rewrite Hb. cbn [negb bind]. apply (Hfin 4); auto.
    + destruct Hbody as [(_ & [[X _]|[X _]])|[(E & Hm)|(E & Hm)]]; [congruence|congruence| |].
      * apply (Hfin 3); auto.
      * apply (Hfin 4); auto.
Qed.

Lemma body_head flags rc a : body_x flags rc a -> flags = 1%Z -> hd NUL (a ++ [NUL]) <> AT.
Proof.
  intros [(_ & [[X _]|[_ H]])|[(_ & Hm)|(_ & Hm)]] Hf.
  - congruence.
  - now apply lower_pm_head.
  - destruct Hm as (lp & dom & -> & Hne & Hat & _). destruct lp as [|c lp]; [congruence|]. cbn [app hd].
    intros ->. apply Hat. now left.
  - destruct Hm as (lp & dom & -> & Hne & Hat & _). destruct lp as [|c lp]; [congruence|]. cbn [app hd].
    intros ->. apply Hat. now left.
Qed.

Theorem addrsyntax_complete s rest flags rc addr more : ~ In NUL s -> rc <> 0%Z ->
  addrsyntax_post_x pton4 pton6 s flags rc addr more ->
  exists r, addrsyntax pton4 pton6 (s ++ NUL :: rest) flags = Ok r
    /\ as_rc r = rc /\ as_addr r = addr /\ as_more r = more.
Proof.
  intros Hs Hrc [H0|(rt & a & post & E & Ha & Hrt & -> & -> & Hc)]; [contradiction|].
  fold (body_x flags rc a) in Hc. unfold addrsyntax.
  assert (R0 : rd (s ++ NUL :: rest) 0 = Ok (hd NUL (s ++ [NUL]))) by (destruct s; reflexivity).
  rewrite R0. cbn [bind].
  destruct Hrt as [->|(Hf1 & Hroute & Hlen & Hnc)].
  - (* no source route *)
    cbn [app] in E. subst s.
    assert (Ert : Z.eqb flags 1 && N.eqb (hd NUL ((a ++ cGT :: post) ++ [NUL])) AT = false).
    { destruct (Z.eqb_spec flags 1) as [Hf|]; [|reflexivity]. cbn [andb]. apply N.eqb_neq.
      pose proof (body_head flags rc a Hc Hf) as X. destruct a; [cbn; discriminate|exact X]. }
    rewrite Ert. cbn [bind].
    destruct (as_tail_complete rest flags rc [] a post Hs Ha Hc) as (mem' & H). cbn zeta in H.
    eexists. split; [exact H|]. cbn. auto.
  - (* with a source route *)
    subst flags. destruct (route_x_split rt Hroute) as (ys & d & -> & Hys & Hd).
    destruct (fqdn_strict_chars d Hd) as (Hdn & Hdc & Hdl).
    set (yl := AT :: d ++ COLON :: (a ++ cGT :: post)).
    assert (Es : s = ys ++ yl) by (rewrite E; unfold yl; cbn [app]; rewrite <- !app_assoc; cbn [app]; rewrite <- !app_assoc; reflexivity).
    assert (Hnyl : ~ In NUL yl) by (rewrite Es in Hs; apply not_in_app in Hs; tauto).
    assert (Hny : ~ In NUL (a ++ cGT :: post)).
    { unfold yl in Hnyl. apply not_in_cons in Hnyl as [_ X]. apply not_in_app in X as [_ X]. apply not_in_cons in X. tauto. }
    assert (Hcyl : ~ In COMMA yl).
    { unfold yl. apply not_in_cons. split; [discriminate|]. apply not_in_app. split; [exact Hdc|].
      apply not_in_cons. split; [discriminate|exact Hnc]. }
    assert (Hhd : hd NUL (s ++ [NUL]) = AT).
    { rewrite Es. destruct Hys; reflexivity. }
    rewrite Hhd. cbn [Z.eqb Pos.eqb andb]. rewrite N.eqb_refl. cbn [andb].
    destruct (route_loop_complete rest ys Hys (length (s ++ NUL :: rest)) [] yl Hcyl eq_refl Hnyl) as (m2 & Hm2 & Hrun).
    { rewrite Es, !app_length. cbn [length]. lia. }
    cbn [app length] in Hrun. rewrite <- Es in Hrun. rewrite Hrun. cbn [bind Nat.add].
    rewrite <- Hm2. rewrite skipn_app_exact.
    unfold yl. change (AT :: d ++ COLON :: a ++ cGT :: post) with ((AT :: d) ++ COLON :: (a ++ cGT :: post)).
    rewrite <- app_assoc. cbn [app].
    change (AT :: d ++ COLON :: (a ++ cGT :: post) ++ NUL :: rest) with ((AT :: d) ++ COLON :: ((a ++ cGT :: post) ++ NUL :: rest)).
    rewrite strchr_first; [|intros [X|X]; [discriminate|contradiction]|intros [X|X]; [discriminate|contradiction]].
    cbn [bind].
    assert (E1 : m2 ++ (AT :: d) ++ COLON :: (a ++ cGT :: post) ++ NUL :: rest
                 = (m2 ++ AT :: d) ++ COLON :: ((a ++ cGT :: post) ++ NUL :: rest)).
    { rewrite <- !app_assoc. reflexivity. }
    rewrite E1. replace (length m2 + length (AT :: d)) with (length (m2 ++ AT :: d)) by (rewrite app_length; reflexivity).
    rewrite upd_app. cbn [bind].
    assert (S1 : skipn (length m2 + 1) ((m2 ++ AT :: d) ++ NUL :: (a ++ cGT :: post) ++ NUL :: rest)
                 = d ++ NUL :: ((a ++ cGT :: post) ++ NUL :: rest)).
    { rewrite <- app_assoc. rewrite skipn_app_plus. reflexivity. }
    rewrite S1. rewrite (proj2 (domainvalid_iff d _ Hdn) Hd). cbn [bind Nat.eqb negb].
    set (m1 := (m2 ++ AT :: d) ++ [NUL]).
    assert (L2 : length (m2 ++ AT :: d) + 1 = length m1) by (unfold m1; rewrite (app_length _ [NUL]); reflexivity).
    assert (L3 : length m1 = length (ys ++ cAT :: d ++ [cCOLON])).
    { unfold m1. repeat (rewrite ?app_length; cbn [length app]). lia. }
    as_consts. rewrite L2.
    destruct (Nat.ltb_spec 256 (length m1)) as [X|_]; [lia|]. cbn [bind].
    assert (E2 : (m2 ++ AT :: d) ++ NUL :: (a ++ cGT :: post) ++ NUL :: rest = m1 ++ (a ++ GT :: post) ++ NUL :: rest).
    { unfold m1. rewrite <- !app_assoc. reflexivity. }
    rewrite E2.
    destruct (as_tail_complete rest 1%Z rc m1 a post Hny Ha Hc) as (mem' & H). cbn zeta in H.
    eexists. split; [exact H|]. cbn [as_rc as_addr as_more]. rewrite L3. auto.
Qed.

(** addrsyntax() returns the non-zero code rc with address [addr] and [more] exactly for the lines of the
    exact grammar: an equivalence between acceptance and RFC 5321 Path (as restricted in AddrGrammar.v) *)
Theorem addrsyntax_iff s rest flags rc addr more : ~ In NUL s -> rc <> 0%Z ->
  ((exists r, addrsyntax pton4 pton6 (s ++ NUL :: rest) flags = Ok r
      /\ as_rc r = rc /\ as_addr r = addr /\ as_more r = more)
   <-> addrsyntax_post_x pton4 pton6 s flags rc addr more).
Proof.
  intros Hs Hrc. split; [|now apply addrsyntax_complete].
  intros (r & Hr & <- & <- & <-).
  destruct (addrsyntax_spec_x pton4 pton6 s rest flags Hs) as (r' & Hr' & Hp & _).
  rewrite Hr in Hr'. inversion Hr'; subst r'. exact Hp.
Qed.

End Oracle.

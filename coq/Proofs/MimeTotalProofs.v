(** qremote/mime.c, literal model: every function returns (no [Crash], i.e. no read outside the
    message mapping and none of the "cannot happen" situations of the C; no [OutOfFuel]) for every
    message, given only what its callers establish: the data handed in lies inside the mapping and — for
    the functions working on one header field — the field ends with a line end (which getfieldlen()
    guarantees).  With each result come the bounds the callers need. *)
From Qv Require Import Common.Bytes Gen.GenQrdata Model.Mime Proofs.QrMemLemmas.
Require Import Lia.

Definition at_ (m : bytes) (i : nat) : N := nth i m 0%N.

Lemma rd_at m i : i < length m -> rd m i = Ok (at_ m i).
Proof. apply rd_ok. Qed.

Lemma rd_inv m i x : rd m i = Ok x -> i < length m /\ x = at_ m i.
Proof.
  unfold rd, at_. intros H. destruct (nth_error m i) as [y|] eqn:E; [|discriminate]. inversion H; subst.
  split; [apply nth_error_Some; congruence|]. symmetry. apply nth_error_nth. exact E.
Qed.

(* ------------------------------------------------------------------ string comparisons *)
Lemma casecmp_in m : forall lit p, p + length lit <= length m ->
  exists b, casecmp_at m p lit = Ok b /\
    (b = true -> forall j, j < length lit -> to_lower (at_ m (p + j)) = to_lower (nth j lit 0%N)).
Proof.
  induction lit as [|x lit IH]; intros p H; cbn [casecmp_at].
  - exists true. split; [reflexivity|]. intros _ j Hj. cbn in Hj. lia.
  - cbn [length] in H. rewrite rd_at by lia. cbn [bind].
    destruct (N.eqb_spec (to_lower (at_ m p)) (to_lower x)) as [E|E].
    + destruct (IH (S p)) as (b & Eb & Hb); [lia|]. exists b. split; [exact Eb|].
      intros Ht j Hj. destruct j as [|j]; [rewrite Nat.add_0_r; exact E|].
      cbn [nth]. replace (p + S j) with (S p + j) by lia. apply Hb; [exact Ht|cbn [length] in Hj; lia].
    + exists false. split; [reflexivity|discriminate].
Qed.

(** the comparison stops at the latest at an octet [E] that differs from every octet of [lit] *)
Lemma casecmp_stop m : forall lit p E, p <= E -> E < length m ->
  (forall x, In x lit -> to_lower (at_ m E) <> to_lower x) ->
  exists b, casecmp_at m p lit = Ok b /\
    (b = true -> p + length lit <= E /\
                 forall j, j < length lit -> to_lower (at_ m (p + j)) = to_lower (nth j lit 0%N)).
Proof.
  induction lit as [|x lit IH]; intros p E HpE HE Hdiff; cbn [casecmp_at].
  - exists true. split; [reflexivity|]. intros _. split; [cbn; lia|]. intros j Hj. cbn in Hj. lia.
  - rewrite rd_at by lia. cbn [bind].
    destruct (N.eqb_spec (to_lower (at_ m p)) (to_lower x)) as [E1|E1].
    + assert (p <> E) by (intros ->; apply (Hdiff x); [left; reflexivity|exact E1]).
      destruct (IH (S p) E) as (b & Eb & Hb); [lia|exact HE|intros y Hy; apply Hdiff; right; exact Hy|].
      exists b. split; [exact Eb|]. intros Ht. destruct (Hb Ht) as [H1 H2]. split; [cbn [length]; lia|].
      intros j Hj. destruct j as [|j]; [rewrite Nat.add_0_r; exact E1|].
      cbn [nth]. replace (p + S j) with (S p + j) by lia. apply H2. cbn [length] in Hj. lia.
    + exists false. split; [reflexivity|discriminate].
Qed.

Lemma cmp_at_in m : forall lit p, p + length lit <= length m -> exists b, cmp_at m p lit = Ok b.
Proof.
  induction lit as [|x lit IH]; intros p H; cbn [cmp_at]; [eauto|].
  cbn [length] in H. rewrite rd_at by lia. cbn [bind].
  destruct (N.eqb (at_ m p) x); [apply IH; lia|eauto].
Qed.

(* ------------------------------------------------------------------ skipwhitespace *)
Lemma skw_ok m : forall fuel line c l mode brace,
  c + l <= length m -> (mode <> 0 -> 1 <= l) -> 3 * l + (2 - mode) < fuel ->
  exists r, skw fuel m line c l mode brace = Ok r /\ forall p, r = Some p -> c <= p <= c + l.
Proof.
  induction fuel as [|fuel IH]; intros line c l mode brace Hw Hl Hf; [lia|].
  cbn [skw]. destruct mode as [|[|mode]].
  - destruct (Nat.eqb_spec l 0) as [->|Hn].
    + eexists. split; [reflexivity|]. intros p E. inversion E. lia.
    + apply IH; [exact Hw|lia|lia].
  - specialize (Hl ltac:(discriminate)). rewrite rd_at by lia. cbn [bind].
    destruct (is_ws (at_ m c)).
    + destruct (Nat.eqb_spec (l - 1) 0) as [Hz|Hnz].
      * eexists. split; [reflexivity|]. intros p E. inversion E. lia.
      * destruct (IH line (S c) (l - 1) 1 brace) as (r & Er & Hr); [lia|lia|lia|].
        exists r. split; [exact Er|]. intros p E. specialize (Hr p E). lia.
    + destruct (negb (N.eqb (at_ m c) LPAR)).
      * eexists. split; [reflexivity|]. intros p E. inversion E. lia.
      * apply IH; [exact Hw|lia|cbn; lia].
  - specialize (Hl ltac:(discriminate)).
    destruct (Nat.eqb_spec (l - 1) 0) as [Hz|Hnz].
    + eexists. split; [reflexivity|]. discriminate.
    + rewrite rd_at by lia. cbn [bind].
      assert (Hb : exists b1,
        (if N.eqb (at_ m c) LPAR then
           if Nat.eqb c line then Ok (S brace)
           else do y <- rd m (c - 1); Ok (if negb (N.eqb y BSLASH) then S brace else brace)
         else if N.eqb (at_ m c) RPAR then
           do y <- rd m (c - 1); Ok (if negb (N.eqb y BSLASH) then brace - 1 else brace)
         else Ok brace) = Ok b1).
      { destruct (N.eqb (at_ m c) LPAR).
        - destruct (Nat.eqb c line); [eauto|]. rewrite rd_at by lia. cbn [bind]. eauto.
        - destruct (N.eqb (at_ m c) RPAR); [|eauto]. rewrite rd_at by lia. cbn [bind]. eauto. }
      destruct Hb as (b1 & Eb). rewrite Eb. cbn [bind].
      destruct (Nat.eqb b1 0).
      * destruct (IH line (S c) (l - 1) 0 0) as (r & Er & Hr); [lia|lia|lia|].
        exists r. split; [exact Er|]. intros p E. specialize (Hr p E). lia.
      * destruct (IH line (S c) (l - 1) 2 b1) as (r & Er & Hr); [lia|lia|cbn; lia|].
        exists r. split; [exact Er|]. intros p E. specialize (Hr p E). lia.
Qed.

Lemma skipwhitespace_ok m line len : line + len <= length m ->
  exists r, skipwhitespace m line len = Ok r /\ forall p, r = Some p -> line <= p <= line + len.
Proof. intros H. unfold skipwhitespace. apply skw_ok; [exact H|congruence|cbn; lia]. Qed.

(* ------------------------------------------------------------------ mime_token *)
(** an octet mime_token steps over *)
Definition tokch (x : N) : bool :=
  negb (N.eqb x SEMI || N.eqb x EQUALS) && negb (is_ws x) && negb (N.leb x 32 || N.leb 128 x || tspecial x).

Lemma mime_token_loop_ok m line len : line + len <= length m -> forall fuel i,
  i <= len -> len - i < fuel ->
  exists r, mime_token_loop fuel m line len i = Ok r /\ r <= len /\
    (r = len -> forall j, i <= j < len -> is_ws (at_ m (line + j)) = false) /\
    (forall k, i <= k < len -> (forall j, i <= j < k -> tokch (at_ m (line + j)) = true) ->
               N.eqb (at_ m (line + k)) SEMI || N.eqb (at_ m (line + k)) EQUALS = true -> r = k).
Proof.
  intros Hw. induction fuel as [|fuel IH]; intros i Hi Hf; [lia|].
  cbn [mime_token_loop]. destruct (Nat.ltb_spec i len) as [Hlt|Hge].
  2: { exists i. split; [reflexivity|]. split; [lia|]. split; [intros; lia|]. intros k Hk. lia. }
  rewrite rd_at by lia. cbn [bind]. set (x := at_ m (line + i)).
  destruct (N.eqb x SEMI || N.eqb x EQUALS) eqn:E1.
  { exists i. split; [reflexivity|]. split; [lia|]. split; [intros; lia|].
    intros k Hk Htok _. destruct (Nat.eq_dec k i) as [->|Hne]; [reflexivity|].
    specialize (Htok i ltac:(lia)). fold x in Htok. unfold tokch in Htok. rewrite E1 in Htok. discriminate. }
  destruct (is_ws x) eqn:E2.
  { destruct (skipwhitespace_ok m (line + i) (len - i)) as (r & Er & Hr); [lia|].
    rewrite Er. cbn [bind].
    assert (Hres : exists v, (match r with Some p => if Nat.eqb p (line + len) then i else 0 | None => 0 end) = v /\ v < len).
    { destruct r as [p|]; [destruct (Nat.eqb p (line + len))|]; eexists; split; try reflexivity; lia. }
    destruct Hres as (v & Ev & Hv). rewrite Ev. exists v. split; [reflexivity|]. split; [lia|]. split; [intros; lia|].
    intros k Hk Htok Hse. destruct (Nat.eq_dec k i) as [->|Hne].
    - fold x in Hse. rewrite E1 in Hse. discriminate.
    - specialize (Htok i ltac:(lia)). fold x in Htok. unfold tokch in Htok. rewrite E2 in Htok.
      rewrite Bool.andb_false_r in Htok. discriminate. }
  destruct (N.leb x 32 || N.leb 128 x || tspecial x) eqn:E3.
  { exists 0. split; [reflexivity|]. split; [lia|]. split; [intros; lia|].
    intros k Hk Htok Hse. destruct (Nat.eq_dec k i) as [->|Hne].
    - fold x in Hse. rewrite E1 in Hse. discriminate.
    - specialize (Htok i ltac:(lia)). fold x in Htok. unfold tokch in Htok. rewrite E3 in Htok.
      rewrite Bool.andb_false_r in Htok. discriminate. }
  destruct (IH (S i)) as (r & Er & H1 & H2 & H3); [lia|lia|].
  exists r. split; [exact Er|]. split; [exact H1|]. split.
  - intros Hr j Hj. destruct (Nat.eq_dec j i) as [->|Hne]; [exact E2|]. apply H2; [exact Hr|lia].
  - intros k Hk Htok Hse. destruct (Nat.eq_dec k i) as [->|Hne].
    + fold x in Hse. rewrite E1 in Hse. discriminate.
    + apply H3; [lia| |exact Hse]. intros j Hj. apply Htok. lia.
Qed.

(** mime_token on data inside the mapping; when the data ends with white space the result is smaller
    than the length (so that line[result] may be read) *)
Lemma mime_token_ok m line len : line + len <= length m ->
  exists r, mime_token m line len = Ok r /\ r <= len /\
    (1 <= len -> is_ws (at_ m (line + len - 1)) = true -> r < len) /\
    (forall k, k < len -> (forall j, j < k -> tokch (at_ m (line + j)) = true) ->
               N.eqb (at_ m (line + k)) SEMI || N.eqb (at_ m (line + k)) EQUALS = true -> r = k).
Proof.
  intros Hw. unfold mime_token.
  destruct (mime_token_loop_ok m line len Hw (S len) 0) as (r & Er & H1 & H2 & H3); [lia|lia|].
  exists r. split; [exact Er|]. split; [exact H1|]. split.
  - intros Hl Hws. destruct (Nat.eq_dec r len) as [E|]; [|lia].
    specialize (H2 E (len - 1) ltac:(lia)). replace (line + (len - 1)) with (line + len - 1) in H2 by lia.
    rewrite H2 in Hws. discriminate.
  - intros k Hk Htok Hse. apply H3; [lia| |exact Hse]. intros j Hj. apply Htok. lia.
Qed.

(* ------------------------------------------------------------------ mime_param *)
Lemma quote_end_ok m line len : line + len <= length m -> forall fuel i,
  i <= len -> len - i < fuel ->
  exists r, quote_end fuel m line len i = Ok r /\ i <= r <= len /\ (r < len -> at_ m (line + r) = DQUOTE).
Proof.
  intros Hw. induction fuel as [|fuel IH]; intros i Hi Hf; [lia|].
  cbn [quote_end]. destruct (Nat.ltb_spec i len) as [Hlt|Hge].
  2: { exists i. split; [reflexivity|]. split; lia. }
  rewrite rd_at by lia. cbn [bind].
  destruct (N.eqb_spec (at_ m (line + i)) DQUOTE) as [Eq|Enq].
  - rewrite rd_at by lia. cbn [bind]. destruct (negb (N.eqb (at_ m (line + i - 1)) BSLASH)).
    + exists i. split; [reflexivity|]. split; [lia|]. intros _. exact Eq.
    + destruct (IH (S i)) as (r & Er & H1 & H2); [lia|lia|]. exists r. split; [exact Er|]. split; [lia|exact H2].
  - cbn [bind]. destruct (IH (S i)) as (r & Er & H1 & H2); [lia|lia|]. exists r. split; [exact Er|]. split; [lia|exact H2].
Qed.

Lemma ws_not (c : N) : is_ws c = true -> c <> EQUALS /\ c <> DQUOTE.
Proof.
  unfold is_ws. intros H. split; intros ->; cbn in H; discriminate.
Qed.

(** mime_param on data inside the mapping that ends with white space *)
Lemma mime_param_ok m line len : line + len <= length m -> 1 <= len -> is_ws (at_ m (line + len - 1)) = true ->
  exists r, mime_param m line len = Ok r /\ r < len /\
    (forall k, mime_token m line len = Ok k -> at_ m (line + S k) = DQUOTE -> r <> 0 ->
               exists q, k + 2 <= q < len /\ at_ m (line + q) = DQUOTE).
Proof.
  intros Hw Hl Hws. unfold mime_param.
  destruct (mime_token_ok m line len Hw) as (i0 & E0 & Hi0 & Hlt0 & _). specialize (Hlt0 Hl Hws).
  rewrite E0. cbn [bind].
  destruct (Nat.eqb_spec i0 0) as [Hz|Hnz]; cbn [orb].
  { exists 0. split; [reflexivity|]. split; [lia|]. intros k _ _ F. contradiction. }
  destruct (Nat.eqb_spec i0 len) as [|_]; [lia|].
  rewrite rd_at by lia. cbn [bind].
  destruct (N.eqb_spec (at_ m (line + i0)) EQUALS) as [Eeq|Eneq]; cbn [negb].
  2: { exists 0. split; [reflexivity|]. split; [lia|]. intros k _ _ F. contradiction. }
  (* '=' is not the last octet, which is white space *)
  assert (Hi1 : S i0 < len).
  { destruct (Nat.eq_dec (S i0) len) as [E|]; [|lia]. exfalso.
    replace (line + len - 1) with (line + i0) in Hws by lia. destruct (ws_not _ Hws) as [F _]. contradiction. }
  cbv zeta. rewrite rd_at by lia. cbn [bind].
  destruct (N.eqb_spec (at_ m (line + S i0)) DQUOTE) as [Eq|Enq].
  - destruct (quote_end_ok m line len Hw (S len) (S (S i0))) as (iq & Eqe & Hiq & Hq); [lia|lia|].
    rewrite Eqe. cbn [bind].
    destruct (Nat.eqb_spec iq len) as [Hend|Hnend].
    { exists 0. split; [reflexivity|]. split; [lia|]. intros k _ _ F. contradiction. }
    assert (Hiq2 : S iq < len).
    { destruct (Nat.eq_dec (S iq) len) as [E|]; [|lia]. exfalso.
      replace (line + len - 1) with (line + iq) in Hws by lia. specialize (Hq ltac:(lia)).
      destruct (ws_not _ Hws) as [_ F]. contradiction. }
    destruct (Nat.eqb_spec (S iq) len) as [|_]; [lia|].
    rewrite rd_at by lia. cbn [bind].
    assert (Hwit : forall k, Ok i0 = Ok k -> exists q, k + 2 <= q < len /\ at_ m (line + q) = DQUOTE).
    { intros k Ek. inversion Ek; subst k. exists iq. split; [lia|]. apply Hq. lia. }
    destruct (negb (N.eqb (at_ m (line + S iq)) SEMI) && negb (N.eqb (at_ m (line + S iq)) LPAR) && negb (is_ws (at_ m (line + S iq)))).
    + exists 0. split; [reflexivity|]. split; [lia|]. intros k _ _ F. contradiction.
    + exists (S iq). split; [reflexivity|]. split; [lia|]. intros k Ek _ _. apply Hwit. exact Ek.
  - destruct (is_ws (at_ m (line + S i0))).
    { exists 0. split; [reflexivity|]. split; [lia|]. intros k _ _ F. contradiction. }
    destruct (mime_token_ok m (line + S i0) (len - S i0)) as (j & Ej & Hj & Hjlt & _); [lia|].
    rewrite Ej. cbn [bind].
    assert (Hj2 : j < len - S i0).
    { apply Hjlt; [lia|]. replace (line + S i0 + (len - S i0) - 1) with (line + len - 1) by lia. exact Hws. }
    destruct (Nat.eqb_spec (S i0 + j) len) as [|_]; [lia|].
    rewrite rd_at by lia. cbn [bind].
    destruct (N.eqb (at_ m (line + (S i0 + j))) SEMI || is_ws (at_ m (line + (S i0 + j)))).
    + exists (S i0 + j). split; [reflexivity|]. split; [lia|].
      intros k Ek Hdq _. inversion Ek; subst k. contradiction.
    + exists 0. split; [reflexivity|]. split; [lia|]. intros k _ _ F. contradiction.
Qed.

(* ------------------------------------------------------------------ the boundary parameter *)
Lemma memchr_q_ok m : forall n p, p + n <= length m ->
  exists r, memchr_q m p n = Ok r /\
    (forall e, r = Some e -> p <= e < p + n /\ at_ m e = DQUOTE) /\
    (r = None -> forall j, j < n -> at_ m (p + j) <> DQUOTE).
Proof.
  induction n as [|n IH]; intros p H; cbn [memchr_q].
  - exists None. split; [reflexivity|]. split; [discriminate|]. intros _ j Hj. lia.
  - rewrite rd_at by lia. cbn [bind]. destruct (N.eqb_spec (at_ m p) DQUOTE) as [E|E].
    + exists (Some p). split; [reflexivity|]. split; [|discriminate]. intros e Ee. inversion Ee; subst e. split; [lia|exact E].
    + destruct (IH (S p)) as (r & Er & H1 & H2); [lia|]. exists r. split; [exact Er|]. split.
      * intros e Ee. destruct (H1 e Ee) as [A B]. split; [lia|exact B].
      * intros Hn j Hj. destruct j as [|j]; [rewrite Nat.add_0_r; exact E|].
        replace (p + S j) with (S p + j) by lia. apply H2; [exact Hn|lia].
Qed.

Lemma bnd_len_ok m bs lend E : bs <= E -> E < length m -> is_ws (at_ m E) = true -> forall fuel j,
  bs + j <= E -> E - (bs + j) < fuel ->
  exists r, bnd_len fuel m bs lend j = Ok r /\ j <= r /\ bs + r <= E.
Proof.
  intros HbE HE Hws. induction fuel as [|fuel IH]; intros j Hj Hf; [lia|].
  cbn [bnd_len]. rewrite rd_at by lia. cbn [bind].
  destruct (negb (is_ws (at_ m (bs + j))) && negb (N.eqb (at_ m (bs + j)) SEMI) && Nat.ltb (bs + j) lend) eqn:Ec.
  - assert (bs + j <> E).
    { intros Eq. rewrite Eq, Hws in Ec. cbn in Ec. discriminate. }
    destruct (IH (S j)) as (r & Er & H1 & H2); [lia|lia|]. exists r. split; [exact Er|]. split; lia.
  - exists j. split; [reflexivity|]. split; lia.
Qed.

Lemma bchars_ok m bs quoted : forall j, bs + j <= length m -> exists b, bchars m bs quoted j = Ok b.
Proof.
  induction j as [|j IH]; intros H; cbn [bchars]; [eauto|].
  rewrite rd_at by lia. cbn [bind]. destruct (bchar_ok quoted (at_ m (bs + j))); [apply IH; lia|eauto].
Qed.

Lemma alpha_tokch c : ((65 <= c /\ c <= 90) \/ (97 <= c /\ c <= 122))%N -> tokch c = true.
Proof.
  intros H. unfold tokch, is_ws, tspecial, SEMI, EQUALS, SP, HT, CR, LF. cbn [existsb].
  repeat match goal with
         | |- context [N.eqb c ?k] => replace (N.eqb c k) with false by (symmetry; apply N.eqb_neq; lia)
         end.
  replace (N.leb c 32) with false by (symmetry; apply N.leb_gt; lia).
  replace (N.leb 128 c) with false by (symmetry; apply N.leb_gt; lia).
  reflexivity.
Qed.

Lemma lower_letter c x : to_lower c = x -> (97 <= x /\ x <= 122)%N -> ((65 <= c /\ c <= 90) \/ (97 <= c /\ c <= 122))%N.
Proof.
  unfold to_lower, is_upper. intros E Hx.
  destruct (N.leb 65 c && N.leb c 90) eqn:Eu.
  - apply andb_prop in Eu as [A B]. apply N.leb_le in A, B. left. lia.
  - subst x. right. exact Hx.
Qed.

Lemma lower_equals c : to_lower c = EQUALS -> c = EQUALS.
Proof.
  unfold to_lower, is_upper, EQUALS. destruct (N.leb 65 c && N.leb c 90) eqn:Eu; [|auto].
  apply andb_prop in Eu as [A B]. apply N.leb_le in A, B. lia.
Qed.

Lemma eol_differs (c : N) (lit : bytes) :
  is_eol c = true -> forallb (fun x => negb (N.eqb (to_lower CR) (to_lower x)) && negb (N.eqb (to_lower LF) (to_lower x))) lit = true ->
  forall x, In x lit -> to_lower c <> to_lower x.
Proof.
  intros He Hall x Hx. rewrite forallb_forall in Hall. specialize (Hall x Hx). apply andb_prop in Hall as [A B].
  apply Bool.negb_true_iff in A, B. apply N.eqb_neq in A, B.
  unfold is_eol in He. apply Bool.orb_prop in He as [E|E]; apply N.eqb_eq in E; subst c; assumption.
Qed.

(** a header field inside the mapping that ends with a line end *)
Definition field_ok (m : bytes) (ls ll : nat) : Prop :=
  1 <= ll /\ ls + ll <= length m /\ is_eol (at_ m (ls + ll - 1)) = true.

Lemma eol_ws c : is_eol c = true -> is_ws c = true.
Proof. unfold is_eol, is_ws. intros H. apply Bool.orb_prop in H as [E|E]; rewrite E; now rewrite ?Bool.orb_true_r. Qed.

Definition mp_good (ls ll : nat) (r : MpRes) : Prop :=
  forall bs bl, r = MpYes bs bl -> 1 <= bl <= BOUNDARY_MAX /\ ls <= bs /\ bs + bl <= ls + ll.

Lemma mp_params_ok m ls ll : field_ok m ls ll -> forall fuel ch i,
  ls <= ch -> ch + i <= ls + ll -> ls + ll - (ch + i) < fuel ->
  exists r, mp_params fuel m ls ll ch i = Ok r /\ mp_good ls ll r.
Proof.
  intros (Hll & Hw & Heol). pose proof (eol_ws _ Heol) as Hws.
  set (E := ls + ll - 1). assert (HE : E < length m) by (unfold E; lia).
  induction fuel as [|fuel IH]; intros ch i Hls Hci Hf; [lia|].
  cbn [mp_params]. cbv zeta.
  destruct (Nat.ltb_spec (ls + ll) (ch + i)) as [|_]; [lia|].
  destruct (skipwhitespace_ok m (ch + i) (ls + ll - (ch + i))) as (r0 & Er0 & Hr0); [lia|].
  rewrite Er0. cbn [bind]. destruct r0 as [ch1|].
  2: { exists MpSyntax. split; [reflexivity|]. intros bs bl F. discriminate. }
  specialize (Hr0 ch1 eq_refl).
  destruct (Nat.eqb_spec ch1 (ls + ll)) as [|Hne].
  { exists MpSyntax. split; [reflexivity|]. intros bs bl F. discriminate. }
  assert (Hch1 : ch1 <= E) by (unfold E; lia).
  set (len1 := ls + ll - ch1).
  assert (Hws1 : is_ws (at_ m (ch1 + len1 - 1)) = true) by (replace (ch1 + len1 - 1) with E by (unfold len1, E; lia); exact Hws).
  destruct (mime_param_ok m ch1 len1) as (r1 & Er1 & Hr1 & Hq1); [unfold len1; lia|unfold len1; lia|exact Hws1|].
  rewrite Er1. cbn [bind].
  assert (Hisb : exists isb, (if Nat.ltb (length BOUNDARY_S) r1 then casecmp_at m ch1 BOUNDARY_S else Ok false) = Ok isb /\
                  (isb = true -> length BOUNDARY_S < r1 /\ ch1 + length BOUNDARY_S <= E /\
                     forall j, j < length BOUNDARY_S -> to_lower (at_ m (ch1 + j)) = to_lower (nth j BOUNDARY_S 0%N))).
  { destruct (Nat.ltb_spec (length BOUNDARY_S) r1) as [Hgt|].
    - destruct (casecmp_stop m BOUNDARY_S ch1 E Hch1 HE) as (b & Eb & Hb).
      { apply eol_differs; [exact Heol|reflexivity]. }
      exists b. split; [exact Eb|]. intros Ht. destruct (Hb Ht). auto.
    - exists false. split; [reflexivity|discriminate]. }
  destruct Hisb as (isb & Eisb & Hisb). rewrite Eisb. cbn [bind].
  destruct isb.
  - (* boundary= found *)
    destruct (Hisb eq_refl) as (Hr1gt & HbE & Hmatch). cbn [length BOUNDARY_S] in HbE, Hr1gt.
    change (length BOUNDARY_S) with 9.
    rewrite rd_at by lia. cbn [bind].
    assert (Hqbj : exists quoted bs j,
      (if N.eqb (at_ m (ch1 + 9)) DQUOTE then
         if Nat.ltb (ls + ll) (ch1 + 10) then Crash 21%N else
         do e <- memchr_q m (ch1 + 10) (ls + ll - 10 - ch1);
         match e with
         | None => Crash 22%N
         | Some e => Ok (true, S (ch1 + 9), e - ch1 - 10)
         end
       else do j <- bnd_len (S ll) m (ch1 + 9) (ls + ll) 0; Ok (false, ch1 + 9, j)) = Ok (quoted, bs, j) /\
      ls <= bs /\ bs + j <= E).
    { destruct (N.eqb_spec (at_ m (ch1 + 9)) DQUOTE) as [Eq|Enq].
      - destruct (Nat.ltb_spec (ls + ll) (ch1 + 10)) as [|_]; [unfold E in HbE; lia|].
        destruct (memchr_q_ok m (ls + ll - 10 - ch1) (ch1 + 10)) as (e & Ee & He1 & He2); [lia|].
        rewrite Ee. cbn [bind]. destruct e as [e|].
        + destruct (He1 e eq_refl) as [A B]. exists true, (S (ch1 + 9)), (e - ch1 - 10).
          split; [reflexivity|]. unfold E. split; lia.
        + (* mime_param found the closing quote, so memchr does *)
          exfalso.
          destruct (mime_token_ok m ch1 len1) as (k & Ek & _ & _ & Hsem); [unfold len1; lia|].
          assert (Hk : k = 8).
          { apply Hsem.
            - unfold len1, E in *. lia.
            - intros j Hj. apply alpha_tokch. apply (lower_letter _ _ (Hmatch j ltac:(cbn; lia))).
              do 8 (destruct j as [|j]; [cbn; lia|]). lia.
            - specialize (Hmatch 8 ltac:(cbn; lia)). cbn [nth BOUNDARY_S] in Hmatch.
              apply lower_equals in Hmatch. rewrite Hmatch. reflexivity. }
          subst k.
          destruct (Hq1 8 Ek) as (q & Hq & Hqd); [replace (ch1 + 9) with (ch1 + 9) by lia; exact Eq|lia|].
          apply (He2 eq_refl (q - 10)); [unfold len1 in Hq; lia|].
          replace (ch1 + 10 + (q - 10)) with (ch1 + q) by lia. exact Hqd.
      - destruct (bnd_len_ok m (ch1 + 9) (ls + ll) E ltac:(lia) HE Hws (S ll) 0) as (j & Ej & _ & Hj); [lia|unfold E; lia|].
        rewrite Ej. cbn [bind]. exists false, (ch1 + 9), j. split; [reflexivity|]. split; lia. }
    destruct Hqbj as (quoted & bs & j & Eqbj & Hbs & Hbj). rewrite Eqbj. cbn [bind].
    destruct (Nat.eqb_spec j 0) as [|Hj0].
    { eexists. split; [reflexivity|]. intros ? ? F. discriminate. }
    destruct (Nat.ltb_spec BOUNDARY_MAX j) as [|Hjmax].
    { eexists. split; [reflexivity|]. intros ? ? F. discriminate. }
    rewrite rd_at by lia. cbn [bind].
    destruct (quoted && N.eqb (at_ m (bs + j - 1)) SP).
    { eexists. split; [reflexivity|]. intros ? ? F. discriminate. }
    destruct (bchars_ok m bs quoted j) as (ok & Eok); [lia|]. rewrite Eok. cbn [bind].
    destruct ok.
    + eexists. split; [reflexivity|]. intros bs' bl' F. inversion F; subst. unfold E in Hbj. lia.
    + eexists. split; [reflexivity|]. intros ? ? F. discriminate.
  - destruct (Nat.eqb_spec r1 0) as [|Hr10].
    { exists MpSyntax. split; [reflexivity|]. intros bs bl F. discriminate. }
    unfold len1 in Hr1. rewrite rd_at by lia. cbn [bind].
    apply IH; [lia| |].
    + destruct (N.eqb (at_ m (ch1 + r1)) SEMI); lia.
    + destruct (N.eqb (at_ m (ch1 + r1)) SEMI); lia.
Qed.

(** is_multipart on no field at all, or on a Content-Type field that getfieldlen() delimited *)
Theorem is_multipart_ok m ls ll : ll = 0 \/ (CT_LEN < ll /\ field_ok m ls ll) ->
  exists r, is_multipart m ls ll = Ok r /\ mp_good ls ll r.
Proof.
  intros [->|(Hct & Hf)]; unfold is_multipart.
  { exists MpNo. split; [reflexivity|]. intros ? ? F. discriminate. }
  pose proof Hf as (Hll & Hw & Heol). pose proof (eol_ws _ Heol) as Hws.
  set (E := ls + ll - 1). assert (HE : E < length m) by (unfold E; lia).
  destruct (Nat.eqb_spec ll 0) as [|_]; [lia|].
  destruct (Nat.ltb_spec ll CT_LEN) as [|_]; [lia|].
  destruct (skipwhitespace_ok m (ls + CT_LEN) (ll - CT_LEN)) as (r0 & Er0 & Hr0); [lia|].
  rewrite Er0. cbn [bind]. destruct r0 as [ch|].
  2: { exists MpSyntax. split; [reflexivity|]. intros ? ? F. discriminate. }
  specialize (Hr0 ch eq_refl).
  destruct (Nat.eqb_spec ch (ls + ll)) as [|Hne].
  { exists MpSyntax. split; [reflexivity|]. intros ? ? F. discriminate. }
  assert (HchE : ch <= E) by (unfold E; lia).
  destruct (casecmp_stop m MULTIPART_S ch E HchE HE) as (mp & Emp & Hmp).
  { apply eol_differs; [exact Heol|reflexivity]. }
  rewrite Emp. cbn [bind]. destruct mp; cbn [negb].
  2: { exists MpNo. split; [reflexivity|]. intros ? ? F. discriminate. }
  destruct (Hmp eq_refl) as (Hm10 & _). change (length MULTIPART_S) with 10 in *. cbv zeta.
  destruct (Nat.ltb_spec (ls + ll) (ch + 10)) as [|_]; [unfold E in Hm10; lia|].
  set (len2 := ls + ll - ch - 10).
  destruct (mime_token_ok m (ch + 10) len2) as (j & Ej & Hj & Hjlt & _); [unfold len2; lia|].
  rewrite Ej. cbn [bind].
  assert (Hj2 : j < len2).
  { apply Hjlt; [unfold len2, E in *; lia|]. replace (ch + 10 + len2 - 1) with E by (unfold len2, E in *; lia). exact Hws. }
  destruct (Nat.eqb_spec j 0) as [|Hj0].
  { exists MpSyntax. split; [reflexivity|]. intros ? ? F. discriminate. }
  unfold len2 in Hj2. rewrite rd_at by lia. cbn [bind].
  destruct (N.eqb (at_ m (ch + (10 + j))) EQUALS).
  { exists MpSyntax. split; [reflexivity|]. intros ? ? F. discriminate. }
  destruct (negb (N.eqb (at_ m (ch + (10 + j))) SEMI)).
  { exists MpSyntax. split; [reflexivity|]. intros ? ? F. discriminate. }
  apply (mp_params_ok m ls ll Hf); [unfold CT_LEN in *; lia|lia|lia].
Qed.

(* ------------------------------------------------------------------ getfieldlen *)
Lemma eol_cases c : is_eol c = true -> c = CR \/ c = LF.
Proof. unfold is_eol. intros H. apply Bool.orb_prop in H as [E|E]; apply N.eqb_eq in E; auto. Qed.

Definition gfl_good (m : bytes) (msg len fl : nat) : Prop :=
  fl = 0 \/ (1 <= fl <= len /\ is_eol (at_ m (msg + fl - 1)) = true).

Lemma gfl_ok m msg len : msg + len <= length m -> forall fuel cr r,
  cr + r = len -> r < fuel -> (1 <= cr \/ 1 <= r) ->
  exists fl, gfl fuel m msg len cr r = Ok fl /\ gfl_good m msg len fl.
Proof.
  intros Hw. induction fuel as [|fuel IH]; intros cr r Hcr Hf Hpos; [lia|].
  cbn [gfl].
  destruct (Nat.eqb_spec r 0) as [Hr0|Hrn].
  - (* the data is used up *)
    subst r. cbn [bind negb Nat.eqb].
    destruct (Nat.eqb_spec cr 0) as [|_]; [lia|].
    rewrite rd_at by lia. cbn [bind].
    eexists. split; [reflexivity|]. unfold gfl_good.
    destruct (is_eol (at_ m (msg + cr - 1))) eqn:E; [right|left; reflexivity].
    rewrite Nat.sub_0_r. split; [lia|]. replace (msg + len - 1) with (msg + cr - 1) by lia. exact E.
  - rewrite rd_at by lia. cbn [bind].
    destruct (is_eol (at_ m (msg + cr))) eqn:Ee; cbn [negb].
    2: { apply IH; lia. }
    (* at a line end: optional CR, optional LF; then the continuation test *)
    assert (Tail : forall cr2 r2, cr2 + r2 = len -> r2 < r -> 1 <= cr2 ->
      exists fl,
        (do again <- (if Nat.eqb r2 0 then Ok false else do x <- rd m (msg + cr2); Ok (N.eqb x SP || N.eqb x HT));
         if again then gfl fuel m msg len cr2 r2 else
         if Nat.eqb cr2 0 then Crash 25%N else
         do z <- rd m (msg + cr2 - 1);
         Ok (if is_eol z then len - r2 else 0)) = Ok fl /\ gfl_good m msg len fl).
    { intros cr2 r2 Hc2 Hr2 Hp2.
      assert (Hag : exists again, (if Nat.eqb r2 0 then Ok false else do x <- rd m (msg + cr2); Ok (N.eqb x SP || N.eqb x HT)) = Ok again).
      { destruct (Nat.eqb_spec r2 0); [eauto|]. rewrite rd_at by lia. cbn [bind]. eauto. }
      destruct Hag as (again & Eag). rewrite Eag. cbn [bind].
      destruct again.
      - apply IH; lia.
      - destruct (Nat.eqb_spec cr2 0) as [|_]; [lia|].
        rewrite rd_at by lia. cbn [bind].
        eexists. split; [reflexivity|]. unfold gfl_good.
        destruct (is_eol (at_ m (msg + cr2 - 1))) eqn:E; [right|left; reflexivity].
        split; [lia|]. replace (msg + (len - r2) - 1) with (msg + cr2 - 1) by lia. exact E. }
    destruct (eol_cases _ Ee) as [Ec|Ec]; rewrite Ec.
    + change (N.eqb CR CR) with true. cbv iota. cbn [bind].
      destruct (Nat.eqb_spec (r - 1) 0) as [Hz|Hnz].
      * cbn [bind]. apply Tail; lia.
      * rewrite rd_at by lia. cbn [bind]. destruct (N.eqb (at_ m (msg + S cr)) LF); cbn [bind]; apply Tail; lia.
    + change (N.eqb LF CR) with false. cbv iota. cbn [bind].
      destruct (Nat.eqb_spec r 0) as [|_]; [contradiction|].
      rewrite rd_at by lia. cbn [bind]. rewrite Ec. change (N.eqb LF LF) with true. cbv iota. cbn [bind].
      apply Tail; lia.
Qed.

Theorem getfieldlen_ok m msg len : msg + len <= length m -> 1 <= len ->
  exists fl, getfieldlen m msg len = Ok fl /\ gfl_good m msg len fl.
Proof. intros Hw Hl. unfold getfieldlen. apply (gfl_ok m msg len Hw); lia. Qed.

(* ------------------------------------------------------------------ find_boundary *)
Definition fb_good (m : bytes) (buf len : nat) (bnd : bytes) (p : nat) : Prop :=
  p = 0 \/ (length bnd + 3 <= p <= len /\ (p < len -> at_ m (buf + p) = DASH -> p + 2 <= len)).

Lemma ws_not_dash c : is_ws c = true -> c <> DASH.
Proof. unfold is_ws. intros H ->. cbn in H. discriminate. Qed.

Lemma fb_loop_ok m buf len bnd : buf + len <= length m -> forall fuel pos,
  len - pos < fuel ->
  exists p, fb_loop fuel m buf len bnd pos = Ok p /\ fb_good m buf len bnd p.
Proof.
  intros Hw. induction fuel as [|fuel IH]; intros pos Hf; [lia|].
  cbn [fb_loop]. cbv zeta. set (bl := length bnd).
  destruct (Nat.leb_spec (pos + 3 + bl) len) as [Hin|Hout].
  2: { exists 0. split; [reflexivity|left; reflexivity]. }
  rewrite rd_at by lia. cbn [bind].
  assert (Hhit : exists hit,
    (if is_eol (at_ m (buf + pos)) then
       do y <- rd m (buf + pos + 1);
       if N.eqb y DASH then
         do z <- rd m (buf + pos + 2);
         if N.eqb z DASH then cmp_at m (buf + pos + 3) bnd else Ok false
       else Ok false
     else Ok false) = Ok hit).
  { destruct (is_eol (at_ m (buf + pos))); [|eauto].
    rewrite rd_at by lia. cbn [bind]. destruct (N.eqb (at_ m (buf + pos + 1)) DASH); [|eauto].
    rewrite rd_at by lia. cbn [bind]. destruct (N.eqb (at_ m (buf + pos + 2)) DASH); [|eauto].
    apply cmp_at_in. fold bl. lia. }
  destruct Hhit as (hit & Ehit). rewrite Ehit. cbn [bind].
  destruct hit.
  - set (pos1 := pos + 3 + bl).
    assert (Hres : exists res,
      (if Nat.eqb pos1 len then Ok (Some pos1) else
       do w <- rd m (buf + pos1);
       if is_ws w then Ok (Some pos1) else
       if Nat.ltb (pos1 + 1) len then
         do w1 <- rd m (buf + pos1 + 1);
         if N.eqb w DASH && N.eqb w1 DASH then
           if Nat.eqb (pos1 + 2) len then Ok (Some pos1)
           else do w2 <- rd m (buf + pos1 + 2); Ok (if is_ws w2 then Some pos1 else None)
         else Ok None
       else Ok None) = Ok res /\
      (forall p, res = Some p -> p = pos1 /\ (p < len -> at_ m (buf + p) = DASH -> p + 2 <= len))).
    { destruct (Nat.eqb_spec pos1 len) as [He|Hne].
      - eexists. split; [reflexivity|]. intros p Ep. inversion Ep; subst p. split; [reflexivity|lia].
      - rewrite rd_at by lia. cbn [bind]. destruct (is_ws (at_ m (buf + pos1))) eqn:Ew.
        + eexists. split; [reflexivity|]. intros p Ep. inversion Ep; subst p. split; [reflexivity|].
          intros _ Hd. exfalso. exact (ws_not_dash _ Ew Hd).
        + destruct (Nat.ltb_spec (pos1 + 1) len) as [Hlt|Hge].
          * rewrite rd_at by lia. cbn [bind].
            destruct (N.eqb (at_ m (buf + pos1)) DASH && N.eqb (at_ m (buf + pos1 + 1)) DASH).
            -- destruct (Nat.eqb_spec (pos1 + 2) len).
               ++ eexists. split; [reflexivity|]. intros p Ep. inversion Ep; subst p. split; [reflexivity|lia].
               ++ rewrite rd_at by lia. cbn [bind]. destruct (is_ws (at_ m (buf + pos1 + 2))).
                  ** eexists. split; [reflexivity|]. intros p Ep. inversion Ep; subst p. split; [reflexivity|lia].
                  ** eexists. split; [reflexivity|]. discriminate.
            -- eexists. split; [reflexivity|]. discriminate.
          * eexists. split; [reflexivity|]. discriminate. }
    destruct Hres as (res & Eres & Hres). rewrite Eres. cbn [bind].
    destruct res as [p|].
    + destruct (Hres p eq_refl) as [-> Hd]. exists pos1. split; [reflexivity|]. right. split; [unfold pos1; fold bl; lia|exact Hd].
    + apply IH. lia.
  - cbn [bind]. apply IH. lia.
Qed.

Theorem find_boundary_ok m buf len bnd : buf + len <= length m ->
  exists p, find_boundary m buf len bnd = Ok p /\ fb_good m buf len bnd p.
Proof.
  intros Hw. unfold find_boundary. destruct (Nat.ltb len (length bnd + 3)).
  - exists 0. split; [reflexivity|left; reflexivity].
  - apply (fb_loop_ok m buf len bnd Hw). lia.
Qed.

(** String lemmas used by the agreement proof (Proofs/SpfAgree*.v): prefixes and case,
    take_while / drop_while, decimal numbers as strtol()/strtoul() read them. *)
From Coq Require Import Lia ZifyBool ZifyN.
From Qv Require Import Common.Bytes Model.SpfBase.
Local Open Scope N_scope.

Definition lowerb (s : bytes) : bytes := map to_lower s.

(** the scan with [f] stops at the head of [y] *)
Definition stops (f : N -> bool) (y : bytes) : bool := match y with [] => true | c :: _ => negb (f c) end.
(** what follows a term in a record of the strict grammar: nothing or a space *)
Definition sp_tail (y : bytes) : bool := match y with [] => true | c :: _ => c =? 32 end.

Lemma sp_tail_at_end y : sp_tail y = true -> at_end y = true.
Proof. destruct y as [|c t]; [reflexivity|]. unfold sp_tail, at_end, wspace. lia. Qed.
Lemma sp_tail_hd y : sp_tail y = true -> hd0 y = 0 \/ hd0 y = 32.
Proof. destruct y as [|c t]; [left; reflexivity|]. cbn. lia. Qed.
Lemma sp_tail_stops f y : f 32 = false -> sp_tail y = true -> stops f y = true.
Proof.
  intros Hf. destruct y as [|c t]; [reflexivity|]. cbn. intros H. apply N.eqb_eq in H. subst. rewrite Hf. reflexivity.
Qed.

Lemma take_while_app f a y : forallb f a = true -> stops f y = true -> take_while f (a ++ y) = a.
Proof.
  induction a as [|c a IH]; cbn; intros Ha Hy.
  - destruct y as [|d y]; [reflexivity|]. cbn in *. destruct (f d); [discriminate|reflexivity].
  - apply andb_true_iff in Ha as [Hc Ha]. rewrite Hc, IH; auto.
Qed.
Lemma drop_while_app f a y : forallb f a = true -> stops f y = true -> drop_while f (a ++ y) = y.
Proof.
  induction a as [|c a IH]; cbn; intros Ha Hy.
  - destruct y as [|d y]; [reflexivity|]. cbn in *. destruct (f d); [discriminate|reflexivity].
  - apply andb_true_iff in Ha as [Hc Ha]. rewrite Hc, IH; auto.
Qed.
Lemma take_drop f s : take_while f s ++ drop_while f s = s.
Proof. induction s as [|c s IH]; cbn; [reflexivity|]. destruct (f c); cbn; [rewrite IH|]; reflexivity. Qed.
Lemma take_while_all f s : forallb f (take_while f s) = true.
Proof. induction s as [|c s IH]; cbn; [reflexivity|]. destruct (f c) eqn:E; cbn; [rewrite E; exact IH|reflexivity]. Qed.
Lemma drop_while_stops f s : stops f (drop_while f s) = true.
Proof. induction s as [|c s IH]; cbn; [reflexivity|]. destruct (f c) eqn:E; [exact IH|cbn; rewrite E; reflexivity]. Qed.
Lemma drop_while_none f s : forallb f s = true -> drop_while f s = [].
Proof. induction s as [|c s IH]; cbn; [reflexivity|]. intros H. apply andb_true_iff in H as [H1 H2]. rewrite H1. auto. Qed.
Lemma forallb_app' {A} (f : A -> bool) a b : forallb f (a ++ b) = forallb f a && forallb f b.
Proof. induction a; cbn; [reflexivity|]. rewrite IHa, andb_assoc. reflexivity. Qed.
Lemma forallb_impl' {A} (f g : A -> bool) l :
  (forall x, f x = true -> g x = true) -> forallb f l = true -> forallb g l = true.
Proof.
  intros H. induction l as [|x l IH]; cbn; [auto|].
  intros E. apply andb_true_iff in E as [E1 E2]. rewrite (H _ E1), (IH E2). reflexivity.
Qed.
Lemma forallb_firstn {A} (f : A -> bool) n l : forallb f l = true -> forallb f (firstn n l) = true.
Proof.
  revert l; induction n as [|n IH]; intros l H; [reflexivity|]. destruct l as [|x l]; [reflexivity|].
  cbn in *. apply andb_true_iff in H as [H1 H2]. rewrite H1, IH; auto.
Qed.

(* ------------------------------------------------------------------ prefixes *)
Lemma lowerb_app a b : lowerb (a ++ b) = lowerb a ++ lowerb b.
Proof. apply map_app. Qed.
Lemma lowerb_length a : length (lowerb a) = length a.
Proof. apply map_length. Qed.
Lemma to_lower_idem c : to_lower (to_lower c) = to_lower c.
Proof. unfold to_lower, is_upper. destruct ((65 <=? c) && (c <=? 90)) eqn:E; [|rewrite E; reflexivity].
  destruct ((65 <=? c + 32) && (c + 32 <=? 90)) eqn:E2; [lia|reflexivity]. Qed.
Lemma lowerb_idem s : lowerb (lowerb s) = lowerb s.
Proof. unfold lowerb. induction s; cbn; [reflexivity|]. rewrite to_lower_idem. f_equal. exact IHs. Qed.

Lemma case_prefix_lower p s : case_prefix p s = is_prefix (lowerb p) (lowerb s).
Proof.
  revert s; induction p as [|a p IH]; intros s; [reflexivity|].
  destruct s as [|b s]; [reflexivity|]. cbn. rewrite IH. reflexivity.
Qed.
Lemma is_prefix_app p x : is_prefix p (p ++ x) = true.
Proof. induction p; cbn; [reflexivity|]. rewrite N.eqb_refl. exact IHp. Qed.
Lemma is_prefix_split p s : is_prefix p s = true -> s = p ++ skipn (length p) s.
Proof.
  revert s; induction p as [|a p IH]; intros s H; [reflexivity|].
  destruct s as [|b s]; [discriminate|]. cbn in H. apply andb_true_iff in H as [H1 H2].
  apply N.eqb_eq in H1. subst. cbn. f_equal. apply IH, H2.
Qed.
Lemma is_prefix_case p s : is_prefix p s = true -> case_prefix p s = true.
Proof.
  revert s; induction p as [|a p IH]; intros s H; [reflexivity|].
  destruct s as [|b s]; [discriminate|]. cbn in *. apply andb_true_iff in H as [H1 H2].
  apply N.eqb_eq in H1. subst. rewrite N.eqb_refl. cbn. apply IH, H2.
Qed.
(** a keyword found in the lower-cased text: the text is a spelling of it, then the rest *)
Lemma lower_kw_split K s : is_prefix K (lowerb s) = true ->
  lowerb (firstn (length K) s) = K /\ s = firstn (length K) s ++ skipn (length K) s /\ length (firstn (length K) s) = length K.
Proof.
  intros H. pose proof (is_prefix_split _ _ H) as E.
  assert (L : (length K <= length s)%nat).
  { rewrite <- (lowerb_length s), E, app_length. lia. }
  split; [|split; [symmetry; apply firstn_skipn|apply firstn_length_le, L]].
  unfold lowerb. rewrite <- firstn_map. fold (lowerb s). rewrite E.
  rewrite firstn_app, Nat.sub_diag, firstn_all. cbn. apply app_nil_r.
Qed.
Lemma case_prefix_kw K k x : lowerb K = K -> lowerb k = K -> case_prefix K (k ++ x) = true.
Proof. intros HK Hk. rewrite case_prefix_lower, HK, lowerb_app, Hk. apply is_prefix_app. Qed.

(* ------------------------------------------------------------------ decimal numbers *)
Lemma digits_val_app d x acc : forallb is_digit d = true -> stops is_digit x = true ->
  digits_val (d ++ x) acc = (fst (digits_val d acc), x).
Proof.
  revert acc; induction d as [|c d IH]; intros acc Hd Hx; cbn.
  - destruct x as [|e x]; [reflexivity|]. cbn in Hx |- *. destruct (is_digit e); [discriminate|reflexivity].
  - cbn in Hd. apply andb_true_iff in Hd as [Hc Hd]. rewrite Hc. apply IH; auto.
Qed.

Lemma parse_num_digits d x : d <> [] -> forallb is_digit d = true -> stops is_digit x = true ->
  parse_num (d ++ x) = Some (false, fst (digits_val d 0), x).
Proof.
  intros Hne Hd Hx. destruct d as [|c d]; [congruence|]. clear Hne.
  cbn in Hd. apply andb_true_iff in Hd as [Hc Hd].
  unfold parse_num. cbn [app drop_while].
  assert (Hs : isspace_c c = false) by (unfold isspace_c, is_digit in *; lia).
  rewrite Hs. cbn [hd0].
  assert (H45 : (c =? 45) = false) by (unfold is_digit in Hc; lia).
  assert (H43 : (c =? 43) = false) by (unfold is_digit in Hc; lia).
  rewrite H45, H43, Hc.
  change (c :: d ++ x) with ((c :: d) ++ x). rewrite digits_val_app; [reflexivity| |exact Hx].
  cbn. rewrite Hc. exact Hd.
Qed.

Lemma to_int32_small z : (0 <= z < 2 ^ 31)%Z -> to_int32 z = z.
Proof. intros H. unfold to_int32. rewrite Z.mod_small; lia. Qed.

Lemma strtol_digits d x : d <> [] -> forallb is_digit d = true -> stops is_digit x = true ->
  fst (digits_val d 0) < 2 ^ 31 ->
  strtol_c (d ++ x) = (Z.of_N (fst (digits_val d 0)), x) /\ to_int32 (Z.of_N (fst (digits_val d 0))) = Z.of_N (fst (digits_val d 0)).
Proof.
  intros Hne Hd Hx Hv. unfold strtol_c. rewrite parse_num_digits; auto. split.
  - f_equal. apply Z.min_l. lia.
  - apply to_int32_small. lia.
Qed.
Lemma strtoul_digits d x : d <> [] -> forallb is_digit d = true -> stops is_digit x = true ->
  fst (digits_val d 0) < 2 ^ 31 ->
  strtoul_c (d ++ x) = (fst (digits_val d 0), x).
Proof.
  intros Hne Hd Hx Hv. unfold strtoul_c. rewrite parse_num_digits; auto.
  destruct (2 ^ 64 <=? fst (digits_val d 0)) eqn:E; [lia|reflexivity].
Qed.

(** Proofs about the text loaders: lloadfilefd in mode 3 (strip + compact),
    loadlistfd (no check callback) and the strict loadintfd.
    loadlist content = the non-empty entries of its lines ([list_spec]) or EINVAL;
    loadint content = default / the single decimal numeral / EINVAL ([int_spec]). *)
From Qv Require Import Common.Bytes Gen.GenControl Model.LoadFile Spec.ControlSpec Proofs.FindDomainProofs.

Ltac lconsts := unfold LL_COMMENT, LL_ESC, LL_LF, LL_STRIP_BIT, LL_BLANK_A, LL_BLANK_B, LL_COMPACT_BIT,
                       LOADLIST_MODE, LOADINT_MODE, LOADINT_BASE, LOADINT_DIGIT_LO, LOADINT_DIGIT_HI in *.

(** ------------------------------------------------------------ inner loops *)
Lemma ll_blank_is_blank b : ll_blank b = is_blank b.
Proof. reflexivity. Qed.

Lemma zero_comment_length (rest : bytes) :
  length (snd (zero_comment rest)) <= length rest.
Proof.
  induction rest as [|b r IH]; [cbn; lia|]. cbn [zero_comment].
  destruct (N.eqb b 0 || N.eqb b LL_LF); [cbn; lia|].
  destruct (zero_comment r) as [z r']. cbn [snd length] in *. lia.
Qed.

Lemma zero_blanks_length (rest : bytes) :
  length (snd (zero_blanks rest)) <= length rest.
Proof.
  induction rest as [|b r IH]; [cbn; lia|]. cbn [zero_blanks].
  destruct (ll_blank b); [|cbn; lia].
  destruct (zero_blanks r) as [z r']. cbn [snd length] in *. lia.
Qed.

(** ------------------------------------------------------------ fuel does not matter once it exceeds the input *)
Lemma ll_scan_fuel (st : nat) : forall f1 f2 d rest,
  length rest < f1 -> length rest < f2 -> ll_scan f1 st d rest = ll_scan f2 st d rest.
Proof.
  induction f1 as [|f1 IH]; intros f2 d rest H1 H2; [lia|].
  destruct f2 as [|f2]; [lia|].
  destruct rest as [|b r]; [reflexivity|]. cbn [ll_scan]. cbn [length] in H1, H2.
  destruct (N.eqb b LL_COMMENT && match d with [] => true | p :: _ => negb (N.eqb p LL_ESC) end) eqn:Ec.
  - apply andb_true_iff in Ec as [Ec _]. apply N.eqb_eq in Ec. subst b.
    cbn [zero_comment]. lconsts. cbn [N.eqb Pos.eqb orb].
    pose proof (zero_comment_length r) as Hl.
    destruct (zero_comment r) as [z r']. cbn [snd] in Hl. apply IH; lia.
  - destruct (has_bit st LL_STRIP_BIT && ll_blank b).
    + pose proof (zero_blanks_length r) as Hl.
      destruct (zero_blanks r) as [z r']. cbn [snd] in Hl.
      destruct (negb (N.eqb (hd 0%N r') 0) && negb (N.eqb (hd 0%N r') LL_LF)); [reflexivity|].
      apply IH; lia.
    + destruct (N.eqb b LL_LF); apply IH; lia.
Qed.

Lemma ll_scan_S fuel st d b r :
  ll_scan (S fuel) st d (b :: r) =
  if N.eqb b LL_COMMENT && (match d with [] => true | p :: _ => negb (N.eqb p LL_ESC) end)
  then let (z, r') := zero_comment (b :: r) in ll_scan fuel st (z ++ d) r'
  else if has_bit st LL_STRIP_BIT && ll_blank b then
    let (z, r') := zero_blanks r in
    if negb (N.eqb (hd 0%N r') 0) && negb (N.eqb (hd 0%N r') LL_LF) then Ok None
    else ll_scan fuel st (z ++ 0%N :: d) r'
  else if N.eqb b LL_LF then ll_scan fuel st (0%N :: d) r
  else ll_scan fuel st (b :: d) r.
Proof. reflexivity. Qed.

(** mode 3 (strip blanks + compact), enough fuel *)
Definition scanm (st : nat) (d rest : bytes) : Cres (option bytes) := ll_scan (S (length rest)) st d rest.
Definition sb (st : nat) : bool := has_bit st 2.

Lemma scan3_nil st d : scanm st d [] = Ok (Some (rev d)).
Proof. reflexivity. Qed.

Lemma scan3_cons st d b r :
  scanm st d (b :: r) =
  if N.eqb b 35 && negb (N.eqb (hd 0%N d) 92) then
    let (z, r') := zero_comment (b :: r) in scanm st (z ++ d) r'
  else if sb st && is_blank b then
    let (z, r') := zero_blanks r in
    if negb (N.eqb (hd 0%N r') 0) && negb (N.eqb (hd 0%N r') 10) then Ok None
    else scanm st (z ++ 0%N :: d) r'
  else if N.eqb b 10 then scanm st (0%N :: d) r
  else scanm st (b :: d) r.
Proof.
  unfold scanm, sb. cbn [length]. rewrite ll_scan_S.
  replace (match d with [] => true | p :: _ => negb (N.eqb p LL_ESC) end) with (negb (N.eqb (hd 0%N d) 92))
    by (destruct d; reflexivity).
  rewrite ll_blank_is_blank. lconsts.
  destruct (N.eqb b 35 && negb (N.eqb (hd 0%N d) 92)) eqn:Ec.
  - apply andb_true_iff in Ec as [Ec _]. apply N.eqb_eq in Ec. subst b.
    cbn [zero_comment]. lconsts. cbn [N.eqb Pos.eqb orb].
    pose proof (zero_comment_length r) as Hl.
    destruct (zero_comment r) as [z r']. cbn [snd] in Hl.
    apply ll_scan_fuel; lia.
  - destruct (has_bit st 2 && is_blank b).
    + pose proof (zero_blanks_length r) as Hl.
      destruct (zero_blanks r) as [z r']. cbn [snd] in Hl.
      destruct (negb (N.eqb (hd 0%N r') 0) && negb (N.eqb (hd 0%N r') 10)); [reflexivity|].
      apply ll_scan_fuel; lia.
    + destruct (N.eqb b 10); reflexivity.
Qed.

(** ------------------------------------------------------------ one line *)
Definition no_eol (l : bytes) : Prop := Forall (fun b => is_eol b = false) l.
Definition eol_led (rest : bytes) : Prop := rest = [] \/ exists s r, rest = s :: r /\ is_eol s = true.

Lemma is_eol_cases b : is_eol b = true -> b = 10%N \/ b = 0%N.
Proof. unfold is_eol. intros H. apply orb_true_iff in H as [H|H]; apply N.eqb_eq in H; auto. Qed.

Lemma not_eol b : is_eol b = false -> b <> 10%N /\ b <> 0%N.
Proof. unfold is_eol. intros H. apply orb_false_iff in H as [H1 H2]. apply N.eqb_neq in H1, H2. auto. Qed.

Lemma eol_not_blank b : is_eol b = true -> is_blank b = false.
Proof. intros H. apply is_eol_cases in H as [-> | ->]; reflexivity. Qed.

Lemma repeat_snoc {A} (a : A) n l : repeat a n ++ a :: l = a :: repeat a n ++ l.
Proof. induction n as [|n IH]; [reflexivity|]. cbn [repeat app]. now rewrite IH. Qed.

Lemma rev_repeat {A} (a : A) n : rev (repeat a n) = repeat a n.
Proof.
  induction n as [|n IH]; [reflexivity|]. cbn [repeat rev]. rewrite IH.
  rewrite <- (app_nil_r (repeat a n)) at 2. rewrite repeat_snoc, app_nil_r. reflexivity.
Qed.

Lemma zero_comment_line (l rest : bytes) :
  no_eol l -> eol_led rest -> zero_comment (l ++ rest) = (repeat 0%N (length l), rest).
Proof.
  intros Hl Hr. induction Hl as [|b l Hb Hl IH].
  - cbn [app length repeat]. destruct Hr as [-> | (s & r & -> & Hs)]; [reflexivity|].
    cbn [zero_comment]. lconsts. apply is_eol_cases in Hs as [-> | ->]; reflexivity.
  - cbn [app zero_comment length repeat]. lconsts. apply not_eol in Hb as [Hb1 Hb2].
    apply N.eqb_neq in Hb1, Hb2. rewrite Hb1, Hb2. cbn [orb]. rewrite IH. reflexivity.
Qed.

Lemma zero_blanks_all (l rest : bytes) :
  forallb is_blank l = true -> eol_led rest -> zero_blanks (l ++ rest) = (repeat 0%N (length l), rest).
Proof.
  intros Hl Hr. induction l as [|b l IH].
  - cbn [app length repeat]. destruct Hr as [-> | (s & r & -> & Hs)]; [reflexivity|].
    cbn [zero_blanks]. rewrite ll_blank_is_blank, (eol_not_blank s Hs). reflexivity.
  - cbn [forallb] in Hl. apply andb_true_iff in Hl as [Hb Hl].
    cbn [app zero_blanks length repeat]. rewrite ll_blank_is_blank, Hb, (IH Hl). reflexivity.
Qed.

Lemma zero_blanks_stop (l rest : bytes) :
  forallb is_blank l = false ->
  exists z x r', zero_blanks (l ++ rest) = (z, x :: r') /\ In x l /\ is_blank x = false.
Proof.
  induction l as [|b l IH]; intros H; [discriminate|].
  cbn [forallb] in H. cbn [app zero_blanks]. rewrite ll_blank_is_blank.
  destruct (is_blank b) eqn:Eb.
  - cbn [andb] in H. destruct (IH H) as (z & x & r' & E & Hin & Hx).
    rewrite E. exists (0%N :: z), x, r'. repeat split; auto. now right.
  - exists [], b, (l ++ rest). repeat split; auto. now left.
Qed.

Lemma scan_line (st : nat) : forall (l d rest : bytes),
  no_eol l -> eol_led rest ->
  scanm st d (l ++ rest) =
  match line_tail_m (sb st) (hd 0%N d) l with
  | None => Ok None
  | Some e => scanm st (repeat 0%N (length l - length e) ++ rev e ++ d) rest
  end.
Proof.
  induction l as [|b l IH]; intros d rest Hl Hr; [reflexivity|].
  inversion Hl as [|? ? Hb Hl']; subst.
  cbn [app]. rewrite scan3_cons. cbn [line_tail_m].
  destruct (N.eqb b 35 && negb (N.eqb (hd 0%N d) 92)) eqn:Ec.
  - change (b :: l ++ rest) with ((b :: l) ++ rest). rewrite zero_comment_line by assumption.
    cbn [length rev app Nat.sub]. reflexivity.
  - destruct (sb st && is_blank b) eqn:Eb.
    + destruct (forallb is_blank l) eqn:Ea.
      * rewrite zero_blanks_all by assumption.
        replace (negb (N.eqb (hd 0%N rest) 0) && negb (N.eqb (hd 0%N rest) 10)) with false.
        -- cbn [length rev app Nat.sub repeat]. rewrite repeat_snoc. reflexivity.
        -- destruct Hr as [-> | (s & r & -> & Hs)]; [reflexivity|].
           cbn [hd]. apply is_eol_cases in Hs as [-> | ->]; reflexivity.
      * destruct (zero_blanks_stop l rest Ea) as (z & x & r' & E & Hin & Hx).
        rewrite E. cbn [hd].
        unfold no_eol in Hl'. rewrite Forall_forall in Hl'. specialize (Hl' x Hin).
        apply not_eol in Hl' as [H1 H2]. apply N.eqb_neq in H1, H2. rewrite H1, H2. reflexivity.
    + apply not_eol in Hb as [Hb1 Hb2]. apply N.eqb_neq in Hb1. rewrite Hb1.
      rewrite IH by assumption. cbn [hd].
      destruct (line_tail_m (sb st) b l) as [e|]; [|reflexivity]. cbn [option_map length rev Nat.sub].
      rewrite <- !app_assoc. reflexivity.
Qed.

Lemma line_tail_no_eol (strip : bool) : forall l prev e, no_eol l -> line_tail_m strip prev l = Some e -> no_eol e.
Proof.
  induction l as [|b l IH]; intros prev e Hl H; cbn [line_tail_m] in H.
  - injection H as <-. constructor.
  - inversion Hl as [|? ? Hb Hl']; subst.
    destruct (N.eqb b 35 && negb (N.eqb prev 92)); [injection H as <-; constructor|].
    destruct (strip && is_blank b).
    + destruct (forallb is_blank l); [injection H as <-; constructor|discriminate].
    + destruct (line_tail_m strip b l) as [e'|] eqn:E; [|discriminate]. injection H as <-.
      constructor; [assumption|]. eapply IH; eassumption.
Qed.

(** ------------------------------------------------------------ the non-empty NUL-separated pieces of a buffer *)
Definition one (e : bytes) : list bytes := if is_nil e then [] else [e].

Lemma no_eol_no_nul e : no_eol e -> Forall (fun b => is_nul b = false) e.
Proof.
  intros H. eapply Forall_impl; [|exact H]. intros b Hb. apply not_eol in Hb as [_ Hb].
  now apply N.eqb_neq.
Qed.

Lemma pieces_app e r : Forall (fun b => is_nul b = false) e -> pieces (e ++ 0%N :: r) = one e ++ pieces r.
Proof.
  intros He. unfold pieces, one. rewrite split_on_app by (auto; reflexivity).
  cbn [filter]. destruct (is_nil e); reflexivity.
Qed.

Lemma pieces_single e : Forall (fun b => is_nul b = false) e -> pieces e = one e.
Proof.
  intros He. unfold pieces, one. rewrite split_on_nosep by assumption.
  cbn [filter]. destruct (is_nil e); reflexivity.
Qed.

Lemma pieces_zeros n r : pieces (repeat 0%N n ++ r) = pieces r.
Proof.
  induction n as [|n IH]; [reflexivity|]. cbn [repeat app].
  change (0%N :: repeat 0%N n ++ r) with ([] ++ 0%N :: (repeat 0%N n ++ r)).
  rewrite pieces_app by constructor. exact IH.
Qed.

Lemma pieces_entry_zeros e n : Forall (fun b => is_nul b = false) e -> pieces (e ++ repeat 0%N n) = one e.
Proof.
  intros He. destruct n as [|n].
  - cbn [repeat]. rewrite app_nil_r. now apply pieces_single.
  - cbn [repeat]. rewrite pieces_app by assumption.
    rewrite <- (app_nil_r (repeat 0%N n)), pieces_zeros. unfold pieces. cbn. now rewrite app_nil_r.
Qed.

Lemma pieces_entry_zeros_more e n r :
  Forall (fun b => is_nul b = false) e -> pieces (e ++ repeat 0%N n ++ 0%N :: r) = one e ++ pieces r.
Proof.
  intros He. rewrite repeat_snoc.
  rewrite pieces_app by assumption. f_equal. apply pieces_zeros.
Qed.

(** ------------------------------------------------------------ the whole file *)
Lemma eol_split (c : bytes) :
  (no_eol c) \/ exists l s r, c = l ++ s :: r /\ no_eol l /\ is_eol s = true.
Proof.
  induction c as [|x c IH].
  - left. constructor.
  - destruct (is_eol x) eqn:Ex.
    + right. exists [], x, c. repeat split; auto. constructor.
    + destruct IH as [IH|(l & s & r & E & Hl & Hs)].
      * left. constructor; assumption.
      * right. exists (x :: l), s, r. subst. repeat split; auto. constructor; assumption.
Qed.

Lemma line_tail_len (strip : bool) : forall l prev e, line_tail_m strip prev l = Some e -> length e <= length l.
Proof.
  induction l as [|b l IH]; intros prev e H; cbn [line_tail_m] in H.
  - injection H as <-. cbn; lia.
  - destruct (N.eqb b 35 && negb (N.eqb prev 92)); [injection H as <-; cbn; lia|].
    destruct (strip && is_blank b).
    + destruct (forallb is_blank l); [injection H as <-; cbn; lia|discriminate].
    + destruct (line_tail_m strip b l) as [e'|] eqn:E; [|discriminate]. injection H as <-.
      specialize (IH _ _ E). cbn [length]. lia.
Qed.

Lemma scan_file (st : nat) : forall (n : nat) (c d : bytes),
  length c < n -> hd 0%N d = 0%N ->
  match all_some (map (line_tail_m (sb st) 0) (split_on is_eol c)) with
  | None => scanm st d c = Ok None
  | Some es => exists img, scanm st d c = Ok (Some (rev d ++ img)) /\
                           pieces img = filter (fun e => negb (is_nil e)) es /\
                           length img = length c
  end.
Proof.
  induction n as [|n IH]; intros c d Hn Hd; [lia|].
  destruct (eol_split c) as [Hc|(l & s & r & -> & Hl & Hs)].
  - rewrite (split_on_nosep is_eol c Hc). cbn [map all_some].
    pose proof (scan_line st c d [] Hc (or_introl eq_refl)) as Hs. rewrite app_nil_r, Hd in Hs.
    destruct (line_tail_m (sb st) 0 c) as [e|] eqn:E; [|assumption]. cbn [option_map].
    pose proof (line_tail_len _ _ _ _ E) as Hlen.
    exists (e ++ repeat 0%N (length c - length e)). split; [|split].
    + rewrite Hs, scan3_nil. rewrite !rev_app_distr, rev_involutive, rev_repeat, <- app_assoc. reflexivity.
    + rewrite pieces_entry_zeros by (apply no_eol_no_nul; eapply line_tail_no_eol; eassumption).
      unfold one. cbn [filter]. destruct (is_nil e); reflexivity.
    + rewrite app_length, repeat_length. lia.
  - rewrite (split_on_app is_eol l s r Hl Hs). cbn [map all_some].
    rewrite scan_line by (auto; right; eauto). rewrite Hd.
    destruct (line_tail_m (sb st) 0 l) as [e|] eqn:E; [|reflexivity]. cbn [option_map].
    pose proof (line_tail_len _ _ _ _ E) as Hlen.
    set (d' := repeat 0%N (length l - length e) ++ rev e ++ d).
    assert (Hstep : scanm st d' (s :: r) = scanm st (0%N :: d') r).
    { rewrite scan3_cons. apply is_eol_cases in Hs as [-> | ->]; destruct (sb st); reflexivity. }
    rewrite Hstep.
    specialize (IH r (0%N :: d')). rewrite app_length in Hn. cbn [length] in Hn.
    specialize (IH ltac:(lia) eq_refl).
    destruct (all_some (map (line_tail_m (sb st) 0) (split_on is_eol r))) as [es|]; cbn [option_map]; [|assumption].
    destruct IH as (img & Es & Ep & El).
    exists (e ++ repeat 0%N (length l - length e) ++ 0%N :: img). split; [|split].
    + rewrite Es. unfold d'. cbn [rev]. rewrite !rev_app_distr, rev_involutive, rev_repeat, <- !app_assoc.
      reflexivity.
    + rewrite pieces_entry_zeros_more by (apply no_eol_no_nul; eapply line_tail_no_eol; eassumption).
      rewrite Ep. unfold one. cbn [filter]. destruct (is_nil e); reflexivity.
    + rewrite ?app_length, ?repeat_length; cbn [length]; rewrite ?app_length, ?repeat_length; cbn [length]; lia.
Qed.

(** ------------------------------------------------------------ compaction *)

Definition glue (seg : bytes) (ps : list bytes) : list bytes :=
  match ps with x :: xs => (rev seg ++ x) :: xs | [] => [] end.

Lemma cat_cons e es : cat (e :: es) = e ++ 0%N :: cat es.
Proof. unfold cat. cbn [map concat]. rewrite <- app_assoc. reflexivity. Qed.

Lemma rev_cons_not_nil (x : N) seg : is_nil (rev (x :: seg)) = false.
Proof.
  destruct (rev (x :: seg)) eqn:E; [|reflexivity].
  apply (f_equal (@length N)) in E. rewrite rev_length in E. discriminate.
Qed.

Lemma split_on_not_nil sep l : split_on sep l <> [].
Proof.
  destruct l as [|b l]; cbn [split_on]; [discriminate|].
  destruct (sep b); [discriminate|]. destruct (split_on sep l); discriminate.
Qed.

Lemma compact_spec : forall (buf seg : bytes),
  compact seg buf = cat (filter (fun e => negb (is_nil e)) (glue seg (split_on is_nul buf))).
Proof.
  induction buf as [|b r IH]; intros seg.
  - cbn [compact split_on glue filter]. rewrite app_nil_r.
    destruct seg as [|x seg]; [reflexivity|].
    rewrite rev_cons_not_nil. cbn [negb]. rewrite cat_cons. reflexivity.
  - cbn [compact split_on]. unfold is_nul at 1.
    destruct (N.eqb b 0) eqn:Eb.
    + cbn [glue filter]. rewrite app_nil_r.
      destruct seg as [|x seg].
      * cbn [rev is_nil negb]. rewrite IH.
        destruct (split_on is_nul r) as [|p ps]; reflexivity.
      * rewrite rev_cons_not_nil. cbn [negb]. rewrite cat_cons. f_equal. f_equal.
        rewrite IH. destruct (split_on is_nul r) as [|p ps]; reflexivity.
    + rewrite IH. pose proof (split_on_not_nil is_nul r) as Hne.
      destruct (split_on is_nul r) as [|p ps]; [congruence|].
      cbn [glue rev]. rewrite <- app_assoc. reflexivity.
Qed.

Lemma compact_pieces (buf : bytes) : compact [] buf = cat (pieces buf).
Proof.
  rewrite compact_spec. unfold pieces. destruct (split_on is_nul buf); reflexivity.
Qed.

(** ------------------------------------------------------------ lloadfilefd in mode 3 *)
Definition entry_ok (e : bytes) : Prop := e <> [] /\ Forall (fun b => b <> 0%N) e.

Lemma split_on_pieces_nosep (sep : N -> bool) (l : bytes) :
  Forall (fun x => Forall (fun b => sep b = false) x) (split_on sep l).
Proof.
  induction l as [|b l IH]; cbn [split_on]; [repeat constructor|].
  destruct (sep b) eqn:Eb; [constructor; [constructor|assumption]|].
  destruct (split_on sep l) as [|x xs]; [repeat constructor; assumption|].
  inversion IH as [|? ? Hx Hxs]; subst. constructor; [constructor; assumption|assumption].
Qed.

Lemma pieces_ok (buf : bytes) : Forall entry_ok (pieces buf).
Proof.
  unfold pieces. apply Forall_forall. intros e He. apply filter_In in He as [Hin Hne].
  pose proof (split_on_pieces_nosep is_nul buf) as H. rewrite Forall_forall in H. specialize (H e Hin).
  split; [destruct e; [discriminate|discriminate]|].
  eapply Forall_impl; [|exact H]. intros b Hb. now apply N.eqb_neq.
Qed.

(** bridge to the published mode-3 definitions *)
Lemma line_tail_m_true : forall l prev, line_tail_m true prev l = line_tail prev l.
Proof.
  induction l as [|b l IH]; intros prev; [reflexivity|]. cbn [line_tail_m line_tail andb]. now rewrite IH.
Qed.

Lemma list_spec_m_true (content : bytes) : list_spec_m true content = list_spec content.
Proof.
  unfold list_spec_m, list_spec. f_equal. f_equal. apply map_ext. intros l. apply line_tail_m_true.
Qed.

Lemma pieces_nil_iff (img : bytes) : pieces img = [] <-> forallb (N.eqb 0) img = true.
Proof.
  induction img as [|b r IH]; [split; reflexivity|].
  cbn [forallb]. destruct (N.eqb 0 b) eqn:Eb.
  - apply N.eqb_eq in Eb. subst b. change (0%N :: r) with ([] ++ 0%N :: r).
    rewrite pieces_app by constructor. cbn [one is_nil app andb]. exact IH.
  - split; [|discriminate]. intros H. exfalso. unfold pieces in H. cbn [split_on] in H.
    unfold is_nul at 1 in H. rewrite N.eqb_sym, Eb in H.
    pose proof (split_on_not_nil is_nul r) as Hne.
    destruct (split_on is_nul r) as [|x xs]; [congruence|]. cbn in H. discriminate.
Qed.

(** lloadfilefd for every non-zero mode *)
Lemma lloadfile_compact (st : nat) (content : bytes) :
  st <> 0 -> has_bit st 1 = true ->
  lloadfile st content =
    Ok (match list_spec_m (sb st) content with None => LErr | Some es => LOk (length (cat es), cat es) end)
  /\ (forall es, list_spec_m (sb st) content = Some es -> Forall entry_ok es).
Proof.
  intros Hst Hc1. destruct content as [|c0 c'].
  - split; [reflexivity|]. intros es H. cbn in H. injection H as <-. constructor.
  - set (c := c0 :: c'). unfold lloadfile. fold c.
    change (match c with [] => Ok (LOk (0, [])) | _ :: _ => ?x end) with x.
    apply Nat.eqb_neq in Hst. rewrite Hst.
    change (ll_scan (S (length c)) st [] c) with (scanm st [] c).
    pose proof (scan_file st (S (length c)) c [] (Nat.lt_succ_diag_r _) eq_refl) as H.
    unfold list_spec_m.
    destruct (all_some (map (line_tail_m (sb st) 0) (split_on is_eol c))) as [es0|]; cbn [option_map].
    + destruct H as (img & Es & Ep & El). rewrite Es. cbn [bind rev app].
      lconsts. rewrite Hc1.
      rewrite compact_pieces, Ep. split; [reflexivity|].
      intros es Hes. injection Hes as <-. rewrite <- Ep. apply pieces_ok.
    + rewrite H. split; [reflexivity|]. intros es Hes. discriminate.
Qed.

Lemma lloadfile_nocompact (st : nat) (content : bytes) :
  st <> 0 -> has_bit st 1 = false ->
  match list_spec_m (sb st) content with
  | None => lloadfile st content = Ok LErr
  | Some [] => lloadfile st content = Ok (LOk (0, []))
  | Some es => exists img, lloadfile st content = Ok (LOk (length content, img)) /\
                           length img = length content /\ pieces img = es
  end.
Proof.
  intros Hst Hc1. destruct content as [|c0 c']; [reflexivity|].
  set (c := c0 :: c'). unfold lloadfile. fold c.
  change (match c with [] => Ok (LOk (0, [])) | _ :: _ => ?x end) with x.
  apply Nat.eqb_neq in Hst. rewrite Hst.
  change (ll_scan (S (length c)) st [] c) with (scanm st [] c).
  pose proof (scan_file st (S (length c)) c [] (Nat.lt_succ_diag_r _) eq_refl) as H.
  unfold list_spec_m.
  destruct (all_some (map (line_tail_m (sb st) 0) (split_on is_eol c))) as [es0|]; cbn [option_map].
  - destruct H as (img & Es & Ep & El). rewrite Es. cbn [bind rev app]. lconsts. rewrite Hc1.
    rewrite <- Ep.
    destruct (forallb (N.eqb 0) img) eqn:Ez.
    + apply pieces_nil_iff in Ez. rewrite Ez. reflexivity.
    + destruct (pieces img) as [|p ps] eqn:Epp.
      * apply pieces_nil_iff in Epp. congruence.
      * exists img. rewrite El. auto.
  - rewrite H. reflexivity.
Qed.

Lemma lloadfile_raw (content : bytes) : lloadfile 0 content = Ok (LOk (length content, content)).
Proof. destruct content; reflexivity. Qed.

Lemma lloadfile3 (content : bytes) :
  lloadfile 3 content =
    Ok (match list_spec content with None => LErr | Some es => LOk (length (cat es), cat es) end)
  /\ (forall es, list_spec content = Some es -> Forall entry_ok es).
Proof.
  rewrite <- list_spec_m_true. apply (lloadfile_compact 3); [discriminate|reflexivity].
Qed.

(** ------------------------------------------------------------ walking the compacted buffer *)
Lemma take_cstr_cat (e r : bytes) :
  Forall (fun b => b <> 0%N) e -> take_cstr (e ++ 0%N :: r) = Ok (e, r).
Proof.
  induction 1 as [|b e Hb He IH]; [reflexivity|].
  cbn [app take_cstr]. apply N.eqb_neq in Hb. rewrite Hb, IH. reflexivity.
Qed.

Lemma cat_length_ge (es : list bytes) : length es <= length (cat es).
Proof.
  induction es as [|e es IH]; [cbn; lia|]. rewrite cat_cons, app_length. cbn [length]. lia.
Qed.

Lemma count_entries_cat : forall (es : list bytes) (fuel : nat),
  Forall entry_ok es -> length es < fuel ->
  count_entries fuel (cat es) (length (cat es)) = Ok (length es).
Proof.
  induction es as [|e es IH]; intros fuel Hok Hf.
  - destruct fuel; [lia|]. reflexivity.
  - destruct fuel as [|fuel]; [cbn in Hf; lia|].
    inversion Hok as [|? ? [Hne Hnz] Hoks]; subst.
    rewrite cat_cons. cbn [count_entries].
    assert (Hl : 1 <= length e) by (destruct e; [congruence|cbn; lia]).
    replace (Nat.ltb 1 (length (e ++ 0%N :: cat es))) with true
      by (symmetry; apply Nat.ltb_lt; rewrite app_length; cbn [length]; lia).
    rewrite take_cstr_cat by assumption. cbn [bind].
    replace (length (e ++ 0%N :: cat es) - (length e + 1)) with (length (cat es))
      by (rewrite app_length; cbn [length]; lia).
    rewrite IH by (auto; cbn in Hf; lia). reflexivity.
Qed.

Lemma take_entries_cat (es : list bytes) :
  Forall entry_ok es -> take_entries (length es) (cat es) = Ok es.
Proof.
  induction 1 as [|e es [Hne Hnz] _ IH]; [reflexivity|].
  rewrite cat_cons. cbn [length take_entries]. rewrite take_cstr_cat by assumption. cbn [bind].
  rewrite IH. reflexivity.
Qed.

Lemma cat_nil_inv (es : list bytes) : length (cat es) = 0 -> es = [].
Proof.
  destruct es as [|e es]; [reflexivity|]. rewrite cat_cons, app_length. cbn [length]. lia.
Qed.

Theorem loadlist_correct (content : bytes) :
  loadlist content = Ok (match list_spec content with None => LErr | Some es => LOk es end).
Proof.
  unfold loadlist. lconsts. destruct (lloadfile3 content) as [E Hok]. rewrite E. cbn [bind].
  destruct (list_spec content) as [es|]; [|reflexivity].
  specialize (Hok es eq_refl).
  destruct (Nat.eqb (length (cat es)) 0) eqn:E0.
  - apply Nat.eqb_eq in E0. apply cat_nil_inv in E0. subst es. reflexivity.
  - rewrite count_entries_cat by (auto; pose proof (cat_length_ge es); lia). cbn [bind].
    destruct (Nat.eqb (length es) 0) eqn:E1.
    + apply Nat.eqb_eq in E1. destruct es; [reflexivity|discriminate].
    + rewrite take_entries_cat by assumption. reflexivity.
Qed.

(** ------------------------------------------------------------ the strict loadintfd *)
Definition dv (s : bytes) (acc : N) : N := fold_left (fun a b => (a * 10 + (b - 48))%N) s acc.

Lemma dv_mono (s : bytes) : forall acc, (acc <= dv s acc)%N.
Proof.
  induction s as [|b s IH]; intros acc; cbn [dv fold_left]; [lia|].
  specialize (IH (acc * 10 + (b - 48))%N). unfold dv in IH. lia.
Qed.

Lemma strtoul_digits_all : forall (s : bytes) (acc : N) (ovf : bool),
  forallb is_digit s = true ->
  strtoul_digits s acc ovf =
  ((dv s acc, ovf || (match s with [] => false | _ => N.ltb ULONG_MAX (dv s acc) end)), []).
Proof.
  induction s as [|b s IH]; intros acc ovf H.
  - cbn [strtoul_digits dv fold_left]. now rewrite orb_false_r.
  - cbn [forallb] in H. apply andb_true_iff in H as [Hb Hs].
    cbn [strtoul_digits]. rewrite Hb. lconsts. change (N.of_nat 10) with 10%N.
    rewrite (IH _ _ Hs). cbn [dv fold_left]. f_equal. f_equal.
    destruct s as [|b' s'].
    + cbn [fold_left]. now rewrite orb_false_r.
    + set (v := (acc * 10 + (b - 48))%N).
      pose proof (dv_mono (b' :: s') v) as Hm. unfold dv in Hm.
      destruct (N.ltb ULONG_MAX v) eqn:Ev.
      * apply N.ltb_lt in Ev. rewrite orb_true_r. cbn [orb].
        replace (N.ltb ULONG_MAX (fold_left (fun a b0 : N => (a * 10 + (b0 - 48))%N) (b' :: s') v)) with true
          by (symmetry; apply N.ltb_lt; lia).
        now rewrite orb_true_r.
      * now rewrite orb_false_r.
Qed.

Lemma strtoul_digits_rest : forall (s : bytes) (acc : N) (ovf : bool),
  forallb is_digit s = false -> snd (strtoul_digits s acc ovf) <> [].
Proof.
  induction s as [|b s IH]; intros acc ovf H; [discriminate|].
  cbn [forallb] in H. cbn [strtoul_digits].
  destruct (is_digit b) eqn:Eb; [|cbn; discriminate].
  cbn [andb] in H. apply IH. assumption.
Qed.

Theorem loadint_correct (content : bytes) (def : N) :
  loadint content def = Ok (match int_spec content def with None => LErr | Some v => LOk v end).
Proof.
  unfold loadint, int_spec. lconsts. destruct (lloadfile3 content) as [E Hok]. rewrite E. cbn [bind].
  destruct (list_spec content) as [es|]; [|reflexivity].
  specialize (Hok es eq_refl).
  destruct es as [|e more]; [reflexivity|].
  inversion Hok as [|? ? [Hne Hnz] Hmore]; subst.
  rewrite cat_cons.
  replace (Nat.eqb (length (e ++ 0%N :: cat more)) 0) with false
    by (symmetry; apply Nat.eqb_neq; rewrite app_length; cbn [length]; lia).
  rewrite take_cstr_cat by assumption. cbn [bind].
  destruct more as [|e2 more].
  - (* exactly one entry *)
    replace (Nat.eqb (length e + 1) (length (e ++ 0%N :: cat []))) with true
      by (symmetry; apply Nat.eqb_eq; rewrite app_length; cbn; lia).
    cbn [negb orb].
    destruct e as [|c e']; [congruence|]. cbn [hd].
    destruct (N.ltb c 48 || N.ltb 57 c) eqn:Ec.
    + replace (forallb is_digit (c :: e')) with false; [reflexivity|].
      cbn [forallb]. unfold is_digit.
      apply orb_true_iff in Ec as [Ec|Ec]; apply N.ltb_lt in Ec.
      * replace (N.leb 48 c) with false by (symmetry; apply N.leb_gt; lia). reflexivity.
      * replace (N.leb c 57) with false by (symmetry; apply N.leb_gt; lia). now rewrite andb_false_r.
    + destruct (forallb is_digit (c :: e')) eqn:Ed.
      * rewrite strtoul_digits_all by assumption. cbn [is_nil_b negb orb].
        unfold dec_value. fold (dv (c :: e') 0). unfold ULONG_MAX.
        destruct (N.ltb 18446744073709551615 (dv (c :: e') 0)) eqn:Eo.
        -- apply N.ltb_lt in Eo. replace (N.leb (dv (c :: e') 0) 18446744073709551615) with false
             by (symmetry; apply N.leb_gt; lia). reflexivity.
        -- apply N.ltb_ge in Eo. replace (N.leb (dv (c :: e') 0) 18446744073709551615) with true
             by (symmetry; apply N.leb_le; lia). reflexivity.
      * pose proof (strtoul_digits_rest (c :: e') 0%N false Ed) as Hr.
        destruct (strtoul_digits (c :: e') 0 false) as [[v ovf] rest]. cbn [snd] in Hr.
        destruct rest; [congruence|]. reflexivity.
  - (* more than one entry *)
    replace (Nat.eqb (length e + 1) (length (e ++ 0%N :: cat (e2 :: more)))) with false.
    + reflexivity.
    + symmetry. apply Nat.eqb_neq. rewrite app_length, cat_cons. cbn [length]. rewrite app_length. cbn [length]. lia.
Qed.

(** ------------------------------------------------------------ reading aids for [line_entry] *)
Definition plain_byte (b : N) : Prop := is_blank b = false /\ b <> 35%N.

Lemma last_cons {A} : forall (w : list A) (b prev : A), last (b :: w) prev = last w b.
Proof.
  induction w as [|x w IH]; intros b prev; [reflexivity|].
  change (last (b :: x :: w) prev) with (last (x :: w) prev). rewrite (IH x prev), (IH x b). reflexivity.
Qed.

Lemma line_tail_plain : forall (w t : bytes) (prev : N),
  Forall plain_byte w ->
  line_tail prev (w ++ t) = option_map (app w) (line_tail (last w prev) t).
Proof.
  induction w as [|b w IH]; intros t prev Hw.
  - cbn [app last]. destruct (line_tail prev t); reflexivity.
  - inversion Hw as [|? ? [Hb1 Hb2] Hw']; subst.
    cbn [app line_tail]. apply N.eqb_neq in Hb2. rewrite Hb2, Hb1. cbn [andb].
    rewrite IH by assumption.
    rewrite last_cons.
    destruct (line_tail (last w b) t); reflexivity.
Qed.

(** a word followed only by blanks/tabs: the word *)
Lemma line_entry_trailing_blanks (w bl : bytes) :
  Forall plain_byte w -> forallb is_blank bl = true -> line_entry (w ++ bl) = Some w.
Proof.
  intros Hw Hbl. unfold line_entry. rewrite line_tail_plain by assumption.
  destruct bl as [|b bl]; cbn [line_tail option_map]; [now rewrite app_nil_r|].
  cbn [forallb] in Hbl. apply andb_true_iff in Hbl as [Hb Hbl].
  replace (N.eqb b 35) with false by (symmetry; apply N.eqb_neq; intros ->; discriminate).
  cbn [andb]. rewrite Hb, Hbl. cbn [option_map]. now rewrite app_nil_r.
Qed.

(** a word directly followed by a comment (the word does not end in a backslash): the word *)
Lemma line_entry_comment (w c : bytes) :
  Forall plain_byte w -> last w 0%N <> 92%N -> line_entry (w ++ 35%N :: c) = Some w.
Proof.
  intros Hw Hl. unfold line_entry. rewrite line_tail_plain by assumption.
  cbn [line_tail]. apply N.eqb_neq in Hl. rewrite Hl. cbn [N.eqb Pos.eqb negb andb option_map].
  now rewrite app_nil_r.
Qed.

(** blanks followed by anything but blanks (a further word, or a comment): rejected *)
Lemma line_entry_inner_blank (w bl : bytes) (b x : N) (r : bytes) :
  Forall plain_byte w -> is_blank b = true -> forallb is_blank bl = true -> is_blank x = false ->
  line_entry (w ++ b :: bl ++ x :: r) = None.
Proof.
  intros Hw Hb Hbl Hx. unfold line_entry. rewrite line_tail_plain by assumption.
  cbn [line_tail]. replace (N.eqb b 35) with false by (symmetry; apply N.eqb_neq; intros ->; discriminate).
  cbn [andb]. rewrite Hb.
  replace (forallb is_blank (bl ++ x :: r)) with false; [reflexivity|].
  rewrite forallb_app. cbn [forallb]. rewrite Hx. cbn [andb]. now rewrite andb_false_r.
Qed.

(** F-C16-3 on record: the code before the fix read a numeric file that starts with a
    comment line as 0, and a file with two numbers as the first one *)
Lemma loadint_orig_silent :
  loadint_orig [35; 99; 10; 49; 55; 10]%N 4242%N = Ok (LOk 0%N)             (* "#c\n17\n" *)
  /\ int_spec [35; 99; 10; 49; 55; 10]%N 4242%N = Some 17%N
  /\ loadint_orig [49; 10; 50; 10]%N 4242%N = Ok (LOk 1%N)                  (* "1\n2\n" *)
  /\ int_spec [49; 10; 50; 10]%N 4242%N = None.
Proof. vm_compute. repeat split; reflexivity. Qed.

(** ------------------------------------------------------------ modes without the blank rule; one-line files *)
Lemma line_tail_m_false : forall l prev, line_tail_m false prev l = Some (cut_comment prev l).
Proof.
  induction l as [|b l IH]; intros prev; [reflexivity|]. cbn [line_tail_m cut_comment andb].
  destruct (N.eqb b 35 && negb (N.eqb prev 92)); [reflexivity|]. now rewrite IH.
Qed.

Lemma all_some_map {A B} (f : A -> B) (l : list A) : all_some (map (fun x => Some (f x)) l) = Some (map f l).
Proof. induction l as [|x l IH]; [reflexivity|]. cbn [map all_some]. now rewrite IH. Qed.

Lemma list_spec_m_false (content : bytes) : list_spec_m false content = Some (plain_lines content).
Proof.
  unfold list_spec_m, plain_lines.
  rewrite (map_ext _ (fun l => Some (cut_comment 0 l))) by (intros; apply line_tail_m_false).
  now rewrite all_some_map.
Qed.

(** mode 1 (tlsserverciphers, one-line files): comments removed, lines compacted, never an error *)
Theorem lloadfile1_correct (content : bytes) :
  lloadfile 1 content = Ok (LOk (length (cat (plain_lines content)), cat (plain_lines content)))
  /\ Forall entry_ok (plain_lines content).
Proof.
  destruct (lloadfile_compact 1 content ltac:(discriminate) eq_refl) as [E Hok].
  change (sb 1) with false in *. rewrite list_spec_m_false in *. split; [exact E|]. now apply Hok.
Qed.

(** mode 2 (blank rule, no compaction): the buffer keeps the size of the file; its
    NUL-separated non-empty strings are exactly the entries *)
Theorem lloadfile2_correct (content : bytes) :
  match list_spec content with
  | None => lloadfile 2 content = Ok LErr
  | Some [] => lloadfile 2 content = Ok (LOk (0, []))
  | Some es => exists img, lloadfile 2 content = Ok (LOk (length content, img)) /\
                           length img = length content /\ pieces img = es
  end.
Proof.
  pose proof (lloadfile_nocompact 2 content ltac:(discriminate) eq_refl) as H.
  change (sb 2) with true in H. rewrite list_spec_m_true in H. exact H.
Qed.

Theorem loadoneliner_correct (content : bytes) :
  loadoneliner content =
  Ok (match oneliner_spec content with
      | OneNone => LOk None
      | OneLine l => LOk (Some l)
      | OneError => LErr
      end).
Proof.
  unfold loadoneliner, oneliner_spec. lconsts. unfold LOADONELINER_MODE.
  destruct (lloadfile1_correct content) as [E Hok]. rewrite E. cbn [bind].
  destruct (plain_lines content) as [|e more]; [reflexivity|].
  inversion Hok as [|? ? [Hne Hnz] Hmore]; subst.
  rewrite cat_cons.
  replace (Nat.eqb (length (e ++ 0%N :: cat more)) 0) with false
    by (symmetry; apply Nat.eqb_neq; rewrite app_length; cbn [length]; lia).
  rewrite take_cstr_cat by assumption. cbn [bind].
  destruct more as [|e2 more].
  - replace (Nat.eqb (length e + 1) (length (e ++ 0%N :: cat []))) with true
      by (symmetry; apply Nat.eqb_eq; rewrite app_length; cbn; lia).
    reflexivity.
  - replace (Nat.eqb (length e + 1) (length (e ++ 0%N :: cat (e2 :: more)))) with false; [reflexivity|].
    symmetry. apply Nat.eqb_neq. rewrite app_length, cat_cons. cbn [length]. rewrite app_length. cbn [length]. lia.
Qed.

(** what the entries look like: no NUL, not empty, and a prefix of a line *)
Lemma cut_comment_prefix : forall l prev, exists t, l = cut_comment prev l ++ t.
Proof.
  induction l as [|b l IH]; intros prev; [exists []; reflexivity|]. cbn [cut_comment].
  destruct (N.eqb b 35 && negb (N.eqb prev 92)); [exists (b :: l); reflexivity|].
  destruct (IH b) as [t Ht]. exists t. cbn [app]. now rewrite <- Ht.
Qed.

(** recode_qp, literal model to specification: for every window of every message the call terminates
    without a read outside the window or a store outside sendbuf, and what it writes — completed by the
    CRLF of the terminator when the last line is open ([lastlf] = 0) — is legal 7-bit SMTP data that
    the strict quoted-printable receiver decodes to the normalised window. *)
From Qv Require Import Common.Bytes Gen.GenQrdata Model.Mime Model.QrData Model.QrDataL2 Proofs.QrMemLemmas
  Spec.SmtpDataSpec Proofs.QrPlainProofs Proofs.QrQpProofs Proofs.QrQpDecodeProofs Proofs.QrQpLegalProofs.
Require Import Lia.

Theorem recode_qp_correct (m : bytes) (b len : nat) :
  b + len <= length m -> byte_list m ->
  exists st', recode_qp m b len (mkSt [] true) = Ok st' /\
    let wire := concat (rev (out st')) ++ (if lastlf st' then [] else CRLF) in
    qp_roundtrip (sub m b len) wire /\ legal_data false wire.
Proof.
  intros Hwin Hbytes.
  destruct (recode_qp_ok m b len Hwin (mkSt [] true)) as (vs & st' & E1 & E2 & Hz & Hnz).
  cbn [out rev concat app] in E2.
  set (w := sub m b len) in *.
  assert (Hbw : byte_list w) by (apply Forall_sub; exact Hbytes).
  destruct (qp_enc_roundtrip w vs Hbw) as (Hne & Hrt). cbv zeta in Hne, Hrt.
  exists st'. split; [exact E1|]. cbv zeta. rewrite E2.
  assert (Hw : (if lastlf st' then [] else CRLF) = (if at_bol 0 (qp_enc vs 0 None w) then [] else CRLF)).
  { destruct (Nat.eq_dec len 0) as [H0|Hn0].
    - rewrite (Hz H0). cbn [lastlf].
      assert (w = []) as -> by (apply length_zero_iff_nil; unfold w; rewrite sub_length by lia; exact H0).
      reflexivity.
    - assert (Hwne : w <> []).
      { intros E. apply (f_equal (@length N)) in E. unfold w in E. rewrite sub_length in E by lia. cbn in E. lia. }
      specialize (Hne Hwne). rewrite (Hnz ltac:(lia)). rewrite E2.
      unfold at_bol. destruct (qp_enc vs 0 None w); [contradiction|reflexivity]. }
  rewrite Hw. split; [exact Hrt|].
  destruct Hrt as (d & Hd & _). exact (decode_legal _ _ Hd).
Qed.

(** ask_dnsmx / getmxlist: the list handed to sortmx and tryconn is what the route or DNS says,
    it is never empty and nothing on it counts as tried; then the sequence of main(). *)
From Coq Require Import List NArith Bool Arith Lia Sorting.Permutation Sorting.Sorted.
From Qv Require Import Common.Bytes Gen.GenMx Model.Mx Model.MxRoute Model.MxDns
  Spec.MxSpec Spec.MxRouteSpec Spec.MxDnsSpec
  Proofs.MxSortProofs Proofs.MxConnProofs Proofs.MxFilterProofs Proofs.MxRouteProofs.
Import ListNotations.
Local Open Scope bool_scope.

(* ------------------------------------------------------------------ ask_dnsmx *)

Lemma ask_dnsaaaa_nonempty tab nm a : ask_dnsaaaa tab nm = AAddrs a -> a <> [].
Proof.
  unfold ask_dnsaaaa. destruct (assoc nm tab) as [[[|x r]| | |]|]; intros H; try discriminate.
  injection H as <-. discriminate.
Qed.

Lemma mx_loop_list tab allrecs recs : forall acc e l,
  mx_loop tab allrecs recs acc e = MxList l ->
  l = rev (flat_map (resolvable tab allrecs) recs) ++ acc.
Proof.
  induction recs as [|[p nm] r IH]; intros acc e l H; cbn [mx_loop] in H.
  - destruct acc; [|injection H as <-; reflexivity].
    destruct (N.eqb (N.land e 4) 4); [discriminate|]. destruct (N.eqb (N.land e 2) 2); discriminate.
  - cbn [flat_map]. unfold resolvable at 1. cbn [fst snd].
    destruct (ask_dnsaaaa tab nm) as [|a| | |]; try discriminate;
      try (rewrite (IH _ _ _ H); cbn [app]; reflexivity).
    rewrite (IH _ _ _ H). cbn [app rev]. rewrite <- app_assoc. reflexivity.
Qed.

Lemma resolvable_fresh tab allrecs r :
  (fst r <= 65535)%N -> Forall fresh (resolvable tab allrecs r).
Proof.
  intros Hp. unfold resolvable. destruct (ask_dnsaaaa tab (snd r)) as [|a| | |] eqn:E; try constructor; [|constructor].
  split; cbn [prio addrs]; [unfold TRYCONN_FRESH_MAX; lia|]. eapply ask_dnsaaaa_nonempty; exact E.
Qed.

Lemma dnsmx_list_ref_fresh tab allrecs recs :
  prio16 recs -> Forall fresh (rev (flat_map (resolvable tab allrecs) recs)).
Proof.
  intros H. apply Forall_rev. induction H as [|r t Hr Ht IH]; [constructor|].
  cbn [flat_map]. apply Forall_app. split; [apply resolvable_fresh; exact Hr|exact IH].
Qed.

Lemma mx_loop_nonnil tab allrecs recs e l : mx_loop tab allrecs recs [] e = MxList l -> l <> [].
Proof.
  revert e. generalize (@nil mx) at 1. intros acc0.
  (* the answer MxList is only given for a non-empty accumulator *)
  revert acc0. induction recs as [|[p nm] r IH]; intros acc e H; cbn [mx_loop] in H.
  - destruct acc; [|injection H as <-; discriminate].
    destruct (N.eqb (N.land e 4) 4); [discriminate|]. destruct (N.eqb (N.land e 2) 2); discriminate.
  - destruct (ask_dnsaaaa tab nm); try discriminate; eapply IH; exact H.
Qed.

Theorem ask_dnsmx_fresh tab flag recs name l :
  prio16 recs -> ask_dnsmx tab flag recs name = MxList l -> l <> [] /\ Forall fresh l.
Proof.
  intros Hp H. unfold ask_dnsmx in H.
  destruct (N.eqb flag 2); [discriminate|]. destruct (N.eqb flag 3); [discriminate|]. destruct (N.eqb flag 4); [discriminate|].
  assert (Hp' : prio16 (if N.eqb flag 0 then recs else [])) by (destruct (N.eqb flag 0); [exact Hp|constructor]).
  remember (if N.eqb flag 0 then recs else []) as rs eqn:Ers. clear Ers Hp.
  assert (Hloop : mx_loop tab rs rs [] 0%N = MxList l -> l <> [] /\ Forall fresh l).
  { intros Hl. split; [eapply mx_loop_nonnil; exact Hl|].
    rewrite (mx_loop_list _ _ _ _ _ _ Hl), app_nil_r. apply dnsmx_list_ref_fresh. exact Hp'. }
  destruct rs as [|[p nm] rest].
  - destruct (ask_dnsaaaa tab name) as [|a| | |] eqn:E; try discriminate. injection H as <-.
    split; [discriminate|]. constructor; [|constructor].
    split; cbn [prio addrs]; [unfold MX_PRIORITY_IMPLICIT, TRYCONN_FRESH_MAX; lia|eapply ask_dnsaaaa_nonempty; exact E].
  - destruct rest as [|r2 rest2].
    + destruct nm as [|d [|d2 nm']]; try (apply Hloop; exact H).
      destruct (N.eqb d DOT); [discriminate|apply Hloop; exact H].
    + apply Hloop. destruct nm as [|d [|d2 nm']]; exact H.
Qed.

(** with MX records present (and not the null MX) a list answer is exactly the resolvable records *)
Theorem ask_dnsmx_records tab recs name l :
  recs <> [] -> ask_dnsmx tab 0 recs name = MxList l -> l = dnsmx_list_ref tab recs.
Proof.
  intros Hne H. unfold ask_dnsmx in H. cbn [N.eqb] in H. unfold dnsmx_list_ref.
  assert (Hloop : mx_loop tab recs recs [] 0%N = MxList l -> l = rev (flat_map (resolvable tab recs) recs)).
  { intros Hl. rewrite (mx_loop_list _ _ _ _ _ _ Hl), app_nil_r. reflexivity. }
  destruct recs as [|[p nm] rest]; [congruence|].
  destruct rest as [|r2 rest2].
  - destruct nm as [|d [|d2 nm']]; try (apply Hloop; exact H).
    destruct (N.eqb d DOT); [discriminate|apply Hloop; exact H].
  - apply Hloop. destruct nm as [|d [|d2 nm']]; exact H.
Qed.

(* ------------------------------------------------------------------ a route's relay always has addresses *)

Definition good_route (r : route_result) : Prop :=
  match r with Route (Some []) _ => False | _ => True end.

Lemma parse_route_params_good cfg host port : good_route (parse_route_params cfg host port).
Proof.
  unfold parse_route_params.
  assert (Hh : match (match host with
                      | None => Some None
                      | Some h => match assoc h (dns_table cfg) with
                                  | Some (a :: r) => Some (Some (a :: r))
                                  | _ => None
                                  end
                      end) with
               | Some (Some []) => False | _ => True end).
  { destruct host as [h|]; [|exact I]. destruct (assoc h (dns_table cfg)) as [[|a r]|]; exact I. }
  destruct (match host with
            | None => Some None
            | Some h => match assoc h (dns_table cfg) with
                        | Some (a :: r) => Some (Some (a :: r))
                        | _ => None
                        end
            end) as [[[|a r]|]|]; try exact I; try contradiction.
  - destruct port as [p|]; [|exact I]. destruct (strtoul_uint p) as [v more]. destruct more; [|exact I].
    destruct (N.leb ROUTE_PORT_LIMIT v || N.eqb v 0); exact I.
  - destruct port as [p|]; [|exact I]. destruct (strtoul_uint p) as [v more]. destruct more; [|exact I].
    destruct (N.leb ROUTE_PORT_LIMIT v || N.eqb v 0); exact I.
Qed.

Lemma eval_file_good cfg c : good_route (eval_file cfg c).
Proof.
  unfold eval_file. destruct (load_valid [] (load_lines c)) as [mask lines].
  destruct (existsb (fun i => Nat.leb 2 i) mask); [exact I|]. apply parse_route_params_good.
Qed.

Lemma routes_ref_good cfg h : good_route (routes_ref cfg h).
Proof.
  unfold routes_ref. destruct (routes_file cfg); [|exact I].
  destruct (find _ _); [|exact I]. unfold eval_line. apply parse_route_params_good.
Qed.

Lemma route_ref_good cfg h : good_route (route_ref cfg h).
Proof.
  unfold route_ref. destruct (dir_exists cfg); [|apply routes_ref_good].
  destruct (first_file _ _); [apply eval_file_good|apply routes_ref_good].
Qed.

(* ------------------------------------------------------------------ getmxlist *)

Theorem getmxlist_spec cfg tab flag recs (remhost : bytes) :
  length remhost <= 254 ->
  getmxlist cfg tab flag recs remhost = Ok (getmxlist_ref cfg tab flag recs remhost).
Proof.
  intros Hl. unfold getmxlist, getmxlist_ref.
  rewrite (smtproute_order _ remhost Hl). cbn [bind].
  destruct (route_ref (set_dns cfg (plain_table tab)) remhost) as [| |[al|] port]; try reflexivity.
  destruct (ask_dnsmx tab flag recs remhost); reflexivity.
Qed.

Theorem getmxlist_ref_fresh cfg tab flag recs remhost l port :
  prio16 recs -> getmxlist_ref cfg tab flag recs remhost = GList l port -> l <> [] /\ Forall fresh l.
Proof.
  intros Hp H. unfold getmxlist_ref in H.
  pose proof (route_ref_good (set_dns cfg (plain_table tab)) remhost) as Hg.
  destruct (route_ref (set_dns cfg (plain_table tab)) remhost) as [| |[al|] port']; try discriminate.
  - injection H as <- <-. split; [discriminate|]. constructor; [|constructor].
    split; cbn [prio addrs]; [unfold TRYCONN_FRESH_MAX; lia|]. destruct al; [contradiction|discriminate].
  - destruct (ask_dnsmx tab flag recs remhost) as [l'| | | | |] eqn:E; try discriminate.
    injection H as <- <-. eapply ask_dnsmx_fresh; eassumption.
Qed.

(* ------------------------------------------------------------------ main() *)

(** the three statements behind getmxlist() when nothing is filtered (other port, or getifaddrs() failed) *)
Lemma targets_unfiltered port gia ifs l cs0 oracle n :
  N.eqb port FILTER_PORT && negb gia = false -> l <> [] -> Forall fresh l ->
  exists l2 s outs,
    qremote_targets port gia ifs l cs0 oracle n = Ok (Tried l l2 s outs)
    /\ sort_spec l l2
    /\ outs = ref_calls n (flat_targets l2) oracle
    /\ once_in_order l2 outs
    /\ noent_only_when_exhausted l2 outs.
Proof.
  intros Hc Hne Hf.
  assert (Hn : Forall nonempty l) by (eapply Forall_impl; [|exact Hf]; intros e [_ H]; exact H).
  assert (H1 : (if N.eqb port FILTER_PORT then filter_my_ips gia ifs l else Ok l) = Ok l).
  { destruct (N.eqb port FILTER_PORT); [|reflexivity]. destruct gia; [reflexivity|discriminate]. }
  unfold qremote_targets. rewrite H1. cbn [bind].
  destruct (sortmx_correct l Hne Hn) as (l2 & Hsort & Hspec).
  assert (Hf2 : Forall fresh l2) by (destruct Hspec as (Hre & _); eapply rearranged_fresh; eassumption).
  destruct (tryconn_once l2 cs0 oracle n Hf2) as (s & outs & Hcalls & Houts & Honce & Hnoent & _).
  exists l2, s, outs. destruct l as [|h t]; [congruence|].
  rewrite Hsort. cbn [bind]. rewrite Hcalls. cbn [bind]. repeat split; try assumption; apply Hspec.
Qed.

(** outcome of the whole sequence, as a predicate on the result *)
Definition main_ok (cfg : route_cfg) (tab : list (bytes * dns_entry)) (flag : N) (recs : list (N * bytes)) (remhost : bytes)
           (gia : bool) (ifs : list iface) (oracle : list N) (n : nat) (r : main_result) : Prop :=
  match getmxlist_ref cfg tab flag recs remhost, r with
  | GDie w, MDie w' => w = w'
  | GList l port, MRun port' AllMe =>
      port' = port /\ port = FILTER_PORT /\ gia = false /\ filter_ref ifs l = []
  | GList l port, MRun port' (Tried l1 l2 s outs) =>
      port' = port
      /\ l1 = (if N.eqb port FILTER_PORT && negb gia then filter_ref ifs l else l)
      /\ sort_spec l1 l2
      /\ outs = ref_calls n (flat_targets l2) oracle
      /\ once_in_order l2 outs
      /\ noent_only_when_exhausted l2 outs
      /\ (port = FILTER_PORT -> gia = false -> Forall (fun a => is_me ifs a = false) (all_attempts outs))
  | _, _ => False
  end.

Theorem qremote_main_correct cfg tab flag recs (remhost : bytes) gia ifs cs0 oracle n :
  length remhost <= 254 -> prio16 recs ->
  exists r, qremote_main cfg tab flag recs remhost gia ifs cs0 oracle n = Ok r
            /\ main_ok cfg tab flag recs remhost gia ifs oracle n r.
Proof.
  intros Hl Hp. unfold qremote_main, main_ok. rewrite (getmxlist_spec cfg tab flag recs remhost Hl). cbn [bind].
  destruct (getmxlist_ref cfg tab flag recs remhost) as [w|l port] eqn:Eg.
  - eexists. split; reflexivity.
  - destruct (getmxlist_ref_fresh _ _ _ _ _ _ _ Hp Eg) as [Hne Hf].
    destruct (N.eqb port FILTER_PORT && negb gia) eqn:Ec.
    + apply andb_true_iff in Ec. destruct Ec as [Ep Eg']. apply N.eqb_eq in Ep. apply negb_true_iff in Eg'. subst port gia.
      destruct (qremote_targets_correct ifs l cs0 oracle n Hne Hf) as [[He Ht]|(l2 & s & outs & Ht & Hs & Ho & H1 & H2 & H3)].
      * rewrite Ht. cbn [bind]. eexists. split; [reflexivity|]. cbn. repeat split. exact He.
      * rewrite Ht. cbn [bind]. eexists. split; [reflexivity|]. cbn.
        repeat split; try assumption; try apply Hs. intros _ _. exact H3.
    + destruct (targets_unfiltered port gia ifs l cs0 oracle n Ec Hne Hf) as (l2 & s & outs & Ht & Hs & Ho & H1 & H2).
      rewrite Ht. cbn [bind]. eexists. split; [reflexivity|]. cbn. repeat split; try assumption; try apply Hs.
      intros Hport Hgia. subst. rewrite N.eqb_refl in Ec. discriminate.
Qed.

(** The boolean checker run on the observations of the C code accepts everything that
    satisfies the Prop-level statement [tx_ok] (so a rejection is a genuine violation). *)
From Qv Require Import Common.Bytes Gen.GenBdat Model.BdatTx Spec.BdatSpec Proofs.BdatDigits Proofs.BdatTxProofs.
Require Import Lia.

Lemma strip_prefix_app : forall p r, strip_prefix p (p ++ r) = Some r.
Proof. induction p as [|a p IH]; intros r; [reflexivity|]. cbn. rewrite N.eqb_refl. apply IH. Qed.

Lemma take_digits_app : forall d r, Forall (fun c => is_digit c = true) d ->
  match r with x :: _ => is_digit x = false | [] => True end ->
  take_digits (d ++ r) = (d, r).
Proof.
  induction d as [|c d IH]; intros r Hd Hr.
  - cbn [app]. destruct r as [|x r]; [reflexivity|]. cbn. rewrite Hr. reflexivity.
  - inversion Hd as [|? ? Hc Hd']; subst. cbn [app take_digits]. rewrite Hc, (IH r Hd' Hr). reflexivity.
Qed.

Lemma parse_frame_complete p last w : frame p last w -> parse_frame w = Some (p, last).
Proof.
  intros (d & (Hne & Hdig & Hval & Hcanon) & ->). unfold parse_frame.
  rewrite strip_prefix_app.
  rewrite take_digits_app; [|exact Hdig|destruct last; reflexivity].
  destruct d as [|d0 dt]; [congruence|].
  assert (Hc : N.eqb d0 48 && negb (match dt with [] => true | _ => false end) = false).
  { destruct (N.eqb_spec d0 48) as [->|]; [|reflexivity]. specialize (Hcanon eq_refl). injection Hcanon as ->. reflexivity. }
  rewrite Hc. destruct last.
  - rewrite (app_assoc S_LAST CRLF p), strip_prefix_app. rewrite Hval, Nat.eqb_refl. reflexivity.
  - cbn [app]. change (strip_prefix (S_LAST ++ CRLF) (CRLF ++ p)) with (@None bytes).
    rewrite strip_prefix_app, Hval, Nat.eqb_refl. reflexivity.
Qed.

Lemma frames_complete done : forall ps ws, frames done ps ws ->
  exists fs, parse_frames ws = Some fs /\ map fst fs = ps /\ last_flags_ok done fs = true.
Proof.
  induction ps as [|p ps IH]; intros [|w ws] H; cbn in H; try contradiction.
  - exists []. repeat split.
  - destruct H as (Hf & Hrest). destruct (IH ws Hrest) as (fs & Epf & Emap & Eflags).
    apply parse_frame_complete in Hf. exists ((p, done && match ps with [] => true | _ => false end) :: fs).
    cbn [parse_frames]. rewrite Hf, Epf. split; [reflexivity|]. split; [cbn; now rewrite Emap|].
    destruct fs as [|f fs'].
    + destruct ps; [|discriminate]. cbn. rewrite andb_true_r. apply Bool.eqb_reflx.
    + destruct ps as [|p' ps']; [discriminate|]. rewrite andb_false_r.
      change (last_flags_ok done ((p, false) :: f :: fs')) with (negb false && last_flags_ok done (f :: fs')).
      exact Eflags.
Qed.

Lemma tx_norm_nil_inv m : tx_norm m [] -> m = [].
Proof. inversion 1; reflexivity. Qed.

Lemma tx_norm_hd m o : tx_norm m o -> hd_not_lf m -> hd_not_lf o.
Proof. intros H. destruct H; cbn; intros Hh; try discriminate; auto. Qed.

Lemma tx_norm_b_nil pre o : tx_norm_b pre [] o = match o with [] => true | _ => false end.
Proof. destruct o; [cbn; now rewrite orb_true_r|reflexivity]. Qed.

(** unfolding equations of the checker (one step, the recursive call kept folded) *)
Lemma tnb_cr2 pre c m' x y o' :
  tx_norm_b pre (CR :: c :: m') (x :: y :: o') =
  if N.eqb c LF then N.eqb x CR && N.eqb y LF && tx_norm_b pre m' o'
  else N.eqb x CR && (if N.eqb y LF then tx_norm_b pre (c :: m') o' else tx_norm_b pre (c :: m') (y :: o')).
Proof. reflexivity. Qed.
Lemma tnb_cr1 pre c m' x :
  tx_norm_b pre (CR :: c :: m') [x] =
  if N.eqb c LF then pre && N.eqb x CR else N.eqb x CR && tx_norm_b pre (c :: m') [].
Proof. reflexivity. Qed.
Lemma tnb_lf pre m' x y o' : tx_norm_b pre (LF :: m') (x :: y :: o') = N.eqb x CR && N.eqb y LF && tx_norm_b pre m' o'.
Proof. reflexivity. Qed.
Lemma tnb_other pre b m' x o' : b <> CR -> b <> LF -> tx_norm_b pre (b :: m') (x :: o') = N.eqb x b && tx_norm_b pre m' o'.
Proof.
  intros H1 H2. cbn [tx_norm_b].
  replace (N.eqb b CR) with false by (symmetry; now apply N.eqb_neq).
  replace (N.eqb b LF) with false by (symmetry; now apply N.eqb_neq). reflexivity.
Qed.

(** [tx_norm_b false] accepts every normalisation, and so does the prefix mode *)
Lemma tx_norm_b_complete : forall m o, tx_norm m o -> forall pre, tx_norm_b pre m o = true.
Proof.
  induction 1 as [|m o Hm IH|m o Hh Hm IH|m o Hh Hm IH|m o Hm IH|x m o Hx1 Hx2 Hm IH]; intros pre.
  - cbn. apply orb_true_r.
  - rewrite tnb_cr2. change (N.eqb LF LF) with true. change (N.eqb CR CR) with true. cbn [andb]. apply IH.
  - destruct m as [|c m'].
    + inversion Hm; subst. reflexivity.
    + cbn in Hh. pose proof (tx_norm_hd _ _ Hm Hh) as Ho.
      destruct o as [|y o']; [apply tx_norm_nil_inv in Hm; discriminate|]. cbn in Ho.
      rewrite tnb_cr2. change (N.eqb CR CR) with true.
      replace (N.eqb c LF) with false by (symmetry; now apply N.eqb_neq).
      replace (N.eqb y LF) with false by (symmetry; now apply N.eqb_neq).
      cbn [andb]. apply IH.
  - destruct m as [|c m'].
    + inversion Hm; subst. reflexivity.
    + cbn in Hh. rewrite tnb_cr2. change (N.eqb CR CR) with true.
      replace (N.eqb c LF) with false by (symmetry; now apply N.eqb_neq).
      change (N.eqb LF LF) with true. cbn [andb]. apply IH.
  - rewrite tnb_lf. change (N.eqb LF LF) with true. change (N.eqb CR CR) with true. cbn [andb]. apply IH.
  - rewrite tnb_other by assumption. rewrite N.eqb_refl. cbn [andb]. apply IH.
Qed.

Lemma firstn_cons_inv {A} k (m : list A) x r : firstn k m = x :: r ->
  exists k' m', k = S k' /\ m = x :: m' /\ r = firstn k' m'.
Proof.
  destruct k as [|k']; [discriminate|]. destruct m as [|y m']; [discriminate|].
  cbn. intros H. injection H as -> <-. now exists k', m'.
Qed.

Lemma tx_norm_b_prefix : forall m1 o, tx_norm m1 o -> forall k m, m1 = firstn k m -> tx_norm_b true m o = true.
Proof.
  induction 1 as [|m1 o Hm IH|m1 o Hh Hm IH|m1 o Hh Hm IH|m1 o Hm IH|x m1 o Hx1 Hx2 Hm IH]; intros k m E.
  - destruct m; reflexivity.
  - symmetry in E. apply firstn_cons_inv in E as (k1 & ma & -> & -> & E). symmetry in E.
    apply firstn_cons_inv in E as (k2 & mb & -> & -> & E).
    rewrite tnb_cr2. change (N.eqb LF LF) with true. change (N.eqb CR CR) with true. cbn [andb]. apply (IH k2 mb E).
  - symmetry in E. apply firstn_cons_inv in E as (k1 & ma & -> & -> & E).
    destruct ma as [|c ma'].
    + rewrite firstn_nil in E. subst m1. inversion Hm; subst. reflexivity.
    + destruct (N.eqb_spec c LF) as [->|Hc].
      * (* the cut separates CR from LF: only the CR was taken *)
        destruct k1 as [|k1']; [|cbn in E; subst m1; cbn in Hh; congruence].
        cbn in E. subst m1. inversion Hm; subst. reflexivity.
      * destruct o as [|y o'].
        -- rewrite tnb_cr1. replace (N.eqb c LF) with false by (symmetry; now apply N.eqb_neq). reflexivity.
        -- pose proof (tx_norm_hd _ _ Hm Hh) as Ho. cbn in Ho.
           rewrite tnb_cr2. change (N.eqb CR CR) with true.
           replace (N.eqb c LF) with false by (symmetry; now apply N.eqb_neq).
           replace (N.eqb y LF) with false by (symmetry; now apply N.eqb_neq).
           cbn [andb]. apply (IH k1 _ E).
  - symmetry in E. apply firstn_cons_inv in E as (k1 & ma & -> & -> & E).
    destruct ma as [|c ma'].
    + rewrite firstn_nil in E. subst m1. inversion Hm; subst. reflexivity.
    + destruct (N.eqb_spec c LF) as [->|Hc].
      * destruct k1 as [|k1']; [|cbn in E; subst m1; cbn in Hh; congruence].
        cbn in E. subst m1. inversion Hm; subst. rewrite tnb_cr2. cbn. destruct ma'; reflexivity.
      * rewrite tnb_cr2. change (N.eqb CR CR) with true.
        replace (N.eqb c LF) with false by (symmetry; now apply N.eqb_neq).
        change (N.eqb LF LF) with true. cbn [andb]. apply (IH k1 _ E).
  - symmetry in E. apply firstn_cons_inv in E as (k1 & ma & -> & -> & E).
    rewrite tnb_lf. change (N.eqb LF LF) with true. change (N.eqb CR CR) with true. cbn [andb]. apply (IH k1 ma E).
  - symmetry in E. apply firstn_cons_inv in E as (k1 & ma & -> & -> & E).
    rewrite tnb_other by assumption. rewrite N.eqb_refl. cbn [andb]. apply (IH k1 ma E).
Qed.

Theorem spec_tx_complete cs msg done ws : tx_ok cs msg done ws -> spec_ok_C19_tx cs msg done ws = true.
Proof.
  intros (ps & Hf & Hs & Hne & Hc). unfold spec_ok_C19_tx.
  destruct (frames_complete done ps ws Hf) as (fs & -> & Emap & Eflags).
  rewrite Eflags, Emap. cbn [andb].
  assert (Hsz : forallb (fun w => Nat.leb (length w) cs) ws = true).
  { apply forallb_forall. intros w Hw. apply Nat.leb_le. rewrite Forall_forall in Hs. auto. }
  rewrite Hsz. cbn [andb].
  assert (Hn : match msg, ws with _ :: _, [] => false | _, _ => true end = true).
  { destruct msg as [|b msg']; [reflexivity|]. destruct ws; [exfalso; apply Hne; [discriminate|reflexivity]|reflexivity]. }
  rewrite Hn. cbn [andb]. destruct done; cbn [negb].
  - apply tx_norm_b_complete. exact Hc.
  - destruct Hc as [k Hk]. eapply tx_norm_b_prefix; [exact Hk|reflexivity].
Qed.

(** what the model of the repaired code emits passes the checker *)
Theorem send_bdat_checker cs msg nok : 16 <= cs ->
  exists ws e wn, send_bdat cs msg nok = Ok (ws, e, wn) /\ spec_ok_C19_tx cs msg (is_done e) ws = true.
Proof.
  intros Hcs. destruct (send_bdat_ok cs msg nok Hcs) as (ws & e & wn & E & Hok & _).
  exists ws, e, wn. split; [exact E|]. apply spec_tx_complete. exact Hok.
Qed.

(** the code before the repair ([off < msgsize - 1]): the message CR LF with chunk size 16 leaves
    as CR LF CR LF, which is not a normalisation of it (F-C19-1) *)
Theorem send_bdat_orig_refuted :
  exists ws wn, send_bdat_m 1 16 [CR; LF] None = Ok (ws, TxDone, wn) /\ ~ tx_ok 16 [CR; LF] true ws.
Proof.
  eexists _, _. split; [vm_compute; reflexivity|].
  intros H. apply spec_tx_complete in H. vm_compute in H. discriminate.
Qed.

(** Proofs about the DATA loops of Model/Session.v (smtp_data): what is written to
    qmail-queue, how the size counter relates to stored and transmitted octets,
    and when the hop limit strikes.  For every reader state and every byte
    stream in every segmentation. *)
From Qv Require Import Common.Bytes Gen.GenNetio Gen.GenSession Model.NetRead Model.Session Spec.LineSpec Spec.SessionSpec Proofs.NetReadProofs.
From Coq Require Import Lia.

Definition rstate_ok (r : rstate) : Prop := length (inn r) <= LINEINBUF - 1.
Definition data_line (l : bytes) : Prop := no_crlf l /\ is_dot l = false.

Lemma stored_app a b : stored (a ++ b) = stored a ++ stored b.
Proof. unfold stored. now rewrite map_app, concat_app. Qed.
Lemma wire_app a b : wire (a ++ b) = wire a ++ wire b.
Proof. unfold wire. now rewrite map_app, concat_app. Qed.
Lemma szof_app a b : szof (a ++ b) = (szof a + szof b)%N.
Proof. induction a as [|x a IH]; simpl; [reflexivity|]. rewrite IH. lia. Qed.
Lemma count_rcv_app a b : count_rcv (a ++ b) = count_rcv a + count_rcv b.
Proof. unfold count_rcv. now rewrite filter_app, app_length. Qed.

Lemma unstuff_le l : length (unstuff l) <= length l.
Proof. destruct l as [|b l]; simpl; [lia|]. destruct (N.eqb b 46) eqn:E.
  - apply N.eqb_eq in E. subst. simpl. lia.
  - destruct b; simpl; try lia. repeat (destruct p; simpl; try lia). Qed.

(** stored octets <= size counter <= transmitted octets *)
Lemma stored_le_szof seen : (N.of_nat (length (stored seen)) <= szof seen)%N.
Proof.
  induction seen as [|l r IH]; simpl; [lia|]. unfold stored in *. simpl.
  rewrite !app_length. simpl. lia.
Qed.
Lemma szof_le_wire seen : (szof seen <= N.of_nat (length (wire seen)))%N.
Proof.
  induction seen as [|l r IH]; simpl; [lia|]. unfold wire in *. simpl.
  rewrite !app_length. simpl. pose proof (unstuff_le l). lia.
Qed.

Lemma dread_line r prev l r' : rstate_ok r -> dread r prev = (inr l, r') ->
  total r = l ++ [CR; LF] ++ total r' /\ no_crlf l /\ rstate_ok r'.
Proof.
  unfold dread, rstate_ok. intros Hok H.
  destruct (net_read r) as [it r1] eqn:En.
  destruct (net_read_spec _ _ _ Hok En) as (Hit & Hok').
  destruct it; inversion H; subst. cbn [item_ok] in Hit. destruct Hit as (Ht & Hc & _). auto.
Qed.

Lemma hdr_part_sep (seen t : list bytes) : Forall (fun x : bytes => x <> []) seen ->
  hdr_part ((seen ++ [([] : bytes)]) ++ t) = seen.
Proof.
  induction seen as [|x s IH]; intros Hne; [reflexivity|]. inversion Hne; subst. simpl.
  destruct x; [congruence|]. now rewrite IH.
Qed.

Lemma hdr_part_all (seen : list bytes) : Forall (fun x : bytes => x <> []) seen -> hdr_part seen = seen.
Proof.
  induction seen as [|x s IH]; intros Hne; [reflexivity|]. inversion Hne; subst. simpl.
  destruct x; [congruence|]. now rewrite IH.
Qed.

Lemma dread_inl r p d r' : dread r p = (inl d, r') ->
  match d with D_eod _ _ _ | D_toobig _ _ | D_loop _ _ => False | _ => True end.
Proof.
  unfold dread. destruct (net_read r) as [it rr]. destruct it; intros H; inversion H; exact Logic.I.
Qed.

Lemma is_dot_true l : is_dot l = true -> l = [DOT].
Proof.
  destruct l as [|b [|c t]]; try discriminate.
  - destruct b as [|p]; [discriminate|]. do 6 (destruct p as [p|p|]; try discriminate). reflexivity.
  - destruct b as [|p]; [discriminate|]. do 6 (destruct p as [p|p|]; try discriminate).
Qed.

Lemma strncaseeq_head c rest line : strncaseeq (c :: rest) line = true ->
  exists b t, line = b :: t /\ to_upper b = to_upper c.
Proof.
  unfold strncaseeq. intros H. apply andb_true_iff in H as [Hl He].
  destruct line as [|b t]; [simpl in Hl; discriminate|].
  exists b, t. split; [reflexivity|]. simpl in He. apply andb_true_iff in He as [He _]. now apply N.eqb_eq in He.
Qed.

(** a Date: / From: / Message-Id: line is not a Received: line *)
Lemma known_not_received l bit : known_hdr l = Some bit -> is_received l = false.
Proof.
  unfold known_hdr, is_received. intros H.
  destruct (strncaseeq [82; 101; 99; 101; 105; 118; 101; 100; 58]%N l) eqn:Er; [|reflexivity].
  destruct (strncaseeq_head _ _ _ Er) as (b & t & -> & Hb). exfalso.
  destruct (strncaseeq [68; 97; 116; 101; 58]%N (b :: t)) eqn:E1.
  { destruct (strncaseeq_head _ _ _ E1) as (b' & t' & E & Hb'). inversion E; subst. rewrite Hb in Hb'. vm_compute in Hb'. discriminate. }
  destruct (strncaseeq [70; 114; 111; 109; 58]%N (b :: t)) eqn:E2.
  { destruct (strncaseeq_head _ _ _ E2) as (b' & t' & E & Hb'). inversion E; subst. rewrite Hb in Hb'. vm_compute in Hb'. discriminate. }
  destruct (strncaseeq [77; 101; 115; 115; 97; 103; 101; 45; 73; 100; 58]%N (b :: t)) eqn:E3; [|discriminate].
  destruct (strncaseeq_head _ _ _ E3) as (b' & t' & E & Hb'). inversion E; subst. rewrite Hb in Hb'. vm_compute in Hb'. discriminate.
Qed.

Section Data.
Variable o : oracles.
Variable dc : dcfg.
Variable trace : bytes.
Variable T0 : bytes.                          (* the unread input when DATA started reading *)

(** invariant: [l] is in linein, not yet written *)
Definition I (seen : list bytes) (msg : bytes) (sz : N) (r : rstate) (l : bytes) : Prop :=
  msg = trace ++ stored seen /\ sz = szof seen /\ T0 = wire seen ++ l ++ [CR; LF] ++ total r
  /\ rstate_ok r /\ Forall data_line seen /\ no_crlf l.

(** what each final result says *)
Definition post (d : dend) (r' : rstate) : Prop :=
  match d with
  | D_eod msg sz seen =>
      msg = trace ++ stored seen /\ sz = szof seen /\ (sz <= maxbytes o)%N
      /\ T0 = wire seen ++ [DOT; CR; LF] ++ total r' /\ Forall data_line seen
  | D_toobig l seen =>
      (maxbytes o < szof seen)%N /\ T0 = wire seen ++ l ++ [CR; LF] ++ total r' /\ Forall data_line seen
  | _ => True
  end.

Lemma I_step seen msg sz r l l' r' : I seen msg sz r l -> is_dot l = false ->
  dread r l = (inr l', r') ->
  I (seen ++ [l]) (msg ++ unstuff l ++ [LF]) (sz + N.of_nat (length (unstuff l)) + 2)%N r' l'.
Proof.
  intros (Hm & Hs & Ht & Hok & Hall & Hcl) Hnd Hd.
  destruct (dread_line _ _ _ _ Hok Hd) as (Htot & Hc' & Hok').
  unfold I. rewrite stored_app, szof_app, wire_app. unfold stored at 2, wire at 2. simpl.
  rewrite !app_nil_r. repeat split; auto.
  - rewrite Hm. now rewrite <- !app_assoc.
  - rewrite Hs. lia.
  - rewrite Ht, Htot. now rewrite <- !app_assoc.
  - apply Forall_app. split; [exact Hall|]. constructor; [split; assumption|constructor].
Qed.

Lemma dfinal_post l msg sz seen r : I seen msg sz r l ->
  (is_dot l = true \/ (maxbytes o < sz)%N) -> post (dfinal o l msg sz seen) r.
Proof.
  intros (Hm & Hs & Ht & Hok & Hall & Hcl) Hwhy. unfold dfinal.
  destruct (N.ltb (maxbytes o) sz) eqn:E.
  - apply N.ltb_lt in E. cbn [post]. rewrite <- Hs. auto.
  - apply N.ltb_ge in E. destruct Hwhy as [Hd|Hb]; [|exfalso; lia].
    apply is_dot_true in Hd. subst l. cbn [post]. rewrite <- Hs. repeat split; auto.
Qed.

Lemma body_loop_post fuel : forall r l msg sz seen d r',
  I seen msg sz r l -> body_loop fuel o dc r l msg sz seen = (d, r') -> post d r'.
Proof.
  induction fuel as [|f IH]; intros r l msg sz seen d r' HI H; cbn [body_loop] in H.
  { inversion H; subst. exact Logic.I. }
  destruct (is_dot l || N.ltb (maxbytes o) sz) eqn:Ex.
  { inversion H; subst. apply dfinal_post; [exact HI|].
    apply orb_true_iff in Ex as [E|E]; [left; exact E|right; now apply N.ltb_lt]. }
  apply orb_false_iff in Ex as [End _].
  destruct (d_chk dc && negb (d_dt dc) && has8 l); [inversion H; subst; exact Logic.I|].
  destruct (d_wfail dc); [inversion H; subst; exact Logic.I|].
  destruct (dread r l) as [[d0|l'] r1] eqn:Ed.
  - inversion H; subst. destruct d; try exact Logic.I; unfold dread in Ed; destruct (net_read r) as [it rr]; destruct it; inversion Ed.
  - apply (IH _ _ _ _ _ _ _ (I_step _ _ _ _ _ _ _ HI End Ed) H).
Qed.

(** header loop: additionally the hop counter is the number of Received: header lines seen *)
Lemma hdr_loop_post fuel : forall r l msg sz hops hf seen d r',
  I seen msg sz r l -> hops = count_rcv seen -> hops <= MAXHOPS -> Forall (fun x => x <> []) seen ->
  hdr_loop fuel o dc r l msg sz hops hf seen = (d, r') ->
  post d r'
  /\ match d with
     | D_loop l' seen' => count_rcv (seen' ++ [l']) = S MAXHOPS /\ Forall (fun x => x <> []) (seen' ++ [l'])
     | D_eod _ _ seen' => count_rcv (hdr_part seen') <= MAXHOPS
     | _ => True
     end.
Proof.
  induction fuel as [|f IH]; intros r l msg sz hops hf seen d r' HI Hh Hle Hne H; cbn [hdr_loop] in H.
  { inversion H; subst. split; exact Logic.I. }
  pose proof (hdr_part_all seen Hne) as Hhp.
  destruct (is_dot l || N.ltb (maxbytes o) sz || Nat.eqb (length l) 0 || Nat.ltb MAXHOPS hops) eqn:Ex.
  - destruct (d_chk dc && (N.eqb (N.land hf 1) 0 || N.eqb (N.land hf 2) 0)); [inversion H; subst; split; exact Logic.I|].
    destruct l as [|b t].
    + (* empty line: body follows *)
      destruct (d_wfail dc); [inversion H; subst; split; exact Logic.I|].
      destruct (dread r []) as [[d0|l'] r1] eqn:Ed.
      * inversion H; subst. split; [|]; destruct d; try exact Logic.I; unfold dread in Ed; destruct (net_read r) as [it rr]; destruct it; inversion Ed.
      * assert (HI' : I (seen ++ [[]]) (msg ++ [LF]) (sz + 2)%N r1 l').
        { pose proof (I_step _ _ _ _ _ _ _ HI eq_refl Ed) as X. simpl in X.
          replace (sz + 0 + 2)%N with (sz + 2)%N in X by lia. exact X. }
        pose proof (body_loop_post _ _ _ _ _ _ _ _ HI' H) as Hp. split; [exact Hp|].
        (* the header part of what the body loop returns is [seen]; the body loop never reports a mail loop *)
        assert (Hpre : forall fuel r l msg sz sn d r', body_loop fuel o dc r l msg sz sn = (d, r') ->
                  match d with D_eod _ _ s' => exists t, s' = sn ++ t | D_loop _ _ => False | _ => True end).
        { clear. induction fuel as [|f IH]; intros r l msg sz sn d r' H; cbn [body_loop] in H; [inversion H; exact Logic.I|].
          destruct (is_dot l || N.ltb (maxbytes o) sz).
          - inversion H; subst. unfold dfinal. destruct (N.ltb (maxbytes o) sz); [exact Logic.I|]. exists []. now rewrite app_nil_r.
          - destruct (d_chk dc && negb (d_dt dc) && has8 l); [inversion H; subst; exact Logic.I|].
            destruct (d_wfail dc); [inversion H; subst; exact Logic.I|].
            destruct (dread r l) as [[d0|l'] r1] eqn:Ed.
            + inversion H; subst. apply dread_inl in Ed. destruct d; try exact Logic.I; contradiction.
            + apply IH in H. destruct d; try exact Logic.I; try contradiction. destruct H as (t & ->). exists (l :: t). now rewrite <- app_assoc. }
        apply Hpre in H. destruct d; try exact Logic.I; try contradiction. destruct H as (t & ->).
        rewrite (hdr_part_sep seen t Hne). lia.
    + inversion H; subst. split.
      * apply dfinal_post; [exact HI|].
        apply orb_true_iff in Ex as [Ex|Ex]; [|apply Nat.ltb_lt in Ex; lia].
        apply orb_true_iff in Ex as [Ex|Ex]; [|simpl in Ex; discriminate].
        apply orb_true_iff in Ex as [E|E]; [left; exact E|right; now apply N.ltb_lt].
      * unfold dfinal. destruct (N.ltb (maxbytes o) sz); [exact Logic.I|]. rewrite Hhp. lia.
  - apply orb_false_iff in Ex as [Ex _]. apply orb_false_iff in Ex as [Ex Elen]. apply orb_false_iff in Ex as [End _].
    assert (Hlne : l <> []) by (destruct l; [discriminate|congruence]).
    destruct (if N.eqb (nth 0 l 0%N) DOT then Some (hf, false) else hdr_check dc hf l) as [[hf' flagr]|] eqn:Ehc.
    2:{ inversion H; subst. split; exact Logic.I. }
    (* the counting condition of the code is the one of the specification *)
    assert (Hrcv : negb (N.eqb (nth 0 l 0%N) DOT) && flagr && is_received l = rcv_line l).
    { unfold rcv_line. destruct (N.eqb (nth 0 l 0%N) DOT) eqn:Ed; [reflexivity|]. cbn [negb andb].
      destruct flagr; [reflexivity|]. symmetry. cbn [andb].
      unfold hdr_check in Ehc. destruct (negb (d_chk dc)); [inversion Ehc|]. destruct (has8 l); [discriminate|].
      destruct (known_hdr l) as [bit|] eqn:Ek; [|inversion Ehc]. now apply (known_not_received l bit). }
    rewrite Hrcv in H.
    destruct (rcv_line l && Nat.ltb MAXHOPS (if rcv_line l then S hops else hops)) eqn:Eloop.
    + inversion H; subst. split; [exact Logic.I|].
      apply andb_true_iff in Eloop as [Er El]. rewrite Er in El. apply Nat.ltb_lt in El.
      split.
      * rewrite count_rcv_app. unfold count_rcv at 2. simpl. rewrite Er. simpl. lia.
      * apply Forall_app. split; [exact Hne|]. constructor; [exact Hlne|constructor].
    + match type of H with context [if ?c then (D_reject 554 l, r) else _] => destruct c end; [inversion H; subst; split; exact Logic.I|].
      destruct (d_wfail dc); [inversion H; subst; split; exact Logic.I|].
      destruct (dread r l) as [[d0|l'] r1] eqn:Ed.
      * inversion H; subst. split; destruct d; try exact Logic.I; unfold dread in Ed; destruct (net_read r) as [it rr]; destruct it; inversion Ed.
      * apply (IH _ _ _ _ _ _ _ _ _ (I_step _ _ _ _ _ _ _ HI End Ed)) in H; [exact H| | |].
        -- rewrite count_rcv_app. unfold count_rcv at 2. simpl. destruct (rcv_line l); simpl; lia.
        -- destruct (rcv_line l) eqn:Er; [|lia]. simpl in Eloop. apply Nat.ltb_ge in Eloop. lia.
        -- apply Forall_app. split; [exact Hne|]. constructor; [exact Hlne|constructor].
Qed.

End Data.

(** DATA as a whole, started in reader state [r] *)
Theorem data_loop_spec fuel o dc r trace d r' : rstate_ok r -> data_loop fuel o dc r trace = (d, r') ->
  match d with
  | D_eod msg sz seen =>
      (* the message is the trace header followed by exactly the client's data lines, in order, CRLF -> LF, leading dot removed *)
      msg = trace ++ stored seen
      /\ total r = wire seen ++ [DOT; CR; LF] ++ total r' /\ Forall data_line seen
      (* size: what is stored never exceeds the counter, which is within the limit *)
      /\ sz = szof seen /\ (N.of_nat (length (stored seen)) <= sz <= maxbytes o)%N
      (* hops: at most MAXHOPS Received: lines in the header *)
      /\ count_rcv (hdr_part seen) <= MAXHOPS
  | D_toobig l seen =>
      (* refused for size only if more than the limit was really transmitted *)
      (maxbytes o < szof seen <= N.of_nat (length (wire seen)))%N
      /\ total r = wire seen ++ l ++ [CR; LF] ++ total r'
  | D_loop l seen =>
      (* refused as looping only with more than MAXHOPS Received: lines, all of them in the header *)
      count_rcv (seen ++ [l]) = S MAXHOPS /\ Forall (fun x => x <> []) (seen ++ [l])
  | _ => True
  end.
Proof.
  intros Hok H. unfold data_loop in H.
  destruct (dread r []) as [[d0|l] r1] eqn:Ed.
  { inversion H; subst. unfold dread in Ed. destruct (net_read r) as [it rr]. destruct it; inversion Ed; exact Logic.I. }
  destruct (dread_line _ _ _ _ Hok Ed) as (Htot & Hcl & Hok1).
  assert (HI : I trace (total r) [] trace 0%N r1 l).
  { unfold I, stored, wire. simpl. rewrite app_nil_r. repeat split; auto. }
  assert (HM : 0 <= MAXHOPS) by lia.
  destruct (hdr_loop_post o dc trace (total r) fuel _ _ _ _ _ _ _ _ _ HI eq_refl HM (Forall_nil _) H) as (Hp & Hh).
  destruct d; try exact Logic.I.
  - cbn [post] in Hp. destruct Hp as (Hm & Hs & Hle & Ht & Hall).
    split; [exact Hm|]. split; [exact Ht|]. split; [exact Hall|]. split; [exact Hs|]. split; [|exact Hh].
    split; [rewrite Hs; apply stored_le_szof|exact Hle].
  - cbn [post] in Hp. destruct Hp as (Hb & Ht & Hall). split; [|exact Ht]. split; [exact Hb|apply szof_le_wire].
  - exact Hh.
Qed.

(** the verdict checker of Spec/SessionSpec.v accepts what the model does, for every reader state and stream:
    a message ended with D_eod (answered 250 when the queue accepts it) passes with code 250; one ended with
    D_toobig (answered 552) passes with code 552 whatever lines follow the one that crossed the limit. *)
Theorem data_verdict_sound fuel o dc r trace d r' :
  rstate_ok r -> data_loop fuel o dc r trace = (d, r') ->
  match d with
  | D_eod _ _ seen => data_verdict_ok (maxbytes o) seen 250 = true
  | D_toobig l seen => forall rest, data_verdict_ok (maxbytes o) (seen ++ l :: rest) 552 = true
  | _ => True
  end.
Proof.
  intros Hok H. pose proof (data_loop_spec fuel o dc r trace d r' Hok H) as S.
  destruct d; try exact Logic.I.
  - destruct S as (_ & _ & _ & Hs & (_ & Hle) & Hh). unfold data_verdict_ok. cbn [N.eqb Pos.eqb].
    rewrite Hs in Hle. apply andb_true_intro. split; [apply N.leb_le; exact Hle | apply Nat.leb_le; exact Hh].
  - destruct S as ((Hb & _) & _). intros rest. unfold data_verdict_ok. cbn [N.eqb Pos.eqb].
    apply N.ltb_lt. rewrite szof_app. lia.
Qed.

Theorem handoff_msg_sound fuel o dc r trace msg sz seen r' :
  rstate_ok r -> data_loop fuel o dc r trace = (D_eod msg sz seen, r') -> handoff_msg_ok seen msg = true.
Proof.
  intros Hok H. pose proof (data_loop_spec fuel o dc r trace _ r' Hok H) as S. cbn in S.
  destruct S as (Hm & _). unfold handoff_msg_ok. rewrite Hm, app_length.
  apply andb_true_intro. split; [apply Nat.leb_le; lia|].
  replace (length trace + length (stored seen) - length (stored seen)) with (length trace) by lia.
  rewrite skipn_app, skipn_all, Nat.sub_diag. cbn [skipn app]. apply bytes_eqb_eq. reflexivity.
Qed.

(** Proofs about the DATA loops of Model/Session.v (smtp_data): what is written to
    qmail-queue, how the size counter relates to stored and transmitted octets,
    and when the hop limit strikes.  For every reader state and every byte
    stream in every segmentation. *)
From Qv Require Import Common.Bytes Gen.GenNetio Gen.GenSession Model.NetRead Model.Session Spec.LineSpec Spec.SessionSpec Proofs.NetReadProofs.
From Coq Require Import Lia.

Definition rstate_ok (r : rstate) : Prop := length (inn r) <= LINEINBUF - 1.
Definition data_line (l : bytes) : Prop := no_crlf l /\ is_dot l = false.

Lemma stored_app a b : stored (a ++ b) = stored a ++ stored b.
Proof. unfold stored. now rewrite map_app, concat_app. Qed.
Lemma wire_app a b : wire (a ++ b) = wire a ++ wire b.
Proof. unfold wire. now rewrite map_app, concat_app. Qed.
Lemma szof_app a b : szof (a ++ b) = (szof a + szof b)%N.
Proof. induction a as [|x a IH]; simpl; [reflexivity|]. rewrite IH. lia. Qed.
Lemma count_rcv_app a b : count_rcv (a ++ b) = count_rcv a + count_rcv b.
Proof. unfold count_rcv. now rewrite filter_app, app_length. Qed.

Lemma unstuff_le l : length (unstuff l) <= length l.
Proof. destruct l as [|b l]; simpl; [lia|]. destruct (N.eqb b 46) eqn:E.
  - apply N.eqb_eq in E. subst. simpl. lia.
  - destruct b; simpl; try lia. repeat (destruct p; simpl; try lia). Qed.

(** stored octets <= size counter <= transmitted octets *)
Lemma stored_le_szof seen : (N.of_nat (length (stored seen)) <= szof seen)%N.
Proof.
  induction seen as [|l r IH]; simpl; [lia|]. unfold stored in *. simpl.
  rewrite !app_length. simpl. lia.
Qed.
Lemma szof_le_wire seen : (szof seen <= N.of_nat (length (wire seen)))%N.
Proof.
  induction seen as [|l r IH]; simpl; [lia|]. unfold wire in *. simpl.
  rewrite !app_length. simpl. pose proof (unstuff_le l). lia.
Qed.

Lemma dread_line r prev l r' : rstate_ok r -> dread r prev = (inr l, r') ->
  total r = l ++ [CR; LF] ++ total r' /\ no_crlf l /\ rstate_ok r'.
Proof.
  unfold dread, rstate_ok. intros Hok H.
  destruct (net_read r) as [it r1] eqn:En.
  destruct (net_read_spec _ _ _ Hok En) as (Hit & Hok').
  destruct it; inversion H; subst. cbn [item_ok] in Hit. destruct Hit as (Ht & Hc & _). auto.
Qed.

Lemma hdr_part_sep (seen t : list bytes) : Forall (fun x : bytes => x <> []) seen ->
  hdr_part ((seen ++ [([] : bytes)]) ++ t) = seen.
Proof.
  induction seen as [|x s IH]; intros Hne; [reflexivity|]. inversion Hne; subst. simpl.
  destruct x; [congruence|]. now rewrite IH.
Qed.

Lemma hdr_part_all (seen : list bytes) : Forall (fun x : bytes => x <> []) seen -> hdr_part seen = seen.
Proof.
  induction seen as [|x s IH]; intros Hne; [reflexivity|]. inversion Hne; subst. simpl.
  destruct x; [congruence|]. now rewrite IH.
Qed.

Lemma dread_inl r p d r' : dread r p = (inl d, r') ->
  match d with D_eod _ _ _ | D_toobig _ _ | D_loop _ _ => False | _ => True end.
Proof.
  unfold dread. destruct (net_read r) as [it rr]. destruct it; intros H; inversion H; exact Logic.I.
Qed.

Lemma is_dot_true l : is_dot l = true -> l = [DOT].
Proof.
  destruct l as [|b [|c t]]; try discriminate.
  - destruct b as [|p]; [discriminate|]. do 6 (destruct p as [p|p|]; try discriminate). reflexivity.
  - destruct b as [|p]; [discriminate|]. do 6 (destruct p as [p|p|]; try discriminate).
Qed.

Lemma strncaseeq_head c rest line : strncaseeq (c :: rest) line = true ->
  exists b t, line = b :: t /\ to_upper b = to_upper c.
Proof.
  unfold strncaseeq. intros H. apply andb_true_iff in H as [Hl He].
  destruct line as [|b t]; [simpl in Hl; discriminate|].
  exists b, t. split; [reflexivity|]. simpl in He. apply andb_true_iff in He as [He _]. now apply N.eqb_eq in He.
Qed.

(** a Date: / From: / Message-Id: line is not a Received: line *)
Lemma known_not_received l bit : known_hdr l = Some bit -> is_received l = false.
Proof.
  unfold known_hdr, is_received. intros H.
  destruct (strncaseeq [82; 101; 99; 101; 105; 118; 101; 100; 58]%N l) eqn:Er; [|reflexivity].
  destruct (strncaseeq_head _ _ _ Er) as (b & t & -> & Hb). exfalso.
  destruct (strncaseeq [68; 97; 116; 101; 58]%N (b :: t)) eqn:E1.
  { destruct (strncaseeq_head _ _ _ E1) as (b' & t' & E & Hb'). inversion E; subst. rewrite Hb in Hb'. vm_compute in Hb'. discriminate. }
  destruct (strncaseeq [70; 114; 111; 109; 58]%N (b :: t)) eqn:E2.
  { destruct (strncaseeq_head _ _ _ E2) as (b' & t' & E & Hb'). inversion E; subst. rewrite Hb in Hb'. vm_compute in Hb'. discriminate. }
  destruct (strncaseeq [77; 101; 115; 115; 97; 103; 101; 45; 73; 100; 58]%N (b :: t)) eqn:E3; [|discriminate].
  destruct (strncaseeq_head _ _ _ E3) as (b' & t' & E & Hb'). inversion E; subst. rewrite Hb in Hb'. vm_compute in Hb'. discriminate.
Qed.

(** ---------- the header flags of check_rfc822_headers() ---------- *)
(** the names the specification uses are the ones regenerated from searchpattern[] *)
Lemma hdr_patterns_ok : HDR_PATTERNS = [s_hdr_date; s_hdr_from; s_hdr_msgid].
Proof. reflexivity. Qed.

Definition hflags (seen : list bytes) : N :=
  ((if field_present s_hdr_date seen then 1 else 0) + (if field_present s_hdr_from seen then 2 else 0)
   + (if field_present s_hdr_msgid seen then 4 else 0))%N.

Lemma field_present_app name a l : field_present name (a ++ [l]) = field_present name a || field_line name l.
Proof. unfold field_present. rewrite existsb_app. simpl. now rewrite orb_false_r. Qed.

(** the three names exclude each other (different first letters), so known_hdr says which one a line starts with *)
Lemma known_hdr_cases l :
  match known_hdr l with
  | Some b => (b = 1%N /\ strncaseeq s_hdr_date l = true /\ strncaseeq s_hdr_from l = false /\ strncaseeq s_hdr_msgid l = false)
              \/ (b = 2%N /\ strncaseeq s_hdr_date l = false /\ strncaseeq s_hdr_from l = true /\ strncaseeq s_hdr_msgid l = false)
              \/ (b = 4%N /\ strncaseeq s_hdr_date l = false /\ strncaseeq s_hdr_from l = false /\ strncaseeq s_hdr_msgid l = true)
  | None => strncaseeq s_hdr_date l = false /\ strncaseeq s_hdr_from l = false /\ strncaseeq s_hdr_msgid l = false
  end.
Proof.
  unfold known_hdr. fold s_hdr_date s_hdr_from s_hdr_msgid.
  assert (X : forall c1 r1 c2 r2, to_upper c1 <> to_upper c2 -> strncaseeq (c1 :: r1) l = true -> strncaseeq (c2 :: r2) l = false).
  { intros c1 r1 c2 r2 Hne H1. destruct (strncaseeq (c2 :: r2) l) eqn:H2; [|reflexivity]. exfalso.
    destruct (strncaseeq_head _ _ _ H1) as (b & t & E & Hb). destruct (strncaseeq_head _ _ _ H2) as (b' & t' & E' & Hb').
    subst l. inversion E'; subst. congruence. }
  assert (Y : forall p q : bytes, match p, q with c1 :: _, c2 :: _ => to_upper c1 <> to_upper c2 | _, _ => False end ->
            strncaseeq p l = true -> strncaseeq q l = false).
  { intros [|c1 r1] [|c2 r2] Hne; try contradiction. now apply X. }
  destruct (strncaseeq s_hdr_date l) eqn:Ed.
  { left. repeat split; (apply (Y s_hdr_date); [vm_compute; discriminate|exact Ed]). }
  destruct (strncaseeq s_hdr_from l) eqn:Ef.
  { right; left. repeat split. apply (Y s_hdr_from); [vm_compute; discriminate|exact Ef]. }
  destruct (strncaseeq s_hdr_msgid l) eqn:Em.
  { right; right. repeat split. }
  repeat split.
Qed.

(** a line that starts with a dot is not looked at *)
Lemma hflags_dot seen l : dot_line l = true -> hflags (seen ++ [l]) = hflags seen.
Proof. intros Hd. unfold hflags. rewrite !field_present_app. unfold field_line. rewrite Hd. cbn [negb andb]. now rewrite !orb_false_r. Qed.

(** one line through check_rfc822_headers(): the flags stay the flags of the lines seen *)
Lemma hdr_check_flags dc hf l hf' flagr seen : (d_chk dc || d_subm dc = true -> hf = hflags seen) -> dot_line l = false ->
  hdr_check dc hf l = Some (hf', flagr) ->
  (d_chk dc || d_subm dc = true -> hf' = hflags (seen ++ [l])).
Proof.
  intros Hhf Hd H Hon. unfold hdr_check in H. rewrite Hon in H. cbn [negb] in H. specialize (Hhf Hon). subst hf.
  destruct (has8 l); [discriminate|].
  pose proof (known_hdr_cases l) as Hk.
  unfold hflags in *. rewrite !field_present_app. unfold field_line. rewrite Hd. cbn [negb andb].
  destruct (known_hdr l) as [bit|].
  - destruct Hk as [(-> & -> & -> & ->)|[(-> & -> & -> & ->)|(-> & -> & -> & ->)]];
      destruct (field_present s_hdr_date seen), (field_present s_hdr_from seen), (field_present s_hdr_msgid seen);
      cbn in H; try discriminate; inversion H; subst; reflexivity.
  - destruct Hk as (-> & -> & ->). inversion H; subst. now rewrite !orb_false_r.
Qed.

(** the fields written for the flags of the header are the ones the specification names *)
Lemma subm_additions_fields dc hdr : subm_additions dc (hflags hdr) = subm_fields (par_of dc) hdr.
Proof.
  unfold subm_additions, subm_fields, hflags, par_of. cbn [sp_date sp_from sp_stamp sp_host].
  destruct (field_present s_hdr_date hdr), (field_present s_hdr_from hdr), (field_present s_hdr_msgid hdr); reflexivity.
Qed.

Lemma hdr_body_part ls : hdr_part ls ++ body_part ls = ls.
Proof.
  unfold body_part. induction ls as [|l r IH]; [reflexivity|]. destruct l as [|b t]; [reflexivity|].
  cbn [hdr_part length skipn app]. now rewrite IH.
Qed.

(** outside submission mode nothing is added *)
Lemma queued_off p lines : sp_on p = false -> queued p lines = stored lines.
Proof. intros E. unfold queued. rewrite E. cbn [app]. now rewrite <- stored_app, hdr_body_part. Qed.

Lemma hdr_part_split (hdr rest : list bytes) : Forall (fun x : bytes => x <> []) hdr -> (rest = [] \/ exists bs, rest = [] :: bs) ->
  hdr_part (hdr ++ rest) = hdr /\ body_part (hdr ++ rest) = rest.
Proof.
  intros Hne Hr.
  assert (E : hdr_part (hdr ++ rest) = hdr).
  { destruct Hr as [->|(bs & ->)]; [rewrite app_nil_r; now apply hdr_part_all|].
    replace (hdr ++ [] :: bs) with ((hdr ++ [([] : bytes)]) ++ bs) by (now rewrite <- app_assoc). now apply hdr_part_sep. }
  split; [exact E|]. unfold body_part. rewrite E. rewrite skipn_app, skipn_all, Nat.sub_diag. reflexivity.
Qed.

Section Data.
Variable o : oracles.
Variable dc : dcfg.
Variable trace : bytes.
Variable T0 : bytes.                          (* the unread input when DATA started reading *)

(** invariant: [l] is in linein, not yet written; [base ++ seen] are the data lines consumed so far, and the message
    written is [pfx] followed by the stored form of [seen] *)
Definition I (pfx : bytes) (base seen : list bytes) (msg : bytes) (sz : N) (r : rstate) (l : bytes) : Prop :=
  msg = pfx ++ stored seen /\ sz = szof (base ++ seen) /\ T0 = wire (base ++ seen) ++ l ++ [CR; LF] ++ total r
  /\ rstate_ok r /\ Forall data_line (base ++ seen) /\ no_crlf l.

(** what each final result says *)
Definition post (pfx : bytes) (base : list bytes) (d : dend) (r' : rstate) : Prop :=
  match d with
  | D_eod msg sz all =>
      exists seen, all = base ++ seen /\ msg = pfx ++ stored seen /\ sz = szof all /\ (sz <= maxbytes o)%N
      /\ T0 = wire all ++ [DOT; CR; LF] ++ total r' /\ Forall data_line all
  | D_toobig l all =>
      (maxbytes o < szof all)%N /\ T0 = wire all ++ l ++ [CR; LF] ++ total r' /\ Forall data_line all
  | _ => True
  end.

Lemma I_step pfx base seen msg sz r l l' r' : I pfx base seen msg sz r l -> is_dot l = false ->
  dread r l = (inr l', r') ->
  I pfx base (seen ++ [l]) (msg ++ unstuff l ++ [LF]) (sz + N.of_nat (length (unstuff l)) + 2)%N r' l'.
Proof.
  intros (Hm & Hs & Ht & Hok & Hall & Hcl) Hnd Hd.
  destruct (dread_line _ _ _ _ Hok Hd) as (Htot & Hc' & Hok').
  unfold I. rewrite (app_assoc base seen [l]). rewrite stored_app, szof_app, wire_app. unfold stored at 2, wire at 2. simpl.
  rewrite !app_nil_r. repeat split; auto.
  - rewrite Hm. now rewrite <- !app_assoc.
  - rewrite Hs. lia.
  - rewrite Ht, Htot. now rewrite <- !app_assoc.
  - apply Forall_app. split; [exact Hall|]. constructor; [split; assumption|constructor].
Qed.

(** the same situation seen from a later starting point: everything so far is the base, the message so far the prefix *)
Lemma I_rebase pfx seen msg sz r l : I pfx [] seen msg sz r l -> forall m, I m seen [] m sz r l.
Proof.
  intros (Hm & Hs & Ht & Hok & Hall & Hcl) m. unfold I. cbn [app] in *. rewrite !app_nil_r.
  repeat split; auto.
Qed.

Lemma dfinal_post pfx base seen msg sz r l : I pfx base seen msg sz r l ->
  (is_dot l = true \/ (maxbytes o < sz)%N) -> post pfx base (dfinal o l msg sz (base ++ seen)) r.
Proof.
  intros (Hm & Hs & Ht & Hok & Hall & Hcl) Hwhy. unfold dfinal.
  destruct (N.ltb (maxbytes o) sz) eqn:E.
  - apply N.ltb_lt in E. cbn [post]. rewrite <- Hs. auto.
  - apply N.ltb_ge in E. destruct Hwhy as [Hd|Hb]; [|exfalso; lia].
    apply is_dot_true in Hd. subst l. cbn [post]. exists seen. rewrite <- Hs. repeat split; auto.
Qed.

Lemma body_loop_post pfx base fuel : forall r l msg sz seen d r',
  I pfx base seen msg sz r l -> body_loop fuel o dc r l msg sz (base ++ seen) = (d, r') -> post pfx base d r'.
Proof.
  induction fuel as [|f IH]; intros r l msg sz seen d r' HI H; cbn [body_loop] in H.
  { inversion H; subst. exact Logic.I. }
  destruct (is_dot l || N.ltb (maxbytes o) sz) eqn:Ex.
  { inversion H; subst. apply dfinal_post; [exact HI|].
    apply orb_true_iff in Ex as [E|E]; [left; exact E|right; now apply N.ltb_lt]. }
  apply orb_false_iff in Ex as [End _].
  destruct (d_chk dc && negb (d_dt dc) && has8 l); [inversion H; subst; exact Logic.I|].
  destruct (d_wfail dc); [inversion H; subst; exact Logic.I|].
  destruct (dread r l) as [[d0|l'] r1] eqn:Ed.
  - inversion H; subst. destruct d; try exact Logic.I; unfold dread in Ed; destruct (net_read r) as [it rr]; destruct it; inversion Ed.
  - rewrite <- app_assoc in H. apply (IH _ _ _ _ _ _ _ (I_step _ _ _ _ _ _ _ _ _ HI End Ed) H).
Qed.

Lemma body_loop_post' pfx base fuel r l msg sz seen all d r' : all = base ++ seen ->
  I pfx base seen msg sz r l -> body_loop fuel o dc r l msg sz all = (d, r') -> post pfx base d r'.
Proof. intros ->. apply body_loop_post. Qed.

(** the body loop never reports a mail loop *)
Lemma body_loop_noloop fuel : forall r l msg sz sn d r', body_loop fuel o dc r l msg sz sn = (d, r') ->
  match d with D_loop _ _ => False | _ => True end.
Proof.
  induction fuel as [|f IH]; intros r l msg sz sn d r' H; cbn [body_loop] in H; [inversion H; exact Logic.I|].
  destruct (is_dot l || N.ltb (maxbytes o) sz).
  - inversion H; subst. unfold dfinal. destruct (N.ltb (maxbytes o) sz); exact Logic.I.
  - destruct (d_chk dc && negb (d_dt dc) && has8 l); [inversion H; subst; exact Logic.I|].
    destruct (d_wfail dc); [inversion H; subst; exact Logic.I|].
    destruct (dread r l) as [[d0|l'] r1] eqn:Ed.
    + inversion H; subst. apply dread_inl in Ed. destruct d; try exact Logic.I; contradiction.
    + apply IH in H. exact H.
Qed.

(** header loop: the hop counter is the number of Received: header lines seen, the header flags are those of the
    lines seen (when the checks run at all); at the end of the header block the fields missing by these flags are added
    in submission mode *)
Definition hpost (d : dend) (r' : rstate) : Prop :=
  match d with
  | D_eod msg sz all =>
      exists hdr rest, all = hdr ++ rest /\ Forall (fun x : bytes => x <> []) hdr /\ (rest = [] \/ exists bs, rest = [] :: bs)
        /\ msg = trace ++ stored hdr ++ (if d_subm dc then subm_fields (par_of dc) hdr else []) ++ stored rest
        /\ sz = szof all /\ (sz <= maxbytes o)%N
        /\ T0 = wire all ++ [DOT; CR; LF] ++ total r' /\ Forall data_line all
        /\ count_rcv hdr <= MAXHOPS
  | D_toobig l all =>
      (maxbytes o < szof all)%N /\ T0 = wire all ++ l ++ [CR; LF] ++ total r' /\ Forall data_line all
  | D_loop l' seen' => count_rcv (seen' ++ [l']) = S MAXHOPS /\ Forall (fun x : bytes => x <> []) (seen' ++ [l'])
  | _ => True
  end.

Lemma hdr_loop_post fuel : forall r l msg sz hops hf seen d r',
  I trace [] seen msg sz r l -> hops = count_rcv seen -> hops <= MAXHOPS -> Forall (fun x : bytes => x <> []) seen ->
  (d_chk dc || d_subm dc = true -> hf = hflags seen) ->
  hdr_loop fuel o dc r l msg sz hops hf seen = (d, r') -> hpost d r'.
Proof.
  induction fuel as [|f IH]; intros r l msg sz hops hf seen d r' HI Hh Hle Hne Hhf H; cbn [hdr_loop] in H.
  { inversion H; subst. exact Logic.I. }
  destruct (is_dot l || N.ltb (maxbytes o) sz || Nat.eqb (length l) 0 || Nat.ltb MAXHOPS hops) eqn:Ex.
  - (* the end of the header block *)
    set (add := if d_subm dc then subm_additions dc hf else []) in H.
    assert (Hadd : add = if d_subm dc then subm_fields (par_of dc) seen else []).
    { unfold add. destruct (d_subm dc) eqn:Es; [|reflexivity]. rewrite Hhf by (rewrite ?Es; apply orb_true_r). apply subm_additions_fields. }
    destruct (d_subm dc && d_wfail dc && negb (Nat.eqb (length add) 0)); [inversion H; subst; exact Logic.I|].
    destruct (negb (d_subm dc) && d_chk dc && (N.eqb (N.land hf 1) 0 || N.eqb (N.land hf 2) 0)); [inversion H; subst; exact Logic.I|].
    destruct l as [|b t].
    + (* empty line: body follows *)
      destruct (d_wfail dc); [inversion H; subst; exact Logic.I|].
      destruct (dread r []) as [[d0|l'] r1] eqn:Ed.
      * inversion H; subst. destruct d; try exact Logic.I; unfold dread in Ed; destruct (net_read r) as [it rr]; destruct it; inversion Ed.
      * pose proof (I_step _ _ _ _ _ _ _ _ _ HI eq_refl Ed) as X. simpl in X.
        replace (sz + 0 + 2)%N with (sz + 2)%N in X by lia.
        pose proof (I_rebase _ _ _ _ _ _ X ((msg ++ add) ++ [LF])) as HI'.
        pose proof (body_loop_noloop _ _ _ _ _ _ _ _ H) as Hnl.
        pose proof (body_loop_post' _ _ _ _ _ _ _ _ _ _ _ (eq_sym (app_nil_r _)) HI' H) as Hp.
        destruct d; try exact Logic.I; try contradiction.
        -- cbn [post] in Hp. destruct Hp as (bs & Eall & Em & Es & Hmax & Ht & Hall).
           cbn [hpost]. exists seen, ([] :: bs).
           destruct HI as (Hm0 & _).
           split; [rewrite Eall; now rewrite <- app_assoc|]. split; [exact Hne|]. split; [right; eauto|].
           split. { rewrite Em, Hm0, Hadd. unfold stored at 3. cbn [map concat unstuff app]. fold (stored bs).
                    now rewrite <- !app_assoc. }
           split; [exact Es|]. split; [exact Hmax|]. split; [exact Ht|]. split; [exact Hall|]. lia.
        -- exact Hp.
    + (* the lone dot, or over the size limit *)
      inversion H; subst d r'. clear H.
      assert (Hwhy : is_dot (b :: t) = true \/ (maxbytes o < sz)%N).
      { apply orb_true_iff in Ex as [Ex|Ex]; [|apply Nat.ltb_lt in Ex; lia].
        apply orb_true_iff in Ex as [Ex|Ex]; [|simpl in Ex; discriminate].
        apply orb_true_iff in Ex as [E|E]; [left; exact E|right; now apply N.ltb_lt]. }
      destruct HI as (Hm & Hs & Ht & Hok & Hall & Hcl). cbn [app] in Hs, Ht, Hall.
      unfold dfinal. destruct (N.ltb (maxbytes o) sz) eqn:E.
      * apply N.ltb_lt in E. cbn [hpost]. rewrite <- Hs. auto.
      * apply N.ltb_ge in E. destruct Hwhy as [Hd|Hb]; [|exfalso; lia].
        apply is_dot_true in Hd. inversion Hd; subst b t. cbn [hpost]. exists seen, [].
        split; [now rewrite app_nil_r|]. split; [exact Hne|]. split; [left; reflexivity|].
        split. { rewrite Hm, Hadd. unfold stored at 3. cbn [map concat]. now rewrite !app_nil_r, <- app_assoc. }
        split; [exact Hs|]. split; [exact E|]. split; [exact Ht|]. split; [exact Hall|]. lia.
  - apply orb_false_iff in Ex as [Ex _]. apply orb_false_iff in Ex as [Ex Elen]. apply orb_false_iff in Ex as [End _].
    assert (Hlne : l <> []) by (destruct l; [discriminate|congruence]).
    destruct (if N.eqb (nth 0 l 0%N) DOT then Some (hf, false) else hdr_check dc hf l) as [[hf' flagr]|] eqn:Ehc.
    2:{ inversion H; subst. exact Logic.I. }
    (* the counting condition of the code is the one of the specification *)
    assert (Hrcv : negb (N.eqb (nth 0 l 0%N) DOT) && flagr && is_received l = rcv_line l).
    { unfold rcv_line. destruct (N.eqb (nth 0 l 0%N) DOT) eqn:Ed; [reflexivity|]. cbn [negb andb].
      destruct flagr; [reflexivity|]. symmetry. cbn [andb].
      unfold hdr_check in Ehc. destruct (negb (d_chk dc || d_subm dc)); [inversion Ehc|]. destruct (has8 l); [discriminate|].
      destruct (known_hdr l) as [bit|] eqn:Ek; [|inversion Ehc]. now apply (known_not_received l bit). }
    (* the flags follow the lines *)
    assert (Hhf' : d_chk dc || d_subm dc = true -> hf' = hflags (seen ++ [l])).
    { destruct (N.eqb (nth 0 l 0%N) DOT) eqn:Ed.
      - inversion Ehc; subst. intros Hon. rewrite (hflags_dot seen l Ed). now apply Hhf.
      - apply (hdr_check_flags dc hf l hf' flagr seen Hhf Ed Ehc). }
    rewrite Hrcv in H.
    destruct (rcv_line l && Nat.ltb MAXHOPS (if rcv_line l then S hops else hops)) eqn:Eloop.
    + inversion H; subst. cbn [hpost].
      apply andb_true_iff in Eloop as [Er El]. rewrite Er in El. apply Nat.ltb_lt in El.
      split.
      * rewrite count_rcv_app. unfold count_rcv at 2. simpl. rewrite Er. simpl. lia.
      * apply Forall_app. split; [exact Hne|]. constructor; [exact Hlne|constructor].
    + match type of H with context [if ?c then (D_reject 554 l, r) else _] => destruct c end; [inversion H; subst; exact Logic.I|].
      destruct (d_wfail dc); [inversion H; subst; exact Logic.I|].
      destruct (dread r l) as [[d0|l'] r1] eqn:Ed.
      * inversion H; subst. destruct d; try exact Logic.I; unfold dread in Ed; destruct (net_read r) as [it rr]; destruct it; inversion Ed.
      * apply (IH _ _ _ _ _ _ _ _ _ (I_step _ _ _ _ _ _ _ _ _ HI End Ed)) in H; [exact H| | | |exact Hhf'].
        -- rewrite count_rcv_app. unfold count_rcv at 2. simpl. destruct (rcv_line l); simpl; lia.
        -- destruct (rcv_line l) eqn:Er; [|lia]. simpl in Eloop. apply Nat.ltb_ge in Eloop. lia.
        -- apply Forall_app. split; [exact Hne|]. constructor; [exact Hlne|constructor].
Qed.

End Data.

(** DATA as a whole, started in reader state [r] *)
Theorem data_loop_spec fuel o dc r trace d r' : rstate_ok r -> data_loop fuel o dc r trace = (d, r') ->
  match d with
  | D_eod msg sz seen =>
      (* the message is the trace header followed by exactly the client's data lines, in order, CRLF -> LF, leading dot
         removed - in submission mode with exactly the missing ones of Date, From, Message-Id behind the last header line *)
      msg = trace ++ queued (par_of dc) seen
      /\ total r = wire seen ++ [DOT; CR; LF] ++ total r' /\ Forall data_line seen
      (* size: what is stored of the client's lines never exceeds the counter, which is within the limit *)
      /\ sz = szof seen /\ (N.of_nat (length (stored seen)) <= sz <= maxbytes o)%N
      (* hops: at most MAXHOPS Received: lines in the header *)
      /\ count_rcv (hdr_part seen) <= MAXHOPS
  | D_toobig l seen =>
      (* refused for size only if more than the limit was really transmitted *)
      (maxbytes o < szof seen <= N.of_nat (length (wire seen)))%N
      /\ total r = wire seen ++ l ++ [CR; LF] ++ total r'
  | D_loop l seen =>
      (* refused as looping only with more than MAXHOPS Received: lines, all of them in the header *)
      count_rcv (seen ++ [l]) = S MAXHOPS /\ Forall (fun x => x <> []) (seen ++ [l])
  | _ => True
  end.
Proof.
  intros Hok H. unfold data_loop in H.
  destruct (dread r []) as [[d0|l] r1] eqn:Ed.
  { inversion H; subst. unfold dread in Ed. destruct (net_read r) as [it rr]. destruct it; inversion Ed; exact Logic.I. }
  destruct (dread_line _ _ _ _ Hok Ed) as (Htot & Hcl & Hok1).
  assert (HI : I (total r) trace [] [] trace 0%N r1 l).
  { unfold I, stored, wire. simpl. rewrite app_nil_r. repeat split; auto. }
  assert (HM : 0 <= MAXHOPS) by lia.
  pose proof (hdr_loop_post o dc trace (total r) fuel _ _ _ _ _ _ _ _ _ HI eq_refl HM (Forall_nil _) (fun _ => eq_refl) H) as Hp.
  destruct d; try exact Logic.I.
  - cbn [hpost] in Hp. destruct Hp as (hdr & rest & Eall & Hne & Hrest & Hm & Hs & Hle & Ht & Hall & Hh).
    destruct (hdr_part_split hdr rest Hne Hrest) as (Ehp & Ebp). rewrite <- Eall in Ehp, Ebp.
    split. { rewrite Hm. unfold queued. rewrite Ehp, Ebp. reflexivity. }
    split; [exact Ht|]. split; [exact Hall|]. split; [exact Hs|]. split; [|rewrite Ehp; exact Hh].
    split; [rewrite Hs; apply stored_le_szof|exact Hle].
  - cbn [hpost] in Hp. destruct Hp as (Hb & Ht & Hall). split; [|exact Ht]. split; [exact Hb|apply szof_le_wire].
  - exact Hp.
Qed.

(** the verdict checker of Spec/SessionSpec.v accepts what the model does, for every reader state and stream:
    a message ended with D_eod (answered 250 when the queue accepts it) passes with code 250; one ended with
    D_toobig (answered 552) passes with code 552 whatever lines follow the one that crossed the limit. *)
Theorem data_verdict_sound fuel o dc r trace d r' :
  rstate_ok r -> data_loop fuel o dc r trace = (d, r') ->
  match d with
  | D_eod _ _ seen => data_verdict_ok (maxbytes o) seen 250 = true
  | D_toobig l seen => forall rest, data_verdict_ok (maxbytes o) (seen ++ l :: rest) 552 = true
  | _ => True
  end.
Proof.
  intros Hok H. pose proof (data_loop_spec fuel o dc r trace d r' Hok H) as S.
  destruct d; try exact Logic.I.
  - destruct S as (_ & _ & _ & Hs & (_ & Hle) & Hh). unfold data_verdict_ok. cbn [N.eqb Pos.eqb].
    rewrite Hs in Hle. apply andb_true_intro. split; [apply N.leb_le; exact Hle | apply Nat.leb_le; exact Hh].
  - destruct S as ((Hb & _) & _). intros rest. unfold data_verdict_ok. cbn [N.eqb Pos.eqb].
    apply N.ltb_lt. rewrite szof_app. lia.
Qed.

(** ---------- the property as stated (presence judged on the stored lines) ---------- *)
Lemma unstuff_nodot l : dot_line l = false -> unstuff l = l.
Proof.
  unfold dot_line, unstuff. destruct l as [|b t]; [reflexivity|]. cbn [nth]. intros H.
  destruct b as [|p]; [reflexivity|]. do 6 (destruct p as [p|p|]; try reflexivity). discriminate.
Qed.

Lemma field_stored_present name hdr : (name = s_hdr_date \/ name = s_hdr_from \/ name = s_hdr_msgid) ->
  hidden_field hdr = false -> field_stored name hdr = field_present name hdr.
Proof.
  intros Hn. unfold hidden_field, field_stored, field_present. induction hdr as [|l t IH]; [reflexivity|].
  cbn [existsb]. intros H. apply orb_false_iff in H as [Hl Ht]. rewrite (IH Ht). f_equal.
  unfold hidden_line in Hl. unfold field_line. destruct (dot_line l) eqn:Ed; cbn [negb andb] in *.
  - apply orb_false_iff in Hl as [Hl H3]. apply orb_false_iff in Hl as [H1 H2].
    destruct Hn as [->|[->| ->]]; assumption.
  - now rewrite (unstuff_nodot l Ed).
Qed.

Lemma queued_full_eq p lines : sp_on p = false \/ hidden_field (hdr_part lines) = false -> queued_full p lines = queued p lines.
Proof.
  unfold queued_full, queued. intros [E|E]; [rewrite E; reflexivity|].
  unfold subm_fields_full, subm_fields.
  rewrite (field_stored_present s_hdr_date _ (or_introl eq_refl) E), (field_stored_present s_hdr_from _ (or_intror (or_introl eq_refl)) E),
    (field_stored_present s_hdr_msgid _ (or_intror (or_intror eq_refl)) E). reflexivity.
Qed.

Theorem handoff_msg_sound fuel o dc r trace msg sz seen r' :
  rstate_ok r -> data_loop fuel o dc r trace = (D_eod msg sz seen, r') ->
  d_subm dc = false \/ hidden_field (hdr_part seen) = false -> handoff_msg_ok (par_of dc) seen msg = true.
Proof.
  intros Hok H Hcls. pose proof (data_loop_spec fuel o dc r trace _ r' Hok H) as S. cbn in S.
  destruct S as (Hm & _). unfold handoff_msg_ok. rewrite (queued_full_eq (par_of dc) seen Hcls). rewrite Hm, app_length.
  apply andb_true_intro. split; [apply Nat.leb_le; lia|].
  replace (length trace + length (queued (par_of dc) seen) - length (queued (par_of dc) seen)) with (length trace) by lia.
  rewrite skipn_app, skipn_all, Nat.sub_diag. cbn [skipn app]. apply bytes_eqb_eq. reflexivity.
Qed.

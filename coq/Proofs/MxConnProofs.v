(** tryconn: over any number of calls the candidates are taken once each, in list order. *)
From Coq Require Import List NArith Bool Arith Lia.
From Qv Require Import Common.Bytes Gen.GenMx Model.Mx Spec.MxSpec.
Import ListNotations.
Local Open Scope bool_scope.

Ltac consts := unfold MX_PRIORITY_USED, MX_PRIORITY_CURRENT, MX_PRIORITY_IMPLICIT, TRYCONN_FRESH_MAX in *.

(* ------------------------------------------------------------------ numbering of the candidates *)

Lemma number_from_length {A} (l : list A) i : length (number_from i l) = length l.
Proof. revert i. induction l as [|a r IH]; intros i; cbn [number_from length]; [reflexivity|]. rewrite IH. reflexivity. Qed.

Lemma targets_of_length e : length (targets_of e) = length (addrs e).
Proof. unfold targets_of. rewrite map_length. apply number_from_length. Qed.

Lemma number_from_skipn {A} (l : list A) : forall i k a,
  nth_error l k = Some a ->
  skipn k (number_from i l) = (i + k, a) :: skipn (S k) (number_from i l).
Proof.
  induction l as [|x r IH]; intros i k a H.
  - destruct k; discriminate.
  - destruct k as [|k'].
    + cbn in H. injection H as ->. cbn [number_from skipn]. rewrite Nat.add_0_r. reflexivity.
    + cbn [nth_error] in H. cbn [number_from]. cbn [skipn]. rewrite (IH (S i) k' a H).
      f_equal. f_equal. lia.
Qed.

Lemma skipn_map {A B} (f : A -> B) (l : list A) k : skipn k (map f l) = map f (skipn k l).
Proof. revert l. induction k as [|k IH]; intros [|x r]; cbn [skipn map]; try reflexivity. apply IH. Qed.

Lemma targets_of_skipn e k a :
  nth_error (addrs e) k = Some a ->
  skipn k (targets_of e) = (ident e, k, a) :: skipn (S k) (targets_of e).
Proof.
  intros H. unfold targets_of. rewrite !skipn_map.
  rewrite (number_from_skipn (addrs e) 0 k a H). reflexivity.
Qed.

Lemma map_addr_targets_of e : map snd (targets_of e) = addrs e.
Proof.
  unfold targets_of. rewrite map_map. cbn [snd].
  generalize 0. induction (addrs e) as [|a r IH]; intros i; cbn [number_from map]; [reflexivity|].
  cbn [snd]. rewrite IH. reflexivity.
Qed.

Lemma map_addr_flat_targets l : map snd (flat_targets l) = flat_addrs l.
Proof.
  unfold flat_targets, flat_addrs. induction l as [|e r IH]; [reflexivity|].
  cbn [map concat]. rewrite map_app, map_addr_targets_of, IH. reflexivity.
Qed.

Lemma flat_targets_length l : length (flat_targets l) = total_addrs l.
Proof.
  unfold total_addrs. change (concat (map addrs l)) with (flat_addrs l).
  rewrite <- map_addr_flat_targets, map_length. reflexivity.
Qed.

(* ------------------------------------------------------------------ what the marks mean *)

(** candidates that have not been tried yet, as encoded by the priorities and cur_s *)
Fixpoint remaining (l : list mx) (cs : nat) : list (N * nat * addr) :=
  match l with
  | [] => []
  | e :: r =>
      if N.eqb (prio e) MX_PRIORITY_CURRENT then skipn (S cs) (targets_of e) ++ flat_targets r
      else if N.leb (prio e) TRYCONN_FRESH_MAX then flat_targets (e :: r)
      else remaining r cs
  end.

(** states that occur: tried entries, then possibly the current one (cur_s inside it), then untried ones *)
Fixpoint wf (l : list mx) (cs : nat) : Prop :=
  match l with
  | [] => True
  | e :: r =>
      if N.eqb (prio e) MX_PRIORITY_CURRENT then cs < length (addrs e) /\ Forall fresh r
      else if N.leb (prio e) TRYCONN_FRESH_MAX then Forall fresh (e :: r)
      else wf r cs
  end.

Lemma fresh_not_current e : fresh e -> N.eqb (prio e) MX_PRIORITY_CURRENT = false.
Proof. unfold fresh. intros [H _]. apply N.eqb_neq. consts. lia. Qed.

Lemma fresh_leb e : fresh e -> N.leb (prio e) TRYCONN_FRESH_MAX = true.
Proof. unfold fresh. intros [H _]. apply N.leb_le. exact H. Qed.

Lemma fresh_wf l cs : Forall fresh l -> wf l cs /\ remaining l cs = flat_targets l.
Proof.
  intros H. destruct l as [|e r]; [split; reflexivity|].
  inversion H as [|x y He Hr]; subst. cbn [wf remaining].
  rewrite (fresh_not_current e He), (fresh_leb e He). split; [exact H|reflexivity].
Qed.

Lemma remaining_length l cs : length (remaining l cs) <= total_addrs l.
Proof.
  induction l as [|e r IH]; [cbn; lia|].
  assert (Hc : total_addrs (e :: r) = length (addrs e) + total_addrs r).
  { unfold total_addrs. cbn [map concat]. rewrite app_length. reflexivity. }
  cbn [remaining]. destruct (N.eqb (prio e) MX_PRIORITY_CURRENT).
  - rewrite app_length, skipn_length, targets_of_length, flat_targets_length. lia.
  - destruct (N.leb (prio e) TRYCONN_FRESH_MAX).
    + rewrite flat_targets_length. lia.
    + lia.
Qed.

(** one scan: it stops at exactly the next untried candidate, and marks accordingly *)
Lemma scan_step l : forall cs, wf l cs ->
  match remaining l cs with
  | [] => exists l' cs', scan l cs = (l', cs', None) /\ wf l' cs' /\ remaining l' cs' = []
  | (id, idx, a) :: rem' =>
      exists l' e, scan l cs = (l', idx, Some e) /\ ident e = id /\ nth_error (addrs e) idx = Some a
                   /\ wf l' idx /\ remaining l' idx = rem'
  end.
Proof.
  induction l as [|e r IH]; intros cs Hwf.
  - cbn. exists [], cs. repeat split.
  - cbn [wf remaining scan] in *.
    destruct (N.eqb (prio e) MX_PRIORITY_CURRENT) eqn:Ec.
    + destruct Hwf as [Hcs Hfr].
      destruct (Nat.ltb (S cs) (length (addrs e))) eqn:Elt.
      * apply Nat.ltb_lt in Elt.
        destruct (nth_error (addrs e) (S cs)) as [a|] eqn:En;
          [|apply nth_error_None in En; lia].
        rewrite (targets_of_skipn e (S cs) a En). cbn [app].
        exists (e :: r), e.
        split; [reflexivity|]. split; [reflexivity|]. split; [exact En|]. split.
        -- cbn [wf]. rewrite Ec. split; [exact Elt|exact Hfr].
        -- cbn [remaining]. rewrite Ec. reflexivity.
      * apply Nat.ltb_ge in Elt.
        assert (Hsk : skipn (S cs) (targets_of e) = []).
        { apply skipn_all2. rewrite targets_of_length. exact Elt. }
        rewrite Hsk. cbn [app].
        destruct (fresh_wf r cs Hfr) as [Hwr Hrr]. specialize (IH cs Hwr). rewrite Hrr in IH.
        assert (Hu1 : N.eqb (prio (set_prio e MX_PRIORITY_USED)) MX_PRIORITY_CURRENT = false) by (cbn; reflexivity).
        assert (Hu2 : N.leb (prio (set_prio e MX_PRIORITY_USED)) TRYCONN_FRESH_MAX = false) by (cbn; reflexivity).
        destruct (flat_targets r) as [|[[id idx] a] rem'].
        -- destruct IH as (l' & cs' & Hs & Hw & Hr). rewrite Hs.
           exists (set_prio e MX_PRIORITY_USED :: l'), cs'. split; [reflexivity|].
           cbn [wf remaining]. rewrite Hu1, Hu2. split; assumption.
        -- destruct IH as (l' & e' & Hs & Hid & Hn & Hw & Hr). rewrite Hs.
           exists (set_prio e MX_PRIORITY_USED :: l'), e'. split; [reflexivity|].
           cbn [wf remaining]. rewrite Hu1, Hu2. repeat split; assumption.
    + destruct (N.leb (prio e) TRYCONN_FRESH_MAX) eqn:El.
      * inversion Hwf as [|x y He Hfr]; subst.
        destruct He as [_ Hne]. destruct (addrs e) as [|a ra] eqn:Ea; [congruence|].
        assert (Hn0 : nth_error (addrs e) 0 = Some a) by (rewrite Ea; reflexivity).
        cbn [flat_targets map concat].
        pose proof (targets_of_skipn e 0 a Hn0) as Hsk. change (skipn 0 (targets_of e)) with (targets_of e) in Hsk. rewrite Hsk. cbn [app].
        assert (Hc1 : N.eqb (prio (set_prio e MX_PRIORITY_CURRENT)) MX_PRIORITY_CURRENT = true) by (cbn; reflexivity).
        exists (set_prio e MX_PRIORITY_CURRENT :: r), e.
        split; [reflexivity|]. split; [reflexivity|]. split; [exact Hn0|]. split.
        -- cbn [wf]. rewrite Hc1. cbn [set_prio addrs]. rewrite Ea. cbn [length]. split; [lia|exact Hfr].
        -- cbn [remaining]. rewrite Hc1. reflexivity.
      * specialize (IH cs Hwf).
        destruct (remaining r cs) as [|[[id idx] a] rem'].
        -- destruct IH as (l' & cs' & Hs & Hw & Hr). rewrite Hs.
           exists (e :: l'), cs'. split; [reflexivity|]. cbn [wf remaining]. rewrite Ec, El. split; assumption.
        -- destruct IH as (l' & e' & Hs & Hid & Hn & Hw & Hr). rewrite Hs.
           exists (e :: l'), e'. split; [reflexivity|]. cbn [wf remaining]. rewrite Ec, El. repeat split; assumption.
Qed.

(** the loop of one call against the reference *)
Lemma tryconn_loop_ref fuel : forall l cs oracle acc,
  wf l cs -> length (remaining l cs) < fuel ->
  exists l' cs',
    let '(rem', o', atts, res) := ref_call (remaining l cs) oracle acc in
    tryconn_loop fuel l cs oracle acc = Ok (mkst l' cs' o', atts, res)
    /\ wf l' cs' /\ remaining l' cs' = rem'.
Proof.
  induction fuel as [|f IH]; intros l cs oracle acc Hwf Hlen; [lia|].
  pose proof (scan_step l cs Hwf) as Hs.
  cbn [tryconn_loop].
  destruct (remaining l cs) as [|[[id idx] a] rem'] eqn:Er.
  - destruct Hs as (l' & cs' & Hscan & Hw & Hr). rewrite Hscan.
    exists l', cs'. cbn [ref_call]. repeat split; assumption.
  - destruct Hs as (l' & e & Hscan & Hid & Hn & Hw & Hr). rewrite Hscan, Hn.
    cbn [ref_call]. cbn [length] in Hlen.
    destruct oracle as [|o os].
    + specialize (IH l' idx [] ((a, is_v4mapped a) :: acc) Hw). rewrite Hr in IH. apply IH. lia.
    + destruct (N.eqb o 0).
      * exists l', idx. rewrite Hid. repeat split; assumption.
      * specialize (IH l' idx os ((a, is_v4mapped a) :: acc) Hw). rewrite Hr in IH. apply IH. lia.
Qed.

Lemma tryconn_ref l cs oracle :
  wf l cs ->
  exists l' cs',
    let '(rem', o', atts, res) := ref_call (remaining l cs) oracle [] in
    tryconn (mkst l cs oracle) = Ok (mkst l' cs' o', atts, res)
    /\ wf l' cs' /\ remaining l' cs' = rem'.
Proof.
  intros Hwf. unfold tryconn. cbn [st_list st_cur st_oracle].
  apply tryconn_loop_ref; [exact Hwf|]. pose proof (remaining_length l cs). lia.
Qed.

Lemma tryconn_calls_ref n : forall l cs oracle,
  wf l cs ->
  exists s, tryconn_calls n (mkst l cs oracle) = Ok (s, ref_calls n (remaining l cs) oracle).
Proof.
  induction n as [|n IH]; intros l cs oracle Hwf.
  - eexists. reflexivity.
  - cbn [tryconn_calls ref_calls].
    destruct (tryconn_ref l cs oracle Hwf) as (l' & cs' & Ht).
    destruct (ref_call (remaining l cs) oracle []) as [[[rem' o'] atts] res].
    destruct Ht as (Ht & Hw & Hr). rewrite Ht. cbn [bind].
    destruct (IH l' cs' o' Hw) as (s & Hs). rewrite Hs, Hr. cbn [bind]. eexists. reflexivity.
Qed.

(* ------------------------------------------------------------------ consequences of the reference *)

Definition att_of (t : N * nat * addr) : attempt := (snd t, is_v4mapped (snd t)).

Lemma ref_call_split rem : forall oracle acc rem' o' atts res,
  ref_call rem oracle acc = (rem', o', atts, res) ->
  exists tried, rem = tried ++ rem' /\ atts = rev acc ++ map att_of tried /\ (res = TcNoent -> rem' = []).
Proof.
  induction rem as [|[[id idx] a] r IH]; intros oracle acc rem' o' atts res H; cbn [ref_call] in H.
  - injection H as <- <- <- <-. exists []. cbn [map app]. rewrite app_nil_r. repeat split.
  - destruct oracle as [|o os].
    + destruct (IH _ _ _ _ _ _ H) as (tried & -> & -> & Hn).
      exists ((id, idx, a) :: tried). cbn [rev map app]. rewrite <- app_assoc. repeat split. exact Hn.
    + destruct (N.eqb o 0).
      * injection H as <- <- <- <-. exists [(id, idx, a)]. cbn [rev map app]. repeat split. discriminate.
      * destruct (IH _ _ _ _ _ _ H) as (tried & -> & -> & Hn).
        exists ((id, idx, a) :: tried). cbn [rev map app]. rewrite <- app_assoc. repeat split. exact Hn.
Qed.

Lemma all_attempts_cons atts res outs :
  all_attempts ((atts, res) :: outs) = map fst atts ++ all_attempts outs.
Proof. unfold all_attempts. cbn [map concat fst]. rewrite map_app. reflexivity. Qed.

Lemma map_fst_att_of tried : map fst (map att_of tried) = map snd tried.
Proof. rewrite map_map. reflexivity. Qed.

(** the attempts of n calls are an initial segment of the candidates *)
Lemma ref_calls_prefix n : forall rem oracle,
  exists tried rest, rem = tried ++ rest /\ all_attempts (ref_calls n rem oracle) = map snd tried.
Proof.
  induction n as [|n IH]; intros rem oracle.
  - exists [], rem. split; reflexivity.
  - cbn [ref_calls]. destruct (ref_call rem oracle []) as [[[rem' o'] atts] res] eqn:E.
    destruct (ref_call_split _ _ _ _ _ _ _ E) as (tried & -> & -> & _).
    destruct (IH rem' o') as (tried2 & rest & -> & Ha).
    exists (tried ++ tried2), rest. split; [rewrite app_assoc; reflexivity|].
    rewrite all_attempts_cons, Ha. cbn [rev app]. rewrite map_fst_att_of, map_app. reflexivity.
Qed.

Lemma ref_calls_noent n : forall rem oracle i atts,
  nth_error (ref_calls n rem oracle) i = Some (atts, TcNoent) ->
  all_attempts (firstn (S i) (ref_calls n rem oracle)) = map snd rem.
Proof.
  induction n as [|n IH]; intros rem oracle i atts H.
  - destruct i; discriminate.
  - cbn [ref_calls] in *. destruct (ref_call rem oracle []) as [[[rem' o'] atts'] res] eqn:E.
    destruct (ref_call_split _ _ _ _ _ _ _ E) as (tried & -> & -> & Hn).
    destruct i as [|i'].
    + cbn [nth_error] in H. injection H as _ ->. rewrite (Hn eq_refl).
      rewrite firstn_cons, firstn_O, all_attempts_cons. cbn [rev app]. rewrite map_fst_att_of.
      unfold all_attempts. cbn [map concat]. rewrite !app_nil_r. reflexivity.
    + cbn [nth_error] in H. rewrite firstn_cons. rewrite all_attempts_cons.
      rewrite (IH rem' o' i' atts H). cbn [rev app]. rewrite map_fst_att_of, map_app. reflexivity.
Qed.

Lemma ref_call_family rem : forall oracle acc rem' o' atts res,
  ref_call rem oracle acc = (rem', o', atts, res) ->
  Forall (fun at_ : attempt => snd at_ = is_v4mapped (fst at_)) acc ->
  Forall (fun at_ : attempt => snd at_ = is_v4mapped (fst at_)) atts.
Proof.
  intros oracle acc rem' o' atts res H Hacc.
  destruct (ref_call_split _ _ _ _ _ _ _ H) as (tried & _ & -> & _).
  apply Forall_app. split.
  - apply Forall_rev. exact Hacc.
  - apply Forall_forall. intros x Hx. apply in_map_iff in Hx. destruct Hx as (t & <- & _). reflexivity.
Qed.

Lemma ref_calls_family n : forall rem oracle, binds_right_family (ref_calls n rem oracle).
Proof.
  unfold binds_right_family.
  induction n as [|n IH]; intros rem oracle; [constructor|].
  cbn [ref_calls]. destruct (ref_call rem oracle []) as [[[rem' o'] atts] res] eqn:E.
  cbn [map concat fst]. apply Forall_app. split.
  - eapply ref_call_family; [exact E|constructor].
  - apply IH.
Qed.

Theorem tryconn_once l cs0 oracle n :
  Forall fresh l ->
  exists s outs,
    tryconn_calls n (mkst l cs0 oracle) = Ok (s, outs)
    /\ outs = ref_calls n (flat_targets l) oracle
    /\ once_in_order l outs
    /\ noent_only_when_exhausted l outs
    /\ binds_right_family outs.
Proof.
  intros Hf. destruct (fresh_wf l cs0 Hf) as [Hw Hr].
  destruct (tryconn_calls_ref n l cs0 oracle Hw) as (s & Hs). rewrite Hr in Hs.
  exists s, (ref_calls n (flat_targets l) oracle). split; [exact Hs|]. split; [reflexivity|].
  split; [|split].
  - unfold once_in_order.
    destruct (ref_calls_prefix n (flat_targets l) oracle) as (tried & rest & Heq & Ha).
    exists (length tried). rewrite Ha. rewrite <- map_addr_flat_targets, Heq, map_app.
    rewrite <- (map_length snd tried). rewrite firstn_app, Nat.sub_diag, firstn_all. cbn [firstn]. rewrite app_nil_r. reflexivity.
  - unfold noent_only_when_exhausted. intros i atts H.
    rewrite (ref_calls_noent n _ _ i atts H). apply map_addr_flat_targets.
  - apply ref_calls_family.
Qed.

(** the boolean checker accepts exactly the reference outcome *)
Lemma list_eqb_by_eq {A} (eqb : A -> A -> bool) :
  (forall a b, eqb a b = true -> a = b) -> forall l1 l2, list_eqb_by eqb l1 l2 = true -> l1 = l2.
Proof.
  intros Hs. induction l1 as [|x r IH]; destruct l2 as [|y r2]; cbn [list_eqb_by]; intros H; try reflexivity; try discriminate.
  apply andb_true_iff in H. destruct H as [H1 H2]. rewrite (Hs x y H1), (IH r2 H2). reflexivity.
Qed.

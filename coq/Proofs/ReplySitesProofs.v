(** C10, engine `replysites`: proofs.
    1. the symbolic checker is sound: [sym_ok s = true] and [conc_rel s out] give [valid_reply_stream out];
       hence [literal_reply_ok] and [ml_template_ok];
    2. [template_ok] puts every instance of a net_writen template inside the contract of C10_net_writen;
    3. net_write_multiline writes its strings concatenated;
    4. the sanitising loops leave no CR, LF, NUL;
    5. cb_nomail. *)
From Coq Require Import Lia ZifyBool ZifyN.
From Qv Require Import Common.Bytes Common.ReplyTpl Gen.GenNetio Gen.GenReplies Model.NetWriten Model.ReplySites
  Spec.ReplySpec Spec.ReplySitesSpec Proofs.NetWritenProofs.
From Qv Require Import Proofs.ReplyTables.

(** ** small facts *)
Lemma no_crlf_b_iff l : no_crlf_b l = true <-> no_crlf l.
Proof.
  unfold no_crlf_b, no_crlf. rewrite forallb_forall, Forall_forall.
  split; intros H b Hb; specialize (H b Hb).
  - apply andb_true_iff in H as [H1 H2]. apply negb_true_iff in H1, H2.
    apply N.eqb_neq in H1, H2. split; assumption.
  - destruct H as [H1 H2]. apply N.eqb_neq in H1, H2. unfold CR, LF in *. now rewrite H1, H2.
Qed.

Lemma is_digit_P b : is_digit b = true <-> digit_P b.
Proof. unfold is_digit, digit_P. lia. Qed.

Lemma forallb_digit_P l : forallb is_digit l = true <-> Forall digit_P l.
Proof.
  rewrite forallb_forall, Forall_forall. split; intros H b Hb; apply is_digit_P; auto.
Qed.

Lemma no_crlf_app a b : no_crlf (a ++ b) <-> no_crlf a /\ no_crlf b.
Proof. unfold no_crlf. apply Forall_app. Qed.

Lemma no_crlf_concat (ts : list bytes) : Forall no_crlf ts -> no_crlf (concat ts).
Proof.
  induction 1 as [|t ts Ht _ IH]; [constructor|]. simpl. apply no_crlf_app. split; assumption.
Qed.

(** ** 1. the symbolic checker *)

Lemma conc_rel_app s1 r1 s2 r2 : conc_rel s1 r1 -> conc_rel s2 r2 -> conc_rel (s1 ++ s2) (r1 ++ r2).
Proof.
  induction 1 as [|b s r _ IH|m v s r Hv Hm _ IH|s r _ IH]; intros H2; simpl.
  - exact H2.
  - constructor. auto.
  - rewrite <- app_assoc. constructor; auto.
  - constructor. auto.
Qed.

(** a literal concretises to itself *)
Lemma conc_rel_lit : forall b, conc_rel (syms_of_lit b) b.
Proof.
  assert (H : forall b, conc_rel (syms_of_lit b) b /\ forall x, conc_rel (syms_of_lit (x :: b)) (x :: b)).
  { induction b as [|y b [IH1 IH2]]; (split; [|intros x]).
    - constructor.
    - simpl. repeat constructor.
    - apply IH2.
    - cbn [syms_of_lit].
      destruct (N.eqb x CR && N.eqb y LF) eqn:E.
      + apply andb_true_iff in E as [E1 E2]. apply N.eqb_eq in E1, E2. subst. constructor. exact IH1.
      + constructor. apply IH2. }
  intros b. apply H.
Qed.

Lemma body_scan_ub : forall s ub ub' rest, body_scan s ub = Some (ub', rest) -> ub <= ub'.
Proof.
  induction s as [|[b|m|] s IH]; intros ub ub' rest H; simpl in H; try discriminate.
  - destruct (N.eqb b CR || N.eqb b LF); [discriminate|]. apply IH in H. lia.
  - apply IH in H. lia.
  - inversion H. lia.
Qed.

(** the text of one symbolic line *)
Lemma body_scan_sound : forall s ub ub' rest out,
  body_scan s ub = Some (ub', rest) -> conc_rel s out ->
  exists t out', out = t ++ CRLF ++ out' /\ conc_rel rest out' /\ no_crlf t /\ ub + length t <= ub'.
Proof.
  induction s as [|[b|m|] s IH]; intros ub ub' rest out H Hc; simpl in H; try discriminate.
  - destruct (N.eqb b CR || N.eqb b LF) eqn:E; [discriminate|].
    inversion Hc as [|b0 s0 r Hr| |]; subst.
    destruct (IH _ _ _ _ H Hr) as (t & out' & -> & Hrest & Ht & Hlen).
    exists (b :: t), out'. repeat split; auto.
    + constructor; [|exact Ht]. apply orb_false_iff in E as [E1 E2].
      apply N.eqb_neq in E1, E2. split; assumption.
    + simpl. lia.
  - inversion Hc as [| |m0 v s0 r Hv Hm Hr|]; subst.
    destruct (IH _ _ _ _ H Hr) as (t & out' & -> & Hrest & Ht & Hlen).
    exists (v ++ t), out'. repeat split; auto.
    + now rewrite <- app_assoc.
    + apply no_crlf_app. split; assumption.
    + rewrite app_length. lia.
  - inversion H; subst. inversion Hc as [| | |s0 r Hr]; subst.
    exists [], r. repeat split; auto; [constructor|simpl; lia].
Qed.

Lemma lines_scan_sound : forall fuel code s out,
  lines_scan fuel code s = true -> conc_rel s out ->
  exists texts, texts <> [] /\ out = concat (render code SP texts)
    /\ Forall (fun t => length t <= 506) texts /\ Forall no_crlf texts.
Proof.
  induction fuel as [|f IH]; intros code s out H Hc; [discriminate|].
  cbn [lines_scan] in H.
  destruct s as [|[a| |] [|[b| |] [|[c| |] [|[sep| |] body]]]]; try discriminate.
  apply andb_true_iff in H as [Hcode H]. apply bytes_eqb_eq in Hcode.
  destruct (body_scan body 0) as [[ub rest]|] eqn:Eb; [|discriminate].
  apply andb_true_iff in H as [Hub H]. apply Nat.leb_le in Hub.
  inversion Hc as [|? ? r1 Hc1| |]; subst. inversion Hc1 as [|? ? r2 Hc2| |]; subst.
  inversion Hc2 as [|? ? r3 Hc3| |]; subst. inversion Hc3 as [|? ? r4 Hc4| |]; subst.
  destruct (body_scan_sound _ _ _ _ _ Eb Hc4) as (t & out' & -> & Hrest & Ht & Hlen).
  destruct rest as [|x rest].
  - apply N.eqb_eq in H. subst sep. inversion Hrest; subst.
    exists [t]. repeat split; try (constructor; [|constructor]); try assumption; try lia; [discriminate|].
    simpl. rewrite app_nil_r. reflexivity.
  - apply andb_true_iff in H as [Hsep H]. apply N.eqb_eq in Hsep. subst sep.
    destruct (IH _ _ _ H Hrest) as (ts & Hne & -> & Hlens & Hclean).
    exists (t :: ts). repeat split; try (constructor; assumption || lia); [discriminate|].
    destruct ts as [|t2 ts]; [contradiction|].
    cbn [render concat]. rewrite <- !app_assoc. reflexivity.
Qed.

Theorem sym_ok_sound s out : sym_ok s = true -> conc_rel s out -> valid_reply_stream out.
Proof.
  unfold sym_ok. intros H Hc.
  destruct s as [|[a| |] [|[b| |] [|[c| |] rest]]]; try discriminate.
  apply andb_true_iff in H as [Hd H].
  destruct (lines_scan_sound _ _ _ _ H Hc) as (texts & Hne & Hout & Hlens & Hclean).
  exists [a; b; c], texts. repeat split; try assumption.
  apply forallb_digit_P. exact Hd.
Qed.

Theorem literal_reply_ok_sound b : literal_reply_ok b = true -> valid_reply_stream b.
Proof. intros H. exact (sym_ok_sound _ _ H (conc_rel_lit b)). Qed.

(** a hole concretises to any string of its class *)
Lemma conc_rel_hole c syms v : syms_of_hole c = Some syms -> class_inv c v -> conc_rel syms v.
Proof.
  destruct c; simpl; intros H Hv; try discriminate; inversion H; subst.
  - destruct Hv as [Hc Hl]. rewrite <- (app_nil_r v). constructor; [exact Hc|exact Hl|constructor].
  - destruct Hv as (t & -> & Hc & Hl). constructor; [exact Hc|exact Hl|]. repeat constructor.
  - destruct Hv as (t & -> & Hc & Hl). constructor; [exact Hc|exact Hl|]. repeat constructor.
Qed.

Lemma conc_rel_tpl : forall t syms args, syms_of_tpl t = Some syms -> Forall2 elem_rel t args ->
  conc_rel syms (concat args).
Proof.
  induction t as [|e t IH]; intros syms args H HF; inversion HF as [|? v ? args' He HF']; subst.
  - inversion H. constructor.
  - simpl. destruct e as [b|c]; simpl in H.
    + destruct (syms_of_tpl t) as [r|] eqn:Er; [|discriminate]. inversion H; subst.
      inversion He; subst. apply conc_rel_app; [apply conc_rel_lit|]. apply IH; auto.
    + destruct (syms_of_hole c) as [a|] eqn:Ea; [|discriminate].
      destruct (syms_of_tpl t) as [r|] eqn:Er; [|discriminate]. inversion H; subst.
      inversion He; subst. apply conc_rel_app; [eapply conc_rel_hole; eauto|]. apply IH; auto.
Qed.

Theorem ml_template_ok_sound t args : ml_template_ok t = true -> Forall2 elem_rel t args ->
  valid_reply_stream (concat args).
Proof.
  unfold ml_template_ok. intros H HF. destruct (syms_of_tpl t) as [s|] eqn:E; [|discriminate].
  exact (sym_ok_sound _ _ H (conc_rel_tpl _ _ _ E HF)).
Qed.

(** ** 2. net_writen templates *)

Lemma class_inv_no_crlf c v : text_class c = true -> class_inv c v -> no_crlf v.
Proof. destruct c; simpl; intros H Hv; try discriminate; try exact Hv; apply Hv. Qed.

Lemma rest_no_crlf : forall rest parts, forallb rest_ok rest = true -> Forall2 elem_rel rest parts ->
  no_crlf (concat parts).
Proof.
  induction rest as [|e rest IH]; intros parts H HF; inversion HF as [|? v ? parts' He HF']; subst; [constructor|].
  simpl in H. apply andb_true_iff in H as [H1 H2]. simpl. apply no_crlf_app. split; [|apply IH; auto].
  inversion He; subst; simpl in H1.
  - now apply no_crlf_b_iff.
  - eapply class_inv_no_crlf; eauto.
Qed.

Lemma s0_split (s0 : bytes) : 4 <= length s0 -> s0 = firstn 3 s0 ++ [nth 3 s0 0%N] ++ skipn 4 s0.
Proof.
  intros H. destruct s0 as [|a [|b [|c [|d r]]]]; simpl in H; try lia. reflexivity.
Qed.

(** every instance of an accepted template is inside the contract of net_writen *)
Theorem template_ok_contract t args : template_ok t = true -> Forall2 elem_rel t args ->
  exists s0 parts code t0, args = s0 :: parts /\ pre_s0 s0 code SP t0 /\ Forall digit_P code
    /\ no_crlf (t0 ++ concat parts).
Proof.
  intros H HF. destruct t as [|e rest]; [discriminate|].
  inversion HF as [|? s0 ? parts He HF']; subst.
  assert (Hgoal : forallb rest_ok rest = true ->
    4 <= length s0 -> length s0 < 510 -> Forall digit_P (firstn 3 s0) -> nth 3 s0 0%N = SP -> no_crlf s0 ->
    exists s0' parts' code t0, s0 :: parts = s0' :: parts' /\ pre_s0 s0' code SP t0 /\ Forall digit_P code
      /\ no_crlf (t0 ++ concat parts')).
  { intros Hrest H4 H510 Hdig Hsep Hclean.
    exists s0, parts, (firstn 3 s0), (skipn 4 s0). split; [reflexivity|]. split; [|split; [exact Hdig|]].
    - split; [|split]; [|rewrite firstn_length; lia|exact H510].
      rewrite <- Hsep. apply s0_split. exact H4.
    - apply no_crlf_app. split; [apply Forall_skipn; exact Hclean|]. eapply rest_no_crlf; eauto. }
  destruct e as [b|c].
  - inversion He; subst. simpl in H. apply andb_true_iff in H as [Hs0 Hrest].
    unfold s0_ok_b in Hs0. repeat (apply andb_true_iff in Hs0 as [Hs0 ?]).
    apply Hgoal; auto.
    + now apply Nat.leb_le.
    + now apply Nat.ltb_lt.
    + now apply forallb_digit_P.
    + now apply N.eqb_eq.
    + now apply no_crlf_b_iff.
  - destruct c; try discriminate. inversion He as [|? ? Hinv]; subst. simpl in H.
    destruct Hinv as (Hc & Hl & Hd & Hs).
    apply Hgoal; [exact H|lia|lia|exact Hd|exact Hs|exact Hc].
Qed.

(** (ii) for every accepted template and every assignment of strings of their classes to its
    holes - any length - net_writen yields a valid reply carrying the text completely and in order *)
Theorem template_ok_valid t args : template_ok t = true -> Forall2 elem_rel t args ->
  exists s0 parts code t0 ls, args = s0 :: parts /\ s0 = code ++ [SP] ++ t0 /\ length code = 3 /\ Forall digit_P code
    /\ net_writen s0 parts = Ok ls /\ valid_reply_for code SP (t0 ++ concat parts) ls.
Proof.
  intros H HF.
  destruct (template_ok_contract _ _ H HF) as (s0 & parts & code & t0 & -> & Hpre & Hdig & Hclean).
  destruct (net_writen_valid _ _ _ _ _ Hpre Hclean) as (ls & Hrun & Hvalid).
  destruct Hpre as (Hs0 & Hc & _).
  exists s0, parts, code, t0, ls. repeat split; assumption.
Qed.

(** ** 3. net_write_multiline *)
Lemma ends_crlf_app a : ends_crlf (a ++ CRLF) = true.
Proof. unfold ends_crlf. rewrite rev_app_distr. reflexivity. Qed.

Lemma render_last_crlf code c texts : texts <> [] ->
  exists a, concat (render code c texts) = a ++ CRLF /\ length code + 1 <= length a.
Proof.
  induction texts as [|t ts IH]; intros Hne; [contradiction|].
  destruct ts as [|t2 ts].
  - exists (code ++ [c] ++ t). simpl. rewrite app_nil_r, <- !app_assoc. split; [reflexivity|].
    rewrite !app_length. cbn [length]. lia.
  - destruct IH as (a & Ha & Hl); [discriminate|].
    exists ((code ++ [DASH] ++ t ++ CRLF) ++ a). cbn [render concat]. cbn [render] in Ha. rewrite Ha.
    rewrite <- !app_assoc. split; [reflexivity|]. rewrite !app_length. cbn [length]. lia.
Qed.

(** the writer: whenever its strings concatenate to a valid reply it writes exactly that, in one
    piece, and none of its asserts fails *)
Theorem net_write_multiline_ok (s : list bytes) : s <> [] -> valid_reply_stream (concat s) ->
  net_write_multiline s = Ok [concat s].
Proof.
  intros Hne (code & texts & Htne & Hout & Hc & _).
  unfold net_write_multiline. cbv zeta.
  match goal with |- context [Nat.eqb ?x 0] => destruct (Nat.eqb x 0) eqn:E0 end;
    [apply Nat.eqb_eq in E0; destruct s; [contradiction|discriminate]|].
  destruct (render_last_crlf code SP texts Htne) as (a & Ha & Hl).
  rewrite Hout, Ha.
  destruct (Nat.leb (length (a ++ CRLF)) NWM_MIN_LEN) eqn:E1.
  { apply Nat.leb_le in E1. rewrite app_length in E1. unfold NWM_MIN_LEN, CRLF in E1. cbn [length] in E1. lia. }
  rewrite ends_crlf_app. reflexivity.
Qed.

(** ** 4. the sanitising loops *)
Lemma san_byte_clean c : let c' := san_byte 32 9 127 63 c in c' <> CR /\ c' <> LF /\ c' <> 0%N.
Proof. unfold san_byte, CR, LF. cbv zeta. destruct ((c <? 32)%N && negb (c =? 9)%N || (c =? 127)%N) eqn:E; lia. Qed.

Lemma san_byte_what c : let c' := san_byte 32 9 127 63 c in
  (c' = c /\ (32 <= c \/ c = 9)%N /\ c <> 127%N) \/ (c' = 63%N /\ ((c < 32)%N /\ c <> 9%N \/ c = 127%N)).
Proof. unfold san_byte. cbv zeta. destruct ((c <? 32)%N && negb (c =? 9)%N || (c =? 127)%N) eqn:E; lia. Qed.

Lemma cstr_id s : ~ In 0%N s -> cstr s = s.
Proof.
  induction s as [|b s IH]; intros H; [reflexivity|]. simpl.
  destruct (N.eqb b 0) eqn:E; [apply N.eqb_eq in E; subst; exfalso; apply H; now left|].
  f_equal. apply IH. intros Hin. apply H. now right.
Qed.

Lemma txt_sanitise_clean s : no_crlf (txt_sanitise s) /\ ~ In 0%N (txt_sanitise s) /\ length (txt_sanitise s) = length s.
Proof.
  unfold txt_sanitise, TXT_SAN_LOW, TXT_SAN_KEEP, TXT_SAN_DEL, TXT_SAN_REPL. split; [|split].
  - unfold no_crlf. apply Forall_forall. intros b Hb. apply in_map_iff in Hb as (c & <- & _).
    destruct (san_byte_clean c) as (H1 & H2 & _). split; assumption.
  - intros Hin. apply in_map_iff in Hin as (c & Hc & _). destruct (san_byte_clean c) as (_ & _ & H3). auto.
  - apply map_length.
Qed.

Lemma nomail_sanitise_clean s : no_crlf (nomail_sanitise s) /\ ~ In 0%N (nomail_sanitise s)
  /\ length (nomail_sanitise s) = length s.
Proof.
  unfold nomail_sanitise, NOMAIL_SAN_LOW, NOMAIL_SAN_KEEP, NOMAIL_SAN_DEL, NOMAIL_SAN_REPL. split; [|split].
  - unfold no_crlf. apply Forall_forall. intros b Hb. apply in_map_iff in Hb as (c & <- & _).
    destruct (san_byte_clean c) as (H1 & H2 & _). split; assumption.
  - intros Hin. apply in_map_iff in Hin as (c & Hc & _). destruct (san_byte_clean c) as (_ & _ & H3). auto.
  - apply map_length.
Qed.

(** dnstxt(): whatever the DNS delivered, the text handed to the reply has the length of the
    record, no CR, LF, NUL, and differs from the record only where that had a control octet *)
Theorem dnstxt_clean raw v : dnstxt raw = Some v ->
  v = txt_sanitise raw /\ class_inv HDnsTxt v /\ ~ In 0%N v /\ length v = length raw
  /\ Forall2 (fun a b => (b = a /\ (32 <= a \/ a = 9)%N /\ a <> 127%N) \/ (b = 63%N /\ ((a < 32)%N /\ a <> 9%N \/ a = 127%N))) raw v.
Proof.
  unfold dnstxt. intros H. destruct (txt_sanitise_clean raw) as (H1 & H2 & H3).
  assert (Hv : v = txt_sanitise raw).
  { destruct raw as [|c0 raw0]; [discriminate|]. rewrite (cstr_id _ H2) in H. congruence. }
  subst v. repeat split; try assumption.
  unfold txt_sanitise, TXT_SAN_LOW, TXT_SAN_KEEP, TXT_SAN_DEL, TXT_SAN_REPL. clear.
  induction raw as [|c raw IH]; simpl; constructor; [apply san_byte_what|exact IH].
Qed.

(** ** 5. cb_nomail *)
Lemma nomail_tpl_code : filter first_is_codeprefix (templates_of writen_templates nomail_func) = [[Hole HCodePrefix; Hole HConfText]].
Proof. vm_compute. reflexivity. Qed.

Lemma nomail_tpl_lit : exists s0, filter first_is_lit (templates_of writen_templates nomail_func) = [[Lit s0; Hole HConfText]]
  /\ s0_ok_b s0 = true /\ length s0 = 10.
Proof. eexists. split; [vm_compute; reflexivity|]. split; vm_compute; reflexivity. Qed.

Lemma nomail_codebeg_prefix m : nomail_codebeg m = true ->
  10 < length m /\ Forall digit_P (firstn 3 m) /\ nth 3 m 0%N = SP.
Proof.
  unfold nomail_codebeg, NOMAIL_MINLEN, NOMAIL_CODELEN. intros H. apply andb_true_iff in H as [Hl H].
  apply Nat.ltb_lt in Hl. split; [exact Hl|].
  assert (Hp : forall i, i < 10 -> nomail_pos_ok m i = true).
  { intros i Hi. rewrite forallb_forall in H. apply H. apply in_seq. lia. }
  pose proof (Hp 0 ltac:(lia)) as H0. pose proof (Hp 1 ltac:(lia)) as H1. pose proof (Hp 2 ltac:(lia)) as H2.
  pose proof (Hp 3 ltac:(lia)) as H3. clear Hp H.
  destruct m as [|a [|b [|c [|d m]]]]; simpl in Hl; try lia.
  unfold nomail_pos_ok in *. cbn [nth] in *. split.
  - cbn [firstn]. constructor; [|constructor; [|constructor; [|constructor]]]; apply is_digit_P; try assumption.
    clear - H0. unfold is_digit. lia.
  - now apply N.eqb_eq.
Qed.

(** the arguments cb_nomail hands to net_writen are an instance of one of its two generated
    templates, with strings inside their classes *)
Theorem nomail_args_template raw : ~ In 0%N raw ->
  (exists t args, nomail_args raw = Ok (Some args) /\ In t (templates_of writen_templates nomail_func)
    /\ Forall2 elem_rel t args /\ concat args = nomail_sanitise raw) \/
  (exists t args s0, nomail_args raw = Ok (Some args) /\ In t (templates_of writen_templates nomail_func)
    /\ Forall2 elem_rel t args /\ concat args = s0 ++ nomail_sanitise raw /\ length s0 = 10).
Proof.
  intros Hnul. unfold nomail_args.
  destruct (nomail_sanitise_clean raw) as (Hclean & Hn0 & Hlen).
  destruct (nomail_codebeg (nomail_sanitise raw)) eqn:E.
  - left. destruct (nomail_codebeg_prefix _ E) as (Hl & Hd & Hs).
    unfold NOMAIL_BUF, NOMAIL_COPY, NOMAIL_TERM, NOMAIL_REST. cbn [Nat.ltb Nat.leb Nat.add Nat.eqb negb].
    rewrite nomail_tpl_code. cbn [inst option_map].
    eexists _, _. split; [reflexivity|]. split; [|split].
    + assert (Hin : In [Hole HCodePrefix; Hole HConfText] (filter first_is_codeprefix (templates_of writen_templates nomail_func)))
        by (rewrite nomail_tpl_code; now left).
      apply filter_In in Hin. apply Hin.
    + constructor; [|constructor; [|constructor]]; constructor.
      * cbn [class_inv]. split; [apply Forall_firstn; exact Hclean|]. split; [rewrite firstn_length; lia|].
        split; [|rewrite <- Hs].
        -- replace (firstn 3 (firstn 10 (nomail_sanitise raw))) with (firstn 3 (nomail_sanitise raw)); [exact Hd|].
           rewrite firstn_firstn. reflexivity.
        -- destruct (nomail_sanitise raw) as [|a [|b [|c [|d m]]]]; simpl in Hl; try lia. reflexivity.
      * cbn [class_inv]. apply Forall_skipn. exact Hclean.
    + cbn [concat]. rewrite app_nil_r. apply firstn_skipn.
  - right. destruct nomail_tpl_lit as (s0 & Ht & Hs0 & Hl0). rewrite Ht. cbn [inst option_map].
    eexists _, _, s0. split; [reflexivity|]. split; [|split; [|split]].
    + assert (Hin : In [Lit s0; Hole HConfText] (filter first_is_lit (templates_of writen_templates nomail_func)))
        by (rewrite Ht; now left).
      apply filter_In in Hin. apply Hin.
    + constructor; [|constructor; [|constructor]]; constructor. exact Hclean.
    + cbn [concat]. now rewrite app_nil_r.
    + exact Hl0.
Qed.

Lemma templates_of_In tbl func t : In t (templates_of tbl func) -> exists key f, In (key, f, t) tbl.
Proof.
  unfold templates_of. intros H. apply in_map_iff in H as ([[key f] t'] & <- & Hin).
  apply filter_In in Hin as [Hin _]. exists key, f. exact Hin.
Qed.







(** cb_nomail, for every text the control file can hold: no crash, a valid reply with the file's own
    code or a ten octet code of the server, carrying the sanitised text completely and in order *)
Theorem cb_nomail_valid raw : ~ In 0%N raw ->
  exists ls code payload, cb_nomail raw = Ok (Some ls) /\ length code = 3 /\ Forall digit_P code
    /\ valid_reply_for code SP payload ls
    /\ (code ++ [SP] ++ payload = nomail_sanitise raw
        \/ exists pre, length pre = 10 /\ code ++ [SP] ++ payload = pre ++ nomail_sanitise raw).
Proof.
  intros Hnul.
  assert (Hok : forall t, In t (templates_of writen_templates nomail_func) -> template_ok t = true).
  { intros t Hin. destruct (templates_of_In _ _ _ Hin) as (key & f & Hin').
    pose proof writen_templates_ok as H. rewrite forallb_forall in H. exact (H _ Hin'). }
  unfold cb_nomail.
  destruct (nomail_args_template raw Hnul) as [(t & args & Hargs & Hin & HF & Hcat)|(t & args & pre & Hargs & Hin & HF & Hcat & Hpre)];
    destruct (template_ok_valid _ _ (Hok _ Hin) HF) as (s0 & parts & code & t0 & ls & -> & Hs0 & Hc & Hd & Hrun & Hvalid);
    rewrite Hargs; cbn [bind]; rewrite Hrun; cbn [bind];
    exists ls, code, (t0 ++ concat parts); (split; [reflexivity|]); (split; [exact Hc|]); (split; [exact Hd|]);
    (split; [exact Hvalid|]); cbn [concat] in Hcat; rewrite Hs0 in Hcat; rewrite <- !app_assoc in Hcat.
  - left. exact Hcat.
  - right. exists pre. split; [exact Hpre|exact Hcat].
Qed.

(** ** the statements of Props/Properties_C10.v *)
Lemma Forall2_len {A B} (R : A -> B -> Prop) l1 l2 : Forall2 R l1 l2 -> length l1 = length l2.
Proof. induction 1; simpl; congruence. Qed.

Theorem thm_literal_replies :
  Forall (fun e => literal_reply_ok (snd e) = true /\ valid_reply_stream (snd e)) netwrite_literals.
Proof.
  apply Forall_forall. intros e He. pose proof netwrite_literals_ok as H. rewrite forallb_forall in H.
  split; [exact (H e He)|exact (literal_reply_ok_sound _ (H e He))].
Qed.

Theorem thm_templates_ok :
  Forall (fun e => template_ok (snd e) = true) writen_templates
  /\ Forall (fun e => ml_template_ok (snd e) = true /\ length (snd e) < ML_CAPACITY) multiline_templates.
Proof.
  split; apply Forall_forall; intros e He.
  - pose proof writen_templates_ok as H. rewrite forallb_forall in H. exact (H e He).
  - pose proof multiline_templates_ok as H. rewrite forallb_forall in H. specialize (H e He).
    apply andb_true_iff in H as [H1 H2]. apply Nat.ltb_lt in H2. split; assumption.
Qed.

Theorem thm_sites_writen : forall key func t args,
  In (key, func, t) writen_templates -> Forall2 elem_rel t args ->
  exists s0 parts code t0 ls, args = s0 :: parts /\ s0 = code ++ [SP] ++ t0 /\ length code = 3 /\ Forall digit_P code
    /\ net_writen s0 parts = Ok ls /\ valid_reply_for code SP (t0 ++ concat parts) ls.
Proof.
  intros key func t args Hin HF. apply (template_ok_valid t args); [|exact HF].
  pose proof writen_templates_ok as H. rewrite forallb_forall in H. exact (H _ Hin).
Qed.

Theorem thm_sites_multiline : forall key func t args,
  In (key, func, t) multiline_templates -> Forall2 elem_rel t args ->
  net_write_multiline args = Ok [concat args] /\ valid_reply_stream (concat args) /\ length args < ML_CAPACITY.
Proof.
  intros key func t args Hin HF.
  pose proof multiline_templates_ok as H. rewrite forallb_forall in H. specialize (H _ Hin).
  apply andb_true_iff in H as [H1 H2]. apply Nat.ltb_lt in H2. cbn [snd] in *.
  pose proof (ml_template_ok_sound _ _ H1 HF) as Hv.
  assert (Hne : args <> []).
  { intros ->. destruct Hv as (code & texts & Hne & Hout & Hc & _). destruct texts as [|x [|y ts]]; [contradiction| |];
      cbn [render concat] in Hout; destruct code; try discriminate; simpl in Hc; discriminate. }
  split; [exact (net_write_multiline_ok _ Hne Hv)|]. split; [exact Hv|].
  rewrite <- (Forall2_len _ _ _ HF). exact H2.
Qed.

(** the unpatched functions do not have these properties *)
Theorem unpatched_refuted :
  (exists raw v, dnstxt_orig raw = Some v /\ ~ no_crlf v)
  /\ (exists raw, ~ In 0%N raw /\ no_crlf raw /\ forall lit, cb_nomail_orig lit raw = Crash 7).
Proof.
  split.
  - exists [108; 13; 10; 50; 53; 48; 32; 111; 107; 13; 10; 120]%N. eexists. split; [reflexivity|].
    intros H. unfold no_crlf in H. rewrite Forall_forall in H.
    destruct (H 13%N) as [H1 _]; [simpl; auto|]. now apply H1.
  - exists ([53; 53; 48; 32; 53; 46; 55; 46; 49; 32]%N ++ repeat 120%N 501). split; [|split].
    + intros Hin. apply in_app_or in Hin as [Hin|Hin]; [simpl in Hin; repeat (destruct Hin as [Hin|Hin]; [discriminate|]); exact Hin|].
      apply repeat_spec in Hin. discriminate.
    + unfold no_crlf. apply Forall_app. split; [repeat constructor; discriminate|].
      apply Forall_forall. intros b Hb. apply repeat_spec in Hb. subst. split; discriminate.
    + intros lit. vm_compute. reflexivity.
Qed.

(** ** 6. replies assembled from several calls *)
Lemma open_scan_sound : forall fuel code s out,
  open_scan fuel code s = true -> conc_rel s out ->
  exists texts, out = concat (map (dashline code) texts)
    /\ Forall (fun t => length t <= 506) texts /\ Forall no_crlf texts.
Proof.
  induction fuel as [|f IH]; intros code s out H Hc; [discriminate|].
  cbn [open_scan] in H.
  destruct s as [|[a| |] [|[b| |] [|[c| |] [|[sep| |] body]]]]; try discriminate.
  - inversion Hc; subst. exists []. repeat split; constructor.
  - apply andb_true_iff in H as [H Hb]. apply andb_true_iff in H as [Hcode Hsep].
    apply bytes_eqb_eq in Hcode. apply N.eqb_eq in Hsep. subst sep.
    destruct (body_scan body 0) as [[ub rest]|] eqn:Eb; [|discriminate].
    apply andb_true_iff in Hb as [Hub Hrest]. apply Nat.leb_le in Hub.
    inversion Hc as [|? ? r1 Hc1| |]; subst. inversion Hc1 as [|? ? r2 Hc2| |]; subst.
    inversion Hc2 as [|? ? r3 Hc3| |]; subst. inversion Hc3 as [|? ? r4 Hc4| |]; subst.
    destruct (body_scan_sound _ _ _ _ _ Eb Hc4) as (t & out' & -> & Hr & Ht & Hlen).
    destruct (IH _ _ _ Hrest Hr) as (ts & -> & Hlens & Hclean).
    exists (t :: ts). repeat split; try (constructor; assumption || lia).
    cbn [map concat]. unfold dashline. rewrite <- !app_assoc. reflexivity.
Qed.

Lemma render_app_dash code c a texts : texts <> [] ->
  concat (render code c (a ++ texts)) = concat (map (dashline code) a) ++ concat (render code c texts).
Proof.
  intros Hne. induction a as [|x a IH]; [reflexivity|].
  rewrite <- app_comm_cons. cbn [map concat].
  destruct (a ++ texts) as [|y r] eqn:E; [destruct a; [contradiction|discriminate]|].
  change (render code c (x :: y :: r)) with ((code ++ [DASH] ++ x ++ CRLF) :: render code c (y :: r)).
  cbn [concat]. rewrite IH. unfold dashline. rewrite <- !app_assoc. reflexivity.
Qed.

Lemma split_last_spec : forall ps front last, split_last ps = Some (front, last) -> ps = front ++ [last].
Proof.
  induction ps as [|p r IH]; intros front last H; [discriminate|].
  destruct r as [|q r'].
  - inversion H. reflexivity.
  - change (split_last (p :: q :: r')) with
      (match split_last (q :: r') with Some (a, l) => Some (p :: a, l) | None => None end) in H.
    destruct (split_last (q :: r')) as [[a l]|] eqn:E; [|discriminate].
    inversion H; subst. rewrite (IH a last eq_refl). reflexivity.
Qed.

Lemma lits_of_spec : forall ps pre, lits_of ps = Some pre -> ps = map PLit pre.
Proof.
  induction ps as [|p r IH]; intros pre H; [inversion H; reflexivity|].
  destruct p as [b| |]; try discriminate. cbn [lits_of] in H.
  destruct (lits_of r) as [l|] eqn:E; [|discriminate]. inversion H; subst. rewrite (IH l eq_refl). reflexivity.
Qed.

Theorem seq_ok_sound ps : seq_ok ps = true -> seq_valid ps.
Proof.
  unfold seq_ok. intros H.
  destruct (split_last ps) as [[front last]|] eqn:Es; [|discriminate].
  destruct (lits_of front) as [pre|] eqn:El; [|discriminate].
  exists pre, last. split; [rewrite (split_last_spec _ _ _ Es), (lits_of_spec _ _ El); reflexivity|].
  destruct last as [b|t|t].
  - apply literal_reply_ok_sound. exact H.
  - apply andb_true_iff in H as [Ht Ho]. intros args HF.
    destruct (template_ok_valid _ _ Ht HF) as (s0 & parts & code & t0 & ls & -> & Hs0 & Hc & Hd & Hrun & texts & Hne & Hls & _ & Hlens & Hclean).
    exists s0, parts, ls. split; [reflexivity|]. split; [exact Hrun|].
    destruct t as [|[l0|c0] t']; try discriminate.
    inversion HF as [|? ? ? ? He _]; subst. inversion He; subst.
    assert (Hcode : firstn 3 (code ++ [SP] ++ t0) = code).
    { rewrite <- Hc. rewrite firstn_app, Nat.sub_diag. cbn [firstn]. rewrite app_nil_r. apply firstn_all. }
    rewrite Hcode in Ho. unfold open_ok in Ho.
    destruct (open_scan_sound _ _ _ _ Ho (conc_rel_lit (concat pre))) as (ts0 & Hpre & Hl0 & Hc0).
    exists code, (ts0 ++ texts). split; [destruct ts0; [exact Hne|discriminate]|].
    split; [rewrite (render_app_dash _ _ _ _ Hne), Hpre; reflexivity|].
    split; [exact Hc|]. split; [exact Hd|]. split; apply Forall_app; split; assumption.
  - apply andb_true_iff in H as [Hml H].
    destruct (syms_of_tpl t) as [s|] eqn:Et; [|discriminate]. intros args HF.
    pose proof (ml_template_ok_sound _ _ Hml HF) as Hself.
    assert (Hne : args <> []).
    { intros ->. destruct Hself as (code & texts & Hne & Hout & Hc & _). destruct texts as [|x [|y ts]]; [contradiction| |];
        cbn [render concat] in Hout; destruct code; try discriminate; simpl in Hc; discriminate. }
    split; [exact (net_write_multiline_ok _ Hne Hself)|].
    apply (sym_ok_sound _ _ H). apply conc_rel_app; [apply conc_rel_lit|]. eapply conc_rel_tpl; eauto.
Qed.



Theorem thm_reply_sequences : Forall (fun e => seq_valid (snd e)) reply_sequences.
Proof.
  apply Forall_forall. intros e He. apply seq_ok_sound.
  pose proof reply_sequences_ok as H. rewrite forallb_forall in H. exact (H e He).
Qed.

(** addrsyntax() writes nothing but NULs into the line: whatever the input and the result,
    the buffer afterwards differs from the buffer before only in bytes that are now NUL. *)
From Qv Require Import Common.Bytes Gen.GenAddr Model.Addr Spec.AddrSpec.

Local Arguments N.eqb : simpl never.


Lemma nulw_refl l : nulw l l.
Proof. induction l; constructor; auto. Qed.

Lemma nulw_trans a b c : nulw a b -> nulw b c -> nulw a c.
Proof.
  intros H. revert c. induction H as [|x y a b Hxy _ IH]; intros c Hc; inversion Hc; subst; constructor.
  - destruct Hxy as [-> | ->]; [assumption|]. destruct H1 as [-> | ->]; auto.
  - apply IH. assumption.
Qed.

Lemma nulw_upd mem i mem' : upd mem i NUL = Ok mem' -> nulw mem mem'.
Proof.
  unfold upd. destruct (Nat.ltb_spec i (length mem)) as [Hlt|]; [|discriminate].
  intros H. inversion H; subst mem'. clear H.
  revert i Hlt. induction mem as [|x mem IH]; intros i Hlt; [simpl in Hlt; lia|].
  destruct i as [|i].
  - simpl. constructor; [now right|apply nulw_refl].
  - simpl. constructor; [now left|]. apply IH. simpl in Hlt. lia.
Qed.

Lemma nulw_length a b : nulw a b -> length a = length b.
Proof. induction 1; simpl; congruence. Qed.

(** peel one [do x <- m; ...] off a hypothesis [H : (do ...) = Ok _] *)
Ltac peel H :=
  match type of H with
  | bind ?m _ = Ok _ => let E := fresh "E" in destruct m eqn:E; cbn [bind] in H; [|discriminate H|discriminate H]
  end.

Lemma route_loop_nulw fuel : forall mem f mem' res,
  route_loop fuel mem f = Ok (mem', res) -> nulw mem mem'.
Proof.
  induction fuel as [|fuel IH]; intros mem f mem' res H; [discriminate|].
  cbn [route_loop] in H. peel H.
  destruct a as [t|]; [|inversion H; subst; apply nulw_refl].
  peel H. apply nulw_upd in E0. peel H.
  destruct (negb (Nat.eqb a0 0)); [inversion H; subst; exact E0|].
  peel H. destruct (negb (N.eqb a1 AT)); [inversion H; subst; exact E0|].
  eapply nulw_trans; [exact E0|]. eapply IH. exact H.
Qed.

Theorem addrsyntax_nulw pton4 pton6 mem0 flags r :
  addrsyntax pton4 pton6 mem0 flags = Ok r -> nulw mem0 (as_mem r) /\ length (as_mem r) = length mem0.
Proof.
  intros H.
  assert (G : nulw mem0 (as_mem r)); [|split; [exact G|symmetry; apply nulw_length; exact G]].
  unfold addrsyntax in H. peel H. peel H.
  destruct a0 as [mem ores].
  assert (W1 : nulw mem0 mem).
  { destruct (Z.eqb flags 1 && N.eqb a AT); [|inversion E0; subst; apply nulw_refl].
    peel E0. destruct a0 as [mem1 [f|]].
    - apply route_loop_nulw in E1. peel E0.
      destruct a0 as [t|]; [|inversion E0; subst; exact E1].
      peel E0. apply nulw_upd in E3. peel E0.
      assert (W : nulw mem0 a0) by (eapply nulw_trans; eassumption).
      destruct (negb (Nat.eqb a1 0)); [inversion E0; subst; exact W|].
      destruct (Nat.ltb AS_ROUTE_MAX (t + 1)); inversion E0; subst; exact W.
    - apply route_loop_nulw in E1. inversion E0; subst. exact E1. }
  destruct ores as [f|]; [|inversion H; subst; exact W1].
  peel H. destruct a0 as [l|]; [|inversion H; subst; exact W1].
  peel H.
  destruct (Z.eqb flags 0 && Nat.eqb (l - f) 0); [inversion H; subst; exact W1|].
  peel H. apply nulw_upd in E3.
  assert (W2 : nulw mem0 a1) by (eapply nulw_trans; eassumption).
  peel H. peel H.
  destruct (a2 && Nat.ltb a3 AS_MIN); [inversion H; subst; exact W2|].
  peel H. destruct (Nat.ltb (length a4 + 1) (l - f)); [discriminate|].
  inversion H; subst. exact W2.
Qed.

(** send_qp's per-part recode mask (regenerated from the C source) against the decision for a whole message.
    In a file of its own: only C06 depends on it. *)
From Qv Require Import Common.Bytes Gen.GenQrdata Model.Mime Model.QrData.

(** the decision taken for one MIME part (nr & nr_match in send_qp, masks from the C source) is the decision
    taken for a whole message: by enumeration of the eight flag values and the two settings *)
Lemma part_decision_is_message_decision : forall (ext8 : bool) (f : Flags), nr_match ext8 f = takes_qp ext8 f.
Proof. intros [|] [[|] [|] [|]]; vm_compute; reflexivity. Qed.

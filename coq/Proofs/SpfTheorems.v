(** C11: the statements of Props/Properties_C11.v, proved from SpfCore / SpfHeader / SpfSanitise. *)
From Coq Require Import Lia.
From Qv Require Import Common.Bytes Gen.GenSpf Model.SpfBase Model.SpfEnv Model.SpfMacro Model.Spf Model.SpfZone Spec.SpfSpec
  Proofs.SpfSanitise Proofs.SpfCore Proofs.SpfHeader Proofs.SpfMacroProofs.
Local Open Scope N_scope.

(** what xmitstat.spfexp / xmitstat.spfmechanism may hold between two evaluations *)
Definition state_ok (e : option bytes) (m : option bytes) : Prop := exp_ok e = true /\ mech_ok m.

(** everything C11 says about one finished evaluation *)
Definition C11_outcome (D : dns) (X : sess) (makro : bytes -> bytes -> bool -> Cres (mres * list qev)) (r : Z) (g : gst) : Prop :=
  (* one of the RFC 7208 results (permerror = 5 or 8) or -1 = local error with errno set, and -1 only when the
     resolver or the macro expander reported a local error *)
  In r result_codes /\ (noloc D makro -> In r rfc_codes)
  (* at most 10 DNS querying terms were evaluated; the counter went one further only to refuse a term, with "fail" *)
  /\ (count_terms (g_log g) <= RFC_TERM_LIMIT)%nat /\ (g_q g <= S RFC_TERM_LIMIT)%nat
  /\ ((RFC_TERM_LIMIT < g_q g)%nat -> r = SPF_FAIL)
  (* xmitstat.spfexp is 7 bit text without control characters, spfmechanism a name *)
  /\ state_ok (g_exp g) (g_mech g)
  (* and the Received-SPF header built from it is a well formed folded header field *)
  /\ (sess_ok X = true -> forall spf h, spfreceived X spf g = Some h -> hdr_ok h = true).

Lemma limit_is_rfc : SPF_TERM_LIMIT = RFC_TERM_LIMIT.
Proof. reflexivity. Qed.

Theorem check_host_correct D X makro :
  (forall t d e, makro t d e <> OutOfFuel) ->
  forall domain e0 m0, state_ok e0 m0 ->
  match check_host D X makro domain e0 m0 with
  | Ok (r, g) => C11_outcome D X makro r g
  | Crash _ => exists t d e w, makro t d e = Crash w
  | OutOfFuel => False
  end.
Proof.
  intros Hnf domain e0 m0 [He Hm].
  pose proof (check_host_post D X makro Hnf domain e0 m0 He Hm) as H.
  destruct (check_host D X makro domain e0 m0) as [[r g]|w|]; [|exact H|exact H].
  destruct H as ([R1 R2] & (P1 & P2 & P3 & P4) & Q).
  unfold C11_outcome. rewrite <- limit_is_rfc.
  split; [apply okcode_in, R1|].
  split.
  { intros N. specialize (R2 N). apply okcode_in in R1. unfold result_codes in R1. unfold rfc_codes.
    simpl in R1 |- *. intuition. }
  split; [exact P2|].
  split; [destruct Q as [Q|[Q _]]; lia|].
  split; [intros L; destruct Q as [Q|[_ Q]]; [lia|exact Q]|].
  split; [split; assumption|].
  intros HX spf h Hh. eapply spfreceived_clean; eauto.
Qed.

(** with the macro expander of this development no assumption is left *)
Theorem check_host_c_correct D X domain e0 m0 : state_ok e0 m0 ->
  match check_host_c D X domain e0 m0 with
  | Ok (r, g) => C11_outcome D X (spf_makro D X) r g
  | Crash _ => exists t d e w, spf_makro D X t d e = Crash w
  | OutOfFuel => False
  end.
Proof. apply check_host_correct. apply spf_makro_nofuel. Qed.

(** ---- a zone in which include refers to itself: evaluation stops after 10 terms with "fail" *)
Definition ex_name : bytes := [97; 46; 101; 120; 97; 109; 112; 108; 101].            (* a.example *)
Definition ex_record : bytes :=                                                       (* v=spf1 include:a.example -all *)
  SPF_VERSION ++ [32] ++ [105; 110; 99; 108; 117; 100; 101; 58] ++ ex_name ++ [32; 45; 97; 108; 108].
Definition ex_zone : dns := zone_dns [ZT ex_name (TxtRecs [ex_record])].
Definition ex_sess : sess :=
  {| s_client := 281470698652420; s_iptext := [49; 46; 50; 46; 51; 46; 52]; s_mailfrom := [117; 64] ++ ex_name;
     s_helostr := ex_name; s_remotehost := []; s_heloname := ex_name; s_now := 0 |}.

Lemma example_cycle :
  exists g, check_host_c ex_zone ex_sess ex_name None None = Ok (SPF_FAIL, g)
            /\ count_terms (g_log g) = 10%nat /\ g_q g = 11%nat /\ length (queries_of (g_log g)) = 11%nat.
Proof. eexists. split; [vm_compute; reflexivity|]. vm_compute. repeat split. Qed.

(** The boolean checker for the sending side is also sound: an accepted observation
    satisfies [tx_ok].  Together with Proofs/BdatSpecProofs.v: spec_ok_C19_tx decides tx_ok. *)
From Qv Require Import Common.Bytes Model.BdatTx Spec.BdatSpec Proofs.BdatTxProofs Proofs.BdatSpecProofs.
Require Import Lia.

Lemma strip_prefix_sound : forall p w r, strip_prefix p w = Some r -> w = p ++ r.
Proof.
  induction p as [|a p IH]; intros w r H; [cbn in H; injection H as ->; reflexivity|].
  destruct w as [|b w]; [discriminate|]. cbn in H. destruct (N.eqb_spec a b) as [->|]; [|discriminate].
  cbn. f_equal. apply IH. exact H.
Qed.

Lemma take_digits_sound : forall w d r, take_digits w = (d, r) -> w = d ++ r /\ Forall (fun c => is_digit c = true) d.
Proof.
  induction w as [|b w IH]; intros d r H.
  - cbn in H. injection H as <- <-. split; [reflexivity|constructor].
  - cbn in H. destruct (is_digit b) eqn:Eb.
    + destruct (take_digits w) as [d' r'] eqn:Et. injection H as <- <-.
      destruct (IH d' r' eq_refl) as (-> & Hd). split; [reflexivity|constructor; assumption].
    + injection H as <- <-. split; [reflexivity|constructor].
Qed.

Lemma parse_frame_sound w p last : parse_frame w = Some (p, last) -> frame p last w.
Proof.
  unfold parse_frame. destruct (strip_prefix S_BDAT w) as [r|] eqn:Es; [|discriminate].
  apply strip_prefix_sound in Es. subst w.
  destruct (take_digits r) as [d r1] eqn:Et. destruct (take_digits_sound _ _ _ Et) as (-> & Hdig).
  destruct d as [|d0 dt]; [discriminate|].
  destruct (N.eqb d0 48 && negb (match dt with [] => true | _ => false end)) eqn:Ec; [discriminate|].
  assert (Hcanon : hd 0%N (d0 :: dt) = 48%N -> d0 :: dt = [48%N]).
  { cbn. intros ->. rewrite N.eqb_refl in Ec. destruct dt; [reflexivity|discriminate]. }
  intros H.
  assert (Hfin : forall lst p', (if Nat.eqb (length p') (dec_val (d0 :: dt)) then Some (p', lst) else None) = Some (p, last) ->
                 p' = p /\ lst = last /\ dec_val (d0 :: dt) = length p).
  { intros lst p' Hf. destruct (Nat.eqb_spec (length p') (dec_val (d0 :: dt))) as [E|]; [|discriminate].
    injection Hf as -> ->. auto. }
  destruct (strip_prefix (S_LAST ++ CRLF) r1) as [p'|] eqn:E1.
  - apply strip_prefix_sound in E1. subst r1. destruct (Hfin _ _ H) as (-> & <- & Hv).
    exists (d0 :: dt). split; [repeat split; [discriminate|exact Hdig|exact Hv|exact Hcanon]|].
    rewrite <- !app_assoc. reflexivity.
  - destruct (strip_prefix CRLF r1) as [p'|] eqn:E2; [|discriminate].
    apply strip_prefix_sound in E2. subst r1. destruct (Hfin _ _ H) as (-> & <- & Hv).
    exists (d0 :: dt). split; [repeat split; [discriminate|exact Hdig|exact Hv|exact Hcanon]|]. reflexivity.
Qed.

Lemma frames_sound done : forall ws fs, parse_frames ws = Some fs -> last_flags_ok done fs = true ->
  frames done (map fst fs) ws.
Proof.
  induction ws as [|w ws IH]; intros fs Hp Hl.
  - cbn in Hp. injection Hp as <-. exact I.
  - cbn in Hp. destruct (parse_frame w) as [[p l]|] eqn:Ef; [|discriminate].
    destruct (parse_frames ws) as [fs'|] eqn:Ep; [|discriminate]. injection Hp as <-.
    apply parse_frame_sound in Ef. cbn [map fst frames].
    destruct fs' as [|f' fs''].
    + cbn in Hl. apply Bool.eqb_prop in Hl. subst l. cbn [map]. rewrite andb_true_r.
      split; [exact Ef|]. apply (IH [] eq_refl). reflexivity.
    + change (last_flags_ok done ((p, l) :: f' :: fs'')) with (negb l && last_flags_ok done (f' :: fs'')) in Hl.
      apply andb_true_iff in Hl as [Hl1 Hl2]. apply negb_true_iff in Hl1. subst l.
      cbn [map]. rewrite andb_false_r. split; [exact Ef|]. apply (IH _ eq_refl Hl2).
Qed.

Definition tnb_post (pre : bool) (m o : bytes) : Prop :=
  if pre then exists k, tx_norm (firstn k m) o else tx_norm m o.

(** lifting one spec rule through both modes *)
Lemma tnb_lift pre m o (pfx : bytes) (opfx : bytes) :
  (forall m1 o1, tx_norm m1 o1 -> (m1 = [] \/ hd_not_lf m -> hd_not_lf m1) -> tx_norm (pfx ++ m1) (opfx ++ o1)) ->
  tnb_post pre m o -> tnb_post pre (pfx ++ m) (opfx ++ o).
Proof.
  intros Hrule H. unfold tnb_post in *. destruct pre.
  - destruct H as [k Hk]. exists (length pfx + k). rewrite firstn_app, firstn_all2 by lia.
    replace (length pfx + k - length pfx) with k by lia. apply Hrule; [exact Hk|].
    intros [E|Hh]; [rewrite E; exact I|apply hd_not_lf_firstn; exact Hh].
  - apply Hrule; [exact H|]. intros [E|Hh]; [rewrite E; exact I|exact Hh].
Qed.

Lemma tx_norm_b_sound : forall n m o pre, length m <= n -> tx_norm_b pre m o = true -> tnb_post pre m o.
Proof.
  induction n as [|n IH]; intros m o pre Hlen H.
  { destruct m; [|cbn in Hlen; lia]. rewrite tx_norm_b_nil in H. destruct o; [|discriminate].
    unfold tnb_post. destruct pre; [exists 0|]; constructor. }
  destruct o as [|x o1].
  { unfold tnb_post. destruct pre.
    - exists 0. constructor.
    - destruct m; [constructor|discriminate]. }
  destruct m as [|b m']; [discriminate|]. cbn [length] in Hlen.
  destruct (N.eqb_spec b CR) as [->|Hb].
  - destruct m' as [|c m''].
    + (* CR is the last octet of the message *)
      destruct o1 as [|y [|z o2]]; cbn in H.
      * apply N.eqb_eq in H. subst x. unfold tnb_post. destruct pre; [exists 1|]; cbn; apply tn_cr_keep; try exact I; constructor.
      * apply andb_true_iff in H as [H1 H2]. apply N.eqb_eq in H1, H2. subst x y.
        unfold tnb_post. destruct pre; [exists 1|]; cbn; apply tn_cr_compl; try exact I; constructor.
      * discriminate.
    + destruct o1 as [|y o2].
      * rewrite tnb_cr1 in H. destruct (N.eqb_spec c LF) as [->|Hc].
        -- apply andb_true_iff in H as [H1 H2]. subst pre. apply N.eqb_eq in H2. subst x.
           exists 1. cbn. apply tn_cr_keep; [exact I|constructor].
        -- apply andb_true_iff in H as [H1 H2]. apply N.eqb_eq in H1. subst x.
           apply (IH (c :: m'') [] pre ltac:(cbn in *; lia)) in H2.
           apply (tnb_lift pre (c :: m'') [] [CR] [CR]); [|exact H2].
           intros m1 o1 Hn Hh. cbn. apply tn_cr_keep; [apply Hh; right; exact Hc|exact Hn].
      * rewrite tnb_cr2 in H. destruct (N.eqb_spec c LF) as [->|Hc].
        -- apply andb_true_iff in H as [H12 H3]. apply andb_true_iff in H12 as [H1 H2].
           apply N.eqb_eq in H1, H2. subst x y.
           apply (IH m'' o2 pre ltac:(cbn in *; lia)) in H3.
           apply (tnb_lift pre m'' o2 [CR; LF] [CR; LF]); [|exact H3].
           intros m1 o1 Hn _. cbn. apply tn_crlf. exact Hn.
        -- apply andb_true_iff in H as [H1 H2]. apply N.eqb_eq in H1. subst x.
           destruct (N.eqb_spec y LF) as [->|Hy].
           ++ apply (IH (c :: m'') o2 pre ltac:(cbn in *; lia)) in H2.
              apply (tnb_lift pre (c :: m'') o2 [CR] [CR; LF]); [|exact H2].
              intros m1 o1 Hn Hh. cbn. apply tn_cr_compl; [apply Hh; right; exact Hc|exact Hn].
           ++ apply (IH (c :: m'') (y :: o2) pre ltac:(cbn in *; lia)) in H2.
              apply (tnb_lift pre (c :: m'') (y :: o2) [CR] [CR]); [|exact H2].
              intros m1 o1 Hn Hh. cbn. apply tn_cr_keep; [apply Hh; right; exact Hc|exact Hn].
  - destruct (N.eqb_spec b LF) as [->|Hl].
    + destruct o1 as [|y o2]; [discriminate|]. rewrite tnb_lf in H.
      apply andb_true_iff in H as [H12 H3]. apply andb_true_iff in H12 as [H1 H2].
      apply N.eqb_eq in H1, H2. subst x y.
      apply (IH m' o2 pre ltac:(lia)) in H3.
      apply (tnb_lift pre m' o2 [LF] [CR; LF]); [|exact H3].
      intros m1 o1 Hn _. cbn. apply tn_lf. exact Hn.
    + rewrite tnb_other in H by assumption.
      apply andb_true_iff in H as [H1 H2]. apply N.eqb_eq in H1. subst x.
      apply (IH m' o1 pre ltac:(lia)) in H2.
      apply (tnb_lift pre m' o1 [b] [b]); [|exact H2].
      intros m1 o2 Hn _. cbn. apply tn_other; assumption.
Qed.

Theorem spec_tx_sound cs msg done ws : spec_ok_C19_tx cs msg done ws = true -> tx_ok cs msg done ws.
Proof.
  unfold spec_ok_C19_tx. destruct (parse_frames ws) as [fs|] eqn:Ep; [|discriminate].
  intros H. repeat (apply andb_true_iff in H as [H ?]).
  exists (map fst fs). split; [apply frames_sound; assumption|].
  split.
  { apply Forall_forall. intros w Hw. apply Nat.leb_le.
    match goal with Hf : forallb _ ws = true |- _ => rewrite forallb_forall in Hf; apply Hf; exact Hw end. }
  split.
  { intros Hm Hws. subst ws. destruct msg; [congruence|discriminate]. }
  match goal with Hn : tx_norm_b _ _ _ = true |- _ => apply (tx_norm_b_sound (length msg)) in Hn; [|lia] end.
  unfold tnb_post in *. destruct done; cbn [negb] in *; assumption.
Qed.

Theorem spec_tx_decides cs msg done ws : spec_ok_C19_tx cs msg done ws = true <-> tx_ok cs msg done ws.
Proof. split; [apply spec_tx_sound|apply spec_tx_complete]. Qed.

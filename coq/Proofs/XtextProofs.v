(** xtextlen(): an accepted AUTH= value is xtext that decodes to <> or a mailbox. *)
From Qv Require Import Common.Bytes Gen.GenAddr Model.Addr Spec.AddrSpec
  Proofs.AddrTables Proofs.CStrLemmas Proofs.DomainProofs Proofs.LocalProofs Proofs.ParseaddrProofs.

Local Arguments N.eqb : simpl never.
Ltac xt_consts := unfold XT_BUF, XT_IDX_MARGIN, XT_REJECT_NUL, XT_NULLPATH, AV_MIN in *.

Lemma xchar_props c : xchar c = true -> c <> NUL /\ c <> SP /\ (N.leb 33 c && N.leb c 126 && negb (N.eqb c 61)) = true.
Proof.
  intros H. split; [|split; [|exact H]]; unfold xchar in H;
  apply andb_true_iff in H as [H _]; apply andb_true_iff in H as [H _]; apply N.leb_le in H; unfold NUL, SP; lia.
Qed.

Ltac xt_done :=
  repeat match goal with |- _ /\ _ => split end;
  try reflexivity; try assumption; try (now left); try (now right); try (now rewrite app_nil_r); try (intros []);
  try (cbn [length]; lia).

Section Oracle.
Variable pton4 pton6 : bytes -> bool.

(** the loop: [x] is what it consumed, [d] what it decoded and appended to addrspec[] *)
Lemma xt_loop_spec rest m : forall s, length s <= m -> ~ In NUL s -> forall acc result,
  length acc <= 320 ->
  exists r, xt_loop (s ++ NUL :: rest) acc result = Ok r /\
  match r with
  | None => True
  | Some (acc', result') =>
      exists x tail d, s = x ++ tail /\ (tail = [] \/ hd 0%N tail = SP)
        /\ xdecode x = Some d /\ ~ In NUL d /\ acc' = acc ++ d
        /\ result' = (result + Z.of_nat (length x))%Z /\ length acc' <= 320
  end.
Proof.
  induction m as [|m IH]; intros s Hlen Hs acc result Hacc.
  - destruct s; [|simpl in Hlen; ulia]. cbn [app xt_loop]. rewrite N.eqb_refl. cbn [orb].
    eexists. split; [reflexivity|]. exists [], [], []. xt_done.
  - destruct s as [|c s1].
    { cbn [app xt_loop]. rewrite N.eqb_refl. cbn [orb].
      eexists. split; [reflexivity|]. exists [], [], []. xt_done. }
    apply not_in_cons in Hs as [Hc Hs1]. cbn [app xt_loop].
    destruct (N.eqb_spec c NUL) as [E|_]; [congruence|]. cbn [orb].
    destruct (N.eqb_spec c SP) as [->|Hsp].
    { eexists. split; [reflexivity|]. exists [], (SP :: s1), []. xt_done. }
    destruct (tbl XT_RANGE_OK c); cbn [negb]; [|eexists; split; [reflexivity|exact I]].
    xt_consts.
    destruct (Nat.ltb_spec (321 - 2) (length acc)) as [Hfull|Hroom]; [eexists; split; [reflexivity|exact I]|].
    assert (Hlen1 : length s1 <= m) by (simpl in Hlen; ulia).
    destruct (N.eqb_spec c PLUS) as [->|Hplus].
    + (* +XX *)
      destruct s1 as [|h1 s2].
      { cbn [app]. destruct (tbl XT_HEX_OK NUL) eqn:E; [apply XT_HEX_OK_spec in E as (v & E & _); discriminate|].
        cbn [negb]. eexists. split; [reflexivity|exact I]. }
      apply not_in_cons in Hs1 as [Hh1 Hs2]. cbn [app].
      destruct (tbl XT_HEX_OK h1) eqn:E1; cbn [negb]; [|eexists; split; [reflexivity|exact I]].
      destruct s2 as [|h2 s3].
      { cbn [app]. destruct (tbl XT_HEX_OK NUL) eqn:E; [apply XT_HEX_OK_spec in E as (v & E & _); discriminate|].
        cbn [negb]. eexists. split; [reflexivity|exact I]. }
      apply not_in_cons in Hs2 as [Hh2 Hs3]. cbn [app].
      destruct (tbl XT_HEX_OK h2) eqn:E2; cbn [negb]; [|eexists; split; [reflexivity|exact I]].
      destruct (Nat.leb_spec 321 (length acc)) as [Hbad|_]; [ulia|].
      apply XT_HEX_OK_spec in E1 as (v1 & U1 & T1 & B1). apply XT_HEX_OK_spec in E2 as (v2 & U2 & T2 & B2).
      rewrite T1, T2.
      replace ((v1 * 16 + v2) mod 256)%N with (v1 * 16 + v2)%N by (rewrite N.mod_small; lia).
      cbn [andb]. destruct (N.eqb_spec (v1 * 16 + v2) NUL) as [Ez|Hnz]; [eexists; split; [reflexivity|exact I]|].
      destruct (IH s3 ltac:(simpl in Hlen1; ulia) Hs3 (acc ++ [(v1 * 16 + v2)%N]) (result + 3)%Z
                  ltac:(rewrite app_length; simpl; ulia)) as (r & Hr & Hpost).
      exists r. split; [exact Hr|]. destruct r as [[acc' result']|]; [|exact I].
      destruct Hpost as (x & tail & d & -> & Htail & Hd & Hdn & -> & -> & Hl).
      exists (PLUS :: h1 :: h2 :: x), tail, ((v1 * 16 + v2)%N :: d).
      split; [reflexivity|]. split; [exact Htail|]. split.
      { cbn [xdecode]. change (N.eqb PLUS cPLUS) with true. cbn iota. rewrite U1, U2, Hd. reflexivity. }
      split; [intros [X|X]; [congruence|contradiction]|].
      split; [rewrite <- app_assoc; reflexivity|]. split; [cbn [length]; ulia|exact Hl].
    + destruct (tbl XT_PLAIN_OK c) eqn:Ep; [|eexists; split; [reflexivity|exact I]].
      destruct (Nat.leb_spec 321 (length acc)) as [Hbad|_]; [ulia|].
      apply XT_PLAIN_OK_spec in Ep. destruct (xchar_props c Ep) as (_ & _ & Hx).
      destruct (IH s1 Hlen1 Hs1 (acc ++ [c]) (result + 1)%Z ltac:(rewrite app_length; simpl; ulia)) as (r & Hr & Hpost).
      exists r. split; [exact Hr|]. destruct r as [[acc' result']|]; [|exact I].
      destruct Hpost as (x & tail & d & -> & Htail & Hd & Hdn & -> & -> & Hl).
      exists (c :: x), tail, (c :: d).
      split; [reflexivity|]. split; [exact Htail|]. split.
      { cbn [xdecode]. apply N.eqb_neq in Hplus. unfold cPLUS. unfold PLUS in Hplus. rewrite Hplus. rewrite Hx, Hd. reflexivity. }
      split; [intros [X|X]; [congruence|contradiction]|].
      split; [rewrite <- app_assoc; reflexivity|]. split; [cbn [length]; ulia|exact Hl].
Qed.

(** what an accepted xtext decodes to *)
Definition xt_value (d : bytes) : Prop := xtext_value pton4 pton6 d.

Theorem xtextlen_spec s rest : ~ In NUL s ->
  exists n, xtextlen pton4 pton6 (s ++ NUL :: rest) = Ok n /\
  ((n = -1)%Z \/
   exists x tail d, s = x ++ tail /\ n = Z.of_nat (length x) /\ (tail = [] \/ hd 0%N tail = SP)
     /\ xdecode x = Some d /\ ~ In NUL d /\ xt_value d).
Proof.
  intros Hs. unfold xtextlen.
  destruct (xt_loop_spec rest (length s) s (le_n _) Hs [] 0%Z ltac:(simpl; lia)) as (r & Hr & Hpost).
  rewrite Hr. cbn [bind]. destruct r as [[acc result]|]; [|exists (-1)%Z; split; [reflexivity|now left]].
  destruct Hpost as (x & tail & d & -> & Htail & Hd & Hdn & -> & -> & Hl). cbn [app] in *. rewrite Z.add_0_l.
  destruct (Nat.eqb_spec (length d) 0) as [E0|Hne].
  { eexists. split; [reflexivity|]. right. exists x, tail, d. destruct d; [|discriminate]. unfold xt_value, xtext_value. auto 10. }
  xt_consts. destruct (Nat.leb_spec 321 (length d)) as [Hbad|_]; [ulia|].
  change (d ++ [NUL]) with (d ++ NUL :: []).
  rewrite strcmp_run; [|assumption|vm_compute; intuition discriminate]. cbn [bind].
  destruct (bytes_eqb d [60; 62]%N) eqn:Enp.
  { apply bytes_eqb_eq in Enp. eexists. split; [reflexivity|]. right. exists x, tail, d. unfold xt_value, xtext_value. auto 10. }
  unfold addrspec_valid. unfold AV_MIN.
  destruct (parseaddr_spec pton4 pton6 d [] Hdn) as (rc & Hrc & Hp). rewrite Hrc. cbn [bind].
  destruct (Nat.leb_spec 3 rc) as [H3|_]; [|exists (-1)%Z; split; [reflexivity|now left]].
  eexists. split; [reflexivity|]. right. exists x, tail, d.
  repeat (split; [assumption || reflexivity|]).
  unfold xt_value, xtext_value. destruct rc as [|[|[|[|[|]]]]]; try ulia; cbn in Hp; auto; destruct Hp.
Qed.

End Oracle.

(** need_recode: the literal model (offsets, fuel) computes [nr_fun] of its window, reads only
    inside it and never runs out of fuel; and what [nr_fun] decides is exactly
    "some octet is NUL or >= 128" / "some line is longer than 998 octets". *)
From Qv Require Import Common.Bytes Gen.GenQrdata Model.Mime Model.QrData Model.QrDataL2 Proofs.QrMemLemmas
  Spec.SmtpDataSpec.
Require Import Lia.

Lemma nr_loop_eq fuel m b len pos res llen inbody :
  nr_loop fuel m b len pos res llen inbody =
  if Nat.ltb pos len && negb (f8 res && fline res) then
    match fuel with
    | O => OutOfFuel
    | S fu =>
        let res := if Nat.ltb NR_LIMIT llen then set_long res inbody else res in
        do c <- rd m (b + pos);
        if is8 c then nr_loop fu m b len (S pos) (mkFlags true (fline res) (fhdr res)) (S llen) inbody
        else if is_eol c then
          do pos1 <- (if N.eqb c CR && Nat.ltb (S pos) len then
                        do c2 <- rd m (b + S pos); Ok (if N.eqb c2 LF then S pos else pos)
                      else Ok pos);
          let inbody1 := if Nat.eqb llen 0 then true else inbody in
          if Nat.ltb (len - pos1) NR_SHORT && f8 res then Ok res
          else nr_loop fu m b len (S pos1) res 0 inbody1
        else nr_loop fu m b len (S pos) res (S llen) inbody
    end
  else Ok (if Nat.ltb NR_LIMIT llen then set_long res inbody else res).
Proof. destruct fuel; reflexivity. Qed.

Section Window.
Variable m : bytes.
Variables b len : nat.
Variable Hwin : b + len <= length m.
Let w := sub m b len.

Let w_length : length w = len.
Proof. apply sub_length. exact Hwin. Qed.

Let rd_win i : i < len -> rd m (b + i) = Ok (nth i w 0%N).
Proof. intros H. rewrite rd_ok by lia. unfold w. now rewrite nth_sub. Qed.

Let skipn_win i : i < len -> skipn i w = nth i w 0%N :: skipn (S i) w.
Proof. intros H. apply skipn_nth_cons. rewrite w_length. exact H. Qed.

Lemma nr_loop_ok : forall fuel pos res llen inbody,
  pos <= len -> len - pos < fuel ->
  nr_loop fuel m b len pos res llen inbody = Ok (nr_fun (skipn pos w) res llen inbody).
Proof.
  induction fuel as [|fuel IH]; intros pos res llen inbody Hpos Hfuel; [lia|].
  rewrite nr_loop_eq.
  destruct (Nat.ltb_spec pos len) as [Hlt|Hge]; cbn [andb].
  2: { rewrite skipn_all' by (rewrite w_length; lia). reflexivity. }
  rewrite (skipn_win pos) by exact Hlt. set (c := nth pos w 0%N). cbn [nr_fun].
  destruct (f8 res && fline res) eqn:Eboth; cbn [negb]; [reflexivity|].
  cbv zeta. fold (nr_final res llen inbody). set (res1 := nr_final res llen inbody).
  rewrite rd_win by exact Hlt. cbn [bind]. fold c.
  destruct (is8 c) eqn:E8.
  { apply IH; lia. }
  destruct (is_eol c) eqn:Eeol.
  2: { apply IH; lia. }
  destruct (Nat.ltb_spec (S pos) len) as [Hlt2|Hge2].
  - rewrite (skipn_win (S pos)) by exact Hlt2. set (c2 := nth (S pos) w 0%N).
    assert (Hlen2 : length (skipn (S (S pos)) w) = len - S (S pos)) by (rewrite skipn_length, w_length; lia).
    assert (Hlen1 : length (c2 :: skipn (S (S pos)) w) = len - S pos) by (cbn [length]; lia).
    destruct (N.eqb c CR) eqn:ECR; cbn [andb].
    + replace (b + S pos) with (b + (S pos)) by lia. rewrite rd_win by exact Hlt2. cbn [bind]. fold c2.
      destruct (N.eqb c2 LF) eqn:ELF.
      * replace (S (length (skipn (S (S pos)) w))) with (len - S pos) by lia.
        destruct (Nat.ltb (len - S pos) NR_SHORT && f8 res1); [reflexivity|]. apply IH; lia.
      * rewrite Hlen1. replace (S (len - S pos)) with (len - pos) by lia.
        destruct (Nat.ltb (len - pos) NR_SHORT && f8 res1); [reflexivity|].
        rewrite IH by lia. rewrite (skipn_win (S pos)) by exact Hlt2. reflexivity.
    + cbn [bind]. rewrite Hlen1. replace (S (len - S pos)) with (len - pos) by lia.
      destruct (Nat.ltb (len - pos) NR_SHORT && f8 res1); [reflexivity|].
      rewrite IH by lia. rewrite (skipn_win (S pos)) by exact Hlt2. reflexivity.
  - rewrite (skipn_all' w (S pos)) by (rewrite w_length; lia).
    replace (N.eqb c CR && false) with false by (destruct (N.eqb c CR); reflexivity).
    cbn [bind]. replace (len - pos) with 1 by lia.
    destruct (Nat.ltb 1 NR_SHORT && f8 res1); [reflexivity|].
    rewrite IH by lia. rewrite skipn_all' by (rewrite w_length; lia). reflexivity.
Qed.

Theorem need_recode_ok : need_recode m b len = Ok (nr_fun w flags0 0 false).
Proof. unfold need_recode. rewrite nr_loop_ok by lia. reflexivity. Qed.

End Window.

(* ------------------------------------------------------------------ what nr_fun decides *)
Ltac consts := unfold NR_LIMIT, NR_SHORT, MAXLINE in *.

Definition flong (f : Flags) : bool := fline f || fhdr f.

Lemma flong_final res llen inbody : flong (nr_final res llen inbody) = flong res || Nat.ltb NR_LIMIT llen.
Proof.
  unfold nr_final, flong, set_long. destruct (Nat.ltb NR_LIMIT llen), inbody, (fline res), (fhdr res); reflexivity.
Qed.

Lemma f8_final res llen inbody : f8 (nr_final res llen inbody) = f8 res.
Proof. unfold nr_final, set_long. destruct (Nat.ltb NR_LIMIT llen), inbody; reflexivity. Qed.

Lemma fline_final_mono res llen inbody : fline res = true -> fline (nr_final res llen inbody) = true.
Proof. unfold nr_final, set_long. destruct (Nat.ltb NR_LIMIT llen), inbody; cbn; auto. Qed.

(** the rest behind a line end *)
Definition after_eol (c : N) (r : bytes) : bytes :=
  match r with
  | c2 :: r2 => if N.eqb c CR && N.eqb c2 LF then r2 else r
  | [] => r
  end.

Lemma after_eol_length c r : length (after_eol c r) <= length r.
Proof. destruct r as [|c2 r2]; cbn; [lia|]. destruct (N.eqb c CR && N.eqb c2 LF); cbn; lia. Qed.

(** some line is too long, given that the current line already has [llen] octets *)
Fixpoint longrun (llen : nat) (rest : bytes) : bool :=
  match rest with
  | [] => Nat.ltb MAXLINE llen
  | c :: r =>
      if is_eol c then
        Nat.ltb MAXLINE llen ||
        longrun 0 (match r with c2 :: r2 => if N.eqb c CR && N.eqb c2 LF then r2 else r | [] => r end)
      else longrun (S llen) r
  end.

Lemma longrun_short : forall rest llen, llen + length rest <= MAXLINE -> longrun llen rest = false.
Proof.
  intros rest. remember (length rest) as n eqn:En. revert rest En.
  induction n as [n IH] using lt_wf_ind. intros rest En llen H.
  destruct rest as [|c r]; cbn [longrun].
  - apply Nat.ltb_ge. cbn in H. lia.
  - cbn [length] in *. destruct (is_eol c).
    + replace (Nat.ltb MAXLINE llen) with false by (symmetry; apply Nat.ltb_ge; lia). cbn [orb].
      pose proof (after_eol_length c r) as Hl. unfold after_eol in Hl.
      eapply IH; [|reflexivity|]; lia.
    + eapply IH; [|reflexivity|]; lia.
Qed.

Lemma longrun_cons llen c r :
  longrun llen (c :: r) = if is_eol c then Nat.ltb MAXLINE llen || longrun 0 (after_eol c r) else longrun (S llen) r.
Proof. reflexivity. Qed.

(** nr_fun rewritten with after_eol *)
Lemma nr_fun_eol c r res llen inbody :
  f8 res && fline res = false -> is8 c = false -> is_eol c = true ->
  nr_fun (c :: r) res llen inbody =
  let res1 := nr_final res llen inbody in
  let inbody1 := if Nat.eqb llen 0 then true else inbody in
  if Nat.ltb (S (length (after_eol c r))) NR_SHORT && f8 res1 then res1 else nr_fun (after_eol c r) res1 0 inbody1.
Proof.
  intros H1 H2 H3. cbn [nr_fun]. rewrite H1, H2, H3. cbv zeta.
  destruct r as [|c2 r2]; cbn [after_eol length].
  - destruct (Nat.ltb 1 NR_SHORT && f8 (nr_final res llen inbody)); reflexivity.
  - destruct (N.eqb c CR && N.eqb c2 LF); reflexivity.
Qed.

Lemma nr_fun_facts : forall rest res llen inbody,
  let fl := nr_fun rest res llen inbody in
  f8 fl = f8 res || existsb is8 rest /\ flong fl = flong res || longrun llen rest.
Proof.
  intros rest. remember (length rest) as n eqn:En. revert rest En.
  induction n as [n IH] using lt_wf_ind. intros rest En res llen inbody.
  destruct rest as [|c r].
  - cbn [nr_fun existsb longrun]. rewrite f8_final, flong_final. consts. rewrite Bool.orb_false_r. auto.
  - cbv zeta. destruct (f8 res && fline res) eqn:Eboth.
    + (* both bits known: the loop stops *)
      cbn [nr_fun]. rewrite Eboth. apply andb_prop in Eboth as [E8 El].
      rewrite f8_final, E8. split; [reflexivity|].
      unfold flong at 1 2. rewrite (fline_final_mono _ _ _ El), El. reflexivity.
    + cbn [existsb]. rewrite longrun_cons. destruct (is8 c) eqn:Ec8.
      * (* 8-bit octet *)
        cbn [nr_fun]. rewrite Eboth, Ec8. cbv zeta.
        assert (Hne : is_eol c = false).
        { unfold is8, is_eol in *. destruct (N.eqb_spec c CR) as [->|]; [discriminate|].
          destruct (N.eqb_spec c LF) as [->|]; [discriminate|]. reflexivity. }
        rewrite Hne.
        edestruct (IH (length r)) as [A B]; [cbn in En; lia|reflexivity|].
        rewrite A, B. cbn [f8].
        change (flong {| f8 := true; fline := fline (nr_final res llen inbody); fhdr := fhdr (nr_final res llen inbody) |})
          with (flong (nr_final res llen inbody)).
        rewrite flong_final. rewrite !Bool.orb_true_r.
        split; [reflexivity|].
        (* llen > limit now or later: longrun (S llen) covers it *)
        destruct (Nat.ltb_spec NR_LIMIT llen) as [Hl|Hl]; [|now rewrite Bool.orb_false_r].
        rewrite Bool.orb_true_r. cbn [orb].
        assert (longrun (S llen) r = true) as ->; [|now rewrite Bool.orb_true_r].
        clear - Hl. revert llen Hl. induction r as [|x r IHr]; intros llen Hl; cbn [longrun].
        -- apply Nat.ltb_lt. consts. lia.
        -- destruct (is_eol x); [|apply IHr; consts; lia].
           replace (Nat.ltb MAXLINE (S llen)) with true by (symmetry; apply Nat.ltb_lt; consts; lia). reflexivity.
      * destruct (is_eol c) eqn:Eeol.
        -- (* line end *)
           rewrite nr_fun_eol by assumption. cbv zeta.
           pose proof (after_eol_length c r) as Hal.
           set (res1 := nr_final res llen inbody).
           assert (F8 : f8 res1 = f8 res) by apply f8_final.
           assert (FL : flong res1 = flong res || Nat.ltb NR_LIMIT llen) by apply flong_final.
           assert (Hex2 : existsb is8 (after_eol c r) = existsb is8 r).
           { unfold after_eol. destruct r as [|c2 r2]; [reflexivity|].
             destruct (N.eqb c CR && N.eqb c2 LF) eqn:E; [|reflexivity].
             apply andb_prop in E as [_ E2]. apply N.eqb_eq in E2. subst c2. reflexivity. }
           edestruct (IH (length (after_eol c r))) as [A B]; [cbn in En; lia|reflexivity|].
           destruct (Nat.ltb_spec (S (length (after_eol c r))) NR_SHORT) as [Hshort|Hnshort]; cbn [andb].
           ++ destruct (f8 res1) eqn:E81.
              ** (* early return *)
                 rewrite E81, FL. rewrite <- F8. cbn [orb]. split; [reflexivity|].
                 rewrite (longrun_short (after_eol c r) 0) by (consts; lia).
                 rewrite Bool.orb_false_r. consts. reflexivity.
              ** rewrite A, B, E81, FL, Hex2. rewrite <- F8. consts. split; [reflexivity|]. now rewrite <- Bool.orb_assoc.
           ++ rewrite A, B, F8, FL, Hex2. consts. split; [reflexivity|]. now rewrite <- Bool.orb_assoc.
        -- (* ordinary octet *)
           cbn [nr_fun]. rewrite Eboth, Ec8, Eeol. cbv zeta.
           edestruct (IH (length r)) as [A B]; [cbn in En; lia|reflexivity|].
           rewrite A, B. rewrite f8_final, flong_final. split; [reflexivity|].
           destruct (Nat.ltb_spec NR_LIMIT llen) as [Hl|Hl]; [|now rewrite Bool.orb_false_r].
           assert (longrun (S llen) r = true) as ->; [|now rewrite !Bool.orb_true_r].
           clear - Hl. revert llen Hl. induction r as [|x r IHr]; intros llen Hl; cbn [longrun].
           ++ apply Nat.ltb_lt. consts. lia.
           ++ destruct (is_eol x); [|apply IHr; consts; lia].
              replace (Nat.ltb MAXLINE (S llen)) with true by (symmetry; apply Nat.ltb_lt; consts; lia). reflexivity.
Qed.

(* ------------------------------------------------------------------ relation to the lines of the message *)
Definition too_long (l : bytes) : bool := Nat.ltb MAXLINE (length l).

Lemma split_lines_cons c r :
  split_lines (c :: r) =
  if is_eol c then [] :: split_lines (after_eol c r)
  else match split_lines r with [] => [[c]] | l :: ls => (c :: l) :: ls end.
Proof.
  unfold is_eol, after_eol. cbn [split_lines].
  destruct (N.eqb_spec c CR) as [->|Hc]; cbn [orb andb].
  - destruct r as [|c2 r2]; [reflexivity|]. destruct (N.eqb c2 LF); reflexivity.
  - destruct (N.eqb c LF); [|reflexivity]. destruct r; reflexivity.
Qed.

Lemma longrun_lines : forall m k,
  longrun k m = match split_lines m with
                | [] => Nat.ltb MAXLINE k
                | l :: ls => Nat.ltb MAXLINE (k + length l) || existsb too_long ls
                end.
Proof.
  intros m. remember (length m) as n eqn:En. revert m En.
  induction n as [n IH] using lt_wf_ind. intros m En k.
  destruct m as [|c r]; [reflexivity|].
  rewrite longrun_cons, split_lines_cons. destruct (is_eol c).
  - cbn [length]. rewrite Nat.add_0_r. f_equal.
    pose proof (after_eol_length c r) as Hal.
    rewrite (IH (length (after_eol c r))) by (cbn in En; lia || reflexivity).
    destruct (split_lines (after_eol c r)) as [|l ls]; reflexivity.
  - rewrite (IH (length r)) by (cbn in En; lia || reflexivity).
    destruct (split_lines r) as [|l ls]; cbn [length existsb].
    + rewrite Bool.orb_false_r. f_equal. lia.
    + f_equal. f_equal. lia.
Qed.

Lemma longrun_has_long m : longrun 0 m = has_long_line m.
Proof.
  rewrite longrun_lines. unfold has_long_line. fold too_long.
  destruct (split_lines m) as [|l ls]; reflexivity.
Qed.

(** need_recode decides exactly what the specification asks for *)
Theorem need_recode_decides (m : bytes) (ext8 : bool) :
  exists fl, need_recode m 0 (length m) = Ok fl /\
    f8 fl = has_8bit m /\ (fline fl || fhdr fl) = has_long_line m /\
    takes_qp ext8 fl = must_recode ext8 m.
Proof.
  eexists. split; [apply need_recode_ok; lia|].
  assert (Hw : sub m 0 (length m) = m) by (unfold sub; cbn [skipn]; apply firstn_all).
  rewrite Hw.
  destruct (nr_fun_facts m flags0 0 false) as [A B]. cbv zeta in A, B.
  cbn [f8 flags0 orb] in A. unfold flong at 2 in B. cbn [fline fhdr flags0 orb] in B.
  rewrite longrun_has_long in B. unfold flong in B.
  split; [exact A|]. split; [exact B|].
  unfold takes_qp, must_recode. rewrite <- Bool.orb_assoc. rewrite A, B. reflexivity.
Qed.
